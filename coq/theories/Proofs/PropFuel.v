(* C03: the fuel of Model.Propagate.propagate always suffices (the out-of-fuel result None never
   occurs on well-shaped inputs): potential = |heap rows| + 8 * |pixels not yet finalised|. *)
From Coq Require Import ZArith List Bool Lia ZifyBool ZifyNat Permutation.
From Coq Require PrimFloat.
From Centro Require Import Base.PropFloat Model.PropHeap Model.Propagate Proofs.PropHeapInv Proofs.PropHeapKey
     Proofs.PropGrid Proofs.PropDijkstra.
Import ListNotations.
Open Scope Z_scope.

Definition zeros (r : list Z) : nat := length (filter (Z.eqb 0) r).
Fixpoint count0 (l : list (list Z)) : nat :=
  match l with [] => O | r :: t => (zeros r + count0 t)%nat end.

Lemma zeros_upd : forall r k v, (k < length r)%nat -> nth k r 0 = 0 -> v <> 0 ->
  (zeros (upd r k v) + 1 = zeros r)%nat.
Proof.
  unfold zeros. induction r as [|h t IH]; intros [|k] v Hk Hz Hv; cbn [length] in Hk; try lia.
  - cbn [nth] in Hz. subst h. cbn [upd filter]. replace (0 =? v) with false by lia.
    change (0 =? 0) with true. cbn [length]. lia.
  - cbn [nth] in Hz. cbn [upd filter]. destruct (0 =? h); cbn [length]; rewrite <- (IH k v) by (auto; lia); lia.
Qed.

Lemma count0_upd : forall l i r', (i < length l)%nat -> (zeros r' + 1 = zeros (nth i l []))%nat ->
  (count0 (upd l i r') + 1 = count0 l)%nat.
Proof.
  induction l as [|h t IH]; intros [|i] r' Hi Hz; cbn [length] in Hi; try lia.
  - cbn [nth] in Hz. cbn [upd count0]. lia.
  - cbn [nth] in Hz. cbn [upd count0]. rewrite <- (IH i r') by (auto; lia). lia.
Qed.

Lemma count0_zero_map : forall (l : list (list Z)) m n, shape l m n ->
  count0 (map (map (fun _ => 0)) l) = (Z.to_nat m * Z.to_nat n)%nat.
Proof.
  intros l m n [H1 H2]. rewrite <- H1. clear H1. induction l as [|h t IH]; [reflexivity|].
  inversion H2 as [|? ? Hh Ht]. subst. cbn [map count0 length]. rewrite (IH Ht).
  assert (E : zeros (map (fun _ : Z => 0) h) = length h).
  { unfold zeros. clear. induction h as [|x r IHr]; [reflexivity|]. cbn [map filter]. change (0 =? 0) with true.
    cbn [length]. rewrite IHr. reflexivity. }
  rewrite E, Hh. lia.
Qed.

Section Fuel.
Variable key : keymode.
Variable image : list (list float).
Variable mask : list (list bool).
Variables m n : Z.
Variable weight : float.

Definition rowJ (r : row) : Prop := inr m n (pixel_of r) /\ nth 2 r 0 <> 0.

Lemma relax_J : forall lab label i1 j1 d0 o acc, label <> 0 -> Forall rowJ (rows (snd acc)) ->
  Forall rowJ (rows (snd (relax key image mask m n weight lab label i1 j1 d0 acc o))) /\
  (length (rows (snd (relax key image mask m n weight lab label i1 j1 d0 acc o))) <= length (rows (snd acc)) + 1)%nat.
Proof.
  intros lab label i1 j1 d0 o [dist hp] Hl HF. unfold relax. cbn [fst snd].
  set (i2 := i1 + fst o). set (j2 := j1 + snd o).
  destruct ((i2 <? 0) || (i2 >=? m) || (j2 <? 0) || (j2 >=? n)) eqn:Hb; cbn [fst snd]; [split; [exact HF | lia]|].
  destruct (0 <? get2 0 lab i2 j2); cbn [fst snd]; [split; [exact HF | lia]|].
  destruct (negb (get2 false mask i2 j2)); cbn [fst snd]; [split; [exact HF | lia]|].
  match goal with |- context [if ?c then _ else _] => destruct c end; cbn [fst snd]; [|split; [exact HF | lia]]. pose proof (heap_multiset_push hp
    [most_sig (bits_of_float (PrimFloat.add (step_cost image i1 j1 i2 j2 m n weight) d0));
     least_sig key (bits_of_float (PrimFloat.add (step_cost image i1 j1 i2 j2 m n weight) d0)); label; i2; j2]) as HP.
  split.
  - eapply Permutation_Forall; [apply Permutation_sym; exact HP|]. constructor; [|exact HF].
    split; [|cbn [nth]; exact Hl]. unfold pixel_of, inr. cbn [nth fst snd]. lia.
  - rewrite (Permutation_length HP). cbn [length]. lia.
Qed.

Lemma relax_fold_J : forall lab label i1 j1 d0 offs acc, label <> 0 -> Forall rowJ (rows (snd acc)) ->
  Forall rowJ (rows (snd (fold_left (relax key image mask m n weight lab label i1 j1 d0) offs acc))) /\
  (length (rows (snd (fold_left (relax key image mask m n weight lab label i1 j1 d0) offs acc)))
   <= length (rows (snd acc)) + length offs)%nat.
Proof.
  intros lab label i1 j1 d0 offs. induction offs as [|o r IH]; intros acc Hl HF; cbn [fold_left length].
  - split; [exact HF | lia].
  - destruct (relax_J lab label i1 j1 d0 o acc Hl HF) as [H1 H2].
    destruct (IH _ Hl H1) as [H3 H4]. split; [exact H3 | lia].
Qed.

Lemma loop_total : forall fuel st,
  shape (s_lab st) m n -> Forall rowJ (rows (s_hp st)) ->
  (length (rows (s_hp st)) + 8 * count0 (s_lab st) < fuel)%nat ->
  snd (loop key image mask m n weight fuel st) = true.
Proof.
  induction fuel as [|f IH]; intros st Hs HF Hlt; [lia|]. cbn [loop].
  destruct (rows (s_hp st)) as [|r0 rest] eqn:Hrows; [reflexivity|].
  assert (Hne : rows (s_hp st) <> []) by (rewrite Hrows; discriminate).
  pose proof (heap_multiset_pop (s_hp st) Hne) as HP.
  destruct (heappop (s_hp st)) as [e hp1] eqn:Hpop. cbn [fst snd] in HP. rewrite Hrows in HP.
  assert (HF1 : Forall rowJ (e :: rows hp1)) by (eapply Permutation_Forall; eassumption).
  inversion HF1 as [|? ? He Hrest]. subst.
  assert (Hlen : length (r0 :: rest) = S (length (rows hp1))) by (rewrite (Permutation_length HP); reflexivity).
  destruct (get2 0 (s_lab st) (nth 3 e 0) (nth 4 e 0) =? 0) eqn:Hz.
  - destruct He as [[Hi Hj] Hl]. unfold pixel_of in Hi, Hj. cbn [fst snd] in Hi, Hj.
    set (lab1 := set2 (s_lab st) (nth 3 e 0) (nth 4 e 0) (nth 2 e 0)).
    set (d0 := get2 PrimFloat.zero (s_dist st) (nth 3 e 0) (nth 4 e 0)).
    destruct (relax_fold_J lab1 (nth 2 e 0) (nth 3 e 0) (nth 4 e 0) d0 offsets8 (s_dist st, hp1) Hl Hrest) as [H1 H2].
    cbn [fst snd] in H1, H2.
    destruct (fold_left (relax key image mask m n weight lab1 (nth 2 e 0) (nth 3 e 0) (nth 4 e 0) d0) offsets8
                        (s_dist st, hp1)) as [dist1 hp2] eqn:Hfold.
    cbn [fst snd] in H1, H2.
    apply (IH (mkst lab1 dist1 hp2)); cbn [s_lab s_hp].
    + apply set2_shape; assumption.
    + exact H1.
    + assert (Hc : (count0 lab1 + 1 = count0 (s_lab st))%nat).
      { unfold lab1, set2. pose proof (shape_row m n Z (s_lab st) (nth 3 e 0) Hs Hi) as Hr.
        destruct Hs as [Hs1 Hs2].
        apply count0_upd; [lia|]. apply zeros_upd; [lia | | exact Hl].
        unfold get2 in Hz. lia. }
      change (length offsets8) with 8%nat in H2. lia.
  - apply (IH (mkst (s_lab st) (s_dist st) hp1)); cbn [s_lab s_hp]; [exact Hs | exact Hrest | lia].
Qed.

Theorem fuel_sufficient_sec : forall labels, shape labels m n -> 0 <= m -> 0 <= n ->
  exists lo d, propagate key image labels mask m n weight = Some (lo, d).
Proof.
  intros labels Hsh Hm Hn. unfold propagate.
  match goal with |- context [loop _ _ _ _ _ _ ?fuel ?st0] =>
    pose proof (loop_total fuel st0) as HT; destruct (loop key image mask m n weight fuel st0) as [st ok] end.
  cbn [snd s_lab s_hp] in HT. rewrite HT; [eexists; eexists; reflexivity | | |].
  - apply map2_shape. exact Hsh.
  - unfold heap_from_rows. cbn [rows]. apply Forall_forall. intros r Hr.
    apply in_flat_map in Hr. destruct Hr as [[a b] [Hc Hr]]. cbn [fst snd] in Hr.
    apply coords_In in Hc.
    destruct (negb (get2 0 labels a b =? 0) && get2 false mask a b) eqn:E; [|destruct Hr].
    destruct Hr as [<-|[]]. apply andb_prop in E. destruct E as [E1 E2].
    split; [unfold pixel_of, inr; cbn [nth fst snd]; lia | cbn [nth]; lia].
  - unfold heap_from_rows. cbn [rows]. rewrite (count0_zero_map labels m n Hsh).
    rewrite Z2Nat.inj_mul by lia. generalize (Z.to_nat m * Z.to_nat n)%nat. intros x.
    rewrite Nat.add_1_r. apply Nat.lt_succ_diag_r.
Qed.
End Fuel.

Theorem fuel_sufficient : forall key image labels mask m n weight, shape labels m n -> 0 <= m -> 0 <= n ->
  exists lo d, propagate key image labels mask m n weight = Some (lo, d).
Proof. intros. apply fuel_sufficient_sec; assumption. Qed.
