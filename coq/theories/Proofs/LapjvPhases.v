(* C01 — phase invariants of the executable model (Model/Lapjv.v), phase 1: after column reduction
   the prices v are dual feasible (every listed reduced cost c - v[j] is non-negative) and every
   assigned row sits on a listed pair of reduced cost zero, i.e. on a column of minimal reduced
   cost (the invariant SlackV of design/prototypes/JvAbstract.v, stated in v only). *)
From Coq Require Import ZArith List Bool Lia ZifyBool Arith.
From Centro Require Import Base.Sx Model.Lapjv Spec.Lapjv.
Import ListNotations.
Open Scope Z_scope.

(* ---------------------------------------------------------------- arrays *)

Lemma upd_length {A} (l : list A) k a : length (upd l k a) = length l.
Proof. revert k; induction l as [|h r IH]; intros [|k]; cbn [upd length]; auto. Qed.

Lemma nth_upd {A} (l : list A) k a i d :
  nth i (upd l k a) d = if ((i =? k)%nat && (k <? length l)%nat) then a else nth i l d.
Proof.
  revert k i; induction l as [|h r IH]; intros k i.
  - cbn [upd length]. destruct i, k; cbn; auto; rewrite ?andb_false_r; auto.
  - destruct k as [|k], i as [|i]; cbn [upd nth length]; auto.
    rewrite IH. cbn [Nat.eqb]. replace (S k <? S (length r))%nat with (k <? length r)%nat; auto.
Qed.

Lemma nth_map_seq {A} (f : nat -> A) n j d : (j < n)%nat -> nth j (map f (seq 0 n)) d = f j.
Proof.
  intros H. rewrite (nth_indep _ d (f 0%nat)) by (rewrite map_length, seq_length; auto).
  rewrite map_nth, seq_nth; auto.
Qed.

(* ---------------------------------------------------------------- col_min *)

Lemma col_min_acc j tri bc bi :
  exists c i, col_min j tri (Some (bc, bi)) = Some (c, i) /\ c <= bc.
Proof.
  revert bc bi; induction tri as [|t r IH]; intros bc bi; cbn [col_min].
  - exists bc, bi; split; auto; lia.
  - destruct ((t_j t =? j)%nat && better (t_c t) (t_i t) (Some (bc, bi))) eqn:E.
    + destruct (IH (t_c t) (t_i t)) as [c [i [H L]]]. exists c, i; split; auto.
      apply andb_true_iff in E as [_ B]. cbn [better] in B. lia.
    + apply IH.
Qed.

Lemma col_min_lower j tri b t :
  In t tri -> t_j t = j -> exists c i, col_min j tri b = Some (c, i) /\ c <= t_c t.
Proof.
  revert b; induction tri as [|h r IH]; intros b Hin Hj; [destruct Hin|].
  cbn [col_min]. destruct Hin as [->|Hin].
  - rewrite Hj, Nat.eqb_refl. cbn [andb].
    destruct (better (t_c t) (t_i t) b) eqn:B.
    + destruct (col_min_acc j r (t_c t) (t_i t)) as [c [i [H L]]]. exists c, i; auto.
    + destruct b as [[bc bi]|]; [|discriminate]. cbn [better] in B.
      destruct (col_min_acc j r bc bi) as [c [i [H L]]]. exists c, i; split; auto. lia.
  - apply IH; auto.
Qed.

Lemma col_min_mem j tri b c i :
  col_min j tri b = Some (c, i) -> b = Some (c, i) \/ In (i, j, c) tri.
Proof.
  revert b; induction tri as [|t r IH]; intros b; cbn [col_min]; [auto|].
  intros H. apply IH in H. destruct H as [H|H]; [|right; right; auto].
  destruct ((t_j t =? j)%nat && better (t_c t) (t_i t) b) eqn:E; [|auto].
  inversion H; subst. apply andb_true_iff in E as [E _]. apply Nat.eqb_eq in E. subst j.
  right; left. destruct t as [[a b'] c']; reflexivity.
Qed.

(* ---------------------------------------------------------------- phase 1: v *)

Lemma v_init_nth n tri j : (j < n)%nat ->
  gete (v_init n tri) j = match col_min j tri None with Some (c, _) => Fin c | None => NaN end.
Proof.
  intros H. unfold gete, v_init, col_mins. rewrite map_map. rewrite nth_map_seq; auto.
Qed.

Lemma min_i_nth n tri j : (j < n)%nat ->
  nth j (min_i n tri) n = match col_min j tri None with Some (_, i) => i | None => n end.
Proof.
  intros H. unfold min_i, col_mins. rewrite map_map. rewrite nth_map_seq; auto.
Qed.

Theorem column_reduction_feasible n tri t :
  In t tri -> (t_j t < n)%nat ->
  exists c, gete (v_init n tri) (t_j t) = Fin c /\ 0 <= t_c t - c.
Proof.
  intros Hin Hj. rewrite v_init_nth by auto.
  destruct (col_min_lower (t_j t) tri None t Hin eq_refl) as [c [i [E L]]].
  rewrite E. exists c; split; auto. lia.
Qed.

(* ---------------------------------------------------------------- phase 1: x *)

Lemma x_init_go_spec n mi : forall j0 x i j,
  getn (x_init_go mi j0 x) i n = j ->
  getn x i n = j \/ ((j0 <= j < j0 + length mi)%nat /\ nth (j - j0) mi n = i /\ (i < length x)%nat).
Proof.
  induction mi as [|i0 r IH]; intros j0 x i j; cbn [x_init_go]; [auto|].
  intros H. apply IH in H. destruct H as [H|[R [H B]]].
  - unfold getn in *. rewrite nth_upd in H.
    destruct ((i =? i0)%nat && (i0 <? length x)%nat) eqn:E; [|auto].
    right. apply andb_true_iff in E as [E E2]. apply Nat.eqb_eq in E. apply Nat.ltb_lt in E2. subst.
    cbn [length]. split; [lia|]. rewrite Nat.sub_diag. split; [reflexivity|exact E2].
  - right. cbn [length]. rewrite upd_length in B. split; [lia|]. split; [|exact B].
    replace (j - j0)%nat with (S (j - S j0)) by lia. exact H.
Qed.

Theorem column_reduction_tight n tri i j :
  getn (x_init n (min_i n tri)) i n = j -> j <> n ->
  (j < n)%nat /\ exists c, gete (v_init n tri) j = Fin c /\ In (i, j, c) tri.
Proof.
  intros H Hn. unfold x_init in H. apply x_init_go_spec in H.
  destruct H as [H|[R [H B]]].
  - exfalso. unfold getn in H. rewrite nth_repeat in H. congruence.
  - assert (Len : length (min_i n tri) = n).
    { unfold min_i, col_mins. rewrite !map_length, seq_length. reflexivity. }
    rewrite Len in R. rewrite Nat.sub_0_r in H. assert (Hj : (j < n)%nat) by lia. split; auto.
    rewrite min_i_nth in H by auto. rewrite v_init_nth by auto.
    destruct (col_min j tri None) as [[c i']|] eqn:E.
    + subst i'. exists c; split; auto. apply col_min_mem in E. destruct E as [E|E]; [discriminate|auto].
    + (* column j not mentioned: min_i j = n, but then i = n cannot index x *)
      exfalso. subst i. rewrite repeat_length in B. lia.
Qed.

(* both halves together: the state (x0, v0) that lapjv() hands to the later phases satisfies SlackV *)
Theorem column_reduction_inv n tri :
  (forall t, In t tri -> (t_j t < n)%nat ->
     exists c, gete (v_init n tri) (t_j t) = Fin c /\ 0 <= t_c t - c) /\
  (forall i j, getn (x_init n (min_i n tri)) i n = j -> j <> n ->
     (j < n)%nat /\ exists c, gete (v_init n tri) j = Fin c /\ In (i, j, c) tri).
Proof.
  split; [intros; apply column_reduction_feasible; auto | intros; eapply column_reduction_tight; eauto].
Qed.

Example column_reduction_example :
  let tri := [(0, 0, 2); (0, 2, 5); (1, 0, 0); (1, 1, 4); (2, 1, 3); (2, 2, 1)]%nat in
  x_init 3 (min_i 3 (map (fun t => (fst (fst t), snd (fst t), Z.of_nat (snd t))) tri)) = [3; 0; 2]%nat.
Proof. vm_compute. reflexivity. Qed.
