(* C14 — the minimum construction of feret_diameter: every pair recorded by the sweep is antipodal
   (the distance to the edge arriving at the vertex does not increase past the antipode, the
   distance to the edge leaving the vertex does not decrease up to it), and therefore every
   distance the code keeps as a candidate for the minimum - vertex v to the line through hull
   points a, a+1 when both are antipodes of v - is the full width of the strip resting on that edge. *)
From Coq Require Import ZArith List Bool Lia ZifyBool.
From Centro Require Import Base.Sx Model.Feret Spec.FeretSpec Spec.CalipersHyp
  Proofs.FeretProofs Proofs.SweepProofs Proofs.CalipersGeom Proofs.CalipersPath Proofs.CalipersMax.
Import ListNotations.
Open Scope Z_scope.

Lemma first_argmax_first pm p1 : forall vs k best a c,
  first_argmax vs pm p1 k best = Some (a, c) ->
  best = Some (a, c) \/
  ((k <= a)%nat /\ (forall b bc, best = Some (b, bc) -> bc < c) /\
   forall i, (i < a - k)%nat -> cross2 (nth i vs (0, 0)) pm p1 < c).
Proof.
  induction vs as [|v t IH]; intros k best a c E; cbn [first_argmax] in E; [left; exact E|].
  apply IH in E. destruct best as [[bk bc]|].
  - destruct (bc <? cross2 v pm p1) eqn:C.
    + right. destruct E as [E|(L & Hb & Hi)].
      * inversion E; subst. split; [lia|]. split; [intros b bc' H; inversion H; subst; lia|intros i Hi; lia].
      * split; [lia|]. split; [intros b bc' H; inversion H; subst; specialize (Hb _ _ eq_refl); lia|].
        intros [|i] Hi'; cbn [nth]; [exact (Hb _ _ eq_refl)|apply Hi; lia].
    + destruct E as [E|(L & Hb & Hi)]; [left; exact E|right].
      split; [lia|]. split; [exact Hb|].
      intros [|i] Hi'; cbn [nth]; [specialize (Hb _ _ eq_refl); lia|apply Hi; lia].
  - right. destruct E as [E|(L & Hb & Hi)].
    + inversion E; subst. split; [lia|]. split; [intros b bc H; discriminate|intros i Hi; lia].
    + split; [lia|]. split; [intros b bc H; discriminate|].
      intros [|i] Hi'; cbn [nth]; [exact (Hb _ _ eq_refl)|apply Hi; lia].
Qed.

Section Min.
  Variable h : list fpt.
  Variable sg : Z.
  Let n := length h.
  Hypothesis Sg : sg = 1 \/ sg = -1.
  Hypothesis N3 : (3 <= n)%nat.
  Hypothesis SC : strict_side h sg = true.

  Notation Dm := (Dm h sg).
  Notation fd := (fd h sg).
  Notation nx := (nx h).
  Definition prv (k : nat) : nat := if (k =? 0)%nat then (n - 1)%nat else (k - 1)%nat.

  Lemma nx_prv k : (k < n)%nat -> nx (prv k) = k.
  Proof.
    unfold prv, CalipersPath.nx, nxt. fold n. intro L. destruct (Nat.eqb_spec k 0).
    - destruct (Nat.eqb_spec (S (n - 1)) n); lia.
    - destruct (Nat.eqb_spec (S (k - 1)) n); lia.
  Qed.
  Lemma prv_lt k : (k < n)%nat -> (prv k < n)%nat.
  Proof. unfold prv. intro L. destruct (Nat.eqb_spec k 0); lia. Qed.

  Lemma adv' v a : (v < a < length h)%nat ->
    (cross2 (pnth a h) (pnth v h) (pnth (S v) h) <=?
     cross2 (pnth (if (S a =? length h)%nat then 0%nat else S a) h) (pnth v h) (pnth (S v) h)) = true <-> 0 <= Dm v a.
  Proof. intro R. apply (adv_spec h sg Sg N3 SC 0%nat 1%nat); [fold n; lia|exact R]. Qed.

  Definition Anti (v a : nat) : Prop := Dm (prv v) a <= 0 /\ 0 <= Dm v (a - 1).

  (* ---------------------------------------------------------------- every recorded pair is antipodal *)
  Lemma loop_anti : forall fuel v a acc ps,
    (v < a < n)%nat -> Anti v a -> (forall x, In x acc -> (fst x < snd x < n)%nat /\ Anti (fst x) (snd x)) ->
    sweep_loop fuel h n v a acc = Some ps ->
    forall x, In x ps -> (fst x < snd x < n)%nat /\ Anti (fst x) (snd x).
  Proof.
    induction fuel as [|f IH]; intros v a acc ps Hva An Hacc E; [discriminate|].
    cbn [sweep_loop] in E.
    assert (Rva : (v < a < length h)%nat) by (fold n; lia).
    assert (Hacc' : forall x, In x ((v, a) :: acc) -> (fst x < snd x < n)%nat /\ Anti (fst x) (snd x)).
    { intros x [<-|I]; [cbn [fst snd]; split; [lia|exact An]|apply Hacc; exact I]. }
    destruct (cross2 (pnth a h) (pnth v h) (pnth (S v) h) <=?
              cross2 (pnth (if (S a =? n)%nat then 0%nat else S a) h) (pnth v h) (pnth (S v) h)) eqn:Adv;
      cbv iota in E.
    - (* the antipode advances *)
      apply (adv' v a Rva) in Adv.
      destruct ((S a <? n)%nat && negb (v =? S a)%nat) eqn:C.
      + apply (IH v (S a) ((v, a) :: acc) ps); [lia| |exact Hacc'|exact E].
        destruct An as [A B]. split.
        * (* distance to the arriving edge keeps not increasing *)
          destruct (Nat.eq_dec (S a) (prv v)) as [Ep|Np]; [rewrite <- Ep, Dm_self; lia|].
          assert (Ea : nx a = S a) by (apply (nx_S h sg N3 SC); fold n; lia).
          pose proof (NV h sg Sg N3 SC (prv v) a (prv_lt v ltac:(lia)) ltac:(fold n; lia)) as V.
          rewrite Ea, (nx_prv v ltac:(lia)) in V. specialize (V ltac:(lia) ltac:(lia) A). lia.
        * replace (S a - 1)%nat with a by lia. exact Adv.
      + assert (Eps : ps = rev ((v, a) :: acc)) by congruence. subst ps.
        intros x I. apply in_rev in I. apply Hacc'. exact I.
    - (* the vertex advances *)
      assert (Neg : Dm v a < 0).
      { destruct (Z_lt_le_dec (Dm v a) 0) as [L|G]; [exact L|].
        pose proof (proj2 (adv' v a Rva) G) as T. fold n in T. congruence. }
      destruct ((a <? n)%nat && negb (S v =? a)%nat) eqn:C.
      + apply (IH (S v) a ((v, a) :: acc) ps); [lia| |exact Hacc'|exact E].
        destruct An as [A B]. split.
        * unfold prv. cbn [Nat.eqb]. replace (S v - 1)%nat with v by lia. lia.
        * (* distance to the leaving edge: monotone antipode *)
          destruct (Nat.eq_dec (a - 1) (S v)) as [Ea|Na]; [rewrite Ea, Dm_self; lia|].
          rewrite Dm_antisym in B.
          assert (Ev : nx v = S v) by (apply (nx_S h sg N3 SC); fold n; lia).
          assert (Ea1 : nx (a - 1) = a) by (rewrite (nx_S h sg N3 SC) by (fold n; lia); lia).
          pose proof (NV h sg Sg N3 SC (a - 1)%nat v ltac:(fold n; lia) ltac:(fold n; lia)) as V.
          rewrite Ev, Ea1 in V. specialize (V ltac:(lia) ltac:(lia) ltac:(lia)).
          rewrite (Dm_antisym h sg (S v) (a - 1)). lia.
      + assert (Eps : ps = rev ((v, a) :: acc)) by congruence. subst ps.
        intros x I. apply in_rev in I. apply Hacc'. exact I.
  Qed.

  Lemma initial_anti a0 c :
    first_argmax (firstn (n - 2) (skipn 1 h)) (pnth (n - 1) h) (pnth 0 h) 1 None = Some (a0, c) ->
    (1 <= a0 <= n - 2)%nat /\ Anti 0 a0.
  Proof.
    intro E. pose proof E as E'. apply first_argmax_spec in E. apply first_argmax_first in E'.
    destruct E as (_ & Hi & Hc). destruct E' as [E'|(_ & _ & Hf)]; [discriminate|].
    assert (Len : length (firstn (n - 2) (skipn 1 h)) = (n - 2)%nat) by (rewrite firstn_length, skipn_length; fold n; lia).
    assert (Nth : forall i, (i < n - 2)%nat -> nth i (firstn (n - 2) (skipn 1 h)) (0, 0) = P h (S i)).
    { intros i Li. rewrite nth_firstn_lt' by lia. unfold P, pnth. rewrite nth_skipn'. reflexivity. }
    destruct Hc as [Hc|[R Ec]]; [discriminate|]. rewrite Len in R. split; [lia|].
    assert (En : nx (n - 1) = 0%nat) by (unfold CalipersPath.nx, nxt; fold n; destruct (Nat.eqb_spec (S (n - 1)) n); lia).
    assert (Sq : forall k, (1 <= k <= n - 2)%nat -> cross2 (P h k) (pnth (n - 1) h) (pnth 0 h) = fd (n - 1) k * fd (n - 1) k).
    { intros k Hk. rewrite (sq_fd h sg Sg SC). rewrite En. reflexivity. }
    assert (Ca : c = fd (n - 1) a0 * fd (n - 1) a0).
    { rewrite Ec, Nth by lia. replace (S (a0 - 1)) with a0 by lia. apply Sq. lia. }
    assert (NNa : 0 <= fd (n - 1) a0) by (apply (fd_nonneg h sg N3 SC); fold n; lia).
    unfold Anti, prv. cbn [Nat.eqb]. split.
    - (* not increasing after the (first) farthest vertex from the closing edge *)
      rewrite <- (fd_step h sg). rewrite (nx_S h sg N3 SC) by (fold n; lia).
      destruct (Nat.eq_dec (S a0) (n - 1)) as [El|Nl].
      + rewrite El. pose proof (fd_self h sg (n - 1)%nat) as F0. fold n in F0. lia.
      + specialize (Hi a0 ltac:(lia)). rewrite Nth in Hi by lia. rewrite Sq in Hi by lia. rewrite Ca in Hi.
        pose proof (fd_nonneg h sg N3 SC (n - 1)%nat (S a0) ltac:(fold n; lia) ltac:(fold n; lia)). nia.
    - (* the leaving edge 0 -> 1: strictly increasing before a0 for the closing edge, hence for edge 0 *)
      destruct (Nat.eq_dec a0 1) as [E1|N1]; [subst a0; cbn [Nat.sub]; rewrite Dm_self; lia|].
      assert (St : 0 < Dm (n - 1) (a0 - 1)).
      { rewrite <- (fd_step h sg). rewrite (nx_S h sg N3 SC) by (fold n; lia). replace (S (a0 - 1)) with a0 by lia.
        specialize (Hf (a0 - 2)%nat ltac:(lia)). rewrite Nth in Hf by lia. replace (S (a0 - 2)) with (a0 - 1)%nat in Hf by lia.
        rewrite Sq in Hf by lia. rewrite Ca in Hf.
        pose proof (fd_nonneg h sg N3 SC (n - 1)%nat (a0 - 1)%nat ltac:(fold n; lia) ltac:(fold n; lia)). nia. }
      rewrite Dm_antisym in St.
      pose proof (NV h sg Sg N3 SC (a0 - 1)%nat (n - 1)%nat ltac:(fold n; lia) ltac:(fold n; lia)) as V.
      rewrite En in V. rewrite (nx_S h sg N3 SC (a0 - 1)%nat) in V by (fold n; lia).
      specialize (V ltac:(lia) ltac:(lia) ltac:(lia)). rewrite (Dm_antisym h sg 0%nat (a0 - 1)%nat). lia.
  Qed.

  Theorem recorded_antipodal ps x : antipodal_pairs h = Some ps -> In x ps ->
    (fst x < snd x < n)%nat /\ Anti (fst x) (snd x).
  Proof.
    rewrite (antipodal_pairs_ge3 h N3). fold n.
    destruct (first_argmax _ _ _ 1 None) as [[a0 c]|] eqn:FA; [|discriminate].
    intros E I. destruct (initial_anti a0 c FA) as [R An].
    apply (loop_anti _ 0%nat a0 [] ps ltac:(lia) An ltac:(intros y []) E x I).
  Qed.

  (* ---------------------------------------------------------------- a weak local maximum is the width *)
  Lemma width_at a v k : (a < n)%nat -> (v < n)%nat -> (k < n)%nat -> v <> a -> v <> nx a ->
    0 <= Dm a (prv v) -> Dm a v <= 0 -> fd a k <= fd a v.
  Proof.
    intros La Lv Lk N1 N2 Din Dout. unfold CalipersPath.fd.
    pose proof (prv_lt v Lv) as Lp. pose proof (nx_lt h sg N3 SC v Lv) as Lx. pose proof (nx_prv v Lv) as Ep.
    apply (local_max_global sg (P h a) (P h (nx a)) (P h (prv v)) (P h v) (P h (nx v)) (P h k) Sg).
    - pose proof (fd_nonneg h sg N3 SC (prv v) k Lp Lk) as F. unfold CalipersPath.fd in F. rewrite Ep in F. exact F.
    - pose proof (fd_nonneg h sg N3 SC v k Lv Lk) as F. unfold CalipersPath.fd in F. exact F.
    - destruct (nx_nx_neq h sg N3 SC (prv v) Lp) as [A B]. rewrite Ep in A, B.
      pose proof (sc_strict h sg N3 SC (prv v) (nx v) Lp Lx A ltac:(rewrite Ep; exact B)) as F.
      unfold CalipersPath.fd in F. rewrite Ep in F. exact F.
    - unfold CalipersPath.Dm, ev in Din. rewrite Ep in Din. exact Din.
    - unfold CalipersPath.Dm, ev in Dout. exact Dout.
  Qed.

  (* ---------------------------------------------------------------- the kept candidates are widths *)
  Lemma nx_cases a : (a < n)%nat -> (nx a = S a /\ (S a < n)%nat) \/ (nx a = 0%nat /\ a = (n - 1)%nat).
  Proof. intro L. unfold CalipersPath.nx, nxt. fold n. destruct (Nat.eqb_spec (S a) n); [right|left]; lia. Qed.

  Definition in_sym (ps : list (nat * nat)) (v a : nat) : Prop := In (v, a) ps \/ In (a, v) ps.

  Theorem candidates_are_widths ps v a k :
    antipodal_pairs h = Some ps -> in_sym ps v a -> in_sym ps v (nxt n a) -> (k < n)%nat ->
    cross2 (pnth k h) (pnth a h) (pnth (nxt n a) h) <= cross2 (pnth v h) (pnth a h) (pnth (nxt n a) h).
  Proof.
    intros AP S1 S2 Lk.
    assert (Rec : forall x y, In (x, y) ps -> (x < y < n)%nat /\ Anti x y).
    { intros x y I. exact (recorded_antipodal ps (x, y) AP I). }
    assert (W : (a < n)%nat /\ (v < n)%nat /\ v <> a /\ v <> nx a /\ 0 <= Dm a (prv v) /\ Dm a v <= 0).
    { change (nxt n a) with (nx a) in S2.
      destruct S1 as [I1|I1]; destruct S2 as [I2|I2];
        destruct (Rec _ _ I1) as [R1 [A1 B1]]; destruct (Rec _ _ I2) as [R2 [A2 B2]].
      - (* (v,a), (v, nx a) recorded: nx a = a+1 *)
        destruct (nx_cases a ltac:(lia)) as [[Ea La1]|[Ea La1]]; rewrite Ea in *; [|lia].
        replace (S a - 1)%nat with a in B2 by lia.
        split; [lia|split; [lia|split; [lia|split; [lia|split]]]]; [rewrite Dm_antisym; lia|rewrite Dm_antisym; lia].
      - (* (v,a), (nx a, v) recorded: a = n-1, nx a = 0 *)
        destruct (nx_cases a ltac:(lia)) as [[Ea La1]|[Ea La1]]; rewrite Ea in *; [lia|].
        unfold prv in A2. cbn [Nat.eqb] in A2. subst a.
        split; [lia|split; [lia|split; [lia|split; [lia|split]]]]; [rewrite Dm_antisym; lia|exact A2].
      - (* (a,v), (v, nx a): impossible *)
        exfalso. destruct (nx_cases a ltac:(lia)) as [[Ea La1]|[Ea La1]]; rewrite Ea in *; lia.
      - (* (a,v), (nx a, v) recorded: nx a = a+1 *)
        destruct (nx_cases a ltac:(lia)) as [[Ea La1]|[Ea La1]]; rewrite Ea in *; [|lia].
        unfold prv in A2. cbn [Nat.eqb] in A2. replace (S a - 1)%nat with a in A2 by lia.
        assert (Ep : prv v = (v - 1)%nat) by (unfold prv; destruct (Nat.eqb_spec v 0); lia).
        rewrite Ep. split; [lia|split; [lia|split; [lia|split; [lia|split]]]]; [exact B1|exact A2]. }
    destruct W as (La & Lv & N1 & N2 & Din & Dout).
    pose proof (width_at a v k La Lv Lk N1 N2 Din Dout) as F.
    change (nxt n a) with (nx a). change (pnth k h) with (P h k). change (pnth v h) with (P h v).
    change (pnth a h) with (P h a). change (pnth (nx a) h) with (P h (nx a)).
    rewrite <- !(sq_fd h sg Sg SC).
    pose proof (fd_nonneg h sg N3 SC a k La Lk). nia.
  Qed.
End Min.

Theorem min_candidates_are_widths h ps v a k :
  strict_convex_ok h = true -> antipodal_pairs h = Some ps ->
  (In (v, a) ps \/ In (a, v) ps) ->
  (In (v, nxt (length h) a) ps \/ In (nxt (length h) a, v) ps) -> (k < length h)%nat ->
  cross2 (pnth k h) (pnth a h) (pnth (nxt (length h) a) h) <= cross2 (pnth v h) (pnth a h) (pnth (nxt (length h) a) h).
Proof.
  intros Hyp AP S1 S2 Lk. unfold strict_convex_ok in Hyp. apply andb_true_iff in Hyp. destruct Hyp as [N3 Side].
  assert (N3' : (3 <= length h)%nat) by lia.
  apply orb_true_iff in Side. destruct Side as [SC|SC].
  - apply (candidates_are_widths h 1 (or_introl eq_refl) N3' SC ps v a k AP S1 S2 Lk).
  - apply (candidates_are_widths h (-1) (or_intror eq_refl) N3' SC ps v a k AP S1 S2 Lk).
Qed.
