(* C16 — the lock-step vectorised rasteriser of the executable model (Model.Lines.get_line_pts):
   compaction invariant, every array cell is written with the point of its own line only, and
   each output block equals the scalar sequence of draw_line_pts (batch independence). *)
From Coq Require Import ZArith List Bool Lia.
From Centro Require Import Base.Sx Model.Lines Spec.Lines Proofs.Bres Proofs.LinesScalar.
Import ListNotations.
Open Scope Z_scope.

(* ---------------------------------------------------------------- iterating one record *)

Fixpoint piter (im : bool) (n : nat) (r : prec) : prec :=
  match n with O => r | S k => piter im k (pstep im r) end.

Lemma piter_out im n r : piter im (S n) r = pstep im (piter im n r).
Proof. revert r; induction n as [|n IH]; intros r; [reflexivity|]. cbn [piter] in *. rewrite IH. reflexivity. Qed.

Lemma pstep_cnt im r : p_cnt (pstep im r) = p_cnt r. Proof. unfold pstep; destruct im; reflexivity. Qed.
Lemma pstep_idx im r : p_idx (pstep im r) = p_idx r. Proof. unfold pstep; destruct im; reflexivity. Qed.
Lemma piter_cnt im n r : p_cnt (piter im n r) = p_cnt r.
Proof. revert r; induction n as [|n IH]; intros r; cbn [piter]; [reflexivity|]. rewrite IH, pstep_cnt. reflexivity. Qed.
Lemma piter_idx im n r : p_idx (piter im n r) = p_idx r.
Proof. revert r; induction n as [|n IH]; intros r; cbn [piter]; [reflexivity|]. rewrite IH, pstep_idx. reflexivity. Qed.

(* ---------------------------------------------------------------- the writes of a pass *)

Definition wr (im : bool) (r : prec) (n : Z) (j : nat) : write :=
  (p_idx r + (n + Z.of_nat j), (p_ci (piter im (S j) r), p_cj (piter im (S j) r))).

Lemma pass_loop_in im k : forall n recs acc w,
  In w (pass_loop im k n recs acc) <->
  In w acc \/ exists r j, In r recs /\ (j < k)%nat /\ n + Z.of_nat j < p_cnt r /\ w = wr im r n j.
Proof.
  induction k as [|k IH]; intros n recs acc w; cbn [pass_loop].
  - split; [auto|]. intros [H | (r & j & _ & Hj & _)]; [exact H|lia].
  - rewrite IH. rewrite in_app_iff, in_map_iff. split.
    + intros [[H | (r2 & E & Hr2)] | (r2 & j & Hr2 & Hj & Hc & E)].
      * left; exact H.
      * right. apply in_map_iff in Hr2. destruct Hr2 as (r1 & <- & Hr1).
        apply filter_In in Hr1. destruct Hr1 as [Hr1 Hal]. apply Z.ltb_lt in Hal.
        exists r1, O. split; [exact Hr1|]. split; [lia|]. split; [cbn [Z.of_nat]; lia|].
        subst w. unfold wr. cbn [piter Z.of_nat]. rewrite pstep_idx, Z.add_0_r. reflexivity.
      * right. apply in_map_iff in Hr2. destruct Hr2 as (r1 & <- & Hr1).
        apply filter_In in Hr1. destruct Hr1 as [Hr1 Hal].
        exists r1, (S j). split; [exact Hr1|]. split; [lia|]. rewrite pstep_cnt in Hc. split; [lia|].
        subst w. unfold wr. rewrite pstep_idx. cbn [piter]. f_equal. lia.
    + intros [H | (r & j & Hr & Hj & Hc & E)]; [left; left; exact H|].
      assert (Hr2 : In (pstep im r) (map (pstep im) (filter (fun r0 => n <? p_cnt r0) recs))).
      { apply in_map. apply filter_In. split; [exact Hr|]. apply Z.ltb_lt. lia. }
      destruct j as [|j].
      * left; right. exists (pstep im r). split; [|exact Hr2].
        subst w. unfold wr. cbn [piter Z.of_nat]. rewrite pstep_idx, Z.add_0_r. reflexivity.
      * right. exists (pstep im r), j. split; [exact Hr2|]. split; [lia|]. rewrite pstep_cnt. split; [lia|].
        subst w. unfold wr. rewrite pstep_idx. cbn [piter]. f_equal. lia.
Qed.

Lemma list_max_ge l x : In x l -> x <= list_max l.
Proof.
  induction l as [|a l IH]; intros H; [destruct H|]. cbn [list_max fold_right].
  destruct H as [-> | H]; [lia|]. specialize (IH H). unfold list_max in IH. lia.
Qed.

Definition is_major (im : bool) (l : line) : bool :=
  if im then l_dj l <=? l_di l else l_di l <? l_dj l.

Lemma run_pass_in im (li : list (line * Z)) w :
  In w (run_pass im li) <->
  exists l ix j, In (l, ix) li /\ is_major im l = true /\ 1 + Z.of_nat j < l_count l /\
                 w = wr im (mk_rec im l ix) 1 j.
Proof.
  unfold run_pass.
  set (sel := filter (fun li0 => if im then l_dj (fst li0) <=? l_di (fst li0) else l_di (fst li0) <? l_dj (fst li0)) li).
  assert (Hsel : forall l ix, In (l, ix) sel <-> In (l, ix) li /\ is_major im l = true).
  { intros l ix. subst sel. rewrite filter_In. unfold is_major. cbn [fst]. reflexivity. }
  assert (G : In w (pass_loop im (Z.to_nat (list_max (map p_cnt (map (fun li0 => mk_rec im (fst li0) (snd li0)) sel))))
                      1 (map (fun li0 => mk_rec im (fst li0) (snd li0)) sel) []) <->
              exists l ix j, In (l, ix) li /\ is_major im l = true /\ 1 + Z.of_nat j < l_count l /\
                 w = wr im (mk_rec im l ix) 1 j).
  { rewrite pass_loop_in. split.
    - intros [[] | (r & j & Hr & Hj & Hc & E)].
      apply in_map_iff in Hr. destruct Hr as ([l ix] & <- & Hin). cbn [fst snd] in *.
      apply Hsel in Hin. destruct Hin as [Hin Hm].
      exists l, ix, j. repeat split; try assumption.
    - intros (l & ix & j & Hin & Hm & Hc & E). right.
      exists (mk_rec im l ix), j.
      assert (Hr : In (mk_rec im l ix) (map (fun li0 => mk_rec im (fst li0) (snd li0)) sel)).
      { apply in_map_iff. exists (l, ix). split; [reflexivity|]. apply Hsel. auto. }
      split; [exact Hr|]. split; [|split; [exact Hc|exact E]].
      assert (Hge : p_cnt (mk_rec im l ix) <= list_max (map p_cnt (map (fun li0 => mk_rec im (fst li0) (snd li0)) sel))).
      { apply list_max_ge. apply in_map. exact Hr. }
      cbn [mk_rec p_cnt] in Hge. lia. }
  destruct sel as [|s sel'] eqn:Es.
  - split; [intros []|]. intros (l & ix & j & Hin & Hm & _). exfalso.
    assert (H : In (l, ix) []) by (apply Hsel; auto). destruct H.
  - exact G.
Qed.

(* ---------------------------------------------------------------- closed form of a record *)

Definition vpoint (l : line) (n : nat) : Z * Z :=
  let '((i0, j0), (i1, j1)) := l in
  if l_dj l <=? l_di l
  then (i0 + vstep i0 i1 * Z.of_nat n, j0 + vstep j0 j1 * yk (l_di l) (l_dj l) n)
  else (i0 + vstep i0 i1 * yk (l_dj l) (l_di l) n, j0 + vstep j0 j1 * Z.of_nat n).

Lemma piter_true l ix n :
  let r := piter true n (mk_rec true l ix) in
  p_rem r = rk (l_di l) (l_dj l) n /\
  p_ci r = fst (fst l) + vstep (fst (fst l)) (fst (snd l)) * Z.of_nat n /\
  p_cj r = snd (fst l) + vstep (snd (fst l)) (snd (snd l)) * yk (l_di l) (l_dj l) n /\
  p_di r = l_di l /\ p_dj r = l_dj l /\
  p_si r = vstep (fst (fst l)) (fst (snd l)) /\ p_sj r = vstep (snd (fst l)) (snd (snd l)).
Proof.
  induction n as [|n IH].
  - cbn [piter mk_rec p_rem p_ci p_cj p_di p_dj p_si p_sj Z.of_nat]. rewrite rk_0, yk_0.
    repeat split; lia.
  - rewrite piter_out. cbn zeta in *. destruct IH as (I1 & I2 & I3 & I4 & I5 & I6 & I7).
    set (r := piter true n (mk_rec true l ix)) in *.
    unfold pstep. cbn [p_rem p_ci p_cj p_di p_dj p_si p_sj].
    rewrite I1, I2, I3, I4, I5, I6, I7, rk_S, yk_S.
    destruct (0 <=? rk (l_di l) (l_dj l) n); repeat split; lia.
Qed.

Lemma piter_false l ix n :
  let r := piter false n (mk_rec false l ix) in
  p_rem r = rk (l_dj l) (l_di l) n /\
  p_ci r = fst (fst l) + vstep (fst (fst l)) (fst (snd l)) * yk (l_dj l) (l_di l) n /\
  p_cj r = snd (fst l) + vstep (snd (fst l)) (snd (snd l)) * Z.of_nat n /\
  p_di r = l_di l /\ p_dj r = l_dj l /\
  p_si r = vstep (fst (fst l)) (fst (snd l)) /\ p_sj r = vstep (snd (fst l)) (snd (snd l)).
Proof.
  induction n as [|n IH].
  - cbn [piter mk_rec p_rem p_ci p_cj p_di p_dj p_si p_sj Z.of_nat]. rewrite rk_0, yk_0.
    repeat split; lia.
  - rewrite piter_out. cbn zeta in *. destruct IH as (I1 & I2 & I3 & I4 & I5 & I6 & I7).
    set (r := piter false n (mk_rec false l ix)) in *.
    unfold pstep. cbn [p_rem p_ci p_cj p_di p_dj p_si p_sj].
    rewrite I1, I2, I3, I4, I5, I6, I7, rk_S, yk_S.
    destruct (0 <=? rk (l_dj l) (l_di l) n); repeat split; lia.
Qed.

Lemma wr_vpoint im l ix j : is_major im l = true ->
  wr im (mk_rec im l ix) 1 j = (ix + Z.of_nat (S j), vpoint l (S j)).
Proof.
  intros Hm. unfold wr. cbn [mk_rec p_idx].
  replace (1 + Z.of_nat j) with (Z.of_nat (S j)) by lia. f_equal.
  destruct l as [[i0 j0] [i1 j1]]. unfold vpoint. destruct im; unfold is_major in Hm.
  - rewrite Hm. destruct (piter_true ((i0, j0), (i1, j1)) ix (S j)) as (_ & I2 & I3 & _).
    cbn [fst snd] in I2, I3. rewrite I2, I3. reflexivity.
  - apply Z.ltb_lt in Hm. replace (l_dj ((i0, j0), (i1, j1)) <=? l_di ((i0, j0), (i1, j1))) with false
      by (symmetry; apply Z.leb_gt; exact Hm).
    destruct (piter_false ((i0, j0), (i1, j1)) ix (S j)) as (_ & I2 & I3 & _).
    cbn [fst snd] in I2, I3. rewrite I2, I3. reflexivity.
Qed.

Lemma vpoint_0 l : vpoint l 0 = fst l.
Proof.
  destruct l as [[i0 j0] [i1 j1]]. unfold vpoint. cbn [Z.of_nat fst].
  destruct (_ <=? _); rewrite yk_0, !Z.mul_0_r, !Z.add_0_r; reflexivity.
Qed.

(* ---------------------------------------------------------------- all writes *)

Lemma is_major_cases l : is_major true l = true \/ is_major false l = true.
Proof. unfold is_major. destruct (Z.leb_spec (l_dj l) (l_di l)); [left; reflexivity|right; apply Z.ltb_lt; assumption]. Qed.

Lemma l_count_pos l : 1 <= l_count l.
Proof. unfold l_count, l_di, l_dj. lia. Qed.

Lemma all_writes_in ls q v :
  In (q, v) (all_writes ls) <->
  exists l ix n, In (l, ix) (combine ls (indexes 0 (map l_count ls))) /\
                 Z.of_nat n < l_count l /\ q = ix + Z.of_nat n /\ v = vpoint l n.
Proof.
  unfold all_writes. rewrite !in_app_iff, in_map_iff, !run_pass_in. split.
  - intros [([l ix] & E & Hin) | [(l & ix & j & Hin & Hm & Hc & E) | (l & ix & j & Hin & Hm & Hc & E)]].
    + cbn [fst snd] in E. injection E as E1 E2. subst q v. exists l, ix, O. split; [exact Hin|].
      split; [pose proof (l_count_pos l); cbn [Z.of_nat]; lia|]. split; [cbn [Z.of_nat]; lia|]. symmetry; apply vpoint_0.
    + rewrite wr_vpoint in E by exact Hm. injection E as E1 E2. subst q v. exists l, ix, (S j). repeat split; try assumption; lia.
    + rewrite wr_vpoint in E by exact Hm. injection E as E1 E2. subst q v. exists l, ix, (S j). repeat split; try assumption; lia.
  - intros (l & ix & n & Hin & Hc & -> & ->). destruct n as [|j].
    + left. exists (l, ix). split; [|exact Hin]. cbn [fst snd Z.of_nat]. rewrite Z.add_0_r, vpoint_0. reflexivity.
    + right. destruct (is_major_cases l) as [Hm | Hm]; [left | right];
        exists l, ix, j; (split; [exact Hin|]); (split; [exact Hm|]); (split; [lia|]);
        rewrite wr_vpoint by exact Hm; reflexivity.
Qed.

(* ---------------------------------------------------------------- who owns a position *)

Fixpoint locate (s : Z) (ls : list line) (p : Z) : option (line * Z) :=
  match ls with
  | [] => None
  | l :: ls' => if p <? s + l_count l then Some (l, p - s) else locate (s + l_count l) ls' p
  end.

Lemma combine_index_ge ls : forall s l ix, In (l, ix) (combine ls (indexes s (map l_count ls))) -> s <= ix.
Proof.
  induction ls as [|a ls IH]; intros s l ix H; [destruct H|].
  cbn [map indexes combine] in H. destruct H as [E | H]; [injection E as _ E; lia|].
  apply IH in H. pose proof (l_count_pos a). lia.
Qed.

Lemma locate_own ls : forall s l ix n,
  In (l, ix) (combine ls (indexes s (map l_count ls))) -> 0 <= n < l_count l ->
  locate s ls (ix + n) = Some (l, n).
Proof.
  induction ls as [|a ls IH]; intros s l ix n H Hn; [destruct H|].
  cbn [map indexes combine] in H. cbn [locate]. destruct H as [E | H].
  - injection E as E1 E2. subst a ix.
    replace (s + n <? s + l_count l) with true by (symmetry; apply Z.ltb_lt; lia).
    f_equal. f_equal. lia.
  - pose proof (combine_index_ge _ _ _ _ H) as Hge.
    replace (ix + n <? s + l_count a) with false by (symmetry; apply Z.ltb_ge; lia).
    apply IH; assumption.
Qed.

Lemma locate_some ls : forall s p, s <= p < s + fold_right Z.add 0 (map l_count ls) ->
  exists l n, locate s ls p = Some (l, n) /\ 0 <= n < l_count l /\
              In (l, p - n) (combine ls (indexes s (map l_count ls))).
Proof.
  induction ls as [|a ls IH]; intros s p Hp; [cbn in Hp; lia|].
  cbn [map fold_right] in Hp. cbn [locate map indexes combine].
  destruct (Z.ltb_spec p (s + l_count a)) as [Hlt | Hge].
  - exists a, (p - s). split; [reflexivity|]. split; [lia|]. left. f_equal. lia.
  - destruct (IH (s + l_count a) p ltac:(lia)) as (l & n & E & Hn & Hin).
    exists l, n. split; [exact E|]. split; [exact Hn|]. right. exact Hin.
Qed.

Lemma lookup_last_all p v : forall ws cur,
  (forall v', In (p, v') ws -> v' = v) -> In (p, v) ws -> lookup_last p ws cur = v.
Proof.
  assert (G : forall ws cur, (forall v', In (p, v') ws -> v' = v) -> cur = v \/ In (p, v) ws ->
                             lookup_last p ws cur = v).
  { induction ws as [|[q u] ws IH]; intros cur Hall H; cbn [lookup_last].
    - destruct H as [H | []]; exact H.
    - apply IH; [intros v' Hv'; apply Hall; right; exact Hv'|].
      destruct (Z.eqb_spec q p) as [-> | Hne].
      + left. apply Hall. left. reflexivity.
      + destruct H as [H | [H | H]]; [left; exact H| |right; exact H].
        injection H as H1 H2. contradiction. }
  intros ws cur Hall Hin. apply G; [exact Hall|right; exact Hin].
Qed.

Definition cell (ls : list line) (p : Z) : Z * Z :=
  match locate 0 ls p with Some (l, n) => vpoint l (Z.to_nat n) | None => (0, 0) end.

Lemma cell_value ls p : 0 <= p < fold_right Z.add 0 (map l_count ls) ->
  lookup_last p (all_writes ls) (0, 0) = cell ls p.
Proof.
  intros Hp. destruct (locate_some ls 0 p ltac:(lia)) as (l & n & E & Hn & Hin).
  unfold cell. rewrite E. apply lookup_last_all.
  - intros v' Hv'. apply all_writes_in in Hv'. destruct Hv' as (l' & ix' & n' & Hin' & Hc' & Hq & ->).
    pose proof (locate_own ls 0 l' ix' (Z.of_nat n') Hin' ltac:(lia)) as E'.
    rewrite <- Hq, E in E'. injection E' as E1 E2. subst l' n. rewrite Nat2Z.id. reflexivity.
  - apply all_writes_in. exists l, (p - n), (Z.to_nat n). split; [exact Hin|].
    rewrite Z2Nat.id by lia. split; [lia|]. split; [lia|reflexivity].
Qed.

Lemma zrange_length s n : length (zrange s n) = n.
Proof. revert s; induction n as [|n IH]; intros s; cbn [zrange length]; [reflexivity|rewrite IH; reflexivity]. Qed.

Lemma zrange_in s n p : In p (zrange s n) <-> s <= p < s + Z.of_nat n.
Proof.
  revert s; induction n as [|n IH]; intros s; cbn [zrange In]; [lia|]. rewrite IH. lia.
Qed.

Lemma zrange_app s n m : zrange s (n + m) = zrange s n ++ zrange (s + Z.of_nat n) m.
Proof.
  revert s; induction n as [|n IH]; intros s.
  - cbn [Nat.add zrange app Z.of_nat]. rewrite Z.add_0_r. reflexivity.
  - cbn [Nat.add zrange app]. rewrite IH. replace (s + Z.of_nat (S n)) with (s + 1 + Z.of_nat n) by lia. reflexivity.
Qed.

Lemma slice_zrange {A} s len n (f : Z -> A) : (s + len <= n)%nat ->
  slice s len (map f (zrange 0 n)) = map f (zrange (Z.of_nat s) len).
Proof.
  intros H. unfold slice. replace n with (s + (len + (n - s - len)))%nat by lia.
  rewrite !zrange_app, !map_app.
  rewrite skipn_app, skipn_all2 by (rewrite map_length, zrange_length; lia).
  rewrite map_length, zrange_length, Nat.sub_diag. cbn [skipn app].
  rewrite firstn_app, firstn_all2 by (rewrite map_length, zrange_length; lia).
  rewrite map_length, zrange_length, Nat.sub_diag. cbn [firstn]. rewrite app_nil_r. reflexivity.
Qed.

Lemma zrange_seq s n : zrange s n = map (fun k => s + Z.of_nat k) (seq 0 n).
Proof.
  revert s; induction n as [|n IH]; intros s; [reflexivity|].
  cbn [zrange seq map]. rewrite Z.add_0_r. f_equal. rewrite IH, <- seq_shift, map_map.
  apply map_ext. intros k. lia.
Qed.

(* ---------------------------------------------------------------- blocks of the output *)

Lemma sum_counts_nonneg ls : 0 <= fold_right Z.add 0 (map l_count ls).
Proof. induction ls as [|a ls IH]; cbn [map fold_right]; [lia|]. pose proof (l_count_pos a). lia. Qed.

Lemma combine_index_bound ls : forall s l ix, In (l, ix) (combine ls (indexes s (map l_count ls))) ->
  ix + l_count l <= s + fold_right Z.add 0 (map l_count ls).
Proof.
  induction ls as [|a ls IH]; intros s l ix H; [destruct H|].
  cbn [map indexes combine fold_right] in *. destruct H as [E | H].
  - injection E as E1 E2. subst a ix. pose proof (sum_counts_nonneg ls). lia.
  - apply IH in H. lia.
Qed.

(* the output array as a function of the batch: every cell belongs to exactly one line *)
Lemma get_line_pts_cells ls :
  get_line_pts ls =
  (indexes 0 (map l_count ls), map l_count ls,
   map (cell ls) (zrange 0 (Z.to_nat (fold_right Z.add 0 (map l_count ls))))).
Proof.
  unfold get_line_pts. f_equal. apply map_ext_in. intros p Hp. apply zrange_in in Hp.
  apply cell_value. pose proof (sum_counts_nonneg ls). lia.
Qed.

(* block of line l (with index ix): the closed-form points of that line only *)
Lemma block_vpoints ls l ix : In (l, ix) (combine ls (indexes 0 (map l_count ls))) ->
  slice (Z.to_nat ix) (Z.to_nat (l_count l)) (snd (get_line_pts ls))
  = map (vpoint l) (seq 0 (Z.to_nat (l_count l))).
Proof.
  intros Hin. rewrite get_line_pts_cells. cbn [snd].
  pose proof (combine_index_ge _ _ _ _ Hin) as Hge.
  pose proof (combine_index_bound _ _ _ _ Hin) as Hb. pose proof (l_count_pos l) as Hc.
  rewrite slice_zrange by lia. rewrite Z2Nat.id by lia. rewrite zrange_seq, map_map.
  apply map_ext_in. intros k Hk. apply in_seq in Hk. unfold cell.
  rewrite (locate_own ls 0 l ix (Z.of_nat k) Hin) by lia. rewrite Nat2Z.id. reflexivity.
Qed.

(* ---------------------------------------------------------------- scalar = closed form *)

Lemma pts_from_seq D d m0 sm c0 sc n :
  pts_from D d m0 sm c0 sc 0 n = map (pt D d m0 sm c0 sc) (seq 0 n).
Proof.
  assert (G : forall k, pts_from D d m0 sm c0 sc k n = map (pt D d m0 sm c0 sc) (seq k n)).
  { induction n as [|n IH]; intros k; cbn [pts_from seq map]; [reflexivity|]. rewrite IH. reflexivity. }
  apply G.
Qed.

Lemma vstep_dstep a0 a1 : vstep a0 a1 = dstep a0 a1.
Proof. unfold vstep, dstep. destruct (a0 <? a1); reflexivity. Qed.

Lemma abs_sym a b : Z.abs (a - b) = Z.abs (b - a). Proof. lia. Qed.

Lemma yk_zero_zero : yk 0 0 0 = 0. Proof. reflexivity. Qed.

Theorem draw_line_vpoints i0 j0 i1 j1 :
  let l := ((i0, j0), (i1, j1)) in
  draw_line_pts i0 j0 i1 j1 = Some (map (vpoint l) (seq 0 (Z.to_nat (l_count l)))).
Proof.
  intros l. unfold draw_line_pts.
  assert (Edi : l_di l = Z.abs (i1 - i0)) by (unfold l, l_di; cbn [fst snd]; lia).
  assert (Edj : l_dj l = Z.abs (j1 - j0)) by (unfold l, l_dj; cbn [fst snd]; lia).
  destruct (Z.ltb_spec (Z.abs (j1 - j0)) (Z.abs (i1 - i0))) as [Hlt | Hge].
  - rewrite dl_loop_run by lia. f_equal. rewrite pts_from_seq.
    replace (S (Z.to_nat (Z.abs (i1 - i0)))) with (Z.to_nat (l_count l)) by (unfold l_count; lia).
    apply map_ext. intros n. unfold vpoint, l. fold l. rewrite Edi, Edj.
    replace (Z.abs (j1 - j0) <=? Z.abs (i1 - i0)) with true by (symmetry; apply Z.leb_le; lia).
    unfold pt. rewrite !vstep_dstep. reflexivity.
  - rewrite dl_loop_run by lia. cbn [option_map]. f_equal. rewrite pts_from_seq, map_map.
    replace (S (Z.to_nat (Z.abs (j1 - j0)))) with (Z.to_nat (l_count l)) by (unfold l_count; lia).
    apply map_ext_in. intros n Hn. apply in_seq in Hn. unfold vpoint, l. fold l. rewrite Edi, Edj.
    unfold pt, swap. cbn [fst snd]. rewrite !vstep_dstep.
    destruct (Z.leb_spec (Z.abs (j1 - j0)) (Z.abs (i1 - i0))) as [Hle | Hgt]; [|reflexivity].
    assert (E : Z.abs (i1 - i0) = Z.abs (j1 - j0)) by lia. rewrite E.
    destruct (Z.eq_dec (Z.abs (j1 - j0)) 0) as [E0 | Hpos].
    + assert (n = O) by (unfold l_count in Hn; lia). subst n. rewrite E0. cbn [Z.of_nat].
      rewrite yk_zero_zero. reflexivity.
    + rewrite yk_diag by lia. reflexivity.
Qed.

(* ---------------------------------------------------------------- the batch theorem *)

(* Every block of the vectorised output is exactly the scalar sequence of its own line: the
   lines of a batch are independent of each other and of their order. *)
Theorem vector_eq_scalar ls :
  let '(index, counts, pts) := get_line_pts ls in
  counts = map l_count ls /\ index = indexes 0 counts /\
  Z.of_nat (length pts) = fold_right Z.add 0 counts /\
  forall l ix, In (l, ix) (combine ls index) ->
    draw_line_pts (fst (fst l)) (snd (fst l)) (fst (snd l)) (snd (snd l))
    = Some (slice (Z.to_nat ix) (Z.to_nat (l_count l)) pts).
Proof.
  pose proof (get_line_pts_cells ls) as E. pose proof (block_vpoints ls) as B.
  destruct (get_line_pts ls) as [[index counts] pts]. injection E as E1 E2 E3.
  split; [exact E2|]. split; [subst; reflexivity|]. split.
  - subst pts. rewrite map_length, zrange_length. pose proof (sum_counts_nonneg ls). subst counts. lia.
  - intros l ix Hin. subst index. cbn [snd] in B. rewrite (B l ix Hin).
    destruct l as [[i0 j0] [i1 j1]]. cbn [fst snd]. apply draw_line_vpoints.
Qed.

(* hence the model's own batch output passes the batch checker *)
Lemma batch_ok_blocks pts : forall ls pos,
  (forall l ix, In (l, ix) (combine ls (indexes pos (map l_count ls))) ->
     line_ok l (slice (Z.to_nat ix) (Z.to_nat (l_count l)) pts) = true) ->
  Z.of_nat (length pts) = pos + fold_right Z.add 0 (map l_count ls) ->
  batch_ok ls (indexes pos (map l_count ls)) (map l_count ls) pts pos = true.
Proof.
  induction ls as [|a ls IH]; intros pos H Hlen; cbn [map indexes batch_ok].
  - cbn [map fold_right] in Hlen. apply Z.eqb_eq. lia.
  - rewrite !Z.eqb_refl. cbn [andb]. rewrite (H a pos) by (left; reflexivity). cbn [andb].
    apply IH.
    + intros l ix Hin. apply H. right. exact Hin.
    + cbn [map fold_right] in Hlen. lia.
Qed.

Theorem get_line_pts_batch_ok ls :
  let '(index, counts, pts) := get_line_pts ls in batch_ok ls index counts pts 0 = true.
Proof.
  pose proof (vector_eq_scalar ls) as V. destruct (get_line_pts ls) as [[index counts] pts].
  destruct V as (Ec & Ei & Hlen & Hb). subst counts index.
  apply batch_ok_blocks; [|lia].
  intros l ix Hin. specialize (Hb l ix Hin).
  destruct l as [[i0 j0] [i1 j1]]. cbn [fst snd] in Hb.
  destruct (draw_line_spec i0 j0 i1 j1) as (p & Ep & Hok). rewrite Hb in Ep. injection Ep as <-. exact Hok.
Qed.

Example batch_example :
  get_line_pts [((0, 0), (2, 5)); ((3, 1), (-2, 0)); ((4, 4), (4, 4))] =
  ([0; 6; 12], [6; 6; 1],
   [(0,0); (0,1); (1,2); (1,3); (2,4); (2,5); (3,1); (2,1); (1,1); (0,0); (-1,0); (-2,0); (4,4)]).
Proof. reflexivity. Qed.
