(* C05 - the deletability (Ronse) lemma, the case "the last raster pixel p of X lies in X \ X'":
   either p is simple in X, or p is SEPARATED (N(p) unset, NE(p) set, W(p) or NW(p) set) and then
   the left side and NE(p) are not 8-connected in X without p, and at most one of the two sides
   meets X'.  (What remains for the full lemma: the recursion into the X'-free side, and the case
   p in X' - see reports/C05.md, round 4.) *)
From Coq Require Import ZArith NArith List Bool Lia.
From Centro Require Import Base.Topo Base.Skel Base.TopoPar Base.TopoSweep.
From Centro Require Import Proofs.TopoCounts Proofs.EndPixelParity Proofs.EndPixelSep Proofs.TopoSwEndLocal.
Import ListNotations.
Open Scope Z_scope.

Definition lastpat (nw n ne w : bool) : list bool := [nw; n; ne; w; true; false; false; false; false].
Lemma last_simple_sweep : forall_bits 4 (fun b =>
  match b with
  | [nw; n; ne; w] => Bool.eqb (simple_ok (lastpat nw n ne w))
                        ((nw || n || ne || w) && negb (negb n && ne && (w || nw)))
  | _ => true
  end) = true.
Proof. vm_compute. reflexivity. Qed.

Lemma pat_last (X : img) p : X p = true -> (forall q, X q = true -> ~ ltr p q) ->
  pat X p = lastpat (X (pNW p)) (X (pN p)) (X (pNE p)) (X (pW p)).
Proof.
  intros Xp Last.
  assert (Off : forall q, ltr p q -> X q = false).
  { intros q L. destruct (X q) eqn:V; [|reflexivity]. exfalso. exact (Last q V L). }
  assert (E : pat X p = [X (nb p 0); X (nb p 1); X (nb p 2); X (nb p 3); X (nb p 4); X (nb p 5); X (nb p 6); X (nb p 7); X (nb p 8)]) by reflexivity.
  rewrite E. unfold lastpat.
  assert (E0 : nb p 0 = pNW p) by (unfold nb, off, pNW; cbn; f_equal; lia).
  assert (E1 : nb p 1 = pN p) by (unfold nb, off, pN; cbn; f_equal; lia).
  assert (E2 : nb p 2 = pNE p) by (unfold nb, off, pNE; cbn; f_equal; lia).
  assert (E3 : nb p 3 = pW p) by (unfold nb, off, pW; cbn; f_equal; lia).
  rewrite E0, E1, E2, E3, nb_center, Xp.
  rewrite (Off (nb p 5)), (Off (nb p 6)), (Off (nb p 7)), (Off (nb p 8)); [reflexivity| | | |];
    unfold ltr, nb, off; cbn; lia.
Qed.

Definition separated (X : img) (p : px) : bool :=
  negb (X (pN p)) && X (pNE p) && (X (pW p) || X (pNW p)).

Theorem last_pixel_simple (X : img) p : X p = true -> (forall q, X q = true -> ~ ltr p q) ->
  (exists y, adj8 p y /\ X y = true) -> separated X p = false -> simple_ok (pat X p) = true.
Proof.
  intros Xp Last [y [A Vy]] S. rewrite (pat_last X p Xp Last).
  pose proof (forall_bits_spec 4 _ last_simple_sweep [X (pNW p); X (pN p); X (pNE p); X (pW p)] eq_refl) as H.
  cbn beta iota in H. apply eqb_prop in H. rewrite H. unfold separated in S. rewrite S. rewrite andb_true_r.
  (* p has a neighbour, and it is one of the four earlier ones *)
  assert (Ny : y <> p) by (destruct A as [A _]; congruence).
  pose proof (Last y Vy) as L. apply adj8_sym in A. apply adj8_coords in A. unfold ltr in L.
  destruct p as [r c], y as [i j]. unfold pNW, pN, pNE, pW. cbn [fst snd] in *.
  assert (Nij : i <> r \/ j <> c) by (destruct (Z.eq_dec i r), (Z.eq_dec j c); subst; auto; congruence).
  assert (D : (i = r /\ j = c - 1) \/ (i = r - 1 /\ j = c - 1) \/ (i = r - 1 /\ j = c) \/ (i = r - 1 /\ j = c + 1)) by lia.
  destruct D as [[-> ->]|[[-> ->]|[[-> ->]|[-> ->]]]]; rewrite Vy; rewrite ?orb_true_r; reflexivity.
Qed.

Section Sep.
Variables (X X' : img) (p u : px).
Hypothesis T : TopoEq X X'.
Hypothesis Xp : X p = true.
Hypothesis X'p : X' p = false.
Hypothesis Last : forall q, X q = true -> ~ ltr p q.
Hypothesis XN : X (pN p) = false.
Hypothesis XNE : X (pNE p) = true.
Hypothesis Hu : u = pW p \/ u = pNW p.
Hypothesis Xu : X u = true.

Let Yp := fun q : px => fg X q /\ q <> p.

Theorem last_in_D_sides_apart : ~ path adj8 Yp u (pNE p).
Proof.
  intros P. apply (sep_not_connected X p u Xp Last XN XNE Hu Xu); [|exact P].
  assert (BS : bg X (pS p)).
  { unfold bg. destruct (X (pS p)) eqn:V; [|reflexivity]. exfalso. apply (Last _ V). unfold ltr, pS. cbn [fst snd]. lia. }
  apply (te_bg_iff _ _ T (pN p) (pS p) XN BS).
  assert (B'p : bg X' p) by exact X'p.
  eapply path_step; [apply (sub_bg _ _ T); exact XN| |].
  - instantiate (1 := p). unfold adj4, pN. cbn [fst snd]. lia.
  - eapply path_step; [exact B'p| |apply path_refl; apply (sub_bg _ _ T); exact BS].
    unfold adj4, pS. cbn [fst snd]. lia.
Qed.

Theorem last_in_D_one_side_free : forall a b, X' a = true -> X' b = true ->
  path adj8 Yp u a -> path adj8 Yp (pNE p) b -> False.
Proof.
  intros a b Va Vb Pa Pb. apply last_in_D_sides_apart.
  assert (Sym : forall x y, path adj8 Yp x y -> path adj8 Yp y x) by (apply path_sym; exact adj8_sym).
  assert (Up : forall x y, path adj8 Yp x y -> conn8 X x y) by (intros x y; apply path_mono; intros q [Hq _]; exact Hq).
  assert (Np : forall q, fg X' q -> Yp q).
  { intros q Hq. split; [apply (te_sub _ _ T); exact Hq|]. intros ->. unfold fg in Hq. congruence. }
  assert (Adj : adj8 u p /\ adj8 p (pNE p)).
  { destruct p as [r c]. unfold pNE, pW, pNW in *. cbn [fst snd] in *. split.
    - destruct Hu as [-> | ->]; unfold adj8; cbn [fst snd]; (split; [intros E; inversion E; lia|lia]).
    - unfold adj8; cbn [fst snd]. split; [intros E; inversion E; lia|lia]. }
  assert (Cab : conn8 X a b).
  { eapply path_trans; [apply Up; apply Sym; exact Pa|].
    eapply path_step; [exact Xu|apply Adj|]. eapply path_step; [exact Xp|apply Adj|]. apply Up. exact Pb. }
  apply (te_fg_iff _ _ T a b Va Vb) in Cab.
  eapply path_trans; [exact Pa|]. eapply path_trans; [|apply Sym; exact Pb].
  eapply path_mono; [|exact Cab]. exact Np.
Qed.
End Sep.

Theorem last_in_D_sides : forall (X X' : img) p u, TopoEq X X' -> X p = true -> X' p = false ->
  (forall q, X q = true -> ~ ltr p q) -> X (pN p) = false -> X (pNE p) = true ->
  (u = pW p \/ u = pNW p) -> X u = true ->
  ~ path adj8 (fun q => fg X q /\ q <> p) u (pNE p) /\
  (forall a b, X' a = true -> X' b = true ->
     path adj8 (fun q => fg X q /\ q <> p) u a -> path adj8 (fun q => fg X q /\ q <> p) (pNE p) b -> False).
Proof.
  intros X X' p u T Xp X'p L XN XNE Hu Xu. split.
  - exact (last_in_D_sides_apart X X' p u T Xp X'p L XN XNE Hu Xu).
  - exact (last_in_D_one_side_free X X' p u T Xp X'p L XN XNE Hu Xu).
Qed.

(* the hypotheses are satisfiable: X = {W(p), p, NE(p)}, X' = {NE(p)} around p = (1,1) *)
Example last_in_D_sides_premises :
  let X := fun q : px => px_eqb q (1, 0) || px_eqb q (1, 1) || px_eqb q (0, 2) in
  X (1, 1) = true /\ (forall q, X q = true -> ~ ltr (1, 1) q) /\ X (pN (1, 1)) = false /\ X (pNE (1, 1)) = true /\
  X (pW (1, 1)) = true /\ separated X (1, 1) = true.
Proof.
  cbv zeta. repeat split; try reflexivity.
  intros [i j] V. unfold ltr. cbn [fst snd].
  apply orb_true_iff in V as [V|V]; [apply orb_true_iff in V as [V|V]|];
    unfold px_eqb in V; cbn [fst snd] in V; apply andb_true_iff in V as [A B]; apply Z.eqb_eq in A, B; lia.
Qed.
