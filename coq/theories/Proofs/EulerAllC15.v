(* C15 — the unrestricted Euler statement, by induction over the pixels in raster order:
   4 W = 4 (components - holes) for EVERY label image, given the one named implication
   EulerRasterC15.bridge_keeps_background (everything else is proved). *)
From Coq Require Import ZArith List Bool Lia ZifyBool.
From Centro Require Import Base.GraphC15 Model.LabelGraph Spec.LabelGraph Spec.EulerMovesC15 Proofs.NeighborsC15
  Proofs.SpecC15 Proofs.EulerStepC15.
From Centro Require Import Base.Topo Base.TopoPar Base.Skel Spec.TopoCheck Proofs.TopoCounts Proofs.EndPixel Proofs.EulerTopoC15
  Proofs.EulerBridgeC15 Proofs.EulerHolesC15 Proofs.EulerRasterC15.
Import ListNotations.
Open Scope Z_scope.

(* 8-connectivity inside the pixel set of a label is decidable (the flood fill decides it) *)
Lemma conn8_dec (im : image) (l : Z) : rect im -> l <> 0 -> forall a b,
  path Topo.adj8 (fg (X_of im l)) a b \/ ~ path Topo.adj8 (fg (X_of im l)) a b.
Proof.
  intros R Hl a b. set (s := pixels_of im l).
  destruct (X_of im l a) eqn:Ea; [|right; intros P; apply path_start in P; unfold fg in P; congruence].
  destruct (X_of im l b) eqn:Eb; [|right; intros P; apply path_end in P; unfold fg in P; congruence].
  destruct (n_components_spec Spec.LabelGraph.adj8 SpecC15.adj8_sym s (pixels_of_nodup im l)) as [reps [_ [_ [_ [K U]]]]].
  assert (IN : forall q, In q s <-> fg (X_of im l) q) by (intros q; apply pixels_of_in; assumption).
  destruct (K a (proj2 (IN a) Ea)) as [ra [Hra Pa]]. destruct (K b (proj2 (IN b) Eb)) as [rb [Hrb Pb]].
  assert (TO : forall x y, cpath Spec.LabelGraph.adj8 s x y -> path Topo.adj8 (fg (X_of im l)) x y).
  { apply cpath_path; [intros u v; apply adj8_iff|intros q; apply IN]. }
  assert (FROM : forall x y, path Topo.adj8 (fg (X_of im l)) x y -> cpath Spec.LabelGraph.adj8 s x y).
  { apply path_cpath; [intros u v; apply adj8_iff|intros q; apply IN]. }
  destruct (Topo.px_eqb_spec ra rb) as [E|NE].
  - left. eapply path_trans; [apply conn8_sym; apply TO; exact Pa|]. rewrite E. apply TO. exact Pb.
  - right. intros P. apply NE. apply (U ra rb Hra Hrb).
    eapply (cpath_trans Spec.LabelGraph.adj8); [exact Pa|]. eapply (cpath_trans Spec.LabelGraph.adj8); [apply FROM; exact P|].
    apply (cpath_sym Spec.LabelGraph.adj8 SpecC15.adj8_sym). exact Pb.
Qed.

Section All.
Variable l : Z.
Hypothesis l_nz : l <> 0.
Hypothesis JH : bridge_keeps_background.

Definition fg_count (im : image) : nat :=
  length (filter (fun p => inS im l (fst p) (snd p)) (positions (img_h im) (img_w im))).

Lemma X_nb im y x : X_of im l (nb (y, x) 0) = inS im l (y - 1) (x - 1) /\ X_of im l (nb (y, x) 1) = inS im l (y - 1) x /\
  X_of im l (nb (y, x) 2) = inS im l (y - 1) (x + 1) /\ X_of im l (nb (y, x) 3) = inS im l y (x - 1).
Proof.
  unfold X_of, nb, off. cbn [fst snd Nat.div Nat.modulo Nat.divmod Z.of_nat Z.sub Z.add Z.opp Z.pos_sub Pos.of_succ_nat Pos.succ].
  repeat split; f_equal; lia.
Qed.

Theorem euler_all_images_by_raster : forall n im, rect im -> (fg_count im <= n)%nat -> euler4 im l = 4 * euler_spec im l.
Proof.
  induction n as [|n IH]; intros im R FC.
  - (* no pixel of the label *)
    assert (E : forall y x, get2 im y x <> l).
    { intros y x G. destruct (get2_inside im y x R ltac:(lia)) as [Hy Hx].
      assert (Hin : In (y, x) (filter (fun p => inS im l (fst p) (snd p)) (positions (img_h im) (img_w im)))).
      { apply filter_In. split; [apply positions_in; lia|]. cbn [fst snd]. unfold inS. rewrite G. apply Z.eqb_refl. }
      unfold fg_count in FC. destruct (filter _ _); [destruct Hin|cbn [length] in FC; lia]. }
    apply (euler_is_components_minus_holes_reducible l l_nz im 0 (r2_empty l im E) R).
  - set (ps := positions (img_h im) (img_w im)).
    destruct (existsb (fun p => inS im l (fst p) (snd p)) ps) eqn:EX.
    + apply existsb_exists in EX. destruct EX as [x0 [Hx0 Vx0]].
      destruct (last_exists (X_of im l) ps (ex_intro _ x0 (conj Hx0 Vx0))) as [[y x] [Ip [Vp Mp]]].
      assert (P : get2 im y x = l) by (unfold X_of, inS in Vp; cbn [fst snd] in Vp; apply Z.eqb_eq; exact Vp).
      assert (INS : forall q, X_of im l q = true -> In q ps).
      { intros [qy qx] Hq. unfold X_of, inS in Hq. cbn [fst snd] in Hq. apply Z.eqb_eq in Hq. apply positions_in.
        apply (get2_inside im qy qx R). lia. }
      assert (LastY : forall q, X_of im l q = true -> ~ ltr (y, x) q) by (intros q Hq; apply Mp; [apply INS; exact Hq|exact Hq]).
      assert (LP : last_px im l y x).
      { split; [exact P|]. intros y' x' G. apply LastY. unfold X_of, inS. cbn [fst snd]. rewrite G. apply Z.eqb_refl. }
      set (im' := remove_px im y x).
      assert (R' : rect im') by (apply set_px_rect; exact R).
      assert (EXT : forall q, Topo.remove (X_of im l) (y, x) q = X_of im' l q) by (intros q; symmetry; apply X_of_remove; assumption).
      (* one pixel less *)
      assert (FC' : (fg_count im' <= n)%nat).
      { unfold fg_count in *. unfold im', remove_px. rewrite set_px_h, set_px_w. fold (remove_px im y x). fold im'.
        assert (LT : (length (filter (fun p => inS im' l (fst p) (snd p)) ps) < length (filter (fun p => inS im l (fst p) (snd p)) ps))%nat).
        { apply (filter_length_lt _ _ _ (y, x)).
          - intros [qy qx]. cbn [fst snd]. unfold im'. rewrite (inS_removed im l y x l_nz P).
            destruct ((qy =? y) && (qx =? x)); [discriminate|tauto].
          - exact Ip.
          - exact Vp.
          - cbn [fst snd]. unfold im'. rewrite (inS_removed im l y x l_nz P). rewrite !Z.eqb_refl. reflexivity. }
        unfold ps in *. lia. }
      pose proof (IH im' R' FC') as E'.
      destruct (plane_reps_exist im l R l_nz) as [fgl [bgl [CF [CB ES]]]].
      destruct (plane_reps_exist im' l R' l_nz) as [fgl' [bgl' [CF' [CB' ES']]]].
      assert (CFr : comp_reps Topo.adj8 (fg (Topo.remove (X_of im l) (y, x))) fgl')
        by (apply (comp_reps_ext _ (fg (X_of im' l))); [intros q; split; intros Hq; [apply (proj2 (fg_ext _ _ EXT q))|apply (proj1 (fg_ext _ _ EXT q))]; exact Hq|exact CF']).
      assert (CBr : comp_reps Topo.adj4 (bg (Topo.remove (X_of im l) (y, x))) bgl')
        by (apply (comp_reps_ext _ (bg (X_of im' l))); [intros q; split; intros Hq; [apply (proj2 (bg_ext _ _ EXT q))|apply (proj1 (bg_ext _ _ EXT q))]; exact Hq|exact CB']).
      assert (DEC : forall a b, path Topo.adj8 (fg (Topo.remove (X_of im l) (y, x))) a b \/
                                ~ path Topo.adj8 (fg (Topo.remove (X_of im l) (y, x))) a b).
      { intros a b. destruct (conn8_dec im' l R' l_nz a b) as [C|C]; [left|right].
        - eapply path_mono; [|exact C]. intros q Hq. apply (proj2 (fg_ext _ _ EXT q)). exact Hq.
        - intros Q. apply C. eapply path_mono; [|exact Q]. intros q Hq. apply (proj1 (fg_ext _ _ EXT q)). exact Hq. }
      pose proof (last_step (X_of im l) ps (y, x) INS Vp LastY JH DEC fgl bgl fgl' bgl' CF CB CFr CBr) as TS.
      destruct (X_nb im y x) as [N0 [N1 [N2 N3]]]. rewrite N0, N1, N2, N3 in TS.
      rewrite (euler_delete_last_pixel im l y x R l_nz LP). fold im'. rewrite E', ES, ES', TS. lia.
    + (* no pixel of the label at all *)
      assert (E : forall y x, get2 im y x <> l).
      { intros y x G. destruct (get2_inside im y x R ltac:(lia)) as [Hy Hx].
        assert (T : existsb (fun p => inS im l (fst p) (snd p)) ps = true).
        { apply existsb_exists. exists (y, x). split; [apply positions_in; lia|]. cbn [fst snd]. unfold inS. rewrite G. apply Z.eqb_refl. }
        congruence. }
      apply (euler_is_components_minus_holes_reducible l l_nz im 0 (r2_empty l im E) R).
Qed.
End All.

(* ---- unconditional half: 4 (components - holes) <= 4 W for every image ---- *)
Section AllLe.
Variable l : Z.
Hypothesis l_nz : l <> 0.

Definition fg_count_le (im : image) : nat :=
  length (filter (fun p => inS im l (fst p) (snd p)) (positions (img_h im) (img_w im))).

Lemma X_nb_le im y x : X_of im l (nb (y, x) 0) = inS im l (y - 1) (x - 1) /\ X_of im l (nb (y, x) 1) = inS im l (y - 1) x /\
  X_of im l (nb (y, x) 2) = inS im l (y - 1) (x + 1) /\ X_of im l (nb (y, x) 3) = inS im l y (x - 1).
Proof.
  unfold X_of, nb, off. cbn [fst snd Nat.div Nat.modulo Nat.divmod Z.of_nat Z.sub Z.add Z.opp Z.pos_sub Pos.of_succ_nat Pos.succ].
  repeat split; f_equal; lia.
Qed.

Theorem euler_lower_bound_by_raster : forall n im, rect im -> (fg_count_le im <= n)%nat -> 4 * euler_spec im l <= euler4 im l.
Proof.
  induction n as [|n IH]; intros im R FC.
  - (* no pixel of the label *)
    assert (E : forall y x, get2 im y x <> l).
    { intros y x G. destruct (get2_inside im y x R ltac:(lia)) as [Hy Hx].
      assert (Hin : In (y, x) (filter (fun p => inS im l (fst p) (snd p)) (positions (img_h im) (img_w im)))).
      { apply filter_In. split; [apply positions_in; lia|]. cbn [fst snd]. unfold inS. rewrite G. apply Z.eqb_refl. }
      unfold fg_count_le in FC. destruct (filter _ _); [destruct Hin|cbn [length] in FC; lia]. }
    destruct (euler_is_components_minus_holes_reducible l l_nz im 0 (r2_empty l im E) R) as [Q _]. lia.
  - set (ps := positions (img_h im) (img_w im)).
    destruct (existsb (fun p => inS im l (fst p) (snd p)) ps) eqn:EX.
    + apply existsb_exists in EX. destruct EX as [x0 [Hx0 Vx0]].
      destruct (last_exists (X_of im l) ps (ex_intro _ x0 (conj Hx0 Vx0))) as [[y x] [Ip [Vp Mp]]].
      assert (P : get2 im y x = l) by (unfold X_of, inS in Vp; cbn [fst snd] in Vp; apply Z.eqb_eq; exact Vp).
      assert (INS : forall q, X_of im l q = true -> In q ps).
      { intros [qy qx] Hq. unfold X_of, inS in Hq. cbn [fst snd] in Hq. apply Z.eqb_eq in Hq. apply positions_in.
        apply (get2_inside im qy qx R). lia. }
      assert (LastY : forall q, X_of im l q = true -> ~ ltr (y, x) q) by (intros q Hq; apply Mp; [apply INS; exact Hq|exact Hq]).
      assert (LP : last_px im l y x).
      { split; [exact P|]. intros y' x' G. apply LastY. unfold X_of, inS. cbn [fst snd]. rewrite G. apply Z.eqb_refl. }
      set (im' := remove_px im y x).
      assert (R' : rect im') by (apply set_px_rect; exact R).
      assert (EXT : forall q, Topo.remove (X_of im l) (y, x) q = X_of im' l q) by (intros q; symmetry; apply X_of_remove; assumption).
      (* one pixel less *)
      assert (FC' : (fg_count_le im' <= n)%nat).
      { unfold fg_count_le in *. unfold im', remove_px. rewrite set_px_h, set_px_w. fold (remove_px im y x). fold im'.
        assert (LT : (length (filter (fun p => inS im' l (fst p) (snd p)) ps) < length (filter (fun p => inS im l (fst p) (snd p)) ps))%nat).
        { apply (filter_length_lt _ _ _ (y, x)).
          - intros [qy qx]. cbn [fst snd]. unfold im'. rewrite (inS_removed im l y x l_nz P).
            destruct ((qy =? y) && (qx =? x)); [discriminate|tauto].
          - exact Ip.
          - exact Vp.
          - cbn [fst snd]. unfold im'. rewrite (inS_removed im l y x l_nz P). rewrite !Z.eqb_refl. reflexivity. }
        unfold ps in *. lia. }
      pose proof (IH im' R' FC') as E'.
      destruct (plane_reps_exist im l R l_nz) as [fgl [bgl [CF [CB ES]]]].
      destruct (plane_reps_exist im' l R' l_nz) as [fgl' [bgl' [CF' [CB' ES']]]].
      assert (CFr : comp_reps Topo.adj8 (fg (Topo.remove (X_of im l) (y, x))) fgl')
        by (apply (comp_reps_ext _ (fg (X_of im' l))); [intros q; split; intros Hq; [apply (proj2 (fg_ext _ _ EXT q))|apply (proj1 (fg_ext _ _ EXT q))]; exact Hq|exact CF']).
      assert (CBr : comp_reps Topo.adj4 (bg (Topo.remove (X_of im l) (y, x))) bgl')
        by (apply (comp_reps_ext _ (bg (X_of im' l))); [intros q; split; intros Hq; [apply (proj2 (bg_ext _ _ EXT q))|apply (proj1 (bg_ext _ _ EXT q))]; exact Hq|exact CB']).
      assert (DEC : forall a b, path Topo.adj8 (fg (Topo.remove (X_of im l) (y, x))) a b \/
                                ~ path Topo.adj8 (fg (Topo.remove (X_of im l) (y, x))) a b).
      { intros a b. destruct (conn8_dec im' l R' l_nz a b) as [C|C]; [left|right].
        - eapply path_mono; [|exact C]. intros q Hq. apply (proj2 (fg_ext _ _ EXT q)). exact Hq.
        - intros Q. apply C. eapply path_mono; [|exact Q]. intros q Hq. apply (proj1 (fg_ext _ _ EXT q)). exact Hq. }
      pose proof (last_step_le (X_of im l) (y, x) Vp LastY DEC fgl bgl fgl' bgl' CF CB CFr CBr) as TS.
      destruct (X_nb_le im y x) as [N0 [N1 [N2 N3]]]. rewrite N0, N1, N2, N3 in TS.
      rewrite (euler_delete_last_pixel im l y x R l_nz LP). fold im'. rewrite ES. rewrite ES' in E'. lia.
    + (* no pixel of the label at all *)
      assert (E : forall y x, get2 im y x <> l).
      { intros y x G. destruct (get2_inside im y x R ltac:(lia)) as [Hy Hx].
        assert (T : existsb (fun p => inS im l (fst p) (snd p)) ps = true).
        { apply existsb_exists. exists (y, x). split; [apply positions_in; lia|]. cbn [fst snd]. unfold inS. rewrite G. apply Z.eqb_refl. }
        congruence. }
      destruct (euler_is_components_minus_holes_reducible l l_nz im 0 (r2_empty l im E) R) as [Q _]. lia.
Qed.
End AllLe.


(* the unrestricted statement, for every rectangular label image and every label, given the one
   missing implication *)
Theorem euler_is_components_minus_holes_all : bridge_keeps_background ->
  forall (im : image) (l : Z), rect im -> l <> 0 -> euler4 im l = 4 * euler_spec im l.
Proof. intros JH im l R Hl. exact (euler_all_images_by_raster l Hl JH (fg_count l im) im R (le_n _)). Qed.

(* unconditional: the quad-count Euler number is never below components - holes *)
Theorem euler_lower_bound (im : image) (l : Z) : rect im -> l <> 0 -> 4 * euler_spec im l <= euler4 im l.
Proof. intros R Hl. exact (euler_lower_bound_by_raster l Hl (fg_count_le l im) im R (le_n _)). Qed.
