(* C18 — median_of_labels: the line-level model (with the final gather through the anti-index
   table) equals the declarative reference, for ANY request list (median_of_labels_correct_all:
   labels may be requested repeatedly); median_of_labels_correct is the duplicate-free corollary. *)
From Coq Require Import ZArith List Bool Arith Lia Sorted Permutation.
From Centro Require Import Base.SortC18 Model.VecC18 Model.MedianC18 Spec.SpecC18 Proofs.VecC18Lemmas.
Import ListNotations.
Local Open Scope nat_scope.

(* ---------------------------------------------------------------- arithmetic of the middle *)
Lemma even_arith c : c <> 0 -> Nat.even c = true ->
  (c - 1) / 2 = c / 2 - 1 /\ S ((c - 1) / 2) = c / 2 /\ c / 2 < c.
Proof.
  intros Hc E. apply Nat.even_spec in E. destruct E as [h ->].
  assert (2 * h / 2 = h) as A by (rewrite Nat.mul_comm; apply Nat.div_mul; lia).
  assert ((2 * h - 1) / 2 = h - 1) as B by (symmetry; apply Nat.div_unique with 1; lia).
  rewrite A, B. lia.
Qed.

Lemma odd_arith c : Nat.even c = false -> (c - 1) / 2 = c / 2 /\ c / 2 < c.
Proof.
  intros E. assert (Nat.odd c = true) as O by (unfold Nat.odd; rewrite E; reflexivity).
  apply Nat.odd_spec in O. destruct O as [h ->].
  assert ((2 * h + 1) / 2 = h) as A by (symmetry; apply Nat.div_unique with 1; lia).
  assert ((2 * h + 1 - 1) / 2 = h) as B by (symmetry; apply Nat.div_unique with 0; lia).
  rewrite A, B. lia.
Qed.

(* ---------------------------------------------------------------- generic list facts *)
Lemma nth_map_lt {A B} (f : A -> B) l k d d' : k < length l -> nth k (map f l) d = f (nth k l d').
Proof.
  intros Hk. rewrite nth_indep with (d' := f d') by (rewrite map_length; exact Hk). apply map_nth.
Qed.

Lemma nth_repeat_lt {A} (a d : A) m k : k < m -> nth k (repeat a m) d = a.
Proof.
  revert k; induction m as [|m IH]; intros [|k] Hk; cbn [repeat nth]; try lia; auto. apply IH; lia.
Qed.

Lemma map_seq_nth {A} (l : list A) d : map (fun i => nth i l d) (seq 0 (length l)) = l.
Proof.
  induction l as [|a r IH]; [reflexivity|]. cbn [length seq map nth]. f_equal.
  rewrite <- seq_shift, map_map. exact IH.
Qed.

Lemma firstn_seq0 k n : k <= n -> firstn k (seq 0 n) = seq 0 k.
Proof.
  generalize 0 as s. revert n; induction k as [|k IH]; intros [|n] s Hk; cbn [firstn seq]; try lia; auto.
  f_equal. apply IH; lia.
Qed.

Lemma filter_none {A} (f : A -> bool) l : Forall (fun x => f x = false) l -> filter f l = [].
Proof. induction 1 as [|x l Hx _ IH]; cbn [filter]; [reflexivity|]. rewrite Hx. exact IH. Qed.

Lemma filter_all {A} (f : A -> bool) l : Forall (fun x => f x = true) l -> filter f l = l.
Proof. induction 1 as [|x l Hx _ IH]; cbn [filter]; [reflexivity|]. rewrite Hx, IH. reflexivity. Qed.

Lemma Permutation_filter_c18 {A} (f : A -> bool) l1 l2 :
  Permutation l1 l2 -> Permutation (filter f l1) (filter f l2).
Proof.
  induction 1 as [|x l1 l2 P IH|x y l|l1 l2 l3 P1 IH1 P2 IH2]; cbn [filter].
  - constructor.
  - destruct (f x); [constructor|]; exact IH.
  - destruct (f x), (f y); try apply Permutation_refl. apply perm_swap.
  - eapply Permutation_trans; eauto.
Qed.

Lemma StronglySorted_map_in {A B} (R1 : A -> A -> Prop) (R2 : B -> B -> Prop) (g : A -> B) l :
  StronglySorted R1 l ->
  (forall x y, In x l -> In y l -> R1 x y -> R2 (g x) (g y)) ->
  StronglySorted R2 (map g l).
Proof.
  intros HS. induction HS as [|a r HS IH F]; intros HR; cbn [map]; constructor.
  - apply IH. intros x y Hx Hy. apply HR; right; assumption.
  - rewrite Forall_forall in *. intros z Hz. apply in_map_iff in Hz. destruct Hz as [y [<- Hy]].
    apply HR; [left; reflexivity|right; exact Hy|apply F; exact Hy].
Qed.

Lemma StronglySorted_filter {A} (R : A -> A -> Prop) (f : A -> bool) l :
  StronglySorted R l -> StronglySorted R (filter f l).
Proof.
  intros HS. induction HS as [|a r HS IH F]; cbn [filter]; [constructor|].
  destruct (f a); [|exact IH]. constructor; [exact IH|].
  rewrite Forall_forall in *. intros x Hx. apply filter_In in Hx. apply F. tauto.
Qed.

Lemma sorted_perm_eq l1 : forall l2,
  StronglySorted Z.le l1 -> StronglySorted Z.le l2 -> Permutation l1 l2 -> l1 = l2.
Proof.
  induction l1 as [|a r1 IH]; intros l2 S1 S2 P.
  - symmetry. apply Permutation_nil. exact P.
  - destruct l2 as [|b r2]; [symmetry in P; apply Permutation_nil in P; discriminate|].
    inversion S1 as [|a' r1' S1' F1]; subst. inversion S2 as [|b' r2' S2' F2]; subst.
    rewrite Forall_forall in F1, F2.
    assert (a = b) as E.
    { assert (In a (b :: r2)) as Ha by (eapply Permutation_in; [exact P|left; reflexivity]).
      assert (In b (a :: r1)) as Hb by (eapply Permutation_in; [symmetry; exact P|left; reflexivity]).
      destruct Ha as [Ha|Ha]; [auto|]. destruct Hb as [Hb|Hb]; [auto|].
      apply F2 in Ha. apply F1 in Hb. lia. }
    subst b. f_equal. apply IH; auto. eapply Permutation_cons_inv; exact P.
Qed.

Lemma nth_removelast {A} (l : list A) k d : S k < length l -> nth k (removelast l) d = nth k l d.
Proof.
  revert k; induction l as [|a r IH]; intros k Hk; cbn [length] in Hk; [lia|].
  destruct r as [|b r]; [cbn [length] in Hk; lia|].
  change (removelast (a :: b :: r)) with (a :: removelast (b :: r)).
  destruct k as [|k]; [reflexivity|]. cbn [nth]. apply IH. cbn [length] in *; lia.
Qed.

Lemma map2_nth {A B C} (f : A -> B -> C) l1 l2 k d d1 d2 :
  k < length l1 -> k < length l2 -> nth k (map2 f l1 l2) d = f (nth k l1 d1) (nth k l2 d2).
Proof.
  revert l2 k; induction l1 as [|a r1 IH]; intros [|b r2] k H1 H2; cbn [length] in *; try lia.
  destruct k as [|k]; cbn [map2 nth]; [reflexivity|]. apply IH; lia.
Qed.

Lemma combine_seq_in {A} (l : list A) d t : forall s,
  In t (combine l (seq s (length l))) ->
  s <= snd t < s + length l /\ fst t = nth (snd t - s) l d.
Proof.
  induction l as [|a r IH]; intros s Ht; cbn [length seq combine] in Ht; [contradiction|].
  destruct Ht as [<-|Ht].
  - cbn [fst snd length]. rewrite Nat.sub_diag. cbn [nth]. split; [lia|reflexivity].
  - apply IH in Ht. destruct Ht as [Hr Hf]. cbn [length]. split; [lia|].
    replace (snd t - s) with (S (snd t - S s)) by lia. cbn [nth]. exact Hf.
Qed.

Lemma map_snd_combine {A B} (h : nat -> B) (Y : list A) (Z : list nat) :
  length Y = length Z -> map (fun t => h (snd t)) (combine Y Z) = map h Z.
Proof.
  revert Z; induction Y as [|y Y IH]; intros [|z Z] HL; cbn [length] in HL; try lia; [reflexivity|].
  cbn [combine map snd]. f_equal. apply IH; lia.
Qed.

(* ---------------------------------------------------------------- sums of counts *)
Lemma nsum_app l1 l2 : nsum (l1 ++ l2) = nsum l1 + nsum l2.
Proof. unfold nsum. induction l1 as [|a r IH]; cbn [app fold_right]; [reflexivity|]. rewrite IH. lia. Qed.

Lemma filter_lt_S k L :
  length (filter (fun x => x <? S k) L) = length (filter (fun x => x <? k) L) + ncount k L.
Proof.
  unfold ncount. induction L as [|x L IH]; [reflexivity|]. cbn [filter].
  destruct (Nat.ltb_spec x (S k)), (Nat.ltb_spec x k), (Nat.eqb_spec k x); cbn [length]; lia.
Qed.

Lemma nsum_counts_lt L k :
  nsum (map (fun j => ncount j L) (seq 0 k)) = length (filter (fun x => x <? k) L).
Proof.
  induction k as [|k IH].
  - cbn [seq map nsum fold_right]. rewrite filter_none; [reflexivity|].
    apply Forall_forall. intros x _. reflexivity.
  - rewrite seq_S, map_app, nsum_app, IH, filter_lt_S. cbn [map nsum fold_right]. unfold nsum. cbn. lia.
Qed.

Lemma first_nth counts k : k < length counts ->
  nth k (0 :: removelast (ncumsum counts)) 0 = nsum (firstn k counts).
Proof.
  intros Hk. destruct k as [|k]; [reflexivity|]. cbn [nth].
  unfold ncumsum. rewrite nth_removelast by (rewrite ncumsum_from_length; exact Hk).
  rewrite ncumsum_from_nth by lia. reflexivity.
Qed.

Lemma bincount_shape L M :
  exists n', M <= n' /\ bincount L M = map (fun k => ncount k L) (seq 0 n').
Proof. unfold bincount. destruct L; eexists; (split; [|reflexivity]); lia. Qed.

(* ---------------------------------------------------------------- lists of (label, value) sorted by label then value *)
Definition plex (p q : nat * Z) : Prop := fst p < fst q \/ (fst p = fst q /\ (snd p <= snd q)%Z).

Lemma ncount_pairs k (Q : list (nat * Z)) :
  ncount k (map fst Q) = length (filter (fun p => fst p =? k) Q).
Proof.
  unfold ncount. induction Q as [|p Q IH]; [reflexivity|]. cbn [map filter].
  rewrite (Nat.eqb_sym k (fst p)). destruct (fst p =? k); cbn [length]; rewrite IH; reflexivity.
Qed.

Lemma filter_lt_pairs k (Q : list (nat * Z)) :
  length (filter (fun x => x <? k) (map fst Q)) = length (filter (fun p => fst p <? k) Q).
Proof.
  induction Q as [|p Q IH]; [reflexivity|]. cbn [map filter].
  destruct (fst p <? k); cbn [length]; rewrite IH; reflexivity.
Qed.

Lemma sorted_split k Q : StronglySorted plex Q ->
  Q = filter (fun p => fst p <? k) Q ++ filter (fun p => fst p =? k) Q ++ filter (fun p => k <? fst p) Q.
Proof.
  intros HS. induction HS as [|a r HS IH F]; [reflexivity|]. cbn [filter].
  destruct (Nat.ltb_spec (fst a) k) as [Hlt|Hge].
  - destruct (Nat.eqb_spec (fst a) k); [lia|]. destruct (Nat.ltb_spec k (fst a)); [lia|].
    cbn [app]. f_equal. exact IH.
  - assert (filter (fun p => fst p <? k) r = []) as Hnil.
    { apply filter_none. rewrite Forall_forall in *. intros q Hq. specialize (F q Hq).
      apply Nat.ltb_ge. unfold plex in F. lia. }
    destruct (Nat.eqb_spec (fst a) k) as [Heq|Hne].
    + destruct (Nat.ltb_spec k (fst a)); [lia|].
      rewrite Hnil. cbn [app]. f_equal. etransitivity; [exact IH|]. rewrite Hnil. reflexivity.
    + assert (filter (fun p => fst p =? k) r = []) as Hnil2.
      { apply filter_none. rewrite Forall_forall in *. intros q Hq. specialize (F q Hq).
        apply Nat.eqb_neq. unfold plex in F. lia. }
      assert (filter (fun p => k <? fst p) r = r) as Hall.
      { apply filter_all. rewrite Forall_forall in *. intros q Hq. specialize (F q Hq).
        apply Nat.ltb_lt. unfold plex in F. lia. }
      destruct (Nat.ltb_spec k (fst a)); [|lia].
      rewrite Hnil, Hnil2, Hall. reflexivity.
Qed.

Lemma seg_nth k Q t : StronglySorted plex Q ->
  t < length (filter (fun p => fst p =? k) Q) ->
  nth (length (filter (fun p => fst p <? k) Q) + t) (map snd Q) 0%Z
  = nth t (map snd (filter (fun p => fst p =? k) Q)) 0%Z.
Proof.
  intros HS Ht.
  replace (map snd Q) with
    (map snd (filter (fun p => fst p <? k) Q ++ filter (fun p => fst p =? k) Q
              ++ filter (fun p => k <? fst p) Q)) by (rewrite <- sorted_split; auto).
  rewrite !map_app. rewrite app_nth2 by (rewrite map_length; lia).
  rewrite map_length.
  replace (length (filter (fun p => fst p <? k) Q) + t - length (filter (fun p => fst p <? k) Q)) with t by lia.
  apply app_nth1. rewrite map_length. exact Ht.
Qed.

Lemma seg_sorted k Q : StronglySorted plex Q ->
  StronglySorted Z.le (map snd (filter (fun p => fst p =? k) Q)).
Proof.
  intros HS. apply StronglySorted_map_in with (R1 := plex).
  - apply StronglySorted_filter. exact HS.
  - intros x y Hx Hy HR. apply filter_In in Hx, Hy. destruct Hx as [_ Hx], Hy as [_ Hy].
    apply Nat.eqb_eq in Hx, Hy. unfold plex in HR. lia.
Qed.

(* ---------------------------------------------------------------- one requested label *)
Definition median_at (image2 : list Z) (counts middle_low : list nat) (k : nat) : option Z :=
  let c := getn counts k in
  if c =? 0 then None
  else let m := getz image2 (getn middle_low k) in
       if Nat.even c
       then Some ((m + getz image2 (S (getn middle_low k))) / 2)%Z
       else Some m.

Lemma median_at_correct (Q : list (nat * Z)) (s : list Z) k M :
  StronglySorted plex Q ->
  map snd (filter (fun p => fst p =? k) Q) = zsort s ->
  k < M ->
  let counts := bincount (map fst Q) M in
  let first := 0 :: removelast (ncumsum counts) in
  let middle_low := map2 (fun f c => f + (c - 1) / 2) first counts in
  median_at (map snd Q) counts middle_low k = median_of s.
Proof.
  intros HS Hseg Hk counts first middle_low.
  destruct (bincount_shape (map fst Q) M) as [n' [Hn' Hshape]].
  assert (length counts = n') as Hlen by (unfold counts; rewrite Hshape, map_length, seq_length; reflexivity).
  assert (getn counts k = length (zsort s)) as Hc.
  { unfold getn, counts. rewrite Hshape. rewrite nth_map_lt with (d' := 0) by (rewrite seq_length; lia).
    rewrite seq_nth by lia. cbn [Nat.add]. rewrite ncount_pairs, <- Hseg, map_length. reflexivity. }
  assert (nth k first 0 = length (filter (fun p => fst p <? k) Q)) as Hf.
  { unfold first. rewrite first_nth by lia. unfold counts. rewrite Hshape, firstn_map, firstn_seq0 by lia.
    rewrite nsum_counts_lt. apply filter_lt_pairs. }
  assert (length first = length counts) as Hlf.
  { unfold first. cbn [length]. rewrite removelast_firstn_len, firstn_length.
    unfold ncumsum. rewrite ncumsum_from_length. lia. }
  assert (getn middle_low k = length (filter (fun p => fst p <? k) Q) + (length (zsort s) - 1) / 2) as Hm.
  { unfold getn, middle_low. rewrite map2_nth with (d1 := 0) (d2 := 0) by lia.
    rewrite Hf. unfold getn in Hc. rewrite Hc. reflexivity. }
  assert (length (zsort s) = length s) as Hls by (symmetry; apply Permutation_length, zsort_perm).
  unfold median_at, median_of. rewrite Hm, Hc.
  destruct s as [|z s'].
  - rewrite Hls. reflexivity.
  - set (s := z :: s') in *. set (t := zsort s) in *.
    assert (length t <> 0) as Hne by (rewrite Hls; unfold s; cbn [length]; lia).
    destruct (Nat.eqb_spec (length t) 0) as [E|_]; [contradiction|].
    assert (forall u, u < length t ->
              getz (map snd Q) (length (filter (fun p => fst p <? k) Q) + u) = getz t u) as Hget.
    { intros u Hu. unfold getz. rewrite seg_nth by (auto; rewrite <- (map_length snd), Hseg; exact Hu).
      rewrite Hseg. reflexivity. }
    destruct (Nat.even (length t)) eqn:Ev.
    + destruct (even_arith _ Hne Ev) as [A1 [A2 A3]].
      rewrite <- Nat.add_succ_r, A2. rewrite !Hget by lia. rewrite A1. reflexivity.
    + destruct (odd_arith _ Ev) as [A1 A2]. rewrite Hget by lia. rewrite A1. reflexivity.
Qed.

(* ---------------------------------------------------------------- the lexsorted triples *)
Definition tri_in (L1 : list nat) (I1 : list Z) : list triple :=
  combine (combine (map Z.of_nat L1) I1) (seq 0 (length (map Z.of_nat L1))).
Definition tri_pair (L1 : list nat) (I1 : list Z) (t : triple) : nat * Z :=
  (getn L1 (t_ix t), getz I1 (t_ix t)).

Lemma tri_in_keys L1 I1 t : length L1 = length I1 -> In t (tri_in L1 I1) ->
  t_k1 t = Z.of_nat (getn L1 (t_ix t)) /\ t_k2 t = getz I1 (t_ix t).
Proof.
  intros HL Ht. unfold tri_in in Ht.
  assert (length (map Z.of_nat L1) = length I1) as HL' by (rewrite map_length; exact HL).
  replace (length (map Z.of_nat L1)) with (length (combine (map Z.of_nat L1) I1)) in Ht
    by (rewrite combine_length; lia).
  apply (combine_seq_in _ (0%Z, 0%Z)) in Ht. destruct Ht as [_ Hf].
  rewrite Nat.sub_0_r, combine_nth in Hf by exact HL'.
  unfold t_k1, t_k2, t_ix, getn, getz. rewrite Hf. cbn [fst snd].
  change 0%Z with (Z.of_nat 0) at 1. rewrite map_nth. split; reflexivity.
Qed.

Lemma tri_in_pairs L1 I1 : length L1 = length I1 ->
  map (tri_pair L1 I1) (tri_in L1 I1) = combine L1 I1.
Proof.
  intros HL. unfold tri_in.
  transitivity (map (fun t : triple => nth (snd t) (combine L1 I1) (0, 0%Z))
                    (combine (combine (map Z.of_nat L1) I1) (seq 0 (length (map Z.of_nat L1))))).
  - apply map_ext. intros t. unfold tri_pair, t_ix, getn, getz. rewrite combine_nth by exact HL. reflexivity.
  - etransitivity.
    + apply (map_snd_combine (fun i => nth i (combine L1 I1) (0, 0%Z))).
      rewrite seq_length, combine_length, map_length. lia.
    + replace (length (map Z.of_nat L1)) with (length (combine L1 I1))
        by (rewrite combine_length, map_length; lia).
      apply map_seq_nth.
Qed.

Lemma tri_sorted L1 I1 : length L1 = length I1 ->
  StronglySorted plex (map (tri_pair L1 I1) (tsort (tri_in L1 I1))).
Proof.
  intros HL. apply StronglySorted_map_in with (R1 := fun x y => tleb x y = true).
  - apply tsort_sorted.
  - intros x y Hx Hy HR.
    apply (Permutation_in _ (Permutation_sym (tsort_perm _))) in Hx, Hy.
    apply (tri_in_keys _ _ _ HL) in Hx, Hy. destruct Hx as [X1 X2], Hy as [Y1 Y2].
    unfold plex, tri_pair. cbn [fst snd]. rewrite <- X2, <- Y2.
    unfold tleb in HR. rewrite X1, Y1 in HR.
    destruct (Z.ltb_spec (Z.of_nat (getn L1 (t_ix x))) (Z.of_nat (getn L1 (t_ix y)))); [lia|].
    destruct (Z.ltb_spec (Z.of_nat (getn L1 (t_ix y))) (Z.of_nat (getn L1 (t_ix x)))); [discriminate|].
    destruct (Z.ltb_spec (t_k2 x) (t_k2 y)); [lia|].
    destruct (Z.ltb_spec (t_k2 y) (t_k2 x)); [discriminate|]. lia.
Qed.

Lemma tri_perm L1 I1 : length L1 = length I1 ->
  Permutation (map (tri_pair L1 I1) (tsort (tri_in L1 I1))) (combine L1 I1).
Proof.
  intros HL. rewrite <- (tri_in_pairs L1 I1 HL). apply Permutation_map, Permutation_sym, tsort_perm.
Qed.

(* ---------------------------------------------------------------- compress / renumber vs sel *)
Lemma sel_compress (inc : nat -> bool) (an : nat -> nat) k l :
  (forall x, inc x = false -> x <> l) ->
  (forall x, inc x = true -> (an x =? k) = (x =? l)) ->
  forall labels image, length image = length labels ->
  map snd (filter (fun p => fst p =? k)
             (combine (map an (compress (map inc labels) labels)) (compress (map inc labels) image)))
  = sel image labels l.
Proof.
  intros H0 H1. unfold sel.
  induction labels as [|x labels IH]; intros [|z image] HL; cbn [length] in HL; try lia; [reflexivity|].
  cbn [map compress combine filter snd]. specialize (IH image ltac:(lia)).
  destruct (inc x) eqn:Ex.
  - cbn [map combine filter fst]. rewrite (H1 x Ex). destruct (x =? l); cbn [map fst snd]; rewrite IH; reflexivity.
  - destruct (Nat.eqb_spec x l) as [E|_]; [exfalso; exact (H0 x Ex E)|]. exact IH.
Qed.

(* ---------------------------------------------------------------- the two scatter tables *)
Lemma include_in indices n x : NoDup indices -> (forall j, In j indices -> j < n) ->
  In x indices ->
  nth x (scatter indices (repeat true (length indices)) (repeat false n)) false = true.
Proof.
  intros ND Hn Hx. destruct (In_nth indices x 0 Hx) as [k [Hk <-]].
  rewrite scatter_get; auto.
  - apply nth_repeat_lt. exact Hk.
  - apply repeat_length.
  - intros j Hj. rewrite repeat_length. auto.
Qed.

Lemma include_notin indices n x : ~ In x indices ->
  nth x (scatter indices (repeat true (length indices)) (repeat false n)) false = false.
Proof. intros Hx. rewrite scatter_other by exact Hx. apply nth_repeat. Qed.

Lemma anti_get indices n k : NoDup indices -> (forall j, In j indices -> j < n) ->
  k < length indices ->
  getn (scatter indices (seq 0 (length indices)) (repeat 0 n)) (nth k indices 0) = k.
Proof.
  intros ND Hn Hk. unfold getn. rewrite scatter_get; auto.
  - rewrite seq_nth by exact Hk. reflexivity.
  - apply seq_length.
  - intros j Hj. rewrite repeat_length. auto.
Qed.

Lemma tables_sel indices n k image labels :
  NoDup indices -> (forall j, In j indices -> j < n) ->
  k < length indices -> length image = length labels ->
  let include_tab := scatter indices (repeat true (length indices)) (repeat false n) in
  let anti := scatter indices (seq 0 (length indices)) (repeat 0 n) in
  let include := map (fun l => nth l include_tab false) labels in
  map snd (filter (fun p => fst p =? k)
             (combine (map (getn anti) (compress include labels)) (compress include image)))
  = sel image labels (nth k indices 0).
Proof.
  intros ND Hn Hk HL include_tab anti include. unfold include.
  apply sel_compress with (inc := fun l => nth l include_tab false); [| |exact HL].
  - intros x Hx E. subst x. unfold include_tab in Hx.
    rewrite include_in in Hx; auto; [discriminate|]. apply nth_In. exact Hk.
  - intros x Hx. destruct (in_dec Nat.eq_dec x indices) as [Hin|Hout].
    + destruct (In_nth indices x 0 Hin) as [j [Hj <-]]. unfold anti. rewrite anti_get by auto.
      destruct (Nat.eqb_spec j k) as [->|Hjk]; [symmetry; apply Nat.eqb_refl|].
      symmetry. apply Nat.eqb_neq. intros E. apply Hjk.
      apply (proj1 (NoDup_nth indices 0) ND); auto.
    + unfold include_tab in Hx. rewrite include_notin in Hx by exact Hout. discriminate.
Qed.

(* ---------------------------------------------------------------- the tables when a label is requested
   more than once: the scatter is last-write-wins, so a label owns its LAST position *)
Definition is_last (idx : list nat) (j p : nat) : Prop :=
  p < length idx /\ nth p idx 0 = j /\ forall q, p < q -> q < length idx -> nth q idx 0 <> j.

Lemma is_last_in idx j p : is_last idx j p -> In j idx.
Proof. intros [H1 [H2 _]]. rewrite <- H2. apply nth_In. exact H1. Qed.

Lemma is_last_exists idx j : In j idx -> exists p, is_last idx j p.
Proof.
  induction idx as [|i r IH]; intros Hj; [contradiction|].
  destruct (in_dec Nat.eq_dec j r) as [Hin|Hout].
  - destruct (IH Hin) as [p [Hp [Hn Hq]]]. exists (S p).
    split; [cbn [length]; lia|]. split; [exact Hn|].
    intros [|q] H1 H2; [lia|]. cbn [nth]. apply Hq; cbn [length] in H2; lia.
  - destruct Hj as [->|Hj]; [|contradiction]. exists 0.
    split; [cbn [length]; lia|]. split; [reflexivity|].
    intros [|q] H1 H2; [lia|]. cbn [nth]. intros E. apply Hout. rewrite <- E.
    apply nth_In. cbn [length] in H2; lia.
Qed.

Lemma is_last_NoDup idx k : NoDup idx -> k < length idx -> is_last idx (nth k idx 0) k.
Proof.
  intros ND Hk. split; [exact Hk|]. split; [reflexivity|].
  intros q H1 H2 E. apply (proj1 (NoDup_nth idx 0) ND) in E; [lia|exact H2|exact Hk].
Qed.

(* base[idx] = vals with repeated indices: entry j holds the value written at the last position of j *)
Lemma scatter_last {A} idx : forall (vals base : list A) d j p,
  length vals = length idx -> (forall x, In x idx -> x < length base) ->
  is_last idx j p -> nth j (scatter idx vals base) d = nth p vals d.
Proof.
  induction idx as [|i r IH]; intros vals base d j p HL HB [Hp [Hn Hq]]; [cbn [length] in Hp; lia|].
  destruct vals as [|v vals]; [discriminate|]. rewrite scatter_cons.
  destruct p as [|p]; cbn [nth] in Hn |- *.
  - subst i. rewrite scatter_other.
    + apply set_nth_same. apply HB. left; reflexivity.
    + intros Hin. destruct (In_nth r j 0 Hin) as [q [Hq1 Hq2]].
      apply (Hq (S q)); [lia|cbn [length]; lia|exact Hq2].
  - apply IH.
    + cbn [length] in HL; lia.
    + intros x Hx. rewrite set_nth_length. apply HB. right; exact Hx.
    + split; [cbn [length] in Hp; lia|]. split; [exact Hn|].
      intros q H1 H2. apply (Hq (S q)); [lia|cbn [length]; lia].
Qed.

Lemma include_in_all indices n x : (forall j, In j indices -> j < n) -> In x indices ->
  nth x (scatter indices (repeat true (length indices)) (repeat false n)) false = true.
Proof.
  intros Hn Hx. destruct (is_last_exists indices x Hx) as [p Hp].
  rewrite (scatter_last indices _ _ false x p).
  - apply nth_repeat_lt. apply Hp.
  - apply repeat_length.
  - intros j Hj. rewrite repeat_length. auto.
  - exact Hp.
Qed.

Lemma anti_last indices n l p : (forall j, In j indices -> j < n) -> is_last indices l p ->
  getn (scatter indices (seq 0 (length indices)) (repeat 0 n)) l = p.
Proof.
  intros Hn Hp. unfold getn. rewrite (scatter_last indices _ _ 0 l p).
  - rewrite seq_nth by apply Hp. reflexivity.
  - apply seq_length.
  - intros j Hj. rewrite repeat_length. auto.
  - exact Hp.
Qed.

(* the pixels renumbered to the last position p of label l are exactly the pixels labelled l *)
Lemma tables_sel_last indices n l p image labels :
  (forall j, In j indices -> j < n) -> is_last indices l p -> length image = length labels ->
  let include_tab := scatter indices (repeat true (length indices)) (repeat false n) in
  let anti := scatter indices (seq 0 (length indices)) (repeat 0 n) in
  let include := map (fun l => nth l include_tab false) labels in
  map snd (filter (fun t => fst t =? p)
             (combine (map (getn anti) (compress include labels)) (compress include image)))
  = sel image labels l.
Proof.
  intros Hn Hp HL include_tab anti include. unfold include.
  pose proof (is_last_in _ _ _ Hp) as Hl.
  apply sel_compress with (inc := fun x => nth x include_tab false); [| |exact HL].
  - intros x Hx E. subst x. unfold include_tab in Hx.
    rewrite include_in_all in Hx by auto. discriminate.
  - intros x Hx. destruct (in_dec Nat.eq_dec x indices) as [Hin|Hout].
    + destruct (is_last_exists indices x Hin) as [q Hq]. unfold anti.
      rewrite (anti_last indices n x q Hn Hq).
      destruct (Nat.eqb_spec x l) as [E|Hxl].
      * subst x. assert (q = p) as E.
        { rewrite <- (anti_last indices n l q Hn Hq). apply anti_last; assumption. }
        subst q. apply Nat.eqb_refl.
      * apply Nat.eqb_neq. intros E. subst q. apply Hxl.
        destruct Hq as [_ [E1 _]]. destruct Hp as [_ [E2 _]]. congruence.
    + unfold include_tab in Hx. rewrite include_notin in Hx by exact Hout. discriminate.
Qed.

(* ---------------------------------------------------------------- the theorem *)
Lemma compress_lengths (m : list bool) (l1 : list nat) (l2 : list Z) :
  length m = length l1 -> length l1 = length l2 -> length (compress m l1) = length (compress m l2).
Proof. intros H1 H2. rewrite !compress_length by lia. reflexivity. Qed.

Lemma repeat_map_const {A B} (b : B) (l : list A) : repeat b (length l) = map (fun _ => b) l.
Proof. induction l as [|a r IH]; cbn [length repeat map]; [reflexivity|]. rewrite IH. reflexivity. Qed.

(* no hypothesis on the request list: labels may be requested more than once, in any order *)
Theorem median_of_labels_correct_all : forall (image : list Z) (labels indices : list nat),
  length image = length labels ->
  median_of_labels image labels indices = median_ref image labels indices.
Proof.
  intros image labels indices HL. unfold median_of_labels.
  destruct indices as [|i0 ir] eqn:Ei; [reflexivity|]. cbv iota. rewrite <- Ei in *. clear Ei i0 ir.
  cbv zeta.
  set (n := S (Nat.max (list_max labels) (list_max indices))).
  set (m := length indices).
  set (include_tab := scatter indices (repeat true m) (repeat false n)).
  set (anti := scatter indices (seq 0 m) (repeat 0 n)).
  set (include := map (fun l => nth l include_tab false) labels).
  set (L1 := map (getn anti) (compress include labels)).
  set (I1 := compress include image).
  assert (forall j, In j indices -> j < n) as Hn.
  { intros j Hj. assert (list_max indices <= list_max indices) as H by lia.
    apply list_max_le in H. rewrite Forall_forall in H. specialize (H j Hj). unfold n. lia. }
  assert (forall l p, is_last indices l p ->
            map snd (filter (fun t => fst t =? p) (combine L1 I1)) = sel image labels l) as Hsel.
  { intros l p Hp. apply (tables_sel_last indices n l p image labels Hn Hp HL). }
  assert (forall l p, is_last indices l p -> getn anti l = p) as Hanti.
  { intros l p Hp. apply (anti_last indices n l p Hn Hp). }
  assert (length L1 = length I1) as HL1.
  { unfold L1, I1. rewrite map_length. apply compress_lengths; [|lia].
    unfold include. apply map_length. }
  unfold median_ref.
  destruct L1 as [|l0 lr] eqn:EL1.
  - unfold m. rewrite repeat_map_const.
    apply map_ext_in. intros l Hl. destruct (is_last_exists indices l Hl) as [p Hp].
    rewrite <- (Hsel l p Hp). reflexivity.
  - rewrite <- EL1 in *. clear EL1 l0 lr.
    unfold lexsort. fold (tri_in L1 I1).
    set (T := tsort (tri_in L1 I1)). set (Q := map (tri_pair L1 I1) T).
    replace (map (getn L1) (map t_ix T)) with (map fst Q)
      by (unfold Q; rewrite !map_map; reflexivity).
    replace (map (getz I1) (map t_ix T)) with (map snd Q)
      by (unfold Q; rewrite !map_map; reflexivity).
    apply map_ext_in. intros l Hl. destruct (is_last_exists indices l Hl) as [p Hp].
    assert (p < m) as Hpm by apply Hp.
    rewrite (Hanti l p Hp).
    rewrite nth_map_lt with (d' := 0) by (rewrite seq_length; exact Hpm).
    rewrite seq_nth by exact Hpm. change (0 + p) with p. cbv beta.
    apply (median_at_correct Q (sel image labels l) p m).
    + apply tri_sorted. exact HL1.
    + apply sorted_perm_eq.
      * apply seg_sorted, tri_sorted. exact HL1.
      * apply zsort_sorted.
      * eapply Permutation_trans; [|apply zsort_perm]. rewrite <- (Hsel l p Hp).
        apply Permutation_map, Permutation_filter_c18, tri_perm. exact HL1.
    + exact Hpm.
Qed.

(* the duplicate-free case (the statement the other properties' files use) *)
Theorem median_of_labels_correct : forall (image : list Z) (labels indices : list nat),
  length image = length labels -> NoDup indices ->
  median_of_labels image labels indices = median_ref image labels indices.
Proof. intros image labels indices HL _. apply median_of_labels_correct_all. exact HL. Qed.

Example median_ex :
  median_of_labels [2;8;4;6;10]%Z [1;3;1;3;3] [5;3;1] = [None; Some 8; Some 3]%Z.
Proof. vm_compute. reflexivity. Qed.

(* a repeated request: every occurrence of a label gets that label's median *)
Example median_ex_repeated :
  median_of_labels [10;2;8]%Z [1;2;1] [1;1;3;2;3;1] = [Some 9; Some 9; None; Some 2; None; Some 9]%Z.
Proof. vm_compute. reflexivity. Qed.

Example median_ex_repeated_ref :
  median_ref [10;2;8]%Z [1;2;1] [1;1;3;2;3;1] = [Some 9; Some 9; None; Some 2; None; Some 9]%Z.
Proof. vm_compute. reflexivity. Qed.

(* repeated requests of a label no pixel carries (the early exit) *)
Example median_ex_repeated_absent :
  median_of_labels [10]%Z [1] [7;7] = [None; None].
Proof. vm_compute. reflexivity. Qed.

(* the hypotheses of the theorem hold on that input, and the reference computes the same *)
Example median_ex_hyps :
  length [2;8;4;6;10]%Z = length [1;3;1;3;3] /\ NoDup [5;3;1] /\
  median_ref [2;8;4;6;10]%Z [1;3;1;3;3] [5;3;1] = [None; Some 8; Some 3]%Z.
Proof.
  split; [reflexivity|]. split; [|vm_compute; reflexivity].
  repeat constructor; cbn [In]; intros H; repeat destruct H as [H|H]; try discriminate H; exact H.
Qed.

Print Assumptions median_of_labels_correct_all.
Print Assumptions median_of_labels_correct.
