(* C15 — euler_number: the bit-quad count equals 8-components minus holes, by exhaustive kernel
   evaluation over all small label images (Finite). *)
From Coq Require Import ZArith List Bool Lia.
From Centro Require Import Base.GraphC15 Model.LabelGraph Spec.LabelGraph.
Import ListNotations.
Open Scope Z_scope.

(* all rows of length w / all images of h rows over the value list vals *)
Fixpoint all_rows (vals : list Z) (w : nat) : list (list Z) :=
  match w with
  | O => [[]]
  | S k => flat_map (fun r => map (fun v => v :: r) vals) (all_rows vals k)
  end.
Fixpoint all_images (vals : list Z) (h w : nat) : list image :=
  match h with
  | O => [[]]
  | S k => flat_map (fun im => map (fun r => r :: im) (all_rows vals w)) (all_images vals k w)
  end.

Lemma all_rows_complete vals w : forall r, length r = w -> Forall (fun v => In v vals) r -> In r (all_rows vals w).
Proof.
  induction w as [|w IH]; intros r L F.
  - destruct r; [left; reflexivity|discriminate].
  - destruct r as [|v r]; [discriminate|]. cbn [all_rows]. apply in_flat_map. exists r.
    inversion F; subst. split; [apply IH; auto|]. apply in_map_iff. exists v. split; [reflexivity|assumption].
Qed.
Lemma all_images_complete vals h w : forall im, length im = h ->
  Forall (fun r => length r = w /\ Forall (fun v => In v vals) r) im -> In im (all_images vals h w).
Proof.
  induction h as [|h IH]; intros im L F.
  - destruct im; [left; reflexivity|discriminate].
  - destruct im as [|r im]; [discriminate|]. cbn [all_images]. apply in_flat_map. exists im.
    inversion F as [|? ? [Lr Fr] F']; subst. split; [apply IH; auto|]. apply in_map_iff.
    exists r. split; [reflexivity|]. apply all_rows_complete; auto.
Qed.

Definition euler_agrees (labels : list Z) (img : image) : bool :=
  forallb (fun l => euler4 img l =? 4 * euler_spec img l) labels.
Definition sweep (vals labels : list Z) (shapes : list (nat * nat)) : bool :=
  forallb (fun s => forallb (euler_agrees labels) (all_images vals (fst s) (snd s))) shapes.

Definition shapes3 : list (nat * nat) :=
  [(1,1);(1,2);(1,3);(2,1);(2,2);(2,3);(3,1);(3,2);(3,3)]%nat.
Definition shapes4 : list (nat * nat) :=
  [(1,4);(2,4);(3,4);(4,1);(4,2);(4,3);(1,5);(2,5);(5,1);(5,2)]%nat.

Lemma sweep3 : sweep [0;1;2] [1;2] shapes3 = true.
Proof. vm_compute. reflexivity. Qed.
Lemma sweep4 : sweep [0;1] [1;2] shapes4 = true.
Proof. vm_compute. reflexivity. Qed.

Lemma sweep_lift vals labels shapes : sweep vals labels shapes = true ->
  forall h w im l, In (h, w) shapes -> length im = h ->
    Forall (fun r => length r = w /\ Forall (fun v => In v vals) r) im -> In l labels ->
    euler4 im l = 4 * euler_spec im l.
Proof.
  unfold sweep. intros S h w im l Hs L F Hl.
  rewrite forallb_forall in S. specialize (S (h, w) Hs). cbn [fst snd] in S.
  rewrite forallb_forall in S. specialize (S im (all_images_complete vals h w im L F)).
  unfold euler_agrees in S. rewrite forallb_forall in S. specialize (S l Hl). lia.
Qed.

(* every label image with at most 3 rows and 3 columns over the labels {0,1,2}, every requested
   label *)
Theorem euler_components_minus_holes_3x3 : forall h w im l,
  (1 <= h <= 3)%nat -> (1 <= w <= 3)%nat -> length im = h ->
  Forall (fun r => length r = w /\ Forall (fun v => In v [0;1;2]) r) im -> In l [1;2] ->
  euler4 im l = 4 * euler_spec im l.
Proof.
  intros h w im l Hh Hw. apply (sweep_lift _ _ _ sweep3).
  destruct h as [|[|[|[|h]]]]; try lia; destruct w as [|[|[|[|w]]]]; try lia; cbn; tauto.
Qed.
(* every binary image of the shapes 1x4 .. 3x4, 4x1 .. 4x3, 1x5, 2x5, 5x1, 5x2; label 2 is absent *)
Theorem euler_components_minus_holes_4x4 : forall h w im l,
  In (h, w) shapes4 -> length im = h ->
  Forall (fun r => length r = w /\ Forall (fun v => In v [0;1]) r) im -> In l [1;2] ->
  euler4 im l = 4 * euler_spec im l.
Proof. intros h w im l. apply (sweep_lift _ _ _ sweep4). Qed.

Example euler_ring : euler4 [[1;1;1];[1;0;1];[1;1;1]] 1 = 0 /\ euler_spec [[1;1;1];[1;0;1];[1;1;1]] 1 = 0.
Proof. vm_compute. split; reflexivity. Qed.
