(* C18 — Indexes: the forward / reverse / coordinate arrays are the row-major enumeration of
   every object's sub-array. *)
From Coq Require Import ZArith List Bool Arith Lia.
From Centro Require Import Model.VecC18 Model.IndexesC18 Spec.SpecC18
  Proofs.VecC18Lemmas Proofs.DiffMarksC18 Proofs.MedianC18Proofs Proofs.BlocksC18.
Import ListNotations.
Local Open Scope nat_scope.

Definition lprod (l : list nat) : nat := fold_right Nat.mul 1 l.
Definition rect (m : nat) (rows : list (list nat)) : Prop := forall row, In row rows -> length row = m.

Lemma rect_tail m row rows : rect m (row :: rows) -> rect m rows.
Proof. intros H r Hr. apply H. right; exact Hr. Qed.

Lemma col_prods_cons m row rows : col_prods m (row :: rows) = map2 Nat.mul row (col_prods m rows).
Proof. reflexivity. Qed.

Lemma col_prods_length m rows : rect m rows -> length (col_prods m rows) = m.
Proof.
  induction rows as [|row rows IH]; intros H.
  - unfold col_prods. cbn [fold_right]. apply repeat_length.
  - rewrite col_prods_cons, map2_length, IH by (eapply rect_tail; eauto).
    rewrite (H row (or_introl eq_refl)). apply Nat.min_id.
Qed.

Lemma col_prods_nth m rows o : rect m rows -> o < m -> getn (col_prods m rows) o = lprod (column o rows).
Proof.
  induction rows as [|row rows IH]; intros H Ho.
  - unfold col_prods, getn. cbn [fold_right column map lprod]. apply nth_repeat_lt. exact Ho.
  - rewrite col_prods_cons. unfold getn. rewrite (map2_nth _ _ _ _ 0 0 0).
    + fold (getn (col_prods m rows) o). rewrite IH by (try (eapply rect_tail; eauto); exact Ho). reflexivity.
    + rewrite (H row (or_introl eq_refl)). exact Ho.
    + rewrite col_prods_length by (eapply rect_tail; eauto). exact Ho.
Qed.

(* ---------------------------------------------------------------- mixed-radix digits = enum *)
Fixpoint digits (dims : list nat) (t : nat) : list nat :=
  match dims with
  | [] => [t]
  | _ :: rest => match rest with
                 | [] => [t]
                 | _ => (t / lprod rest) :: digits rest (t mod lprod rest)
                 end
  end.

Lemma flat_map_single {A B} (g : A -> B) l : flat_map (fun x => [g x]) l = map g l.
Proof. induction l as [|a l IH]; [reflexivity|]. cbn [flat_map map app]. rewrite IH. reflexivity. Qed.

Lemma map_flat_map {A B C} (g : B -> C) (f : A -> list B) l :
  map g (flat_map f l) = flat_map (fun x => map g (f x)) l.
Proof. induction l as [|a l IH]; [reflexivity|]. cbn [flat_map]. rewrite map_app, IH. reflexivity. Qed.

Lemma flat_map_ext_in {A B} (f g : A -> list B) l : (forall x, In x l -> f x = g x) -> flat_map f l = flat_map g l.
Proof.
  induction l as [|a l IH]; intros H; [reflexivity|]. cbn [flat_map]. rewrite (H a (or_introl eq_refl)), IH; [reflexivity|].
  intros x Hx. apply H. right; exact Hx.
Qed.

Lemma flat_map_map {A B C} (f : B -> list C) (g : A -> B) l : flat_map f (map g l) = flat_map (fun x => f (g x)) l.
Proof. induction l as [|a l IH]; [reflexivity|]. cbn [map flat_map]. rewrite IH. reflexivity. Qed.

Lemma flat_map_length_const {A B} (f : A -> list B) l n : (forall x, In x l -> length (f x) = n) ->
  length (flat_map f l) = length l * n.
Proof.
  induction l as [|a l IH]; intros H; [reflexivity|]. cbn [flat_map length]. rewrite app_length, IH, (H a (or_introl eq_refl)).
  - lia.
  - intros x Hx. apply H. right; exact Hx.
Qed.

Lemma enum_length dims : length (enum dims) = lprod dims.
Proof.
  induction dims as [|c r IH]; [reflexivity|]. cbn [enum lprod fold_right].
  rewrite (flat_map_length_const _ _ (lprod r)), seq_length; [reflexivity|].
  intros i _. rewrite map_length. exact IH.
Qed.

Lemma seq_add_map s n : seq s n = map (fun r => s + r) (seq 0 n).
Proof.
  revert s; induction n as [|n IH]; intros s; [reflexivity|]. cbn [seq map]. f_equal; [lia|].
  rewrite (IH (S s)), (IH 1), map_map. apply map_ext. intros a. lia.
Qed.

Lemma seq_mul_blocks P c s :
  seq s (c * P) = flat_map (fun i => map (fun r => s + i * P + r) (seq 0 P)) (seq 0 c).
Proof.
  revert s; induction c as [|c IH]; intros s; [reflexivity|].
  cbn [Nat.mul seq flat_map]. rewrite seq_app. f_equal.
  - rewrite (seq_add_map s P). apply map_ext. intros r. lia.
  - rewrite IH. rewrite <- seq_shift, flat_map_map.
    apply flat_map_ext_in. intros i _. apply map_ext. intros r. lia.
Qed.

Lemma digits_enum dims : dims <> [] -> map (digits dims) (seq 0 (lprod dims)) = enum dims.
Proof.
  induction dims as [|c rest IH]; intros NE; [congruence|].
  destruct rest as [|d rest'].
  - cbn [lprod fold_right enum digits]. rewrite Nat.mul_1_r.
    rewrite <- (flat_map_single (fun t : nat => [t])). apply flat_map_ext_in. intros i _. reflexivity.
  - set (rest := d :: rest') in *. specialize (IH ltac:(discriminate)).
    change (lprod (c :: rest)) with (c * lprod rest). set (P := lprod rest) in *.
    rewrite seq_mul_blocks, map_flat_map. cbn [enum]. apply flat_map_ext_in. intros i _.
    rewrite <- IH, !map_map. apply map_ext_in. intros r Hr. apply in_seq in Hr.
    change (digits (c :: rest) (0 + i * P + r)) with ((0 + i * P + r) / P :: digits rest ((0 + i * P + r) mod P)).
    cbn [Nat.add].
    assert ((i * P + r) / P = i) as E1 by (symmetry; apply (Nat.div_unique _ P i r); lia).
    assert ((i * P + r) mod P = r) as E2 by (symmetry; apply (Nat.mod_unique _ P i r); lia).
    rewrite E1, E2. reflexivity.
Qed.

(* ---------------------------------------------------------------- the coordinate loop, blockwise *)
Lemma column_cons o row rows : column o (row :: rows) = getn row o :: column o rows.
Proof. reflexivity. Qed.

Lemma concat_map_ext_in {A O} (X Y : O -> list A) os : (forall o, In o os -> X o = Y o) ->
  concat (map X os) = concat (map Y os).
Proof. intros H. f_equal. apply map_ext_in. exact H. Qed.

Lemma idx_loop_blocks m rows : rows <> [] -> rect m rows -> forall ts : nat -> list nat,
  idx_loop m rows (concat (map (fun o => repeat o (length (ts o))) (seq 0 m))) (concat (map ts (seq 0 m)))
  = map (fun d => concat (map (fun o => map (fun t => nth d (digits (column o rows) t) 0) (ts o)) (seq 0 m)))
        (seq 0 (length rows)).
Proof.
  induction rows as [|row rest IH]; intros NE HR ts; [congruence|].
  destruct rest as [|r2 rest'].
  - cbn [idx_loop length seq map]. f_equal. apply concat_map_ext_in. intros o _.
    cbn [column map digits nth]. symmetry. apply map_id.
  - set (rest := r2 :: rest') in *.
    assert (rect m rest) as HR' by (eapply rect_tail; eauto).
    change (idx_loop m (row :: rest) ?rv ?ix) with
      (map2 Nat.div ix (map (getn (col_prods m rest)) rv)
       :: idx_loop m rest rv (map2 Nat.modulo ix (map (getn (col_prods m rest)) rv))).
    set (md := fun o => lprod (column o rest)).
    assert (map (getn (col_prods m rest)) (concat (map (fun o => repeat o (length (ts o))) (seq 0 m)))
            = concat (map (fun o => repeat (md o) (length (ts o))) (seq 0 m))) as Emr.
    { rewrite map_concat_map. apply concat_map_ext_in. intros o Ho. apply in_seq in Ho.
      rewrite map_repeat. f_equal. apply col_prods_nth; [exact HR'|lia]. }
    rewrite Emr.
    assert (forall f : nat -> nat -> nat,
              map2 f (concat (map ts (seq 0 m))) (concat (map (fun o => repeat (md o) (length (ts o))) (seq 0 m)))
              = concat (map (fun o => map (fun t => f t (md o)) (ts o)) (seq 0 m))) as Em2.
    { intros f. rewrite map2_concat by (intros o _; rewrite repeat_length; reflexivity).
      apply concat_map_ext_in. intros o _. apply map2_repeat_r. }
    rewrite !Em2.
    set (ts' := fun o => map (fun t => t mod md o) (ts o)).
    assert (concat (map (fun o => repeat o (length (ts o))) (seq 0 m))
            = concat (map (fun o => repeat o (length (ts' o))) (seq 0 m))) as Erv.
    { apply concat_map_ext_in. intros o _. unfold ts'. rewrite map_length. reflexivity. }
    rewrite Erv. change (concat (map (fun o => map (fun t => t mod md o) (ts o)) (seq 0 m))) with (concat (map ts' (seq 0 m))).
    rewrite (IH ltac:(discriminate) HR' ts').
    change (length (row :: rest)) with (S (length rest)). cbn [seq map]. apply (f_equal2 cons).
    + apply concat_map_ext_in. intros o _. apply map_ext. intros t.
      rewrite column_cons. unfold rest at 1. cbn [column map digits nth]. reflexivity.
    + rewrite <- seq_shift, map_map. apply map_ext. intros d.
      apply concat_map_ext_in. intros o _. unfold ts'. rewrite map_map. apply map_ext. intros t.
      rewrite column_cons. unfold rest at 2. cbn [column map digits nth]. reflexivity.
Qed.

(* ---------------------------------------------------------------- assembling the four arrays *)
Lemma last_ncumsum_from acc l d : l <> [] -> last (ncumsum_from acc l) d = acc + nsum l.
Proof.
  revert acc; induction l as [|x r IH]; intros acc NE; [congruence|].
  destruct r as [|y r'].
  - cbn. lia.
  - change (ncumsum_from acc (x :: y :: r')) with ((acc + x) :: ncumsum_from (acc + x) (y :: r')).
    change (nsum (x :: y :: r')) with (x + nsum (y :: r')).
    change (last ((acc + x) :: ncumsum_from (acc + x) (y :: r')) d) with (last (ncumsum_from (acc + x) (y :: r')) d).
    rewrite IH by discriminate. lia.
Qed.

Lemma removelast_length {A} (l : list A) : length (removelast l) = length l - 1.
Proof.
  induction l as [|a l IH]; [reflexivity|]. destruct l as [|b l']; [reflexivity|].
  change (removelast (a :: b :: l')) with (a :: removelast (b :: l')). cbn [length] in *. lia.
Qed.

Lemma nsum_zero l : nsum l = 0 -> forall x, In x l -> x = 0.
Proof.
  induction l as [|a l IH]; intros H x Hx; [destruct Hx|]. change (nsum (a :: l)) with (a + nsum l) in H.
  destruct Hx as [<-|Hx]; [lia|]. apply IH; [lia|exact Hx].
Qed.

Lemma nsum_map_zero {A} (g : A -> nat) l : (forall x, In x l -> g x = 0) -> nsum (map g l) = 0.
Proof.
  induction l as [|a l IH]; intros H; [reflexivity|]. cbn [map]. change (nsum (g a :: map g l)) with (g a + nsum (map g l)).
  rewrite (H a (or_introl eq_refl)), IH; [reflexivity|]. intros x Hx. apply H. right; exact Hx.
Qed.

Definition blk (counts : list (list nat)) (o : nat) : list (nat * list nat) := map (pair o) (enum (column o counts)).

Lemma rows_spec_blocks counts : rows_spec counts = concat (map (blk counts) (seq 0 (length (hd [] counts)))).
Proof. unfold rows_spec. rewrite flat_map_concat_map. reflexivity. Qed.

Section Assemble.
  Variable counts : list (list nat).
  Let m := length (hd [] counts).
  Let prods := col_prods m counts.
  Hypothesis NE : counts <> [].
  Hypothesis HR : rect m counts.

  Lemma prods_length : length prods = m.
  Proof. apply col_prods_length. exact HR. Qed.

  Lemma blk_length o : o < m -> length (blk counts o) = getn prods o.
  Proof. intros Ho. unfold blk. rewrite map_length, enum_length. symmetry. apply col_prods_nth; assumption. Qed.

  Lemma ref_length : length (rows_spec counts) = nsum prods.
  Proof.
    rewrite rows_spec_blocks, length_concat_map. fold m.
    rewrite <- (map_getn_seq prods) at 1. rewrite prods_length. f_equal.
    apply map_ext_in. intros o Ho. apply in_seq in Ho. apply blk_length. lia.
  Qed.

  Lemma ref_rev : map fst (rows_spec counts) = concat (map (fun o => repeat o (getn prods o)) (seq 0 m)).
  Proof.
    rewrite rows_spec_blocks, map_concat_map. fold m. apply concat_map_ext_in. intros o Ho. apply in_seq in Ho.
    unfold blk. rewrite map_map. cbn [fst]. rewrite map_const_list, enum_length. f_equal.
    symmetry. apply col_prods_nth; [exact HR|lia].
  Qed.

  Lemma ref_idx d : map (fun p => getn (snd p) d) (rows_spec counts)
    = concat (map (fun o => map (fun t => nth d (digits (column o counts) t) 0) (seq 0 (getn prods o))) (seq 0 m)).
  Proof.
    rewrite rows_spec_blocks, map_concat_map. fold m. apply concat_map_ext_in. intros o Ho. apply in_seq in Ho.
    unfold blk. rewrite map_map. cbn [snd].
    assert (column o counts <> []) as NC. { destruct counts; [congruence|discriminate]. }
    rewrite <- (digits_enum _ NC), map_map.
    replace (getn prods o) with (lprod (column o counts)) by (symmetry; apply col_prods_nth; [exact HR|lia]).
    reflexivity.
  Qed.

  Lemma filter_blk o o' : filter (fun p : nat * list nat => fst p <? o) (blk counts o') = if o' <? o then blk counts o' else [].
  Proof.
    unfold blk. induction (enum (column o' counts)) as [|t l IH]; [destruct (o' <? o); reflexivity|].
    cbn [map filter fst]. rewrite IH. destruct (o' <? o); reflexivity.
  Qed.

  Lemma ref_fwd o : o < m -> length (filter (fun p => fst p <? o) (rows_spec counts)) = nsum (firstn o prods).
  Proof.
    intros Ho. rewrite rows_spec_blocks. fold m.
    assert (forall os, filter (fun p : nat * list nat => fst p <? o) (concat (map (blk counts) os))
                       = concat (map (fun o' => if o' <? o then blk counts o' else []) os)) as EF.
    { induction os as [|a os IH]; [reflexivity|]. cbn [map concat]. rewrite filter_app, IH, filter_blk. reflexivity. }
    rewrite EF, length_concat_map.
    replace m with (o + (m - o)) by lia. rewrite seq_app, map_app, nsum_app.
    rewrite (nsum_map_zero _ (seq (0 + o) (m - o))).
    - rewrite Nat.add_0_r. rewrite <- (map_getn_seq prods), prods_length.
      rewrite firstn_map, firstn_seq0 by lia. f_equal. apply map_ext_in. intros o' Ho'. apply in_seq in Ho'.
      destruct (Nat.ltb_spec o' o); [|lia]. apply blk_length. lia.
    - intros o' Ho'. apply in_seq in Ho'. destruct (Nat.ltb_spec o' o); [lia|reflexivity].
  Qed.
End Assemble.

Theorem indexes_rowmajor : forall counts : list (list nat),
  counts <> [] -> (forall row, In row counts -> length row = length (hd [] counts)) ->
  indexes counts = indexes_ref counts.
Proof.
  intros counts NE HR. unfold indexes, indexes_ref.
  set (m := length (hd [] counts)). set (prods := col_prods m counts).
  pose proof (prods_length counts HR) as LP. fold m in LP. fold prods in LP.
  pose proof (ref_length counts HR) as RL. fold m in RL. fold prods in RL.
  destruct (Nat.eqb_spec (nsum prods) 0) as [Z|NZ].
  - assert (rows_spec counts = []) as E by (apply length_zero_iff_nil; rewrite RL; exact Z).
    rewrite E. cbn [length map filter].
    rewrite map_const_seq, map_const_list. rewrite (map_const_seq (@nil nat)). reflexivity.
  - assert (prods <> []) as NP. { intros E. rewrite E in NZ. apply NZ. reflexivity. }
    assert (m >= 1) as Hm. { rewrite <- LP. destruct prods; [congruence|cbn [length]; lia]. }
    set (fwd := 0 :: removelast (ncumsum prods)).
    assert (last (ncumsum prods) 0 = nsum prods) as ELen by (unfold ncumsum; rewrite last_ncumsum_from by exact NP; lia).
    rewrite ELen.
    assert (forall k, k < m -> getn fwd k = nsum (firstn k prods)) as EF.
    { intros k Hk. unfold getn, fwd. apply first_nth. lia. }
    assert (ncumsum (diff_marks fwd (compress (map (fun p => 0 <? p) prods) (seq 0 m)) (nsum prods))
            = concat (map (fun o => repeat o (getn prods o)) (seq 0 m))) as ERev.
    { rewrite <- LP. apply diff_marks_spec. intros k Hk. apply EF. lia. }
    rewrite ERev.
    set (ts := fun o => seq 0 (getn prods o)).
    assert (map2 Nat.sub (seq 0 (nsum prods)) (map (getn fwd) (concat (map (fun o => repeat o (getn prods o)) (seq 0 m))))
            = concat (map ts (seq 0 m))) as EI0.
    { rewrite seq_blocks, LP, map_concat_map. rewrite map2_concat.
      - apply concat_map_ext_in. intros o Ho. apply in_seq in Ho. rewrite map_repeat, EF by lia.
        cbn [Nat.add]. apply map2_sub_seq_repeat.
      - intros o _. rewrite seq_length, map_length, repeat_length. reflexivity. }
    rewrite EI0.
    assert (concat (map (fun o => repeat o (getn prods o)) (seq 0 m))
            = concat (map (fun o => repeat o (length (ts o))) (seq 0 m))) as ER2.
    { apply concat_map_ext_in. intros o _. unfold ts. rewrite seq_length. reflexivity. }
    rewrite ER2 at 2. rewrite (idx_loop_blocks m counts NE HR ts).
    rewrite RL. rewrite (ref_rev counts HR). fold m. fold prods.
    assert (fwd = map (fun o => length (filter (fun p : nat * list nat => fst p <? o) (rows_spec counts))) (seq 0 m)) as EFw.
    { assert (length fwd = m) as LF.
      { unfold fwd. cbn [length]. rewrite removelast_length. unfold ncumsum. rewrite ncumsum_from_length. lia. }
      rewrite <- (map_seq_nth fwd 0) at 1. rewrite LF. apply map_ext_in. intros o Ho. apply in_seq in Ho.
      rewrite (ref_fwd counts HR) by (fold m; lia). fold m. fold prods. apply EF. lia. }
    rewrite <- EFw.
    assert (map (fun d => concat (map (fun o => map (fun t => nth d (digits (column o counts) t) 0) (ts o)) (seq 0 m))) (seq 0 (length counts))
            = map (fun d => map (fun p => getn (snd p) d) (rows_spec counts)) (seq 0 (length counts))) as EIdx.
    { apply map_ext. intros d. rewrite (ref_idx counts NE HR). reflexivity. }
    rewrite EIdx. reflexivity.
Qed.

Example indexes_ex :
  let counts := [[2; 0; 3]; [1; 4; 2]] in
  counts <> [] /\ (forall row, In row counts -> length row = length (hd [] counts)) /\
  indexes counts = (8, [0; 2; 2], [0; 0; 2; 2; 2; 2; 2; 2], [[0; 1; 0; 0; 1; 1; 2; 2]; [0; 0; 0; 1; 0; 1; 0; 1]]).
Proof.
  cbn zeta. split; [discriminate|]. split; [|vm_compute; reflexivity].
  intros row [<-|[<-|[]]]; reflexivity.
Qed.
Print Assumptions indexes_rowmajor.
