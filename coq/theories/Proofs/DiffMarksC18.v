(* C18 — the difference/cumsum trick shared by Indexes.rev_idx and pairwise_permutations.d_r:
   marking the start of every non-empty block with the distance from the previous non-empty
   block and taking the cumulative sum labels every position with its block number. *)
From Coq Require Import ZArith List Bool Arith Lia.
From Centro Require Import Model.VecC18 Model.IndexesC18.
Import ListNotations.
Local Open Scope nat_scope.

(* diff_marks as one uniform left-to-right pass: write (f - prev) at st f *)
Fixpoint dm_marks (st : nat -> nat) (prev : nat) (ne : list nat) (a : list nat) : list nat :=
  match ne with
  | [] => a
  | f :: t => dm_marks st f t (set_nth (st f) (f - prev) a)
  end.

Lemma dm_scatter_marks : forall (st : nat -> nat) (t : list nat) (f : nat) (a : list nat),
  scatter (map st t) (map2 Nat.sub t (removelast (f :: t))) a = dm_marks st f t a.
Proof.
  intros st t; induction t as [|g t IH]; intros f a.
  - reflexivity.
  - change (removelast (f :: g :: t)) with (f :: removelast (g :: t)).
    cbn [map map2 dm_marks].
    rewrite <- IH. reflexivity.
Qed.

Lemma dm_diff_marks_marks : forall (starts ne : list nat) (len : nat),
  diff_marks starts ne len = dm_marks (getn starts) 0 ne (repeat 0 len).
Proof.
  intros starts ne len. unfold diff_marks.
  destruct ne as [|f [|g t]].
  - reflexivity.
  - cbn [dm_marks]. rewrite Nat.sub_0_r. reflexivity.
  - rewrite dm_scatter_marks. cbn [dm_marks]. rewrite Nat.sub_0_r. reflexivity.
Qed.

(* the non-empty block numbers, blocks numbered from o *)
Definition dm_ne (o : nat) (cnt : list nat) : list nat :=
  compress (map (fun p => 0 <? p) cnt) (seq o (length cnt)).

(* the expected mark array *)
Fixpoint dm_arr (prev o : nat) (cnt : list nat) : list nat :=
  match cnt with
  | [] => []
  | 0 :: r => dm_arr prev (S o) r
  | S c :: r => (o - prev) :: repeat 0 c ++ dm_arr o (S o) r
  end.

(* the expected labels *)
Fixpoint dm_labels (o : nat) (cnt : list nat) : list nat :=
  match cnt with
  | [] => []
  | c :: r => repeat o c ++ dm_labels (S o) r
  end.

Lemma dm_set_nth_app : forall (A : Type) (pre : list A) (x v : A) (rest : list A),
  set_nth (length pre) v (pre ++ x :: rest) = pre ++ v :: rest.
Proof.
  intros A pre x v rest; induction pre as [|y pre IH].
  - reflexivity.
  - cbn [length app set_nth]. rewrite IH. reflexivity.
Qed.

Lemma dm_marks_arr : forall (st : nat -> nat) (cnt : list nat) (o p prev : nat) (pre : list nat),
  length pre = p ->
  (forall k, k < length cnt -> st (o + k) = p + nsum (firstn k cnt)) ->
  dm_marks st prev (dm_ne o cnt) (pre ++ repeat 0 (nsum cnt)) = pre ++ dm_arr prev o cnt.
Proof.
  intros st cnt; induction cnt as [|c r IH]; intros o p prev pre Hlen Hst.
  - reflexivity.
  - unfold dm_ne. cbn [length seq map compress].
    fold (dm_ne (S o) r).
    destruct c as [|c].
    + cbn [Nat.ltb Nat.leb nsum fold_right Nat.add dm_arr]. fold (nsum r).
      apply (IH (S o) p prev pre Hlen).
      intros k Hk.
      assert (H := Hst (S k) ltac:(cbn [length]; lia)).
      cbn [firstn nsum fold_right Nat.add] in H. fold (nsum (firstn k r)) in H.
      rewrite <- H. f_equal. lia.
    + cbn [Nat.ltb Nat.leb dm_marks dm_arr].
      assert (H0 := Hst 0 ltac:(cbn [length]; lia)).
      cbn [firstn nsum fold_right] in H0.
      replace (st o) with (length pre) by (rewrite Nat.add_0_r in H0; lia).
      cbn [nsum fold_right]. fold (nsum r).
      cbn [Nat.add repeat].
      rewrite repeat_app.
      rewrite dm_set_nth_app.
      replace (pre ++ (o - prev) :: repeat 0 c ++ repeat 0 (nsum r))
        with ((pre ++ (o - prev) :: repeat 0 c) ++ repeat 0 (nsum r))
        by (rewrite <- app_assoc; reflexivity).
      rewrite (IH (S o) (p + S c) o (pre ++ (o - prev) :: repeat 0 c)).
      * rewrite <- app_assoc. reflexivity.
      * rewrite app_length. cbn [length]. rewrite repeat_length. lia.
      * intros k Hk.
        assert (H := Hst (S k) ltac:(cbn [length]; lia)).
        cbn [firstn nsum fold_right] in H. fold (nsum (firstn k r)) in H.
        replace (S o + k) with (o + S k) by lia. rewrite H. lia.
Qed.

Lemma dm_cumsum_zeros : forall (c a : nat) (rest : list nat),
  ncumsum_from a (repeat 0 c ++ rest) = repeat a c ++ ncumsum_from a rest.
Proof.
  induction c as [|c IH]; intros a rest.
  - reflexivity.
  - cbn [repeat app ncumsum_from]. rewrite Nat.add_0_r. rewrite IH. reflexivity.
Qed.

Lemma dm_cumsum_arr : forall (cnt : list nat) (prev o : nat),
  prev <= o ->
  ncumsum_from prev (dm_arr prev o cnt) = dm_labels o cnt.
Proof.
  induction cnt as [|c r IH]; intros prev o Hle.
  - reflexivity.
  - destruct c as [|c].
    + cbn [dm_arr dm_labels repeat app]. apply IH. lia.
    + cbn [dm_arr dm_labels repeat app ncumsum_from].
      replace (prev + (o - prev)) with o by lia.
      rewrite dm_cumsum_zeros. rewrite IH by lia. reflexivity.
Qed.

Lemma dm_labels_concat : forall (cnt : list nat) (o : nat),
  concat (map (fun i => repeat (o + i) (getn cnt i)) (seq 0 (length cnt))) = dm_labels o cnt.
Proof.
  induction cnt as [|c r IH]; intros o.
  - reflexivity.
  - cbn [length seq map concat dm_labels].
    rewrite <- seq_shift, map_map.
    unfold getn at 1. cbn [nth]. rewrite Nat.add_0_r. f_equal.
    rewrite <- IH. f_equal. apply map_ext. intros i.
    unfold getn. cbn [nth]. f_equal. lia.
Qed.

Lemma diff_marks_spec : forall (cnt starts : list nat),
  (forall k, k < length cnt -> getn starts k = nsum (firstn k cnt)) ->
  ncumsum (diff_marks starts (compress (map (fun p => 0 <? p) cnt) (seq 0 (length cnt))) (nsum cnt))
  = concat (map (fun o => repeat o (getn cnt o)) (seq 0 (length cnt))).
Proof.
  intros cnt starts Hst.
  rewrite dm_diff_marks_marks.
  fold (dm_ne 0 cnt).
  assert (H := dm_marks_arr (getn starts) cnt 0 0 0 [] eq_refl).
  cbn [app] in H. rewrite H by (intros k Hk; cbn [Nat.add]; apply Hst; exact Hk).
  unfold ncumsum. rewrite dm_cumsum_arr by lia.
  rewrite <- dm_labels_concat. reflexivity.
Qed.

Print Assumptions diff_marks_spec.
