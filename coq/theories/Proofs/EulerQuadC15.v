(* C15 — euler_number: the shifted-plane arithmetic computes, for every label, the bit-quad
   counts n(Q1), n(Q3), n(QD) of that label's pixel set (quad_counts_spec, every image). *)
From Coq Require Import ZArith List Bool Lia ZifyBool.
From Centro Require Import Base.GraphC15 Model.LabelGraph Spec.LabelGraph Spec.EulerMovesC15 Proofs.NeighborsC15.
Import ListNotations.
Open Scope Z_scope.

(* ---------------------------------------------------------------- finite sums *)
Fixpoint sum1 (lo : Z) (n : nat) (f : Z -> Z) : Z :=
  match n with O => 0 | S k => f lo + sum1 (lo + 1) k f end.

Lemma sum1_ext n : forall lo f g, (forall k, lo <= k < lo + Z.of_nat n -> f k = g k) -> sum1 lo n f = sum1 lo n g.
Proof.
  induction n as [|n IH]; intros lo f g H; cbn [sum1]; [reflexivity|].
  rewrite (H lo) by lia. rewrite (IH (lo + 1) f g); [reflexivity|]. intros k Hk. apply H. lia.
Qed.
Lemma sum1_zero n : forall lo f, (forall k, lo <= k < lo + Z.of_nat n -> f k = 0) -> sum1 lo n f = 0.
Proof.
  induction n as [|n IH]; intros lo f H; cbn [sum1]; [reflexivity|].
  rewrite (H lo) by lia. rewrite IH; [reflexivity|]. intros k Hk. apply H. lia.
Qed.
Lemma sum1_app n1 : forall n2 lo f, sum1 lo (n1 + n2) f = sum1 lo n1 f + sum1 (lo + Z.of_nat n1) n2 f.
Proof.
  induction n1 as [|n1 IH]; intros n2 lo f; cbn [sum1 Nat.add].
  - rewrite Z.add_0_r. reflexivity.
  - rewrite IH. replace (lo + 1 + Z.of_nat n1) with (lo + Z.of_nat (S n1)) by lia. lia.
Qed.
Lemma sum1_add n : forall lo f g, sum1 lo n (fun k => f k + g k) = sum1 lo n f + sum1 lo n g.
Proof. induction n as [|n IH]; intros lo f g; cbn [sum1]; [reflexivity|]. rewrite IH. lia. Qed.
Lemma sum1_scale n c : forall lo f, sum1 lo n (fun k => c * f k) = c * sum1 lo n f.
Proof. induction n as [|n IH]; intros lo f; cbn [sum1]; [lia|]. rewrite IH. lia. Qed.
Lemma sum1_shift n d : forall lo f, sum1 lo n (fun k => f (k - d)) = sum1 (lo - d) n f.
Proof.
  induction n as [|n IH]; intros lo f; cbn [sum1]; [reflexivity|].
  rewrite IH. replace (lo + 1 - d) with (lo - d + 1) by lia. reflexivity.
Qed.
(* a function that vanishes outside [a, a+m) summed over a larger interval *)
Lemma sum1_support lo n a m f : lo <= a -> a + Z.of_nat m <= lo + Z.of_nat n ->
  (forall k, lo <= k < lo + Z.of_nat n -> ~ (a <= k < a + Z.of_nat m) -> f k = 0) ->
  sum1 lo n f = sum1 a m f.
Proof.
  intros H1 H2 Hz.
  replace n with (Z.to_nat (a - lo) + (m + Z.to_nat (lo + Z.of_nat n - (a + Z.of_nat m))))%nat by lia.
  rewrite sum1_app, sum1_app.
  rewrite (sum1_zero (Z.to_nat (a - lo))); [|intros k Hk; apply Hz; lia].
  rewrite (sum1_zero (Z.to_nat (lo + Z.of_nat n - (a + Z.of_nat m)))); [|intros k Hk; apply Hz; lia].
  replace (lo + Z.of_nat (Z.to_nat (a - lo))) with a by lia. lia.
Qed.

Definition sum2 (h w : nat) (f : Z -> Z -> Z) : Z := sum1 0 h (fun y => sum1 0 w (fun x => f y x)).

Lemma fold_add_app l1 l2 : fold_right Z.add 0 (l1 ++ l2) = fold_right Z.add 0 l1 + fold_right Z.add 0 l2.
Proof. induction l1 as [|a r IH]; cbn [app fold_right]; [reflexivity|]. rewrite IH. lia. Qed.
Lemma fold_row (g : Z * Z -> Z) y w : forall s,
  fold_right Z.add 0 (map g (map (fun x => (y, x)) (zrange s w))) = sum1 s w (fun x => g (y, x)).
Proof. induction w as [|w IH]; intros s; cbn [zrange map fold_right sum1]; [reflexivity|]. rewrite IH. reflexivity. Qed.
Lemma fold_rows (g : Z * Z -> Z) w : forall h s,
  fold_right Z.add 0 (map g (flat_map (fun y => map (fun x => (y, x)) (zrange 0 w)) (zrange s h))) =
  sum1 s h (fun y => sum1 0 w (fun x => g (y, x))).
Proof.
  induction h as [|h IH]; intros s; cbn [zrange flat_map sum1]; [reflexivity|].
  rewrite map_app, fold_add_app, IH, fold_row. reflexivity.
Qed.
Lemma fold_positions (g : Z * Z -> Z) h w :
  fold_right Z.add 0 (map g (positions h w)) = sum2 h w (fun y x => g (y, x)).
Proof. unfold positions, sum2. apply fold_rows. Qed.
Lemma sum2_add h w f g : sum2 h w (fun y x => f y x + g y x) = sum2 h w f + sum2 h w g.
Proof.
  unfold sum2. rewrite <- sum1_add. apply sum1_ext. intros y _. apply sum1_add.
Qed.

(* ---------------------------------------------------------------- re-indexing a slice-00 update *)
Section Shift.
Variables (H W : nat).
Definition in_s00 (y x : Z) : bool := (1 <=? y) && (y <=? Z.of_nat H) && (1 <=? x) && (x <=? Z.of_nat W).

Lemma box_shift (G : Z -> Z -> Z) (dy dx : Z) : 0 <= dy <= 1 -> 0 <= dx <= 1 ->
  (forall y x, G y x <> 0 -> 1 - dy <= y <= Z.of_nat H - dy /\ 1 - dx <= x <= Z.of_nat W - dx) ->
  sum2 (H + 3) (W + 3) (fun y x => if in_s00 y x then G (y - dy) (x - dx) else 0) = sum2 (H + 1) (W + 1) G.
Proof.
  intros Hdy Hdx Sup. unfold sum2.
  assert (Z0 : forall y x, ~ (1 - dy <= y <= Z.of_nat H - dy /\ 1 - dx <= x <= Z.of_nat W - dx) -> G y x = 0).
  { intros y x Hn. destruct (Z.eq_dec (G y x) 0) as [E|N0]; [exact E|]. exfalso. apply Hn. apply Sup. exact N0. }
  transitivity (sum1 (1 - dy) H (fun y => sum1 (1 - dx) W (fun x => G y x))).
  - (* left: rows and columns outside the slice contribute nothing; then shift *)
    rewrite (sum1_support 0 (H + 3) 1 H); [|lia|lia|].
    2:{ intros y Hy Hn. apply sum1_zero. intros x _. unfold in_s00.
        destruct (Z.leb_spec 1 y), (Z.leb_spec y (Z.of_nat H)); cbn [andb]; try reflexivity. lia. }
    rewrite <- (sum1_shift H dy 1 (fun y => sum1 (1 - dx) W (fun x => G y x))).
    apply sum1_ext. intros y Hy.
    rewrite (sum1_support 0 (W + 3) 1 W); [|lia|lia|].
    2:{ intros x Hx Hn. unfold in_s00.
        destruct (Z.leb_spec 1 x), (Z.leb_spec x (Z.of_nat W)); rewrite ?andb_false_r; try reflexivity. lia. }
    rewrite <- (sum1_shift W dx 1 (fun x => G (y - dy) x)).
    apply sum1_ext. intros x Hx. unfold in_s00.
    destruct (Z.leb_spec 1 y), (Z.leb_spec y (Z.of_nat H)), (Z.leb_spec 1 x), (Z.leb_spec x (Z.of_nat W)); cbn [andb]; first [lia|reflexivity].
  - symmetry.
    rewrite (sum1_support 0 (H + 1) (1 - dy) H); [|lia|lia|].
    2:{ intros y Hy Hn. apply sum1_zero. intros x _. apply Z0. lia. }
    apply sum1_ext. intros y Hy.
    apply (sum1_support 0 (W + 1) (1 - dx) W); [lia|lia|]. intros x Hx Hn. apply Z0. lia.
Qed.
(* the same without a shift and without the slice test *)
Lemma box_support (G : Z -> Z -> Z) :
  (forall y x, G y x <> 0 -> 1 <= y <= Z.of_nat H /\ 1 <= x <= Z.of_nat W) ->
  sum2 (H + 3) (W + 3) G = sum2 (H + 1) (W + 1) G.
Proof.
  intros Sup. rewrite <- (box_shift G 0 0); [|lia|lia|intros y x N0; specialize (Sup y x N0); lia].
  unfold sum2. apply sum1_ext. intros y _. apply sum1_ext. intros x _. rewrite !Z.sub_0_r.
  destruct (in_s00 y x) eqn:E; [reflexivity|].
  destruct (Z.eq_dec (G y x) 0) as [E0|N0]; [exact E0|]. specialize (Sup y x N0). unfold in_s00 in E. lia.
Qed.
End Shift.

(* ---------------------------------------------------------------- the declarative quad counts *)
Section Quads.
Variable img : image.
Variable l : Z.
Hypothesis R : rect img.
Hypothesis l_nz : l <> 0.

(* is pixel (y, x) in the pixel set of label l *)
(* sum over all 2x2 windows meeting the image; the window with bottom-right corner (y, x) *)
Definition quad_sum (f : bool -> bool -> bool -> bool -> Z) : Z :=
  fold_right Z.add 0
    (map (fun p => f (inS img l (fst p - 1) (snd p - 1)) (inS img l (fst p - 1) (snd p)) (inS img l (fst p) (snd p - 1)) (inS img l (fst p) (snd p)))
         (positions (S (img_h img)) (S (img_w img)))).
Definition nbits (a b c d : bool) : Z := b2z a + b2z b + b2z c + b2z d.
Definition isQ1 (a b c d : bool) : Z := b2z (nbits a b c d =? 1).
Definition isQ3 (a b c d : bool) : Z := b2z (nbits a b c d =? 3).
Definition isQD (a b c d : bool) : Z :=
  b2z ((a && d && negb b && negb c) || (b && c && negb a && negb d)).

Lemma get2_support y x : get2 img y x = l -> 0 <= y <= Z.of_nat (img_h img) - 1 /\ 0 <= x <= Z.of_nat (img_w img) - 1.
Proof. intros E. destruct (get2_inside img y x R ltac:(lia)). lia. Qed.

Ltac eqs := repeat match goal with |- context [?u =? ?v] => destruct (Z.eqb_spec u v) end.
(* pointwise comparison of the plane conditions with the declarative window pattern *)
Ltac decide_eqs := repeat match goal with |- context [?u =? ?v] =>
  first [ replace (u =? v) with true by (symmetry; apply Z.eqb_eq; lia)
        | replace (u =? v) with false by (symmetry; apply Z.eqb_neq; lia) ] end.
Ltac quad_tac y x :=
  set (qa := get2 img (y - 1) (x - 1)); set (qb := get2 img (y - 1) x);
  set (qc := get2 img y (x - 1)); set (qd := get2 img y x);
  destruct (Z.eqb_spec qa l), (Z.eqb_spec qb l), (Z.eqb_spec qc l), (Z.eqb_spec qd l);
  cbn [andb orb negb]; decide_eqs; cbn [andb orb negb]; reflexivity.

Lemma plane_sum_sum2 cond : plane_sum img cond l =
  sum2 (img_h img + 3) (img_w img + 3) (fun y x => if I00 img y x =? l then cond y x else 0).
Proof. unfold plane_sum. rewrite fold_positions. reflexivity. Qed.

Lemma quad_sum_sum2 f : quad_sum f =
  sum2 (img_h img + 1) (img_w img + 1) (fun y x => f (inS img l (y - 1) (x - 1)) (inS img l (y - 1) x) (inS img l y (x - 1)) (inS img l y x)).
Proof. unfold quad_sum. rewrite fold_positions. cbn [fst snd]. replace (S (img_h img)) with (img_h img + 1)%nat by lia.
  replace (S (img_w img)) with (img_w img + 1)%nat by lia. reflexivity. Qed.

Notation Hh := (img_h img). Notation Ww := (img_w img).

Lemma in_slice00_eq y x : in_slice00 img y x = in_s00 Hh Ww y x.
Proof. reflexivity. Qed.

(* one term of a condition plane attributed through slice_00 with offsets (dy, dx): it counts
   the windows where the designated corner (value [corner y x]) is in S and B holds *)
Lemma shifted_term (B : Z -> Z -> bool) (corner : Z -> Z -> Z) dy dx : 0 <= dy <= 1 -> 0 <= dx <= 1 ->
  (forall y x, corner (y - dy) (x - dx) = I00 img y x) ->
  (forall y x, corner y x = l -> 1 - dy <= y <= Z.of_nat Hh - dy /\ 1 - dx <= x <= Z.of_nat Ww - dx) ->
  sum2 (Hh + 3) (Ww + 3) (fun y x => if I00 img y x =? l then shifted img B dy dx y x else 0) =
  sum2 (Hh + 1) (Ww + 1) (fun y x => if corner y x =? l then b2z (B y x) else 0).
Proof.
  intros Hdy Hdx HC Sup.
  rewrite <- (box_shift Hh Ww (fun y x => if corner y x =? l then b2z (B y x) else 0) dy dx Hdy Hdx).
  - unfold sum2. apply sum1_ext. intros y _. apply sum1_ext. intros x _. unfold shifted.
    rewrite in_slice00_eq. rewrite HC. destruct (I00 img y x =? l), (in_s00 Hh Ww y x); reflexivity.
  - intros y x N0. apply Sup. destruct (Z.eqb_spec (corner y x) l); [assumption|congruence].
Qed.
Lemma plain_term (B : Z -> Z -> bool) :
  sum2 (Hh + 3) (Ww + 3) (fun y x => if I00 img y x =? l then b2z (B y x) else 0) =
  sum2 (Hh + 1) (Ww + 1) (fun y x => if I00 img y x =? l then b2z (B y x) else 0).
Proof.
  apply box_support. intros y x N0. destruct (Z.eqb_spec (I00 img y x) l) as [E|]; [|congruence].
  unfold I00 in E. apply get2_support in E. lia.
Qed.

Lemma c01 y x : I01 img (y - 0) (x - 1) = I00 img y x.
Proof. unfold I01, I00. f_equal; lia. Qed.
Lemma c10 y x : I10 img (y - 1) (x - 0) = I00 img y x.
Proof. unfold I10, I00. f_equal; lia. Qed.
Lemma c11 y x : I11 img (y - 1) (x - 1) = I00 img y x.
Proof. unfold I11, I00. reflexivity. Qed.
Lemma s01 y x : I01 img y x = l -> 1 - 0 <= y <= Z.of_nat Hh - 0 /\ 1 - 1 <= x <= Z.of_nat Ww - 1.
Proof. unfold I01. intros E. apply get2_support in E. lia. Qed.
Lemma s10 y x : I10 img y x = l -> 1 - 1 <= y <= Z.of_nat Hh - 1 /\ 1 - 0 <= x <= Z.of_nat Ww - 0.
Proof. unfold I10. intros E. apply get2_support in E. lia. Qed.
Lemma s11 y x : I11 img y x = l -> 1 - 1 <= y <= Z.of_nat Hh - 1 /\ 1 - 1 <= x <= Z.of_nat Ww - 1.
Proof. unfold I11. intros E. apply get2_support in E. lia. Qed.

Lemma sum2_ext h w f g : (forall y x, f y x = g y x) -> sum2 h w f = sum2 h w g.
Proof. intros E. unfold sum2. apply sum1_ext. intros y _. apply sum1_ext. intros x _. apply E. Qed.

Lemma split4 h w (t1 t2 t3 t4 : Z -> Z -> Z) (c : Z -> Z -> bool) :
  sum2 h w (fun y x => if c y x then t1 y x + t2 y x + t3 y x + t4 y x else 0) =
  sum2 h w (fun y x => if c y x then t1 y x else 0) + sum2 h w (fun y x => if c y x then t2 y x else 0) +
  sum2 h w (fun y x => if c y x then t3 y x else 0) + sum2 h w (fun y x => if c y x then t4 y x else 0).
Proof.
  rewrite <- !sum2_add. apply sum2_ext. intros y x. destruct (c y x); lia.
Qed.
Lemma split2 h w (t1 t2 : Z -> Z -> Z) (c : Z -> Z -> bool) :
  sum2 h w (fun y x => if c y x then t1 y x + t2 y x else 0) =
  sum2 h w (fun y x => if c y x then t1 y x else 0) + sum2 h w (fun y x => if c y x then t2 y x else 0).
Proof. rewrite <- !sum2_add. apply sum2_ext. intros y x. destruct (c y x); lia. Qed.

Theorem q1_count : plane_sum img (Q1_condition img) l = quad_sum isQ1.
Proof.
  rewrite plane_sum_sum2, quad_sum_sum2. unfold Q1_condition.
  rewrite (split4 _ _ (fun y x => b2z (NE (I00 img) (I01 img) y x && NE (I00 img) (I10 img) y x && NE (I00 img) (I11 img) y x))).
  rewrite plain_term.
  rewrite (shifted_term _ (I01 img) 0 1 ltac:(lia) ltac:(lia) c01 s01).
  rewrite (shifted_term _ (I10 img) 1 0 ltac:(lia) ltac:(lia) c10 s10).
  rewrite (shifted_term _ (I11 img) 1 1 ltac:(lia) ltac:(lia) c11 s11).
  rewrite <- !sum2_add. apply sum2_ext. intros y x.
  unfold isQ1, nbits, inS, NE, I00, I01, I10, I11, b2z. quad_tac y x.
Qed.

Theorem q3_count : plane_sum img (Q3_condition img) l = quad_sum isQ3.
Proof.
  rewrite plane_sum_sum2, quad_sum_sum2. unfold Q3_condition.
  rewrite (split4 _ _ (fun y x => b2z (EQ (I00 img) (I10 img) y x && EQ (I00 img) (I01 img) y x && NE (I00 img) (I11 img) y x))
                      (fun y x => shifted img (fun y x => NE (I11 img) (I00 img) y x && EQ (I11 img) (I10 img) y x && EQ (I11 img) (I01 img) y x) 1 1 y x)
                      (fun y x => b2z (NE (I00 img) (I01 img) y x && EQ (I00 img) (I10 img) y x && EQ (I00 img) (I11 img) y x))
                      (fun y x => b2z (NE (I00 img) (I10 img) y x && EQ (I00 img) (I01 img) y x && EQ (I00 img) (I11 img) y x))).
  rewrite !plain_term.
  rewrite (shifted_term _ (I11 img) 1 1 ltac:(lia) ltac:(lia) c11 s11).
  rewrite <- !sum2_add. apply sum2_ext. intros y x.
  unfold isQ3, nbits, inS, NE, EQ, I00, I01, I10, I11, b2z. quad_tac y x.
Qed.

Theorem qd_count : plane_sum img (QD_condition img) l = quad_sum isQD.
Proof.
  rewrite plane_sum_sum2, quad_sum_sum2. unfold QD_condition.
  rewrite (split2 _ _ (fun y x => b2z (NE (I00 img) (I01 img) y x && NE (I00 img) (I10 img) y x && EQ (I00 img) (I11 img) y x))).
  rewrite plain_term.
  rewrite (shifted_term _ (I01 img) 0 1 ltac:(lia) ltac:(lia) c01 s01).
  rewrite <- !sum2_add. apply sum2_ext. intros y x.
  unfold isQD, inS, NE, EQ, I00, I01, I10, I11, b2z. quad_tac y x.
Qed.
End Quads.

(* euler_number: for every rectangular label image and every label l <> 0, 4 W is
   n(Q1) - n(Q3) - 2 n(QD) of the pixel set of l, counted over all 2x2 windows meeting the image *)
Theorem quad_counts_spec (img : image) (l : Z) : rect img -> l <> 0 ->
  euler4 img l = quad_sum img l isQ1 - quad_sum img l isQ3 - 2 * quad_sum img l isQD.
Proof.
  intros R Hl. unfold euler4. rewrite (q1_count img l R Hl), (q3_count img l R Hl), (qd_count img l R Hl). reflexivity.
Qed.

Example quad_example : euler4 [[1;1;1];[1;0;1];[1;1;2]] 1 = 0 /\ euler4 [[1;1;1];[1;0;1];[1;1;2]] 2 = 4.
Proof. vm_compute. split; reflexivity. Qed.
