(* C14 — the two geometric facts behind the rotating calipers, over Z and without angles:
   (1) along a strictly convex polygon the distance to an edge's line has no valley (it is
       unimodal): once it stops increasing it strictly decreases until it is back on the line;
   (2) a farthest pair of vertices is antipodal: at the pair the edge directions satisfy the sign
       conditions under which the sweep records it. *)
From Coq Require Import ZArith List Bool Lia ZifyBool.
From Centro Require Import Base.Sx Model.Feret.
Import ListNotations.
Open Scope Z_scope.

Definition vsub (a b : fpt) : fpt := (fst a - fst b, snd a - snd b).
Definition cr (x y : fpt) : Z := fst x * snd y - snd x * fst y.
Definition dt (x y : fpt) : Z := fst x * fst y + snd x * snd y.

(* fcross pt l0 l1 = (l1 - l0) x (pt - l0) *)
Lemma fcross_cr pt l0 l1 : fcross pt l0 l1 = cr (vsub l1 l0) (vsub pt l0).
Proof. unfold fcross, cr, vsub. cbn [fst snd]. ring. Qed.

Lemma cramer e x u w : cr e x * cr u w = cr x w * cr e u + cr u x * cr e w.
Proof. unfold cr. ring. Qed.

Lemma cr_in_basis e e' w : cr e e' * dt w w = cr e w * dt e' w - dt e w * cr e' w.
Proof. unfold cr, dt. ring. Qed.

Lemma dt_pos w : w <> (0, 0) -> 0 < dt w w.
Proof.
  destruct w as [a b]. unfold dt. cbn [fst snd]. intro N.
  assert (a <> 0 \/ b <> 0) by (destruct (Z.eq_dec a 0), (Z.eq_dec b 0); subst; try tauto; congruence).
  pose proof (Z.square_nonneg a). pose proof (Z.square_nonneg b).
  destruct H; [assert (0 < a * a) by nia|assert (0 < b * b) by nia]; lia.
Qed.

(* ---------------------------------------------------------------- (1) no valley *)
(* v, v1: the edge whose line we measure from; k -> m -> m1 three consecutive vertices, m off the line *)
Lemma no_valley sg (hv hv1 hk hm hm1 : fpt) :
  (sg = 1 \/ sg = -1) ->
  0 <= sg * fcross hv hk hm ->            (* hv on the inner side of edge k -> m *)
  0 <= sg * fcross hv hm hm1 ->           (* ... and of edge m -> m1 *)
  0 < sg * fcross hm1 hk hm ->            (* strictly convex at m *)
  0 < sg * fcross hm hv hv1 ->            (* m strictly off the line v v1 *)
  sg * cr (vsub hv1 hv) (vsub hm hk) <= 0 ->          (* not getting farther along k -> m *)
  sg * cr (vsub hv1 hv) (vsub hm1 hm) < 0.            (* strictly closer along m -> m1 *)
Proof.
  intros Sg I1 I2 Cv Off Dk. rewrite !fcross_cr in *.
  set (e := vsub hv1 hv) in *. set (u := vsub hk hm). set (w := vsub hm1 hm). set (x := vsub hv hm).
  destruct (Z_lt_le_dec (sg * cr e w) 0) as [L|G]; [exact L|exfalso].
  pose proof (cramer e x u w) as C.
  assert (E1 : cr (vsub hm hk) (vsub hv hk) = - cr u x) by (unfold u, x; unfold cr, vsub; cbn [fst snd]; ring).
  assert (E2 : cr (vsub hm1 hm) (vsub hv hm) = - cr x w) by (unfold x, w; unfold cr, vsub; cbn [fst snd]; ring).
  assert (E3 : cr (vsub hm hk) (vsub hm1 hk) = - cr u w) by (unfold u, w; unfold cr, vsub; cbn [fst snd]; ring).
  assert (E4 : cr e (vsub hm hv) = - cr e x) by (unfold x; unfold cr, vsub; cbn [fst snd]; ring).
  assert (E5 : cr e (vsub hm hk) = - cr e u) by (unfold u; unfold cr, vsub; cbn [fst snd]; ring).
  rewrite E1 in I1. rewrite E2 in I2. rewrite E3 in Cv. rewrite E4 in Off. rewrite E5 in Dk.
  assert (S2 : sg * sg = 1) by (destruct Sg; subst; reflexivity).
  (* (sg cr e x)(sg cr u w) > 0  but the right-hand side is <= 0 *)
  assert (P : 0 < (sg * cr e x) * (sg * cr u w)) by nia.
  assert (Q : (sg * cr x w) * (sg * cr e u) + (sg * cr u x) * (sg * cr e w) <= 0) by nia.
  assert (R : (sg * cr e x) * (sg * cr u w) = (sg * cr x w) * (sg * cr e u) + (sg * cr u x) * (sg * cr e w)).
  { replace ((sg * cr e x) * (sg * cr u w)) with (sg * sg * (cr e x * cr u w)) by ring.
    rewrite C. ring. }
  lia.
Qed.

(* ---------------------------------------------------------------- (2) a farthest pair is antipodal *)
Lemma far_dot_neg (hp hq a : fpt) : a <> hp -> fdist2 a hq <= fdist2 hp hq -> dt (vsub hp a) (vsub hq hp) < 0.
Proof.
  intros N H. unfold fdist2 in H. unfold dt, vsub. cbn [fst snd].
  assert (P : 0 < dt (vsub a hp) (vsub a hp)).
  { apply dt_pos. unfold vsub. intro E. apply N. destruct a, hp. cbn [fst snd] in E. inversion E. f_equal; lia. }
  unfold dt, vsub in P. cbn [fst snd] in P.
  assert (Id : (fst a - fst hq) * (fst a - fst hq) + (snd a - snd hq) * (snd a - snd hq) =
               ((fst a - fst hp) * (fst a - fst hp) + (snd a - snd hp) * (snd a - snd hp)) +
               2 * ((fst hp - fst a) * (fst hq - fst hp) + (snd hp - snd a) * (snd hq - snd hp)) +
               ((fst hp - fst hq) * (fst hp - fst hq) + (snd hp - snd hq) * (snd hp - snd hq))) by ring.
  lia.
Qed.

(* arriving edge at p (from a) and leaving edge at q (to b): D(p-1, q) < 0 *)
Lemma diameter_antipodal_1 sg (hp hq a b : fpt) :
  (sg = 1 \/ sg = -1) -> hp <> hq -> a <> hp -> b <> hq ->
  fdist2 a hq <= fdist2 hp hq -> fdist2 hp b <= fdist2 hp hq ->
  0 < sg * fcross hq a hp ->        (* q strictly inside edge a -> p *)
  0 < sg * fcross hp hq b ->        (* p strictly inside edge q -> b *)
  sg * cr (vsub hp a) (vsub b hq) < 0.
Proof.
  intros Sg Npq Na Nb Fa Fb I1 I2. rewrite !fcross_cr in *.
  set (w := vsub hq hp). set (e := vsub hp a) in *. set (e' := vsub b hq) in *.
  assert (W : 0 < dt w w).
  { apply dt_pos. unfold w, vsub. intro E. apply Npq. destruct hp, hq. cbn [fst snd] in E. inversion E. f_equal; lia. }
  assert (B1 : dt e w < 0) by (apply far_dot_neg; assumption).
  assert (B2 : dt e' w < 0).
  { assert (F : fdist2 b hp <= fdist2 hq hp) by (unfold fdist2 in *; lia).
    pose proof (far_dot_neg hq hp b Nb F) as X. unfold e', w in *. unfold dt, vsub in *. cbn [fst snd] in *. lia. }
  assert (A1 : cr e (vsub hq a) = cr e w) by (unfold e, w; unfold cr, vsub; cbn [fst snd]; ring).
  assert (A2 : cr e' (vsub hp hq) = - cr e' w) by (unfold e', w; unfold cr, vsub; cbn [fst snd]; ring).
  rewrite A1 in I1. rewrite A2 in I2.
  pose proof (cr_in_basis e e' w) as Id.
  assert (S2 : sg * sg = 1) by (destruct Sg; subst; reflexivity).
  assert (T : sg * cr e e' * dt w w = (sg * cr e w) * dt e' w - dt e w * (sg * cr e' w)) by (rewrite <- Z.mul_assoc, Id; ring).
  assert (T1 : (sg * cr e w) * dt e' w < 0) by nia.
  assert (T2 : 0 < dt e w * (sg * cr e' w)) by nia.
  nia.
Qed.

(* leaving edge at p (to c) and arriving edge at q (from d): D(p, q-1) > 0 *)
Lemma diameter_antipodal_2 sg (hp hq c d : fpt) :
  (sg = 1 \/ sg = -1) -> hp <> hq -> c <> hp -> d <> hq ->
  fdist2 c hq <= fdist2 hp hq -> fdist2 hp d <= fdist2 hp hq ->
  0 < sg * fcross hq hp c ->        (* q strictly inside edge p -> c *)
  0 < sg * fcross hp d hq ->        (* p strictly inside edge d -> q *)
  0 < sg * cr (vsub c hp) (vsub hq d).
Proof.
  intros Sg Npq Nc Nd Fc Fd I1 I2. rewrite !fcross_cr in *.
  set (w := vsub hq hp). set (e := vsub c hp) in *. set (e' := vsub hq d) in *.
  assert (W : 0 < dt w w).
  { apply dt_pos. unfold w, vsub. intro E. apply Npq. destruct hp, hq. cbn [fst snd] in E. inversion E. f_equal; lia. }
  assert (B1 : 0 < dt e w).
  { pose proof (far_dot_neg hp hq c Nc Fc) as X. unfold e, w in *. unfold dt, vsub in *. cbn [fst snd] in *. lia. }
  assert (B2 : 0 < dt e' w).
  { assert (F : fdist2 d hp <= fdist2 hq hp) by (unfold fdist2 in *; lia).
    pose proof (far_dot_neg hq hp d Nd F) as X. unfold e', w in *. unfold dt, vsub in *. cbn [fst snd] in *. lia. }
  assert (A1 : cr e (vsub hq hp) = cr e w) by reflexivity.
  assert (A2 : cr e' (vsub hp d) = - cr e' w) by (unfold e', w; unfold cr, vsub; cbn [fst snd]; ring).
  rewrite A2 in I2.
  pose proof (cr_in_basis e e' w) as Id.
  assert (T : sg * cr e e' * dt w w = (sg * cr e w) * dt e' w - dt e w * (sg * cr e' w)) by (rewrite <- Z.mul_assoc, Id; ring).
  assert (T1 : 0 < (sg * cr e w) * dt e' w) by nia.
  assert (T2 : dt e w * (sg * cr e' w) < 0) by nia.
  nia.
Qed.

(* ---------------------------------------------------------------- (3) a local maximum is global *)
(* edge a -> a1 is the line we measure from; u -> v -> w three consecutive vertices; the distance does
   not decrease on arriving at v and does not increase on leaving it: then no vertex k is farther *)
Lemma local_max_global sg (ha ha1 hu hv hw hk : fpt) :
  (sg = 1 \/ sg = -1) ->
  0 <= sg * fcross hk hu hv ->            (* k on the inner side of edge u -> v *)
  0 <= sg * fcross hk hv hw ->            (* ... and of edge v -> w *)
  0 < sg * fcross hw hu hv ->             (* strictly convex at v *)
  0 <= sg * cr (vsub ha1 ha) (vsub hv hu) ->
  sg * cr (vsub ha1 ha) (vsub hw hv) <= 0 ->
  sg * fcross hk ha ha1 <= sg * fcross hv ha ha1.
Proof.
  intros Sg I1 I2 Cv Din Dout. rewrite !fcross_cr in *.
  set (e := vsub ha1 ha) in *. set (u := vsub hu hv). set (w := vsub hw hv). set (x := vsub hk hv).
  pose proof (cramer e x u w) as C.
  assert (E1 : cr (vsub hv hu) (vsub hk hu) = - cr u x) by (unfold u, x; unfold cr, vsub; cbn [fst snd]; ring).
  assert (E2 : cr (vsub hw hv) (vsub hk hv) = - cr x w) by (unfold x, w; unfold cr, vsub; cbn [fst snd]; ring).
  assert (E3 : cr (vsub hv hu) (vsub hw hu) = - cr u w) by (unfold u, w; unfold cr, vsub; cbn [fst snd]; ring).
  assert (E4 : cr e (vsub hv hu) = - cr e u) by (unfold u; unfold cr, vsub; cbn [fst snd]; ring).
  assert (E5 : cr e (vsub hk ha) - cr e (vsub hv ha) = cr e x) by (unfold x; unfold cr, vsub; cbn [fst snd]; ring).
  rewrite E1 in I1. rewrite E2 in I2. rewrite E3 in Cv. rewrite E4 in Din. fold w in Dout.
  assert (S2 : sg * sg = 1) by (destruct Sg; subst; reflexivity).
  assert (R : (sg * cr e x) * (sg * cr u w) = (sg * cr x w) * (sg * cr e u) + (sg * cr u x) * (sg * cr e w)).
  { replace ((sg * cr e x) * (sg * cr u w)) with (sg * sg * (cr e x * cr u w)) by ring. rewrite C. ring. }
  assert (Q : 0 <= (sg * cr x w) * (sg * cr e u) + (sg * cr u x) * (sg * cr e w)) by nia.
  assert (X : sg * cr e x <= 0) by nia.
  nia.
Qed.
