(* C09 — the correction history under renumbering and appending (port of
   design/prototypes/KalmanHist.v to the definitions of Spec/Kalman.v). *)
From Coq Require Import ZArith List Bool Lia Arith QArith Qcanon.
From Centro Require Import Model.Kalman Spec.Kalman.
Import ListNotations.
Open Scope nat_scope.

(* state_noise_idx = reverse_indices[state_noise_idx]; rows mapped to -1 are dropped *)
Fixpoint renumber {V} (f : nat -> option nat) (r : list (nat * V)) : list (nat * V) :=
  match r with
  | [] => []
  | (i, v) :: t => match f i with Some i' => (i', v) :: renumber f t | None => renumber f t end
  end.

Definition hist {V} (k : nat) (r : list (nat * V)) : list V :=
  map snd (filter (fun p => Nat.eqb (fst p) k) r).

Lemma history_of_hist k r : history_of k r = hist k r.
Proof. reflexivity. Qed.

(* each kept feature keeps exactly its own past corrections, in order *)
Theorem history_renumber {V} f k o (r : list (nat * V)) :
  (forall i, In i (map fst r) -> (f i = Some k <-> i = o)) ->
  hist k (renumber f r) = hist o r.
Proof.
  unfold hist. induction r as [|[i v] t IH]; intros H; cbn [renumber filter map fst snd]; auto.
  assert (Ht : forall j, In j (map fst t) -> (f j = Some k <-> j = o)) by (intros j Hj; apply H; right; exact Hj).
  specialize (IH Ht). assert (Hi := H i (or_introl eq_refl)).
  destruct (f i) as [i'|] eqn:E.
  - cbn [filter fst]. destruct (Nat.eqb_spec i' k) as [->|N], (Nat.eqb_spec i o) as [->|N'];
      cbn [map snd]; try (rewrite IH; reflexivity).
    + exfalso. apply N'. apply Hi. reflexivity.
    + exfalso. apply N. assert (Some i' = Some k) by (apply Hi; reflexivity). congruence.
  - destruct (Nat.eqb_spec i o) as [->|N']; [|exact IH].
    assert (None = Some k) by (apply Hi; reflexivity). discriminate.
Qed.

(* a feature index outside the image of the renumbering has no history *)
Theorem history_renumber_none {V} f k (r : list (nat * V)) :
  (forall i, In i (map fst r) -> f i <> Some k) -> hist k (renumber f r) = [].
Proof.
  unfold hist. induction r as [|[i v] t IH]; intros H; cbn [renumber]; auto.
  assert (Hi := H i (or_introl eq_refl)).
  assert (IH' : map snd (filter (fun p : nat * V => fst p =? k) (renumber f t)) = [])
    by (apply IH; intros j Hj; apply H; right; exact Hj).
  destruct (f i) as [i'|] eqn:E; [|exact IH'].
  cbn [filter fst]. destruct (Nat.eqb_spec i' k) as [->|N]; [congruence|exact IH'].
Qed.

Lemma filter_none {V} (x : nat) : forall (t : list V) s, x < s ->
  filter (fun p : nat * V => Nat.eqb (fst p) x) (combine (seq s (length t)) t) = [].
Proof.
  induction t as [|c t IH]; intros s Hs; cbn [length seq combine filter fst]; auto.
  destruct (Nat.eqb_spec s x); [lia|]. apply IH. lia.
Qed.
Lemma filter_one {V} d : forall (corr : list V) s k, k < length corr ->
  map snd (filter (fun p : nat * V => Nat.eqb (fst p) (s + k)) (combine (seq s (length corr)) corr)) = [nth k corr d].
Proof.
  induction corr as [|c t IH]; intros s k Hk; cbn [length] in Hk; [lia|].
  cbn [length seq combine filter fst]. destruct k as [|k].
  - rewrite Nat.add_0_r, Nat.eqb_refl. cbn [map snd nth]. rewrite filter_none by lia. reflexivity.
  - destruct (Nat.eqb_spec s (s + S k)); [lia|]. cbn [nth].
    replace (s + S k) with (S s + k) by lia. apply IH. lia.
Qed.
(* appending this frame's corrections (idx = arange) extends feature k's history by its own
   correction only *)
Theorem history_append {V} k (r : list (nat * V)) (corr : list V) d : k < length corr ->
  hist k (r ++ combine (seq 0 (length corr)) corr) = hist k r ++ [nth k corr d].
Proof.
  intros Hk. unfold hist. rewrite filter_app, map_app. f_equal.
  apply (filter_one d corr 0 k Hk).
Qed.

(* hypotheses are satisfiable: three features, the history of old feature 2 follows it to slot 0 *)
Example history_renumber_ex :
  let f := fun i => match i with 2 => Some 0 | 0 => Some 1 | _ => None end in
  let r := [(0, 10); (1, 11); (2, 12); (0, 13); (2, 14)] in
  (forall i, In i (map fst r) -> (f i = Some 0 <-> i = 2)) /\ hist 0 (renumber f r) = [12; 14].
Proof.
  cbn. split; [|reflexivity]. intros i [<-|[<-|[<-|[<-|[<-|[]]]]]]; split; intro H; (discriminate || reflexivity || lia).
Qed.
