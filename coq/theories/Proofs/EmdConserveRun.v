(* C10 — caps_flow_conserved: the balance  excess - inflow + outflow  of the capacity flow is kept by
   every iteration of the flagged run, hence at Done (all excesses zero) the capacity flow satisfies
   flow conservation with the supplies the solver was given. *)
From Coq Require Import ZArith List Bool Lia ZifyBool.
From Centro Require Import Base.Sx Base.EmdBase Model.Emd Model.EmdMcf
  Proofs.EmdDuality Proofs.EmdSsp Proofs.EmdHeap Proofs.EmdHeapPos Proofs.EmdHeapOrd Proofs.EmdHeapMem Proofs.EmdDijkstra Proofs.EmdDijkstraInit
  Proofs.EmdTight Proofs.EmdPotential Proofs.EmdGhost Proofs.EmdCspPost Proofs.EmdFuel Proofs.EmdAugment Proofs.EmdRun
  Proofs.EmdMetric Proofs.EmdConserve Proofs.EmdCertModel.
Import ListNotations.
Open Scope Z_scope.

Lemma capsum_map_keep (g : nat * Z * Z -> nat * Z * Z) l : (forall en, snd (g en) = snd en) ->
  capsum (map g l) = capsum l.
Proof. intros H. unfold capsum. rewrite map_map. apply zsum_map_ext. intros; apply H. Qed.
Lemma capto_map_keep t (g : nat * Z * Z -> nat * Z * Z) l :
  (forall en, snd (g en) = snd en /\ fst (fst (g en)) = fst (fst en)) -> capto t (map g l) = capto t l.
Proof. intros H. unfold capto. rewrite map_map. apply zsum_map_ext. intros en _. destruct (H en) as [A B]. rewrite A, B. auto. Qed.

Theorem step_conserves nv c st st' : length c = nv ->
  length (m_e st) = nv -> length (m_d st) = nv -> length (m_prev st) = nv ->
  (exists pi, ghost nv c pi (m_rf st) (m_rb st)) ->
  RAok nv (m_rf st) (m_rb st) -> caps_ok (m_rb st) = true ->
  mcf_step st = MMore st' -> step_flag st = false ->
  forall v, bal nv (m_e st') (m_rb st') v = bal nv (m_e st) (m_rb st) v.
Proof.
  intros LC LE LD LP [pi G] RA CO. unfold mcf_step, step_flag. rewrite LE.
  destruct (pick_supply (m_e st) 0 0 0) as [ms k] eqn:PS.
  destruct (ms =? 0) eqn:E0; [discriminate|].
  destruct (compute_shortest_path nv (m_d st) (m_prev st) k (m_rf st) (m_rb st) (m_e st))
    as [[[[[d prev] rf] rb] l]|] eqn:EC; [|discriminate].
  destruct (l =? k)%nat eqn:ELK; [discriminate|]. apply Nat.eqb_neq in ELK.
  destruct (scan_delta nv prev rb k l ms) as [delta|] eqn:ES; [|discriminate].
  destruct (augment nv prev k l delta (m_e st) (m_x st) rb) as [[[e' x'] rb']|] eqn:EA; [|discriminate].
  intros X FL. injection X as <-. cbn [m_e m_rf m_rb].
  apply orb_false_iff in FL. destruct FL as [WF CO']. apply negb_false_iff in CO'.
  (* the start node is inside the graph and has positive supply *)
  assert (Hk : (k < nv)%nat /\ 0 < ms).
  { destruct (pick_supply_spec _ _ _ _ _ _ PS) as [[A _]|[A [_ B]]]; [lia|]. split; [|lia].
    rewrite Nat.sub_0_r in B. destruct (Nat.lt_ge_cases k (length (m_e st))); [lia|]. rewrite nth_overflow in B by auto. lia. }
  destruct Hk as [Hk Hms].
  pose proof G as [LRF [LRB _]].
  destruct (csp_post nv (m_e st) (m_rf st) (m_rb st) RA _ _ _ _ _ _ _ _ Hk LD LP EC) as [sp [ED [EP [PO [TP [ERF ERB]]]]]].
  pose proof (csp_residual_nonneg nv (m_e st) (m_rf st) (m_rb st) RA _ _ _ _ _ _ _ _ Hk LD LRF LRB EC) as RA1.
  destruct (ghost_csp nv c LC _ _ _ _ _ _ _ _ _ _ _ _ G EC) as [pi' G1].
  pose proof (ghost_augment nv c LC pi' rf _ _ _ _ _ _ _ _ _ _ _ G1 EA) as G2.
  (* capacities are untouched by the shortest-path phase *)
  assert (NRB : forall u, (u < nv)%nat -> nth u rb [] =
            map (fun en => (fst (fst en), rc_update (sp_final sp) d (nz d l) u (fst (fst en)) (snd (fst en)), snd en)) (nth u (m_rb st) [])).
  { intros u Hu. rewrite ERB.
    apply (nth_map_combine' (fun fr row => map (fun en : nat * Z * Z => (fst (fst en), rc_update (sp_final sp) d (nz d l) fr (fst (fst en)) (snd (fst en)), snd en)) row) [] [] (m_rb st) nv u); lia. }
  assert (NRF : forall u, (u < nv)%nat -> nth u rf [] =
            map (fun en => (fst en, rc_update (sp_final sp) d (nz d l) u (fst en) (snd en))) (nth u (m_rf st) [])).
  { intros u Hu. rewrite ERF.
    apply (nth_map_combine' (fun fr row => map (fun en : nat * Z => (fst en, rc_update (sp_final sp) d (nz d l) fr (fst en) (snd en))) row) [] [] (m_rf st) nv u); lia. }
  assert (CO1 : caps_ok rb = true).
  { unfold caps_ok. apply forallb_forall. intros row Hrow. apply forallb_forall. intros en Hen.
    destruct (In_nth _ _ [] Hrow) as [u [Hu Eu]]. destruct G1 as [_ [LRB1 _]]. rewrite LRB1 in Hu.
    rewrite <- Eu in Hen. rewrite (NRB u Hu) in Hen. apply in_map_iff in Hen. destruct Hen as [en0 [<- Hin0]]. cbn [snd].
    pose proof (caps_ok_in _ _ _ CO Hin0). lia. }
  assert (Hd : 0 <= delta) by (eapply scan_delta_nonneg; eauto; lia).
  destruct PO as [FL [LL _]].
  assert (CH : forall from' to', In (from', to') (hops nv prev k l) ->
            fn sp to' = true /\ to' <> k /\ from' = pvn sp to' /\ (from' < nv)%nat /\ (to' < nv)%nat /\
            tight (m_rf st) (m_rb st) sp to' (dd sp to')).
  { apply (walk_chain nv (m_rf st) (m_rb st) k sp rf prev RA LRF LRB TP EP nv l FL ELK). rewrite ED. exact WF. }
  pose proof (walk_flag_hops rf d prev k nv l WF) as HFL.
  assert (HH : forall f0 t0, In (f0, t0) (hops nv prev k l) -> (f0 < nv)%nat /\ (t0 < nv)%nat /\ pair_count rf f0 t0 = 1%nat).
  { intros f0 t0 Hin. destruct (CH f0 t0 Hin) as [_ [_ [_ [A [B _]]]]]. split; auto. split; auto.
    specialize (HFL f0 t0 Hin). unfold hop_flag in HFL. apply orb_false_iff in HFL. destruct HFL as [PC _].
    apply negb_false_iff in PC. apply Nat.eqb_eq in PC. exact PC. }
  intros v. rewrite (augment_conserves nv c pi' rf LC _ _ _ _ _ _ _ _ _ _ _ G1 LE HH EA v).
  (* the shortest-path phase does not touch capacities *)
  destruct G1 as [_ [LRB1 _]].
  assert (NN : forall u, capsum (nth u rb []) = capsum (nth u (m_rb st) []) /\
                         forall t, capto t (nth u rb []) = capto t (nth u (m_rb st) [])).
  { intros u. destruct (Nat.lt_ge_cases u nv) as [Lu|Lu].
    - rewrite (NRB u Lu). split; [apply capsum_map_keep; auto|intros t; apply capto_map_keep; auto].
    - rewrite !nth_overflow by lia. auto. }
  unfold bal, inflow, outflow_c. destruct (NN v) as [A _]. rewrite A. f_equal.
  apply zsum_map_ext. intros u _. destruct (NN u) as [_ B]. apply B.
Qed.

Section RunC.
Variable nv : nat.
Variable c : list (list (nat * Z)).
Hypothesis LC : length c = nv.

Lemma step_done st st' : mcf_step st = MDone st' -> st' = st /\ forall x, In x (m_e st) -> x <= 0.
Proof.
  unfold mcf_step. destruct (pick_supply (m_e st) 0 0 0) as [ms k] eqn:PS.
  destruct (ms =? 0) eqn:E0.
  - intros H. injection H as <-. split; auto. eapply pick_supply_zero; eauto.
  - destruct (compute_shortest_path _ _ _ _ _ _ _) as [[[[[d prev] rf] rb] l]|]; [|discriminate].
    destruct (l =? k)%nat; [discriminate|]. destruct (scan_delta _ _ _ _ _ _); [|discriminate].
    destruct (augment _ _ _ _ _ _ _ _) as [[[e' x'] rb']|]; discriminate.
Qed.

Theorem bal_iter : forall k st fl r fl', RunInv nv c st ->
  mcf_iter_f k st fl = (r, fl') -> fl' = false ->
  match r with
  | MDone st' => (forall v, bal nv (m_e st') (m_rb st') v = bal nv (m_e st) (m_rb st) v) /\ forall x, In x (m_e st') -> x <= 0
  | MMore st' => forall v, bal nv (m_e st') (m_rb st') v = bal nv (m_e st) (m_rb st) v
  | MFail => True
  end.
Proof.
  induction k as [|k IH]; intros st fl r fl' I; cbn [mcf_iter_f].
  - intros H F. injection H as <- <-. apply orb_false_iff in F. destruct F as [_ F2].
    destruct I as [LE [LD [LP [G [RA CO]]]]].
    destruct (mcf_step st) as [s1|s1|] eqn:ES; [| |exact Logic.I].
    + destruct (step_done _ _ ES) as [-> N]. split; auto.
    + apply (step_conserves nv c st s1 LC LE LD LP G RA CO ES F2).
  - destruct (mcf_iter_f k st fl) as [r1 f1] eqn:E1. destruct r1 as [s1|s1|].
    + intros H F. injection H as <- <-. apply (IH st fl _ _ I E1 F).
    + intros H F. pose proof (flag_mono _ _ _ _ _ H F) as F1.
      pose proof (run_iter nv c LC k st fl (MMore s1) f1 I E1 F1) as I1.
      pose proof (IH st fl (MMore s1) f1 I E1 F1) as B1.
      pose proof (IH s1 f1 r fl' I1 H F) as B2.
      destruct r as [s2|s2|]; auto.
      * destruct B2 as [B2 N]. split; auto. intros v. rewrite B2. apply B1.
      * intros v. rewrite B2. apply B1.
    + intros H F. injection H as <- <-. exact Logic.I.
Qed.

(* total inflow = total outflow when every entry points inside the graph *)
Lemma capto_total l : (forall en, In en l -> (fst (fst en) < nv)%nat) ->
  zsum (map (fun v => capto v l) (seq 0 nv)) = capsum l.
Proof.
  intros H. unfold capto, capsum.
  rewrite (zsum_swap (fun v en => if (fst (fst en) =? v)%nat then snd en else 0) (seq 0 nv) l).
  apply zsum_map_ext. intros en Hen.
  rewrite (zsum_map_ext _ (fun v => snd en * (if (v =? fst (fst en))%nat then 1 else 0))).
  - rewrite zsum_map_scale, zsum_ind_in by (specialize (H en Hen); lia). lia.
  - intros v _. rewrite (Nat.eqb_sym v). destruct (fst (fst en) =? v)%nat; lia.
Qed.

Lemma flows_total pi rf rb : ghost nv c pi rf rb ->
  zsum (map (inflow rb) (seq 0 nv)) = zsum (map (outflow_c nv rb) (seq 0 nv)).
Proof.
  intros [_ [LRB [_ G2]]]. unfold inflow, outflow_c.
  rewrite (zsum_swap (fun v u => capto v (nth u rb [])) (seq 0 nv) (seq 0 nv)).
  apply zsum_map_ext. intros u Hu. apply in_seq in Hu. symmetry. apply capto_total.
  intros en Hen.
  assert (S : In (fst (fst en), snd (fst en)) (strip (nth u rb []))) by (unfold strip; apply in_map_iff; exists en; auto).
  rewrite G2 in S by lia. destruct (bwd_entry_arc c pi u _ S) as [a [Ha [_ [Af _]]]]. cbn [fst] in Af.
  apply mk_arcs_in in Ha. rewrite Af. lia.
Qed.

(* caps_flow_conserved: at Done of a flagged run with the flag clear, started from mcf_init on
   balanced supplies, all excesses are zero and at every node  outflow - inflow = supply *)
Theorem caps_flow_conserved e st fl : length e = nv -> zsum e = 0 ->
  (forall l tc, In l c -> In tc l -> (fst tc < nv)%nat /\ 0 <= snd tc) ->
  mcf_iter_f ssp_levels (mcf_init e c) false = (MDone st, fl) -> fl = false ->
  (forall x, In x (m_e st) -> x = 0) /\
  forall v, (v < nv)%nat -> outflow_c nv (m_rb st) v - inflow (m_rb st) v = nz e v.
Proof.
  intros LE SE GC H F.
  pose proof (run_init nv c LC e LE GC) as I0.
  pose proof (run_iter nv c LC ssp_levels _ _ _ _ I0 H F) as I1.
  destruct (bal_iter ssp_levels _ _ _ _ I0 H F) as [B N].
  destruct I1 as [LE1 [_ [_ [[pi G] _]]]].
  (* the initial balance is the supply *)
  assert (B0 : forall v, bal nv (m_e (mcf_init e c)) (m_rb (mcf_init e c)) v = nz e v).
  { intros v. unfold bal, mcf_init. cbn [m_e m_rb].
    assert (Z : forall u, capsum (nth u (map (fun v0 => flat_map (fun a => if (a_to a =? v0)%nat then [(a_from a, - a_cost a, 0)] else []) (mk_arcs c)) (seq 0 (length e))) []) = 0
                       /\ forall t, capto t (nth u (map (fun v0 => flat_map (fun a => if (a_to a =? v0)%nat then [(a_from a, - a_cost a, 0)] else []) (mk_arcs c)) (seq 0 (length e))) []) = 0).
    { intros u.
      assert (ALL : forall en, In en (nth u (map (fun v0 => flat_map (fun a => if (a_to a =? v0)%nat then [(a_from a, - a_cost a, 0)] else []) (mk_arcs c)) (seq 0 (length e))) []) -> snd en = 0).
      { intros en Hen. destruct (Nat.lt_ge_cases u (length e)) as [L|L];
          [|rewrite nth_overflow in Hen by (rewrite map_length, seq_length; auto); destruct Hen].
        rewrite (nth_indep _ [] ((fun v0 => flat_map (fun a => if (a_to a =? v0)%nat then [(a_from a, - a_cost a, 0)] else []) (mk_arcs c)) O)) in Hen by (rewrite map_length, seq_length; auto).
        rewrite (map_nth (fun v0 => flat_map (fun a => if (a_to a =? v0)%nat then [(a_from a, - a_cost a, 0)] else []) (mk_arcs c))) in Hen.
        apply in_flat_map in Hen. destruct Hen as [a [_ Hin]]. destruct (a_to a =? _)%nat; [|destruct Hin]. destruct Hin as [<-|[]]. reflexivity. }
      split; [unfold capsum; apply zsum_map_zero; auto|].
      intros t. unfold capto. apply zsum_map_zero. intros en Hen. rewrite (ALL en Hen). destruct (fst (fst en) =? t)%nat; auto. }
    unfold inflow, outflow_c. destruct (Z v) as [A _]. rewrite A.
    rewrite zsum_map_zero; [lia|]. intros u _. destruct (Z u) as [_ Bz]. apply Bz. }
  (* sum of the final excesses = sum of the supplies = 0 *)
  assert (TOT : zsum (m_e st) = 0).
  { assert (X : zsum (map (fun v => bal nv (m_e st) (m_rb st) v) (seq 0 nv)) = zsum (map (nz e) (seq 0 nv)))
      by (apply zsum_map_ext; intros v _; rewrite B; apply B0).
    unfold bal in X.
    rewrite (zsum_map_ext _ (fun v => nz (m_e st) v + ((-1) * inflow (m_rb st) v + outflow_c nv (m_rb st) v))) in X by (intros; lia).
    rewrite !zsum_map_add, zsum_map_scale, (flows_total pi _ _ G) in X.
    assert (S1 : zsum (map (nz (m_e st)) (seq 0 nv)) = zsum (m_e st)) by (rewrite <- LE1; apply zsum_nz_seq).
    assert (S2 : zsum (map (nz e) (seq 0 nv)) = zsum e) by (rewrite <- LE; apply zsum_nz_seq).
    lia. }
  assert (ZERO : forall x, In x (m_e st) -> x = 0) by (apply all_nonpos_sum0; auto).
  split; auto. intros v Hv. specialize (B v). rewrite B0 in B. unfold bal in B.
  assert (nz (m_e st) v = 0) by (apply ZERO; unfold nz; apply nth_In; lia). lia.
Qed.
End RunC.
