(* C08 — list lemmas behind the wrapper's NumPy idioms: lexsort + adjacent de-duplication gives a
   strictly sorted list with the same members; bincount counts occurrences; the exclusive prefix
   sum of the counts of a list sorted by key is the start of each key's block (ragged index). *)
From Coq Require Import ZArith List Bool Lia ZifyBool Sorting.Sorted Sorting.Permutation Orders Sorting.Mergesort.
From Centro Require Import Base.FillZMap Base.FillSort Model.FillHoles.
Import ListNotations.
Open Scope Z_scope.

(* ---------------------------------------------------------------- generic de-duplication *)
Section Dedup.
Variable A : Type.
Variable leb eqb : A -> A -> bool.
Hypothesis eqb_spec : forall a b, eqb a b = true <-> a = b.
Hypothesis leb_trans : forall a b c, leb a b = true -> leb b c = true -> leb a c = true.
Hypothesis leb_antisym : forall a b, leb a b = true -> leb b a = true -> a = b.

Fixpoint dedupG (l : list A) : list A :=
  match l with
  | [] => []
  | a :: t => match t with [] => [a] | b :: _ => if eqb a b then dedupG t else a :: dedupG t end
  end.

Definition ltG (a b : A) : Prop := leb a b = true /\ a <> b.

Lemma dedupG_cons2 a b t : dedupG (a :: b :: t) = if eqb a b then dedupG (b :: t) else a :: dedupG (b :: t).
Proof. reflexivity. Qed.

Lemma dedupG_In l x : In x (dedupG l) <-> In x l.
Proof.
  induction l as [|a t IH]; [tauto|]. destruct t as [|b t']; [tauto|].
  rewrite dedupG_cons2. destruct (eqb a b) eqn:E.
  - apply eqb_spec in E. subst b. rewrite IH. cbn [In]. tauto.
  - cbn [In] in *. rewrite IH. tauto.
Qed.

Lemma dedupG_sorted l : StronglySorted (fun a b => is_true (leb a b)) l -> StronglySorted ltG (dedupG l).
Proof.
  induction l as [|a t IH]; intros S; [constructor|]. destruct t as [|b t']; [repeat constructor|].
  inversion S as [|x y S' F]; subst x y. specialize (IH S').
  rewrite dedupG_cons2. destruct (eqb a b) eqn:E; [exact IH|].
  constructor; [exact IH|]. apply Forall_forall. intros x Hx. apply (proj1 (dedupG_In _ _)) in Hx.
  rewrite Forall_forall in F. unfold ltG. split; [apply F; exact Hx|]. intros Eax. subst x.
  assert (Ne : a <> b) by (intros ->; assert (eqb b b = true) by (apply eqb_spec; reflexivity); congruence).
  apply Ne. apply leb_antisym; [apply F; left; auto|].
  destruct Hx as [->|Hx]; [congruence|]. inversion S' as [|u v _ F']; subst u v.
  rewrite Forall_forall in F'. apply F'; auto.
Qed.

Lemma ltG_sorted_nodup l : StronglySorted ltG l -> NoDup l.
Proof.
  induction 1 as [|a l S IH F]; constructor; auto. intros Hin. rewrite Forall_forall in F. destruct (F a Hin); congruence.
Qed.
End Dedup.

(* ---------------------------------------------------------------- the two instances *)
Definition pleb := FillPairOrder.leb.
Lemma pair_eqb_spec a b : pair_eqb a b = true <-> a = b.
Proof. destruct a, b; unfold pair_eqb; cbn [fst snd]. split; [intros; f_equal; lia|intros E; inversion E; lia]. Qed.
Lemma pleb_trans a b c : pleb a b = true -> pleb b c = true -> pleb a c = true.
Proof. destruct a, b, c; unfold pleb, FillPairOrder.leb; cbn [fst snd]. lia. Qed.
Lemma pleb_antisym a b : pleb a b = true -> pleb b a = true -> a = b.
Proof. destruct a, b; unfold pleb, FillPairOrder.leb; cbn [fst snd]. intros; f_equal; lia. Qed.
Lemma dedup_pairs_G l : dedup_pairs l = dedupG _ pair_eqb l.
Proof. induction l as [|a t IH]; [reflexivity|]. destruct t as [|b t']; [reflexivity|]. cbn [dedup_pairs dedupG] in *. rewrite IH. reflexivity. Qed.
Lemma dedup_Z_G l : dedup_Z l = dedupG _ Z.eqb l.
Proof. induction l as [|a t IH]; [reflexivity|]. destruct t as [|b t']; [reflexivity|]. cbn [dedup_Z dedupG] in *. rewrite IH. reflexivity. Qed.

Definition plt := ltG _ pleb.

Lemma sort_dedup_In l x : In x (sort_dedup l) <-> In x l.
Proof.
  unfold sort_dedup. rewrite dedup_pairs_G, (dedupG_In _ _ pair_eqb_spec).
  split; intros H.
  - apply (Permutation_in _ (Permutation_sym (FillPairSort.Permuted_sort l))); auto.
  - apply (Permutation_in _ (FillPairSort.Permuted_sort l)); auto.
Qed.

Lemma sort_dedup_sorted l : StronglySorted plt (sort_dedup l).
Proof.
  unfold sort_dedup. rewrite dedup_pairs_G. apply (dedupG_sorted _ _ _ pair_eqb_spec pleb_antisym).
  apply FillPairSort.StronglySorted_sort. intros a b c. apply pleb_trans.
Qed.

Lemma plt_fst a b : plt a b -> fst a <= fst b.
Proof. intros [H _]. destruct a, b; unfold pleb, FillPairOrder.leb in H; cbn [fst snd] in *. lia. Qed.

Lemma todo_of_In vals v : In v (todo_of vals) <-> v <> 0 /\ In v vals.
Proof.
  unfold todo_of. rewrite filter_In, dedup_Z_G, (dedupG_In _ _ Z.eqb_eq).
  split.
  - intros [H N]. split; [lia|]. apply (Permutation_in _ (Permutation_sym (FillZSort.Permuted_sort vals))); auto.
  - intros [N H]. split; [|lia]. apply (Permutation_in _ (FillZSort.Permuted_sort vals)); auto.
Qed.

Lemma todo_of_nodup vals : NoDup (todo_of vals).
Proof.
  unfold todo_of. apply NoDup_filter. rewrite dedup_Z_G.
  apply (ltG_sorted_nodup _ FillZOrder.leb).
  apply (dedupG_sorted _ _ _ Z.eqb_eq).
  - intros a b. unfold FillZOrder.leb. lia.
  - apply FillZSort.StronglySorted_sort. intros a b c. unfold FillZOrder.leb, is_true. lia.
Qed.

(* the edge list handed to the C loop *)
Lemma sym_edges_In raw a b : In (a, b) (sym_edges raw) <-> In (a, b) raw \/ In (b, a) raw.
Proof.
  unfold sym_edges. rewrite sort_dedup_In, in_app_iff, sort_dedup_In, in_map_iff. split.
  - intros [H|[[x y] [E H]]]; [auto|]. unfold swap in E. cbn [fst snd] in E. inversion E; subst.
    right. apply (proj1 (sort_dedup_In _ _)) in H. exact H.
  - intros [H|H]; [auto|]. right. exists (b, a). split; [reflexivity|apply (proj2 (sort_dedup_In _ _)); exact H].
Qed.
Lemma sym_edges_sorted raw : StronglySorted plt (sym_edges raw).
Proof. apply sort_dedup_sorted. Qed.
