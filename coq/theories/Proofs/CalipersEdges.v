(* C14 — every edge of a strictly convex cycle gets a candidate in the minimum construction: the
   staircase path of the sweep makes one column step for every column a0 .. n-2, one row step for
   every row below its last row, ends in column n-1 in a row >= a0, and starts at (0, a0). *)
From Coq Require Import ZArith List Bool Lia ZifyBool.
From Centro Require Import Base.Sx Model.Feret Spec.FeretSpec Spec.CalipersHyp
  Proofs.FeretProofs Proofs.SweepProofs Proofs.CalipersGeom Proofs.CalipersPath Proofs.CalipersMax Proofs.CalipersMin.
Import ListNotations.
Open Scope Z_scope.

Section Edges.
  Variable h : list fpt.
  Variable sg : Z.
  Let n := length h.
  Hypothesis Sg : sg = 1 \/ sg = -1.
  Hypothesis N3 : (3 <= n)%nat.
  Hypothesis SC : strict_side h sg = true.

  Notation Dm := (Dm h sg).
  Notation fd := (fd h sg).
  Notation nx := (nx h).

  Lemma loop_structure : forall fuel v a acc ps,
    (v < a < n)%nat -> sweep_loop fuel h n v a acc = Some ps ->
    (forall c, (a <= c <= n - 2)%nat -> exists r, In (r, c) ps /\ In (r, S c) ps) /\
    (exists vend, (v <= vend)%nat /\ In (vend, (n - 1)%nat) ps /\ 0 <= Dm vend (n - 1) /\
                  forall r, (v <= r < vend)%nat -> exists c, In (r, c) ps /\ In (S r, c) ps).
  Proof.
    induction fuel as [|f IH]; intros v a acc ps Hva E; [discriminate|].
    assert (Rva : (v < a < length h)%nat) by (fold n; lia).
    pose proof (sweep_loop_acc h n _ _ _ _ _ E) as [Here _].
    cbn [sweep_loop] in E.
    destruct (cross2 (pnth a h) (pnth v h) (pnth (S v) h) <=?
              cross2 (pnth (if (S a =? n)%nat then 0%nat else S a) h) (pnth v h) (pnth (S v) h)) eqn:Adv;
      cbv iota in E.
    - pose proof (proj1 (adv' h sg Sg N3 SC v a Rva)) as Ad. fold n in Ad. specialize (Ad Adv).
      destruct ((S a <? n)%nat && negb (v =? S a)%nat) eqn:C.
      + pose proof (sweep_loop_acc h n _ _ _ _ _ E) as [Next _].
        destruct (IH v (S a) _ ps ltac:(lia) E) as [Cols [vend (V1 & V2 & V3 & Rows)]].
        split.
        * intros c Hc. destruct (Nat.eq_dec c a) as [->|Nc]; [exists v; split; assumption|apply Cols; lia].
        * exists vend. split; [exact V1|]. split; [exact V2|]. split; [exact V3|exact Rows].
      + (* the sweep ends here: a = n-1 *)
        assert (Ea : a = (n - 1)%nat) by lia. subst a.
        split; [intros c Hc; lia|].
        exists v. split; [lia|]. split; [exact Here|]. split; [exact Ad|intros r Hr; lia].
    - assert (Neg : Dm v a < 0).
      { destruct (Z_lt_le_dec (Dm v a) 0) as [L|G]; [exact L|].
        pose proof (proj2 (adv' h sg Sg N3 SC v a Rva) G) as T. fold n in T. congruence. }
      assert (Nva : a <> S v).
      { intro Ea. subst a. pose proof (Dm_local h sg N3 SC v ltac:(fold n; lia)) as L.
        rewrite (nx_S h sg N3 SC) in L by (fold n; lia). lia. }
      assert (C : ((a <? n)%nat && negb (S v =? a)%nat) = true) by lia. rewrite C in E.
      pose proof (sweep_loop_acc h n _ _ _ _ _ E) as [Next _].
      destruct (IH (S v) a _ ps ltac:(lia) E) as [Cols [vend (V1 & V2 & V3 & Rows)]].
      split; [exact Cols|].
      exists vend. split; [lia|]. split; [exact V2|]. split; [exact V3|].
      intros r Hr. destruct (Nat.eq_dec r v) as [->|Nr]; [exists a; split; assumption|apply Rows; lia].
  Qed.

  (* the last row is not above the first farthest vertex from the closing edge *)
  Lemma last_row_ge a0 c vend :
    first_argmax (firstn (n - 2) (skipn 1 h)) (pnth (n - 1) h) (pnth 0 h) 1 None = Some (a0, c) ->
    (vend < n - 1)%nat -> 0 <= Dm vend (n - 1) -> (a0 <= vend)%nat.
  Proof.
    intros FA Lv Dv. pose proof (initial_anti h sg Sg N3 SC a0 c FA) as [R _].
    pose proof FA as FA2. apply first_argmax_first in FA2. apply first_argmax_spec in FA.
    destruct FA as (_ & _ & Hc). destruct FA2 as [FA2|(_ & _ & Hf)]; [discriminate|].
    assert (Len : length (firstn (n - 2) (skipn 1 h)) = (n - 2)%nat) by (rewrite firstn_length, skipn_length; fold n; lia).
    assert (Nth : forall i, (i < n - 2)%nat -> nth i (firstn (n - 2) (skipn 1 h)) (0, 0) = P h (S i)).
    { intros i Li. rewrite nth_firstn_lt' by lia. unfold P, pnth. rewrite nth_skipn'. reflexivity. }
    destruct Hc as [Hc|[_ Ec]]; [discriminate|].
    assert (En : nx (n - 1) = 0%nat) by (unfold CalipersPath.nx, nxt; fold n; destruct (Nat.eqb_spec (S (n - 1)) n); lia).
    assert (Sq : forall k, cross2 (P h k) (pnth (n - 1) h) (pnth 0 h) = fd (n - 1) k * fd (n - 1) k).
    { intros k. rewrite (sq_fd h sg Sg SC). rewrite En. reflexivity. }
    destruct (le_lt_dec a0 vend) as [OK|Bad]; [exact OK|exfalso].
    rewrite Dm_antisym in Dv.
    destruct (Nat.eq_dec vend 0) as [V0|VN].
    - (* D (n-1) 0 = fd (n-1) 1 > 0 *)
      subst vend. pose proof (fd_step h sg (n - 1)%nat 0%nat) as St. rewrite (nx_S h sg N3 SC) in St by (fold n; lia).
      pose proof (sc_strict h sg N3 SC (n - 1)%nat 1%nat ltac:(fold n; lia) ltac:(fold n; lia) ltac:(lia) ltac:(rewrite En; lia)) as F1.
      pose proof (fd_next h sg (n - 1)%nat) as F0. rewrite En in F0. fold n in F0. lia.
    - (* from vend on the distance to the closing edge does not increase, but vend < a0 = FIRST argmax *)
      assert (Ch : forall j, (vend + S j <= n - 2)%nat -> fd (n - 1) (vend + S j) <= fd (n - 1) vend).
      { induction j as [|j IHj]; intro L.
        - pose proof (fd_step h sg (n - 1)%nat vend) as St. rewrite (nx_S h sg N3 SC) in St by (fold n; lia).
          replace (vend + 1)%nat with (S vend) by lia. lia.
        - specialize (IHj ltac:(lia)).
          destruct (NV_chain h sg Sg N3 SC (n - 1)%nat vend (S j) ltac:(fold n; lia) ltac:(fold n; lia)) as [Le _]; [|lia|].
          + intros t Ht. rewrite En. lia.
          + pose proof (fd_step h sg (n - 1)%nat (vend + S j)%nat) as Fs. rewrite (nx_S h sg N3 SC) in Fs by (fold n; lia).
            replace (vend + S (S j))%nat with (S (vend + S j)) by lia. lia. }
      pose proof (Ch (a0 - vend - 1)%nat ltac:(lia)) as Le.
      replace (vend + S (a0 - vend - 1))%nat with a0 in Le by lia.
      specialize (Hf (vend - 1)%nat ltac:(lia)). rewrite Nth in Hf by lia. replace (S (vend - 1)) with vend in Hf by lia.
      rewrite Nth in Ec by lia. replace (S (a0 - 1)) with a0 in Ec by lia. subst c. rewrite !Sq in Hf.
      pose proof (fd_nonneg h sg N3 SC (n - 1)%nat vend ltac:(fold n; lia) ltac:(fold n; lia)).
      pose proof (fd_nonneg h sg N3 SC (n - 1)%nat a0 ltac:(fold n; lia) ltac:(fold n; lia)).
      nia.
  Qed.
End Edges.
