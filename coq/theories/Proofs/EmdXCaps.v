(* C10 — x_caps_consistent: along the flagged run of the line-level solver the flow lists x (what
   min_cost_flow returns and read_back reads) carry, between any two nodes, the same NET flow as the
   backward capacities (the flow the optimality theorem is about).  One hop of augment adds delta to
   the first entry of x[from] pointing at `to` and, when the pair is joined by exactly one arc,
   delta to exactly one of the two capacities it addresses (one_entry). *)
From Coq Require Import ZArith List Bool Lia ZifyBool.
From Centro Require Import Base.Sx Base.EmdBase Model.Emd Model.EmdMcf
  Proofs.EmdDuality Proofs.EmdSsp Proofs.EmdHeap Proofs.EmdHeapPos Proofs.EmdHeapOrd Proofs.EmdHeapMem Proofs.EmdDijkstra Proofs.EmdDijkstraInit
  Proofs.EmdTight Proofs.EmdPotential Proofs.EmdGhost Proofs.EmdCspPost Proofs.EmdFuel Proofs.EmdAugment Proofs.EmdRun
  Proofs.EmdMetric Proofs.EmdConserve Proofs.EmdCertModel Proofs.EmdConserveRun Proofs.EmdMcfCert Proofs.EmdIndex.
Import ListNotations.
Open Scope Z_scope.

(* net pair defect: (capacity flow u->v minus v->u) minus (x flow u->v minus v->u) *)
Definition pnet (x rb : list (list (nat * Z * Z))) (u v : nat) : Z :=
  capto u (nth v rb []) - capto v (nth u rb []) - capto v (nth u x []) + capto u (nth v x []).

Lemma upd_first_x_sums t dl : forall l l', upd_first_x l t (fun f => f + dl) = Some l' ->
  forall w, capto w l' = capto w l + (if (w =? t)%nat then dl else 0).
Proof.
  unfold capto. induction l as [|en l IH]; intros l'; cbn [upd_first_x]; [discriminate|].
  destruct (fst (fst en) =? t)%nat eqn:E.
  - intros H. injection H as <-. intros w. cbn [map zsum fst snd]. apply Nat.eqb_eq in E.
    destruct (fst (fst en) =? w)%nat eqn:E2; destruct (w =? t)%nat eqn:Ew;
      rewrite ?Nat.eqb_eq, ?Nat.eqb_neq in *; try lia.
  - destruct (upd_first_x l t (fun f => f + dl)) as [r'|] eqn:ER; [|discriminate].
    intros H. injection H as <-. intros w. cbn [map zsum]. rewrite (IH r' eq_refl w). lia.
Qed.

Lemma upd_first_x_some t g l l' : upd_first_x l t g = Some l' -> l <> [].
Proof. destruct l; cbn [upd_first_x]; [discriminate|]. intros _ X. discriminate. Qed.

Theorem hop_xcaps nv c pi rf rb x xf from to dl : length c = nv ->
  ghost nv c pi rf rb -> (from < nv)%nat -> (to < nv)%nat -> from <> to ->
  pair_count rf from to = 1%nat ->
  upd_first_x (nth from x []) to (fun fl => fl + dl) = Some xf ->
  let x' := upd x from (fun _ => xf) in
  let rb1 := upd rb to (fun l => upd_first_bwd l from (fun c0 => c0 + dl)) in
  let rb2 := upd rb1 from (fun l => upd_first_bwd l to (fun c0 => c0 - dl)) in
  (forall u v, pnet x' rb2 u v = pnet x rb u v) /\ (forall u, capto u (nth u x' []) = capto u (nth u x [])).
Proof.
  intros LC G Hf Ht NE PC UX. cbv zeta.
  pose proof G as [_ [LRB _]].
  pose proof (one_entry nv c LC pi rf rb from to G Hf Ht PC) as ONE.
  set (h1 := has_to (nth to rb []) from) in *. set (h2 := has_to (nth from rb []) to) in *.
  assert (Lx : (from < length x)%nat).
  { destruct (Nat.lt_ge_cases from (length x)); auto. rewrite nth_overflow in UX by auto. cbn in UX. discriminate. }
  assert (A : forall u v,
    capto u (nth v (upd (upd rb to (fun l => upd_first_bwd l from (fun c0 => c0 + dl))) from
                        (fun l => upd_first_bwd l to (fun c0 => c0 - dl))) []) =
    capto u (nth v rb []) + (if (v =? to)%nat && (u =? from)%nat then dl * h1 else 0)
                          - (if (v =? from)%nat && (u =? to)%nat then dl * h2 else 0)).
  { intros u v. rewrite (nth_upd_local _ []), upd_length_local, (nth_upd_local _ []).
    assert (E1 : (from <? length rb)%nat = true) by (apply Nat.ltb_lt; lia).
    assert (E2 : (to <? length rb)%nat = true) by (apply Nat.ltb_lt; lia). rewrite E1, E2, !andb_true_r.
    rewrite (Nat.eqb_sym from v), (Nat.eqb_sym to v).
    destruct (v =? from)%nat eqn:VF; destruct (v =? to)%nat eqn:VT; rewrite ?Nat.eqb_eq, ?Nat.eqb_neq in *; try lia.
    - subst v. change (fun c0 : Z => c0 - dl) with (fun c0 : Z => c0 + (- dl)).
      destruct (upd_first_bwd_sums (nth from rb []) to (- dl)) as [_ S]. rewrite S. fold h2. cbn [andb].
      destruct (u =? to)%nat; lia.
    - subst v. destruct (upd_first_bwd_sums (nth to rb []) from dl) as [_ S]. rewrite S. fold h1. cbn [andb].
      destruct (u =? from)%nat; lia.
    - cbn [andb]. lia. }
  assert (B : forall u v, capto v (nth u (upd x from (fun _ => xf)) []) =
                          capto v (nth u x []) + (if (u =? from)%nat && (v =? to)%nat then dl else 0)).
  { intros u v. rewrite (nth_upd_local _ []).
    assert (E1 : (from <? length x)%nat = true) by (apply Nat.ltb_lt; lia). rewrite E1, andb_true_r.
    rewrite (Nat.eqb_sym from u). destruct (u =? from)%nat eqn:UF; cbn [andb]; [|lia].
    apply Nat.eqb_eq in UF. subst u. apply (upd_first_x_sums to dl _ _ UX). }
  split.
  - intros u v. unfold pnet. rewrite (A u v), (A v u), (B u v), (B v u).
    destruct (u =? from)%nat eqn:UF; destruct (u =? to)%nat eqn:UT; destruct (v =? from)%nat eqn:VF; destruct (v =? to)%nat eqn:VT;
      rewrite ?Nat.eqb_eq, ?Nat.eqb_neq in *; cbn [andb]; try lia; nia.
  - intros u. rewrite (B u u).
    destruct (u =? from)%nat eqn:UF; destruct (u =? to)%nat eqn:UT; rewrite ?Nat.eqb_eq, ?Nat.eqb_neq in *; cbn [andb]; lia.
Qed.

Theorem augment_xcaps nv c pi rf : length c = nv ->
  forall fuel prev k to dl e x rb e' x' rb',
  ghost nv c pi rf rb ->
  (forall f t, In (f, t) (hops fuel prev k to) -> (f < nv)%nat /\ (t < nv)%nat /\ pair_count rf f t = 1%nat) ->
  augment fuel prev k to dl e x rb = Some (e', x', rb') ->
  (forall u v, pnet x' rb' u v = pnet x rb u v) /\ (forall u, capto u (nth u x' []) = capto u (nth u x [])).
Proof.
  intros LC. induction fuel as [|f IH]; intros prev k to dl e x rb e' x' rb' G HH; cbn [augment]; [discriminate|].
  destruct (upd_first_x (nth (nth to prev O) x []) to (fun fl => fl + dl)) as [xf|] eqn:UX; [|discriminate]. cbn [bind].
  set (from := nth to prev O) in *.
  assert (H0 : (from < nv)%nat /\ (to < nv)%nat /\ pair_count rf from to = 1%nat).
  { apply HH. cbn [hops]. left. reflexivity. }
  destruct H0 as [Hf [Ht PC]].
  assert (NE : from <> to) by (intros X; rewrite X in PC; apply (pair_count_self rf to); auto).
  pose proof (hop_xcaps nv c pi rf rb x xf from to dl LC G Hf Ht NE PC UX) as HC. cbv zeta in HC.
  pose proof (ghost_rb_caps nv c LC pi rf rb to (from, fun c0 => c0 + dl) G) as G1. cbn [fst snd] in G1.
  pose proof (ghost_rb_caps nv c LC pi rf _ from (to, fun c0 => c0 - dl) G1) as G2. cbn [fst snd] in G2.
  destruct (from =? k)%nat eqn:EK.
  - intros X. injection X as _ <- <-. exact HC.
  - intros X.
    assert (HH2 : forall f0 t0, In (f0, t0) (hops f prev k from) -> (f0 < nv)%nat /\ (t0 < nv)%nat /\ pair_count rf f0 t0 = 1%nat).
    { intros f0 t0 Hin. apply HH. cbn [hops]. fold from. rewrite EK. right. exact Hin. }
    destruct (IH prev k from dl _ _ _ e' x' rb' G2 HH2 X) as [I1 I2]. destruct HC as [H1 H2].
    split; [intros u v; rewrite I1; apply H1|intros u; rewrite I2; apply H2].
Qed.

Theorem step_xcaps nv c st st' : length c = nv ->
  length (m_e st) = nv -> length (m_d st) = nv -> length (m_prev st) = nv ->
  (exists pi, ghost nv c pi (m_rf st) (m_rb st)) ->
  RAok nv (m_rf st) (m_rb st) -> caps_ok (m_rb st) = true ->
  mcf_step st = MMore st' -> step_flag st = false ->
  (forall u v, pnet (m_x st') (m_rb st') u v = pnet (m_x st) (m_rb st) u v) /\
  (forall u, capto u (nth u (m_x st') []) = capto u (nth u (m_x st) [])).
Proof.
  intros LC LE LD LP [pi G] RA CO. unfold mcf_step, step_flag. rewrite LE.
  destruct (pick_supply (m_e st) 0 0 0) as [ms k] eqn:PS.
  destruct (ms =? 0) eqn:E0; [discriminate|].
  destruct (compute_shortest_path nv (m_d st) (m_prev st) k (m_rf st) (m_rb st) (m_e st))
    as [[[[[d prev] rf] rb] l]|] eqn:EC; [|discriminate].
  destruct (l =? k)%nat eqn:ELK; [discriminate|]. apply Nat.eqb_neq in ELK.
  destruct (scan_delta nv prev rb k l ms) as [delta|] eqn:ES; [|discriminate].
  destruct (augment nv prev k l delta (m_e st) (m_x st) rb) as [[[e' x'] rb']|] eqn:EA; [|discriminate].
  intros X FL. injection X as <-. cbn [m_e m_rf m_rb m_x].
  apply orb_false_iff in FL. destruct FL as [WF CO']. apply negb_false_iff in CO'.
  assert (Hk : (k < nv)%nat /\ 0 < ms).
  { destruct (pick_supply_spec _ _ _ _ _ _ PS) as [[A _]|[A [_ B]]]; [lia|]. split; [|lia].
    rewrite Nat.sub_0_r in B. destruct (Nat.lt_ge_cases k (length (m_e st))); [lia|]. rewrite nth_overflow in B by auto. lia. }
  destruct Hk as [Hk Hms].
  pose proof G as [LRF [LRB _]].
  destruct (csp_post nv (m_e st) (m_rf st) (m_rb st) RA _ _ _ _ _ _ _ _ Hk LD LP EC) as [sp [ED [EP [PO [TP [ERF ERB]]]]]].
  destruct (ghost_csp nv c LC _ _ _ _ _ _ _ _ _ _ _ _ G EC) as [pi' G1].
  assert (NRB : forall u, (u < nv)%nat -> nth u rb [] =
            map (fun en => (fst (fst en), rc_update (sp_final sp) d (nz d l) u (fst (fst en)) (snd (fst en)), snd en)) (nth u (m_rb st) [])).
  { intros u Hu. rewrite ERB.
    apply (nth_map_combine' (fun fr row => map (fun en : nat * Z * Z => (fst (fst en), rc_update (sp_final sp) d (nz d l) fr (fst (fst en)) (snd (fst en)), snd en)) row) [] [] (m_rb st) nv u); lia. }
  destruct PO as [FL [LL _]].
  assert (CH : forall from' to', In (from', to') (hops nv prev k l) ->
            fn sp to' = true /\ to' <> k /\ from' = pvn sp to' /\ (from' < nv)%nat /\ (to' < nv)%nat /\
            tight (m_rf st) (m_rb st) sp to' (dd sp to')).
  { apply (walk_chain nv (m_rf st) (m_rb st) k sp rf prev RA LRF LRB TP EP nv l FL ELK). rewrite ED. exact WF. }
  pose proof (walk_flag_hops rf d prev k nv l WF) as HFL.
  assert (HH : forall f0 t0, In (f0, t0) (hops nv prev k l) -> (f0 < nv)%nat /\ (t0 < nv)%nat /\ pair_count rf f0 t0 = 1%nat).
  { intros f0 t0 Hin. destruct (CH f0 t0 Hin) as [_ [_ [_ [A [B _]]]]]. split; auto. split; auto.
    specialize (HFL f0 t0 Hin). unfold hop_flag in HFL. apply orb_false_iff in HFL. destruct HFL as [PC _].
    apply negb_false_iff in PC. apply Nat.eqb_eq in PC. exact PC. }
  destruct (augment_xcaps nv c pi' rf LC _ _ _ _ _ _ _ _ _ _ _ G1 HH EA) as [AX AD]. split; [|exact AD].
  intros u v. rewrite (AX u v).
  destruct G1 as [_ [LRB1 _]].
  assert (NN : forall w t, capto t (nth w rb []) = capto t (nth w (m_rb st) [])).
  { intros w t. destruct (Nat.lt_ge_cases w nv) as [Lu|Lu].
    - rewrite (NRB w Lu). apply capto_map_keep; auto.
    - rewrite !nth_overflow by lia. auto. }
  unfold pnet. rewrite !NN. reflexivity.
Qed.

Section RunX.
Variable nv : nat.
Variable c : list (list (nat * Z)).
Hypothesis LC : length c = nv.

Theorem xcaps_iter : forall k st fl r fl', RunInv nv c st ->
  mcf_iter_f k st fl = (r, fl') -> fl' = false ->
  match r with
  | MDone st' | MMore st' => (forall u v, pnet (m_x st') (m_rb st') u v = pnet (m_x st) (m_rb st) u v) /\
                              (forall u, capto u (nth u (m_x st') []) = capto u (nth u (m_x st) []))
  | MFail => True
  end.
Proof.
  induction k as [|k IH]; intros st fl r fl' I; cbn [mcf_iter_f].
  - intros H F. injection H as <- <-. apply orb_false_iff in F. destruct F as [_ F2].
    destruct I as [LE [LD [LP [G [RA CO]]]]].
    destruct (mcf_step st) as [s1|s1|] eqn:ES; [| |exact Logic.I].
    + destruct (step_done _ _ ES) as [-> N]. auto.
    + apply (step_xcaps nv c st s1 LC LE LD LP G RA CO ES F2).
  - destruct (mcf_iter_f k st fl) as [r1 f1] eqn:E1. destruct r1 as [s1|s1|].
    + intros H F. injection H as <- <-. apply (IH st fl _ _ I E1 F).
    + intros H F. pose proof (flag_mono _ _ _ _ _ H F) as F1.
      pose proof (run_iter nv c LC k st fl (MMore s1) f1 I E1 F1) as I1.
      pose proof (IH st fl (MMore s1) f1 I E1 F1) as B1.
      pose proof (IH s1 f1 r fl' I1 H F) as B2.
      destruct r as [s2|s2|]; auto; destruct B1 as [P1 D1]; destruct B2 as [P2 D2];
        (split; [intros u v; rewrite P2; apply P1|intros u; rewrite D2; apply D1]).
    + intros H F. injection H as <- <-. exact Logic.I.
Qed.

Lemma capto_zero t l : (forall en, In en l -> snd en = 0) -> capto t l = 0.
Proof. intros H. unfold capto. apply zsum_map_zero. intros en Hen. rewrite (H en Hen). destruct (fst (fst en) =? t)%nat; auto. Qed.

Lemma mk_arcs_flows0 a : In a (mk_arcs c) -> a_fp a = 0 /\ a_fm a = 0.
Proof.
  unfold mk_arcs. intros H. apply in_concat in H. destruct H as [l [Hl Ha]].
  apply in_map_iff in Hl. destruct Hl as [fr [<- _]]. apply in_map_iff in Ha. destruct Ha as [tc [<- _]]. cbn. auto.
Qed.

(* x_caps_consistent: at Done of the flagged run with the flag clear, between any two nodes the x
   lists carry the net flow of the capacities *)
Theorem x_caps_consistent e st fl : length e = nv ->
  (forall l tc, In l c -> In tc l -> (fst tc < nv)%nat /\ 0 <= snd tc) ->
  mcf_iter_f ssp_levels (mcf_init e c) false = (MDone st, fl) -> fl = false ->
  (forall u v, capto v (nth u (m_x st) []) - capto u (nth v (m_x st) []) =
               capto u (nth v (m_rb st) []) - capto v (nth u (m_rb st) [])) /\
  (forall u, capto u (nth u (m_x st) []) = 0).
Proof.
  intros LE GC H F.
  pose proof (run_init nv c LC e LE GC) as I0.
  pose proof (xcaps_iter ssp_levels _ _ _ _ I0 H F) as [B BD].
  assert (ZX : forall w t, capto t (nth w (m_x (mcf_init e c)) []) = 0).
  { intros w t. apply capto_zero. intros en Hen. unfold mcf_init in Hen. cbn [m_x] in Hen. unfold x_of in Hen.
    destruct (Nat.lt_ge_cases w (length e)) as [L|L];
      [|rewrite nth_overflow in Hen by (rewrite map_length, seq_length; auto); destruct Hen].
    rewrite (nth_indep _ [] ((fun v0 => flat_map (fun a => (if (a_from a =? v0)%nat then [(a_to a, a_cost a, a_fp a)] else []) ++
                (if (a_to a =? v0)%nat then [(a_from a, - a_cost a, a_fm a)] else [])) (mk_arcs c)) O)) in Hen by (rewrite map_length, seq_length; auto).
    rewrite (map_nth (fun v0 => flat_map (fun a => (if (a_from a =? v0)%nat then [(a_to a, a_cost a, a_fp a)] else []) ++
                (if (a_to a =? v0)%nat then [(a_from a, - a_cost a, a_fm a)] else [])) (mk_arcs c))) in Hen.
    apply in_flat_map in Hen. destruct Hen as [a [Ha Hin]]. destruct (mk_arcs_flows0 a Ha) as [P M].
    apply in_app_or in Hin. destruct Hin as [Hin|Hin].
    - destruct (a_from a =? _)%nat; [|destruct Hin]. destruct Hin as [<-|[]]. exact P.
    - destruct (a_to a =? _)%nat; [|destruct Hin]. destruct Hin as [<-|[]]. exact M. }
  assert (ZR : forall w t, capto t (nth w (m_rb (mcf_init e c)) []) = 0).
  { intros w t. apply capto_zero. intros en Hen. unfold mcf_init in Hen. cbn [m_rb] in Hen.
    destruct (Nat.lt_ge_cases w (length e)) as [L|L];
      [|rewrite nth_overflow in Hen by (rewrite map_length, seq_length; auto); destruct Hen].
    rewrite (nth_indep _ [] ((fun v0 => flat_map (fun a => if (a_to a =? v0)%nat then [(a_from a, - a_cost a, 0)] else []) (mk_arcs c)) O)) in Hen by (rewrite map_length, seq_length; auto).
    rewrite (map_nth (fun v0 => flat_map (fun a => if (a_to a =? v0)%nat then [(a_from a, - a_cost a, 0)] else []) (mk_arcs c))) in Hen.
    apply in_flat_map in Hen. destruct Hen as [a [_ Hin]]. destruct (a_to a =? _)%nat; [|destruct Hin]. destruct Hin as [<-|[]]. reflexivity. }
  split.
  - intros u v. specialize (B u v). unfold pnet in B. rewrite !ZX, !ZR in B. lia.
  - intros u. rewrite BD. apply ZX.
Qed.
End RunX.

(* ---------------------------------------------------------------- the skeleton of x never changes *)
Definition skel_x (x : list (list (nat * Z * Z))) : list (list (nat * Z)) := map (map (fun en => fst en)) x.

Lemma upd_first_x_skel t g : forall l l', upd_first_x l t g = Some l' -> map (fun en => fst en) l' = map (fun en => fst en) l.
Proof.
  induction l as [|en l IH]; intros l'; cbn [upd_first_x]; [discriminate|].
  destruct (fst (fst en) =? t)%nat.
  - intros H. injection H as <-. reflexivity.
  - destruct (upd_first_x l t g) as [r'|]; [|discriminate]. intros H. injection H as <-. cbn [map]. rewrite (IH r' eq_refl). reflexivity.
Qed.

Lemma skel_upd : forall x from xf, map (fun en : nat * Z * Z => fst en) xf = map (fun en => fst en) (nth from x []) ->
  skel_x (upd x from (fun _ => xf)) = skel_x x.
Proof.
  unfold skel_x. induction x as [|row x IH]; intros from xf H; [destruct from; reflexivity|].
  destruct from as [|from]; cbn [upd map nth] in *; [rewrite H; reflexivity|]. rewrite (IH from xf H). reflexivity.
Qed.

Lemma augment_skel : forall fuel prev k to dl e x rb e' x' rb',
  augment fuel prev k to dl e x rb = Some (e', x', rb') -> skel_x x' = skel_x x.
Proof.
  induction fuel as [|f IH]; intros prev k to dl e x rb e' x' rb'; cbn [augment]; [discriminate|].
  destruct (upd_first_x (nth (nth to prev O) x []) to (fun fl => fl + dl)) as [xf|] eqn:UX; [|discriminate]. cbn [bind].
  pose proof (skel_upd x (nth to prev O) xf (upd_first_x_skel _ _ _ _ UX)) as S1.
  destruct (nth to prev O =? k)%nat.
  - intros X. injection X as _ <- _. exact S1.
  - intros X. rewrite (IH _ _ _ _ _ _ _ _ _ _ X). exact S1.
Qed.

Lemma step_skel st : match mcf_step st with MDone st' | MMore st' => skel_x (m_x st') = skel_x (m_x st) | MFail => True end.
Proof.
  unfold mcf_step. destruct (pick_supply (m_e st) 0 0 0) as [ms k].
  destruct (ms =? 0); [reflexivity|].
  destruct (compute_shortest_path _ _ _ _ _ _ _) as [[[[[d prev] rf] rb] l]|]; [|exact Logic.I].
  destruct (l =? k)%nat; [exact Logic.I|]. destruct (scan_delta _ _ _ _ _ _); [|exact Logic.I].
  destruct (augment _ _ _ _ _ _ _ _) as [[[e' x'] rb']|] eqn:EA; [|exact Logic.I].
  cbn [m_x]. eapply augment_skel; eauto.
Qed.

Lemma iter_skel : forall k st fl,
  match fst (mcf_iter_f k st fl) with MDone st' | MMore st' => skel_x (m_x st') = skel_x (m_x st) | MFail => True end.
Proof.
  induction k as [|k IH]; intros st fl; cbn [mcf_iter_f]; [cbn [fst]; apply step_skel|].
  pose proof (IH st fl) as H1. destruct (mcf_iter_f k st fl) as [r1 f1]. cbn [fst] in H1.
  destruct r1 as [s1|s1|]; cbn [fst]; auto.
  pose proof (IH s1 f1) as H2. destruct (fst (mcf_iter_f k s1 f1)); auto; rewrite H2; exact H1.
Qed.

(* consequences at any reached state: x has one list per node and every entry points inside the graph *)
Lemma skel_facts nv c e x : length c = nv -> length e = nv ->
  (forall l tc, In l c -> In tc l -> (fst tc < nv)%nat /\ 0 <= snd tc) ->
  skel_x x = skel_x (m_x (mcf_init e c)) ->
  length x = nv /\ forall u en, In en (nth u x []) -> (fst (fst en) < nv)%nat.
Proof.
  intros LC LE GC S. split.
  - assert (L : length (skel_x x) = length (skel_x (m_x (mcf_init e c)))) by (rewrite S; auto).
    unfold skel_x, mcf_init, x_of in L. cbn [m_x] in L. rewrite !map_length, seq_length in L. lia.
  - intros u en Hen.
    assert (Hs : In (fst en) (nth u (skel_x x) [])).
    { unfold skel_x. change (@nil (nat * Z)) with (map (fun en0 : nat * Z * Z => fst en0) []). rewrite map_nth. apply in_map. exact Hen. }
    rewrite S in Hs. unfold skel_x in Hs. change (@nil (nat * Z)) with (map (fun en0 : nat * Z * Z => fst en0) []) in Hs.
    rewrite map_nth in Hs. apply in_map_iff in Hs. destruct Hs as [en0 [E0 Hin]]. rewrite <- E0.
    unfold mcf_init, x_of in Hin. cbn [m_x] in Hin.
    destruct (Nat.lt_ge_cases u (length e)) as [L|L];
      [|rewrite nth_overflow in Hin by (rewrite map_length, seq_length; auto); destruct Hin].
    rewrite (nth_indep _ [] ((fun v0 => flat_map (fun a => (if (a_from a =? v0)%nat then [(a_to a, a_cost a, a_fp a)] else []) ++
                (if (a_to a =? v0)%nat then [(a_from a, - a_cost a, a_fm a)] else [])) (mk_arcs c)) O)) in Hin by (rewrite map_length, seq_length; auto).
    rewrite (map_nth (fun v0 => flat_map (fun a => (if (a_from a =? v0)%nat then [(a_to a, a_cost a, a_fp a)] else []) ++
                (if (a_to a =? v0)%nat then [(a_from a, - a_cost a, a_fm a)] else [])) (mk_arcs c))) in Hin.
    apply in_flat_map in Hin. destruct Hin as [a [Ha Hin]].
    destruct (Proofs.EmdIndex.arcs_wf nv c LC GC a Ha) as [Af [At _]].
    apply in_app_or in Hin. destruct Hin as [Hin|Hin].
    + destruct (a_from a =? _)%nat; [|destruct Hin]. destruct Hin as [<-|[]]. cbn. exact At.
    + destruct (a_to a =? _)%nat; [|destruct Hin]. destruct Hin as [<-|[]]. cbn. exact Af.
Qed.
