(* C03: dijkstra_optimal_full64 with the binary64 facts discharged (Proofs/PropFloatFacts.v). *)
From Coq Require Import ZArith List Bool Lia.
From Coq Require PrimFloat.
From Centro Require Import Base.PropFloat Model.PropHeap Model.Propagate Spec.PropCheck Proofs.PropDijkstra Proofs.PropOptimal
     Proofs.PropFloatFacts.
Import ListNotations.
Open Scope Z_scope.

Theorem dijkstra_optimal_full64 : forall image labels mask m n weight lo d,
  shape labels m n ->
  (forall v, inr m n v -> 0 <= labv labels v) ->
  (forall u v, inr m n u -> inr m n v -> adj8 u v -> okF (stepF image m n weight u v)) ->
  propagate Full64 image labels mask m n weight = Some (lo, d) ->
  forall v, inr m n v -> labv labels v = 0 ->
    let dv := get2 PrimFloat.zero d (fst v) (snd v) in
    (forall x l, reachL image mask m n weight labels v x l -> okF dv /\ bitsD dv <= bitsD x) /\
    (okF dv -> exists x, bitsD x = bitsD dv /\ reachL image mask m n weight labels v x (get2 0 lo (fst v) (snd v))) /\
    (dv = neg_one \/ okF dv).
Proof.
  intros image labels mask m n weight lo d Hsh Hnn Hw HP v Hv Hl.
  exact (dijkstra_optimal_full64_sec image mask m n weight labels
           ltb_bits eqb_neg_one_false add_ge_r
           (fun s x y Hs Hx Hy H => proj2 (proj2 (add_mono_r s x y Hs Hx Hy H)))
           Hw Hnn Hsh lo d HP v Hv Hl).
Qed.


(* the input hypotheses are satisfiable: a 1x2 image (0, 1), weight 1 - every step cost is a non-negative double *)
Example optimal_example :
  let image := map (map float_of_bits) [[0; 4607182418800017408]] in
  shape [[1; 0]] 1 2 /\
  (forall u v, inr 1 2 u -> inr 1 2 v -> adj8 u v -> okF (stepF image 1 2 PrimFloat.one u v)).
Proof.
  cbn zeta. split; [split; [reflexivity | repeat constructor]|].
  intros [a b] [c d] [Ha Hb] [Hc Hd] _. cbn [fst snd] in *.
  assert (a = 0) by lia. assert (c = 0) by lia. subst a c.
  assert (Eb : b = 0 \/ b = 1) by lia. assert (Ed : d = 0 \/ d = 1) by lia.
  destruct Eb as [-> | ->], Ed as [-> | ->]; unfold okF, ok64; vm_compute; split; discriminate.
Qed.
