(* C03: the optimality theorem of Proofs/PropOptimal.v instantiated
   (a) with the Full64 key: every input,
   (b) with the key as written (Dropped): every input on which the dropped mantissa bit is 0 for the
       cost of every mask path of at most m*n steps from a masked seed - there the key reflects order
       and the loop is optimal; finding F7 lives exactly outside this class.
   The binary64 facts are discharged in Proofs/PropFloatFacts.v, the step-cost hypothesis in
   Proofs/PropStepCost.v. *)
From Coq Require Import ZArith List Bool Lia.
From Coq Require PrimFloat.
From Centro Require Import Base.PropFloat Model.PropHeap Model.Propagate Spec.PropCheck Proofs.PropKey Proofs.PropHeapKey
     Proofs.PropDijkstra Proofs.PropOptimal Proofs.PropFloatFacts Proofs.PropStepCost.
Import ListNotations.
Open Scope Z_scope.
Ltac Zify.zify_post_hook ::= Z.to_euclidean_division_equations.

Lemma hkey_mkrow : forall k b l v, ok64 b ->
  hkey (mkrow k b l v) = (b / two32, match k with Dropped => (b mod two32) / 2 | Full64 => b mod two32 end).
Proof.
  intros k b l v [H0 H1]. unfold hkey, mkrow, most_sig, least_sig, bits_inf, two32, two31 in *. cbn [nth].
  assert (E : (b / 4294967296 >=? 2147483648) = false) by lia. rewrite E. destruct k; reflexivity.
Qed.

Lemma K_le_full64 : forall a b l l' v v', ok64 a -> ok64 b -> True -> True ->
  (le_key (mkrow Full64 a l v) (mkrow Full64 b l' v') <-> a <= b).
Proof.
  intros a b l l' v v' Ha Hb _ _. unfold le_key. rewrite (hkey_mkrow Full64 a l v Ha), (hkey_mkrow Full64 b l' v' Hb).
  unfold lexle2, ok64, bits_inf, two32 in *. cbn [fst snd]. lia.
Qed.

Definition low_bit_zero (b : Z) : Prop := b mod 2 = 0.

Lemma K_le_dropped : forall a b l l' v v', ok64 a -> ok64 b -> low_bit_zero a -> low_bit_zero b ->
  (le_key (mkrow Dropped a l v) (mkrow Dropped b l' v') <-> a <= b).
Proof.
  intros a b l l' v v' Ha Hb Ea Eb. unfold le_key. rewrite (hkey_mkrow Dropped a l v Ha), (hkey_mkrow Dropped b l' v' Hb).
  unfold lexle2, ok64, bits_inf, two32, low_bit_zero in *. cbn [fst snd]. lia.
Qed.

Definition steps_ok (image : list (list float)) (m n : Z) (weight : float) : Prop :=
  forall u v, inr m n u -> inr m n v -> adj8 u v -> okF (stepF image m n weight u v).

Definition optimal_at (image : list (list float)) (labels : list (list Z)) (mask : list (list bool)) (m n : Z)
           (weight : float) (lo : list (list Z)) (d : list (list float)) (v : Z * Z) : Prop :=
  let dv := get2 PrimFloat.zero d (fst v) (snd v) in
  (forall x l k, reachL image mask m n weight labels v x l k -> okF dv /\ bitsD dv <= bitsD x) /\
  (okF dv -> exists x k, bitsD x = bitsD dv /\ reachL image mask m n weight labels v x (get2 0 lo (fst v) (snd v)) k) /\
  (dv = neg_one \/ okF dv).

Theorem dijkstra_optimal_full64_steps : forall image labels mask m n weight lo d,
  shape labels m n -> (forall v, inr m n v -> 0 <= labv labels v) -> steps_ok image m n weight ->
  propagate Full64 image labels mask m n weight = Some (lo, d) ->
  forall v, inr m n v -> labv labels v = 0 -> optimal_at image labels mask m n weight lo d v.
Proof.
  intros image labels mask m n weight lo d Hsh Hnn Hw HP v Hv Hl.
  exact (dijkstra_optimal_sec image mask m n weight labels Full64 (fun _ => True)
           ltb_bits eqb_neg_one_false add_ge_r
           (fun s x y Hs Hx Hy H => proj2 (proj2 (add_mono_r s x y Hs Hx Hy H)))
           Hw Hnn Hsh K_le_full64 I (fun _ _ _ _ _ _ => I) lo d HP v Hv Hl).
Qed.

Theorem dijkstra_optimal_dropped_steps : forall image labels mask m n weight lo d,
  shape labels m n -> (forall v, inr m n v -> 0 <= labv labels v) -> steps_ok image m n weight ->
  (forall v x l k, reachL image mask m n weight labels v x l k -> (k <= Z.to_nat m * Z.to_nat n)%nat ->
                   low_bit_zero (bitsD x)) ->
  propagate Dropped image labels mask m n weight = Some (lo, d) ->
  forall v, inr m n v -> labv labels v = 0 -> optimal_at image labels mask m n weight lo d v.
Proof.
  intros image labels mask m n weight lo d Hsh Hnn Hw HE HP v Hv Hl.
  exact (dijkstra_optimal_sec image mask m n weight labels Dropped low_bit_zero
           ltb_bits eqb_neg_one_false add_ge_r
           (fun s x y Hs Hx Hy H => proj2 (proj2 (add_mono_r s x y Hs Hx Hy H)))
           Hw Hnn Hsh K_le_dropped eq_refl HE lo d HP v Hv Hl).
Qed.

(* ---------- the step-cost hypothesis follows from finiteness of the inputs ---------- *)
Lemma steps_ok_finite : forall image m n weight, Forall (Forall finF) image -> finF weight -> steps_ok image m n weight.
Proof.
  intros image m n weight Hi Hw u v _ _ [o [Ho ->]]. unfold stepF. cbn [fst snd].
  apply step_cost_ok; [exact Hi | exact Hw|].
  unfold offsets8 in Ho. cbn [In] in Ho.
  repeat (destruct Ho as [Ho|Ho]; [subst o; cbn [fst snd]; lia|]). destruct Ho.
Qed.

(* every finite input: the Full64-key loop is optimal *)
Theorem dijkstra_optimal_full64 : forall image labels mask m n weight lo d,
  shape labels m n -> (forall v, inr m n v -> 0 <= labv labels v) ->
  Forall (Forall finF) image -> finF weight ->
  propagate Full64 image labels mask m n weight = Some (lo, d) ->
  forall v, inr m n v -> labv labels v = 0 -> optimal_at image labels mask m n weight lo d v.
Proof.
  intros image labels mask m n weight lo d Hsh Hnn Hi Hw. apply dijkstra_optimal_full64_steps; try assumption.
  apply steps_ok_finite; assumption.
Qed.

(* every finite input on which the dropped bit is 0 for the cost of every mask path of at most m*n steps:
   the loop as written is optimal *)
Theorem dijkstra_optimal_dropped_when_key_reflects : forall image labels mask m n weight lo d,
  shape labels m n -> (forall v, inr m n v -> 0 <= labv labels v) ->
  Forall (Forall finF) image -> finF weight ->
  (forall v x l k, reachL image mask m n weight labels v x l k -> (k <= Z.to_nat m * Z.to_nat n)%nat ->
                   low_bit_zero (bitsD x)) ->
  propagate Dropped image labels mask m n weight = Some (lo, d) ->
  forall v, inr m n v -> labv labels v = 0 -> optimal_at image labels mask m n weight lo d v.
Proof.
  intros image labels mask m n weight lo d Hsh Hnn Hi Hw. apply dijkstra_optimal_dropped_steps; try assumption.
  apply steps_ok_finite; assumption.
Qed.

(* the hypotheses are satisfiable on a non-trivial input: image (0 1), seed at (0,0), weight 0: every step costs
   3.0, the paths of at most 2 steps cost 0, 3, 6 - all with dropped bit 0 *)
Example dropped_reflects_example :
  let image := map (map float_of_bits) [[0; 4607182418800017408]] in
  let labels := [[1; 0]] in let mask := [[true; true]] in
  shape labels 1 2 /\ Forall (Forall finF) image /\ finF PrimFloat.zero /\
  (forall v x l k, reachL image mask 1 2 PrimFloat.zero labels v x l k -> (k <= Z.to_nat 1 * Z.to_nat 2)%nat ->
                   low_bit_zero (bitsD x)).
Proof.
  cbn zeta. split; [split; [reflexivity | repeat constructor]|]. split; [repeat constructor|]. split; [reflexivity|].
  set (image := map (map float_of_bits) [[0; 4607182418800017408]]).
  assert (Hstep : forall u v, inr 1 2 u -> inr 1 2 v -> adj8 u v ->
            stepF image 1 2 PrimFloat.zero u v = float_of_bits 4613937818241073152).
  { intros [a b] [c d] [Ha Hb] [Hc Hd] [o [Ho Ev]]. cbn [fst snd] in *. inversion Ev. subst c d.
    assert (a = 0) by lia. subst a.
    assert (Eb : b = 0 \/ b = 1) by lia.
    unfold offsets8 in Ho. cbn [In] in Ho.
    repeat (destruct Ho as [Ho|Ho]; [subst o; cbn [fst snd] in *; destruct Eb as [-> | ->]; try lia; vm_compute; reflexivity|]).
    destruct Ho. }
  assert (Hc : forall v x l k, reachL image [[true; true]] 1 2 PrimFloat.zero [[1; 0]] v x l k ->
            inr 1 2 v /\ x = Nat.iter k (PrimFloat.add (float_of_bits 4613937818241073152)) PrimFloat.zero).
  { induction 1 as [s Hi Hl Hm | u v x l k H IH Ha Hi Hm].
    - split; [exact Hi | reflexivity].
    - destruct IH as [Hu ->]. split; [exact Hi|]. rewrite (Hstep u v Hu Hi Ha). reflexivity. }
  intros v x l k H Hk. destruct (Hc v x l k H) as [_ ->].
  change (Z.to_nat 1 * Z.to_nat 2)%nat with 2%nat in Hk.
  destruct k as [|[|[|k]]]; [vm_compute; reflexivity | vm_compute; reflexivity | vm_compute; reflexivity | lia].
Qed.
