(* C09 — the determinant of det_n as written is alternating in its rows; Laplace expansion along
   any row; expansion with the cofactors of another row vanishes. *)
From Coq Require Import ZArith List Bool Lia Arith QArith Qcanon Permutation.
From Centro Require Import Model.Kalman Proofs.KalmanArith Proofs.KalmanLists Proofs.KalmanParity
  Proofs.KalmanDetBase Proofs.KalmanDetRow.
Import ListNotations.
Open Scope Qc_scope.

(* ------------------------------------------------------------------ sums over an involution *)
Lemma NoDup_map_in {A B} (f : A -> B) l : (forall x y, In x l -> In y l -> f x = f y -> x = y) -> NoDup l -> NoDup (map f l).
Proof.
  induction l as [|a l IH]; intros Hinj Hn; [constructor|]. inversion Hn as [|? ? Hna Hnl]; subst. cbn [map]. constructor.
  - intros Hin. apply in_map_iff in Hin. destruct Hin as [x [E Hx]]. apply Hna.
    rewrite <- (Hinj x a (or_intror Hx) (or_introl eq_refl) E). exact Hx.
  - apply IH; [|exact Hnl]. intros x y Hx Hy. apply Hinj; right; assumption.
Qed.

Lemma bigsum_involution {A} (f : A -> A) (g : A -> Qc) L : NoDup L -> (forall x, In x L -> In (f x) L) ->
  (forall x, In x L -> f (f x) = x) -> bigsum (fun x => g (f x)) L = bigsum g L.
Proof.
  intros Hn Hc Hi. rewrite <- (bigsum_map f g). apply bigsum_perm. apply NoDup_Permutation; [|exact Hn|].
  - apply NoDup_map_in; [|exact Hn]. intros x y Hx Hy E. rewrite <- (Hi x Hx), <- (Hi y Hy), E. reflexivity.
  - intros y. split.
    + intros Hy. apply in_map_iff in Hy. destruct Hy as [x [<- Hx]]. apply Hc. exact Hx.
    + intros Hy. apply in_map_iff. exists (f y). split; [apply Hi; exact Hy|apply Hc; exact Hy].
Qed.

(* ------------------------------------------------------------------ adjacent transposition *)
Definition tau (i a : nat) : nat := if Nat.eqb a i then S i else if Nat.eqb a (S i) then i else a.
Fixpoint swapl (i : nat) (p : list nat) : list nat :=
  match i, p with
  | O, a :: b :: t => b :: a :: t
  | S i', a :: t => a :: swapl i' t
  | _, _ => p
  end.

Lemma tau_invol i a : tau i (tau i a) = a.
Proof. unfold tau. destruct (Nat.eqb_spec a i), (Nat.eqb_spec a (S i)); subst;
  repeat match goal with |- context [Nat.eqb ?x ?y] => destruct (Nat.eqb_spec x y) end; lia. Qed.
Lemma tau_lt i n a : (S i < n)%nat -> (a < n)%nat -> (tau i a < n)%nat.
Proof. unfold tau. destruct (Nat.eqb_spec a i), (Nat.eqb_spec a (S i)); lia. Qed.
Lemma tau_S i a : tau (S i) (S a) = S (tau i a).
Proof. unfold tau. cbn [Nat.eqb]. destruct (Nat.eqb a i), (Nat.eqb a (S i)); reflexivity. Qed.
Lemma tau_S_0 i : tau (S i) 0 = O.
Proof. reflexivity. Qed.

Lemma swapl_invol i : forall p, swapl i (swapl i p) = p.
Proof. induction i as [|i IH]; intros [|a [|b t]]; cbn [swapl]; try reflexivity; f_equal; apply IH. Qed.
Lemma swapl_perm i : forall p, Permutation (swapl i p) p.
Proof.
  induction i as [|i IH]; intros [|a [|b t]]; cbn [swapl]; try apply Permutation_refl; try apply perm_swap.
  - constructor. apply IH.
  - constructor. apply IH.
Qed.
Lemma swapl_nth i : forall p a, (S i < length p)%nat -> nth a (swapl i p) O = nth (tau i a) p O.
Proof.
  induction i as [|i IH]; intros p a H.
  - destruct p as [|x [|y t]]; cbn [length] in H; try lia. cbn [swapl]. destruct a as [|[|a]]; reflexivity.
  - destruct p as [|x t]; cbn [length] in H; try lia. cbn [swapl]. destruct a as [|a].
    + reflexivity.
    + rewrite tau_S. cbn [nth]. apply IH. lia.
Qed.
Lemma swapl_split i : forall l1 a b l2, length l1 = i -> swapl i (l1 ++ a :: b :: l2) = l1 ++ b :: a :: l2.
Proof.
  induction i as [|i IH]; intros [|x l1] a b l2 H; cbn [length] in H; try discriminate; [reflexivity|].
  cbn [app swapl]. f_equal. apply IH. lia.
Qed.
Lemma split_at i : forall p : list nat, (S i < length p)%nat ->
  exists l1 a b l2, p = l1 ++ a :: b :: l2 /\ length l1 = i.
Proof.
  induction i as [|i IH]; intros p H.
  - destruct p as [|a [|b t]]; cbn [length] in H; try lia. exists [], a, b, t. split; reflexivity.
  - destruct p as [|x t]; cbn [length] in H; try lia. destruct (IH t) as [l1 [a [b [l2 [-> L]]]]]; [lia|].
    exists (x :: l1), a, b, l2. split; [reflexivity|cbn [length]; lia].
Qed.
Lemma swapl_parity i p : (S i < length p)%nat -> NoDup p -> parity (swapl i p) = - parity p.
Proof.
  intros H Hn. destruct (split_at i p H) as [l1 [a [b [l2 [-> L]]]]]. rewrite swapl_split by exact L.
  apply parity_adjacent_swap. apply NoDup_remove_2 in Hn. intros ->. apply Hn. apply in_or_app. right. left. reflexivity.
Qed.

Lemma perm_seq_facts n p : Permutation p (seq 0 n) -> length p = n /\ NoDup p /\ forall a, (a < n)%nat -> (nth a p O < n)%nat.
Proof.
  intros H. assert (L : length p = n) by (rewrite (Permutation_length H); apply seq_length).
  split; [exact L|]. split; [eapply Permutation_NoDup; [apply Permutation_sym; exact H|apply seq_NoDup]|].
  intros a Ha. assert (Hin : In (nth a p O) (seq 0 n)) by (eapply Permutation_in; [exact H|apply nth_In; lia]).
  apply in_seq in Hin. lia.
Qed.

Lemma map_tau_seq i n : (S i < n)%nat -> Permutation (map (tau i) (seq 0 n)) (seq 0 n).
Proof.
  intros H. apply NoDup_Permutation; [|apply seq_NoDup|].
  - apply NoDup_map_in; [|apply seq_NoDup]. intros x y _ _ E. rewrite <- (tau_invol i x), <- (tau_invol i y), E. reflexivity.
  - intros y. rewrite in_map_iff. split.
    + intros [x [<- Hx]]. apply in_seq in Hx. apply in_seq. pose proof (tau_lt i n x H). lia.
    + intros Hy. apply in_seq in Hy. exists (tau i y). split; [apply tau_invol|]. apply in_seq. pose proof (tau_lt i n y H). lia.
Qed.

Lemma ldet_ext n (M M' : fmat) : (forall a b, (a < n)%nat -> (b < n)%nat -> M a b = M' a b) -> ldet n M = ldet n M'.
Proof.
  intros H. unfold ldet. apply bigsum_ext_in. intros p Hp. apply perm_of_seq in Hp.
  destruct (perm_seq_facts n p Hp) as [L [_ Hr]]. unfold lterm. f_equal. apply bigprod_ext_in. intros a Ha.
  apply in_seq in Ha. apply H; [lia|apply Hr; lia].
Qed.

(* swapping two adjacent rows changes the sign *)
Theorem ldet_swap_rows i n (M : fmat) : (S i < n)%nat -> ldet n (fun a b => M (tau i a) b) = - ldet n M.
Proof.
  intros H. unfold ldet. rewrite bigsum_opp.
  rewrite <- (bigsum_involution (swapl i) (fun p => - lterm n M p) (permutations (seq 0 n))).
  - apply bigsum_ext_in. intros p Hp. apply perm_of_seq in Hp. destruct (perm_seq_facts n p Hp) as [L [Hn _]].
    unfold lterm. rewrite (swapl_parity i p) by (lia || exact Hn).
    assert (E : bigprod (fun a => M (tau i a) (nth a p O)) (seq 0 n) = bigprod (fun a => M a (nth a (swapl i p) O)) (seq 0 n)).
    { rewrite <- (bigprod_perm _ _ _ (map_tau_seq i n H)), bigprod_map. apply bigprod_ext_in. intros a Ha.
      rewrite swapl_nth by lia. rewrite tau_invol. reflexivity. }
    rewrite E. ring.
  - rewrite permutations_seq. apply perms_NoDup; [apply seq_length|apply seq_NoDup].
  - intros p Hp. apply perm_of_seq. apply perm_of_seq in Hp. eapply Permutation_trans; [apply swapl_perm|exact Hp].
  - intros p _. apply swapl_invol.
Qed.

(* ------------------------------------------------------------------ equal rows *)
Lemma Qc_eq_opp_zero (x : Qc) : x = - x -> x = 0.
Proof.
  intros H. assert (E0 : x + x = 0) by (rewrite H at 1; ring).
  assert (E : (1 + 1) * x = 0) by (rewrite <- E0; ring).
  apply Qcmult_integral in E. destruct E as [E|E]; [|exact E].
  exfalso. apply (f_equal this) in E. vm_compute in E. discriminate.
Qed.

Lemma tau_other i a : a <> i -> a <> S i -> tau i a = a.
Proof. intros H1 H2. unfold tau. destruct (Nat.eqb_spec a i), (Nat.eqb_spec a (S i)); lia. Qed.
Lemma tau_i i : tau i i = S i.
Proof. unfold tau. rewrite Nat.eqb_refl. reflexivity. Qed.
Lemma tau_Si i : tau i (S i) = i.
Proof. unfold tau. rewrite Nat.eqb_refl. destruct (Nat.eqb_spec (S i) i); [lia|reflexivity]. Qed.

Theorem ldet_eq_rows n : forall d i (M : fmat), (i + S d < n)%nat -> (forall b, M i b = M (i + S d)%nat b) -> ldet n M = 0.
Proof.
  induction d as [|d IH]; intros i M H E.
  - apply Qc_eq_opp_zero. rewrite <- (ldet_swap_rows i n M) by lia. apply ldet_ext. intros a b _ _.
    unfold tau. destruct (Nat.eqb_spec a i) as [->|N1]; [rewrite E; f_equal; lia|].
    destruct (Nat.eqb_spec a (S i)) as [->|N2]; [rewrite E; f_equal; lia|reflexivity].
  - assert (Z : ldet n (fun a b => M (tau (i + S d) a) b) = 0).
    { apply (IH i); [lia|]. intros b. rewrite (tau_other (i + S d) i) by lia. rewrite tau_i. rewrite E. f_equal. lia. }
    rewrite ldet_swap_rows in Z by lia. rewrite <- (Qcopp_involutive (ldet n M)), Z. ring.
Qed.

(* ------------------------------------------------------------------ Laplace expansion along any row *)
Lemma sgn_S k : sgn (S k) = - sgn k.
Proof. apply sign_of_flip. Qed.

Theorem ldet_row n : forall k (M : fmat), (k <= n)%nat ->
  ldet (S n) M = bigsum (fun j => M k j * sgn (k + j) * ldet n (minor M k j)) (seq 0 (S n)).
Proof.
  induction k as [|k IH]; intros M H; [apply ldet_row0|].
  rewrite <- (Qcopp_involutive (ldet (S n) M)), <- (ldet_swap_rows k (S n) M) by lia.
  rewrite (IH (fun a b => M (tau k a) b)) by lia. rewrite bigsum_opp. apply bigsum_ext_in. intros j _.
  rewrite tau_i. change (S k + j)%nat with (S (k + j)). rewrite sgn_S.
  assert (Em : ldet n (minor (fun a b => M (tau k a) b) k j) = ldet n (minor M (S k) j)).
  { apply ldet_ext. intros a b _ _. unfold minor. f_equal. unfold skip, tau.
    destruct (Nat.ltb_spec a k), (Nat.ltb_spec a (S k));
      repeat match goal with |- context [Nat.eqb ?x ?y] => destruct (Nat.eqb_spec x y) end; lia. }
  rewrite Em. ring.
Qed.

(* the cofactors of row k against another row i *)
Theorem ldet_alien n k i (M : fmat) : (k <= n)%nat -> (i <= n)%nat -> i <> k ->
  bigsum (fun j => M i j * sgn (k + j) * ldet n (minor M k j)) (seq 0 (S n)) = 0.
Proof.
  intros Hk Hi Hne. set (B := fun a b => if Nat.eqb a k then M i b else M a b).
  assert (EB : ldet (S n) B = bigsum (fun j => M i j * sgn (k + j) * ldet n (minor M k j)) (seq 0 (S n))).
  { rewrite (ldet_row n k B Hk). apply bigsum_ext_in. intros j _. unfold B at 1. rewrite Nat.eqb_refl. f_equal.
    apply ldet_ext. intros a b _ _. unfold minor, B. destruct (Nat.eqb_spec (skip k a) k) as [E|_]; [|reflexivity].
    exfalso. unfold skip in E. destruct (Nat.ltb_spec a k); lia. }
  rewrite <- EB. destruct (Nat.lt_ge_cases i k) as [L|L].
  - apply (ldet_eq_rows (S n) (k - i - 1) i B); [lia|]. intros b. unfold B.
    replace (i + S (k - i - 1))%nat with k by lia. rewrite Nat.eqb_refl. destruct (Nat.eqb_spec i k); [lia|reflexivity].
  - apply (ldet_eq_rows (S n) (i - k - 1) k B); [lia|]. intros b. unfold B.
    replace (k + S (i - k - 1))%nat with i by lia. rewrite Nat.eqb_refl. destruct (Nat.eqb_spec i k); [lia|reflexivity].
Qed.
