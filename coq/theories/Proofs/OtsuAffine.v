(* C11 — the two-class Otsu cut of Model.OtsuQ commutes with positive affine rescaling of its data:
   otsu (a x + b) == a otsu x + b for integers a > 0, b (data are dyadic intensities scaled to
   integers, so integer maps cover every dyadic affine map).  Core: the Welford recurrences of
   running_variance scale by a^2 ([rv_aux_affine]); hence all scores scale by a^2, the first arg-min is
   the same index, and the cut is the mean of the images of the same two data values. *)
From Coq Require Import ZArith QArith List Bool Lia Lqa Qfield.
From Centro Require Import Base.Sx Base.ThresholdNum Model.OtsuQ.
Import ListNotations.
Open Scope Q_scope.

Section Affine.
  Variables a b : Z.
  Hypothesis a_pos : (0 < a)%Z.
  Definition f (x : Z) : Z := (a * x + b)%Z.
  Definition A : Q := inject_Z a.
  Definition A2 : Q := A * A.
  Definition sc (s' s : Q) : Prop := s' == A2 * s.

  Lemma inj_pos z : (0 < z)%Z -> 0 < inject_Z z.
  Proof. intros H. unfold Qlt. cbn. lia. Qed.
  Lemma A_pos : 0 < A.
  Proof. apply inj_pos. exact a_pos. Qed.
  Lemma A2_pos : 0 < A2.
  Proof. unfold A2. pose proof A_pos. nra. Qed.

  Lemma Qmake_pos n i : (0 < i)%Z -> Qmake n (Z.to_pos i) == inject_Z n / inject_Z i.
  Proof.
    intros Hi. rewrite (Qmake_Qdiv n (Z.to_pos i)). rewrite Z2Pos.id by exact Hi. reflexivity.
  Qed.
  Lemma inj_f x : inject_Z (f x) == A * inject_Z x + inject_Z b.
  Proof. unfold f, A. rewrite inject_Z_plus, inject_Z_mult. reflexivity. Qed.

  (* ---------------------------------------------------------------- running variance *)
  Lemma rv_aux_affine l : forall i c s s', (0 < i)%Z -> sc s' s ->
    Forall2 sc (rv_aux i (a * c + i * b)%Z s' (map f l)) (rv_aux i c s l).
  Proof.
    induction l as [|x r IH]; intros i c s s' Hi Hs; cbn [map rv_aux]; [constructor|].
    assert (Hi1 : (0 < i + 1)%Z) by lia.
    assert (Hq : 0 < inject_Z i) by (apply inj_pos; exact Hi).
    assert (Hq1 : 0 < inject_Z (i + 1)) by (apply inj_pos; exact Hi1).
    assert (Hstep : sc (Qred (s' + (inject_Z (f x) - Qmake (a * c + i * b) (Z.to_pos i)) *
                                   (inject_Z (f x) - Qmake (a * c + i * b + f x) (Z.to_pos (i + 1)))))
                       (Qred (s + (inject_Z x - Qmake c (Z.to_pos i)) *
                                  (inject_Z x - Qmake (c + x) (Z.to_pos (i + 1)))))).
    { unfold sc in *. rewrite !Qred_correct. rewrite !Qmake_pos by assumption. rewrite Hs.
      rewrite inject_Z_plus in Hq1.
      rewrite ?inject_Z_plus, ?inject_Z_mult, ?inj_f, ?inject_Z_plus, ?inject_Z_mult. unfold A2, A.
      change (inject_Z 1) with 1 in *.
      field. split; lra. }
    constructor.
    - unfold sc in *. rewrite Hstep. field. lra.
    - replace (a * c + i * b + f x)%Z with (a * (c + x) + (i + 1) * b)%Z by (unfold f; ring).
      replace (a * c + i * b + f x)%Z with (a * (c + x) + (i + 1) * b)%Z in Hstep by (unfold f; ring).
      apply IH; assumption.
  Qed.

  Lemma running_variance_affine l : Forall2 sc (running_variance (map f l)) (running_variance l).
  Proof.
    destruct l as [|x0 r]; cbn [map running_variance]; [constructor|]. constructor.
    - unfold sc. ring.
    - replace (f x0) with (a * x0 + 1 * b)%Z by (unfold f; ring).
      apply rv_aux_affine; [lia|unfold sc; ring].
  Qed.

  (* ---------------------------------------------------------------- list plumbing *)
  Lemma Forall2_rev' {X Y} (R : X -> Y -> Prop) l l' : Forall2 R l l' -> Forall2 R (rev l) (rev l').
  Proof.
    induction 1; cbn; [constructor|]. apply Forall2_app; [assumption|]. constructor; [assumption|constructor].
  Qed.
  Lemma Forall2_tl {X Y} (R : X -> Y -> Prop) l l' : Forall2 R l l' -> Forall2 R (tl l) (tl l').
  Proof. destruct 1; cbn; [constructor|assumption]. Qed.
  Lemma Forall2_weight (h : Z -> Z) v' v : Forall2 sc v' v -> forall z,
    Forall2 sc (map (fun p : Q * Z => fst p * inject_Z (h (snd p))) (combine v' z))
               (map (fun p : Q * Z => fst p * inject_Z (h (snd p))) (combine v z)).
  Proof.
    induction 1 as [|s' s v' v Hs _ IH]; intros z; cbn; [constructor|].
    destruct z as [|k z]; cbn; [constructor|]. constructor; [|apply IH].
    unfold sc in *. rewrite Hs. ring.
  Qed.
  Lemma Forall2_sum u' u : Forall2 sc u' u -> forall w' w, Forall2 sc w' w ->
    Forall2 sc (map (fun p : Q * Q => fst p + snd p) (combine u' w'))
               (map (fun p : Q * Q => fst p + snd p) (combine u w)).
  Proof.
    induction 1 as [|s' s u' u Hs _ IH]; intros w' w Hw; cbn; [constructor|].
    destruct Hw as [|t' t w' w Ht Hw]; cbn; [constructor|]. constructor; [|apply IH; exact Hw].
    unfold sc in *. cbn. rewrite Hs, Ht. ring.
  Qed.
  Definition rowrel (r' r : Z * Q) : Prop := fst r' = f (fst r) /\ sc (snd r') (snd r).
  Lemma Forall2_rows d : forall s' s, Forall2 sc s' s -> Forall2 rowrel (combine (map f d) s') (combine d s).
  Proof.
    induction d as [|x d IH]; intros s' s Hs; cbn; [constructor|].
    destruct Hs as [|t' t s' s Ht Hs]; cbn; [constructor|]. constructor; [split; [reflexivity|exact Ht]|].
    apply IH; exact Hs.
  Qed.
  Lemma Forall2_stride {X Y} (R : X -> Y -> Prop) step l l' : Forall2 R l l' ->
    forall k, Forall2 R (stride_aux step k l) (stride_aux step k l').
  Proof.
    induction 1 as [|x y l l' Hxy _ IH]; intros k; cbn; [constructor|].
    destruct k; [constructor; [exact Hxy|apply IH]|apply IH].
  Qed.

  Lemma zseq_map_length (d : list Z) : length (map f d) = length d.
  Proof. apply map_length. Qed.

  Lemma otsu_rows_affine d : Forall2 rowrel (otsu_rows (map f d)) (otsu_rows d).
  Proof.
    unfold otsu_rows. rewrite map_length.
    replace (tl (map f d)) with (map f (tl d)) by (destruct d; reflexivity).
    apply Forall2_rows. apply Forall2_sum.
    - apply Forall2_weight with (h := fun z => z). apply running_variance_affine.
    - apply Forall2_tl. apply Forall2_weight with (h := fun z => (Z.of_nat (length d) - z)%Z).
      apply Forall2_rev'. rewrite <- map_rev. apply running_variance_affine.
  Qed.

  (* ---------------------------------------------------------------- arg-min *)
  Lemma sc_lt x' x y' y : sc x' x -> sc y' y -> (x' < y' <-> x < y).
  Proof.
    unfold sc. intros Hx Hy. rewrite Hx, Hy. pose proof A2_pos as P. split; intros H.
    - apply (Qmult_lt_l _ _ A2 P). exact H.
    - apply (Qmult_lt_l _ _ A2 P). exact H.
  Qed.
  Lemma qminl_affine l' l : Forall2 sc l' l -> forall d' d, sc d' d -> sc (qminl d' l') (qminl d l).
  Proof.
    unfold qminl. induction 1 as [|x' x l' l Hx _ IH]; intros d' d Hd; cbn; [exact Hd|].
    apply IH. destruct (Qlt_le_dec x' d') as [H'|H'], (Qlt_le_dec x d) as [H|H]; try assumption.
    - apply (sc_lt x' x d' d Hx Hd) in H'. lra.
    - apply (sc_lt x' x d' d Hx Hd) in H. lra.
  Qed.
  Lemma first_index_affine l' l : Forall2 sc l' l -> forall m' m i, sc m' m ->
    first_index m' l' i = first_index m l i.
  Proof.
    induction 1 as [|x' x l' l Hx _ IH]; intros m' m i Hm; cbn; [reflexivity|].
    assert (E : Qeq_bool x' m' = Qeq_bool x m).
    { unfold sc in *. pose proof A2_pos as P.
      destruct (Qeq_bool x m) eqn:E1.
      - apply Qeq_bool_iff in E1. apply Qeq_bool_iff. rewrite Hx, Hm, E1. reflexivity.
      - destruct (Qeq_bool x' m') eqn:E2; [|reflexivity]. apply Qeq_bool_iff in E2.
        rewrite Hx, Hm in E2. apply Qmult_inj_l in E2; [|lra].
        apply Qeq_bool_iff in E2. congruence. }
    rewrite E. destruct (Qeq_bool x m); [reflexivity|apply IH; exact Hm].
  Qed.

  Lemma rows_fst l' l : Forall2 rowrel l' l -> map fst l' = map f (map fst l).
  Proof. induction 1 as [|r' r l' l [Hf _] _ IH]; cbn; [reflexivity|]. rewrite Hf, IH. reflexivity. Qed.
  Lemma rows_snd l' l : Forall2 rowrel l' l -> Forall2 sc (map snd l') (map snd l).
  Proof. induction 1 as [|r' r l' l [_ Hs] _ IH]; cbn; [constructor|]. constructor; assumption. Qed.

  Lemma mean_affine t1 t2 : Qmake (f t1 + f t2) 2 == A * Qmake (t1 + t2) 2 + inject_Z b.
  Proof. unfold f, A, Qeq. cbn. ring. Qed.

  Theorem otsu_sorted_affine d : d <> [] ->
    otsu_sorted (map f d) == A * otsu_sorted d + inject_Z b.
  Proof.
    intros Hne. destruct d as [|x0 [|x1 rest]]; [congruence| |].
    - cbn. apply inj_f.
    - set (d := x0 :: x1 :: rest) in *.
      change (map f d) with (f x0 :: f x1 :: map f rest). unfold otsu_sorted.
      change (f x0 :: f x1 :: map f rest) with (map f d). fold d.
      rewrite map_length.
      set (step := Nat.div (length d) (Nat.min 256 (length d))).
      pose proof (Forall2_stride rowrel step _ _ (otsu_rows_affine d) 0%nat) as HR.
      fold (stride step (otsu_rows (map f d))) in HR. fold (stride step (otsu_rows d)) in HR.
      set (rows' := stride step (otsu_rows (map f d))) in *.
      set (rows := stride step (otsu_rows d)) in *.
      pose proof (rows_fst _ _ HR) as Hthr.
      pose proof (rows_snd _ _ HR) as Hsc.
      rewrite Hthr.
      assert (Hhd : hd (f x0) (map f (map fst rows)) = f (hd x0 (map fst rows))).
      { destruct (map fst rows); reflexivity. }
      rewrite Hhd. rewrite map_length.
      destruct Hsc as [|s0' s0 ss' ss Hs0 Hss].
      + apply inj_f.
      + assert (Hall : Forall2 sc (s0' :: ss') (s0 :: ss)) by (constructor; assumption).
        rewrite (first_index_affine _ _ Hall _ _ 0%nat (qminl_affine _ _ Hall _ _ Hs0)).
        destruct (first_index (qminl s0 (s0 :: ss)) (s0 :: ss) 0) as [index|]; [|apply inj_f].
        rewrite !map_nth. apply mean_affine.
  Qed.

  (* ---------------------------------------------------------------- sort and NaN filter *)
  Lemma f_leb x y : (f x <=? f y)%Z = (x <=? y)%Z.
  Proof.
    unfold f. destruct (Z.leb_spec x y), (Z.leb_spec (a * x + b) (a * y + b)); try reflexivity; nia.
  Qed.
  Lemma zinsert_affine x l : zinsert (f x) (map f l) = map f (zinsert x l).
  Proof.
    induction l as [|y l IH]; cbn; [reflexivity|]. rewrite f_leb. destruct (x <=? y)%Z; cbn; [reflexivity|].
    rewrite IH. reflexivity.
  Qed.
  Lemma zsort_affine l : zsort (map f l) = map f (zsort l).
  Proof.
    induction l as [|x l IH]; [reflexivity|]. cbn [map]. unfold zsort in *. cbn [fold_right].
    rewrite IH. apply zinsert_affine.
  Qed.
  Lemma filter_nan_affine l : filter_nan (map (option_map f) l) = map f (filter_nan l).
  Proof. induction l as [|[x|] l IH]; cbn; [reflexivity| |]; rewrite IH; reflexivity. Qed.

  Theorem otsu_affine_lemma l : filter_nan l <> [] ->
    otsu (map (option_map f) l) == A * otsu l + inject_Z b.
  Proof.
    intros Hne. unfold otsu. rewrite filter_nan_affine, zsort_affine. apply otsu_sorted_affine.
    intros E. apply Hne. destruct (filter_nan l) as [|y r]; [reflexivity|].
    unfold zsort in E. cbn [fold_right] in E. destruct (fold_right zinsert [] r); cbn in E; [discriminate|].
    destruct (y <=? z)%Z; discriminate.
  Qed.
End Affine.

(* the hypotheses are satisfiable and both sides compute: x -> 3 x + 5 on data with two NaNs *)
Example ex_affine :
  let l := [Some 9; None; Some 1; Some 10; Some 2; None; Some 1; Some 11]%Z in
  otsu (map (option_map (f 3 5)) l) == 23 # 1 /\ otsu l == 6 # 1 /\ filter_nan l <> [].
Proof. cbn zeta. split; [vm_compute; reflexivity|]. split; [vm_compute; reflexivity|discriminate]. Qed.
