(* C08 — the two walks composed with the relabel table, on any region graph; the witness graph
   (from the image [[1,1,2,2],[1,3,0,2],[1,1,2,2]]) on which a cluster of changed regions has two
   different parents; Examples showing that the hypotheses of the theorems are satisfiable. *)
From Coq Require Import ZArith List Bool Lia ZifyBool.
From Centro Require Import Base.FillZMap Model.FillHoles Spec.FillHoles Proofs.FillWalk1 Proofs.FillWalk2.
Import ListNotations.
Open Scope Z_scope.

(* adjacency lists read off an edge list (what the ragged index computes) *)
Definition adj_of_edges (edges : list (Z * Z)) (i : Z) : list Z :=
  map snd (filter (fun e => fst e =? i) edges).

Lemma adj_of_edges_spec edges i j : In j (adj_of_edges edges i) <-> In (i, j) edges.
Proof.
  unfold adj_of_edges. rewrite in_map_iff. split.
  - intros [[a b] [E H]]. apply filter_In in H as [H1 H2]. cbn [fst snd] in *. apply Z.eqb_eq in H2. subst. auto.
  - intros H. exists (i, j). split; [reflexivity|]. apply filter_In. split; [auto|]. cbn [fst]. apply Z.eqb_refl.
Qed.

Section Composed.
Variable adj : Z -> list Z.
Variable edges : list (Z * Z).
Variable lcount : Z.
Variable todo0 : list Z.
Variable n : nat.
Hypothesis Hadj : forall i j, In j (adj i) <-> In (i, j) edges.
Hypothesis Hnz_todo : ~ In 0 todo0.
Hypothesis Hnz_adj : forall i j, In (i, j) edges -> j <> 0.
Hypothesis Hnd : NoDup todo0.
Hypothesis Hsym : symmetric edges.
Hypothesis Hbb : no_bg_bg edges lcount.
Hypothesis Hrange : forall i j, In (i, j) edges -> 0 <= j < Z.of_nat n.

Notation U := (Unch edges todo0 lcount).
Notation Par := (Parent edges todo0 lcount).

(* fill_labeled_holes_loop followed by new_indexes, on the graph *)
Theorem fill_graph_correct fuel1 fuel2 :
  let s1 := run1 adj lcount fuel1 (init1 todo0) in
  let s2 := run2 adj fuel2 (w_nh s1) (init2 n (w_nh s1) (w_anh s1)) in
  finished1 s1 = true -> finished2 s2 = true ->
  forall v, Conn edges todo0 v ->
    paint_ok edges todo0 lcount v (new_index lcount (w_nh s1) (v_anh s2) v).
Proof.
  intros s1 s2 F1 F2 v Cv.
  assert (Hnz_adj' : forall i j, In j (adj i) -> j <> 0) by (intros i j H; apply (Hnz_adj i j), Hadj, H).
  pose proof (walk1_lfp adj edges lcount todo0 Hadj Hnz_todo Hnz_adj' fuel1 Hnd F1) as L1. fold s1 in L1.
  pose proof (walk1_inv adj edges lcount todo0 Hadj Hnz_todo Hnz_adj' fuel1 Hnd) as I1. fold s1 in I1.
  pose proof (proj1 (finished1_spec s1) F1) as Fin1.
  unfold paint_ok, new_index. split.
  - intros Uv. apply L1 in Uv. rewrite Uv. reflexivity.
  - intros Nv. destruct (getb (w_nh s1) v) eqn:E; [exfalso; apply Nv, L1, E|].
    apply (walk2_labels adj edges lcount todo0 (w_nh s1) (w_anh s1) Hadj Hsym L1
             (walk1_anh_sound adj edges lcount todo0 Hadj s1 I1)
             (walk1_anh_complete adj edges lcount todo0 Hadj s1 I1 Fin1) fuel2 n); auto.
    + intros x Hx. destruct (walk1_anh_sound adj edges lcount todo0 Hadj s1 I1 x _ eq_refl Hx) as [_ [_ E']].
      apply (Hrange _ _ E').
    + assert (Dec : forall x, U x \/ ~ U x).
      { intros x. destruct (getb (w_nh s1) x) eqn:Ex; [left; apply L1; auto|right; intros Ux; apply L1 in Ux; congruence]. }
      destruct (changed_has_parent edges lcount todo0 Hsym Hbb Dec v Cv) as [Uv|P]; [contradiction|exact P].
Qed.

(* unchanged objects keep their label and only gain regions of clusters they touch *)
Corollary objects_only_gain fuel1 fuel2 :
  let s1 := run1 adj lcount fuel1 (init1 todo0) in
  let s2 := run2 adj fuel2 (w_nh s1) (init2 n (w_nh s1) (w_anh s1)) in
  finished1 s1 = true -> finished2 s2 = true ->
  forall v, Conn edges todo0 v ->
    let new := new_index lcount (w_nh s1) (v_anh s2) v in
    (U v -> isobj lcount v = true -> new = v) /\
    (forall k, new = k -> k <> v -> (U v /\ isobj lcount v = false /\ k = 0) \/ (~ U v /\ Par v k)).
Proof.
  intros s1 s2 F1 F2 v Cv new.
  destruct (fill_graph_correct fuel1 fuel2 F1 F2 v Cv) as [A B]. fold s1 s2 new in A, B.
  split.
  - intros Uv Ov. rewrite (A Uv), Ov. reflexivity.
  - intros k Ek Nk.
    assert (Hnz_adj' : forall i j, In j (adj i) -> j <> 0) by (intros i j H; apply (Hnz_adj i j), Hadj, H).
    pose proof (walk1_lfp adj edges lcount todo0 Hadj Hnz_todo Hnz_adj' fuel1 Hnd F1 v) as L1. fold s1 in L1.
    destruct (getb (w_nh s1) v) eqn:E.
    + left. assert (Uv : U v) by (apply L1; auto). specialize (A Uv).
      destruct (isobj lcount v) eqn:Ov; [congruence|]. split; [auto|]. split; [auto|congruence].
    + right. assert (Nv : ~ U v) by (intros Uv; apply L1 in Uv; congruence).
      split; [auto|]. rewrite <- Ek. apply B; auto.
Qed.

End Composed.

(* ------------------------------------------------------------------ the witness graph *)

(* regions of [[1,1,2,2],[1,3,0,2],[1,1,2,2]]: objects 1, 2, 3 (lcount = 3), background 5 *)
Definition wit_edges : list (Z * Z) := [(1,2);(1,3);(2,1);(2,5);(3,1);(3,5);(5,2);(5,3)].
Definition wit_todo : list Z := [1;2].
Definition wit_adj := adj_of_edges wit_edges.

Lemma wit_nz_todo : ~ In 0 wit_todo.
Proof. cbn [wit_todo In]. lia. Qed.
Lemma wit_nz_edges : forall i j, In (i, j) wit_edges -> j <> 0.
Proof.
  assert (H : forallb (fun e => negb (snd e =? 0)) wit_edges = true) by (vm_compute; reflexivity).
  intros i j E. rewrite forallb_forall in H. specialize (H _ E). cbn [snd] in H. lia.
Qed.
Lemma wit_nodup : NoDup wit_todo.
Proof. repeat constructor; cbn [In]; lia. Qed.
Lemma wit_sym : symmetric wit_edges.
Proof.
  assert (H : forallb (fun e => existsb (fun f => (fst f =? snd e) && (snd f =? fst e)) wit_edges) wit_edges = true)
    by (vm_compute; reflexivity).
  intros i j E. rewrite forallb_forall in H. specialize (H _ E). apply existsb_exists in H as [[a b] [Hin Hab]].
  cbn [fst snd] in Hab. assert (a = j /\ b = i) as [-> ->] by lia. exact Hin.
Qed.
Lemma wit_bb : no_bg_bg wit_edges 3.
Proof.
  assert (H : forallb (fun e => (fst e <=? 3) || (snd e <=? 3)) wit_edges = true) by (vm_compute; reflexivity).
  intros i j E Oi. rewrite forallb_forall in H. specialize (H _ E). cbn [fst snd] in H. unfold isobj in *. lia.
Qed.
Lemma wit_range : forall i j, In (i, j) wit_edges -> 0 <= j < Z.of_nat 6.
Proof.
  assert (H : forallb (fun e => (0 <=? snd e) && (snd e <? 6)) wit_edges = true) by (vm_compute; reflexivity).
  intros i j E. rewrite forallb_forall in H. specialize (H _ E). cbn [snd] in H. lia.
Qed.
Lemma wit_conn : forall v, In v [1;2;3;5] -> Conn wit_edges wit_todo v.
Proof.
  assert (C1 : Conn wit_edges wit_todo 1) by (apply Conn_border; cbn; auto).
  assert (C2 : Conn wit_edges wit_todo 2) by (apply Conn_border; cbn; auto).
  assert (C3 : Conn wit_edges wit_todo 3) by (apply (Conn_step wit_edges wit_todo 1 3 C1); cbn; auto).
  assert (C5 : Conn wit_edges wit_todo 5) by (apply (Conn_step wit_edges wit_todo 2 5 C2); cbn; auto 10).
  intros v [<-|[<-|[<-|[<-|[]]]]]; auto.
Qed.

(* Example for walk1_lfp / stack_bounded / fill_graph_correct: their hypotheses hold on the witness
   graph and the walk does something there (regions 3 and 5 stay unmarked, both get labels) *)
Definition wit_s1 := run1 wit_adj 3 40 (init1 wit_todo).
Definition wit_s2 := run2 wit_adj 40 (w_nh wit_s1) (init2 6 (w_nh wit_s1) (w_anh wit_s1)).

Example wit_walk_runs :
  finished1 wit_s1 = true /\ finished2 wit_s2 = true /\
  map (getb (w_nh wit_s1)) [1;2;3;5] = [true;true;false;false] /\
  map (new_index 3 (w_nh wit_s1) (v_anh wit_s2)) [1;2;3;5] = [1;2;1;2].
Proof. vm_compute. repeat split; reflexivity. Qed.

Lemma wit_U v : Unch wit_edges wit_todo 3 v <-> getb (w_nh wit_s1) v = true.
Proof.
  symmetry. apply (walk1_lfp wit_adj wit_edges 3 wit_todo (adj_of_edges_spec wit_edges) wit_nz_todo).
  - intros i j H. apply (wit_nz_edges i j), adj_of_edges_spec, H.
  - exact wit_nodup.
  - vm_compute; reflexivity.
Qed.

(* DESIGN.md's [cluster_unique_parent] does not hold: in the witness graph the cluster {3, 5} of
   changed regions is adjacent to the two different unchanged objects 1 and 2, although the graph
   is symmetric, connected and has no background-background edge. *)
Theorem cluster_unique_parent_refuted :
  exists edges todo0 lcount v k1 k2,
    symmetric edges /\ no_bg_bg edges lcount /\ (forall i j, In (i, j) edges -> Conn edges todo0 j) /\
    ~ Unch edges todo0 lcount v /\
    Parent edges todo0 lcount v k1 /\ Parent edges todo0 lcount v k2 /\ k1 <> k2.
Proof.
  exists wit_edges, wit_todo, 3, 3, 1, 2.
  assert (N3 : ~ Unch wit_edges wit_todo 3 3) by (rewrite wit_U; vm_compute; discriminate).
  assert (N5 : ~ Unch wit_edges wit_todo 3 5) by (rewrite wit_U; vm_compute; discriminate).
  assert (U1 : Unch wit_edges wit_todo 3 1) by (apply Unch_border; cbn; auto).
  assert (U2 : Unch wit_edges wit_todo 3 2) by (apply Unch_border; cbn; auto).
  split; [exact wit_sym|]. split; [exact wit_bb|]. split.
  - intros i j E. apply wit_conn.
    assert (H : forallb (fun e => existsb (Z.eqb (snd e)) [1;2;3;5]) wit_edges = true) by (vm_compute; reflexivity).
    rewrite forallb_forall in H. specialize (H _ E). apply existsb_exists in H as [x [Hx Ex]].
    cbn [snd] in Ex. apply Z.eqb_eq in Ex. subst x. exact Hx.
  - split; [exact N3|]. split; [|split; [|lia]].
    + split; [exact U1|]. split; [reflexivity|]. exists 3. split; [constructor|cbn; auto].
    + split; [exact U2|]. split; [reflexivity|]. exists 5. split; [|cbn; auto 10].
      apply (Cl_step wit_edges wit_todo 3 3 3 5); [constructor|cbn; auto 10|exact N5].
Qed.

Example fill_graph_correct_example : forall v, In v [1;2;3;5] ->
  paint_ok wit_edges wit_todo 3 v (new_index 3 (w_nh wit_s1) (v_anh wit_s2) v).
Proof.
  intros v Hv.
  apply (fill_graph_correct wit_adj wit_edges 3 wit_todo 6 (adj_of_edges_spec wit_edges) wit_nz_todo wit_nz_edges
           wit_nodup wit_sym wit_bb wit_range 40 40).
  - vm_compute; reflexivity.
  - vm_compute; reflexivity.
  - apply wit_conn; exact Hv.
Qed.
