(* C10 — book-keeping of flow_utils.hpp transform_flow_to_regular as transcribed in Model/Emd.v
   (tf_loop): started from left-over supplies fP and demands fQ that are non-negative, the
   north-west-corner loop always returns (the fuel 2N+1 suffices), only adds flow, keeps every row
   within  rowsum + fP  and every column within  colsum + fQ, and exhausts all rows or all columns. *)
From Coq Require Import ZArith List Bool Lia ZifyBool.
From Centro Require Import Base.Sx Base.EmdBase Spec.Emd Model.Emd
  Proofs.EmdDuality Proofs.EmdModel Proofs.EmdSsp Proofs.EmdMetric Proofs.EmdCertModel.
Import ListNotations.
Open Scope Z_scope.

Definition square (N : nat) (F : list (list Z)) : Prop := length F = N /\ forall r, In r F -> length r = N.

Lemma skipz_spec N l : forall fuel i, (N - i <= fuel)%nat -> (i <= N)%nat ->
  let r := skipz fuel N l i in
  (i <= r <= N)%nat /\ (forall x, (i <= x < r)%nat -> nz l x = 0) /\ ((r < N)%nat -> nz l r <> 0).
Proof.
  induction fuel as [|f IH]; intros i Hf Hi; cbn [skipz].
  - assert (i = N) by lia. subst. cbv zeta. split; [lia|]. split; intros; lia.
  - destruct ((i <? N)%nat && (nz l i =? 0)) eqn:E.
    + apply andb_prop in E. destruct E as [E1 E2]. apply Nat.ltb_lt in E1.
      destruct (IH (S i) ltac:(lia) ltac:(lia)) as [A [B C]]. cbv zeta. split; [lia|]. split; auto.
      intros x Hx. destruct (Nat.eq_dec x i) as [->|Nx]; [lia|]. apply B. lia.
    + cbv zeta. split; [lia|]. split; [intros; lia|]. intros Hr.
      apply andb_false_iff in E. destruct E as [E|E]; [apply Nat.ltb_ge in E; lia|lia].
Qed.

Lemma upd_in {A} (g : A -> A) : forall (l : list A) i y, In y (upd l i g) -> In y l \/ exists x, In x l /\ y = g x.
Proof.
  induction l as [|a l IH]; intros [|i] y; cbn [upd]; auto.
  - intros [<-|H]; [right; exists a; split; [left|]; auto|left; right; auto].
  - intros [<-|H]; [left; left; auto|]. destruct (IH i y H) as [H1|[x [H1 H2]]]; [left; right; auto|].
    right. exists x. split; [right|]; auto.
Qed.

Lemma square_upd2 N F i j g : square N F -> square N (upd2 F i j g).
Proof.
  intros [L R]. unfold upd2. split; [rewrite upd_length; auto|].
  intros r Hr. destruct (upd_in _ _ _ _ Hr) as [H|[x [H ->]]]; [auto|]. rewrite upd_length. auto.
Qed.

Lemma upd2_adj N F i j dl : square N F -> (i < N)%nat -> (j < N)%nat ->
  forall a b, mz (upd2 F i j (fun y => y + dl)) a b = adj (mz F) i j dl a b.
Proof.
  intros [L R] Hi Hj a b. unfold mz, upd2, adj, cell.
  rewrite (nth_upd (fun r => upd r j (fun y => y + dl)) [] F i a).
  destruct (i =? a)%nat eqn:E1; cbn [andb].
  - apply Nat.eqb_eq in E1. subst a. assert (E : (i <? length F)%nat = true) by (apply Nat.ltb_lt; lia). rewrite E.
    rewrite (nth_upd (fun y => y + dl) 0 (nth i F []) j b).
    assert (LR : length (nth i F []) = N) by (apply R; apply nth_In; lia).
    assert (E' : (j <? length (nth i F []))%nat = true) by (apply Nat.ltb_lt; lia). rewrite E', andb_true_r.
    rewrite Nat.eqb_refl. cbn [andb]. rewrite (Nat.eqb_sym b j). destruct (j =? b)%nat; lia.
  - rewrite (Nat.eqb_sym a i), E1. cbn [andb]. lia.
Qed.

Lemma rowsum_ext n f g i : (forall a b, f a b = g a b) -> rowsum n f i = rowsum n g i.
Proof. intros H. unfold rowsum. apply zsum_map_ext. intros; apply H. Qed.
Lemma colsum_ext n f g j : (forall a b, f a b = g a b) -> colsum n f j = colsum n g j.
Proof. intros H. unfold colsum. apply zsum_map_ext. intros; apply H. Qed.

Definition post (N : nat) (fP fQ : list Z) (F F' : list (list Z)) : Prop :=
  square N F' /\ (forall a b, mz F a b <= mz F' a b) /\
  (forall a, (a < N)%nat -> rowsum N (mz F') a <= rowsum N (mz F) a + nz fP a) /\
  (forall b, (b < N)%nat -> colsum N (mz F') b <= colsum N (mz F) b + nz fQ b) /\
  ((forall a, (a < N)%nat -> rowsum N (mz F') a = rowsum N (mz F) a + nz fP a) \/
   (forall b, (b < N)%nat -> colsum N (mz F') b = colsum N (mz F) b + nz fQ b)).

Theorem tf_loop_spec N : forall fuel i j fP fQ F,
  square N F -> length fP = N -> length fQ = N -> (i <= N)%nat -> (j <= N)%nat ->
  (forall a, 0 <= nz fP a) -> (forall b, 0 <= nz fQ b) ->
  (forall a, (a < i)%nat -> nz fP a = 0) -> (forall b, (b < j)%nat -> nz fQ b = 0) ->
  ((N - skipz N N fP i) + (N - skipz N N fQ j) < fuel)%nat ->
  exists F', tf_loop fuel N i j fP fQ F = Some F' /\ post N fP fQ F F'.
Proof.
  induction fuel as [|f IH]; intros i j fP fQ F SQ LP LQ Hi Hj NP NQ ZP ZQ Hf; [lia|].
  cbn [tf_loop].
  destruct (skipz_spec N fP N i ltac:(lia) Hi) as [[A1 A2] [A3 A4]].
  destruct (skipz_spec N fQ N j ltac:(lia) Hj) as [[B1 B2] [B3 B4]].
  set (i' := skipz N N fP i) in *. set (j' := skipz N N fQ j) in *.
  assert (ZP' : forall a, (a < i')%nat -> nz fP a = 0)
    by (intros a Ha; destruct (Nat.lt_ge_cases a i); [apply ZP; auto | apply A3; lia]).
  assert (ZQ' : forall b, (b < j')%nat -> nz fQ b = 0)
    by (intros b Hb; destruct (Nat.lt_ge_cases b j); [apply ZQ; auto | apply B3; lia]).
  destruct ((i' =? N)%nat || (j' =? N)%nat) eqn:EX.
  - (* one side is exhausted *)
    exists F. split; auto. split; auto. split; [intros; lia|].
    split; [intros a _; pose proof (NP a); lia|]. split; [intros b _; pose proof (NQ b); lia|].
    apply orb_prop in EX. destruct EX as [E|E]; apply Nat.eqb_eq in E.
    + left. intros a Ha. rewrite ZP' by lia. lia.
    + right. intros b Hb. rewrite ZQ' by lia. lia.
  - apply orb_false_iff in EX. destruct EX as [E1 E2]. apply Nat.eqb_neq in E1. apply Nat.eqb_neq in E2.
    assert (Hi' : (i' < N)%nat) by lia. assert (Hj' : (j' < N)%nat) by lia.
    pose proof (A4 Hi') as NZa. pose proof (B4 Hj') as NZb.
    pose proof (NP i') as Pa. pose proof (NQ j') as Pb.
    destruct (nz fP i' <? nz fQ j') eqn:CMP.
    + (* the row is used up *)
      set (a0 := nz fP i') in *.
      set (fP1 := upd fP i' (fun _ => 0)). set (fQ1 := upd fQ j' (fun y => y - a0)).
      set (F1 := upd2 F i' j' (fun y => y + a0)).
      assert (EP : forall a, nz fP1 a = if (a =? i')%nat then 0 else nz fP a).
      { intros a. unfold fP1. rewrite nz_upd. rewrite (Nat.eqb_sym a i').
        assert (E : (i' <? length fP)%nat = true) by (apply Nat.ltb_lt; lia). rewrite E, andb_true_r. reflexivity. }
      assert (EQ : forall b, nz fQ1 b = if (b =? j')%nat then nz fQ b - a0 else nz fQ b).
      { intros b. unfold fQ1. rewrite nz_upd. rewrite (Nat.eqb_sym b j').
        assert (E : (j' <? length fQ)%nat = true) by (apply Nat.ltb_lt; lia). rewrite E, andb_true_r. reflexivity. }
      destruct (IH i' j' fP1 fQ1 F1) as [F' [EF [SQ' [GE [RL [CL EXH]]]]]].
      * apply square_upd2; auto.
      * unfold fP1. rewrite upd_length; auto.
      * unfold fQ1. rewrite upd_length; auto.
      * lia.
      * lia.
      * intros a. rewrite EP. destruct (a =? i')%nat; [lia|apply NP].
      * intros b. rewrite EQ. pose proof (NQ b). destruct (b =? j')%nat eqn:E; [apply Nat.eqb_eq in E; subst; lia|lia].
      * intros a Ha. rewrite EP. destruct (a =? i')%nat; [lia|apply ZP'; auto].
      * intros b Hb. rewrite EQ. destruct (b =? j')%nat eqn:E; [apply Nat.eqb_eq in E; lia|apply ZQ'; auto].
      * (* measure: the row pointer moves on *)
        destruct (skipz_spec N fP1 N i' ltac:(lia) ltac:(lia)) as [[C1 C2] [C3 C4]].
        destruct (skipz_spec N fQ1 N j' ltac:(lia) ltac:(lia)) as [[D1 D2] _].
        assert (skipz N N fP1 i' <> i').
        { intros X. rewrite X in C4. specialize (C4 Hi'). rewrite EP, Nat.eqb_refl in C4. lia. }
        fold i' j' in Hf. lia.
      * exists F'. split; auto.
        pose proof (upd2_adj N F i' j' a0 SQ Hi' Hj') as ADJ. fold F1 in ADJ.
        assert (R1 : forall a, rowsum N (mz F1) a = rowsum N (mz F) a + (if (a =? i')%nat then a0 else 0))
          by (intros a; rewrite (rowsum_ext N _ _ a ADJ); apply rowsum_adj; auto).
        assert (C1 : forall b, colsum N (mz F1) b = colsum N (mz F) b + (if (b =? j')%nat then a0 else 0))
          by (intros b; rewrite (colsum_ext N _ _ b ADJ); apply colsum_adj; auto).
        split; auto. split.
        { intros a b. specialize (GE a b). rewrite ADJ in GE. unfold adj, cell in GE.
          destruct ((a =? i')%nat && (b =? j')%nat); lia. }
        split. { intros a Ha. specialize (RL a Ha). rewrite R1, EP in RL. fold a0. destruct (a =? i')%nat eqn:E; [apply Nat.eqb_eq in E; subst|]; lia. }
        split. { intros b Hb. specialize (CL b Hb). rewrite C1, EQ in CL. destruct (b =? j')%nat eqn:E; [apply Nat.eqb_eq in E; subst|]; lia. }
        destruct EXH as [X|X]; [left; intros a Ha; specialize (X a Ha); rewrite R1, EP in X
                               |right; intros b Hb; specialize (X b Hb); rewrite C1, EQ in X].
        { fold a0. destruct (a =? i')%nat eqn:E; [apply Nat.eqb_eq in E; subst|]; lia. }
        { destruct (b =? j')%nat eqn:E; [apply Nat.eqb_eq in E; subst|]; lia. }
    + (* the column is used up *)
      set (b0 := nz fQ j') in *.
      set (fP1 := upd fP i' (fun y => y - b0)). set (fQ1 := upd fQ j' (fun _ => 0)).
      set (F1 := upd2 F i' j' (fun y => y + b0)).
      assert (EP : forall a, nz fP1 a = if (a =? i')%nat then nz fP a - b0 else nz fP a).
      { intros a. unfold fP1. rewrite nz_upd. rewrite (Nat.eqb_sym a i').
        assert (E : (i' <? length fP)%nat = true) by (apply Nat.ltb_lt; lia). rewrite E, andb_true_r. reflexivity. }
      assert (EQ : forall b, nz fQ1 b = if (b =? j')%nat then 0 else nz fQ b).
      { intros b. unfold fQ1. rewrite nz_upd. rewrite (Nat.eqb_sym b j').
        assert (E : (j' <? length fQ)%nat = true) by (apply Nat.ltb_lt; lia). rewrite E, andb_true_r. reflexivity. }
      destruct (IH i' j' fP1 fQ1 F1) as [F' [EF [SQ' [GE [RL [CL EXH]]]]]].
      * apply square_upd2; auto.
      * unfold fP1. rewrite upd_length; auto.
      * unfold fQ1. rewrite upd_length; auto.
      * lia.
      * lia.
      * intros a. rewrite EP. pose proof (NP a). destruct (a =? i')%nat eqn:E; [apply Nat.eqb_eq in E; subst; lia|lia].
      * intros b. rewrite EQ. destruct (b =? j')%nat; [lia|apply NQ].
      * intros a Ha. rewrite EP. destruct (a =? i')%nat eqn:E; [apply Nat.eqb_eq in E; lia|apply ZP'; auto].
      * intros b Hb. rewrite EQ. destruct (b =? j')%nat; [lia|apply ZQ'; auto].
      * destruct (skipz_spec N fP1 N i' ltac:(lia) ltac:(lia)) as [[C1 C2] _].
        destruct (skipz_spec N fQ1 N j' ltac:(lia) ltac:(lia)) as [[D1 D2] [D3 D4]].
        assert (skipz N N fQ1 j' <> j').
        { intros X. rewrite X in D4. specialize (D4 Hj'). rewrite EQ, Nat.eqb_refl in D4. lia. }
        fold i' j' in Hf. lia.
      * exists F'. split; auto.
        pose proof (upd2_adj N F i' j' b0 SQ Hi' Hj') as ADJ. fold F1 in ADJ.
        assert (R1 : forall a, rowsum N (mz F1) a = rowsum N (mz F) a + (if (a =? i')%nat then b0 else 0))
          by (intros a; rewrite (rowsum_ext N _ _ a ADJ); apply rowsum_adj; auto).
        assert (C1 : forall b, colsum N (mz F1) b = colsum N (mz F) b + (if (b =? j')%nat then b0 else 0))
          by (intros b; rewrite (colsum_ext N _ _ b ADJ); apply colsum_adj; auto).
        split; auto. split.
        { intros a b. specialize (GE a b). rewrite ADJ in GE. unfold adj, cell in GE.
          destruct ((a =? i')%nat && (b =? j')%nat); lia. }
        split. { intros a Ha. specialize (RL a Ha). rewrite R1, EP in RL. destruct (a =? i')%nat eqn:E; [apply Nat.eqb_eq in E; subst|]; lia. }
        split. { intros b Hb. specialize (CL b Hb). rewrite C1, EQ in CL. fold b0. destruct (b =? j')%nat eqn:E; [apply Nat.eqb_eq in E; subst|]; lia. }
        destruct EXH as [X|X]; [left; intros a Ha; specialize (X a Ha); rewrite R1, EP in X
                               |right; intros b Hb; specialize (X b Hb); rewrite C1, EQ in X].
        { destruct (a =? i')%nat eqn:E; [apply Nat.eqb_eq in E; subst|]; lia. }
        { fold b0. destruct (b =? j')%nat eqn:E; [apply Nat.eqb_eq in E; subst|]; lia. }
Qed.

Lemma nz_map_seq (g : nat -> Z) N a : nz (map g (seq 0 N)) a = if (a <? N)%nat then g a else 0.
Proof.
  unfold nz. destruct (a <? N)%nat eqn:E.
  - apply Nat.ltb_lt in E. rewrite (nth_indep _ 0 (g 0%nat)) by (rewrite map_length, seq_length; auto).
    rewrite map_nth, seq_nth by auto. reflexivity.
  - apply Nat.ltb_ge in E. apply nth_overflow. rewrite map_length, seq_length. auto.
Qed.

(* transform_flow_to_regular, as called by emd_hat_impl for WITHOUT_EXTRA_MASS_FLOW: from any flow F
   within the supplies P and demands Q it always returns, and what it returns is a feasible flow
   of the transportation problem (moves min(sum P, sum Q) units) that contains F. *)
Theorem transform_regular_spec F P Q :
  let N := length P in
  square N F -> length Q = N ->
  (forall a b, 0 <= mz F a b) ->
  (forall a, (a < N)%nat -> rowsum N (mz F) a <= nz P a) ->
  (forall b, (b < N)%nat -> colsum N (mz F) b <= nz Q b) ->
  exists F', transform_flow_to_regular F P Q = Some F' /\ square N F' /\
             (forall a b, mz F a b <= mz F' a b) /\
             feasible N N (nz P) (nz Q) (emd_T P Q) (mz F').
Proof.
  intros N SQ LQ POS RP CQ. unfold transform_flow_to_regular. fold N.
  set (fP := map (fun i => nz P i - zsum (map (fun j => mz F i j) (seq 0 N))) (seq 0 N)).
  set (fQ := map (fun j => nz Q j - zsum (map (fun i => mz F i j) (seq 0 N))) (seq 0 N)).
  assert (EP : forall a, nz fP a = if (a <? N)%nat then nz P a - rowsum N (mz F) a else 0)
    by (intros a; unfold fP; rewrite nz_map_seq; reflexivity).
  assert (EQ : forall b, nz fQ b = if (b <? N)%nat then nz Q b - colsum N (mz F) b else 0)
    by (intros b; unfold fQ; rewrite nz_map_seq; reflexivity).
  destruct (tf_loop_spec N (S (2 * N)) 0 0 fP fQ F) as [F' [E [SQ' [GE [RL [CL EXH]]]]]]; auto.
  - unfold fP. rewrite map_length, seq_length. auto.
  - unfold fQ. rewrite map_length, seq_length. auto.
  - lia.
  - lia.
  - intros a. rewrite EP. destruct (a <? N)%nat eqn:X; [apply Nat.ltb_lt in X; specialize (RP a X)|]; lia.
  - intros b. rewrite EQ. destruct (b <? N)%nat eqn:X; [apply Nat.ltb_lt in X; specialize (CQ b X)|]; lia.
  - intros; lia.
  - intros; lia.
  - lia.
  - exists F'. split; auto. split; auto. split; auto.
    assert (LT : forall a, (a < N)%nat -> (a <? N)%nat = true) by (intros; apply Nat.ltb_lt; auto).
    assert (RL' : forall a, (a < N)%nat -> rowsum N (mz F') a <= nz P a)
      by (intros a Ha; specialize (RL a Ha); rewrite EP, (LT a Ha) in RL; lia).
    assert (CL' : forall b, (b < N)%nat -> colsum N (mz F') b <= nz Q b)
      by (intros b Hb; specialize (CL b Hb); rewrite EQ, (LT b Hb) in CL; lia).
    assert (SW : zsum (map (colsum N (mz F')) (seq 0 N)) = moved N N (mz F'))
      by (unfold moved, colsum, rowsum, rows, cols; symmetry; apply (zsum_swap (fun i j => mz F' i j))).
    assert (SP : zsum (map (nz P) (seq 0 N)) = zsum P) by (unfold N; apply zsum_nz_seq).
    assert (SQs : zsum (map (nz Q) (seq 0 N)) = zsum Q) by (rewrite <- LQ; apply zsum_nz_seq).
    assert (MP : moved N N (mz F') <= zsum P)
      by (rewrite <- SP; unfold moved, rows; apply zsum_map_le; intros a Ha; apply RL'; apply in_seq0; auto).
    assert (MQ : moved N N (mz F') <= zsum Q)
      by (rewrite <- SW, <- SQs; apply zsum_map_le; intros b Hb; apply CL'; apply in_seq0; auto).
    split; [|split; [|split]].
    + intros a b _ _. specialize (GE a b). specialize (POS a b). lia.
    + intros a Ha. apply RL'. apply in_seq0; auto.
    + intros b Hb. apply CL'. apply in_seq0; auto.
    + unfold emd_T. destruct EXH as [X|X].
      * assert (moved N N (mz F') = zsum P); [|lia].
        rewrite <- SP. unfold moved, rows. apply zsum_map_ext. intros a Ha. apply in_seq0 in Ha.
        rewrite (X a Ha), EP, (LT a Ha). lia.
      * assert (moved N N (mz F') = zsum Q); [|lia].
        rewrite <- SW, <- SQs. apply zsum_map_ext. intros b Hb. apply in_seq0 in Hb.
        rewrite (X b Hb), EQ, (LT b Hb). lia.
Qed.

(* the hypotheses are satisfiable: a 3x3 partial flow *)
Example transform_example :
  transform_flow_to_regular [[1; 0; 0]; [0; 0; 0]; [0; 0; 2]] [4; 0; 3] [1; 5; 2]
  = Some [[1; 3; 0]; [0; 0; 0]; [0; 1; 2]].
Proof. vm_compute. reflexivity. Qed.
