(* C09 — list lemmas for the NumPy idioms of Model/Kalman.v: gather, boolean mask, scatter,
   compaction of option lists. *)
From Coq Require Import ZArith List Bool Lia Arith.
From Centro Require Import Model.Kalman.
Import ListNotations.
Open Scope nat_scope.

Lemma nth_map_lt {A B} (f : A -> B) l k d d' : k < length l -> nth k (map f l) d' = f (nth k l d).
Proof.
  revert k. induction l as [|a l IH]; intros k H; cbn [length] in H; [lia|].
  destruct k; cbn [map nth]; [reflexivity|]. apply IH. lia.
Qed.

Lemma map2_length {A B C} (f : A -> B -> C) l1 l2 : length (map2 f l1 l2) = Nat.min (length l1) (length l2).
Proof. unfold map2. rewrite map_length, combine_length. reflexivity. Qed.

Lemma nth_combine_lt {A B} (l1 : list A) (l2 : list B) k d1 d2 :
  k < length l1 -> k < length l2 -> nth k (combine l1 l2) (d1, d2) = (nth k l1 d1, nth k l2 d2).
Proof.
  revert l2 k. induction l1 as [|a l1 IH]; intros [|b l2] k H1 H2; cbn [length] in *; try lia.
  destruct k; cbn [combine nth]; [reflexivity|]. apply IH; lia.
Qed.

Lemma nth_map2_lt {A B C} (f : A -> B -> C) l1 l2 k d d1 d2 :
  k < length l1 -> k < length l2 -> nth k (map2 f l1 l2) d = f (nth k l1 d1) (nth k l2 d2).
Proof.
  intros H1 H2. unfold map2.
  rewrite (nth_map_lt _ _ _ (d1, d2)) by (rewrite combine_length; lia).
  rewrite nth_combine_lt by assumption. reflexivity.
Qed.

Lemma gather_length {A} (l : list A) idx d : length (gather l idx d) = length idx.
Proof. apply map_length. Qed.

Lemma nth_gather {A} (l : list A) idx d k : k < length idx -> nth k (gather l idx d) d = nth (nth k idx 0) l d.
Proof. intros H. unfold gather. apply (nth_map_lt (fun i => nth i l d)). exact H. Qed.

(* ------------------------------------------------------------------ mask *)
Lemma mask_In {A} (m : list bool) (l : list A) x : In x (mask m l) -> In x l.
Proof.
  revert l. induction m as [|b m IH]; intros [|a l]; cbn [mask In]; try tauto.
  destruct b; cbn [In]; intros H; [destruct H as [H|H]; [left; exact H|right; apply IH; exact H]|right; apply IH; exact H].
Qed.

Lemma mask_NoDup {A} (m : list bool) (l : list A) : NoDup l -> NoDup (mask m l).
Proof.
  revert l. induction m as [|b m IH]; intros [|a l] H; cbn [mask]; try constructor.
  inversion H as [|? ? Hn Hl]; subst. destruct b; [|apply IH; exact Hl].
  constructor; [intro Hi; apply Hn; eapply mask_In; exact Hi|apply IH; exact Hl].
Qed.

(* positions selected by a mask, with offset *)
Lemma In_mask_seq m a k : In k (mask m (seq a (length m))) <-> (a <= k < a + length m /\ nth (k - a) m false = true).
Proof.
  revert a. induction m as [|b m IH]; intros a; cbn [length seq mask In].
  - split; [tauto|]. intros [H _]. lia.
  - destruct b.
    + cbn [In]. rewrite IH. split.
      * intros [<-|[H1 H2]].
        -- split; [lia|]. rewrite Nat.sub_diag. reflexivity.
        -- split; [lia|]. replace (k - a) with (S (k - S a)) by lia. exact H2.
      * intros [H1 H2]. destruct (Nat.eq_dec a k) as [E|E]; [left; exact E|right].
        split; [lia|]. replace (k - a) with (S (k - S a)) in H2 by lia. exact H2.
    + rewrite IH. split.
      * intros [H1 H2]. split; [lia|]. replace (k - a) with (S (k - S a)) by lia. exact H2.
      * intros [H1 H2]. destruct (Nat.eq_dec a k) as [E|E].
        -- subst. rewrite Nat.sub_diag in H2. discriminate.
        -- split; [lia|]. replace (k - a) with (S (k - S a)) in H2 by lia. exact H2.
Qed.

Lemma mask_gather_off {A} (m : list bool) (l : list A) d a : length l = length m ->
  mask m l = map (fun i => nth (i - a) l d) (mask m (seq a (length m))).
Proof.
  revert l a. induction m as [|b m IH]; intros [|x l] a H; cbn [length] in H; try discriminate; [reflexivity|].
  cbn [length seq mask]. injection H as H.
  assert (E : map (fun i => nth (i - a) (x :: l) d) (mask m (seq (S a) (length m))) =
              map (fun i => nth (i - S a) l d) (mask m (seq (S a) (length m)))).
  { apply map_ext_in. intros i Hi. apply mask_In in Hi. apply in_seq in Hi.
    replace (i - a) with (S (i - S a)) by lia. reflexivity. }
  destruct b; cbn [map]; rewrite E, <- IH by exact H; [rewrite Nat.sub_diag|]; reflexivity.
Qed.

Lemma mask_gather {A} (m : list bool) (l : list A) d : length l = length m ->
  mask m l = gather l (mask m (seq 0 (length m))) d.
Proof.
  intros H. rewrite (mask_gather_off m l d 0 H). unfold gather. apply map_ext. intros i.
  rewrite Nat.sub_0_r. reflexivity.
Qed.

Lemma mask_all_true {A} (m : list bool) (l : list A) : length l = length m -> (forall b, In b m -> b = true) -> mask m l = l.
Proof.
  revert l. induction m as [|b m IH]; intros [|x l] H Ht; cbn [length] in H; try discriminate; [reflexivity|].
  cbn [mask]. rewrite (Ht b (or_introl eq_refl)). f_equal. apply IH; [lia|]. intros c Hc. apply Ht. right. exact Hc.
Qed.

Lemma mask_count {A} (m : list bool) (l : list A) : length l = length m ->
  length (mask m l) + length (mask (map negb m) l) = length m.
Proof.
  revert l. induction m as [|b m IH]; intros [|x l] H; cbn [length] in H; try discriminate; [reflexivity|].
  injection H as H. specialize (IH l H). destruct b; cbn [map negb mask length]; lia.
Qed.

Lemma mask_neg_nil_all_true {A} (m : list bool) (l : list A) : length l = length m ->
  mask (map negb m) l = [] -> forall b, In b m -> b = true.
Proof.
  revert l. induction m as [|b m IH]; intros [|x l] H Hn c Hc; cbn [length] in H; try discriminate; [destruct Hc|].
  injection H as H. destruct b; cbn [map negb mask] in Hn; [|discriminate].
  destruct Hc as [<-|Hc]; [reflexivity|]. eapply IH; eassumption.
Qed.

(* ------------------------------------------------------------------ somes *)
Lemma somes_mask {A} (l : list (option A)) : somes (mask (map is_some l) l) = somes l.
Proof. induction l as [|[a|] l IH]; cbn [map is_some mask somes]; [reflexivity|f_equal; exact IH|exact IH]. Qed.

Lemma In_somes {A} (l : list (option A)) x : In x (somes l) <-> In (Some x) l.
Proof.
  induction l as [|[a|] l IH]; cbn [somes In]; [tauto| |].
  - rewrite IH. split; intros [H|H]; [left; congruence|right; exact H|left; congruence|right; exact H].
  - rewrite IH. split; [intros H; right; exact H|intros [H|H]; [discriminate|exact H]].
Qed.

(* the j-th retained position holds the j-th compacted old index *)
Lemma retained_spec_off (l : list (option nat)) a :
  length (mask (map is_some l) (seq a (length l))) = length (somes l) /\
  forall j, j < length (somes l) ->
    nth (nth j (mask (map is_some l) (seq a (length l))) 0 - a) l None = Some (nth j (somes l) 0).
Proof.
  revert a. induction l as [|[x|] l IH]; intros a; cbn [length map is_some seq mask somes].
  - split; [reflexivity|]. intros j H. lia.
  - destruct (IH (S a)) as [L N]. split; [cbn [length]; lia|].
    intros [|j] H; cbn [nth].
    + rewrite Nat.sub_diag. reflexivity.
    + cbn [length] in H. assert (Hj : j < length (somes l)) by lia. specialize (N j Hj).
      assert (Hin : In (nth j (mask (map is_some l) (seq (S a) (length l))) 0) (seq (S a) (length l))).
      { eapply mask_In. apply nth_In. rewrite L. exact Hj. }
      apply in_seq in Hin.
      replace (nth j (mask (map is_some l) (seq (S a) (length l))) 0 - a)
        with (S (nth j (mask (map is_some l) (seq (S a) (length l))) 0 - S a)) by lia.
      exact N.
  - destruct (IH (S a)) as [L N]. split; [exact L|].
    intros j Hj. specialize (N j Hj).
    assert (Hin : In (nth j (mask (map is_some l) (seq (S a) (length l))) 0) (seq (S a) (length l))).
    { eapply mask_In. apply nth_In. rewrite L. exact Hj. }
    apply in_seq in Hin.
    replace (nth j (mask (map is_some l) (seq (S a) (length l))) 0 - a)
      with (S (nth j (mask (map is_some l) (seq (S a) (length l))) 0 - S a)) by lia.
    exact N.
Qed.

Lemma retained_spec (l : list (option nat)) :
  let R := mask (map is_some l) (seq 0 (length l)) in
  length R = length (somes l) /\
  forall j, j < length R -> nth (nth j R 0) l None = Some (nth j (somes l) 0).
Proof.
  cbn zeta. destruct (retained_spec_off l 0) as [L N]. split; [exact L|].
  intros j Hj. rewrite L in Hj. specialize (N j Hj). rewrite Nat.sub_0_r in N. exact N.
Qed.

(* ------------------------------------------------------------------ upd / scatter *)
Lemma upd_length {A} (l : list A) k v : length (upd l k v) = length l.
Proof. revert k. induction l as [|a l IH]; intros [|k]; cbn [upd length]; auto. Qed.

Lemma nth_upd_same {A} (l : list A) k v d : k < length l -> nth k (upd l k v) d = v.
Proof.
  revert k. induction l as [|a l IH]; intros [|k] H; cbn [length] in H; try lia; cbn [upd nth]; [reflexivity|].
  apply IH. lia.
Qed.

Lemma nth_upd_other {A} (l : list A) i k v d : i <> k -> nth k (upd l i v) d = nth k l d.
Proof.
  revert i k. induction l as [|a l IH]; intros [|i] [|k] H; cbn [upd nth]; try reflexivity; try lia.
  apply IH. lia.
Qed.

Lemma In_upd {A} (l : list A) k v x : In x (upd l k v) -> x = v \/ In x l.
Proof.
  revert k. induction l as [|a l IH]; intros [|k]; cbn [upd In]; try tauto.
  - intros [H|H]; [left; congruence|right; right; exact H].
  - intros [H|H]; [right; left; exact H|]. destruct (IH k H) as [E|E]; [left; exact E|right; right; exact E].
Qed.

Lemma scatter_length {A} (b : list A) idx vals : length (scatter b idx vals) = length b.
Proof.
  unfold scatter. revert b vals. induction idx as [|i idx IH]; intros b [|v vals]; cbn [combine fold_left]; try reflexivity.
  rewrite IH. apply upd_length.
Qed.

Lemma scatter_cons {A} (b : list A) i idx v vals :
  scatter b (i :: idx) (v :: vals) = scatter (upd b i v) idx vals.
Proof. reflexivity. Qed.

Lemma nth_scatter_notin {A} (b : list A) idx vals k d : ~ In k idx -> nth k (scatter b idx vals) d = nth k b d.
Proof.
  revert b vals. induction idx as [|i idx IH]; intros b [|v vals] H; try reflexivity.
  rewrite scatter_cons, IH by (intro; apply H; right; assumption).
  apply nth_upd_other. intro E. apply H. left. exact E.
Qed.

Lemma nth_scatter_in {A} (b : list A) idx vals j d :
  NoDup idx -> j < length idx -> j < length vals -> nth j idx 0 < length b ->
  nth (nth j idx 0) (scatter b idx vals) d = nth j vals d.
Proof.
  revert b vals j. induction idx as [|i idx IH]; intros b [|v vals] j Hn H1 H2 H3; cbn [length] in *; try lia.
  inversion Hn as [|? ? Hni Hnd]; subst. rewrite scatter_cons. destruct j as [|j]; cbn [nth] in *.
  - rewrite nth_scatter_notin by exact Hni. apply nth_upd_same. exact H3.
  - apply IH; try assumption; try lia. rewrite upd_length. exact H3.
Qed.

Lemma In_scatter {A} (b : list A) idx vals x : In x (scatter b idx vals) -> In x b \/ In x vals.
Proof.
  revert b vals. induction idx as [|i idx IH]; intros b [|v vals] H; try (left; exact H).
  rewrite scatter_cons in H. destruct (IH _ _ H) as [E|E].
  - destruct (In_upd _ _ _ _ E) as [E'|E']; [right; left; symmetry; exact E'|left; exact E'].
  - right. right. exact E.
Qed.

Lemma nth_repeat_lt {A} (x : A) n k d : k < n -> nth k (repeat x n) d = x.
Proof. revert k. induction n as [|n IH]; intros [|k] H; cbn [repeat nth]; try lia; [reflexivity|apply IH; lia]. Qed.

Lemma nth_repeat_None {A} n k : nth k (repeat (@None A) n) None = None.
Proof. revert k. induction n as [|n IH]; intros [|k]; cbn [repeat nth]; auto. Qed.

Lemma nth_seq_lt a n k d : k < n -> nth k (seq a n) d = a + k.
Proof. intros H. apply seq_nth. exact H. Qed.

Lemma in_combine_fst {A B} (l1 : list A) (l2 : list B) x : In x (map fst (combine l1 l2)) -> In x l1.
Proof.
  revert l2. induction l1 as [|a l1 IH]; intros [|b l2]; cbn [combine map In fst]; try tauto.
  intros [H|H]; [left; exact H|right; eapply IH; exact H].
Qed.

(* list extensionality by nth *)
Lemma nth_ext_lt {A} (l1 l2 : list A) d : length l1 = length l2 ->
  (forall k, k < length l1 -> nth k l1 d = nth k l2 d) -> l1 = l2.
Proof. intros H1 H2. apply (nth_ext l1 l2 d d); assumption. Qed.
