(* C10 — prog_equals_ll: the EXACT run (w = identity) of the program model Model/EmdP.v computes what
   the line-level model Model/EmdMcf.v + Model/Emd.v computes (the model the optimality theorems are
   about): whenever the program finishes, emd_hat_int32_ll returns the same distance and flow. *)
From Coq Require Import ZArith List Bool Lia ZifyBool.
From Centro Require Import Base.Sx Base.EmdBase Model.Emd Model.EmdMcf Model.EmdAsIs Model.EmdP
  Proofs.EmdDuality Proofs.EmdIndex.
Import ListNotations.
Open Scope Z_scope.

Notation R := (run idz).

Lemma run_bind {A B} (w : Z -> Z) (p : prog A) (f : A -> prog B) : run w (bindp p f) = run w (f (run w p)).
Proof. induction p as [a|z k IH]; cbn [bindp run]; auto. Qed.
Lemma run_op z : R (op z) = z.
Proof. reflexivity. Qed.
Lemma run_ret {A} (a : A) : R (Ret a) = a.
Proof. reflexivity. Qed.
Lemma run_mapM {A B} (f : A -> prog B) l : R (mapM f l) = map (fun a => R (f a)) l.
Proof. induction l as [|a l IH]; cbn [mapM map]; auto. rewrite !run_bind, IH. reflexivity. Qed.
Lemma run_foldM {A S} (f : S -> A -> prog S) : forall l s, R (foldM f l s) = fold_left (fun s a => R (f s a)) l s.
Proof. induction l as [|a l IH]; intros s; cbn [foldM fold_left]; auto. rewrite run_bind, IH. reflexivity. Qed.

Lemma upd_oor {A} (g : A -> A) : forall (l : list A) i, (length l <= i)%nat -> upd l i g = l.
Proof. induction l as [|x l IH]; intros [|i] H; cbn [upd length] in *; auto; [lia|]. rewrite IH by lia. auto. Qed.
Lemma upd_const {A} (g : A -> A) (d : A) : forall (l : list A) i, upd l i (fun _ => g (nth i l d)) = upd l i g.
Proof. induction l as [|x l IH]; intros [|i]; cbn [upd nth]; auto. rewrite IH. auto. Qed.

Lemma run_updP l i g : R (updP l i g) = upd l i (fun v => R (g v)).
Proof.
  unfold updP. destruct (i <? length l)%nat eqn:E.
  - rewrite run_bind. cbn [run]. unfold nz. apply (upd_const (fun v => R (g v)) 0).
  - apply Nat.ltb_ge in E. rewrite upd_oor by auto. reflexivity.
Qed.
Lemma run_upd2P F i j g : R (upd2P F i j g) = upd2 F i j (fun v => R (g v)).
Proof.
  unfold upd2P, upd2. destruct ((i <? length F)%nat && (j <? length (nth i F []))%nat) eqn:E.
  - rewrite run_bind. cbn [run]. unfold mz.
    rewrite <- (upd_const (fun r => upd r j (fun v => R (g v))) [] F i).
    rewrite <- (upd_const (fun v => R (g v)) 0 (nth i F []) j).
    rewrite <- (upd_const (fun r => upd r j (fun _ => R (g (nth j (nth i F []) 0)))) [] F i). reflexivity.
  - cbn [run]. apply andb_false_iff in E. destruct E as [E|E]; apply Nat.ltb_ge in E.
    + rewrite upd_oor by auto. reflexivity.
    + symmetry. rewrite <- (upd_const (fun r => upd r j (fun v => R (g v))) [] F i).
      rewrite (upd_oor (fun v => R (g v)) (nth i F []) j E).
      clear. revert i. induction F as [|x F IH]; intros [|i]; cbn [upd nth]; auto. rewrite IH. auto.
Qed.

Lemma fold_left_ext {A S} (f g : S -> A -> S) : (forall s a, f s a = g s a) -> forall l s, fold_left f l s = fold_left g l s.
Proof. intros H. induction l as [|a l IH]; intros s; cbn [fold_left]; auto. rewrite H, IH. auto. Qed.

Lemma fold_add_zsum {A} (h : A -> Z) : forall l s, fold_left (fun s a => s + h a) l s = s + zsum (map h l).
Proof. induction l as [|a l IH]; intros s; cbn [fold_left map zsum]; [lia|]. rewrite IH. lia. Qed.
Lemma fold_sub_zsum {A} (h : A -> Z) : forall l s, fold_left (fun s a => s - h a) l s = s - zsum (map h l).
Proof. induction l as [|a l IH]; intros s; cbn [fold_left map zsum]; [lia|]. rewrite IH. lia. Qed.

(* ---------------------------------------------------------------- compute_shortest_path *)
Lemma relax_is_alt u du st v rc : relax u du st v rc = relax_alt u (du + rc) st v.
Proof. reflexivity. Qed.

Lemma run_relax_fwd u du : forall l st, R (relax_fwd_p u du st l) = relax_fwd u du st l.
Proof.
  induction l as [|[v rc] l IH]; intros st; cbn [relax_fwd_p relax_fwd]; auto.
  rewrite run_bind, run_op. rewrite relax_is_alt. destruct (relax_alt u (du + rc) st v); cbn [bind]; auto.
Qed.
Lemma run_relax_bwd u du : forall l st, R (relax_bwd_p u du st l) = relax_bwd u du st l.
Proof.
  induction l as [|[[v rc] cap] l IH]; intros st; cbn [relax_bwd_p relax_bwd]; auto.
  destruct (0 <? cap); auto.
  rewrite run_bind, run_op. rewrite relax_is_alt. destruct (relax_alt u (du + rc) st v); cbn [bind]; auto.
Qed.

Lemma run_dijkstra e rf rb : forall fuel st, R (dijkstra_p fuel e rf rb st) = dijkstra fuel e rf rb st.
Proof.
  induction fuel as [|f IH]; intros st; cbn [dijkstra_p dijkstra]; auto.
  destruct (oget (fst (sp_h st)) 0) as [q0|]; cbn [bind]; auto.
  destruct (nz e (fst q0) <? 0); auto.
  destruct (heap_remove_first _) as [h'|]; cbn [bind]; auto.
  rewrite run_bind, run_relax_fwd. destruct (relax_fwd _ _ _ _) as [st3|]; cbn [bind]; auto.
  rewrite run_bind, run_relax_bwd. destruct (relax_bwd _ _ _ _) as [st4|]; cbn [bind]; auto.
  destruct (fst (sp_h st4)); auto.
Qed.

Lemma run_rc_update fl dd dl fr to rc : R (rc_update_p fl dd dl fr to rc) = rc_update fl dd dl fr to rc.
Proof.
  unfold rc_update_p, rc_update. rewrite run_bind. cbv zeta.
  destruct (fin fl fr); destruct (fin fl to); rewrite ?run_bind, ?run_op, ?run_ret; reflexivity.
Qed.

Lemma run_csp nv d prev from rf rb e :
  R (compute_shortest_path_p nv d prev from rf rb e) = compute_shortest_path nv d prev from rf rb e.
Proof.
  unfold compute_shortest_path_p, compute_shortest_path. rewrite run_bind, run_dijkstra.
  destruct (dijkstra _ _ _ _ _) as [[st l]|]; cbn [bind]; auto.
  rewrite !run_bind, !run_mapM. cbn [run]. f_equal. f_equal. f_equal.
  - f_equal. apply map_ext. intros fx. rewrite run_mapM. apply map_ext. intros en. rewrite run_bind, run_rc_update. reflexivity.
  - apply map_ext. intros fx. rewrite run_mapM. apply map_ext. intros en. rewrite run_bind, run_rc_update. reflexivity.
Qed.

(* ---------------------------------------------------------------- augment *)
Lemma upd_first_x_find l to g : 
  match find_x l to with
  | Some f0 => upd_first_x l to g = upd_first_x l to (fun _ => g f0) /\ upd_first_x l to g <> None
  | None => upd_first_x l to g = None
  end.
Proof.
  induction l as [|en l IH]; cbn [find_x upd_first_x]; auto.
  destruct (fst (fst en) =? to)%nat; [split; [reflexivity|discriminate]|].
  destruct (find_x l to) as [f0|].
  - destruct IH as [A B]. rewrite A. split; auto. destruct (upd_first_x l to (fun _ => g f0)); [discriminate|].
    rewrite A in B. congruence.
  - rewrite IH. reflexivity.
Qed.

Lemma upd_first_bwd_find l t g :
  match find_bwd l t with
  | Some en => upd_first_bwd l t (fun _ => g (snd en)) = upd_first_bwd l t g
  | None => upd_first_bwd l t g = l
  end.
Proof.
  induction l as [|en l IH]; cbn [find_bwd upd_first_bwd]; auto.
  destruct (fst (fst en) =? t)%nat; [reflexivity|].
  destruct (find_bwd l t); rewrite IH; reflexivity.
Qed.

Lemma upd_nth_fun {A} (d : A) (h : A -> A) : forall (l : list A) i, upd l i (fun _ => h (nth i l d)) = upd l i h.
Proof. apply upd_const. Qed.

Lemma run_augment : forall fuel prev k to delta e x rb,
  R (augment_p fuel prev k to delta e x rb) = augment fuel prev k to delta e x rb.
Proof.
  induction fuel as [|f IH]; intros prev k to delta e x rb; cbn [augment_p augment]; auto.
  set (from := nth to prev O).
  pose proof (upd_first_x_find (nth from x []) to (fun fl => fl + delta)) as FX.
  destruct (find_x (nth from x []) to) as [f0|].
  - destruct FX as [FX1 FX2]. rewrite FX1.
    destruct (upd_first_x (nth from x []) to (fun _ => f0 + delta)) as [xf|] eqn:EX; [|rewrite FX1 in FX2; congruence].
    cbn [bind]. rewrite !run_bind, run_op.
    (* the x update *)
    assert (X1 : upd x from (fun l => match upd_first_x l to (fun _ => f0 + delta) with Some l' => l' | None => l end)
                 = upd x from (fun _ => xf)).
    { rewrite <- (upd_const (fun l => match upd_first_x l to (fun _ => f0 + delta) with Some l' => l' | None => l end) [] x from).
      rewrite EX. reflexivity. }
    rewrite X1.
    (* the two capacity updates *)
    pose proof (upd_first_bwd_find (nth to rb []) from (fun c0 => c0 + delta)) as B1.
    assert (RB1 : R (match find_bwd (nth to rb []) from with
                     | Some en => nc <-- op (snd en + delta) ;;; Ret (upd rb to (fun l => upd_first_bwd l from (fun _ => nc)))
                     | None => Ret rb end)
                  = upd rb to (fun l => upd_first_bwd l from (fun c0 => c0 + delta))).
    { destruct (find_bwd (nth to rb []) from) as [en|].
      - rewrite run_bind, run_op. cbn [run].
        rewrite <- (upd_const (fun l => upd_first_bwd l from (fun _ => snd en + delta)) [] rb to).
        rewrite <- (upd_const (fun l => upd_first_bwd l from (fun c0 => c0 + delta)) [] rb to). rewrite B1. reflexivity.
      - cbn [run]. rewrite <- (upd_const (fun l => upd_first_bwd l from (fun c0 => c0 + delta)) [] rb to). rewrite B1.
        clear. revert to. induction rb as [|y r IHr]; intros [|t]; cbn [upd nth]; auto. rewrite IHr at 1. reflexivity. }
    rewrite RB1. set (rb1 := upd rb to (fun l => upd_first_bwd l from (fun c0 => c0 + delta))).
    pose proof (upd_first_bwd_find (nth from rb1 []) to (fun c0 => c0 - delta)) as B2.
    assert (RB2 : R (match find_bwd (nth from rb1 []) to with
                     | Some en => nc <-- op (snd en - delta) ;;; Ret (upd rb1 from (fun l => upd_first_bwd l to (fun _ => nc)))
                     | None => Ret rb1 end)
                  = upd rb1 from (fun l => upd_first_bwd l to (fun c0 => c0 - delta))).
    { destruct (find_bwd (nth from rb1 []) to) as [en|].
      - rewrite run_bind, run_op. cbn [run].
        rewrite <- (upd_const (fun l => upd_first_bwd l to (fun _ => snd en - delta)) [] rb1 from).
        rewrite <- (upd_const (fun l => upd_first_bwd l to (fun c0 => c0 - delta)) [] rb1 from). rewrite B2. reflexivity.
      - cbn [run]. rewrite <- (upd_const (fun l => upd_first_bwd l to (fun c0 => c0 - delta)) [] rb1 from). rewrite B2.
        clear. generalize from. induction rb1 as [|y r IHr]; intros [|t]; cbn [upd nth]; auto. rewrite IHr at 1. reflexivity. }
    rewrite RB2. rewrite !run_updP.
    assert (E1 : upd e to (fun v => R (op (v + delta))) = upd e to (fun v => v + delta)) by reflexivity.
    rewrite E1.
    assert (E2 : forall l, upd l from (fun v => R (op (v - delta))) = upd l from (fun v => v - delta)) by reflexivity.
    rewrite E2. fold from. destruct (from =? k)%nat; [reflexivity|apply IH].
  - rewrite FX. reflexivity.
Qed.

(* ---------------------------------------------------------------- the solver loop *)
Lemma run_mcf_step st : R (mcf_step_p st) = mcf_step st.
Proof.
  unfold mcf_step_p, mcf_step. destruct (pick_supply (m_e st) 0 0 0) as [ms k].
  destruct (ms =? 0); auto. rewrite run_bind, run_csp.
  destruct (compute_shortest_path _ _ _ _ _ _ _) as [[[[[d prev] rf] rb] l]|]; auto.
  destruct (l =? k)%nat; auto. destruct (scan_delta _ _ _ _ _ _) as [delta|]; auto.
  rewrite run_bind, run_augment. destruct (augment _ _ _ _ _ _ _ _) as [[[e' x'] rb']|]; auto.
Qed.

Lemma run_mcf_iter : forall k st, R (mcf_iter_p k st) = mcf_iter k st.
Proof.
  induction k as [|k IH]; intros st; cbn [mcf_iter_p mcf_iter]; [apply run_mcf_step|].
  rewrite run_bind, IH. destruct (mcf_iter k st); auto.
Qed.

Lemma run_mcf_init e c : R (mcf_init_p e c) = mcf_init e c.
Proof.
  unfold mcf_init_p, mcf_init. rewrite run_bind, run_mapM. cbn [run]. f_equal.
  apply map_ext. intros v. rewrite run_mapM. rewrite flat_map_filter. apply map_ext. intros a.
  rewrite run_bind, run_op. reflexivity.
Qed.

Lemma mcf_iter_done_mono k st s : mcf_iter k st = MDone s -> mcf_iter (S k) st = MDone s.
Proof. intros H. cbn [mcf_iter]. rewrite H. reflexivity. Qed.
Lemma mcf_iter_done_le : forall j k st s, (k <= j)%nat -> mcf_iter k st = MDone s -> mcf_iter j st = MDone s.
Proof.
  induction j as [|j IH]; intros k st s L H.
  - assert (k = O) by lia. subst. auto.
  - destruct (Nat.eq_dec k (S j)) as [->|N]; auto. apply mcf_iter_done_mono. apply (IH k); auto. lia.
Qed.

Lemma x_dist_fold x : fold_left (fun s l => fold_left (fun s en => s + snd (fst en) * snd en) l s) x 0 = x_dist x.
Proof.
  unfold x_dist.
  assert (G : forall x s, fold_left (fun s l => fold_left (fun s (en : nat * Z * Z) => s + snd (fst en) * snd en) l s) x s
              = s + zsum (map (fun l => zsum (map (fun en : nat * Z * Z => snd (fst en) * snd en) l)) x)).
  { induction x0 as [|l x0 IH]; intros s; cbn [fold_left map zsum]; [lia|].
    rewrite IH. rewrite (fold_add_zsum (fun en : nat * Z * Z => snd (fst en) * snd en)). lia. }
  rewrite G. lia.
Qed.

Lemma run_min_cost_flow e c d x : R (min_cost_flow_p e c) = (0, d, x) -> min_cost_flow_ll e c = Some (d, x).
Proof.
  unfold min_cost_flow_p, min_cost_flow_ll. rewrite !run_bind, run_mcf_init, run_mcf_iter.
  destruct (mcf_iter p_levels (mcf_init e c)) as [st|st|] eqn:E; cbn [run]; try discriminate.
  rewrite run_bind, run_foldM. cbn [run]. intros H. injection H as <- <-.
  rewrite (mcf_iter_done_le ssp_levels p_levels _ _ ltac:(unfold ssp_levels, p_levels; lia) E).
  rewrite <- x_dist_fold. f_equal. f_equal. apply fold_left_ext. intros s l.
  rewrite run_foldM. apply fold_left_ext. intros s0 en. reflexivity.
Qed.

(* ---------------------------------------------------------------- emd_hat_impl.hpp *)
Lemma fold_zsum l : fold_left (fun s x => R (op (s + x))) l 0 = zsum l.
Proof. transitivity (fold_left (fun s x => s + x) l 0); [apply fold_left_ext; reflexivity|]. rewrite (fold_add_zsum (fun x => x)). rewrite map_id. lia. Qed.

Lemma run_reduce Pc Qc Cc emp : R (reduce_p Pc Qc Cc emp) = reduce Pc Qc Cc emp.
Proof.
  unfold reduce_p, reduce. rewrite !run_bind, !run_foldM, !fold_zsum. cbv zeta.
  set (swap := zsum Pc <? zsum Qc).
  assert (D : R (if swap then op (zsum Qc - zsum Pc) else op (zsum Pc - zsum Qc)) = if swap then zsum Qc - zsum Pc else zsum Pc - zsum Qc)
    by (destruct swap; reflexivity).
  assert (NQ : forall Q0, R (mapM (fun x => op (- x)) Q0) = map Z.opp Q0) by (intros; rewrite run_mapM; apply map_ext; reflexivity).
  rewrite D. rewrite !NQ. cbn [run]. unfold op. cbn [run bindp]. unfold idz.
  set (P := if swap then Qc else Pc). set (Q := if swap then Pc else Qc).
  set (diff := if swap then zsum Qc - zsum Pc else zsum Pc - zsum Qc).
  f_equal; try reflexivity.
  - (* pre_flow_cost *)
    match goal with |- fold_left ?f ?g 0 = zsum (map ?h ?g') =>
      transitivity (fold_left (fun s v => s + h v) g 0); [apply fold_left_ext; intros s v|rewrite (fold_add_zsum h); apply Z.add_0_l] end.
    destruct (length Pc <=? v)%nat; cbn [run bindp]; unfold idz; lia.
  - (* bb: the threshold node's balance *)
    f_equal. f_equal.
    match goal with |- fold_left ?f ?g ?s0 = ?s0' + zsum (map ?h ?g') =>
      transitivity (fold_left (fun s v => s + h v) g s0); [apply fold_left_ext; reflexivity|rewrite (fold_add_zsum h); reflexivity] end.
Qed.

Lemma run_read_back r x F0 : R (read_back_p r x F0) = read_back r x F0.
Proof.
  unfold read_back_p, read_back. rewrite run_foldM. apply fold_left_ext. intros F fx.
  rewrite run_foldM. apply fold_left_ext. intros F1 en. cbv zeta.
  destruct ((fst fx =? length (r_old r) - 2)%nat || (fst (fst en) =? length (r_old r) - 2)%nat); [reflexivity|].
  destruct (snd en =? 0); [reflexivity|].
  match goal with |- context [if (?a <? r_N r)%nat then _ else _] => destruct (a <? r_N r)%nat end; [reflexivity|].
  destruct (r_swap r); destruct (fst (fst en) <? fst fx)%nat; rewrite run_upd2P; reflexivity.
Qed.

Lemma run_tf_loop N : forall fuel i j fP fQ F, R (tf_loop_p fuel N i j fP fQ F) = tf_loop fuel N i j fP fQ F.
Proof.
  induction fuel as [|f IH]; intros i j fP fQ F; cbn [tf_loop_p tf_loop]; cbv zeta.
  - destruct ((skipz N N fP i =? N)%nat || (skipz N N fQ j =? N)%nat); reflexivity.
  - destruct ((skipz N N fP i =? N)%nat || (skipz N N fQ j =? N)%nat); [reflexivity|].
    destruct (nz fP (skipz N N fP i) <? nz fQ (skipz N N fQ j)).
    + rewrite !run_bind, run_updP, run_upd2P, IH. reflexivity.
    + rewrite !run_bind, run_updP, run_upd2P, IH. reflexivity.
Qed.

Lemma run_transform F P Q : R (transform_p F P Q) = transform_flow_to_regular F P Q.
Proof.
  unfold transform_p, transform_flow_to_regular. rewrite !run_bind, !run_mapM, run_tf_loop. cbv zeta. f_equal.
  - apply map_ext. intros i. rewrite run_foldM.
    transitivity (fold_left (fun s j => s - mz F i j) (seq 0 (length P)) (nz P i)); [apply fold_left_ext; reflexivity|].
    apply (fold_sub_zsum (fun j => mz F i j)).
  - apply map_ext. intros j. rewrite run_foldM.
    transitivity (fold_left (fun s i => s - mz F i j) (seq 0 (length P)) (nz Q j)); [apply fold_left_ext; reflexivity|].
    apply (fold_sub_zsum (fun i => mz F i j)).
Qed.

Lemma run_emd_impl ft POrig QOrig Pc Qc Cc emp F0 d F :
  R (emd_impl_p ft POrig QOrig Pc Qc Cc emp F0) = (0, d, F) -> emd_impl_ll ft POrig QOrig Pc Qc Cc emp F0 = Some (d, F).
Proof.
  unfold emd_impl_p, emd_impl_ll. rewrite !run_bind, run_reduce. cbv zeta.
  destruct (R (min_cost_flow_p (r_bb (reduce Pc Qc Cc emp)) (r_cc (reduce Pc Qc Cc emp)))) as [[status md] x] eqn:EM.
  destruct (status =? 0) eqn:ES; cbn [negb]; cbv iota; [|cbn [run]; intros H; injection H as H _ _; lia].
  assert (status = 0) by lia. subst status. rewrite (run_min_cost_flow _ _ _ _ EM).
  rewrite !run_bind, !run_op. unfold idz. change (fun z : Z => z) with idz.
  assert (F1E : R (if ft =? 0 then Ret F0 else read_back_p (reduce Pc Qc Cc emp) x F0) =
                if ft =? 0 then F0 else read_back (reduce Pc Qc Cc emp) x F0)
    by (destruct (ft =? 0); [reflexivity|apply run_read_back]).
  rewrite F1E. destruct (ft =? 2).
  - rewrite run_bind, run_transform. destruct (transform_flow_to_regular _ _ _) as [F2|]; cbn [run].
    + intros H. injection H as <- <-. reflexivity.
    + intros H. discriminate.
  - cbn [run]. intros H. injection H as <- <-. reflexivity.
Qed.

Lemma run_preflow P Q : R (preflow_p P Q) = preflow P Q.
Proof.
  unfold preflow_p, preflow. rewrite run_mapM. apply map_ext. intros pq. cbv zeta.
  destruct (fst pq <? snd pq); rewrite run_bind, run_op; reflexivity.
Qed.

Lemma run_emd_hat ft gd P Q C emp d F :
  R (emd_hat_p ft gd P Q C emp) = (0, d, F) -> emd_hat_ll ft gd P Q C emp = Some (d, F).
Proof.
  unfold emd_hat_p, emd_hat_ll. destruct gd.
  - rewrite run_bind, run_preflow. apply run_emd_impl.
  - apply run_emd_impl.
Qed.

(* prog_equals_ll: whenever the exact run of the program model finishes (status 0), the line-level
   model of Model/EmdMcf.v returns exactly its distance and flow *)
Theorem prog_equals_ll p q c pen ft gd d F :
  emd_int32_exact p q c pen ft gd = (0, d, F) -> emd_hat_int32_ll p q c pen ft gd = Some (d, F).
Proof.
  unfold emd_int32_exact, emd_hat_int32_p, emd_hat_int32_ll.
  set (v3 := if (length q <? length p)%nat then (p, resize (length p) q, map (resize (length p)) c)
             else if (length p <? length q)%nat then (resize (length q) p, q, c ++ repeat (zeros (length q)) (length q - length p))
             else (p, q, c)).
  destruct v3 as [[vp vq] vc]. rewrite run_bind.
  destruct (R (emd_hat_p ft gd vp vq vc match pen with Some v => v | None => -1 end)) as [[status d0] F0] eqn:E.
  destruct (ft =? 0); cbn [run]; intros H; injection H as -> <- <-; rewrite (run_emd_hat _ _ _ _ _ _ _ _ E); reflexivity.
Qed.
