(* C10 — the model's successive-shortest-path solver returns a FLOW of the graph it was given:
   whenever [ssp] returns (not out of fuel), every arc carries a non-negative net amount and
   at every node net outflow = supply (inflow = demand), provided supplies and demands cancel —
   which [reduce_balanced] proves for the graph built by the reduction. All sizes, all graphs. *)
From Coq Require Import ZArith List Bool Lia ZifyBool.
From Centro Require Import Base.Sx Base.EmdBase Spec.Emd Model.Emd Proofs.EmdDuality Proofs.EmdModel.
Import ListNotations.
Open Scope Z_scope.

Definition b2z (b : bool) : Z := if b then 1 else 0.
Definition contrib (v : nat) (a : arc) : Z :=
  b2z (a_from a =? v)%nat * net a - b2z (a_to a =? v)%nat * net a.
Definition outflow (arcs : list arc) (v : nat) : Z := zsum (map (contrib v) arcs).
Definition skel (a : arc) : nat * nat * Z := (a_from a, a_to a, a_cost a).

(* ---------------------------------------------------------------- upd on lists *)
Lemma upd_length {A} (g : A -> A) : forall (l : list A) i, length (upd l i g) = length l.
Proof. induction l as [|x l IH]; intros [|i]; cbn [upd length]; auto. Qed.

Lemma nth_upd {A} (g : A -> A) (d : A) : forall (l : list A) i j,
  nth j (upd l i g) d = if (i =? j)%nat && (i <? length l)%nat then g (nth j l d) else nth j l d.
Proof.
  induction l as [|x l IH]; intros i j.
  - cbn [upd length]. replace (i <? 0)%nat with false by (symmetry; apply Nat.ltb_ge; lia).
    rewrite andb_false_r. reflexivity.
  - destruct i as [|i], j as [|j]; cbn [upd nth length]; auto.
    rewrite IH. reflexivity.
Qed.

Lemma zsum_map_upd {A} (h : A -> Z) (g : A -> A) (d : A) : forall (l : list A) i, (i < length l)%nat ->
  zsum (map h (upd l i g)) = zsum (map h l) + h (g (nth i l d)) - h (nth i l d).
Proof.
  induction l as [|x l IH]; intros i Hi; [cbn [length] in Hi; lia|].
  destruct i as [|i]; cbn [upd map zsum nth].
  - lia.
  - cbn [length] in Hi. rewrite IH by lia. lia.
Qed.

Lemma nz_upd (g : Z -> Z) l i j :
  nz (upd l i g) j = if (i =? j)%nat && (i <? length l)%nat then g (nz l j) else nz l j.
Proof. unfold nz. apply nth_upd. Qed.

(* ---------------------------------------------------------------- one augmentation step *)
Lemma add_flow_skel fwd dl a : skel (add_flow fwd dl a) = skel a.
Proof. destruct fwd; reflexivity. Qed.

Lemma contrib_add_flow v fwd dl a :
  contrib v (add_flow fwd dl a) =
  contrib v a + b2z ((if fwd then a_from a else a_to a) =? v)%nat * dl
              - b2z ((if fwd then a_to a else a_from a) =? v)%nat * dl.
Proof. unfold contrib, net. destruct fwd; cbn [add_flow a_from a_to a_fp a_fm]; lia. Qed.

Lemma outflow_step arcs st dl v : (fst st < length arcs)%nat ->
  outflow (upd arcs (fst st) (add_flow (snd st) dl)) v =
  outflow arcs v + b2z (step_src arcs st =? v)%nat * dl - b2z (step_dst arcs st =? v)%nat * dl.
Proof.
  intros Hi. unfold outflow. rewrite (zsum_map_upd (contrib v) _ dummy_arc) by auto.
  rewrite contrib_add_flow. unfold step_src, step_dst. cbv zeta. lia.
Qed.

(* a path as a chain of steps from u to w *)
Fixpoint chain (arcs : list arc) (path : list (nat * bool)) (u w : nat) : Prop :=
  match path with
  | [] => u = w
  | st :: rest => (fst st < length arcs)%nat /\ step_src arcs st = u /\ chain arcs rest (step_dst arcs st) w
  end.

Lemma skel_nth arcs arcs' : map skel arcs = map skel arcs' ->
  forall i, skel (nth i arcs dummy_arc) = skel (nth i arcs' dummy_arc).
Proof.
  intros H i. change (skel dummy_arc) with (skel dummy_arc).
  rewrite <- (map_nth skel arcs dummy_arc i), <- (map_nth skel arcs' dummy_arc i), H. reflexivity.
Qed.

Lemma step_skel arcs arcs' st : map skel arcs = map skel arcs' ->
  step_src arcs st = step_src arcs' st /\ step_dst arcs st = step_dst arcs' st.
Proof.
  intros H. pose proof (skel_nth arcs arcs' H (fst st)) as E. unfold skel in E.
  unfold step_src, step_dst. cbv zeta. injection E as E1 E2 E3. rewrite E1, E2. auto.
Qed.

Lemma chain_skel arcs arcs' path : map skel arcs = map skel arcs' ->
  forall u w, chain arcs path u w -> chain arcs' path u w.
Proof.
  intros H. induction path as [|st rest IH]; intros u w; cbn [chain]; auto.
  intros [Hi [Hs Hc]]. destruct (step_skel arcs arcs' st H) as [E1 E2].
  assert (L : length arcs = length arcs') by (rewrite <- (map_length skel arcs), H, map_length; auto).
  repeat split; try lia. rewrite <- E2. apply IH; auto.
Qed.

Lemma upd_skel arcs i fwd dl : map skel (upd arcs i (add_flow fwd dl)) = map skel arcs.
Proof.
  revert i. induction arcs as [|a arcs IH]; intros [|i]; cbn [upd map]; auto.
  - rewrite add_flow_skel. reflexivity.
  - rewrite IH. reflexivity.
Qed.

Lemma push_skel path dl : forall arcs, map skel (push arcs path dl) = map skel arcs.
Proof.
  unfold push. induction path as [|st rest IH]; intros arcs; cbn [fold_left]; auto.
  rewrite IH. apply upd_skel.
Qed.

Lemma push_outflow path dl v : forall arcs u w, chain arcs path u w ->
  outflow (push arcs path dl) v = outflow arcs v + b2z (u =? v)%nat * dl - b2z (w =? v)%nat * dl.
Proof.
  unfold push. induction path as [|st rest IH]; intros arcs u w; cbn [chain fold_left].
  - intros ->. lia.
  - intros [Hi [Hs Hc]].
    assert (S : map skel arcs = map skel (upd arcs (fst st) (add_flow (snd st) dl)))
      by (symmetry; apply upd_skel).
    rewrite (IH _ (step_dst arcs st) w) by (eapply chain_skel; eauto).
    rewrite outflow_step by auto. rewrite Hs. lia.
Qed.

Lemma trace_chain arcs p k l : forall fuel v acc path,
  trace fuel arcs p k v acc = Some path -> chain arcs acc v l -> chain arcs path k l.
Proof.
  induction fuel as [|f IH]; intros v acc path; cbn [trace].
  - destruct (v =? k)%nat eqn:E; [|discriminate]. intros H C. injection H as <-.
    apply Nat.eqb_eq in E. subst. auto.
  - destruct (v =? k)%nat eqn:E.
    + intros H C. injection H as <-. apply Nat.eqb_eq in E. subst. auto.
    + destruct (nth v p None) as [st|]; [|discriminate].
      destruct ((fst st <? length arcs)%nat && (step_dst arcs st =? v)%nat) eqn:G; [|discriminate].
      apply andb_prop in G. destruct G as [G1 G2]. apply Nat.ltb_lt in G1. apply Nat.eqb_eq in G2.
      intros H C. eapply IH; eauto. cbn [chain]. rewrite G2. auto.
Qed.

(* ---------------------------------------------------------------- the loop *)
Lemma pick_supply_ge : forall e i best k, best <= fst (pick_supply e i best k) /\
  forall x, In x e -> x <= fst (pick_supply e i best k).
Proof.
  induction e as [|y e IH]; intros i best k; cbn [pick_supply fst].
  - split; [lia|]. intros x [].
  - destruct (best <? y) eqn:E.
    + destruct (IH (S i) y i) as [A B]. split; [lia|]. intros x [->|Hx]; auto.
    + destruct (IH (S i) best k) as [A B]. split; auto. intros x [->|Hx]; auto. lia.
Qed.

Definition nonneg_flow (arcs : list arc) : Prop := forall a, In a arcs -> 0 <= net a.

Theorem ssp_conserves : forall fuel e arcs arcs',
  ssp fuel e arcs = Some arcs' -> nonneg_flow arcs ->
  map skel arcs' = map skel arcs /\ nonneg_flow arcs' /\
  exists e', length e' = length e /\ (forall x, In x e' -> x <= 0) /\
             forall v, nz e' v + outflow arcs' v = nz e v + outflow arcs v.
Proof.
  induction fuel as [|f IH]; intros e arcs arcs'; cbn [ssp].
  - destruct (pick_supply e 0 0 0) as [ms k] eqn:PS.
    destruct (ms =? 0) eqn:E0; [|discriminate].
    intros H NN. injection H as <-. repeat split; auto.
    exists e. repeat split; auto.
    intros x Hx. destruct (pick_supply_ge e O 0 O) as [_ B]. specialize (B x Hx). rewrite PS in B. cbn [fst] in B. lia.
  - destruct (pick_supply e 0 0 0) as [ms k] eqn:PS.
    destruct (ms =? 0) eqn:E0.
    { intros H NN. injection H as <-. repeat split; auto.
      exists e. repeat split; auto.
      intros x Hx. destruct (pick_supply_ge e O 0 O) as [_ B]. specialize (B x Hx). rewrite PS in B. cbn [fst] in B. lia. }
    destruct (bellman (length e) arcs (setnth (repeat None (length e)) k (Some 0)) (repeat None (length e))) as [d p].
    destruct (pick_deficit e d 0 None) as [[dd l]|]; [|discriminate].
    destruct (trace (S (length e)) arcs p k l []) as [path|] eqn:TR; [|discriminate].
    set (dl := path_delta arcs path ms).
    destruct ((0 <? dl) && (k <? length e)%nat && (l <? length e)%nat &&
              forallb (fun a => 0 <=? net a) (push arcs path dl)) eqn:G; [|discriminate].
    rewrite !andb_true_iff in G. destruct G as [[[G1 G2] G3] G4].
    apply Nat.ltb_lt in G2. apply Nat.ltb_lt in G3.
    intros H NN.
    assert (NN' : nonneg_flow (push arcs path dl)).
    { intros a Ha. rewrite forallb_forall in G4. specialize (G4 a Ha). cbv beta in G4. lia. }
    destruct (IH _ _ _ H NN') as [S [N' [e' [L [Neg Cons]]]]].
    split; [rewrite S; apply push_skel|]. split; auto.
    exists e'. split; [rewrite L, !upd_length; auto|]. split; auto.
    intros v. rewrite Cons.
    assert (C : chain arcs path k l) by (eapply trace_chain; eauto; cbn [chain]; auto).
    rewrite (push_outflow path dl v arcs k l C).
    rewrite !nz_upd, !upd_length.
    assert (K : (k <? length e)%nat = true) by (apply Nat.ltb_lt; auto).
    assert (Lb : (l <? length e)%nat = true) by (apply Nat.ltb_lt; auto).
    rewrite K, Lb, !andb_true_r. unfold b2z.
    destruct (l =? v)%nat; destruct (k =? v)%nat; lia.
Qed.

(* ---------------------------------------------------------------- from excesses to conservation *)
Lemma b2z_count (x : nat) : forall nv s, zsum (map (fun v => b2z (x =? v)%nat) (seq s nv)) = b2z ((s <=? x)%nat && (x <? s + nv)%nat).
Proof.
  induction nv as [|nv IH]; intros s; cbn [seq map zsum].
  - destruct (s <=? x)%nat eqn:A; destruct (x <? s + 0)%nat eqn:B; cbn [andb b2z]; auto.
    apply Nat.leb_le in A. apply Nat.ltb_lt in B. lia.
  - rewrite IH. unfold b2z.
    destruct (x =? s)%nat eqn:E1; destruct (S s <=? x)%nat eqn:E2; destruct (x <? S s + nv)%nat eqn:E3;
    destruct (s <=? x)%nat eqn:E4; destruct (x <? s + S nv)%nat eqn:E5; cbn [andb]; try lia;
    rewrite ?Nat.eqb_eq, ?Nat.eqb_neq, ?Nat.leb_le, ?Nat.leb_gt, ?Nat.ltb_lt, ?Nat.ltb_ge in *; lia.
Qed.

Definition wf_arcs (nv : nat) (arcs : list arc) : Prop :=
  forall a, In a arcs -> (a_from a < nv)%nat /\ (a_to a < nv)%nat.

Lemma outflow_total nv arcs : wf_arcs nv arcs -> zsum (map (outflow arcs) (seq 0 nv)) = 0.
Proof.
  intros WF. unfold outflow.
  transitivity (zsum (map (fun v => zsum (map (fun a => contrib v a) arcs)) (seq 0 nv))); [reflexivity|].
  rewrite (zsum_swap (fun v a => contrib v a) (seq 0 nv) arcs).
  apply zsum_map_zero. intros a Ha. destruct (WF a Ha) as [A B]. unfold contrib.
  rewrite (zsum_map_ext _ (fun v => net a * b2z (a_from a =? v)%nat + (- net a) * b2z (a_to a =? v)%nat))
    by (intros; lia).
  rewrite zsum_map_add, !zsum_map_scale, !b2z_count.
  assert (E1 : ((0 <=? a_from a)%nat && (a_from a <? 0 + nv)%nat) = true)
    by (apply andb_true_intro; split; [apply Nat.leb_le | apply Nat.ltb_lt]; lia).
  assert (E2 : ((0 <=? a_to a)%nat && (a_to a <? 0 + nv)%nat) = true)
    by (apply andb_true_intro; split; [apply Nat.leb_le | apply Nat.ltb_lt]; lia).
  rewrite E1, E2. cbn [b2z]. lia.
Qed.

Lemma wf_skel nv arcs arcs' : map skel arcs' = map skel arcs -> wf_arcs nv arcs -> wf_arcs nv arcs'.
Proof.
  intros S WF a Ha. destruct (In_nth _ _ dummy_arc Ha) as [i [Hi E]].
  pose proof (skel_nth arcs' arcs S i) as K. rewrite E in K. unfold skel in K. injection K as K1 K2 K3.
  assert (L : length arcs' = length arcs) by (rewrite <- (map_length skel arcs'), S, map_length; auto).
  assert (I : In (nth i arcs dummy_arc) arcs) by (apply nth_In; lia).
  destruct (WF _ I). lia.
Qed.

Lemma all_nonpos_sum0 : forall l, (forall x, In x l -> x <= 0) -> zsum l = 0 -> forall x, In x l -> x = 0.
Proof.
  induction l as [|y l IH]; intros Hn Hs x Hx; [destruct Hx|].
  cbn [zsum] in Hs.
  assert (y <= 0) by (apply Hn; left; auto).
  assert (zsum l <= 0).
  { clear - Hn. induction l as [|z l IH]; cbn [zsum]; [lia|].
    assert (z <= 0) by (apply Hn; right; left; auto).
    assert (zsum l <= 0) by (apply IH; intros x [->|Hx]; apply Hn; [left|right; right]; auto). lia. }
  destruct Hx as [->|Hx]; [lia|]. apply IH; auto; [intros; apply Hn; right; auto | lia].
Qed.

(* The solver's result is a flow: arcs unchanged, net amounts >= 0, and at every node the net
   outflow equals the supply (negative = demand) the solver was given. *)
Theorem ssp_feasible_flow : forall fuel e arcs' arcs0,
  (forall a, In a arcs0 -> net a = 0) -> wf_arcs (length e) arcs0 -> zsum e = 0 ->
  ssp fuel e arcs0 = Some arcs' ->
  map skel arcs' = map skel arcs0 /\ nonneg_flow arcs' /\
  forall v, (v < length e)%nat -> outflow arcs' v = nz e v.
Proof.
  intros fuel e arcs' arcs0 Z0 WF SE H.
  assert (NN : nonneg_flow arcs0) by (intros a Ha; rewrite Z0; auto; lia).
  destruct (ssp_conserves _ _ _ _ H NN) as [S [N' [e' [L [Neg Cons]]]]].
  split; auto. split; auto.
  assert (O0 : forall v, outflow arcs0 v = 0).
  { intros v. unfold outflow. apply zsum_map_zero. intros a Ha. unfold contrib. rewrite Z0; auto. lia. }
  assert (T' : zsum (map (outflow arcs') (seq 0 (length e))) = 0)
    by (apply outflow_total; eapply wf_skel; eauto).
  assert (Se' : zsum e' = 0).
  { assert (X : zsum (map (fun v => nz e' v + outflow arcs' v) (seq 0 (length e))) =
                zsum (map (fun v => nz e v + outflow arcs0 v) (seq 0 (length e))))
      by (apply zsum_map_ext; intros; apply Cons).
    rewrite !zsum_map_add in X. rewrite T' in X.
    rewrite (zsum_map_zero (outflow arcs0)) in X by (intros; apply O0).
    rewrite <- L in X at 1. rewrite !map_nz_seq, !firstn_all in X by lia. lia. }
  intros v Hv. specialize (Cons v). rewrite O0 in Cons.
  assert (nz e' v = 0).
  { apply (all_nonpos_sum0 e' Neg Se'). unfold nz. apply nth_In. lia. }
  lia.
Qed.

(* ---------------------------------------------------------------- at the level of min_cost_flow *)
Lemma mk_arcs_in cc a : In a (mk_arcs cc) ->
  net a = 0 /\ (a_from a < length cc)%nat /\ In (a_to a, a_cost a) (nth (a_from a) cc []).
Proof.
  unfold mk_arcs. intros H. apply in_concat in H. destruct H as [l [Hl Ha]].
  apply in_map_iff in Hl. destruct Hl as [[fr row] [<- Hfr]].
  apply in_map_iff in Ha. destruct Ha as [[to c] [<- Htc]]. cbn [fst snd] in *.
  unfold net. cbn [a_fp a_fm a_from a_to a_cost]. split; [lia|].
  pose proof (in_combine_l _ _ _ _ Hfr) as I. apply in_seq in I.
  split; [lia|].
  destruct (In_nth _ _ (O, []) Hfr) as [i [Hi E]].
  rewrite combine_length, seq_length, Nat.min_id in Hi.
  rewrite combine_nth in E by (rewrite seq_length; auto). injection E as E1 E2.
  rewrite seq_nth in E1 by auto. cbn in E1. subst fr. rewrite E2. exact Htc.
Qed.

Definition graph_ok (bb : list Z) (cc : list (list (nat * Z))) : Prop :=
  length cc = length bb /\ forall l tc, In l cc -> In tc l -> (fst tc < length bb)%nat.

(* Whenever the model's min-cost-flow solver returns, what it returns is a flow of the graph it
   was given: same arcs, non-negative net amounts, and net outflow = supply at every node. *)
Theorem solver_returns_flow bb cc arcs' :
  graph_ok bb cc -> zsum bb = 0 ->
  ssp (supply_fuel bb) bb (mk_arcs cc) = Some arcs' ->
  map skel arcs' = map skel (mk_arcs cc) /\ nonneg_flow arcs' /\
  forall v, (v < length bb)%nat -> outflow arcs' v = nz bb v.
Proof.
  intros [GL GT] SB H. eapply ssp_feasible_flow; eauto.
  - intros a Ha. apply mk_arcs_in in Ha. tauto.
  - intros a Ha. apply mk_arcs_in in Ha. destruct Ha as [_ [A B]]. split; [lia|].
    apply (GT (nth (a_from a) cc []) (a_to a, a_cost a)); auto. apply nth_In. lia.
Qed.

(* the hypotheses hold for the graph the reduction builds (concrete non-trivial instance: 3 bins,
   unequal mass, one column reachable only through the threshold node); balance holds for every
   input by [reduce_balanced] *)
Definition graph_okb (bb : list Z) (cc : list (list (nat * Z))) : bool :=
  (length cc =? length bb)%nat && forallb (fun l => forallb (fun tc => (fst tc <? length bb)%nat) l) cc.
Lemma graph_okb_ok bb cc : graph_okb bb cc = true -> graph_ok bb cc.
Proof.
  unfold graph_okb, graph_ok. intros H. apply andb_prop in H. destruct H as [A B].
  apply Nat.eqb_eq in A. split; auto. intros l tc Hl Ht.
  rewrite forallb_forall in B. specialize (B l Hl). rewrite forallb_forall in B. specialize (B tc Ht).
  apply Nat.ltb_lt in B. exact B.
Qed.
Example solver_hyps_example :
  let r := reduce [5; 0; 7] [0; 9; 1] [[2; 6; 1]; [6; 6; 6]; [3; 6; 4]] (-1) in
  graph_ok (r_bb r) (r_cc r) /\ zsum (r_bb r) = 0 /\
  exists arcs', ssp (supply_fuel (r_bb r)) (r_bb r) (mk_arcs (r_cc r)) = Some arcs'.
Proof.
  cbv zeta. split; [apply graph_okb_ok; vm_compute; reflexivity|]. split; [apply reduce_balanced; reflexivity|].
  eexists. vm_compute. reflexivity.
Qed.
