(* C05 - local facts around the LAST raster pixel p of an image, by kernel sweeps over the 3x5
   window rows -2..0, columns -2..2 relative to p (p set; nothing set after p in raster order).
   g a c = X (row p + a, col p + c);  gY = the image without p. *)
From Coq Require Import ZArith NArith List Bool Lia.
From Centro Require Import Base.Topo Base.Skel Base.TopoPar Proofs.TopoSwShrinkEnd.
Import ListNotations.
Open Scope Z_scope.

Definition gY (g : Z -> Z -> bool) (a c : Z) : bool := if (a =? 0) && (c =? 0) then false else g a c.
Definition endg (g : Z -> Z -> bool) (u : Z * Z) : bool := end_pattern (pat_gen g (fst u) (snd u)).
Definition nbrs4 : list (Z * Z) := [(0, -1); (-1, -1); (-1, 0); (-1, 1)].
Definition gon (g : Z -> Z -> bool) (u : Z * Z) : bool := g (fst u) (snd u).
Definition sepg (g : Z -> Z -> bool) : bool := negb (g (-1) 0) && g (-1) 1 && (g 0 (-1) || g (-1) (-1)).
Definition leftg (g : Z -> Z -> bool) : Z * Z := if g 0 (-1) then (0, -1) else (-1, -1).
Definition loses (g : Z -> Z -> bool) (u : Z * Z) : bool := gon g u && endg (gY g) u && negb (endg g u).
Definition losers (g : Z -> Z -> bool) : list (Z * Z) := filter (loses g) nbrs4.
Definition zz_eqb (u v : Z * Z) : bool := (fst u =? fst v) && (snd u =? snd v).
Definition lonely (g : Z -> Z -> bool) (u : Z * Z) : bool :=   (* u has no neighbour in the image without p *)
  negb (existsb (fun b : bool => b) (ring_of (pat_gen (gY g) (fst u) (snd u)))).

(* everything the induction needs, as one boolean *)
Definition local_ok (g : Z -> Z -> bool) : bool :=
  let on := filter (gon g) nbrs4 in
  (* an isolated-in-Y neighbour of p is an end pixel of X *)
  forallb (fun u => implb (lonely g u) (endg g u)) on &&
  (if sepg g then
     (* separated: only the leftmost-lowest left neighbour and NE can lose their end status *)
     forallb (fun u => zz_eqb u (leftg g) || zz_eqb u (-1, 1)) (losers g)
   else
     (* otherwise: at most one loser; if there is one (or p has exactly one neighbour) p is an end pixel *)
     (Nat.leb (length (losers g)) 1) &&
     implb (negb (Nat.eqb (length (losers g)) 0)) (endg g (0, 0))) &&
  (* p not an end pixel but with a neighbour: it has at least two neighbours *)
  implb (negb (endg g (0, 0)) && negb (Nat.eqb (length on) 0)) (Nat.leb 2 (length on)).

(* windows: rows -2..0, columns -2..2 *)
Definition getw3 (w : list bool) (a c : Z) : bool :=
  if (-2 <=? a) && (a <=? 0) && (-2 <=? c) && (c <=? 2) then nth (Z.to_nat ((a + 2) * 5 + (c + 2))) w false else false.
Definition mkwin (bits : list bool) : list bool :=
  match bits with
  | [b0;b1;b2;b3;b4;b5;b6;b7;b8;b9;b10;b11] => [b0;b1;b2;b3;b4; b5;b6;b7;b8;b9; b10;b11;true;false;false]
  | _ => []
  end.
Lemma local_sweep : forall_bits 12 (fun bits => local_ok (getw3 (mkwin bits))) = true.
Proof. vm_compute. reflexivity. Qed.

Definition inwin3 (a c : Z) : Prop := -2 <= a <= 1 /\ -2 <= c <= 2.

Lemma pat_gen_ext g1 g2 a c : (forall a' c', a - 1 <= a' <= a + 1 -> c - 1 <= c' <= c + 1 -> g1 a' c' = g2 a' c') ->
  pat_gen g1 a c = pat_gen g2 a c.
Proof.
  intros E. unfold pat_gen. apply map_ext_in. intros b Hb. apply in_seq in Hb.
  apply E; unfold off; do 9 (destruct b as [|b]; [cbn; lia|]); lia.
Qed.

Lemma gY_ext g1 g2 a c : g1 a c = g2 a c -> gY g1 a c = gY g2 a c.
Proof. intros E. unfold gY. rewrite E. reflexivity. Qed.

Lemma forallb_ext_in2 {A} (f h : A -> bool) l : (forall x, In x l -> f x = h x) -> forallb f l = forallb h l.
Proof. induction l as [|a l IH]; intros H; cbn [forallb]; [reflexivity|]. rewrite H, IH; auto; [intros; apply H; right; auto|left; auto]. Qed.

Lemma local_ok_ext g1 g2 : (forall a c, inwin3 a c -> g1 a c = g2 a c) -> local_ok g1 = local_ok g2.
Proof.
  intros E.
  assert (EG : forall u, In u ((0,0) :: nbrs4) -> gon g1 u = gon g2 u).
  { intros u Hu. unfold gon. apply E. unfold inwin3. cbn in Hu. repeat (destruct Hu as [<-|Hu]; [cbn; lia|]). destruct Hu. }
  assert (EP : forall u, In u ((0,0) :: nbrs4) -> pat_gen g1 (fst u) (snd u) = pat_gen g2 (fst u) (snd u)).
  { intros u Hu. apply pat_gen_ext. intros a' c' Ha Hc. apply E. unfold inwin3.
    cbn in Hu. repeat (destruct Hu as [<-|Hu]; [cbn [fst snd] in *; lia|]). destruct Hu. }
  assert (EPY : forall u, In u ((0,0) :: nbrs4) -> pat_gen (gY g1) (fst u) (snd u) = pat_gen (gY g2) (fst u) (snd u)).
  { intros u Hu. apply pat_gen_ext. intros a' c' Ha Hc. apply gY_ext. apply E. unfold inwin3.
    cbn in Hu. repeat (destruct Hu as [<-|Hu]; [cbn [fst snd] in *; lia|]). destruct Hu. }
  assert (EE : forall u, In u ((0,0) :: nbrs4) -> endg g1 u = endg g2 u) by (intros u Hu; unfold endg; rewrite EP by exact Hu; reflexivity).
  assert (EEY : forall u, In u ((0,0) :: nbrs4) -> endg (gY g1) u = endg (gY g2) u) by (intros u Hu; unfold endg; rewrite EPY by exact Hu; reflexivity).
  assert (EL : forall u, In u ((0,0) :: nbrs4) -> lonely g1 u = lonely g2 u) by (intros u Hu; unfold lonely; rewrite EPY by exact Hu; reflexivity).
  assert (ELo : forall u, In u nbrs4 -> loses g1 u = loses g2 u).
  { intros u Hu. unfold loses. rewrite EG, EE, EEY by (right; exact Hu). reflexivity. }
  assert (ES : sepg g1 = sepg g2) by (unfold sepg; rewrite !E by (unfold inwin3; lia); reflexivity).
  assert (ELf : leftg g1 = leftg g2) by (unfold leftg; rewrite !E by (unfold inwin3; lia); reflexivity).
  assert (EOn : filter (gon g1) nbrs4 = filter (gon g2) nbrs4).
  { apply filter_ext_in. intros u Hu. apply EG. right. exact Hu. }
  assert (ELs : losers g1 = losers g2) by (unfold losers; apply filter_ext_in; exact ELo).
  unfold local_ok. rewrite EOn, ES, ELf, ELs, (EE (0,0)) by (left; reflexivity).
  f_equal. f_equal.
  apply forallb_ext_in2. intros u Hu. apply filter_In in Hu as [Hu _].
  rewrite EL, EE by (right; exact Hu). reflexivity.
Qed.

Theorem local_ok_image (X : img) (p : px) : X p = true -> (forall q, X q = true -> ~ ltr p q) ->
  local_ok (getX X p) = true.
Proof.
  intros Xp Last. set (g := getX X p).
  set (bits := [g (-2) (-2); g (-2) (-1); g (-2) 0; g (-2) 1; g (-2) 2;
                g (-1) (-2); g (-1) (-1); g (-1) 0; g (-1) 1; g (-1) 2; g 0 (-2); g 0 (-1)]).
  assert (Off : forall a c, (1 <= a \/ (a = 0 /\ 1 <= c)) -> g a c = false).
  { intros a c H. unfold g, getX. destruct (X (fst p + a, snd p + c)) eqn:V; [|reflexivity].
    exfalso. apply (Last _ V). unfold ltr. cbn [fst snd]. lia. }
  assert (On : g 0 0 = true) by (unfold g, getX; rewrite !Z.add_0_r; destruct p; exact Xp).
  rewrite (local_ok_ext g (getw3 (mkwin bits))).
  - exact (forall_bits_spec 12 _ local_sweep bits eq_refl).
  - intros a c [Ha Hc].
    assert (Ca : a = -2 \/ a = -1 \/ a = 0 \/ a = 1) by lia.
    assert (Cc : c = -2 \/ c = -1 \/ c = 0 \/ c = 1 \/ c = 2) by lia.
    destruct Ca as [->|[->|[->| ->]]], Cc as [->|[->|[->|[->| ->]]]]; try reflexivity;
      try exact On; apply Off; lia.
Qed.
