(* C08 — the model's own background labelling (flood fill label4) numbers the 4-connected
   components: it satisfies Spec.valid_labelling for every rectangular image. *)
From Coq Require Import ZArith List Bool Lia ZifyBool.
From Centro Require Import Base.FillZMap Model.FillHoles Spec.FillHoles Proofs.FillImage.
Import ListNotations.
Open Scope Z_scope.

Lemma zseq_snoc k : forall lo, zseq lo (S k) = zseq lo k ++ [lo + Z.of_nat k].
Proof.
  induction k as [|k IH]; intros lo.
  - cbn [zseq app]. f_equal. lia.
  - change (zseq lo (S (S k))) with (lo :: zseq (lo + 1) (S k)). rewrite IH. cbn [zseq app]. f_equal. f_equal. f_equal. lia.
Qed.

Section Label.
Variable H W : Z.
Variable pix : zmap Z.
Variable npix : nat.
Hypothesis HW : 0 < W.
Hypothesis HH : 0 < H.
Hypothesis Hn : Z.of_nat npix = H * W.

Lemma rc_div r c : 0 <= c < W -> (r * W + c) / W = r /\ (r * W + c) mod W = c.
Proof.
  intros Hc. split.
  - symmetry. apply (Z.div_unique_pos (r * W + c) W r c); lia.
  - symmetry. apply (Z.mod_unique_pos (r * W + c) W r c); lia.
Qed.

Lemma nbrs4_rc r c q : 0 <= r < H -> 0 <= c < W ->
  (In q (nbrs4 H W (r * W + c)) <->
   (0 < r /\ q = (r - 1) * W + c) \/ (r + 1 < H /\ q = (r + 1) * W + c) \/
   (0 < c /\ q = r * W + (c - 1)) \/ (c + 1 < W /\ q = r * W + (c + 1))).
Proof.
  intros Hr Hc. unfold nbrs4. destruct (rc_div r c Hc) as [-> ->]. rewrite !in_app_iff.
  destruct (0 <? r) eqn:A; destruct (r + 1 <? H) eqn:B; destruct (0 <? c) eqn:C; destruct (c + 1 <? W) eqn:D;
    cbn [In]; split; intros X; repeat (destruct X as [X|X]); try tauto; try lia;
    try (destruct X as [X1 X2]; lia).
Qed.

Lemma rc_of p : 0 <= p < H * W -> exists r c, p = r * W + c /\ 0 <= r < H /\ 0 <= c < W.
Proof.
  intros Hp. exists (p / W), (p mod W). pose proof (Z.mod_pos_bound p W HW). pose proof (Z.div_mod p W ltac:(lia)).
  split; [lia|]. split; [|lia]. split; [apply Z.div_pos; lia|apply Z.div_lt_upper_bound; lia].
Qed.

Lemma nbrs4_range p q : 0 <= p < H * W -> In q (nbrs4 H W p) -> 0 <= q < H * W.
Proof.
  intros Hp Hq. destruct (rc_of p Hp) as [r [c [-> [Hr Hc]]]]. apply (nbrs4_rc r c q Hr Hc) in Hq.
  destruct Hq as [[A ->]|[[A ->]|[[A ->]|[A ->]]]]; nia.
Qed.

Lemma nbrs4_sym p q : 0 <= p < H * W -> In q (nbrs4 H W p) -> In p (nbrs4 H W q).
Proof.
  intros Hp Hq. destruct (rc_of p Hp) as [r [c [-> [Hr Hc]]]]. apply (nbrs4_rc r c q Hr Hc) in Hq.
  destruct Hq as [[A ->]|[[A ->]|[[A ->]|[A ->]]]].
  - apply (nbrs4_rc (r - 1) c); lia.
  - apply (nbrs4_rc (r + 1) c); lia.
  - apply (nbrs4_rc r (c - 1)); lia.
  - apply (nbrs4_rc r (c + 1)); lia.
Qed.

Definition bgq (q : Z) : bool := getz pix q =? 0.
Definition cnt0 (bl : zmap Z) : nat := length (filter (fun q => bgq q && (getz bl q =? 0)) (zseq 0 npix)).

(* s is reachable from p through background pixels *)
Inductive Path (p : Z) : Z -> Prop :=
| Path_refl : Path p p
| Path_step q s : Path p q -> In s (nbrs4 H W q) -> bgq s = true -> Path p s.

Lemma cnt0_set bl q lbl : 0 <= q < H * W -> bgq q = true -> getz bl q = 0 -> lbl <> 0 ->
  S (cnt0 (zset bl q lbl)) = cnt0 bl.
Proof.
  intros Hq Bq Eq Nl. unfold cnt0.
  assert (G : forall l, NoDup l -> In q l ->
    S (length (filter (fun x => bgq x && (getz (zset bl q lbl) x =? 0)) l)) = length (filter (fun x => bgq x && (getz bl x =? 0)) l)).
  { induction l as [|a l IH]; intros Nd Hin; [destruct Hin|]. inversion Nd as [|x y Na Nd']; subst x y. cbn [filter].
    destruct (Z.eq_dec a q) as [->|N].
    - rewrite getz_set_same, Eq, Bq. assert (E : (lbl =? 0) = false) by lia. rewrite E. cbn [andb Z.eqb length]. f_equal.
      f_equal. apply filter_ext_in. intros x Hx. rewrite getz_set_other; [reflexivity|]. intros ->. contradiction.
    - rewrite getz_set_other by auto. destruct Hin as [Hin|Hin]; [congruence|]. specialize (IH Nd' Hin).
      destruct (bgq a && (getz bl a =? 0)); cbn [length]; lia. }
  apply G; [apply zseq_nodup|apply zseq_In; lia].
Qed.

Lemma flood_visit_eq lbl st bl a :
  flood_visit pix lbl (st, bl) a = if (getz pix a =? 0) && (getz bl a =? 0) then (a :: st, zset bl a lbl) else (st, bl).
Proof. reflexivity. Qed.

(* one for-loop over the neighbours of a popped pixel *)
Lemma visit_spec lbl : lbl <> 0 -> forall l st bl, (forall q, In q l -> 0 <= q < H * W) ->
  let r := fold_left (flood_visit pix lbl) l (st, bl) in
  (forall q, getz bl q <> 0 -> getz (snd r) q = getz bl q) /\
  (forall q, getz (snd r) q <> 0 -> getz bl q <> 0 \/ (getz (snd r) q = lbl /\ In q l /\ bgq q = true)) /\
  (forall q, In q st -> In q (fst r)) /\
  (forall q, In q (fst r) -> In q st \/ (getz (snd r) q = lbl /\ getz bl q = 0)) /\
  (forall q, In q l -> bgq q = true -> getz (snd r) q <> 0) /\
  (cnt0 (snd r) + length (fst r) = cnt0 bl + length st)%nat.
Proof.
  intros Nl. induction l as [|a l IH]; intros st bl Hl; cbn [fold_left].
  - cbn [fst snd]. repeat split; auto; try (intros q []); try (intros q []).
  - assert (Ha : 0 <= a < H * W) by (apply Hl; left; auto).
    assert (Hl' : forall q, In q l -> 0 <= q < H * W) by (intros q Hq; apply Hl; right; auto).
    rewrite flood_visit_eq. change (getz pix a =? 0) with (bgq a).
    destruct (bgq a && (getz bl a =? 0)) eqn:C.
    + apply andb_prop in C as [Ba Ea]. apply Z.eqb_eq in Ea.
      destruct (IH (a :: st) (zset bl a lbl) Hl') as [V1 [V2 [V3 [V4 [V5 V6]]]]].
      set (r := fold_left (flood_visit pix lbl) l (a :: st, zset bl a lbl)) in *.
      repeat split.
      * intros q Nq. rewrite V1; [apply getz_set_other; intros ->; congruence|].
        rewrite getz_set_other; [exact Nq|intros ->; congruence].
      * intros q Nq. destruct (V2 q Nq) as [X|[X1 [X2 X3]]]; [|right; repeat split; auto; right; auto].
        destruct (Z.eq_dec q a) as [->|N]; [|left; rewrite getz_set_other in X; auto].
        right. split; [rewrite V1; [apply getz_set_same|rewrite getz_set_same; auto]|]. split; [left; auto|auto].
      * intros q Hq. apply V3. right; auto.
      * intros q Hq. destruct (V4 q Hq) as [[<-|X]|[X1 X2]]; [right|left; auto|].
        -- split; [rewrite V1; [apply getz_set_same|rewrite getz_set_same; auto]|exact Ea].
        -- destruct (Z.eq_dec q a) as [->|N]; [right; split; [exact X1|exact Ea]|].
           rewrite getz_set_other in X2 by auto. right; auto.
      * intros q [<-|Hq] Bq; [rewrite V1; rewrite getz_set_same; auto|apply V5; auto].
      * rewrite V6. cbn [length]. pose proof (cnt0_set bl a lbl Ha Ba Ea Nl). lia.
    + destruct (IH st bl Hl') as [V1 [V2 [V3 [V4 [V5 V6]]]]].
      repeat split; auto.
      * intros q Nq. destruct (V2 q Nq) as [X|[X1 [X2 X3]]]; [left; auto|right; repeat split; auto; right; auto].
      * intros q [<-|Hq] Bq; [|apply V5; auto]. rewrite Bq in C. cbn [andb] in C. apply Z.eqb_neq in C.
        rewrite V1; auto.
Qed.

(* the labelling before a flood: every labelled pixel's background neighbours carry the same label *)
Record Good (bl : zmap Z) (cnt : Z) : Prop := {
  g_lab : forall q, getz bl q <> 0 -> 0 <= q < H * W /\ bgq q = true /\ 1 <= getz bl q <= cnt;
  g_closed : forall q q', getz bl q <> 0 -> In q' (nbrs4 H W q) -> bgq q' = true -> getz bl q' = getz bl q;
  g_seed : forall l, 1 <= l <= cnt -> exists sd, 0 <= sd < H * W /\ bgq sd = true /\ forall q, getz bl q = l -> Path sd q
}.

Section Flood.
Variable bl0 : zmap Z.
Variable cnt : Z.
Hypothesis G0 : Good bl0 cnt.
Let lbl := cnt + 1.
Hypothesis Hcnt : 0 <= cnt.
Variable seed : Z.

Record FInv (stack : list Z) (bl : zmap Z) : Prop := {
  f_old : forall q, getz bl0 q <> 0 -> getz bl q = getz bl0 q;
  f_new : forall q, getz bl q <> 0 -> getz bl0 q <> 0 \/ (getz bl q = lbl /\ 0 <= q < H * W /\ bgq q = true);
  f_stack : forall q, In q stack -> getz bl q = lbl;
  f_closed : forall q, getz bl q = lbl -> ~ In q stack -> forall q', In q' (nbrs4 H W q) -> bgq q' = true -> getz bl q' = lbl;
  f_path : forall q, getz bl q = lbl -> Path seed q
}.

Lemma lbl_range bl stack q : FInv stack bl -> getz bl q = lbl -> 0 <= q < H * W /\ bgq q = true /\ getz bl0 q = 0.
Proof.
  intros I E. assert (N : getz bl q <> 0) by (unfold lbl in E; lia).
  destruct (Z.eq_dec (getz bl0 q) 0) as [Z0|NZ].
  - destruct (f_new _ _ I q N) as [X|[_ [A B]]]; [contradiction|auto].
  - exfalso. pose proof (f_old _ _ I q NZ) as X. destruct (g_lab _ _ G0 q NZ) as [_ [_ R]]. unfold lbl in E. lia.
Qed.

Lemma flood_step p t bl : FInv (p :: t) bl ->
  let r := fold_left (flood_visit pix lbl) (nbrs4 H W p) (t, bl) in
  FInv (fst r) (snd r) /\ (cnt0 (snd r) + length (fst r) = cnt0 bl + length t)%nat.
Proof.
  intros I. assert (Lp : getz bl p = lbl) by (apply (f_stack _ _ I); left; auto).
  destruct (lbl_range bl _ p I Lp) as [Rp [Bp Z0p]].
  assert (Nl : lbl <> 0) by (unfold lbl; lia).
  destruct (visit_spec lbl Nl (nbrs4 H W p) t bl (fun q Hq => nbrs4_range p q Rp Hq)) as [V1 [V2 [V3 [V4 [V5 V6]]]]].
  set (r := fold_left (flood_visit pix lbl) (nbrs4 H W p) (t, bl)) in *. cbv zeta. split; [|exact V6].
  constructor.
  - intros q Nq. rewrite V1; [apply (f_old _ _ I); auto|rewrite (f_old _ _ I q Nq); auto].
  - intros q Nq. destruct (V2 q Nq) as [X|[X1 [X2 X3]]]; [|right; split; [auto|split; [apply (nbrs4_range p q Rp X2)|auto]]].
    destruct (f_new _ _ I q X) as [Y|[Y1 Y2]]; [left; auto|right]. split; [rewrite V1; auto|auto].
  - intros q Hq. destruct (V4 q Hq) as [X|[X _]]; [|exact X]. rewrite V1; [apply (f_stack _ _ I); right; auto|].
    rewrite (f_stack _ _ I q (or_intror X)). exact Nl.
  - intros q Lq Nst q' Hq' Bq'.
    destruct (Z.eq_dec q p) as [->|Npq].
    + (* the pixel just scanned: all its background neighbours are labelled now, and not with an older label *)
      pose proof (V5 q' Hq' Bq') as Nq'.
      destruct (V2 q' Nq') as [X|[X _]]; [|exact X].
      destruct (f_new _ _ I q' X) as [Old|[Y _]]; [|rewrite V1; auto].
      exfalso. pose proof (g_closed _ _ G0 q' p Old (nbrs4_sym p q' Rp Hq') Bp) as E. rewrite Z0p in E. congruence.
    + assert (Lq0 : getz bl q = lbl).
      { destruct (Z.eq_dec (getz bl q) 0) as [Z0|NZ]; [|rewrite <- (V1 q NZ); exact Lq].
        exfalso. apply Nst. assert (Nq : getz (snd r) q <> 0) by lia.
        (* q was labelled during this visit, hence pushed *)
        clear - Z0 Nq Nl V2 Rp HW HH Hn. revert Nq. unfold r. 
        generalize (nbrs4 H W p) t bl Z0. induction l as [|a l IH]; intros st b Zb Nq; cbn [fold_left] in *.
        - cbn [snd] in Nq. contradiction.
        - rewrite flood_visit_eq in Nq |- *.
          destruct ((getz pix a =? 0) && (getz b a =? 0)) eqn:C.
          + destruct (Z.eq_dec q a) as [->|N].
            * assert (G : forall l st b, In a st -> In a (fst (fold_left (flood_visit pix lbl) l (st, b)))).
              { induction l0 as [|x l0 IHl]; intros st0 b0 Hin; cbn [fold_left]; [exact Hin|].
                rewrite flood_visit_eq. destruct ((getz pix x =? 0) && (getz b0 x =? 0)); apply IHl; [right|]; auto. }
              apply G. left; auto.
            * apply IH; [rewrite getz_set_other; auto|exact Nq].
          + apply IH; auto. }
      assert (Nst0 : ~ In q (p :: t)) by (intros [X|X]; [congruence|apply Nst, V3, X]).
      pose proof (f_closed _ _ I q Lq0 Nst0 q' Hq' Bq') as E. rewrite V1; [exact E|rewrite E; exact Nl].
  - intros q Lq. destruct (Z.eq_dec (getz bl q) 0) as [Z0|NZ].
    + assert (Nq : getz (snd r) q <> 0) by lia. destruct (V2 q Nq) as [X|[_ [X2 X3]]]; [contradiction|].
      apply (Path_step seed p q); [apply (f_path _ _ I); exact Lp|exact X2|exact X3].
    + apply (f_path _ _ I). rewrite <- (V1 q NZ). exact Lq.
Qed.

Lemma flood_spec fuel : forall stack bl, FInv stack bl -> (cnt0 bl + length stack <= fuel)%nat ->
  FInv [] (flood fuel H W pix lbl stack bl).
Proof.
  induction fuel as [|f IH]; intros stack bl I Hf; cbn [flood].
  - destruct stack; [exact I|cbn [length] in Hf; lia].
  - destruct stack as [|p t]; [exact I|]. destruct (flood_step p t bl I) as [I' E]. cbv zeta in I', E.
    apply IH; [exact I'|]. cbn [length] in Hf. lia.
Qed.

End Flood.

Lemma cnt0_le bl : (cnt0 bl <= npix)%nat.
Proof. unfold cnt0. rewrite <- (zseq_length 0 npix) at 2. apply FillRagged.filter_len_le. Qed.

(* one iteration of the raster scan that starts a flood *)
Lemma start_flood bl cnt p : Good bl cnt -> 0 <= cnt -> 0 <= p < H * W -> bgq p = true -> getz bl p = 0 ->
  let bl' := flood (S npix) H W pix (cnt + 1) [p] (zset bl p (cnt + 1)) in
  Good bl' (cnt + 1) /\ (forall q, getz bl q <> 0 -> getz bl' q <> 0) /\ getz bl' p <> 0.
Proof.
  intros G Hc Hp Bp Zp.
  assert (I0 : FInv bl cnt p [p] (zset bl p (cnt + 1))).
  { constructor.
    - intros q Nq. apply getz_set_other. intros ->. congruence.
    - intros q Nq. destruct (Z.eq_dec q p) as [->|N]; [right; rewrite getz_set_same; auto|left; rewrite getz_set_other in Nq; auto].
    - intros q [<-|[]]. apply getz_set_same.
    - intros q Lq Nst q' _ _. exfalso. apply Nst. left. destruct (Z.eq_dec q p) as [->|N]; [reflexivity|].
      rewrite getz_set_other in Lq by auto. destruct (g_lab _ _ G q ltac:(lia)) as [_ [_ R]]. lia.
    - intros q Lq. destruct (Z.eq_dec q p) as [->|N]; [constructor|].
      rewrite getz_set_other in Lq by auto. destruct (g_lab _ _ G q ltac:(lia)) as [_ [_ R]]. lia. }
  assert (Fuel : (cnt0 (zset bl p (cnt + 1)%Z) + length [p] <= S npix)%nat).
  { pose proof (cnt0_le (zset bl p (cnt + 1))). cbn [length]. lia. }
  pose proof (flood_spec bl cnt G Hc p (S npix) [p] _ I0 Fuel) as I. cbv zeta.
  set (bl' := flood (S npix) H W pix (cnt + 1) [p] (zset bl p (cnt + 1))) in *.
  split; [constructor|split].
  - intros q Nq. destruct (f_new _ _ _ _ _ I q Nq) as [Old|[L [R B]]].
    + rewrite (f_old _ _ _ _ _ I q Old). destruct (g_lab _ _ G q Old) as [A [B C]]. repeat split; auto; lia.
    + repeat split; auto; lia.
  - intros q q' Nq Hq' Bq'. destruct (f_new _ _ _ _ _ I q Nq) as [Old|[L [R B]]].
    + rewrite (f_old _ _ _ _ _ I q Old). pose proof (g_closed _ _ G q q' Old Hq' Bq') as E.
      rewrite (f_old _ _ _ _ _ I q'); [exact E|rewrite E; exact Old].
    + rewrite L. apply (f_closed _ _ _ _ _ I q L); auto.
  - intros l Hl. destruct (Z.eq_dec l (cnt + 1)) as [->|Nl].
    + exists p. split; [exact Hp|]. split; [exact Bp|]. intros q Lq. apply (f_path _ _ _ _ _ I). exact Lq.
    + destruct (g_seed _ _ G l ltac:(lia)) as [sd [Rs [Bs Ps]]]. exists sd. split; [exact Rs|]. split; [exact Bs|].
      intros q Lq. apply Ps. destruct (f_new _ _ _ _ _ I q ltac:(lia)) as [Old|[L _]]; [|lia].
      rewrite <- (f_old _ _ _ _ _ I q Old). exact Lq.
  - intros q Nq. rewrite (f_old _ _ _ _ _ I q Nq). exact Nq.
  - assert (E : getz bl' p = cnt + 1); [|lia].
    destruct (Z.eq_dec (getz bl' p) (cnt + 1)) as [|N]; [auto|]. exfalso.
    (* p keeps its label: labels are only written where they are 0 *)
    assert (K : forall fuel stack b, getz b p <> 0 -> getz (flood fuel H W pix (cnt + 1) stack b) p = getz b p).
    { induction fuel as [|f IHf]; intros stack b Nb; cbn [flood]; [reflexivity|]. destruct stack as [|x t]; [reflexivity|].
      assert (V : forall l st b0, getz b0 p <> 0 -> getz (snd (fold_left (flood_visit pix (cnt + 1)) l (st, b0))) p = getz b0 p).
      { induction l as [|a l IHl]; intros st b0 N0; cbn [fold_left]; [reflexivity|]. rewrite flood_visit_eq.
        destruct ((getz pix a =? 0) && (getz b0 a =? 0)) eqn:C; [|apply IHl; auto].
        rewrite IHl; [apply getz_set_other; intros ->; lia|]. rewrite getz_set_other; [auto|intros ->; lia]. }
      rewrite IHf; [apply V; auto|rewrite V; auto]. }
    apply N. unfold bl'. rewrite K; rewrite getz_set_same; lia.
Qed.

Lemma label4_inv k : (k <= npix)%nat ->
  let r := fold_left (fun (a : zmap Z * Z) p =>
               if (getz pix p =? 0) && (getz (fst a) p =? 0)
               then (flood (S npix) H W pix (snd a + 1) [p] (zset (fst a) p (snd a + 1)), snd a + 1) else a)
            (zseq 0 k) (zempty, 0) in
  Good (fst r) (snd r) /\ 0 <= snd r /\ forall q, 0 <= q < Z.of_nat k -> bgq q = true -> getz (fst r) q <> 0.
Proof.
  induction k as [|k IH]; intros Hk.
  - cbn [zseq fold_left fst snd]. split; [constructor; [intros q; rewrite getz_empty; intros; congruence|intros q q'; rewrite getz_empty; intros; congruence|intros l Hl; lia]|]. split; [lia|intros; lia].
  - assert (E : zseq 0 (S k) = zseq 0 k ++ [Z.of_nat k]) by (rewrite zseq_snoc; reflexivity).
    rewrite E, fold_left_app. cbn [fold_left]. destruct (IH ltac:(lia)) as [G [Hc Hl]].
    set (r := fold_left _ (zseq 0 k) (zempty, 0)) in *. fold (bgq (Z.of_nat k)).
    destruct (bgq (Z.of_nat k) && (getz (fst r) (Z.of_nat k) =? 0)) eqn:C.
    + apply andb_prop in C as [B Z0]. apply Z.eqb_eq in Z0.
      destruct (start_flood (fst r) (snd r) (Z.of_nat k) G Hc ltac:(lia) B Z0) as [G' [Keep Lp]]. cbv zeta in G', Keep, Lp.
      cbn [fst snd]. split; [exact G'|]. split; [lia|]. intros q Hq Bq.
      destruct (Z.eq_dec q (Z.of_nat k)) as [->|N]; [exact Lp|]. apply Keep. apply Hl; [lia|exact Bq].
    + split; [exact G|]. split; [exact Hc|]. intros q Hq Bq.
      destruct (Z.eq_dec q (Z.of_nat k)) as [->|N]; [|apply Hl; [lia|exact Bq]].
      rewrite Bq in C. cbn [andb] in C. apply Z.eqb_neq in C. exact C.
Qed.

Lemma path_range sd q : 0 <= sd < H * W -> Path sd q -> 0 <= q < H * W.
Proof. intros Hs P. induction P as [|q s P IH Hin B]; [exact Hs|]. apply (nbrs4_range q s IH Hin). Qed.

Lemma nbrs4_adj4 q s : 0 <= q < H * W -> In s (nbrs4 H W q) -> adj4 H W q s.
Proof.
  intros Hq Hin. destruct (rc_of q Hq) as [r [c [-> [Hr Hc]]]]. apply (nbrs4_rc r c s Hr Hc) in Hin.
  destruct Hin as [[A ->]|[[A ->]|[[A ->]|[A ->]]]].
  - exists (r - 1), c. left. split; [lia|]. split; [lia|]. right. split; [reflexivity|ring].
  - exists r, c. left. split; [lia|]. split; [lia|]. left. split; reflexivity.
  - exists r, (c - 1). right. split; [lia|]. split; [lia|]. right. split; [reflexivity|ring].
  - exists r, c. right. split; [lia|]. split; [lia|]. left. split; [reflexivity|ring].
Qed.

End Label.

Theorem label4_valid rows : rect_nonneg rows ->
  let own := label4 (Z.of_nat (length rows)) (Z.of_nat (length (hd [] rows))) (zload (concat rows) 0 zempty) (length (concat rows)) in
  valid_labelling rows (fst own) (snd own).
Proof.
  intros [Hr [Hnn [Hw Hh]]] own.
  set (H := Z.of_nat (length rows)) in *. set (W := Z.of_nat (length (hd [] rows))) in *.
  set (pix := zload (concat rows) 0 zempty) in *. set (npix := length (concat rows)) in *.
  assert (HW : 0 < W) by (unfold W; lia). assert (HH : 0 < H) by (unfold H; lia).
  assert (Hn : Z.of_nat npix = H * W) by (unfold npix, H, W; rewrite (concat_length_rect rows _ Hr); lia).
  destruct (label4_inv H W pix npix HW HH Hn npix (le_n _)) as [G [Hc Hl]]. cbv zeta in G, Hc, Hl.
  change (fold_left _ (zseq 0 npix) (zempty, 0)) with own in G, Hc, Hl.
  constructor.
  - intros p Hp. split.
    + intros N. destruct (g_lab _ _ _ _ _ G p N) as [_ [B _]]. unfold bgq in B. fold pix. lia.
    + intros Z0. apply Hl; [lia|]. unfold bgq. fold pix in Z0. lia.
  - intros p Hp. destruct (Z.eq_dec (getz (fst own) p) 0) as [->|N]; [lia|]. destruct (g_lab _ _ _ _ _ G p N) as [_ [_ R]]. lia.
  - intros r c Hrr Hcc Wz P1 P2. fold pix in P1, P2. fold W in Wz. subst Wz.
    assert (N : getz (fst own) (r * W + c) <> 0) by (apply Hl; [nia|unfold bgq; lia]).
    symmetry. apply (g_closed _ _ _ _ _ G _ _ N); [|unfold bgq; lia].
    apply <- nbrs4_rc; try eassumption; lia.
  - intros r c Hrr Hcc Wz P1 P2. fold pix in P1, P2. fold W in Wz. subst Wz.
    assert (N : getz (fst own) (r * W + c) <> 0) by (apply Hl; [nia|unfold bgq; lia]).
    symmetry. apply (g_closed _ _ _ _ _ G _ _ N); [|unfold bgq; lia].
    apply <- nbrs4_rc; try eassumption; lia.
Qed.

(* fill_labeled_holes with the model's own labelling: no hypothesis about the labelling left *)
Theorem fill_self_correct rows : rect_nonneg rows ->
  let own := label4 (Z.of_nat (length rows)) (Z.of_nat (length (hd [] rows))) (zload (concat rows) 0 zempty) (length (concat rows)) in
  let res := fill_self rows in
  f_ok res = true /\
  exists g, f_out res = grid_of (length rows) (length (hd [] rows)) g /\
    forall p, 0 <= p < Z.of_nat (length (concat rows)) ->
      paint_ok (img_edges rows (fst own)) (img_border rows (fst own)) (img_lcount rows) (getz (img_regions rows (fst own)) p) (g p).
Proof.
  intros Hr own. apply (fill_labeled_holes_correct_img rows (fst own) (snd own) Hr). apply label4_valid. exact Hr.
Qed.

(* ---------------------------------------------------------------- the other half: one number per component *)
Lemma adj4_sym H W p q : adj4 H W p q -> adj4 H W q p.
Proof.
  intros [r [c [[Hr [Hc [[A B]|[A B]]]]|[Hr [Hc [[A B]|[A B]]]]]]]; exists r, c; [left|left|right|right];
    (split; [exact Hr|]); (split; [exact Hc|]); [right|left|right|left]; split; assumption.
Qed.

Lemma bgpath_trans rows a b c : BgPath rows a b -> BgPath rows b c -> BgPath rows a c.
Proof. intros P Q. induction Q as [|q s Q IH A B]; [exact P|]. apply (BgPath_step rows a q s IH A B). Qed.

Lemma bgpath_bg rows a b : BgPath rows a b -> pixv rows a = 0 -> pixv rows b = 0.
Proof. intros P Ha. destruct P; auto. Qed.

Lemma bgpath_rev rows a b : BgPath rows a b -> pixv rows a = 0 -> BgPath rows b a.
Proof.
  intros P Ha. induction P as [|q s P IH A B]; [constructor|].
  apply (bgpath_trans rows s q a); [|exact IH].
  apply (BgPath_step rows s s q); [constructor|apply adj4_sym; exact A|apply (bgpath_bg rows a q P Ha)].
Qed.

Theorem label4_separate rows : rect_nonneg rows ->
  let own := label4 (Z.of_nat (length rows)) (Z.of_nat (length (hd [] rows))) (zload (concat rows) 0 zempty) (length (concat rows)) in
  components_separate rows (fst own).
Proof.
  intros [Hr [Hnn [Hw Hh]]] own.
  set (H := Z.of_nat (length rows)) in *. set (W := Z.of_nat (length (hd [] rows))) in *.
  set (pix := zload (concat rows) 0 zempty) in *. set (npix := length (concat rows)) in *.
  assert (HW : 0 < W) by (unfold W; lia). assert (HH : 0 < H) by (unfold H; lia).
  assert (Hn : Z.of_nat npix = H * W) by (unfold npix, H, W; rewrite (concat_length_rect rows _ Hr); lia).
  destruct (label4_inv H W pix npix HW HH Hn npix (le_n _)) as [G [Hc Hl]]. cbv zeta in G, Hc, Hl.
  change (fold_left _ (zseq 0 npix) (zempty, 0)) with own in G, Hc, Hl.
  assert (Conv : forall sd q, 0 <= sd < H * W -> Path H W pix sd q -> BgPath rows sd q).
  { intros sd q Hs P. induction P as [|q s P IH Hin B]; [constructor|].
    apply (BgPath_step rows sd q s IH).
    - fold H W. eapply nbrs4_adj4; try eassumption. eapply path_range; eassumption.
    - unfold pixv. fold pix. unfold bgq in B. lia. }
  intros p q Hp Hq E N.
  destruct (g_lab _ _ _ _ _ G p N) as [_ [_ R]].
  destruct (g_seed _ _ _ _ _ G (getz (fst own) p) R) as [sd [Rs [Bs Ps]]].
  pose proof (Conv sd p Rs (Ps p eq_refl)) as P1. pose proof (Conv sd q Rs (Ps q (eq_sym E))) as P2.
  apply (bgpath_trans rows p sd q); [|exact P2]. apply bgpath_rev; [exact P1|]. unfold pixv. fold pix. unfold bgq in Bs. lia.
Qed.

(* binary images, no hypothesis left: the model with its own labelling is ordinary hole filling *)
Theorem binary_agrees_with_fill_self rows :
  rect_nonneg rows -> Forall (fun v => v = 0 \/ v = 1) (concat rows) ->
  exists g, f_out (fill_self rows) = grid_of (length rows) (length (hd [] rows)) g /\
    forall p, 0 <= p < Z.of_nat (length (concat rows)) -> (g p <> 0 <-> (pixv rows p <> 0 \/ ~ Outside rows p)).
Proof.
  intros Hr Hb. unfold fill_self. cbv zeta.
  set (own := label4 (Z.of_nat (length rows)) (Z.of_nat (length (hd [] rows))) (zload (concat rows) 0 zempty) (length (concat rows))).
  apply (binary_agrees_with_fill rows (fst own) (snd own) Hr (label4_valid rows Hr) (label4_separate rows Hr) Hb).
Qed.
