(* C05 - "binary_shrink reduces every hole-free object to a single pixel": everything except one
   global digital-topology lemma.

   Proved here: (1) [shrink_stable_no_end] in an image that is stable under the four shrink passes
   (what binary_shrink(-1) returns, C05_shrink_converged) NO foreground pixel has an end pattern
   (Proofs/TopoSwShrinkEnd.v, kernel sweep on the regenerated tables; the converse holds too);
   (2) the result of binary_shrink on a connected hole-free image is connected and hole-free
   (from C05_shrink_topo); (3) hence [shrink_to_point_partial]: IF every connected hole-free finite
   image with at least two pixels has a pixel with an end pattern ([EndPixelLemma] - the missing
   lemma; a Jordan-curve style argument: walk along the outer boundary, an object without holes and
   without end pixels cannot close up), THEN the result is exactly one pixel. *)
From Coq Require Import ZArith NArith List Bool Lia.
From Centro Require Import Base.Topo Base.Skel Base.TopoPar Base.TopoSweep Base.TopoGrid Gen.TablesC05.
From Centro Require Import Model.ThinSkel Spec.TopoCheck Proofs.ThinSkelTopo Proofs.ThinSkelIdem Proofs.TopoCounts
  Proofs.TopoSwShrinkEnd.
Import ListNotations.
Open Scope Z_scope.

Definition connected (X : img) : Prop := forall a b, fg X a -> fg X b -> conn8 X a b.
Definition hole_free (X : img) : Prop := forall a b, bg X a -> bg X b -> conn4 X a b.

Definition EndPixelLemma : Prop := forall H W g, wf H W g ->
  connected (img_of g) -> hole_free (img_of g) ->
  (exists a b, a <> b /\ img_of g a = true /\ img_of g b = true) ->
  exists p, img_of g p = true /\ end_pattern (pat (img_of g) p) = true.

Lemma run_passes_fixed_each H W ks : forall g, wf H W g -> run_passes H W ks g = g ->
  Forall (fun k => pass_grid k H W g = g) ks.
Proof.
  induction ks as [|k r IH]; intros g Hg E; [constructor|]. cbn [run_passes] in E.
  destruct (pass_grid_le k H W g Hg) as [P1 P2].
  destruct (run_passes_le H W r (pass_grid k H W g) (pass_grid_wf k H W g)) as [R1 _].
  assert (E1 : pass_grid k H W g = g). { apply P2. rewrite E in R1. lia. }
  constructor; [exact E1|]. apply IH; [exact Hg|]. rewrite E1 in E. exact E.
Qed.

Lemma pass_fixed_keep keep H W g : wf H W g -> pass_grid keep H W g = g ->
  forall p, img_of g p = true -> keep (pat (img_of g) p) = true.
Proof.
  intros Hg E p V. pose proof (pass_grid_img keep H W g Hg p) as I. rewrite E in I.
  unfold par_step in I. rewrite V in I. cbn [andb] in I. symmetry. exact I.
Qed.

Lemma pat_bit4 X p : bit (pat X p) 4 = X p.
Proof. unfold bit. rewrite pat_nth by lia. rewrite nb_center. reflexivity. Qed.
Lemma pat_length X p : length (pat X p) = 9%nat.
Proof. unfold pat. rewrite map_length, seq_length. reflexivity. Qed.

Theorem shrink_stable_no_end : forall H W g, wf H W g -> run_passes H W shrink_tables g = g ->
  forall p, img_of g p = true -> end_pattern (pat (img_of g) p) = false.
Proof.
  intros H W g Hg E p V.
  pose proof (run_passes_fixed_each H W shrink_tables g Hg E) as F. unfold shrink_tables in F.
  inversion F as [|? ? F1 F']; subst. inversion F' as [|? ? F2 F'']; subst.
  inversion F'' as [|? ? F3 F''']; subst. inversion F''' as [|? ? F4 _]; subst.
  pose proof (shrink_end_deleted (pat (img_of g) p) (pat_length _ _)) as D.
  rewrite pat_bit4 in D. specialize (D V). unfold shrink_keeps_all in D.
  rewrite (pass_fixed_keep _ H W g Hg F1 p V), (pass_fixed_keep _ H W g Hg F2 p V),
          (pass_fixed_keep _ H W g Hg F3 p V), (pass_fixed_keep _ H W g Hg F4 p V) in D.
  cbn [andb] in D. destruct (end_pattern (pat (img_of g) p)); [discriminate|reflexivity].
Qed.

Lemma TopoEq_connected X X' : TopoEq X X' -> connected X -> connected X'.
Proof.
  intros T C a b Ha Hb. apply (te_fg_iff _ _ T a b Ha Hb). apply C; apply (te_sub _ _ T); assumption.
Qed.
Lemma TopoEq_hole_free X X' : TopoEq X X' -> hole_free X -> hole_free X'.
Proof.
  intros T C a b Ha Hb.
  destruct (te_bg_surj _ _ T a Ha) as [a0 [Ha0 Pa]]. destruct (te_bg_surj _ _ T b Hb) as [b0 [Hb0 Pb]].
  eapply path_trans; [exact Pa|]. eapply path_trans; [|apply conn4_sym; exact Pb].
  apply (te_bg_iff _ _ T a0 b0 Ha0 Hb0). apply C; assumption.
Qed.

Theorem shrink_to_point_partial : EndPixelLemma ->
  forall H W g, wf H W g -> connected (img_of g) -> hole_free (img_of g) ->
  (exists a, img_of g a = true) ->
  exists q, forall p, img_of (shrink_model H W (-1) g) p = true <-> p = q.
Proof.
  intros EPL H W g Hg HC HH [a Ha].
  set (r := shrink_model H W (-1) g).
  pose proof (shrink_model_topo H W (-1) g Hg) as T. fold r in T.
  assert (Wr : wf H W r).
  { unfold r, shrink_model. apply cycle_loop_topo; [apply shrink_tables_admissible|exact Hg]. }
  pose proof (shrink_converged H W g Hg) as S. fold r in S.
  destruct (te_fg_surj _ _ T a Ha) as [q [Hq _]]. exists q. intros p. split.
  - intros Hp. destruct (px_eqb_spec p q) as [E|N]; [exact E|]. exfalso.
    destruct (EPL H W r Wr (TopoEq_connected _ _ T HC) (TopoEq_hole_free _ _ T HH)) as [e [He Ee]].
    { exists p, q. repeat split; assumption. }
    rewrite (shrink_stable_no_end H W r Wr S e He) in Ee. discriminate.
  - intros ->. exact Hq.
Qed.

(* the premises on a non-trivial input: a 2x2 block is connected and hole-free and ends as one pixel *)
Example shrink_to_point_example :
  shrink_model 2 2 (-1) [[true;true];[true;true]] = [[true;false];[false;false]].
Proof. vm_compute. reflexivity. Qed.
