(* C07 — the wrapper filter.median_filter: rank_order to at most 255 levels, kernel, translation
   back.  Port of design/prototypes/Rank.v (ranks are an order isomorphism onto positions in the
   strictly increasing list of distinct values) and its use: the exact statistic of the ranks
   translates to the exact statistic of the original values. *)
From Coq Require Import ZArith List Bool Lia ZifyBool Sorted.
From Centro Require Import Base.Sx Model.Median Spec.MedianSpec Proofs.MedianCheck.
Import ListNotations.
Open Scope Z_scope.

(* ------------------------------------------------------------------ Rank.v *)

Lemma index_nth x u : In x u -> nth (index_of x u) u 0 = x.
Proof.
  induction u as [|y r IH]; cbn [In index_of]; [tauto|]. intros [->|H].
  - rewrite Z.eqb_refl. reflexivity.
  - destruct (Z.eqb_spec x y); [subst; reflexivity|]. cbn [nth]. auto.
Qed.

Lemma index_lt_length x u : In x u -> (index_of x u < length u)%nat.
Proof.
  induction u as [|y r IH]; cbn [In index_of length]; [tauto|]. intros [->|H].
  - rewrite Z.eqb_refl. lia.
  - destruct (Z.eqb_spec x y); [lia|]. apply IH in H. lia.
Qed.

Theorem rank_iso u : StronglySorted Z.lt u -> forall x y, In x u -> In y u ->
  (x < y <-> (index_of x u < index_of y u)%nat).
Proof.
  induction 1 as [|a r SS IH Fa]; intros x y Hx Hy; [destruct Hx|].
  rewrite Forall_forall in Fa. cbn [index_of].
  destruct Hx as [<-|Hx], Hy as [<-|Hy].
  - rewrite Z.eqb_refl. lia.
  - rewrite Z.eqb_refl. specialize (Fa y Hy). destruct (Z.eqb_spec y a); [lia|]. split; [lia|intros; auto].
  - rewrite Z.eqb_refl. specialize (Fa x Hx). destruct (Z.eqb_spec x a); [lia|]. split; [lia|lia].
  - pose proof (Fa x Hx). pose proof (Fa y Hy).
    destruct (Z.eqb_spec x a); [lia|]. destruct (Z.eqb_spec y a); [lia|].
    rewrite (IH x y Hx Hy). lia.
Qed.

Corollary rank_eq u : StronglySorted Z.lt u -> forall x y, In x u -> In y u ->
  (index_of x u = index_of y u <-> x = y).
Proof.
  intros S x y Hx Hy. split; [|intros ->; auto]. intros E.
  destruct (Z.lt_total x y) as [L|[L|L]]; auto.
  - apply (rank_iso u S x y Hx Hy) in L. lia.
  - apply (rank_iso u S y x Hy Hx) in L. lia.
Qed.

(* ------------------------------------------------------------------ sort_u = original_values *)

Lemma insert_u_In x y l : In y (insert_u x l) <-> y = x \/ In y l.
Proof.
  induction l as [|a l IH]; cbn [insert_u In]; [intuition|].
  destruct (x <? a) eqn:E1; [cbn [In]; intuition|].
  destruct (x =? a) eqn:E2; cbn [In]; [assert (x = a) by lia; intuition|]. rewrite IH. intuition.
Qed.

Lemma insert_u_sorted x l : StronglySorted Z.lt l -> StronglySorted Z.lt (insert_u x l).
Proof.
  induction 1 as [|a l SS IH Fa]; cbn [insert_u]; [repeat constructor|].
  destruct (x <? a) eqn:E1.
  - constructor; [constructor; assumption|]. constructor; [lia|].
    rewrite Forall_forall in *. intros z Hz. specialize (Fa z Hz). lia.
  - destruct (x =? a) eqn:E2; [constructor; assumption|].
    constructor; [exact IH|]. rewrite Forall_forall in *. intros z Hz.
    apply insert_u_In in Hz. destruct Hz as [->|Hz]; [lia|auto].
Qed.

Lemma sort_u_In l y : In y (sort_u l) <-> In y l.
Proof.
  induction l as [|x l IH]; cbn [sort_u fold_right In]; [tauto|].
  fold (sort_u l). rewrite insert_u_In, IH. intuition.
Qed.

Lemma sort_u_sorted l : StronglySorted Z.lt (sort_u l).
Proof.
  induction l as [|x l IH]; cbn [sort_u fold_right]; [constructor|]. apply insert_u_sorted. exact IH.
Qed.

(* ------------------------------------------------------------------ rank transport *)

Lemma filter_map_length {A B} (f : A -> B) (p : B -> bool) (l : list A) :
  length (filter p (map f l)) = length (filter (fun x => p (f x)) l).
Proof.
  induction l as [|a l IH]; cbn [map filter]; [reflexivity|]. destruct (p (f a)); cbn [length]; lia.
Qed.

Lemma filter_length_ext {A} (p q : A -> bool) (l : list A) :
  (forall x, In x l -> p x = q x) -> length (filter p l) = length (filter q l).
Proof. intros H. rewrite (filter_ext_in p q l H). reflexivity. Qed.

Definition rk (u : list Z) (x : Z) : Z := Z.of_nat (index_of x u).
Definition unrk (u : list Z) (v : Z) : Z := nth (Z.to_nat v) u 0.

(* if v' has rank r among the ranks of the window, translation[v'] has rank r in the window *)
Theorem rank_transport (u l : list Z) (r v' : Z) :
  StronglySorted Z.lt u -> (forall x, In x l -> In x u) ->
  RankOf (map (rk u) l) r v' -> RankOf l r (unrk u v').
Proof.
  intros SS Hin [Hv Hc]. apply in_map_iff in Hv. destruct Hv as [x [Ex Hx]].
  assert (Hux : In x u) by auto.
  assert (Eu : unrk u v' = x).
  { unfold unrk. rewrite <- Ex. unfold rk. rewrite Nat2Z.id. apply index_nth. exact Hux. }
  rewrite Eu. split; [exact Hx|].
  unfold count_lt, count_le in *. rewrite !filter_map_length in Hc.
  rewrite (filter_length_ext (fun y => y <? x) (fun y => rk u y <? v') l).
  2:{ intros y Hy. rewrite <- Ex. unfold rk. pose proof (rank_iso u SS y x (Hin y Hy) Hux). lia. }
  rewrite (filter_length_ext (fun y => y <=? x) (fun y => rk u y <=? v') l).
  2:{ intros y Hy. rewrite <- Ex. unfold rk. pose proof (rank_iso u SS x y Hux (Hin y Hy)). lia. }
  exact Hc.
Qed.

(* under ANY order-preserving merge f (more than 255 distinct values) the statistic of the levels
   is the level of some window value: the output, a representative of that level, is a masked
   input value whose level has the required rank *)
Theorem merge_transport (f : Z -> Z) (l : list Z) (r v' : Z) :
  RankOf (map f l) r v' -> exists x, In x l /\ f x = v'.
Proof. intros [Hv _]. apply in_map_iff in Hv. destruct Hv as [x [E H]]. exists x. auto. Qed.

(* ------------------------------------------------------------------ images *)

Definition rect {A} (rows cols : Z) (img : list (list A)) : Prop :=
  Z.of_nat (length img) = rows /\ Forall (fun r => Z.of_nat (length r) = cols) img.

Lemma rect_row {A} rows cols (img : list (list A)) y : rect rows cols img -> 0 <= y < rows ->
  Z.of_nat (length (getz [] img y)) = cols.
Proof.
  intros [Hl HF] Hy. rewrite Forall_forall in HF. apply HF. unfold getz. apply nth_In. lia.
Qed.

Lemma rect_cols {A} rows cols (img : list (list A)) : rect rows cols img -> 0 < rows -> img_cols img = cols.
Proof.
  intros [Hl HF] Hr. unfold img_cols. destruct img as [|r0 img]; [cbn [length] in Hl; lia|].
  cbn [hd]. inversion HF as [|? ? H1 H2]. exact H1.
Qed.

Lemma nth_map_combine {A B C} (f : A * B -> C) (a : list A) (b : list B) n da db dc :
  (n < length a)%nat -> (n < length b)%nat ->
  nth n (map f (combine a b)) dc = f (nth n a da, nth n b db).
Proof.
  revert a b; induction n as [|n IH]; intros a b Ha Hb; destruct a as [|x a]; destruct b as [|y b];
    cbn [length] in *; try lia; cbn [combine map nth]; [reflexivity|]. apply IH; lia.
Qed.

Lemma dat2_map_img (f : Z -> bool -> Z) rows cols data mask y x :
  rect rows cols data -> rect rows cols mask -> 0 <= y < rows -> 0 <= x < cols ->
  dat2 (map_img f data mask) y x = f (dat2 data y x) (msk2 mask y x).
Proof.
  intros Hd Hm Hy Hx. unfold dat2, msk2, map_img, getz.
  pose proof (rect_row rows cols data y Hd Hy) as Ld. pose proof (rect_row rows cols mask y Hm Hy) as Lm.
  unfold getz in Ld, Lm. destruct Hd as [Hdl _]. destruct Hm as [Hml _].
  rewrite (nth_map_combine _ data mask (Z.to_nat y) [] [] []) by lia. cbn [fst snd].
  rewrite (nth_map_combine _ _ _ (Z.to_nat x) 0 false 0) by lia. reflexivity.
Qed.

Lemma map_img_rect (f : Z -> bool -> Z) rows cols data mask :
  rect rows cols data -> rect rows cols mask -> rect rows cols (map_img f data mask).
Proof.
  intros [Hdl Hd] [Hml Hm]. unfold map_img. split.
  - rewrite map_length, combine_length. lia.
  - rewrite Forall_forall in *. intros r Hr. apply in_map_iff in Hr. destruct Hr as [[rd rm] [E Hin]].
    subst r. rewrite map_length, combine_length. cbn [fst snd].
    pose proof (in_combine_l _ _ _ _ Hin) as H1. pose proof (in_combine_r _ _ _ _ Hin) as H2.
    specialize (Hd _ H1). specialize (Hm _ H2). lia.
Qed.

Lemma masked_vals_In rows cols data mask y x :
  rect rows cols data -> rect rows cols mask -> 0 <= y < rows -> 0 <= x < cols ->
  msk2 mask y x = true -> In (dat2 data y x) (masked_vals data mask).
Proof.
  intros Hd Hm Hy Hx Hmk. unfold masked_vals. apply in_concat.
  pose proof (rect_row rows cols data y Hd Hy) as Ld. pose proof (rect_row rows cols mask y Hm Hy) as Lm.
  unfold getz in Ld, Lm. destruct Hd as [Hdl _]. destruct Hm as [Hml _].
  set (rd := nth (Z.to_nat y) data []) in *. set (rm := nth (Z.to_nat y) mask []) in *.
  exists (concat (map (fun xm : Z * bool => if snd xm then [fst xm] else []) (combine rd rm))). split.
  - apply in_map_iff. exists (rd, rm). split; [reflexivity|].
    replace (rd, rm) with (nth (Z.to_nat y) (combine data mask) ([], [])) by (apply combine_nth; lia).
    apply nth_In. rewrite combine_length. lia.
  - apply in_concat. exists [dat2 data y x]. split; [|left; reflexivity].
    apply in_map_iff. exists (dat2 data y x, true). split; [reflexivity|].
    unfold dat2, msk2, getz in *. fold rd. fold rm in Hmk. rewrite <- Hmk.
    replace (nth (Z.to_nat x) rd 0, nth (Z.to_nat x) rm false) with (nth (Z.to_nat x) (combine rd rm) (0, false))
      by (apply combine_nth; lia).
    apply nth_In. rewrite combine_length. lia.
Qed.

Lemma dat2_map_map (f : Z -> Z) rows cols (o : list (list Z)) y x :
  rect rows cols o -> 0 <= y < rows -> 0 <= x < cols -> dat2 (map (map f) o) y x = f (dat2 o y x).
Proof.
  intros Ho Hy Hx. pose proof (rect_row rows cols o y Ho Hy) as Lo. destruct Ho as [Hol _].
  unfold dat2, getz in *.
  rewrite (nth_indep (map (map f) o) [] (map f [])) by (rewrite map_length; lia).
  rewrite map_nth. rewrite (nth_indep _ 0 (f 0)) by (rewrite map_length; lia). apply map_nth.
Qed.

(* ------------------------------------------------------------------ wrapper_exact *)

(* the uint8 image handed to the kernel: input[mask] = rank_order(data[mask]), 0 elsewhere *)
Definition rank_image (u : list Z) (data : list (list Z)) (mask : list (list bool)) : list (list Z) :=
  map_img (fun d (m : bool) => if m then rk u d else 0) data mask.

Theorem wrapper_exact rows cols data mask radius percent o8 :
  0 < rows -> rect rows cols data -> rect rows cols mask -> rect rows cols o8 ->
  let u := sort_u (masked_vals data mask) in
  MedianSpec (rank_image u data mask) mask radius percent o8 ->
  MedianSpec data mask radius percent (map (map (unrk u)) o8).
Proof.
  intros Hrows Hd Hm Ho u HS i j Hi Hj.
  assert (Er : img_rows data = rows) by (destruct Hd; assumption).
  assert (Ec : img_cols data = cols) by (apply (rect_cols rows); assumption).
  pose proof (map_img_rect (fun d (m : bool) => if m then rk u d else 0) rows cols data mask Hd Hm) as Hri.
  fold (rank_image u data mask) in Hri.
  assert (Er' : img_rows (rank_image u data mask) = rows) by (destruct Hri; assumption).
  assert (Ec' : img_cols (rank_image u data mask) = cols) by (apply (rect_cols rows); assumption).
  specialize (HS i j). rewrite Er', Ec' in HS. rewrite Er in Hi. rewrite Ec in Hj. specialize (HS Hi Hj).
  cbv zeta in HS.
  (* the window of the rank image is the image of the window under rk *)
  assert (EW : window (rank_image u data mask) mask radius i j = map (rk u) (window data mask radius i j)).
  { unfold window, window_c. rewrite Er, Ec, Er', Ec', map_map. apply map_ext_in.
    intros [y x] Hp. apply filter_In in Hp. destruct Hp as [Hc Hw]. apply coords_In in Hc.
    unfold in_window in Hw. cbn [fst snd] in *. apply andb_true_iff in Hw. destruct Hw as [Hmk _].
    unfold rank_image. rewrite (dat2_map_img _ rows cols) by (assumption || lia). rewrite Hmk. reflexivity. }
  rewrite EW in HS. rewrite map_length in HS. cbv zeta. intros Hne.
  rewrite (dat2_map_map _ rows cols) by (assumption || lia).
  apply rank_transport.
  - apply sort_u_sorted.
  - intros v Hv. apply sort_u_In. apply window_In in Hv.
    destruct Hv as [y [x [Hy [Hx [Hmk [_ ->]]]]]]. rewrite Er in Hy. rewrite Ec in Hx.
    apply (masked_vals_In rows cols); assumption.
  - apply HS. intro E. apply Hne. destruct (window data mask radius i j); [reflexivity|discriminate].
Qed.

(* the model's wrapper is exactly this composition (ranked branch, no IndexError) *)
Theorem wrapper_model_shape v intlike data mask radius percent o :
  wrapper v intlike data mask radius percent = WOut true o ->
  let u := sort_u (masked_vals data mask) in
  (length u <= 255)%nat /\ o = map (map (unrk u)) (kernel v (rank_image u data mask) mask radius percent).
Proof.
  unfold wrapper. destruct (forallb (forallb negb) mask); [discriminate|]. cbv zeta.
  match goal with |- context [if ?c then _ else _] => destruct c end; [discriminate|].
  destruct (255 <? length (sort_u (masked_vals data mask)))%nat eqn:E1; [discriminate|].
  match goal with |- context [if ?c then _ else _] => destruct c end; [|discriminate].
  intros E. inversion E. split; [apply Nat.ltb_ge in E1; lia|reflexivity].
Qed.

(* ... and on the direct path (integer data whose masked pixels lie in 0..255) it is the kernel on
   the masked image itself *)
Theorem wrapper_model_direct v intlike data mask radius percent o :
  wrapper v intlike data mask radius percent = WOut false o ->
  o = data /\ forallb (forallb negb) mask = true \/
  intlike = true /\ Forall (fun x => 0 <= x <= 255) (masked_vals data mask) /\
  o = kernel v (map_img (fun d (m : bool) => if m then d else 0) data mask) mask radius percent.
Proof.
  unfold wrapper. destruct (forallb (forallb negb) mask); [intros E; inversion E; left; split; reflexivity|].
  cbv zeta. destruct intlike; cbn [andb].
  - destruct (forallb (fun x => (0 <=? x) && (x <=? 255)) (masked_vals data mask)) eqn:E1.
    + intros E. inversion E. right. split; [reflexivity|]. split; [|reflexivity].
      rewrite forallb_forall in E1. apply Forall_forall. intros x Hx. specialize (E1 x Hx). lia.
    + destruct (255 <? length (sort_u (masked_vals data mask)))%nat; [discriminate|].
      match goal with |- context [if ?c then _ else _] => destruct c end; discriminate.
  - destruct (255 <? length (sort_u (masked_vals data mask)))%nat; [discriminate|].
    match goal with |- context [if ?c then _ else _] => destruct c end; discriminate.
Qed.

Example wrapper_exact_ex :
  let data := [[-5; 1000; 7]; [7; 300000; -5]] in
  let mask := [[true; true; false]; [true; true; true]] in
  let u := sort_u (masked_vals data mask) in
  rect 2 3 data /\ rect 2 3 mask /\ u = [-5; 7; 1000; 300000] /\
  rank_image u data mask = [[0; 2; 0]; [1; 3; 0]] /\
  check_median (rank_image u data mask) mask 2 50 [[1; 1; 1]; [1; 1; 1]] = true /\
  check_median data mask 2 50 (map (map (unrk u)) [[1; 1; 1]; [1; 1; 1]]) = true.
Proof.
  cbv zeta. unfold rect. repeat split; try (repeat constructor; reflexivity); vm_compute; reflexivity.
Qed.
