(* C01 — the faithful model is refuted by kernel-evaluated witnesses (findings F1 and F6) while
   the repaired variants are certified optimal on the same inputs. Costs are scaled by 2^30, so
   __eps = 2^-26 is 16. *)
From Coq Require Import ZArith List Bool Lia.
From Centro Require Import Base.Sx Model.Lapjv Spec.Lapjv Proofs.LapjvCert.
Import ListNotations.
Open Scope Z_scope.

Definition eps26 : Z := 16.
Definition sc (c : Z) : Z := c * 2 ^ 30.

Lemma certified_optimal n tri o :
  certified n tri o = true -> exists out, o = Some out /\ Optimal n tri (x_of out).
Proof.
  unfold certified. destruct o as [[[[x y] u] v]|]; [|discriminate].
  destruct (fins u) as [u'|]; [|discriminate]. destruct (fins v) as [v'|]; [|discriminate].
  intros H. exists (x, y, u, v). split; auto. apply cert_sound in H. apply H.
Qed.

Lemma wf_has_pm_by n tri sigma tau : pm_ok n tri sigma tau = true -> has_PM n tri.
Proof. intros H. exists sigma. apply (pm_ok_sound _ _ _ _ H). Qed.

(* ---------------------------------------------------------------- F1: reduction_transfer row offset *)

Definition f1_tri : list triple :=
  [T 0 0 (sc 2); T 0 2 (sc 5); T 1 0 (sc 0); T 1 1 (sc 4); T 2 1 (sc 3); T 2 2 (sc 1)].

Theorem lapjv_asis_refuted :
  exists n tri, wf n tri /\ has_PM n tri /\
    (exists out, lapjv AsIs eps26 eps26 2 n tri = Some out /\ ~ Optimal n tri (x_of out)) /\
    (exists out, lapjv Fixed eps26 eps26 2 n tri = Some out /\ Optimal n tri (x_of out)).
Proof.
  exists 3%nat, f1_tri. split; [vm_compute; reflexivity|]. split.
  - apply (wf_has_pm_by _ _ [0;1;2]%nat [0;1;2]%nat). vm_compute. reflexivity.
  - split.
    + eexists. split; [vm_compute; reflexivity|].
      apply (not_optimal_by _ _ _ [0;1;2]%nat [0;1;2]%nat); vm_compute; reflexivity.
    + apply certified_optimal. vm_compute. reflexivity.
Qed.

(* ---------------------------------------------------------------- F6: the eps tie band *)

Definition f6_tri : list triple := [T 0 0 0; T 0 1 (sc 1 + 3); T 1 0 (sc 1 + 2); T 1 1 (sc 2)].

Theorem lapjv_eps_refuted :
  exists n tri, wf n tri /\ has_PM n tri /\
    (exists out, lapjv Fixed eps26 eps26 1 n tri = Some out /\ ~ Optimal n tri (x_of out)) /\
    (exists out, lapjv Fixed 0 eps26 1 n tri = Some out /\ Optimal n tri (x_of out)) /\
    (exists out, lapjv Fixed 0 0 1 n tri = Some out /\ Optimal n tri (x_of out)) /\
    (exists out, lapjv Fixed eps26 eps26 0 n tri = Some out /\ Optimal n tri (x_of out)).
Proof.
  exists 2%nat, f6_tri. split; [vm_compute; reflexivity|]. split.
  - apply (wf_has_pm_by _ _ [0;1]%nat [0;1]%nat). vm_compute. reflexivity.
  - split; [|split; [|split]].
    + eexists. split; [vm_compute; reflexivity|].
      apply (not_optimal_by _ _ _ [0;1]%nat [0;1]%nat); vm_compute; reflexivity.
    + apply certified_optimal. vm_compute. reflexivity.
    + apply certified_optimal. vm_compute. reflexivity.
    + apply certified_optimal. vm_compute. reflexivity.
Qed.

(* ---------------------------------------------------------------- F20: the sentinel inf = sum(c) + 1 of augment *)

(* n = 4, the unique perfect matching 0->1, 1->3, 2->2, 3->0 uses the three expensive pairs (cost B = 14); with 0 passes of
   augmenting row reduction the as-is prices go so negative (v[2] = -33) that a legitimate reduced cost exceeds sum(c) + 1 = 50:
   a rebuild of scan in augment finds no column, and the code reads p_scan[low] past `up` (SIGSEGV on the real code).  The model
   returns None exactly there; the same model with a true infinity returns the optimum. *)
Definition f20_tri : list triple :=
  [T 0 1 (sc 14); T 0 2 (sc 1); T 1 1 (sc 2); T 1 3 (sc 14); T 2 2 (sc 14); T 3 0 (sc 2); T 3 3 (sc 2)].

Theorem inf_sentinel_refuted :
  exists n tri k, wf n tri /\ has_PM n tri /\
    lapjv AsIs eps26 eps26 k n tri = None /\
    (exists out, lapjv_ref AsIs eps26 eps26 k n tri = Some out /\ Optimal n tri (x_of out)).
Proof.
  exists 4%nat, f20_tri, 0%nat. split; [vm_compute; reflexivity|]. split.
  - apply (wf_has_pm_by _ _ [1; 3; 2; 0]%nat [3; 0; 2; 1]%nat). vm_compute. reflexivity.
  - split; [vm_compute; reflexivity|]. apply certified_optimal. vm_compute. reflexivity.
Qed.
