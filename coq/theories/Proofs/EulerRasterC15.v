(* C15 — the unrestricted Euler statement by induction over the pixels in raster order.
   Combinatorial half (Full): deleting the raster-LAST pixel of a label changes 4 W by 4 (1 - k), k the
   number of 8-components of its set neighbours among W, NW, N, NE (16 patterns, kernel computation).
   Topological half: components - holes changes by the same 1 - k; proved for k = 0 (isolated point),
   k = 1 (the pixel is simple) and for k = 2 up to ONE named implication, the converse half of the
   digital Jordan lemma for the last pixel ([bridge_keeps_background]); the other half is C05's
   sep_not_connected (imported). *)
From Coq Require Import ZArith List Bool Lia.
From Centro Require Import Base.Topo Base.TopoPar Base.Skel Spec.TopoCheck Proofs.TopoCounts Proofs.EndPixelParity Proofs.EndPixelSep.
From Centro Require Import Base.GraphC15 Model.LabelGraph Spec.EulerMovesC15 Proofs.NeighborsC15 Proofs.EulerQuadC15
  Proofs.EulerStepC15 Proofs.EulerTopoC15.
Import ListNotations.
Open Scope Z_scope.

(* ---------------------------------------------------------------- the combinatorial half *)
(* number of 8-components of the set neighbours NW, N, NE, W of the last pixel *)
Definition k_last (nw n ne w : bool) : Z :=
  Spec.LabelGraph.n_components Spec.LabelGraph.adj8
    (map fst (filter snd [((-1, -1), nw); ((-1, 0), n); ((-1, 1), ne); ((0, -1), w)])).

Lemma qdelta_last : forall nw n ne w, qdelta nw n ne w false false false false = 4 * (1 - k_last nw n ne w).
Proof. intros nw n ne w. destruct nw, n, ne, w; vm_compute; reflexivity. Qed.
Lemma k_last_cases : forall nw n ne w,
  (k_last nw n ne w = 0 /\ nw = false /\ n = false /\ ne = false /\ w = false) \/
  (k_last nw n ne w = 1 /\ simple_ok [nw; n; ne; w; true; false; false; false; false] = true) \/
  (k_last nw n ne w = 2 /\ n = false /\ ne = true /\ (w = true \/ nw = true)).
Proof. intros nw n ne w. destruct nw, n, ne, w; vm_compute; tauto. Qed.

Definition last_px (im : image) (l y x : Z) : Prop :=
  get2 im y x = l /\ forall y' x', get2 im y' x' = l -> ~ ltr (y, x) (y', x').

Theorem euler_delete_last_pixel (im : image) (l y x : Z) : rect im -> l <> 0 -> last_px im l y x ->
  euler4 im l = euler4 (remove_px im y x) l +
    4 * (1 - k_last (inS im l (y - 1) (x - 1)) (inS im l (y - 1) x) (inS im l (y - 1) (x + 1)) (inS im l y (x - 1))).
Proof.
  intros R Hl [P Last]. rewrite (euler_removal_step im l y x R Hl P).
  assert (F : forall dy dx, ltr (y, x) (y + dy, x + dx) -> inS im l (y + dy) (x + dx) = false).
  { intros dy dx Lt. unfold inS. apply Z.eqb_neq. intros E. exact (Last _ _ E Lt). }
  rewrite (F 0 1), (F 1 (-1)), (F 1 0), (F 1 1) by (unfold ltr; cbn [fst snd]; lia).
  rewrite qdelta_last. rewrite !Z.add_0_r. replace (y + -1) with (y - 1) by lia. replace (x + -1) with (x - 1) by lia.
  reflexivity.
Qed.

(* ---------------------------------------------------------------- adding a point that bridges two classes *)
Section AddBridge.
Variable R : px -> px -> Prop.
Hypothesis R_sym : forall a b, R a b -> R b a.
Hypothesis R_irr : forall a b, R a b -> a <> b.
Variables (Small Big : px -> Prop) (p a b : px).
Hypothesis big_iff : forall z, Big z <-> Small z \/ z = p.
Hypothesis p_new : ~ Small p.
Hypothesis Ra : R p a. Hypothesis Sa : Small a.
Hypothesis Rb : R p b. Hypothesis Sb : Small b.
Hypothesis nbrs : forall z, R p z -> Small z -> path R Small z a \/ path R Small z b.
Hypothesis apart : ~ path R Small a b.

Definition cls (z : px) : Prop := path R Small z a \/ path R Small z b.
Lemma sm_sym x y : path R Small x y -> path R Small y x. Proof. apply path_sym. exact R_sym. Qed.
Lemma cls_path x y : cls x -> path R Small x y -> cls y.
Proof. intros [H|H] P; [left|right]; (eapply path_trans; [apply sm_sym; exact P|exact H]). Qed.

Lemma ab_reroute : forall x y, path R Big x y -> y <> p ->
  (x <> p -> path R Small x y \/ (cls x /\ cls y)) /\ (x = p -> cls y).
Proof.
  intros x y H. induction H as [x Hx|x z y Hx Hxz Hzy IH]; intros Ny.
  - split; [intros Nx; left; apply path_refl; apply big_iff in Hx; tauto|intros ->; contradiction].
  - specialize (IH Ny). destruct IH as [IH1 IH2]. split.
    + intros Nx. assert (Sx : Small x) by (apply big_iff in Hx; tauto).
      destruct (px_eqb_spec z p) as [->|Nz].
      * right. split; [|apply IH2; reflexivity]. apply nbrs; [apply R_sym; exact Hxz|exact Sx].
      * destruct (IH1 Nz) as [P|[Cz Cy]].
        -- left. eapply path_step; eauto.
        -- right. split; [|exact Cy]. apply (cls_path z); [exact Cz|].
           apply sm_sym. eapply path_step; [exact Sx|exact Hxz|apply path_refl]. apply path_start in Hzy. apply big_iff in Hzy. tauto.
    + intros ->. assert (Nz : z <> p) by (apply R_irr in Hxz; congruence).
      assert (Sz : Small z) by (apply path_start in Hzy; apply big_iff in Hzy; tauto).
      destruct (IH1 Nz) as [P|[_ Cy]]; [|exact Cy]. apply (cls_path z); [apply nbrs; assumption|exact P].
Qed.

Lemma filter_drop_one (l : list px) (x : px) : NoDup l -> In x l ->
  length l = S (length (filter (fun q => negb (Topo.px_eqb q x)) l)).
Proof.
  induction 1 as [|c r Hc ND IH]; intros Hin; [destruct Hin|]. cbn [filter length].
  destruct (px_eqb_spec c x) as [->|Ne]; cbn [negb].
  - f_equal. clear IH Hin. induction r as [|d r IH]; [reflexivity|]. cbn [filter]. destruct (px_eqb_spec d x) as [->|N0]; cbn [negb].
    + exfalso. apply Hc. left. reflexivity.
    + cbn [length]. f_equal. apply IH; [intros H; apply Hc; right; exact H|inversion ND; assumption].
  - destruct Hin as [E|Hin]; [congruence|]. cbn [length]. f_equal. apply IH. exact Hin.
Qed.
Lemma pairwise_nodup (Rel : px -> px -> Prop) (l : list px) : (forall x, In x l -> Rel x x) ->
  pairwise (fun u v => ~ Rel u v) l -> NoDup l.
Proof.
  intros Refl. induction l as [|c r IH]; intros P; [constructor|]. cbn [pairwise] in P. destruct P as [Pc Pr].
  constructor; [|apply IH; [intros; apply Refl; right; assumption|exact Pr]].
  intros Hin. rewrite Forall_forall in Pc. apply (Pc c Hin). apply Refl. left. reflexivity.
Qed.
Lemma pairwise_in (Rel : px -> px -> Prop) (l : list px) : (forall u v, Rel u v -> Rel v u) ->
  pairwise (fun u v => ~ Rel u v) l -> forall u v, In u l -> In v l -> u <> v -> ~ Rel u v.
Proof.
  intros Sym. induction l as [|c r IH]; intros P u v Hu Hv Ne; [destruct Hu|]. cbn [pairwise] in P. destruct P as [Pc Pr].
  rewrite Forall_forall in Pc. destruct Hu as [<-|Hu], Hv as [<-|Hv].
  - congruence.
  - apply Pc. exact Hv.
  - intros Q. apply (Pc u Hu). apply Sym. exact Q.
  - apply IH; assumption.
Qed.

Lemma ab_counts l : comp_reps R Small l -> exists l', length l = S (length l') /\ comp_reps R Big l'.
Proof.
  intros C. pose proof C as [HF [HP HC]].
  destruct (HC a Sa) as [ra [Hra Pa]]. destruct (HC b Sb) as [rb [Hrb Pb]].
  assert (SF : forall z, In z l -> Small z) by (rewrite Forall_forall in HF; exact HF).
  assert (ND : NoDup l).
  { apply (pairwise_nodup (path R Small)); [intros z Hz; apply path_refl; apply SF; exact Hz|exact HP]. }
  assert (PW := pairwise_in (path R Small) l sm_sym HP).
  assert (Nab : ra <> rb).
  { intros E. apply apart. eapply path_trans; [exact Pa|]. rewrite E. apply sm_sym. exact Pb. }
  set (l' := filter (fun q => negb (Topo.px_eqb q rb)) l).
  assert (IN : forall z, In z l' <-> In z l /\ z <> rb).
  { intros z. unfold l'. rewrite filter_In. destruct (px_eqb_spec z rb); cbn; intuition congruence. }
  assert (BS : forall z, Small z -> Big z) by (intros z Hz; apply big_iff; left; exact Hz).
  assert (UP : forall x y, path R Small x y -> path R Big x y) by (intros x y; apply path_mono; exact BS).
  assert (REP : forall r, In r l -> cls r -> r = ra \/ r = rb).
  { intros r Hr [H|H].
    - left. destruct (px_eqb_spec r ra) as [E|Ne]; [exact E|]. exfalso. apply (PW r ra Hr Hra Ne). eapply path_trans; eauto.
    - right. destruct (px_eqb_spec r rb) as [E|Ne]; [exact E|]. exfalso. apply (PW r rb Hr Hrb Ne). eapply path_trans; eauto. }
  exists l'. split; [unfold l'; apply filter_drop_one; assumption|]. split; [|split].
  - apply Forall_forall. intros z Hz. apply IN in Hz. apply BS. apply SF. tauto.
  - assert (G : forall m : list px, (forall z, In z m -> In z l') -> NoDup m -> pairwise (fun u v => ~ path R Big u v) m).
    { induction m as [|c r IH]; intros Sub NDm; cbn [pairwise]; [exact I|]. inversion NDm as [|? ? Hc NDr]; subst. split.
      - apply Forall_forall. intros d Hd Q.
        assert (Ic : In c l /\ c <> rb) by (apply IN; apply Sub; left; reflexivity).
        assert (Id : In d l /\ d <> rb) by (apply IN; apply Sub; right; exact Hd).
        assert (Ncd : c <> d) by (intros ->; contradiction).
        assert (Np : forall z, In z l -> z <> p) by (intros z Hz ->; apply p_new; apply SF; exact Hz).
        destruct (proj1 (ab_reroute c d Q (Np d (proj1 Id))) (Np c (proj1 Ic))) as [P|[Cc Cd]].
        + apply (PW c d (proj1 Ic) (proj1 Id) Ncd P).
        + destruct (REP c (proj1 Ic) Cc) as [E1|E1]; [|tauto]. destruct (REP d (proj1 Id) Cd) as [E2|E2]; [|tauto]. congruence.
      - apply IH; [intros z Hz; apply Sub; right; exact Hz|exact NDr]. }
    apply G; [auto|]. unfold l'. clear - ND. induction ND as [|c r Hc ND IH]; cbn [filter]; [constructor|].
    destruct (negb (Topo.px_eqb c rb)); [|exact IH]. constructor; [|exact IH]. intros H. apply filter_In in H. tauto.
  - intros z Hz. apply big_iff in Hz. destruct Hz as [Hz| ->].
    + destruct (HC z Hz) as [r [Hr Pr]]. destruct (px_eqb_spec r rb) as [->|Ne].
      * exists ra. split; [apply IN; split; assumption|].
        eapply path_trans; [apply UP; exact Pr|]. eapply path_trans; [apply UP; apply sm_sym; exact Pb|].
        eapply path_step; [apply BS; exact Sb|apply R_sym; exact Rb|].
        eapply path_step; [apply big_iff; right; reflexivity|exact Ra|apply UP; exact Pa].
      * exists r. split; [apply IN; split; assumption|apply UP; exact Pr].
    + exists ra. split; [apply IN; split; assumption|].
      eapply path_step; [apply big_iff; right; reflexivity|exact Ra|apply UP; exact Pa].
Qed.
End AddBridge.
