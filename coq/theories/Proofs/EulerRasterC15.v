(* C15 — the unrestricted Euler statement by induction over the pixels in raster order.
   Combinatorial half (Full): deleting the raster-LAST pixel of a label changes 4 W by 4 (1 - k), k the
   number of 8-components of its set neighbours among W, NW, N, NE (16 patterns, kernel computation).
   Topological half: components - holes changes by the same 1 - k; proved for k = 0 (isolated point),
   k = 1 (the pixel is simple) and for k = 2 up to ONE named implication, the converse half of the
   digital Jordan lemma for the last pixel ([bridge_keeps_background]); the other half is C05's
   sep_not_connected (imported). *)
From Coq Require Import ZArith List Bool Lia.
From Centro Require Import Base.Topo Base.TopoPar Base.Skel Spec.TopoCheck Proofs.TopoCounts Proofs.EndPixelParity Proofs.EndPixelSep.
From Centro Require Import Base.GraphC15 Model.LabelGraph Spec.EulerMovesC15 Proofs.NeighborsC15 Proofs.EulerQuadC15
  Proofs.EulerStepC15 Proofs.EulerTopoC15.
Import ListNotations.
Open Scope Z_scope.

(* ---------------------------------------------------------------- the combinatorial half *)
(* number of 8-components of the set neighbours NW, N, NE, W of the last pixel *)
Definition k_last (nw n ne w : bool) : Z :=
  Spec.LabelGraph.n_components Spec.LabelGraph.adj8
    (map fst (filter snd [((-1, -1), nw); ((-1, 0), n); ((-1, 1), ne); ((0, -1), w)])).

Lemma qdelta_last : forall nw n ne w, qdelta nw n ne w false false false false = 4 * (1 - k_last nw n ne w).
Proof. intros nw n ne w. destruct nw, n, ne, w; vm_compute; reflexivity. Qed.
Lemma k_last_cases : forall nw n ne w,
  (k_last nw n ne w = 0 /\ nw = false /\ n = false /\ ne = false /\ w = false) \/
  (k_last nw n ne w = 1 /\ simple_ok [nw; n; ne; w; true; false; false; false; false] = true) \/
  (k_last nw n ne w = 2 /\ n = false /\ ne = true /\ (w = true \/ nw = true)).
Proof. intros nw n ne w. destruct nw, n, ne, w; vm_compute; tauto. Qed.

Definition last_px (im : image) (l y x : Z) : Prop :=
  get2 im y x = l /\ forall y' x', get2 im y' x' = l -> ~ ltr (y, x) (y', x').

Theorem euler_delete_last_pixel (im : image) (l y x : Z) : rect im -> l <> 0 -> last_px im l y x ->
  euler4 im l = euler4 (remove_px im y x) l +
    4 * (1 - k_last (inS im l (y - 1) (x - 1)) (inS im l (y - 1) x) (inS im l (y - 1) (x + 1)) (inS im l y (x - 1))).
Proof.
  intros R Hl [P Last]. rewrite (euler_removal_step im l y x R Hl P).
  assert (F : forall dy dx, ltr (y, x) (y + dy, x + dx) -> inS im l (y + dy) (x + dx) = false).
  { intros dy dx Lt. unfold inS. apply Z.eqb_neq. intros E. exact (Last _ _ E Lt). }
  rewrite (F 0 1), (F 1 (-1)), (F 1 0), (F 1 1) by (unfold ltr; cbn [fst snd]; lia).
  rewrite qdelta_last. rewrite !Z.add_0_r. replace (y + -1) with (y - 1) by lia. replace (x + -1) with (x - 1) by lia.
  reflexivity.
Qed.

(* ---------------------------------------------------------------- adding a point that bridges two classes *)
Section AddBridge.
Variable R : px -> px -> Prop.
Hypothesis R_sym : forall a b, R a b -> R b a.
Hypothesis R_irr : forall a b, R a b -> a <> b.
Variables (Small Big : px -> Prop) (p a b : px).
Hypothesis big_iff : forall z, Big z <-> Small z \/ z = p.
Hypothesis p_new : ~ Small p.
Hypothesis Ra : R p a. Hypothesis Sa : Small a.
Hypothesis Rb : R p b. Hypothesis Sb : Small b.
Hypothesis nbrs : forall z, R p z -> Small z -> path R Small z a \/ path R Small z b.
Hypothesis apart : ~ path R Small a b.

Definition cls (z : px) : Prop := path R Small z a \/ path R Small z b.
Lemma sm_sym x y : path R Small x y -> path R Small y x. Proof. apply path_sym. exact R_sym. Qed.
Lemma cls_path x y : cls x -> path R Small x y -> cls y.
Proof. intros [H|H] P; [left|right]; (eapply path_trans; [apply sm_sym; exact P|exact H]). Qed.

Lemma ab_reroute : forall x y, path R Big x y -> y <> p ->
  (x <> p -> path R Small x y \/ (cls x /\ cls y)) /\ (x = p -> cls y).
Proof.
  intros x y H. induction H as [x Hx|x z y Hx Hxz Hzy IH]; intros Ny.
  - split; [intros Nx; left; apply path_refl; apply big_iff in Hx; tauto|intros ->; contradiction].
  - specialize (IH Ny). destruct IH as [IH1 IH2]. split.
    + intros Nx. assert (Sx : Small x) by (apply big_iff in Hx; tauto).
      destruct (px_eqb_spec z p) as [->|Nz].
      * right. split; [|apply IH2; reflexivity]. apply nbrs; [apply R_sym; exact Hxz|exact Sx].
      * destruct (IH1 Nz) as [P|[Cz Cy]].
        -- left. eapply path_step; eauto.
        -- right. split; [|exact Cy]. apply (cls_path z); [exact Cz|].
           apply sm_sym. eapply path_step; [exact Sx|exact Hxz|apply path_refl]. apply path_start in Hzy. apply big_iff in Hzy. tauto.
    + intros ->. assert (Nz : z <> p) by (apply R_irr in Hxz; congruence).
      assert (Sz : Small z) by (apply path_start in Hzy; apply big_iff in Hzy; tauto).
      destruct (IH1 Nz) as [P|[_ Cy]]; [|exact Cy]. apply (cls_path z); [apply nbrs; assumption|exact P].
Qed.

Lemma filter_drop_one (l : list px) (x : px) : NoDup l -> In x l ->
  length l = S (length (filter (fun q => negb (Topo.px_eqb q x)) l)).
Proof.
  induction 1 as [|c r Hc ND IH]; intros Hin; [destruct Hin|]. cbn [filter length].
  destruct (px_eqb_spec c x) as [->|Ne]; cbn [negb].
  - f_equal. clear IH Hin. induction r as [|d r IH]; [reflexivity|]. cbn [filter]. destruct (px_eqb_spec d x) as [->|N0]; cbn [negb].
    + exfalso. apply Hc. left. reflexivity.
    + cbn [length]. f_equal. apply IH; [intros H; apply Hc; right; exact H|inversion ND; assumption].
  - destruct Hin as [E|Hin]; [congruence|]. cbn [length]. f_equal. apply IH. exact Hin.
Qed.
Lemma pairwise_nodup (Rel : px -> px -> Prop) (l : list px) : (forall x, In x l -> Rel x x) ->
  pairwise (fun u v => ~ Rel u v) l -> NoDup l.
Proof.
  intros Refl. induction l as [|c r IH]; intros P; [constructor|]. cbn [pairwise] in P. destruct P as [Pc Pr].
  constructor; [|apply IH; [intros; apply Refl; right; assumption|exact Pr]].
  intros Hin. rewrite Forall_forall in Pc. apply (Pc c Hin). apply Refl. left. reflexivity.
Qed.
Lemma pairwise_in (Rel : px -> px -> Prop) (l : list px) : (forall u v, Rel u v -> Rel v u) ->
  pairwise (fun u v => ~ Rel u v) l -> forall u v, In u l -> In v l -> u <> v -> ~ Rel u v.
Proof.
  intros Sym. induction l as [|c r IH]; intros P u v Hu Hv Ne; [destruct Hu|]. cbn [pairwise] in P. destruct P as [Pc Pr].
  rewrite Forall_forall in Pc. destruct Hu as [<-|Hu], Hv as [<-|Hv].
  - congruence.
  - apply Pc. exact Hv.
  - intros Q. apply (Pc u Hu). apply Sym. exact Q.
  - apply IH; assumption.
Qed.

Lemma ab_counts l : comp_reps R Small l -> exists l', length l = S (length l') /\ comp_reps R Big l'.
Proof.
  intros C. pose proof C as [HF [HP HC]].
  destruct (HC a Sa) as [ra [Hra Pa]]. destruct (HC b Sb) as [rb [Hrb Pb]].
  assert (SF : forall z, In z l -> Small z) by (rewrite Forall_forall in HF; exact HF).
  assert (ND : NoDup l).
  { apply (pairwise_nodup (path R Small)); [intros z Hz; apply path_refl; apply SF; exact Hz|exact HP]. }
  assert (PW := pairwise_in (path R Small) l sm_sym HP).
  assert (Nab : ra <> rb).
  { intros E. apply apart. eapply path_trans; [exact Pa|]. rewrite E. apply sm_sym. exact Pb. }
  set (l' := filter (fun q => negb (Topo.px_eqb q rb)) l).
  assert (IN : forall z, In z l' <-> In z l /\ z <> rb).
  { intros z. unfold l'. rewrite filter_In. destruct (px_eqb_spec z rb); cbn; intuition congruence. }
  assert (BS : forall z, Small z -> Big z) by (intros z Hz; apply big_iff; left; exact Hz).
  assert (UP : forall x y, path R Small x y -> path R Big x y) by (intros x y; apply path_mono; exact BS).
  assert (REP : forall r, In r l -> cls r -> r = ra \/ r = rb).
  { intros r Hr [H|H].
    - left. destruct (px_eqb_spec r ra) as [E|Ne]; [exact E|]. exfalso. apply (PW r ra Hr Hra Ne). eapply path_trans; eauto.
    - right. destruct (px_eqb_spec r rb) as [E|Ne]; [exact E|]. exfalso. apply (PW r rb Hr Hrb Ne). eapply path_trans; eauto. }
  exists l'. split; [unfold l'; apply filter_drop_one; assumption|]. split; [|split].
  - apply Forall_forall. intros z Hz. apply IN in Hz. apply BS. apply SF. tauto.
  - assert (G : forall m : list px, (forall z, In z m -> In z l') -> NoDup m -> pairwise (fun u v => ~ path R Big u v) m).
    { induction m as [|c r IH]; intros Sub NDm; cbn [pairwise]; [exact I|]. inversion NDm as [|? ? Hc NDr]; subst. split.
      - apply Forall_forall. intros d Hd Q.
        assert (Ic : In c l /\ c <> rb) by (apply IN; apply Sub; left; reflexivity).
        assert (Id : In d l /\ d <> rb) by (apply IN; apply Sub; right; exact Hd).
        assert (Ncd : c <> d) by (intros ->; contradiction).
        assert (Np : forall z, In z l -> z <> p) by (intros z Hz ->; apply p_new; apply SF; exact Hz).
        destruct (proj1 (ab_reroute c d Q (Np d (proj1 Id))) (Np c (proj1 Ic))) as [P|[Cc Cd]].
        + apply (PW c d (proj1 Ic) (proj1 Id) Ncd P).
        + destruct (REP c (proj1 Ic) Cc) as [E1|E1]; [|tauto]. destruct (REP d (proj1 Id) Cd) as [E2|E2]; [|tauto]. congruence.
      - apply IH; [intros z Hz; apply Sub; right; exact Hz|exact NDr]. }
    apply G; [auto|]. unfold l'. clear - ND. induction ND as [|c r Hc ND IH]; cbn [filter]; [constructor|].
    destruct (negb (Topo.px_eqb c rb)); [|exact IH]. constructor; [|exact IH]. intros H. apply filter_In in H. tauto.
  - intros z Hz. apply big_iff in Hz. destruct Hz as [Hz| ->].
    + destruct (HC z Hz) as [r [Hr Pr]]. destruct (px_eqb_spec r rb) as [->|Ne].
      * exists ra. split; [apply IN; split; assumption|].
        eapply path_trans; [apply UP; exact Pr|]. eapply path_trans; [apply UP; apply sm_sym; exact Pb|].
        eapply path_step; [apply BS; exact Sb|apply R_sym; exact Rb|].
        eapply path_step; [apply big_iff; right; reflexivity|exact Ra|apply UP; exact Pa].
      * exists r. split; [apply IN; split; assumption|apply UP; exact Pr].
    + exists ra. split; [apply IN; split; assumption|].
      eapply path_step; [apply big_iff; right; reflexivity|exact Ra|apply UP; exact Pa].
Qed.
End AddBridge.

(* ---------------------------------------------------------------- the topological half at the last pixel *)
(* the one implication that is NOT proved: the converse of C05's sep_not_connected.  If the set
   neighbour u (W or NW) of the last pixel p and NE(p) are not 8-connected without p, the background
   pixel N(p) is still 4-connected to S(p) (to the outside) when p is present. *)
Definition bridge_keeps_background : Prop :=
  forall (Y : Topo.img) (L : list px) (p u : px), (forall q, Y q = true -> In q L) ->
    Y p = true -> (forall q, Y q = true -> ~ ltr p q) ->
    Y (pN p) = false -> Y (pNE p) = true -> (u = pW p \/ u = pNW p) -> Y u = true ->
    ~ path adj8 (fun q => fg Y q /\ q <> p) u (pNE p) -> path adj4 (bg Y) (pN p) (pS p).

Lemma nb_N p : nb p 1 = pN p. Proof. unfold nb, off, pN. cbn. f_equal; lia. Qed.
Lemma nb_NE p : nb p 2 = pNE p. Proof. unfold nb, off, pNE. cbn. f_equal; lia. Qed.
Lemma nb_NW p : nb p 0 = pNW p. Proof. unfold nb, off, pNW. cbn. f_equal; lia. Qed.
Lemma nb_W p : nb p 3 = pW p. Proof. unfold nb, off, pW. cbn. f_equal; lia. Qed.
Lemma nb_S p : nb p 7 = pS p. Proof. unfold nb, off, pS. cbn. f_equal; lia. Qed.

Section LastStep.
Variables (Y : Topo.img) (L : list px) (p : px).
Hypothesis Y_fin : forall q, Y q = true -> In q L.
Hypothesis Yp : Y p = true.
Hypothesis last : forall q, Y q = true -> ~ ltr p q.
Hypothesis JH : bridge_keeps_background.
Let X' := Topo.remove Y p.
Hypothesis conn_dec : forall a b, path adj8 (fg X') a b \/ ~ path adj8 (fg X') a b.

Lemma later_bg b : In b [5; 6; 7; 8]%nat -> Y (nb p b) = false.
Proof.
  intros Hb. destruct (Y (nb p b)) eqn:E; [|reflexivity]. exfalso. apply (last _ E).
  destruct p as [r c]. unfold ltr, nb, off. cbn [In] in Hb. destruct Hb as [<-|[<-|[<-|[<-|[]]]]]; cbn; lia.
Qed.
Lemma pat_last : pat Y p = [Y (nb p 0); Y (nb p 1); Y (nb p 2); Y (nb p 3); true; false; false; false; false].
Proof.
  unfold pat. cbn [seq map]. rewrite nb_center, Yp.
  rewrite (later_bg 5), (later_bg 6), (later_bg 7), (later_bg 8) by (cbn; tauto). reflexivity.
Qed.
Lemma A8 a b : padj8 a b = true -> adj8 (nb p a) (nb p b). Proof. apply padj8_sound. Qed.
Lemma A4 a b : padj4 a b = true -> adj4 (nb p a) (nb p b). Proof. apply padj4_sound. Qed.
Lemma A8p b : padj8 4 b = true -> adj8 p (nb p b). Proof. intros H. rewrite <- (nb_center p) at 1. apply padj8_sound. exact H. Qed.
Lemma A4p b : padj4 4 b = true -> adj4 p (nb p b). Proof. intros H. rewrite <- (nb_center p) at 1. apply padj4_sound. exact H. Qed.
Lemma nb_ne_p b : (b < 9)%nat -> b <> 4%nat -> nb p b <> p.
Proof. intros Lb Nb E. apply Nb. eapply nb_is_center; eauto. Qed.

Theorem last_step fgl bgl fgl' bgl' :
  comp_reps adj8 (fg Y) fgl -> comp_reps adj4 (bg Y) bgl ->
  comp_reps adj8 (fg X') fgl' -> comp_reps adj4 (bg X') bgl' ->
  topo_count fgl bgl = topo_count fgl' bgl' + (1 - k_last (Y (nb p 0)) (Y (nb p 1)) (Y (nb p 2)) (Y (nb p 3))).
Proof.
  intros CF CB CF' CB'. unfold topo_count.
  assert (Fp : fg Y p) by exact Yp.
  assert (U8 := fun l1 l2 => comp_reps_length adj8 (fg X') l1 l2 adj8_sym).
  assert (U4 := fun l1 l2 => comp_reps_length adj4 (bg X') l1 l2 adj4_sym).
  assert (V8 := fun l1 l2 => comp_reps_length adj8 (fg Y) l1 l2 adj8_sym).
  assert (V4 := fun l1 l2 => comp_reps_length adj4 (bg Y) l1 l2 adj4_sym).
  pose proof pat_last as PL.
  destruct (k_last_cases (Y (nb p 0)) (Y (nb p 1)) (Y (nb p 2)) (Y (nb p 3))) as [[K [E0 [E1 [E2 E3]]]]|[[K SO]|[K [E1 [E2 EU]]]]]; rewrite K.
  - (* isolated point *)
    assert (ISO : forall a, adj8 p a -> bg Y a).
    { intros a Ha. destruct (adj8_is_nb p a Ha) as [b [Lb [Nb ->]]]. unfold bg.
      do 9 (destruct b as [|b]; [try congruence; try assumption; apply later_bg; cbn; tauto|]). lia. }
    destruct (iso_fg_counts Y p Fp ISO fgl CF) as [l2 [L2 C2]].
    pose proof (iso_bg_counts Y p Fp ISO bgl CB) as C3.
    rewrite L2, (U8 _ _ C2 CF'), (U4 _ _ C3 CB'). lia.
  - (* simple *)
    assert (SA : SimpleAt Y p) by (apply simple_ok_sound; rewrite PL; exact SO).
    destruct (simple_counts Y p fgl bgl SA CF CB) as [l2 [L2 [C2 C3]]].
    rewrite <- L2, (U8 _ _ C2 CF'), (U4 _ _ C3 CB'). lia.
  - (* two groups: u on the left, NE on the right, N between them in the background *)
    assert (BN : bg Y (nb p 1)) by exact E1. assert (FNE : fg Y (nb p 2)) by exact E2.
    assert (UX : exists u, (u = nb p 3 \/ u = nb p 0) /\ fg Y u) by (destruct EU as [E|E]; [exists (nb p 3)|exists (nb p 0)]; auto).
    destruct UX as [u [Hu Fu]].
    assert (Nu : u <> p) by (destruct Hu as [-> | ->]; apply nb_ne_p; lia).
    assert (Au : adj8 p u) by (destruct Hu as [-> | ->]; apply A8p; reflexivity).
    assert (FXu : fg X' u) by (apply remove_fg; auto).
    assert (FXne : fg X' (nb p 2)) by (apply remove_fg; split; [exact FNE|apply nb_ne_p; lia]).
    (* set neighbours of p are on the side of u or are NE *)
    assert (FN : forall z, adj8 p z -> fg X' z -> path adj8 (fg X') z u \/ path adj8 (fg X') z (nb p 2)).
    { intros z Hz Fz. destruct (adj8_is_nb p z Hz) as [b [Lb [Nb ->]]]. apply remove_fg in Fz. destruct Fz as [Fz _]. unfold fg in Fz.
      assert (Cb : (b = 0 \/ b = 1 \/ b = 2 \/ b = 3 \/ b = 5 \/ b = 6 \/ b = 7 \/ b = 8)%nat) by lia.
      destruct Cb as [->|[->|[->|[->|[->|[->|[->| ->]]]]]]];
        try (rewrite later_bg in Fz by (cbn; tauto); discriminate).
      - (* NW *) left. destruct Hu as [-> | ->]; [|apply path_refl; exact FXu].
        eapply path_step; [apply remove_fg; split; [exact Fz|apply nb_ne_p; lia]|apply (A8 0 3); reflexivity|apply path_refl; exact FXu].
      - (* N *) unfold bg in BN. congruence.
      - right. apply path_refl. exact FXne.
      - (* W *) left. destruct Hu as [-> | ->]; [apply path_refl; exact FXu|].
        eapply path_step; [apply remove_fg; split; [exact Fz|apply nb_ne_p; lia]|apply (A8 3 0); reflexivity|apply path_refl; exact FXu]. }
    (* background 4-neighbours of p are N or are connected to S below *)
    assert (BS7 : bg Y (nb p 7)) by (apply later_bg; cbn; tauto).
    assert (BNb : forall z, adj4 p z -> bg Y z -> path adj4 (bg Y) z (nb p 1) \/ path adj4 (bg Y) z (nb p 7)).
    { intros z Hz Bz. destruct (adj4_is_nb p z Hz) as [b [Hb ->]]. cbn [In] in Hb. destruct Hb as [<-|[<-|[<-|[<-|[]]]]].
      - left. apply path_refl. exact Bz.
      - right. eapply path_step; [exact Bz|apply (A4 3 6); reflexivity|].
        eapply path_step; [apply later_bg; cbn; tauto|apply (A4 6 7); reflexivity|apply path_refl; exact BS7].
      - right. eapply path_step; [exact Bz|apply (A4 5 8); reflexivity|].
        eapply path_step; [apply later_bg; cbn; tauto|apply (A4 8 7); reflexivity|apply path_refl; exact BS7].
      - right. apply path_refl. exact Bz. }
    assert (BIf : forall z, fg Y z <-> fg X' z \/ z = p).
    { intros z. split; [intros Hz; destruct (px_eqb_spec z p) as [->|N0]; [right; reflexivity|left; apply remove_fg; auto]|].
      intros [Hz| ->]; [apply remove_fg in Hz; tauto|exact Fp]. }
    assert (PNf : ~ fg X' p) by (intros H; apply remove_fg in H; tauto).
    assert (BIb : forall z, bg X' z <-> bg Y z \/ z = p) by (intros z; apply remove_bg).
    assert (PNb : ~ bg Y p) by (unfold bg; congruence).
    assert (IRR8 : forall a b, adj8 a b -> a <> b) by (intros a b [H _]; exact H).
    destruct (conn_dec u (nb p 2)) as [SAME|DIFF].
    + (* same component: N is cut off from the outside (C05's sep_not_connected): one more hole *)
      assert (APART : ~ path adj4 (bg Y) (nb p 1) (nb p 7)).
      { intros Q. rewrite nb_N, nb_S in Q.
        assert (HN : Y (pN p) = false) by (rewrite <- nb_N; exact E1).
        assert (HNE : Y (pNE p) = true) by (rewrite <- nb_NE; exact E2).
        assert (HU : u = pW p \/ u = pNW p) by (rewrite <- nb_W, <- nb_NW; exact Hu).
        assert (SM : path adj8 (fun q => fg Y q /\ q <> p) u (pNE p)).
        { rewrite <- nb_NE. eapply path_mono; [|exact SAME]. intros q Hq. apply remove_fg in Hq. exact Hq. }
        exact (sep_not_connected Y p u Yp last HN HNE HU Fu Q SM). }
      assert (RING : forall a b, adj8 p a -> adj8 p b -> fg X' a -> fg X' b -> path adj8 (fg X') a b).
      { intros a b Ha Hb Fa Fb. pose proof (path_sym adj8 (fg X') adj8_sym) as SY.
        destruct (FN a Ha Fa) as [Pa|Pa], (FN b Hb Fb) as [Pb|Pb].
        - eapply path_trans; [exact Pa|apply SY; exact Pb].
        - eapply path_trans; [exact Pa|]. eapply path_trans; [exact SAME|apply SY; exact Pb].
        - eapply path_trans; [exact Pa|]. eapply path_trans; [apply SY; exact SAME|apply SY; exact Pb].
        - eapply path_trans; [exact Pa|apply SY; exact Pb]. }
      pose proof (aa_counts adj8 adj8_sym IRR8 (fg X') (fg Y) p BIf PNf RING (ex_intro _ u (conj Au FXu)) fgl' CF') as C2.
      destruct (ab_counts adj4 adj4_sym adj4_neq (bg Y) (bg X') p (nb p 1) (nb p 7) BIb PNb
                  (A4p 1 eq_refl) BN (A4p 7 eq_refl) BS7 BNb APART bgl CB) as [l3 [L3 C3]].
      rewrite (V8 _ _ CF C2), L3, (U4 _ _ C3 CB'). lia.
    + (* different components: p joins them; the background is unchanged given the missing lemma *)
      assert (APARTf : ~ path adj8 (fg X') u (nb p 2)) by exact DIFF.
      destruct (ab_counts adj8 adj8_sym IRR8 (fg X') (fg Y) p u (nb p 2) BIf PNf Au FXu (A8p 2 eq_refl) FXne FN APARTf fgl' CF')
        as [l2 [L2 C2]].
      assert (NS : path adj4 (bg Y) (nb p 1) (nb p 7)).
      { rewrite nb_N, nb_S.
        assert (HN : Y (pN p) = false) by (rewrite <- nb_N; exact E1).
        assert (HNE : Y (pNE p) = true) by (rewrite <- nb_NE; exact E2).
        assert (HU : u = pW p \/ u = pNW p) by (rewrite <- nb_W, <- nb_NW; exact Hu).
        apply (JH Y L p u Y_fin Yp last HN HNE HU Fu).
        rewrite <- nb_NE. intros Q. apply DIFF. eapply path_mono; [|exact Q]. intros q Hq. apply remove_fg. exact Hq. }
      assert (RINGb : forall a b, adj4 p a -> adj4 p b -> bg Y a -> bg Y b -> path adj4 (bg Y) a b).
      { intros a b Ha Hb Ba Bb. pose proof (path_sym adj4 (bg Y) adj4_sym) as SY.
        destruct (BNb a Ha Ba) as [Pa|Pa], (BNb b Hb Bb) as [Pb|Pb].
        - eapply path_trans; [exact Pa|apply SY; exact Pb].
        - eapply path_trans; [exact Pa|]. eapply path_trans; [exact NS|apply SY; exact Pb].
        - eapply path_trans; [exact Pa|]. eapply path_trans; [apply SY; exact NS|apply SY; exact Pb].
        - eapply path_trans; [exact Pa|apply SY; exact Pb]. }
      pose proof (aa_counts adj4 adj4_sym adj4_neq (bg Y) (bg X') p BIb PNb RINGb (ex_intro _ (nb p 7) (conj (A4p 7 eq_refl) BS7)) bgl CB) as C3.
      rewrite (V8 _ _ CF C2) in *. rewrite (U4 _ _ C3 CB'). lia.
Qed.
End LastStep.

(* adding a point that has a neighbour in the set never increases the number of classes *)
Section AddPointLe.
Variable R : px -> px -> Prop.
Hypothesis R_sym : forall a b, R a b -> R b a.
Variables (Small Big : px -> Prop) (p : px).
Hypothesis big_iff : forall z, Big z <-> Small z \/ z = p.
Hypothesis has_nb : exists a, R p a /\ Small a.
Lemma add_point_le l l' : comp_reps R Small l -> comp_reps R Big l' -> (length l' <= length l)%nat.
Proof.
  intros [HF [HP HC]] [HF' [HP' HC']].
  assert (UP : forall x y, path R Small x y -> path R Big x y) by (intros x y; apply path_mono; intros z Hz; apply big_iff; left; exact Hz).
  (* every class of Big contains a representative of Small *)
  assert (EX : forall r', Big r' -> exists r, In r l /\ path R Big r' r).
  { intros r' Hr'. apply big_iff in Hr'. destruct Hr' as [Hs| ->].
    - destruct (HC r' Hs) as [r [Hr P]]. exists r. split; [exact Hr|apply UP; exact P].
    - destruct has_nb as [a [Ra Sa]]. destruct (HC a Sa) as [r [Hr P]]. exists r. split; [exact Hr|].
      eapply path_step; [apply big_iff; right; reflexivity|exact Ra|apply UP; exact P]. }
  destruct (Forall2_build Big (fun r' r => In r l /\ path R Big r' r) l' EX HF') as [m F2].
  rewrite <- (Forall2_length' _ _ _ F2). apply NoDup_incl_length.
  - clear HF' HC'. induction F2 as [|a r l0 m0 [Hr Par] F2 IH]; [constructor|]. cbn [pairwise] in HP'. destruct HP' as [Ha HPr].
    constructor; [|apply IH; exact HPr]. intros Hin.
    destruct (Forall2_in_r _ _ _ r F2 Hin) as [a2 [Ha2 [_ Pa2]]].
    rewrite Forall_forall in Ha. apply (Ha a2 Ha2).
    eapply path_trans; [exact Par|]. apply (path_sym R Big R_sym). exact Pa2.
  - intros r Hr. destruct (Forall2_in_r _ _ _ r F2 Hr) as [a [_ [H _]]]. exact H.
Qed.
End AddPointLe.

Section LastStepLe.
Variables (Y : Topo.img) (L : list px) (p : px).
Hypothesis Y_fin : forall q, Y q = true -> In q L.
Hypothesis Yp : Y p = true.
Hypothesis last : forall q, Y q = true -> ~ ltr p q.
Let X' := Topo.remove Y p.
Hypothesis conn_dec : forall a b, path adj8 (fg X') a b \/ ~ path adj8 (fg X') a b.

Lemma later_bg_le b : In b [5; 6; 7; 8]%nat -> Y (nb p b) = false.
Proof.
  intros Hb. destruct (Y (nb p b)) eqn:E; [|reflexivity]. exfalso. apply (last _ E).
  destruct p as [r c]. unfold ltr, nb, off. cbn [In] in Hb. destruct Hb as [<-|[<-|[<-|[<-|[]]]]]; cbn; lia.
Qed.
Lemma pat_last_le : pat Y p = [Y (nb p 0); Y (nb p 1); Y (nb p 2); Y (nb p 3); true; false; false; false; false].
Proof.
  unfold pat. cbn [seq map]. rewrite nb_center, Yp.
  rewrite (later_bg_le 5), (later_bg_le 6), (later_bg_le 7), (later_bg_le 8) by (cbn; tauto). reflexivity.
Qed.
Lemma A8_le a b : padj8 a b = true -> adj8 (nb p a) (nb p b). Proof. apply padj8_sound. Qed.
Lemma A4_le a b : padj4 a b = true -> adj4 (nb p a) (nb p b). Proof. apply padj4_sound. Qed.
Lemma A8p_le b : padj8 4 b = true -> adj8 p (nb p b). Proof. intros H. rewrite <- (nb_center p) at 1. apply padj8_sound. exact H. Qed.
Lemma A4p_le b : padj4 4 b = true -> adj4 p (nb p b). Proof. intros H. rewrite <- (nb_center p) at 1. apply padj4_sound. exact H. Qed.
Lemma nb_ne_p_le b : (b < 9)%nat -> b <> 4%nat -> nb p b <> p.
Proof. intros Lb Nb E. apply Nb. eapply nb_is_center; eauto. Qed.

Theorem last_step_le fgl bgl fgl' bgl' :
  comp_reps adj8 (fg Y) fgl -> comp_reps adj4 (bg Y) bgl ->
  comp_reps adj8 (fg X') fgl' -> comp_reps adj4 (bg X') bgl' ->
  topo_count fgl bgl <= topo_count fgl' bgl' + (1 - k_last (Y (nb p 0)) (Y (nb p 1)) (Y (nb p 2)) (Y (nb p 3))).
Proof.
  intros CF CB CF' CB'. unfold topo_count.
  assert (Fp : fg Y p) by exact Yp.
  assert (U8 := fun l1 l2 => comp_reps_length adj8 (fg X') l1 l2 adj8_sym).
  assert (U4 := fun l1 l2 => comp_reps_length adj4 (bg X') l1 l2 adj4_sym).
  assert (V8 := fun l1 l2 => comp_reps_length adj8 (fg Y) l1 l2 adj8_sym).
  assert (V4 := fun l1 l2 => comp_reps_length adj4 (bg Y) l1 l2 adj4_sym).
  pose proof pat_last_le as PL.
  destruct (k_last_cases (Y (nb p 0)) (Y (nb p 1)) (Y (nb p 2)) (Y (nb p 3))) as [[K [E0 [E1 [E2 E3]]]]|[[K SO]|[K [E1 [E2 EU]]]]]; rewrite K.
  - (* isolated point *)
    assert (ISO : forall a, adj8 p a -> bg Y a).
    { intros a Ha. destruct (adj8_is_nb p a Ha) as [b [Lb [Nb ->]]]. unfold bg.
      do 9 (destruct b as [|b]; [try congruence; try assumption; apply later_bg_le; cbn; tauto|]). lia. }
    destruct (iso_fg_counts Y p Fp ISO fgl CF) as [l2 [L2 C2]].
    pose proof (iso_bg_counts Y p Fp ISO bgl CB) as C3.
    rewrite L2, (U8 _ _ C2 CF'), (U4 _ _ C3 CB'). lia.
  - (* simple *)
    assert (SA : SimpleAt Y p) by (apply simple_ok_sound; rewrite PL; exact SO).
    destruct (simple_counts Y p fgl bgl SA CF CB) as [l2 [L2 [C2 C3]]].
    rewrite <- L2, (U8 _ _ C2 CF'), (U4 _ _ C3 CB'). lia.
  - (* two groups: u on the left, NE on the right, N between them in the background *)
    assert (BN : bg Y (nb p 1)) by exact E1. assert (FNE : fg Y (nb p 2)) by exact E2.
    assert (UX : exists u, (u = nb p 3 \/ u = nb p 0) /\ fg Y u) by (destruct EU as [E|E]; [exists (nb p 3)|exists (nb p 0)]; auto).
    destruct UX as [u [Hu Fu]].
    assert (Nu : u <> p) by (destruct Hu as [-> | ->]; apply nb_ne_p_le; lia).
    assert (Au : adj8 p u) by (destruct Hu as [-> | ->]; apply A8p_le; reflexivity).
    assert (FXu : fg X' u) by (apply remove_fg; auto).
    assert (FXne : fg X' (nb p 2)) by (apply remove_fg; split; [exact FNE|apply nb_ne_p_le; lia]).
    (* set neighbours of p are on the side of u or are NE *)
    assert (FN : forall z, adj8 p z -> fg X' z -> path adj8 (fg X') z u \/ path adj8 (fg X') z (nb p 2)).
    { intros z Hz Fz. destruct (adj8_is_nb p z Hz) as [b [Lb [Nb ->]]]. apply remove_fg in Fz. destruct Fz as [Fz _]. unfold fg in Fz.
      assert (Cb : (b = 0 \/ b = 1 \/ b = 2 \/ b = 3 \/ b = 5 \/ b = 6 \/ b = 7 \/ b = 8)%nat) by lia.
      destruct Cb as [->|[->|[->|[->|[->|[->|[->| ->]]]]]]];
        try (rewrite later_bg_le in Fz by (cbn; tauto); discriminate).
      - (* NW *) left. destruct Hu as [-> | ->]; [|apply path_refl; exact FXu].
        eapply path_step; [apply remove_fg; split; [exact Fz|apply nb_ne_p_le; lia]|apply (A8_le 0 3); reflexivity|apply path_refl; exact FXu].
      - (* N *) unfold bg in BN. congruence.
      - right. apply path_refl. exact FXne.
      - (* W *) left. destruct Hu as [-> | ->]; [apply path_refl; exact FXu|].
        eapply path_step; [apply remove_fg; split; [exact Fz|apply nb_ne_p_le; lia]|apply (A8_le 3 0); reflexivity|apply path_refl; exact FXu]. }
    (* background 4-neighbours of p are N or are connected to S below *)
    assert (BS7 : bg Y (nb p 7)) by (apply later_bg_le; cbn; tauto).
    assert (BNb : forall z, adj4 p z -> bg Y z -> path adj4 (bg Y) z (nb p 1) \/ path adj4 (bg Y) z (nb p 7)).
    { intros z Hz Bz. destruct (adj4_is_nb p z Hz) as [b [Hb ->]]. cbn [In] in Hb. destruct Hb as [<-|[<-|[<-|[<-|[]]]]].
      - left. apply path_refl. exact Bz.
      - right. eapply path_step; [exact Bz|apply (A4_le 3 6); reflexivity|].
        eapply path_step; [apply later_bg_le; cbn; tauto|apply (A4_le 6 7); reflexivity|apply path_refl; exact BS7].
      - right. eapply path_step; [exact Bz|apply (A4_le 5 8); reflexivity|].
        eapply path_step; [apply later_bg_le; cbn; tauto|apply (A4_le 8 7); reflexivity|apply path_refl; exact BS7].
      - right. apply path_refl. exact Bz. }
    assert (BIf : forall z, fg Y z <-> fg X' z \/ z = p).
    { intros z. split; [intros Hz; destruct (px_eqb_spec z p) as [->|N0]; [right; reflexivity|left; apply remove_fg; auto]|].
      intros [Hz| ->]; [apply remove_fg in Hz; tauto|exact Fp]. }
    assert (PNf : ~ fg X' p) by (intros H; apply remove_fg in H; tauto).
    assert (BIb : forall z, bg X' z <-> bg Y z \/ z = p) by (intros z; apply remove_bg).
    assert (PNb : ~ bg Y p) by (unfold bg; congruence).
    assert (IRR8 : forall a b, adj8 a b -> a <> b) by (intros a b [H _]; exact H).
    destruct (conn_dec u (nb p 2)) as [SAME|DIFF].
    + (* same component: N is cut off from the outside (C05's sep_not_connected): one more hole *)
      assert (APART : ~ path adj4 (bg Y) (nb p 1) (nb p 7)).
      { intros Q. rewrite nb_N, nb_S in Q.
        assert (HN : Y (pN p) = false) by (rewrite <- nb_N; exact E1).
        assert (HNE : Y (pNE p) = true) by (rewrite <- nb_NE; exact E2).
        assert (HU : u = pW p \/ u = pNW p) by (rewrite <- nb_W, <- nb_NW; exact Hu).
        assert (SM : path adj8 (fun q => fg Y q /\ q <> p) u (pNE p)).
        { rewrite <- nb_NE. eapply path_mono; [|exact SAME]. intros q Hq. apply remove_fg in Hq. exact Hq. }
        exact (sep_not_connected Y p u Yp last HN HNE HU Fu Q SM). }
      assert (RING : forall a b, adj8 p a -> adj8 p b -> fg X' a -> fg X' b -> path adj8 (fg X') a b).
      { intros a b Ha Hb Fa Fb. pose proof (path_sym adj8 (fg X') adj8_sym) as SY.
        destruct (FN a Ha Fa) as [Pa|Pa], (FN b Hb Fb) as [Pb|Pb].
        - eapply path_trans; [exact Pa|apply SY; exact Pb].
        - eapply path_trans; [exact Pa|]. eapply path_trans; [exact SAME|apply SY; exact Pb].
        - eapply path_trans; [exact Pa|]. eapply path_trans; [apply SY; exact SAME|apply SY; exact Pb].
        - eapply path_trans; [exact Pa|apply SY; exact Pb]. }
      pose proof (aa_counts adj8 adj8_sym IRR8 (fg X') (fg Y) p BIf PNf RING (ex_intro _ u (conj Au FXu)) fgl' CF') as C2.
      destruct (ab_counts adj4 adj4_sym adj4_neq (bg Y) (bg X') p (nb p 1) (nb p 7) BIb PNb
                  (A4p_le 1 eq_refl) BN (A4p_le 7 eq_refl) BS7 BNb APART bgl CB) as [l3 [L3 C3]].
      rewrite (V8 _ _ CF C2), L3, (U4 _ _ C3 CB'). lia.
    + (* different components: p joins them; the background is unchanged given the missing lemma *)
      assert (APARTf : ~ path adj8 (fg X') u (nb p 2)) by exact DIFF.
      destruct (ab_counts adj8 adj8_sym IRR8 (fg X') (fg Y) p u (nb p 2) BIf PNf Au FXu (A8p_le 2 eq_refl) FXne FN APARTf fgl' CF')
        as [l2 [L2 C2]].
      (* without the missing lemma: adding p to the background can only merge classes *)
      assert (LEb : (length bgl' <= length bgl)%nat).
      { apply (add_point_le adj4 adj4_sym (bg Y) (bg X') p BIb (ex_intro _ (nb p 7) (conj (A4p_le 7 eq_refl) BS7)) bgl bgl' CB CB'). }
      rewrite (V8 _ _ CF C2) in *. lia.
Qed.
End LastStepLe.

