(* C13 — calculate_convex_hull_areas: the ragged bookkeeping as written (Model/HullAreaVecC13.v) returns, for
   every requested label, exactly the per-object value hull_area_obj of that label's own hull vertices. *)
From Coq Require Import ZArith QArith Qabs List Bool Lia ZifyBool.
From Centro Require Import Base.Sx Base.VecC13 Proofs.VecC13Proofs Model.Circle Model.CircleVec
  Proofs.CircleVecProofs Model.HullAreaC13 Model.HullAreaVecC13 Proofs.MecVecOwnerC13 Proofs.MecVecSimC13.
Import ListNotations.
Open Scope Z_scope.

(* ---------------------------------------------------------------- the per-object value as a cyclic sum *)
Lemma combine_rot {A} (d : A) (a : list A) : (1 <= length a)%nat ->
  combine a (tl a ++ [hd d a]) =
  map (fun j => (nth j a d, nth (if (S j =? length a)%nat then O else S j) a d)) (seq 0 (length a)).
Proof.
  intros L1. apply (nth_ext _ _ (d, d) (d, d)).
  - rewrite combine_length, map_length, seq_length, app_length. cbn [length].
    destruct a as [|x t]; cbn [length tl] in *; lia.
  - intros j Hj. rewrite combine_length, app_length in Hj. cbn [length] in Hj.
    assert (Lj : (j < length a)%nat) by lia.
    rewrite combine_nth by (rewrite app_length; cbn [length]; destruct a as [|x t]; cbn [length tl] in *; lia).
    rewrite (nth_map_lt' _ (seq 0 (length a)) j O (d, d)) by (rewrite seq_length; exact Lj).
    rewrite seq_nth by exact Lj. cbn [Nat.add]. f_equal.
    destruct a as [|x t]; [cbn [length] in L1; lia|]. cbn [tl hd length].
    destruct (Nat.eqb_spec (S j) (S (length t))) as [E|N].
    + rewrite app_nth2 by lia. replace (j - length t)%nat with O by lia. reflexivity.
    + cbn [length] in Lj. rewrite app_nth1 by lia. reflexivity.
Qed.

Definition cyc_next (n j : nat) : nat := if (S j =? n)%nat then O else S j.

Definition mean_y (b : list (Z * Z)) : Q := (qsumz (map fst b) / inject_Z (Z.of_nat (length b)))%Q.
Definition mean_x (b : list (Z * Z)) : Q := (qsumz (map snd b) / inject_Z (Z.of_nat (length b)))%Q.

Definition poly_terms (b : list (Z * Z)) : list Q :=
  map (fun j => tri_area (mean_y b) (mean_x b)
                         (adj_pt (mean_y b) (mean_x b) (nth j b (0, 0)))
                         (adj_pt (mean_y b) (mean_x b) (nth (cyc_next (length b) j) b (0, 0))))
      (seq 0 (length b)).

Lemma hull_area_obj_poly b : (3 <= length b)%nat ->
  hull_area_obj b = (0, Qred (qsum_list (poly_terms b))).
Proof.
  intros L3. destruct b as [|p [|q [|r t]]]; cbn [length] in L3; try lia.
  set (b := p :: q :: r :: t) in *.
  change (hull_area_obj b) with
    (0, Qred (fold_left Qplus
                (map (fun pq : (Z * Z) * (Z * Z) => tri_area (mean_y b) (mean_x b) (fst pq) (snd pq))
                     (combine (map (adj_pt (mean_y b) (mean_x b)) b)
                              (tl (map (adj_pt (mean_y b) (mean_x b)) b) ++ [hd (0, 0) (map (adj_pt (mean_y b) (mean_x b)) b)])))
                0%Q)).
  f_equal. f_equal. unfold qsum_list, poly_terms. f_equal.
  rewrite (combine_rot (0, 0)) by (rewrite map_length; unfold b; cbn [length]; lia).
  rewrite map_map, map_length. apply map_ext_in. intros j Hj. apply in_seq in Hj. cbn [fst snd]. unfold cyc_next.
  set (F := adj_pt (mean_y b) (mean_x b)).
  assert (Nm : forall i, (i < length b)%nat -> nth i (map F b) (0, 0) = F (nth i b (0, 0)))
    by (intros i Hi; apply (nth_map_lt' F b i (0, 0) (0, 0) Hi)).
  rewrite (Nm j) by lia. f_equal. apply Nm. destruct (Nat.eqb_spec (S j) (length b)); lia.
Qed.

(* ---------------------------------------------------------------- the non-degenerate stage, object k *)
Section ND.
  Variable tsize : Z.
  Variable idx : list Z.
  Variable blk : list (list (Z * Z)).
  Hypothesis ND : NoDup idx.
  Hypothesis NN : forall j, In j idx -> 0 <= j < tsize.
  Hypothesis HL : length idx = length blk.
  Variable k : nat.
  Variable l : Z.
  Variable b : list (Z * Z).
  Hypothesis Hl : nth_error idx k = Some l.
  Hypothesis Hb : nth_error blk k = Some b.
  Hypothesis B1 : (1 <= length b)%nat.

  Let rows := hull_rows idx blk.
  Let Cb := combine idx blk.
  Let pre := concat (map lrows (firstn k Cb)).
  Let post := concat (map lrows (skipn (S k) Cb)).
  Let P := length pre.
  Let n := length b.

  Lemma nd_rows_split : rows = pre ++ map (pair l) b ++ post.
  Proof. exact (rows_split idx blk k l b Hl Hb). Qed.

  Lemma nd_len : length rows = (P + (n + length post))%nat.
  Proof. exact (len_rows idx blk k l b Hl Hb). Qed.

  Lemma nd_row j : (j < n)%nat -> row_at rows (P + j) = (l, nth j b (0, 0)).
  Proof.
    intros Hj. pose proof (own_row idx blk HL k l b Hl Hb j Hj) as H. unfold nthz, zlenv in H.
    unfold row_at, rows. etransitivity; [|exact H]. f_equal. symmetry. rewrite <- Nat2Z.inj_add. apply Nat2Z.id.
  Qed.

  (* the rows of the other objects carry other labels *)
  Lemma nd_other_label r : In r pre \/ In r post -> fst r <> l.
  Proof.
    intros H.
    assert (G : exists k', k' <> k /\ nth_error idx k' = Some (fst r)).
    { destruct H as [H|H]; unfold pre, post in H; apply in_concat in H; destruct H as [rs [Hrs Hr]];
        apply in_map_iff in Hrs; destruct Hrs as [lb [<- Hlb]].
      - destruct (In_firstn_idx _ _ _ Hlb) as [i [Hi E]]. exists i. split; [lia|].
        unfold lrows in Hr. apply in_map_iff in Hr. destruct Hr as [p [<- _]]. cbn [fst].
        apply (nth_error_combine_fst _ _ _ _ E).
      - destruct (In_skipn_idx _ _ _ Hlb) as [i [Hi E]]. exists i. split; [lia|].
        unfold lrows in Hr. apply in_map_iff in Hr. destruct Hr as [p [<- _]]. cbn [fst].
        apply (nth_error_combine_fst _ _ _ _ E). }
    destruct G as [k' [Nk E]]. intros El. rewrite El in E.
    apply Nk. apply (proj1 (NoDup_nth_error idx) ND); [apply nth_error_Some; congruence|congruence].
  Qed.

  Lemma nd_label_iff g : (g < length rows)%nat -> (fst (row_at rows g) =? l) = ((P <=? g)%nat && (g <? P + n)%nat).
  Proof.
    intros Hg. rewrite nd_len in Hg.
    destruct (Nat.ltb_spec g P) as [Lp|Gp].
    - replace (P <=? g)%nat with false by (symmetry; apply Nat.leb_gt; exact Lp). cbn [andb]. apply Z.eqb_neq.
      apply nd_other_label. left. unfold row_at. rewrite nd_rows_split, app_nth1 by exact Lp. apply nth_In. exact Lp.
    - replace (P <=? g)%nat with true by (symmetry; apply Nat.leb_le; exact Gp). cbn [andb].
      destruct (Nat.ltb_spec g (P + n)) as [Ln|Gn].
      + replace g with (P + (g - P))%nat by lia. rewrite nd_row by lia. cbn [fst]. apply Z.eqb_refl.
      + apply Z.eqb_neq. apply nd_other_label. right. unfold row_at. rewrite nd_rows_split.
        unfold P, n in *. rewrite app_nth2 by lia. rewrite app_nth2 by (rewrite map_length; lia).
        apply nth_In. rewrite map_length. unfold cpt in *. lia.
  Qed.

  (* scind.sum by label l runs over exactly the own rows, in order *)
  Lemma nd_own_rows : filter (fun g => fst (row_at rows g) =? l) (seq 0 (length rows)) = seq P n.
  Proof.
    rewrite nd_len. replace (P + (n + length post))%nat with (P + n + length post)%nat by lia.
    rewrite !seq_app, !filter_app. cbn [Nat.add].
    rewrite (filter_none_in _ (seq 0 P)).
    - rewrite (filter_none_in _ (seq (P + n) (length post))).
      + rewrite app_nil_r. cbn [app]. rewrite <- (filter_ext_in' (fun _ => true)) .
        * clear. induction (seq P n) as [|x t IH]; cbn [filter]; [reflexivity|]. rewrite IH. reflexivity.
        * intros g Hg. apply in_seq in Hg. rewrite nd_label_iff by (rewrite nd_len; lia). symmetry. apply andb_true_iff. split; [apply Nat.leb_le|apply Nat.ltb_lt]; lia.
      + intros g Hg. apply in_seq in Hg. rewrite nd_label_iff by (rewrite nd_len; lia). apply andb_false_intro2. apply Nat.ltb_ge. lia.
    - intros g Hg. apply in_seq in Hg. rewrite nd_label_iff by (rewrite nd_len; lia). apply andb_false_intro1. apply Nat.leb_gt. lia.
  Qed.
  (* ---- the per-row gathers at an own row P + j ---- *)
  Hypothesis L3 : (3 <= length b)%nat.
  Let counts := map zlenv blk.
  Let tbl := anti_table tsize idx.
  Let offs := offsets counts.
  Let kkf := fun g : nat => nthz tbl (fst (row_at rows g)) 0.
  Let hidxf := fun g : nat => nthz offs (kkf g) 0.
  Let withinf := fun g : nat => Z.of_nat g - hidxf g.
  Let wy_l := map (fun lc : Z * Z => (inject_Z (sumz_by_label rows (row_i rows) (fst lc)) / inject_Z (snd lc))%Q) (combine idx counts).
  Let wx_l := map (fun lc : Z * Z => (inject_Z (sumz_by_label rows (row_j rows) (fst lc)) / inject_Z (snd lc))%Q) (combine idx counts).
  Let wyf := fun g : nat => nthz wy_l (kkf g) 0%Q.
  Let wxf := fun g : nat => nthz wx_l (kkf g) 0%Q.
  Let adjl := map (fun g => adj_pt (wyf g) (wxf g) (snd (row_at rows g))) (seq 0 (length rows)).
  Let plusf := fun g : nat => if withinf g + 1 =? nthz counts (kkf g) 0 then hidxf g else Z.of_nat g + 1.
  Let areaf := fun g : nat => tri_area (wyf g) (wxf g) (nth g adjl (0, 0)) (nthz adjl (plusf g) (0, 0)).

  Lemma areas_nd_unfold : areas_nd tsize idx blk = map (fun l' => Qred (sum_by_label rows areaf l')) idx.
  Proof. reflexivity. Qed.

  Lemma maxl_lt (Ls : list Z) t : (forall x, In x Ls -> x < t) -> -1 < t -> maxl Ls < t.
  Proof.
    unfold maxl. induction Ls as [|x r IH]; intros H T; cbn [fold_right]; [lia|].
    pose proof (H x (or_introl eq_refl)). specialize (IH (fun y Hy => H y (or_intror Hy)) T). lia.
  Qed.

  Lemma nd_kk j : (j < n)%nat -> kkf (P + j) = Z.of_nat k.
  Proof.
    intros Hj. unfold kkf. rewrite nd_row by exact Hj. cbn [fst]. unfold nthz, tbl.
    apply anti_index_correct; [exact ND|intros x Hx; apply NN; exact Hx| |exact Hl].
    assert (In l idx) by (eapply nth_error_In; exact Hl). pose proof (NN l H).
    pose proof (maxl_lt idx tsize (fun x Hx => proj2 (NN x Hx)) ltac:(lia)). lia.
  Qed.

  Lemma nd_hidx j : (j < n)%nat -> hidxf (P + j) = Z.of_nat P.
  Proof.
    intros Hj. unfold hidxf. rewrite nd_kk by exact Hj. unfold nthz, offs, counts. rewrite Nat2Z.id.
    apply nth_error_nth. exact (pidx_k idx blk HL k l b Hl Hb).
  Qed.

  Lemma nd_count j : (j < n)%nat -> nthz counts (kkf (P + j)) 0 = Z.of_nat n.
  Proof.
    intros Hj. rewrite nd_kk by exact Hj. unfold nthz, counts. rewrite Nat2Z.id. apply nth_error_nth.
    rewrite nth_error_map, Hb. reflexivity.
  Qed.

  Lemma map_seq_shift {A} (F : nat -> A) p m : map F (seq p m) = map (fun j => F (p + j)%nat) (seq 0 m).
  Proof.
    revert p. induction m as [|m IH]; intros p; [reflexivity|]. cbn [seq map]. f_equal; [f_equal; lia|].
    rewrite IH, <- seq_shift, map_map. apply map_ext. intros j. f_equal. lia.
  Qed.

  Lemma map_seq_nth {A B} (F : nat -> A) (f : B -> A) (d : B) (bs : list B) p :
    (forall j, (j < length bs)%nat -> F (p + j)%nat = f (nth j bs d)) -> map F (seq p (length bs)) = map f bs.
  Proof.
    revert p. induction bs as [|x t IH]; intros p H; [reflexivity|]. cbn [length seq map]. f_equal.
    - pose proof (H O ltac:(cbn [length]; lia)) as Q. cbn [nth] in Q. rewrite <- Q. f_equal. lia.
    - apply IH. intros j Hj. pose proof (H (S j) ltac:(cbn [length]; lia)) as Q. cbn [nth] in Q. rewrite <- Q. f_equal. lia.
  Qed.

  Lemma nd_sumz (F : nat -> Z) (f : Z * Z -> Z) :
    (forall i, (i < n)%nat -> F (P + i)%nat = f (nth i b (0, 0))) ->
    sumz_by_label rows F l = fold_left Z.add (map f b) 0.
  Proof.
    intros H. unfold sumz_by_label. pose proof nd_own_rows as O. unfold hrow, cpt in *. rewrite O. f_equal. apply (map_seq_nth F f (0, 0) b P). exact H.
  Qed.

  Lemma nd_mean_y j : (j < n)%nat -> wyf (P + j) = mean_y b.
  Proof.
    intros Hj. unfold wyf. rewrite nd_kk by exact Hj. unfold nthz, wy_l. rewrite Nat2Z.id.
    assert (E : nth_error (combine idx counts) k = Some (l, zlenv b)).
    { apply nth_error_combine; [exact Hl|unfold counts; rewrite nth_error_map, Hb; reflexivity]. }
    rewrite (nth_error_nth _ _ _ (eq_trans (nth_error_map _ _ _) (f_equal (option_map _) E))). cbn [fst snd].
    unfold mean_y, qsumz, zlenv.
    rewrite (nd_sumz (row_i rows) fst) by (intros i Hi; unfold row_i; rewrite nd_row by exact Hi; reflexivity).
    reflexivity.
  Qed.

  Lemma nd_mean_x j : (j < n)%nat -> wxf (P + j) = mean_x b.
  Proof.
    intros Hj. unfold wxf. rewrite nd_kk by exact Hj. unfold nthz, wx_l. rewrite Nat2Z.id.
    assert (E : nth_error (combine idx counts) k = Some (l, zlenv b)).
    { apply nth_error_combine; [exact Hl|unfold counts; rewrite nth_error_map, Hb; reflexivity]. }
    rewrite (nth_error_nth _ _ _ (eq_trans (nth_error_map _ _ _) (f_equal (option_map _) E))). cbn [fst snd].
    unfold mean_x, qsumz, zlenv.
    rewrite (nd_sumz (row_j rows) snd) by (intros i Hi; unfold row_j; rewrite nd_row by exact Hi; reflexivity).
    reflexivity.
  Qed.

  Lemma nd_adj j : (j < n)%nat -> nth (P + j) adjl (0, 0) = adj_pt (mean_y b) (mean_x b) (nth j b (0, 0)).
  Proof.
    intros Hj. unfold adjl.
    rewrite (nth_map_lt' _ (seq 0 (length rows)) (P + j) O (0, 0)) by (rewrite seq_length, nd_len; lia).
    rewrite seq_nth by (rewrite nd_len; lia). cbn [Nat.add].
    rewrite nd_mean_y, nd_mean_x, nd_row by exact Hj. reflexivity.
  Qed.

  Lemma nd_plus j : (j < n)%nat -> plusf (P + j) = Z.of_nat (P + cyc_next n j).
  Proof.
    intros Hj. unfold plusf, withinf. rewrite nd_hidx, nd_count by exact Hj. unfold cyc_next.
    destruct (Nat.eqb_spec (S j) n) as [E|N].
    - replace (Z.of_nat (P + j) - Z.of_nat P + 1 =? Z.of_nat n) with true by lia. lia.
    - replace (Z.of_nat (P + j) - Z.of_nat P + 1 =? Z.of_nat n) with false by lia. lia.
  Qed.

  Lemma cyc_next_lt j : (j < n)%nat -> (cyc_next n j < n)%nat.
  Proof. intros Hj. unfold cyc_next. destruct (Nat.eqb_spec (S j) n); unfold n in *; lia. Qed.

  Lemma nd_area j : (j < n)%nat ->
    areaf (P + j) = tri_area (mean_y b) (mean_x b)
                             (adj_pt (mean_y b) (mean_x b) (nth j b (0, 0)))
                             (adj_pt (mean_y b) (mean_x b) (nth (cyc_next n j) b (0, 0))).
  Proof.
    intros Hj. unfold areaf. rewrite nd_mean_y, nd_mean_x, nd_adj, nd_plus by exact Hj.
    unfold nthz. rewrite Nat2Z.id. rewrite nd_adj by (apply cyc_next_lt; exact Hj). reflexivity.
  Qed.

  (* object k of the non-degenerate stage gets its own per-object value *)
  Theorem areas_nd_k : nth k (areas_nd tsize idx blk) 0%Q = snd (hull_area_obj b).
  Proof.
    rewrite areas_nd_unfold, (hull_area_obj_poly b L3). cbn [snd].
    rewrite (nth_map_lt' _ idx k 0 0%Q) by (apply nth_error_Some; congruence).
    rewrite (nth_error_nth _ _ 0 Hl). f_equal. unfold sum_by_label. pose proof nd_own_rows as O. unfold hrow, cpt in *. rewrite O. f_equal.
    unfold poly_terms. rewrite map_seq_shift. apply map_ext_in. intros j Hj. apply in_seq in Hj.
    apply nd_area. unfold n. lia.
  Qed.
End ND.

(* ---------------------------------------------------------------- the whole function *)
Lemma in_fst_filter_combine {B} (P : Z * B -> bool) : forall (I : list Z) (Bl : list B) x,
  In x (map fst (filter P (combine I Bl))) -> In x I.
Proof.
  induction I as [|a t IH]; intros [|y r] x H; cbn [combine filter map] in H; try destruct H.
  destruct (P (a, y)); cbn [map In fst] in H.
  - destruct H as [<-|H]; [left; reflexivity|right; apply (IH r x H)].
  - right. apply (IH r x H).
Qed.

Lemma nodup_fst_filter_combine {B} (P : Z * B -> bool) : forall (I : list Z) (Bl : list B),
  NoDup I -> NoDup (map fst (filter P (combine I Bl))).
Proof.
  induction I as [|a t IH]; intros [|y r] ND; cbn [combine filter map]; try constructor.
  inversion ND as [|? ? Ha NDt]; subst. destruct (P (a, y)); cbn [map fst].
  - constructor; [|apply IH; exact NDt]. intro H. apply Ha. apply (in_fst_filter_combine P t r a H).
  - apply IH. exact NDt.
Qed.

Lemma place_correct : forall (indexes : list Z) (blocks : list (list (Z * Z))),
  length indexes = length blocks ->
  place (map zlenv blocks) blocks
        (map (fun b => snd (hull_area_obj b))
             (map snd (filter (fun lb : Z * list (Z * Z) => 3 <=? zlenv (snd lb)) (combine indexes blocks))))
  = map hull_area_obj blocks.
Proof.
  induction indexes as [|i t IH]; intros [|b r] HL; cbn [length] in HL; try discriminate; [reflexivity|].
  cbn [map combine filter place snd]. destruct (3 <=? zlenv b) eqn:E.
  - cbn [map snd]. f_equal; [|apply IH; lia].
    assert (L3 : (3 <= length b)%nat) by (unfold zlenv in E; lia).
    rewrite (hull_area_obj_poly b L3). reflexivity.
  - f_equal; [|apply IH; lia]. unfold zlenv in E.
    destruct b as [|p [|q [|s u]]]; cbn [length] in E; try reflexivity. lia.
Qed.

(* Full: whenever the function does not raise, every requested label gets the per-object value of its own
   hull vertices - whatever the other labels, their hulls, their number and the order of the request list *)
Theorem hull_areas_vec_correct indexes blocks r :
  NoDup indexes -> (forall j, In j indexes -> 0 <= j) -> length indexes = length blocks ->
  hull_areas_vec indexes blocks = Some r -> r = map hull_area_obj blocks.
Proof.
  intros ND NN HL H. unfold hull_areas_vec in H.
  set (tsize := tsize_of indexes blocks) in *.
  destruct (existsb (fun l => tsize <=? l) indexes) eqn:Ex; [discriminate|]. injection H as <-.
  set (nd := filter (fun lb : Z * list (Z * Z) => 3 <=? zlenv (snd lb)) (combine indexes blocks)).
  assert (Sz : forall j, In j indexes -> j < tsize).
  { intros j Hj. destruct (Z_lt_ge_dec j tsize) as [L|G]; [exact L|exfalso].
    assert (existsb (fun l => tsize <=? l) indexes = true) by (apply existsb_exists; exists j; split; [exact Hj|lia]). congruence. }
  assert (E : areas_nd tsize (map fst nd) (map snd nd) = map (fun b => snd (hull_area_obj b)) (map snd nd)).
  { apply (nth_ext _ _ 0%Q 0%Q).
    - unfold areas_nd. rewrite !map_length. reflexivity.
    - intros k Hk. unfold areas_nd in Hk. rewrite !map_length in Hk.
      destruct (nth_error nd k) as [[l b]|] eqn:En; [|apply nth_error_None in En; lia].
      assert (El : nth_error (map fst nd) k = Some l) by (rewrite nth_error_map, En; reflexivity).
      assert (Eb : nth_error (map snd nd) k = Some b) by (rewrite nth_error_map, En; reflexivity).
      assert (L3 : (3 <= length b)%nat).
      { apply nth_error_In in En. unfold nd in En. apply filter_In in En. destruct En as [_ En]. cbn [snd] in En. unfold zlenv in En. lia. }
      rewrite (areas_nd_k tsize (map fst nd) (map snd nd)
                 (nodup_fst_filter_combine _ indexes blocks ND)
                 (fun j Hj => conj (NN j (in_fst_filter_combine _ _ _ _ Hj)) (Sz j (in_fst_filter_combine _ _ _ _ Hj)))
                 ltac:(rewrite !map_length; reflexivity) k l b El Eb ltac:(lia) L3).
      rewrite (nth_map_lt' _ (map snd nd) k [] 0%Q) by (rewrite map_length; exact Hk).
      rewrite (nth_error_nth _ _ [] Eb). reflexivity. }
  rewrite E. apply place_correct. exact HL.
Qed.

(* and it never raises: the label tables have max(largest hull label, largest requested label) + 1 entries *)
Theorem hull_areas_vec_defined indexes blocks : hull_areas_vec indexes blocks <> None.
Proof.
  unfold hull_areas_vec.
  destruct (existsb (fun l => tsize_of indexes blocks <=? l) indexes) eqn:Ex; [|discriminate].
  apply existsb_exists in Ex. destruct Ex as [j [Hj L]]. pose proof (maxl_ge indexes j Hj). unfold tsize_of in L. lia.
Qed.

(* per-label independence, request order and renumbering in one statement: the entry of position r is a function
   of block r alone *)
Corollary hull_areas_vec_independent indexes blocks indexes' blocks' r r' k k' b :
  NoDup indexes -> NoDup indexes' -> (forall j, In j indexes -> 0 <= j) -> (forall j, In j indexes' -> 0 <= j) ->
  length indexes = length blocks -> length indexes' = length blocks' ->
  hull_areas_vec indexes blocks = Some r -> hull_areas_vec indexes' blocks' = Some r' ->
  nth_error blocks k = Some b -> nth_error blocks' k' = Some b ->
  nth_error r k = nth_error r' k'.
Proof.
  intros ND ND' NN NN' HL HL' H H' Eb Eb'.
  rewrite (hull_areas_vec_correct indexes blocks r ND NN HL H), (hull_areas_vec_correct indexes' blocks' r' ND' NN' HL' H').
  rewrite !nth_error_map, Eb, Eb'. reflexivity.
Qed.

Example hull_areas_vec_example :
  hull_areas_vec [7; 2; 9; 4; 1] [[(0, 0); (0, 4); (3, 4); (3, 0)]; [(5, 5)]; [(7, 1); (7, 3)]; [(10, 0); (12, 3); (14, 0)]; []]
  = Some (map hull_area_obj [[(0, 0); (0, 4); (3, 4); (3, 0)]; [(5, 5)]; [(7, 1); (7, 3)]; [(10, 0); (12, 3); (14, 0)]; []])
  /\ NoDup [7; 2; 9; 4; 1].
Proof. split; [vm_compute; reflexivity|]. repeat constructor; cbn; intuition discriminate. Qed.

(* ---------------------------------------------------------------- the compaction step as written *)
Lemma scatter_nodup_nth {A} (d : A) : forall (keys : list Z) (vals : list A) acc k i v,
  NoDup keys -> (forall j, In j keys -> 0 <= j /\ (Z.to_nat j < length acc)%nat) -> length keys = length vals ->
  nth_error keys k = Some i -> nth_error vals k = Some v ->
  nth (Z.to_nat i) (scatter (combine keys vals) acc) d = v.
Proof.
  induction keys as [|a r IH]; intros vals acc k i v ND Hin HLn Hk Hv; [destruct k; discriminate|].
  destruct vals as [|w ws]; [discriminate|]. cbn [combine scatter fst snd].
  inversion ND as [|? ? Hnot ND']; subst.
  destruct k as [|k]; cbn [nth_error] in Hk, Hv.
  - injection Hk as ->. injection Hv as ->.
    rewrite scatter_nth_notin.
    + apply nth_upd_set_same. apply Hin. left; reflexivity.
    + intros p Hp E. apply in_combine_fst in Hp.
      assert (0 <= fst p) by (apply Hin; right; exact Hp). assert (0 <= i) by (apply Hin; left; reflexivity).
      assert (fst p = i) by lia. subst i. contradiction.
  - apply (IH ws _ k i v ND'); [|cbn [length] in HLn; lia|exact Hk|exact Hv].
    intros j Hj. rewrite upd_set_length. apply Hin. right; exact Hj.
Qed.

Lemma filter_concat {A} (P : A -> bool) (Ls : list (list A)) : filter P (concat Ls) = concat (map (filter P) Ls).
Proof. induction Ls as [|x t IH]; [reflexivity|]. cbn [concat map]. rewrite filter_app, IH. reflexivity. Qed.

Lemma filter_const {A} (P : A -> bool) (c : bool) (Ls : list A) : (forall x, In x Ls -> P x = c) ->
  filter P Ls = if c then Ls else [].
Proof.
  intros H. destruct c.
  - induction Ls as [|x t IH]; [reflexivity|]. cbn [filter]. rewrite (H x (or_introl eq_refl)). f_equal. apply IH.
    intros y Hy. apply H. right; exact Hy.
  - apply filter_none_in. exact H.
Qed.

Lemma combine_fst_snd {A B} (Ls : list (A * B)) : combine (map fst Ls) (map snd Ls) = Ls.
Proof. induction Ls as [|[a b] t IH]; [reflexivity|]. cbn [map combine fst snd]. rewrite IH. reflexivity. Qed.

(* hull[counts_per_label[hull[:, 0]] >= 3] is the concatenation of the non-degenerate labels' rows *)
Theorem compaction indexes blocks :
  NoDup indexes -> (forall j, In j indexes -> 0 <= j) ->
  length indexes = length blocks ->
  let nd := filter (fun lb : Z * list (Z * Z) => 3 <=? zlenv (snd lb)) (combine indexes blocks) in
  hull_nd_as_written indexes blocks = hull_rows (map fst nd) (map snd nd).
Proof.
  intros ND NN HL nd. unfold hull_nd_as_written.
  set (tsize := tsize_of indexes blocks) in *.
  set (cpl := scatter (combine indexes (map zlenv blocks)) (repeat 0 (Z.to_nat tsize))).
  unfold hull_rows. rewrite combine_fst_snd. rewrite filter_concat, map_map.
  (* block by block *)
  assert (G : forall lb, In lb (combine indexes blocks) ->
            filter (fun r : Z * cpt => 3 <=? nthz cpl (fst r) 0) (map (pair (fst lb)) (snd lb)) = if 3 <=? zlenv (snd lb) then map (pair (fst lb)) (snd lb) else []).
  { intros [l b] Hlb. apply filter_const. intros r Hr. unfold lrows in Hr. cbn [fst snd] in Hr.
    apply in_map_iff in Hr. destruct Hr as [p [<- _]]. cbn [fst snd].
    destruct (In_nth_error _ _ Hlb) as [k Ek].
    assert (El : nth_error indexes k = Some l) by (apply (nth_error_combine_fst _ _ _ _ Ek)).
    assert (Ebk : nth_error blocks k = Some b).
    { revert Ek. clear. revert blocks k. induction indexes as [|a t IH]; intros [|y r] [|k] H; cbn [combine nth_error] in *; try discriminate.
      - injection H as _ <-. reflexivity.
      - apply (IH r k H). }
    f_equal. unfold nthz, cpl.
    apply (scatter_nodup_nth 0 indexes (map zlenv blocks) _ k l (zlenv b) ND).
    - intros j Hj. rewrite repeat_length. specialize (NN j Hj). pose proof (maxl_ge indexes j Hj). unfold tsize, tsize_of. lia.
    - rewrite map_length. exact HL.
    - exact El.
    - rewrite nth_error_map, Ebk. reflexivity. }
  unfold nd. unfold cpl in *. clearbody tsize. revert G. unfold hrow, cpt in *. generalize (combine indexes blocks). intros Ls G. induction Ls as [|lb t IH]; [reflexivity|].
  cbn [map concat filter].
  transitivity ((if 3 <=? zlenv (snd lb) then map (pair (fst lb)) (snd lb) else []) ++
                concat (map (fun lb0 : Z * list cpt => map (pair (fst lb0)) (snd lb0))
                            (filter (fun lb0 : Z * list (Z * Z) => 3 <=? zlenv (snd lb0)) t))).
  - f_equal; [exact (G lb (or_introl eq_refl))|apply IH; intros x Hx; apply G; right; exact Hx].
  - unfold cpt in *. destruct (3 <=? zlenv (snd lb)); reflexivity.
Qed.
