(* C10 — min-heap order of the line-level heap: heap_decrease_key (sift-up along PARENT) keeps
   "every slot is at least its parent", so slot 0 holds a minimal tentative distance. *)
From Coq Require Import ZArith List Bool Lia ZifyBool.
From Centro Require Import Base.Sx Base.EmdBase Model.Emd Model.EmdMcf Proofs.EmdHeap Proofs.EmdHeapPos.
Import ListNotations.
Open Scope Z_scope.

Definition key (h : heap) (i : nat) : Z := match oget (fst h) i with Some en => snd en | None => 0 end.
Definition hsize (h : heap) : nat := length (fst h).
Definition heap_ord (h : heap) : Prop :=
  forall k, (0 < k < hsize h)%nat -> key h (PARENT k) <= key h k.

Lemma oset_length {A} (x : A) : forall (l l' : list A) i, oset l i x = Some l' -> length l' = length l.
Proof.
  induction l as [|a l IH]; intros l' i; destruct i as [|i]; cbn [oset]; try discriminate.
  - intros H. injection H as <-. reflexivity.
  - destruct (oset l i x) as [r|] eqn:E; [|discriminate]. intros H. injection H as <-. cbn [length]. f_equal. eauto.
Qed.

Lemma swap_heap_keys h i j h' : swap_heap h i j = Some h' ->
  hsize h' = hsize h /\ key h' i = key h j /\ key h' j = key h i /\
  forall k, k <> i -> k <> j -> key h' k = key h k.
Proof.
  destruct h as [Q n2q]. unfold swap_heap, key, hsize. cbn [fst snd].
  destruct (oget Q i) as [qi|] eqn:Ei; [|discriminate]. cbn [bind].
  destruct (oget Q j) as [qj|] eqn:Ej; [|discriminate]. cbn [bind].
  destruct (oset Q i qj) as [Q1|] eqn:E1; [|discriminate]. cbn [bind].
  destruct (oset Q1 j qi) as [Q2|] eqn:E2; [|discriminate]. cbn [bind].
  destruct (oset n2q (fst qi) j) as [n1|]; [|discriminate]. cbn [bind].
  destruct (oset n1 (fst qj) i) as [n2|]; [|discriminate]. cbn [bind].
  intros H. injection H as <-. cbn [fst snd].
  split; [rewrite (oset_length _ _ _ _ E2), (oset_length _ _ _ _ E1); auto|].
  split.
  - destruct (Nat.eq_dec i j) as [->|N].
    + rewrite (oget_oset_eq _ _ _ _ E2). congruence.
    + rewrite (oget_oset_neq _ _ _ _ _ E2) by auto. rewrite (oget_oset_eq _ _ _ _ E1). reflexivity.
  - split; [rewrite (oget_oset_eq _ _ _ _ E2); reflexivity|].
    intros k Ni Nj. rewrite (oget_oset_neq _ _ _ _ _ E2) by auto. rewrite (oget_oset_neq _ _ _ _ _ E1) by auto. reflexivity.
Qed.

(* order everywhere except between slot i and its parent; the children of i already respect i's parent *)
Definition inv_up (h : heap) (i : nat) : Prop :=
  (forall k, (0 < k < hsize h)%nat -> k <> i -> key h (PARENT k) <= key h k) /\
  (forall c, (0 < c < hsize h)%nat -> (0 < i)%nat -> PARENT c = i -> key h (PARENT i) <= key h c).

Lemma sift_up_ord : forall fuel h i h', inv_up h i -> (i < hsize h)%nat -> (i < fuel)%nat ->
  sift_up fuel h i = Some h' -> heap_ord h' /\ hsize h' = hsize h.
Proof.
  induction fuel as [|f IH]; intros h i h' [A B] Hi Hf; [lia|]. cbn [sift_up].
  destruct (i =? 0)%nat eqn:E0.
  - apply Nat.eqb_eq in E0. subst. intros H. injection H as <-. split; auto. intros k Hk. apply A; lia.
  - apply Nat.eqb_neq in E0. pose proof (PARENT_lt i ltac:(lia)) as PL.
    destruct (oget (fst h) (PARENT i)) as [qp|] eqn:Ep; [|discriminate]. cbn [bind].
    destruct (oget (fst h) i) as [qi|] eqn:Ei; [|discriminate]. cbn [bind].
    assert (Kp : key h (PARENT i) = snd qp) by (unfold key; rewrite Ep; auto).
    assert (Ki : key h i = snd qi) by (unfold key; rewrite Ei; auto).
    destruct (snd qi <? snd qp) eqn:CMP.
    + destruct (swap_heap h i (PARENT i)) as [h1|] eqn:ES; [|discriminate]. cbn [bind].
      destruct (swap_heap_keys _ _ _ _ ES) as [SZ [K1 [K2 K3]]].
      intros H. destruct (IH h1 (PARENT i) h') as [O S]; auto; try lia.
      * set (p := PARENT i) in *. split.
        { intros k Hk Nk. rewrite SZ in Hk.
          destruct (Nat.eq_dec k i) as [->|Nki].
          - fold p. rewrite K1, K2. lia.
          - pose proof (PARENT_lt k ltac:(lia)) as PLk.
            destruct (Nat.eq_dec (PARENT k) i) as [Pk|Pk].
            + rewrite Pk, K1, (K3 k) by auto. apply B; auto; lia.
            + destruct (Nat.eq_dec (PARENT k) p) as [Pp|Pp].
              * rewrite Pp, K2, (K3 k) by auto. pose proof (A k ltac:(lia) Nki). rewrite Pp in H0. lia.
              * rewrite (K3 (PARENT k)), (K3 k) by auto. apply A; auto. }
        { intros c Hc Hp Pc. rewrite SZ in Hc.
          pose proof (PARENT_lt p ltac:(lia)) as PLp.
          rewrite (K3 (PARENT p)) by lia.
          pose proof (A p ltac:(lia) ltac:(lia)) as App.
          destruct (Nat.eq_dec c i) as [->|Nc].
          - rewrite K1. lia.
          - assert (c <> p) by (pose proof (PARENT_lt c ltac:(lia)); lia).
            rewrite (K3 c) by auto. pose proof (A c ltac:(lia) Nc). rewrite Pc in H1. lia. }
      * split; [auto|lia].
    + intros H. injection H as <-. split; auto. intros k Hk.
      destruct (Nat.eq_dec k i) as [->|N]; [lia|apply A; auto].
Qed.

(* heap_decrease_key with a key that does not exceed the old one (the code tests alt < Q[..]._dist) *)
Theorem heap_decrease_key_ord h v alt h' pos : heap_ord h ->
  oget (snd h) v = Some pos -> (pos < hsize h)%nat -> alt <= key h pos ->
  heap_decrease_key h v alt = Some h' -> heap_ord h' /\ hsize h' = hsize h.
Proof.
  intros O Ev Hp Le. unfold heap_decrease_key. rewrite Ev. cbn [bind].
  destruct (oget (fst h) pos) as [qi|] eqn:Ei; [|discriminate]. cbn [bind].
  destruct (oset (fst h) pos (fst qi, alt)) as [Q1|] eqn:E1; [|discriminate]. cbn [bind].
  intros H.
  assert (SZ : hsize (Q1, snd h) = hsize h) by (unfold hsize; cbn [fst]; eapply oset_length; eauto).
  assert (K1 : key (Q1, snd h) pos = alt) by (unfold key; cbn [fst]; rewrite (oget_oset_eq _ _ _ _ E1); auto).
  assert (K2 : forall k, k <> pos -> key (Q1, snd h) k = key h k)
    by (intros k N; unfold key; cbn [fst]; rewrite (oget_oset_neq _ _ _ _ _ E1) by auto; auto).
  destruct (sift_up_ord (S pos) (Q1, snd h) pos h') as [O' S']; auto; try lia.
  - split.
    + intros k Hk Nk. rewrite SZ in Hk. rewrite (K2 k) by auto.
      destruct (Nat.eq_dec (PARENT k) pos) as [P|P].
      * rewrite P, K1. pose proof (O k Hk). rewrite P in H0. lia.
      * rewrite (K2 _ P). apply O; auto.
    + intros c Hc Hpos Pc. rewrite SZ in Hc.
      pose proof (PARENT_lt pos Hpos). pose proof (PARENT_lt c ltac:(lia)).
      rewrite (K2 (PARENT pos)) by lia. rewrite (K2 c) by lia.
      pose proof (O pos ltac:(lia)). pose proof (O c Hc). rewrite Pc in H3. lia.
  - split; [auto|lia].
Qed.

(* ---------------------------------------------------------------- sift-down *)

Lemma child_cases c i : (0 < c)%nat -> PARENT c = i -> c = LEFT i \/ c = RIGHT i.
Proof.
  unfold PARENT, LEFT, RIGHT. intros H E.
  pose proof (Nat.div_mod (c - 1) 2 ltac:(lia)). pose proof (Nat.mod_upper_bound (c - 1) 2 ltac:(lia)).
  rewrite E in H0. lia.
Qed.
Lemma parent_left i : PARENT (LEFT i) = i.
Proof.
  unfold PARENT, LEFT. replace (2 * (i + 1) - 1 - 1)%nat with (i * 2)%nat by lia. apply Nat.div_mul. lia.
Qed.
Lemma parent_right i : PARENT (RIGHT i) = i.
Proof.
  unfold PARENT, RIGHT. replace (2 * (i + 1) - 1)%nat with (1 + i * 2)%nat by lia.
  rewrite Nat.div_add by lia. reflexivity.
Qed.

Lemma key_of h x q : oget (fst h) x = Some q -> key h x = snd q.
Proof. intros E. unfold key. rewrite E. reflexivity. Qed.
Lemma oget_lt {A} (l : list A) i x : oget l i = Some x -> (i < length l)%nat.
Proof. intros H. unfold oget in H. apply nth_error_Some. congruence. Qed.

Definition inv_down (h : heap) (i : nat) : Prop :=
  (forall k, (0 < k < hsize h)%nat -> PARENT k <> i -> key h (PARENT k) <= key h k) /\
  (forall c, (0 < c < hsize h)%nat -> (0 < i)%nat -> PARENT c = i -> key h (PARENT i) <= key h c).

Lemma heapify_ord : forall fuel h i h', inv_down h i -> (i < hsize h)%nat -> (hsize h - i <= fuel)%nat ->
  heapify fuel h i = Some h' -> heap_ord h' /\ hsize h' = hsize h.
Proof.
  induction fuel as [|f IH]; intros h i h' [A B] Hi Hf; [lia|]. cbn [heapify]. cbv zeta. fold (hsize h).
  (* the smaller of i and its children *)
  assert (S1 : exists s1, (if (LEFT i <? hsize h)%nat
                           then ql <- oget (fst h) (LEFT i);; qi <- oget (fst h) i;; Some (if snd ql <? snd qi then LEFT i else i)
                           else Some i) = Some s1 /\
            (s1 = i \/ s1 = LEFT i /\ (LEFT i < hsize h)%nat) /\ key h s1 <= key h i /\
            ((LEFT i < hsize h)%nat -> key h s1 <= key h (LEFT i))).
  { destruct (LEFT i <? hsize h)%nat eqn:EL.
    - apply Nat.ltb_lt in EL. destruct (oget_some (fst h) (LEFT i) EL) as [ql [El _]].
      destruct (oget_some (fst h) i Hi) as [qi [Ei _]]. rewrite El, Ei. cbn [bind].
      destruct (snd ql <? snd qi) eqn:C; eexists; (split; [reflexivity|]).
      + split; [right; auto|]. rewrite (key_of _ _ _ El), (key_of _ _ _ Ei). split; [lia|intros; lia].
      + split; [left; auto|]. rewrite (key_of _ _ _ El), (key_of _ _ _ Ei). split; [lia|intros; lia].
    - apply Nat.ltb_ge in EL. exists i. split; auto. split; [left; auto|]. split; [lia|intros; lia]. }
  destruct S1 as [s1 [E1 [C1 [L1 L1']]]]. rewrite E1. cbn [bind].
  assert (Hs1 : (s1 < hsize h)%nat) by (destruct C1 as [->|[-> Hlt]]; auto).
  assert (S2 : exists s2, (if (RIGHT i <? hsize h)%nat
                           then qr <- oget (fst h) (RIGHT i);; qs <- oget (fst h) s1;; Some (if snd qr <? snd qs then RIGHT i else s1)
                           else Some s1) = Some s2 /\
            (s2 = s1 \/ s2 = RIGHT i /\ (RIGHT i < hsize h)%nat) /\ key h s2 <= key h s1 /\
            ((RIGHT i < hsize h)%nat -> key h s2 <= key h (RIGHT i))).
  { destruct (RIGHT i <? hsize h)%nat eqn:ER.
    - apply Nat.ltb_lt in ER. destruct (oget_some (fst h) (RIGHT i) ER) as [qr [Er _]].
      destruct (oget_some (fst h) s1 Hs1) as [qs [Es _]]. rewrite Er, Es. cbn [bind].
      destruct (snd qr <? snd qs) eqn:C; eexists; (split; [reflexivity|]).
      + split; [right; auto|]. rewrite (key_of _ _ _ Er), (key_of _ _ _ Es). split; [lia|intros; lia].
      + split; [left; auto|]. rewrite (key_of _ _ _ Er), (key_of _ _ _ Es). split; [lia|intros; lia].
    - apply Nat.ltb_ge in ER. exists s1. split; auto. split; [left; auto|]. split; [lia|intros; lia]. }
  destruct S2 as [s2 [E2 [C2 [L2 L2']]]]. rewrite E2. cbn [bind].
  destruct (s2 =? i)%nat eqn:ES.
  - apply Nat.eqb_eq in ES. subst s2. intros H. injection H as <-. split; auto.
    intros k Hk. destruct (Nat.eq_dec (PARENT k) i) as [P|P]; [|apply A; auto].
    rewrite P. destruct (child_cases k i ltac:(lia) P) as [-> | ->].
    + specialize (L1' ltac:(lia)). lia.
    + specialize (L2' ltac:(lia)). lia.
  - apply Nat.eqb_neq in ES.
    assert (CH : (s2 = LEFT i \/ s2 = RIGHT i) /\ (s2 < hsize h)%nat).
    { destruct C2 as [->|[-> Hlt]]; [|split; auto]. destruct C1 as [->|[-> Hlt]]; [congruence|split; auto]. }
    destruct CH as [CH Hs2].
    assert (PS : PARENT s2 = i) by (destruct CH as [-> | ->]; [apply parent_left|apply parent_right]).
    assert (GT : (i < s2)%nat) by (destruct CH as [-> | ->]; unfold LEFT, RIGHT; lia).
    destruct (swap_heap h i s2) as [h1|] eqn:ESW; [|discriminate]. cbn [bind].
    destruct (swap_heap_keys _ _ _ _ ESW) as [SZ [K1 [K2 K3]]].
    intros H. destruct (IH h1 s2 h') as [O S]; auto; try lia.
    + split.
      * intros k Hk Pk. rewrite SZ in Hk. pose proof (PARENT_lt k ltac:(lia)) as PLk.
        destruct (Nat.eq_dec k s2) as [->|Nks].
        { rewrite PS, K1, K2. lia. }
        destruct (Nat.eq_dec k i) as [->|Nki].
        { assert (0 < i)%nat by lia. rewrite K1, (K3 (PARENT i)) by lia. apply B; auto; lia. }
        destruct (Nat.eq_dec (PARENT k) i) as [P|P].
        { rewrite P, K1, (K3 k) by auto.
          destruct (child_cases k i ltac:(lia) P) as [-> | ->]; [specialize (L1' ltac:(lia))|specialize (L2' ltac:(lia))]; lia. }
        rewrite (K3 (PARENT k)), (K3 k) by auto. apply A; auto.
      * intros c Hc Hs Pc. rewrite SZ in Hc. rewrite PS, K1.
        assert (c <> i) by (pose proof (PARENT_lt c ltac:(lia)); lia).
        assert (c <> s2) by (pose proof (PARENT_lt c ltac:(lia)); lia).
        rewrite (K3 c) by auto. pose proof (A c ltac:(lia) ltac:(lia)) as X. rewrite Pc in X. lia.
    + split; [auto|lia].
Qed.

Lemma oget_removelast_lt {A} : forall (l : list A) i, (S i < length l)%nat -> oget (removelast l) i = oget l i.
Proof.
  induction l as [|a l IH]; intros i H; [cbn [length] in H; lia|].
  cbn [removelast]. destruct l as [|b l]; [cbn [length] in H; lia|].
  destruct i as [|i]; [reflexivity|]. cbn [oget nth_error]. apply IH. cbn [length] in *. lia.
Qed.

Theorem heap_remove_first_ord h h' : heap_ord h -> (0 < hsize h)%nat ->
  heap_remove_first h = Some h' -> heap_ord h' /\ hsize h' = (hsize h - 1)%nat.
Proof.
  intros O Hn. unfold heap_remove_first. fold (hsize h).
  destruct (swap_heap h 0 (hsize h - 1)) as [h1|] eqn:ES; [|discriminate]. cbn [bind].
  destruct (swap_heap_keys _ _ _ _ ES) as [SZ [K1 [K2 K3]]].
  set (h2 := (removelast (fst h1), snd h1)).
  assert (SZ2 : hsize h2 = (hsize h - 1)%nat) by (unfold h2, hsize in *; cbn [fst]; rewrite removelast_length; lia).
  assert (KK : forall k, (k < hsize h2)%nat -> key h2 k = key h1 k).
  { intros k Hk. unfold key, h2. cbn [fst]. rewrite oget_removelast_lt; auto. unfold hsize in *. lia. }
  intros H. destruct (Nat.eq_dec (hsize h2) 0) as [Z|NZ].
  - (* the heap is now empty *)
    assert (E : removelast (fst h1) = []) by (apply length_zero_iff_nil; unfold h2, hsize in Z; cbn [fst] in Z; exact Z).
    rewrite E in H. cbn [length heapify] in H. injection H as <-.
    split.
    + intros k Hk. unfold hsize in *. lia.
    + unfold hsize in *. lia.
  - change (heapify (length (fst h2)) h2 0 = Some h') in H.
    assert (ID : inv_down h2 0).
    { split; [|intros; lia].
      intros k Hk Pk. pose proof (PARENT_lt k ltac:(lia)).
      rewrite !KK by lia. rewrite (K3 (PARENT k)), (K3 k) by lia. apply O. lia. }
    assert (B1 : (0 < hsize h2)%nat) by lia.
    assert (B2 : (hsize h2 - 0 <= length (fst h2))%nat) by (unfold hsize; lia).
    destruct (heapify_ord (length (fst h2)) h2 0 h' ID B1 B2 H) as [O' S'].
    split; [auto|lia].
Qed.

(* hence: slot 0 holds a minimal key *)
Theorem heap_root_min h : heap_ord h -> forall k, (k < hsize h)%nat -> key h 0 <= key h k.
Proof.
  intros O k. induction k as [k IH] using lt_wf_ind. intros Hk.
  destruct (Nat.eq_dec k 0) as [->|N]; [lia|].
  pose proof (PARENT_lt k ltac:(lia)). pose proof (O k ltac:(lia)). specialize (IH (PARENT k) ltac:(lia) ltac:(lia)). lia.
Qed.
