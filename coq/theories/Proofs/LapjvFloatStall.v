(* C01 — finding F35 (binary64 stall of augmenting_row_reduction, _lapjv.pyx:202-211).  All theorems about Model.Lapjv are
   about EXACT arithmetic on the cost grid (ext = Fin Z | +inf | -inf | NaN).  There the price update of a strict step,
   v[j1] = v[j1] - u2 + u1 with u1 + eps < u2, strictly lowers the price (arr_update_strict_exact) - the fact every termination
   argument for augmenting row reduction rests on.  In binary64 the same update, evaluated in the .pyx's association order
   (v - u2) + u1, can return v bit for bit although u2 - u1 > eps: the values below are those of the coordinator's witness (i)
   (v[0] = 1e16 after column reduction, u1 = 0, u2 = 0.5; ulp(1e16) = 2).  The code then re-queues the evicted row as if
   progress had been made, and two rows evict each other forever.  Kernel-evaluated with Coq's primitive floats. *)
From Coq Require Import Floats ZArith Lia.
From Centro Require Import Model.Lapjv.
Open Scope float_scope.

Definition stall_v : float := 0x1.1c37937e08p+53.      (* 1e16 *)
Definition stall_u1 : float := 0.
Definition stall_u2 : float := 0x1p-1.                 (* 0.5 *)
Definition stall_eps : float := 0x1p-26.               (* sqrt(finfo(float64).eps) *)

Theorem arr_float_stall :
  Prim2SF stall_v = S754_finite false 5000000000000000 1 /\
  Prim2SF stall_u1 = S754_zero false /\
  Prim2SF stall_u2 = S754_finite false 4503599627370496 (-53) /\
  Prim2SF stall_eps = S754_finite false 4503599627370496 (-78) /\
  (* the strict branch is taken: u1 + eps < u2 *)
  PrimFloat.ltb (stall_u1 + stall_eps) stall_u2 = true /\
  (* ... and the price does not move: (v - u2) + u1 == v *)
  PrimFloat.eqb ((stall_v - stall_u2) + stall_u1) stall_v = true.
Proof. repeat split; vm_compute; reflexivity. Qed.

Close Scope float_scope.
Open Scope Z_scope.

(* the same update in the exact model strictly lowers the price *)
Theorem arr_update_strict_exact : forall v u1 u2 eps : Z, 0 <= eps ->
  eltb (eadd (Fin u1) (Fin eps)) (Fin u2) = true ->
  exists v', eadd (esub (Fin v) (Fin u2)) (Fin u1) = Fin v' /\ v' < v.
Proof.
  intros v u1 u2 eps He H. cbn [eadd eltb] in H. apply Z.ltb_lt in H.
  exists (v + - u2 + u1). split; [reflexivity|lia].
Qed.
