(* C02 — finite sweep instance, see HullSweep.v *)
From Coq Require Import ZArith List Bool.
From Centro Require Import Base.Sx Model.Hull Spec.HullSpec Proofs.HullSweep.
Import ListNotations.
Open Scope Z_scope.

Lemma sweep_4x4 : sweep 4 4 2 = true.
Proof. vm_cast_no_check (eq_refl true). Qed.

Theorem hull_label_grid_4x4 : forall pts slack, In pts (sublists (grid 4 4)) -> In slack (slacks 2) ->
    HullSpec pts (hull_label 3 pts slack) /\
    zlen (hull_label 3 pts slack) <= slack + zlen pts /\
    hull_label 3 pts slack = hull_label 3 pts (slack + 1000).
Proof. exact (sweep_sound 4 4 2 sweep_4x4). Qed.
