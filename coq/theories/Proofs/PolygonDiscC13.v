(* C13 — polygon_in_disc: a disc that contains the vertices of a C02 hull polygon V of S contains all of S
   (S lies on the inner side of every edge of V).  Route: if s in S were outside, the linear functional
   <x - c, s - c> would be strictly larger at s than at every vertex; but at the vertex where it is
   largest the two incident edges confine s to a cone in which the functional cannot grow (Cramer). *)
From Coq Require Import ZArith QArith List Bool Lqa Lia.
From Centro Require Import Model.Hull Spec.HullSpec Spec.MecSpec.
Import ListNotations.
Open Scope Z_scope.

Definition phi (p q : Z) (x : pt) : Z := p * fst x + q * snd x.

(* the cone at a strictly convex vertex v with neighbours u, w *)
Lemma cone_max (p q sg : Z) (u v w s : pt) :
  0 < sg * cross u v w -> 0 <= sg * cross u v s -> 0 <= sg * cross v w s ->
  phi p q u <= phi p q v -> phi p q w <= phi p q v -> phi p q s <= phi p q v.
Proof.
  intros T A B Hu Hw.
  assert (Id : cross u v w * (phi p q s - phi p q v) =
               - (cross v w s * (phi p q v - phi p q u)) + cross u v s * (phi p q w - phi p q v))
    by (unfold cross, phi; ring).
  assert (Id' : (sg * cross u v w) * (phi p q s - phi p q v) =
               - ((sg * cross v w s) * (phi p q v - phi p q u)) + (sg * cross u v s) * (phi p q w - phi p q v))
    by (rewrite <- !Z.mul_assoc, Id; ring).
  nia.
Qed.

Lemma argmax_vertex (p q : Z) : forall V : list pt, V <> [] ->
  exists v, In v V /\ forall x, In x V -> phi p q x <= phi p q v.
Proof.
  induction V as [|a t IH]; intros N; [contradiction|]. destruct t as [|b t'].
  - exists a. split; [left; reflexivity|]. intros x [<-|[]]. lia.
  - destruct (IH ltac:(discriminate)) as [v [Hv Hm]].
    destruct (Z_le_gt_dec (phi p q a) (phi p q v)) as [L|G].
    + exists v. split; [right; exact Hv|]. intros x [<-|Hx]; [exact L|apply Hm, Hx].
    + exists a. split; [left; reflexivity|]. intros x [<-|Hx]; [lia|]. specialize (Hm x Hx). lia.
Qed.

Lemma in_cyc_gen {A} (V : list A) x : In x (V ++ firstn 2 V) -> In x V.
Proof.
  intros H. apply in_app_or in H. destruct H as [H|H]; [exact H|].
  rewrite <- (firstn_skipn 2 V). apply in_or_app. left. exact H.
Qed.

Lemma split3' {A} (d : A) : forall (L : list A) i, (i + 2 < length L)%nat ->
  L = firstn i L ++ nth i L d :: nth (i + 1) L d :: nth (i + 2) L d :: skipn (i + 3) L.
Proof.
  induction L as [|x t IH]; intros i Hl; [cbn [length] in Hl; lia|].
  destruct i as [|i].
  - destruct t as [|y [|z r]]; cbn [length] in Hl; try lia. reflexivity.
  - cbn [firstn app Nat.add nth skipn]. f_equal. apply IH. cbn [length] in Hl. lia.
Qed.

(* every element of a list of length >= 3 is the middle of a cyclically consecutive triple *)
Lemma triple_gen {A} (d : A) (V : list A) v : (3 <= length V)%nat -> In v V ->
  exists u w l1 l2, V ++ firstn 2 V = l1 ++ u :: v :: w :: l2 /\ In u V /\ In w V.
Proof.
  intros L3 Hv. destruct (In_nth V v d Hv) as [i [Hi Ei]].
  set (C := V ++ firstn 2 V).
  assert (Lc : length C = (length V + 2)%nat).
  { unfold C. rewrite app_length, firstn_length. lia. }
  set (j := match i with O => (length V - 1)%nat | S i' => i' end).
  assert (Hj : (j + 2 < length C)%nat) by (rewrite Lc; unfold j; destruct i; lia).
  assert (Em : nth (j + 1) C d = v).
  { unfold j, C. destruct i as [|i'].
    - replace (length V - 1 + 1)%nat with (length V) by lia.
      rewrite app_nth2 by lia. rewrite Nat.sub_diag.
      destruct V as [|a [|b r]]; cbn [length] in L3; try lia. exact Ei.
    - replace (i' + 1)%nat with (S i') by lia. rewrite app_nth1 by exact Hi. exact Ei. }
  exists (nth j C d), (nth (j + 2) C d), (firstn j C), (skipn (j + 3) C). split; [|split].
  - rewrite <- Em. apply (split3' d). exact Hj.
  - apply in_cyc_gen. apply nth_In. fold C. lia.
  - apply in_cyc_gen. apply nth_In. fold C. lia.
Qed.

Lemma vertex_triple (V : list pt) v : (3 <= length V)%nat -> In v V ->
  exists u w, consecutive V u v w /\ In u V /\ In w V.
Proof.
  intros L3 Hv. destruct (triple_gen (0, 0) V v L3 Hv) as [u [w [l1 [l2 [E [Hu Hw]]]]]].
  exists u, w. split; [|split; assumption]. exists l1, l2. exact E.
Qed.

(* a linear functional with integer coefficients is, on S, at most its maximum over the vertices *)
Theorem polygon_functional_max S V (p q : Z) :
  HullSpec S V -> V <> [] ->
  exists v, In v V /\ forall s, In s S -> phi p q s <= phi p q v.
Proof.
  intros HS NE. destruct (argmax_vertex p q V NE) as [v [Hv Hm]]. exists v. split; [exact Hv|].
  intros s Hs.
  destruct V as [|a [|b [|c r]]]; [contradiction| | |].
  - rewrite (hs_one _ _ HS a eq_refl s Hs). apply Hm. left; reflexivity.
  - destruct (hs_two _ _ HS a b eq_refl s Hs) as [Cr [D0 D1]].
    pose proof (Hm a (or_introl eq_refl)) as Ha. pose proof (Hm b (or_intror (or_introl eq_refl))) as Hb.
    assert (Nab : a <> b).
    { pose proof (hs_nodup _ _ HS) as ND. inversion ND as [|? ? Hn _]; subst. intro E. apply Hn. left. symmetry. exact E. }
    destruct a as [a1 a2], b as [b1 b2], s as [s1 s2]. unfold dot, phi, cross in *. cbn [fst snd] in *.
    assert (Hne : a1 <> b1 \/ a2 <> b2) by (destruct (Z.eq_dec a1 b1), (Z.eq_dec a2 b2); subst; try tauto; congruence).
    set (K := (b2 - a2) * (s1 - a1) - (s2 - a2) * (b1 - a1)).
    assert (K0 : K = 0) by (unfold K; rewrite <- Cr; ring).
    set (L := (b1 - a1) * (b1 - a1) + (b2 - a2) * (b2 - a2)) in *.
    set (lam := (s1 - a1) * (b1 - a1) + (s2 - a2) * (b2 - a2)) in *.
    assert (Lpos : 0 < L).
    { unfold L. pose proof (Z.square_nonneg (b1 - a1)). pose proof (Z.square_nonneg (b2 - a2)).
      destruct Hne; [assert (0 < (b1 - a1) * (b1 - a1)) by nia|assert (0 < (b2 - a2) * (b2 - a2)) by nia]; lia. }
    assert (Id : L * (p * s1 + q * s2) - ((L - lam) * (p * a1 + q * a2) + lam * (p * b1 + q * b2))
                 = (p * (b2 - a2) - q * (b1 - a1)) * K) by (unfold L, lam, K; ring).
    rewrite K0, Z.mul_0_r in Id.
    assert (Hl : 0 <= lam <= L) by (unfold lam, L; lia).
    nia.
  - set (V := a :: b :: c :: r) in *.
    assert (L3 : (3 <= length V)%nat) by (unfold V; cbn [length]; lia).
    destruct (hs_poly _ _ HS L3) as [sg [_ Hp]].
    destruct (vertex_triple V v L3 Hv) as [u [w [Co [Hu Hw]]]].
    destruct (Hp u v w Co) as [T In'].
    destruct (In' s Hs) as [I1 I2].
    apply (cone_max p q sg u v w s T I1 I2); apply Hm; assumption.
Qed.

(* ---- discs ---- *)

Local Open Scope Q_scope.

Lemma qsq_nonneg (x : Q) : 0 <= x * x.
Proof.
  destruct (Qlt_le_dec x 0) as [N|P]; [|apply Qmult_le_0_compat; exact P].
  setoid_replace (x * x) with ((- x) * (- x)) by ring. apply Qmult_le_0_compat; lra.
Qed.

Lemma outside_functional (c1 c2 R : Q) (s v : pt) :
  d2q v c1 c2 <= R -> R < d2q s c1 c2 ->
  let B := inject_Z (Zpos (Qden c1) * Zpos (Qden c2)) in
  let n1 := (fst s * (Zpos (Qden c1) * Zpos (Qden c2)) - Qnum c1 * Zpos (Qden c2))%Z in
  let n2 := (snd s * (Zpos (Qden c1) * Zpos (Qden c2)) - Qnum c2 * Zpos (Qden c1))%Z in
  (phi n1 n2 v < phi n1 n2 s)%Z.
Proof.
  intros Hv Hs B n1 n2.
  assert (E1 : inject_Z n1 == B * (inject_Z (fst s) - c1)).
  { unfold n1, B. destruct c1 as [a1 b1], c2 as [a2 b2]. unfold Qeq, inject_Z, Qminus, Qplus, Qopp, Qmult. cbn [Qnum Qden].
    rewrite !Pos2Z.inj_mul. ring. }
  assert (E2 : inject_Z n2 == B * (inject_Z (snd s) - c2)).
  { unfold n2, B. destruct c1 as [a1 b1], c2 as [a2 b2]. unfold Qeq, inject_Z, Qminus, Qplus, Qopp, Qmult. cbn [Qnum Qden].
    rewrite !Pos2Z.inj_mul. ring. }
  assert (Bpos : 0 < B) by (unfold B, Qlt, inject_Z; cbn; lia).
  rewrite Zlt_Qlt. unfold phi. rewrite !inject_Z_plus, !inject_Z_mult, E1, E2.
  unfold d2q, d2 in Hv, Hs.
  set (s1 := inject_Z (fst s)) in *. set (s2 := inject_Z (snd s)) in *.
  set (v1 := inject_Z (fst v)) in *. set (v2 := inject_Z (snd v)) in *.
  assert (Id : 2 * ((s1 - c1) * (s1 - v1) + (s2 - c2) * (s2 - v2)) ==
               ((s1 - c1) * (s1 - c1) + (s2 - c2) * (s2 - c2)) - ((v1 - c1) * (v1 - c1) + (v2 - c2) * (v2 - c2))
               + ((s1 - v1) * (s1 - v1) + (s2 - v2) * (s2 - v2))) by ring.
  pose proof (qsq_nonneg (s1 - v1)) as Sq1. pose proof (qsq_nonneg (s2 - v2)) as Sq2.
  assert (K : 0 < (s1 - c1) * (s1 - v1) + (s2 - c2) * (s2 - v2)) by lra.
  assert (K' : 0 < B * ((s1 - c1) * (s1 - v1) + (s2 - c2) * (s2 - v2))) by (apply Qmult_lt_0_compat; assumption).
  lra.
Qed.

Theorem polygon_in_disc S V c1 c2 R : HullSpec S V -> Encloses V c1 c2 R -> Encloses S c1 c2 R.
Proof.
  intros HS EV s Hs. destruct (Qlt_le_dec R (d2q s c1 c2)) as [G|L]; [exfalso|exact L].
  assert (NE : V <> []) by (intros E; rewrite (hs_empty _ _ HS E) in Hs; destruct Hs).
  set (n1 := (fst s * (Zpos (Qden c1) * Zpos (Qden c2)) - Qnum c1 * Zpos (Qden c2))%Z).
  set (n2 := (snd s * (Zpos (Qden c1) * Zpos (Qden c2)) - Qnum c2 * Zpos (Qden c1))%Z).
  destruct (polygon_functional_max S V n1 n2 HS NE) as [v [Hv Hm]].
  pose proof (outside_functional c1 c2 R s v (EV v Hv) G) as Lt. cbv zeta in Lt. fold n1 n2 in Lt.
  specialize (Hm s Hs). lia.
Qed.
