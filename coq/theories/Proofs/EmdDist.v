(* C10 — the distance min_cost_flow returns: x_dist of the returned x lists equals the cost of the
   capacity flow (the flow proved of minimum cost), along the flagged run.  Both the x lists and the
   backward capacities are addressed by "first entry pointing at ..."; when at most one direction
   of a node pair carries arcs (one_entry under the flag) the two first matches belong to the same
   arc, so one hop adds delta * (that arc's cost) to both sums. *)
From Coq Require Import ZArith List Bool Lia ZifyBool.
From Centro Require Import Base.Sx Base.EmdBase Model.Emd Model.EmdMcf
  Proofs.EmdDuality Proofs.EmdSsp Proofs.EmdHeap Proofs.EmdHeapPos Proofs.EmdHeapOrd Proofs.EmdHeapMem Proofs.EmdDijkstra Proofs.EmdDijkstraInit
  Proofs.EmdTight Proofs.EmdPotential Proofs.EmdGhost Proofs.EmdCspPost Proofs.EmdFuel Proofs.EmdAugment Proofs.EmdRun
  Proofs.EmdMetric Proofs.EmdConserve Proofs.EmdCertModel Proofs.EmdConserveRun Proofs.EmdMcfCert Proofs.EmdIndex Proofs.EmdXCaps.
Import ListNotations.
Open Scope Z_scope.

Definition rowcost (l : list (nat * Z * Z)) : Z := zsum (map (fun en => snd (fst en) * snd en) l).
Definition first_cost (l : list (nat * Z)) (t : nat) : Z :=
  match find (fun p => (fst p =? t)%nat) l with Some p => snd p | None => 0 end.
Definition fcost (arcs : list arc) (f t : nat) : Z :=
  match find (fun a => (a_from a =? f)%nat && (a_to a =? t)%nat) arcs with Some a => a_cost a | None => 0 end.
Definition srow (arcs : list arc) (v : nat) : list (nat * Z) :=
  flat_map (fun a => (if (a_from a =? v)%nat then [(a_to a, a_cost a)] else []) ++
                     (if (a_to a =? v)%nat then [(a_from a, - a_cost a)] else [])) arcs.

Lemma upd_first_x_cost t dl : forall l l', upd_first_x l t (fun f => f + dl) = Some l' ->
  rowcost l' = rowcost l + dl * first_cost (map (fun en => fst en) l) t.
Proof.
  unfold rowcost, first_cost. induction l as [|en l IH]; intros l'; cbn [upd_first_x]; [discriminate|].
  destruct (fst (fst en) =? t)%nat eqn:E.
  - intros H. injection H as <-. cbn [map zsum find fst snd]. rewrite E. lia.
  - destruct (upd_first_x l t (fun f => f + dl)) as [r'|] eqn:ER; [|discriminate].
    intros H. injection H as <-. cbn [map zsum find fst snd]. rewrite E. rewrite (IH r' eq_refl). lia.
Qed.

Lemma find_none_local {A} (p : A -> bool) : forall l, (forall a, In a l -> p a = false) -> find p l = None.
Proof. induction l as [|a l IH]; intros H; cbn [find]; [reflexivity|]. rewrite (H a) by (left; auto). apply IH. intros; apply H; right; auto. Qed.

Lemma fcost_none arcs f t : (forall a, In a arcs -> ~ (a_from a = f /\ a_to a = t)) -> fcost arcs f t = 0.
Proof.
  intros H. unfold fcost. rewrite find_none_local; [reflexivity|]. intros a Ha. specialize (H a Ha).
  destruct (a_from a =? f)%nat eqn:E1; destruct (a_to a =? t)%nat eqn:E2; cbn [andb]; auto.
  apply Nat.eqb_eq in E1, E2. exfalso. auto.
Qed.

Lemma first_cost_srow f t : f <> t -> forall arcs,
  (forall a, In a arcs -> ~ (a_from a = f /\ a_to a = t)) \/ (forall a, In a arcs -> ~ (a_from a = t /\ a_to a = f)) ->
  first_cost (srow arcs f) t = fcost arcs f t - fcost arcs t f.
Proof.
  intros NE. induction arcs as [|a r IH]; intros H; [reflexivity|].
  assert (Hr : (forall a0, In a0 r -> ~ (a_from a0 = f /\ a_to a0 = t)) \/ (forall a0, In a0 r -> ~ (a_from a0 = t /\ a_to a0 = f)))
    by (destruct H as [H|H]; [left|right]; intros a0 H0; apply H; right; auto).
  specialize (IH Hr).
  destruct (Nat.eq_dec (a_from a) f) as [F1|F1]; destruct (Nat.eq_dec (a_to a) t) as [T1|T1].
  - (* a : f -> t *)
    assert (Z1 : fcost (a :: r) t f = 0).
    { apply fcost_none. destruct H as [H|H]; [exfalso; apply (H a); [left; auto|auto]|exact H]. }
    rewrite Z1. unfold first_cost, fcost. cbn [srow flat_map find]. rewrite F1, T1, !Nat.eqb_refl. cbn [andb app find fst snd].
    rewrite Nat.eqb_refl. cbn [snd]. lia.
  - (* from f, not to t *)
    unfold first_cost, fcost in *. cbn [srow flat_map find].
    assert (E1 : (a_from a =? f)%nat = true) by (apply Nat.eqb_eq; auto).
    assert (E2 : (a_to a =? t)%nat = false) by (apply Nat.eqb_neq; auto).
    assert (E4 : (a_from a =? t)%nat = false) by (apply Nat.eqb_neq; lia).
    rewrite E1, E2, E4. cbn [andb app find fst snd]. rewrite E2.
    destruct (a_to a =? f)%nat eqn:E3; cbn [app find fst snd]; rewrite ?E4; exact IH.
  - (* to t, not from f *)
    unfold first_cost, fcost in *. cbn [srow flat_map find].
    assert (E1 : (a_from a =? f)%nat = false) by (apply Nat.eqb_neq; auto).
    assert (E2 : (a_to a =? t)%nat = true) by (apply Nat.eqb_eq; auto).
    assert (E3 : (a_to a =? f)%nat = false) by (apply Nat.eqb_neq; lia).
    rewrite E1, E2, E3. cbn [andb app find fst snd]. rewrite andb_false_r. exact IH.
  - (* neither from f nor to t *)
    destruct (Nat.eq_dec (a_from a) t) as [F2|F2]; destruct (Nat.eq_dec (a_to a) f) as [T2|T2].
    + (* a : t -> f *)
      assert (Z1 : fcost (a :: r) f t = 0).
      { apply fcost_none. destruct H as [H|H]; [exact H|exfalso; apply (H a); [left; auto|auto]]. }
      rewrite Z1. unfold first_cost, fcost. cbn [srow flat_map find].
      assert (E1 : (a_from a =? f)%nat = false) by (apply Nat.eqb_neq; auto).
      rewrite E1, F2, T2, !Nat.eqb_refl. cbn [andb app find fst snd]. rewrite Nat.eqb_refl. cbn [snd]. lia.
    + unfold first_cost, fcost in *. cbn [srow flat_map find].
      assert (E1 : (a_from a =? f)%nat = false) by (apply Nat.eqb_neq; auto).
      assert (E3 : (a_to a =? f)%nat = false) by (apply Nat.eqb_neq; auto).
      rewrite E1, E3. cbn [andb app find]. rewrite andb_false_r. exact IH.
    + unfold first_cost, fcost in *. cbn [srow flat_map find].
      assert (E1 : (a_from a =? f)%nat = false) by (apply Nat.eqb_neq; auto).
      assert (E3 : (a_to a =? f)%nat = true) by (apply Nat.eqb_eq; auto).
      assert (E4 : (a_from a =? t)%nat = false) by (apply Nat.eqb_neq; auto).
      rewrite E1, E3, E4. cbn [andb app find fst snd]. rewrite E4. exact IH.
    + unfold first_cost, fcost in *. cbn [srow flat_map find].
      assert (E1 : (a_from a =? f)%nat = false) by (apply Nat.eqb_neq; auto).
      assert (E3 : (a_to a =? f)%nat = false) by (apply Nat.eqb_neq; auto).
      rewrite E1, E3. cbn [andb app find]. rewrite andb_false_r. exact IH.
Qed.

(* ---------------------------------------------------------------- the capacity side *)
Definition zipcost (l : list (nat * Z * Z)) (la : list arc) : Z :=
  zsum (map (fun p => a_cost (snd p) * snd (fst p)) (combine l la)).
Definition rowcap (arcs : list arc) (v : nat) (l : list (nat * Z * Z)) : Z :=
  zipcost l (filter (fun a => (a_to a =? v)%nat) arcs).
Definition capcost (arcs : list arc) (nv : nat) (rb : list (list (nat * Z * Z))) : Z :=
  zsum (map (fun v => rowcap arcs v (nth v rb [])) (seq 0 nv)).

Lemma upd_first_bwd_cap t dl : forall (l : list (nat * Z * Z)) (la : list arc),
  map (fun en => fst (fst en)) l = map a_from la ->
  zipcost (upd_first_bwd l t (fun c0 => c0 + dl)) la =
  zipcost l la + dl * match find (fun a => (a_from a =? t)%nat) la with Some a => a_cost a | None => 0 end.
Proof.
  unfold zipcost. induction l as [|en l IH]; intros la H; destruct la as [|a la]; cbn [map] in H; try discriminate.
  - cbn. lia.
  - injection H as H1 H2. cbn [upd_first_bwd find]. rewrite <- H1.
    destruct (fst (fst en) =? t)%nat eqn:E.
    + cbn [combine map zsum fst snd]. lia.
    + cbn [combine map zsum fst snd]. rewrite (IH la H2). lia.
Qed.

Lemma find_filter_ft f t : forall arcs,
  find (fun a => (a_from a =? f)%nat) (filter (fun a => (a_to a =? t)%nat) arcs) =
  find (fun a => (a_from a =? f)%nat && (a_to a =? t)%nat) arcs.
Proof.
  induction arcs as [|a r IH]; cbn [filter find]; [reflexivity|].
  destruct (a_to a =? t)%nat; cbn [find]; [rewrite andb_true_r; rewrite IH; reflexivity|rewrite andb_false_r; exact IH].
Qed.

Lemma zipcost_map_keep (g : nat * Z * Z -> nat * Z * Z) : (forall en, snd (g en) = snd en) ->
  forall l la, zipcost (map g l) la = zipcost l la.
Proof.
  intros H. unfold zipcost. induction l as [|en l IH]; intros la; destruct la as [|a la]; cbn [map combine zsum]; auto.
  cbn [fst snd]. rewrite H, IH. reflexivity.
Qed.

(* ---------------------------------------------------------------- one hop *)
Lemma zsum_map_upd {A} (f : A -> Z) (d : A) (g : A -> A) : forall l i, (i < length l)%nat ->
  zsum (map f (upd l i g)) = zsum (map f l) + (f (g (nth i l d)) - f (nth i l d)).
Proof.
  induction l as [|a l IH]; intros i H; cbn [length] in H; [lia|].
  destruct i as [|i]; cbn [upd map zsum nth]; [lia|]. rewrite IH by lia. lia.
Qed.

Lemma map_flat_map {A B C} (f : B -> C) (g : A -> list B) : forall l, map f (flat_map g l) = flat_map (fun a => map f (g a)) l.
Proof. induction l as [|a l IH]; cbn [flat_map map]; [reflexivity|]. rewrite map_app, IH. reflexivity. Qed.

Lemma skel_row nv arcs x v : skel_x x = skel_x (x_of nv arcs) -> (v < nv)%nat ->
  map (fun en : nat * Z * Z => fst en) (nth v x []) = srow arcs v.
Proof.
  intros S Hv.
  assert (E : nth v (skel_x x) [] = map (fun en : nat * Z * Z => fst en) (nth v x [])).
  { unfold skel_x. change (@nil (nat * Z)) with (map (fun en0 : nat * Z * Z => fst en0) []). rewrite map_nth. reflexivity. }
  rewrite <- E, S. unfold skel_x, x_of. rewrite map_map.
  rewrite (nth_indep _ [] ((fun v0 => map (fun en : nat * Z * Z => fst en) (flat_map (fun a =>
      (if (a_from a =? v0)%nat then [(a_to a, a_cost a, a_fp a)] else []) ++
      (if (a_to a =? v0)%nat then [(a_from a, - a_cost a, a_fm a)] else [])) arcs)) O)) by (rewrite map_length, seq_length; auto).
  rewrite (map_nth (fun v0 => map (fun en : nat * Z * Z => fst en) (flat_map (fun a =>
      (if (a_from a =? v0)%nat then [(a_to a, a_cost a, a_fp a)] else []) ++
      (if (a_to a =? v0)%nat then [(a_from a, - a_cost a, a_fm a)] else [])) arcs))).
  rewrite seq_nth by auto. cbn [Nat.add]. rewrite map_flat_map. unfold srow. apply flat_map_ext. intros a.
  rewrite map_app. destruct (a_from a =? v)%nat; destruct (a_to a =? v)%nat; reflexivity.
Qed.

Lemma lined_align h arcs q v : lined h arcs q ->
  map (fun en : nat * Z * Z => fst (fst en)) (nth v q []) = map a_from (filter (fun a => (a_to a =? v)%nat) arcs).
Proof.
  intros L. pose proof (L v) as E. unfold strip in E. apply (f_equal (map (fun p : nat * Z => fst p))) in E.
  rewrite !map_map in E. cbn [fst] in E. exact E.
Qed.

Theorem hop_value nv c pi rf rb x xf from to dl : length c = nv ->
  (forall l tc, In l c -> In tc l -> (fst tc < nv)%nat /\ 0 <= snd tc) ->
  ghost nv c pi rf rb -> (from < nv)%nat -> (to < nv)%nat -> from <> to ->
  pair_count rf from to = 1%nat ->
  skel_x x = skel_x (x_of nv (mk_arcs c)) ->
  upd_first_x (nth from x []) to (fun fl => fl + dl) = Some xf ->
  let x' := upd x from (fun _ => xf) in
  let rb1 := upd rb to (fun l => upd_first_bwd l from (fun c0 => c0 + dl)) in
  let rb2 := upd rb1 from (fun l => upd_first_bwd l to (fun c0 => c0 - dl)) in
  x_dist x' - capcost (mk_arcs c) nv rb2 = x_dist x - capcost (mk_arcs c) nv rb.
Proof.
  intros LC GC G Hf Ht NE PC SK UX. cbv zeta.
  pose proof G as [_ [LRB _]].
  pose proof (ghost_lined nv c LC GC pi rf rb G) as LIN.
  pose proof (one_entry nv c LC pi rf rb from to G Hf Ht PC) as ONE.
  assert (Lx : (from < length x)%nat).
  { destruct (Nat.lt_ge_cases from (length x)); auto. rewrite nth_overflow in UX by auto. cbn in UX. discriminate. }
  (* x side *)
  assert (XD : x_dist (upd x from (fun _ => xf)) = x_dist x + dl * first_cost (srow (mk_arcs c) from) to).
  { unfold x_dist. change (fun l : list (nat * Z * Z) => zsum (map (fun en => snd (fst en) * snd en) l)) with rowcost.
    rewrite (zsum_map_upd rowcost [] (fun _ => xf) x from Lx).
    rewrite (upd_first_x_cost to dl _ _ UX), (skel_row nv (mk_arcs c) x from SK Hf). lia. }
  (* capacity side *)
  set (rb1 := upd rb to (fun l => upd_first_bwd l from (fun c0 => c0 + dl))).
  assert (L1 : length rb1 = nv) by (unfold rb1; rewrite upd_length_local; auto).
  assert (C1 : capcost (mk_arcs c) nv rb1 = capcost (mk_arcs c) nv rb + dl * fcost (mk_arcs c) from to).
  { unfold capcost. rewrite (zsum_seq_upd nv (fun v => rowcap (mk_arcs c) v (nth v rb [])) (fun v => rowcap (mk_arcs c) v (nth v rb1 [])) to).
    - unfold rb1. rewrite (nth_upd_local _ []). rewrite Nat.eqb_refl.
      assert (E2 : (to <? length rb)%nat = true) by (apply Nat.ltb_lt; lia). rewrite E2. cbn [andb].
      unfold rowcap. rewrite (upd_first_bwd_cap from dl _ _ (lined_align _ _ _ to LIN)). rewrite find_filter_ft. unfold fcost. lia.
    - intros u Hu. unfold rb1. rewrite (nth_upd_local _ []).
      assert (E : (to =? u)%nat = false) by (apply Nat.eqb_neq; auto). rewrite E. reflexivity.
    - exact Ht. }
  assert (LIN1 : lined (fun a => - a_cost a + pi (a_to a) - pi (a_from a)) (mk_arcs c) rb1).
  { apply (ghost_lined nv c LC GC pi rf rb1). unfold rb1.
    apply (ghost_rb_caps nv c LC pi rf rb to (from, fun c0 => c0 + dl) G). }
  assert (C2 : capcost (mk_arcs c) nv (upd rb1 from (fun l => upd_first_bwd l to (fun c0 => c0 - dl))) =
               capcost (mk_arcs c) nv rb1 + (- dl) * fcost (mk_arcs c) to from).
  { change (fun c0 : Z => c0 - dl) with (fun c0 : Z => c0 + (- dl)).
    unfold capcost. rewrite (zsum_seq_upd nv (fun v => rowcap (mk_arcs c) v (nth v rb1 []))
         (fun v => rowcap (mk_arcs c) v (nth v (upd rb1 from (fun l => upd_first_bwd l to (fun c0 => c0 + (- dl)))) [])) from).
    - rewrite (nth_upd_local _ []). rewrite Nat.eqb_refl.
      assert (E2 : (from <? length rb1)%nat = true) by (apply Nat.ltb_lt; lia). rewrite E2. cbn [andb].
      unfold rowcap. rewrite (upd_first_bwd_cap to (- dl) _ _ (lined_align _ _ _ from LIN1)). rewrite find_filter_ft. unfold fcost. lia.
    - intros u Hu. rewrite (nth_upd_local _ []).
      assert (E : (from =? u)%nat = false) by (apply Nat.eqb_neq; auto). rewrite E. reflexivity.
    - exact Hf. }
  (* the two first matches belong to the same arc *)
  assert (NOARC : forall u v, (v < nv)%nat -> has_to (nth v rb []) u = 0 ->
            forall a, In a (mk_arcs c) -> ~ (a_from a = u /\ a_to a = v)).
  { intros u v Hv HZ a Ha [A1 A2].
    destruct (has_to_spec (nth v rb []) u) as [[X _]|[_ X]]; [lia|].
    apply (X (a_from a, - a_cost a + pi (a_to a) - pi (a_from a))); [|cbn; auto].
    rewrite (LIN v). apply in_map_iff. exists a. split; [reflexivity|]. apply filter_In. split; auto. apply Nat.eqb_eq; auto. }
  assert (H01 : has_to (nth to rb []) from = 0 \/ has_to (nth from rb []) to = 0).
  { destruct (has_to_spec (nth to rb []) from) as [[X _]|[X _]]; destruct (has_to_spec (nth from rb []) to) as [[Y _]|[Y _]]; lia. }
  assert (FC : first_cost (srow (mk_arcs c) from) to = fcost (mk_arcs c) from to - fcost (mk_arcs c) to from).
  { apply first_cost_srow; auto. destruct H01 as [Z|Z]; [left; apply (NOARC from to Ht Z)|right; apply (NOARC to from Hf Z)]. }
  rewrite XD, C2, C1, FC. lia.
Qed.

Theorem augment_value nv c pi rf : length c = nv ->
  (forall l tc, In l c -> In tc l -> (fst tc < nv)%nat /\ 0 <= snd tc) ->
  forall fuel prev k to dl e x rb e' x' rb',
  ghost nv c pi rf rb -> skel_x x = skel_x (x_of nv (mk_arcs c)) ->
  (forall f t, In (f, t) (hops fuel prev k to) -> (f < nv)%nat /\ (t < nv)%nat /\ pair_count rf f t = 1%nat) ->
  augment fuel prev k to dl e x rb = Some (e', x', rb') ->
  x_dist x' - capcost (mk_arcs c) nv rb' = x_dist x - capcost (mk_arcs c) nv rb.
Proof.
  intros LC GC. induction fuel as [|f IH]; intros prev k to dl e x rb e' x' rb' G SK HH; cbn [augment]; [discriminate|].
  destruct (upd_first_x (nth (nth to prev O) x []) to (fun fl => fl + dl)) as [xf|] eqn:UX; [|discriminate]. cbn [bind].
  set (from := nth to prev O) in *.
  assert (H0 : (from < nv)%nat /\ (to < nv)%nat /\ pair_count rf from to = 1%nat).
  { apply HH. cbn [hops]. left. reflexivity. }
  destruct H0 as [Hf [Ht PC]].
  assert (NE : from <> to) by (intros X; rewrite X in PC; apply (pair_count_self rf to); auto).
  pose proof (hop_value nv c pi rf rb x xf from to dl LC GC G Hf Ht NE PC SK UX) as HC. cbv zeta in HC.
  pose proof (ghost_rb_caps nv c LC pi rf rb to (from, fun c0 => c0 + dl) G) as G1. cbn [fst snd] in G1.
  pose proof (ghost_rb_caps nv c LC pi rf _ from (to, fun c0 => c0 - dl) G1) as G2. cbn [fst snd] in G2.
  assert (SK2 : skel_x (upd x from (fun _ => xf)) = skel_x (x_of nv (mk_arcs c))).
  { rewrite (skel_upd x from xf (upd_first_x_skel _ _ _ _ UX)). exact SK. }
  destruct (from =? k)%nat eqn:EK.
  - intros X. injection X as _ <- <-. exact HC.
  - intros X.
    assert (HH2 : forall f0 t0, In (f0, t0) (hops f prev k from) -> (f0 < nv)%nat /\ (t0 < nv)%nat /\ pair_count rf f0 t0 = 1%nat).
    { intros f0 t0 Hin. apply HH. cbn [hops]. fold from. rewrite EK. right. exact Hin. }
    rewrite (IH prev k from dl _ _ _ e' x' rb' G2 SK2 HH2 X). exact HC.
Qed.

Theorem step_value nv c st st' : length c = nv ->
  (forall l tc, In l c -> In tc l -> (fst tc < nv)%nat /\ 0 <= snd tc) ->
  length (m_e st) = nv -> length (m_d st) = nv -> length (m_prev st) = nv ->
  (exists pi, ghost nv c pi (m_rf st) (m_rb st)) ->
  RAok nv (m_rf st) (m_rb st) -> caps_ok (m_rb st) = true ->
  skel_x (m_x st) = skel_x (x_of nv (mk_arcs c)) ->
  mcf_step st = MMore st' -> step_flag st = false ->
  x_dist (m_x st') - capcost (mk_arcs c) nv (m_rb st') = x_dist (m_x st) - capcost (mk_arcs c) nv (m_rb st).
Proof.
  intros LC GC LE LD LP [pi G] RA CO SK. unfold mcf_step, step_flag. rewrite LE.
  destruct (pick_supply (m_e st) 0 0 0) as [ms k] eqn:PS.
  destruct (ms =? 0) eqn:E0; [discriminate|].
  destruct (compute_shortest_path nv (m_d st) (m_prev st) k (m_rf st) (m_rb st) (m_e st))
    as [[[[[d prev] rf] rb] l]|] eqn:EC; [|discriminate].
  destruct (l =? k)%nat eqn:ELK; [discriminate|]. apply Nat.eqb_neq in ELK.
  destruct (scan_delta nv prev rb k l ms) as [delta|] eqn:ES; [|discriminate].
  destruct (augment nv prev k l delta (m_e st) (m_x st) rb) as [[[e' x'] rb']|] eqn:EA; [|discriminate].
  intros X FL. injection X as <-. cbn [m_e m_rf m_rb m_x].
  apply orb_false_iff in FL. destruct FL as [WF CO']. apply negb_false_iff in CO'.
  assert (Hk : (k < nv)%nat /\ 0 < ms).
  { destruct (pick_supply_spec _ _ _ _ _ _ PS) as [[A _]|[A [_ B]]]; [lia|]. split; [|lia].
    rewrite Nat.sub_0_r in B. destruct (Nat.lt_ge_cases k (length (m_e st))); [lia|]. rewrite nth_overflow in B by auto. lia. }
  destruct Hk as [Hk Hms].
  pose proof G as [LRF [LRB _]].
  destruct (csp_post nv (m_e st) (m_rf st) (m_rb st) RA _ _ _ _ _ _ _ _ Hk LD LP EC) as [sp [ED [EP [PO [TP [ERF ERB]]]]]].
  destruct (ghost_csp nv c LC _ _ _ _ _ _ _ _ _ _ _ _ G EC) as [pi' G1].
  assert (NRB : forall u, (u < nv)%nat -> nth u rb [] =
            map (fun en => (fst (fst en), rc_update (sp_final sp) d (nz d l) u (fst (fst en)) (snd (fst en)), snd en)) (nth u (m_rb st) [])).
  { intros u Hu. rewrite ERB.
    apply (nth_map_combine' (fun fr row => map (fun en : nat * Z * Z => (fst (fst en), rc_update (sp_final sp) d (nz d l) fr (fst (fst en)) (snd (fst en)), snd en)) row) [] [] (m_rb st) nv u); lia. }
  destruct PO as [FL [LL _]].
  assert (CH : forall from' to', In (from', to') (hops nv prev k l) ->
            fn sp to' = true /\ to' <> k /\ from' = pvn sp to' /\ (from' < nv)%nat /\ (to' < nv)%nat /\
            tight (m_rf st) (m_rb st) sp to' (dd sp to')).
  { apply (walk_chain nv (m_rf st) (m_rb st) k sp rf prev RA LRF LRB TP EP nv l FL ELK). rewrite ED. exact WF. }
  pose proof (walk_flag_hops rf d prev k nv l WF) as HFL.
  assert (HH : forall f0 t0, In (f0, t0) (hops nv prev k l) -> (f0 < nv)%nat /\ (t0 < nv)%nat /\ pair_count rf f0 t0 = 1%nat).
  { intros f0 t0 Hin. destruct (CH f0 t0 Hin) as [_ [_ [_ [A [B _]]]]]. split; auto. split; auto.
    specialize (HFL f0 t0 Hin). unfold hop_flag in HFL. apply orb_false_iff in HFL. destruct HFL as [PC _].
    apply negb_false_iff in PC. apply Nat.eqb_eq in PC. exact PC. }
  rewrite (augment_value nv c pi' rf LC GC _ _ _ _ _ _ _ _ _ _ _ G1 SK HH EA).
  f_equal. unfold capcost. apply zsum_map_ext. intros w Hw. apply in_seq in Hw.
  rewrite (NRB w ltac:(lia)). unfold rowcap. apply zipcost_map_keep. auto.
Qed.

Section RunV.
Variable nv : nat.
Variable c : list (list (nat * Z)).
Hypothesis LC : length c = nv.
Hypothesis GC : forall l tc, In l c -> In tc l -> (fst tc < nv)%nat /\ 0 <= snd tc.

Theorem value_iter : forall k st fl r fl', RunInv nv c st -> skel_x (m_x st) = skel_x (x_of nv (mk_arcs c)) ->
  mcf_iter_f k st fl = (r, fl') -> fl' = false ->
  match r with
  | MDone st' | MMore st' => x_dist (m_x st') - capcost (mk_arcs c) nv (m_rb st') = x_dist (m_x st) - capcost (mk_arcs c) nv (m_rb st)
  | MFail => True
  end.
Proof.
  induction k as [|k IH]; intros st fl r fl' I SK; cbn [mcf_iter_f].
  - intros H F. injection H as <- <-. apply orb_false_iff in F. destruct F as [_ F2].
    destruct I as [LE [LD [LP [G [RA CO]]]]].
    destruct (mcf_step st) as [s1|s1|] eqn:ES; [| |exact Logic.I].
    + destruct (step_done _ _ ES) as [-> N]. auto.
    + apply (step_value nv c st s1 LC GC LE LD LP G RA CO SK ES F2).
  - destruct (mcf_iter_f k st fl) as [r1 f1] eqn:E1. destruct r1 as [s1|s1|].
    + intros H F. injection H as <- <-. apply (IH st fl _ _ I SK E1 F).
    + intros H F. pose proof (flag_mono _ _ _ _ _ H F) as F1.
      pose proof (run_iter nv c LC k st fl (MMore s1) f1 I E1 F1) as I1.
      pose proof (IH st fl (MMore s1) f1 I SK E1 F1) as B1.
      pose proof (iter_skel k st fl) as S1. rewrite E1 in S1. cbn [fst] in S1.
      assert (SK1 : skel_x (m_x s1) = skel_x (x_of nv (mk_arcs c))) by (rewrite S1; exact SK).
      pose proof (IH s1 f1 r fl' I1 SK1 H F) as B2.
      destruct r as [s2|s2|]; auto; rewrite B2; exact B1.
    + intros H F. injection H as <- <-. exact Logic.I.
Qed.
End RunV.

(* ---------------------------------------------------------------- capcost = cost of the arc-indexed capacity flow *)
Lemma zipcost_zero : forall l la, (forall en, In en l -> snd en = 0) -> zipcost l la = 0.
Proof.
  unfold zipcost. induction l as [|en l IH]; intros la H; destruct la as [|a la]; cbn [combine map zsum]; auto.
  cbn [fst snd]. rewrite (H en) by (left; auto). rewrite IH by (intros; apply H; right; auto). lia.
Qed.

Lemma assign_cost nv h : forall arcs q, lined h arcs q -> length q = nv ->
  (forall a, In a arcs -> (a_to a < nv)%nat) ->
  zsum (map (fun af => a_cost (fst af) * snd af) (combine arcs (assign arcs q))) = capcost arcs nv q.
Proof.
  induction arcs as [|a r IH]; intros q L LQ WT.
  - cbn [assign combine map zsum]. unfold capcost. symmetry. apply zsum_map_zero. intros v _.
    unfold rowcap, zipcost. cbn [filter]. rewrite combine_nil. reflexivity.
  - assert (Ht : (a_to a < length q)%nat) by (rewrite LQ; apply WT; left; auto).
    destruct (lined_step h a r q L Ht) as [en [tlq [EN [Ef [Eh L']]]]].
    cbn [assign]. rewrite EN. cbn [combine map zsum fst snd].
    rewrite (IH _ L' ltac:(rewrite upd_length_local; auto) ltac:(intros a1 H1; apply WT; right; auto)).
    unfold capcost.
    rewrite (zsum_seq_upd nv (fun v => rowcap r v (nth v (upd q (a_to a) (@tl _)) [])) (fun v => rowcap (a :: r) v (nth v q [])) (a_to a)).
    + rewrite (nth_upd_local (@tl _) []). rewrite Nat.eqb_refl.
      assert (E2 : (a_to a <? length q)%nat = true) by (apply Nat.ltb_lt; auto). rewrite E2. cbn [andb].
      rewrite EN. unfold rowcap. cbn [filter]. rewrite Nat.eqb_refl. unfold zipcost. cbn [tl combine map zsum fst snd]. lia.
    + intros u Hu. rewrite (nth_upd_local (@tl _) []).
      assert (E : (a_to a =? u)%nat = false) by (apply Nat.eqb_neq; auto). rewrite E. cbn [andb].
      unfold rowcap. cbn [filter]. rewrite E. reflexivity.
    + rewrite <- LQ. exact Ht.
Qed.

Section Final.
Variable nv : nat.
Variable c : list (list (nat * Z)).
Hypothesis LC : length c = nv.
Hypothesis GC : forall l tc, In l c -> In tc l -> (fst tc < nv)%nat /\ 0 <= snd tc.

Lemma capcost_gcost pi rf rb : ghost nv c pi rf rb ->
  capcost (mk_arcs c) nv rb = gcost (sk_of c) (capflow c rb).
Proof.
  intros G. pose proof (ghost_lined nv c LC GC pi rf rb G) as L. pose proof G as [_ [LRB _]].
  rewrite <- (assign_cost nv _ (mk_arcs c) rb L LRB ltac:(intros a Ha; apply (arcs_wf nv c LC GC a Ha))).
  unfold gcost, idx, sk_of, capflow. rewrite map_length.
  rewrite (zsum_map_ext _ (fun k => (fun a z => a_cost a * z) (nth k (mk_arcs c) dummy_arc) (nth k (assign (mk_arcs c) rb) 0))).
  - rewrite (zsum_index_combine (fun a z => a_cost a * z) dummy_arc (mk_arcs c) (assign (mk_arcs c) rb) (assign_length _ _)). reflexivity.
  - intros k Hk. apply in_seq in Hk. destruct (sk_nth c k ltac:(lia)) as [_ [_ A]]. fold (sk_of c). rewrite A. reflexivity.
Qed.

(* dist_is_capflow_cost: at Done of the flagged run with the flag clear, the distance computed from
   the returned x lists is the cost of the capacity flow *)
Theorem dist_is_capflow_cost e st fl : length e = nv ->
  mcf_iter_f ssp_levels (mcf_init e c) false = (MDone st, fl) -> fl = false ->
  x_dist (m_x st) = gcost (sk_of c) (capflow c (m_rb st)).
Proof.
  intros LE H F.
  pose proof (run_init nv c LC e LE GC) as I0.
  assert (SK0 : skel_x (m_x (mcf_init e c)) = skel_x (x_of nv (mk_arcs c))) by (unfold mcf_init; cbn [m_x]; rewrite LE; reflexivity).
  pose proof (value_iter nv c LC GC ssp_levels _ _ _ _ I0 SK0 H F) as V.
  pose proof (run_iter nv c LC ssp_levels _ _ _ _ I0 H F) as I1. destruct I1 as [_ [_ [_ [[pi G] _]]]].
  rewrite <- (capcost_gcost pi _ _ G).
  assert (X0 : x_dist (m_x (mcf_init e c)) = 0).
  { unfold mcf_init, x_dist, x_of. cbn [m_x]. rewrite map_map. apply zsum_map_zero. intros v _.
    apply zsum_map_zero. intros en Hen. apply in_flat_map in Hen. destruct Hen as [a [Ha Hin]].
    destruct (mk_arcs_flows0 c a Ha) as [P M]. apply in_app_or in Hin. destruct Hin as [Hin|Hin].
    - destruct (a_from a =? v)%nat; [|destruct Hin]. destruct Hin as [<-|[]]. cbn [fst snd]. rewrite P. lia.
    - destruct (a_to a =? v)%nat; [|destruct Hin]. destruct Hin as [<-|[]]. cbn [fst snd]. rewrite M. lia. }
  assert (C0 : capcost (mk_arcs c) nv (m_rb (mcf_init e c)) = 0).
  { unfold capcost. apply zsum_map_zero. intros v Hv. apply in_seq in Hv. unfold rowcap. apply zipcost_zero.
    intros en Hen. unfold mcf_init in Hen. cbn [m_rb] in Hen. rewrite LE in Hen.
    rewrite (nth_indep _ [] ((fun v0 => flat_map (fun a => if (a_to a =? v0)%nat then [(a_from a, - a_cost a, 0)] else []) (mk_arcs c)) O)) in Hen by (rewrite map_length, seq_length; lia).
    rewrite (map_nth (fun v0 => flat_map (fun a => if (a_to a =? v0)%nat then [(a_from a, - a_cost a, 0)] else []) (mk_arcs c))) in Hen.
    apply in_flat_map in Hen. destruct Hen as [a [_ Hin]]. destruct (a_to a =? _)%nat; [|destruct Hin]. destruct Hin as [<-|[]]. reflexivity. }
  rewrite X0, C0 in V. lia.
Qed.
End Final.
