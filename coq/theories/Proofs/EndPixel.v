(* C05 - the end-pixel lemma: every finite hole-free image in which pixel x has a neighbour contains
   an end pixel (exactly one run of set neighbours on the ring, N,E,S,W not all set), different
   from any prescribed pixel q, in the 8-component of x.  Strong induction on the number of pixels,
   removing the LAST pixel p in raster order: local facts by a kernel sweep (TopoSwEndLocal.v), the
   one global fact by crossing parity (EndPixelSep.v: the two sides of a separated p are not
   connected without p).  Instance: [EndPixelLemma] of Proofs/ShrinkPoint.v. *)
From Coq Require Import ZArith NArith List Bool Lia.
From Centro Require Import Base.Topo Base.Skel Base.TopoPar Base.TopoGrid.
From Centro Require Import Proofs.TopoCounts Proofs.TopoSwShrinkEnd Proofs.LabelsIndep
  Proofs.EndPixelParity Proofs.EndPixelSep Proofs.TopoSwEndLocal.
Import ListNotations.
Open Scope Z_scope.

Definition cell (p : px) (u : Z * Z) : px := (fst p + fst u, snd p + snd u).
Definition endp (X : img) (e : px) : bool := end_pattern (pat X e).
Definition hole_free' (X : img) : Prop := forall a b, bg X a -> bg X b -> conn4 X a b.

Lemma getX_cell X p u : getX X p (fst u) (snd u) = X (cell p u).
Proof. reflexivity. Qed.
Lemma pat_cell X p u : pat X (cell p u) = pat_gen (getX X p) (fst u) (snd u).
Proof. unfold pat, pat_gen, getX, nb, cell. apply map_ext. intros b. cbn [fst snd]. f_equal. f_equal; lia. Qed.
Lemma cell_eq_p p u : cell p u = p <-> u = (0, 0).
Proof.
  destruct p as [r c], u as [a b]. unfold cell. cbn [fst snd]. split; intros E; inversion E; subst.
  - f_equal; lia.
  - f_equal; lia.
Qed.
Lemma getX_remove X p a c : getX (remove X p) p a c = gY (getX X p) a c.
Proof.
  unfold getX, remove, gY. destruct p as [r k]. cbn [fst snd]. unfold px_eqb. cbn [fst snd].
  destruct (Z.eqb_spec a 0), (Z.eqb_spec c 0), (Z.eqb_spec (r + a) r), (Z.eqb_spec (k + c) k); cbn [andb]; try reflexivity; lia.
Qed.
Lemma pat_cell_remove X p u : pat (remove X p) (cell p u) = pat_gen (gY (getX X p)) (fst u) (snd u).
Proof. rewrite pat_cell. unfold pat_gen. apply map_ext. intros b. apply getX_remove. Qed.

(* neighbours, decidably *)
Definition lonelyP (X : img) (e : px) : bool := negb (existsb (fun b : bool => b) (ring_of (pat X e))).
Lemma ring_In X e y : adj8 e y -> In (X y) (ring_of (pat X e)).
Proof.
  intros A. destruct (adj8_is_nb e y A) as [b [Lb [Nb ->]]]. unfold ring_of.
  apply in_map_iff. exists b. split; [unfold bit; apply pat_nth; exact Lb|].
  do 9 (destruct b as [|b]; [cbn; tauto|]). lia.
Qed.
Lemma lonely_no X e : lonelyP X e = true -> forall y, adj8 e y -> X y = false.
Proof.
  unfold lonelyP. intros L y A. apply negb_true_iff in L. destruct (X y) eqn:V; [|reflexivity].
  assert (existsb (fun b : bool => b) (ring_of (pat X e)) = true); [|congruence].
  apply existsb_exists. exists true. split; [|reflexivity]. rewrite <- V. apply ring_In. exact A.
Qed.
Lemma lonely_yes X e : lonelyP X e = false -> exists y, adj8 e y /\ X y = true.
Proof.
  unfold lonelyP. intros L. apply negb_false_iff in L. apply existsb_exists in L as [v [Hv ->]].
  unfold ring_of in Hv. apply in_map_iff in Hv as [b [Hb Ib]]. exists (nb e b). split.
  - apply adj8_nb; cbn in Ib; lia.
  - rewrite <- Hb. unfold bit. symmetry. apply pat_nth. cbn in Ib; lia.
Qed.

(* an unaffected pixel keeps its pattern *)
Lemma pat_remove_far X p e : e <> p -> ~ adj8 e p -> pat (remove X p) e = pat X e.
Proof.
  intros N NA. unfold pat. apply map_ext_in. intros b Hb. apply in_seq in Hb. unfold remove.
  destruct (px_eqb_spec (nb e b) p) as [E|_]; [|reflexivity]. exfalso.
  destruct (Nat.eq_dec b 4) as [->|N4]; [rewrite nb_center in E; contradiction|].
  apply NA. rewrite <- E. apply adj8_nb; lia.
Qed.

Lemma adj_last X p e : (forall q, X q = true -> ~ ltr p q) -> X e = true -> e <> p -> adj8 e p ->
  exists u, In u nbrs4 /\ e = cell p u.
Proof.
  intros Last Xe N A. pose proof (Last e Xe) as L. apply adj8_coords in A. unfold ltr in L.
  destruct p as [r c], e as [i j]. cbn [fst snd] in *.
  assert (D : (i = r /\ j = c - 1) \/ (i = r - 1 /\ j = c - 1) \/ (i = r - 1 /\ j = c) \/ (i = r - 1 /\ j = c + 1)).
  { assert (i <> r \/ j <> c) by (destruct (Z.eq_dec i r), (Z.eq_dec j c); subst; auto; congruence). lia. }
  destruct D as [[-> ->]|[[-> ->]|[[-> ->]|[-> ->]]]];
    [exists (0,-1)|exists (-1,-1)|exists (-1,0)|exists (-1,1)]; (split; [cbn; tauto|unfold cell; cbn [fst snd]; f_equal; lia]).
Qed.

Lemma filter_len_le' {A} (f : A -> bool) l : (length (filter f l) <= length l)%nat.
Proof. induction l as [|a l IH]; cbn [filter length]; [lia|]. destruct (f a); cbn [length]; lia. Qed.

Lemma cell_inj p u v : cell p u = cell p v -> u = v.
Proof. destruct p, u, v. unfold cell. cbn [fst snd]. intros E. inversion E. f_equal; lia. Qed.

Lemma two_on (f : Z * Z -> bool) u : In u nbrs4 -> (2 <= length (filter f nbrs4))%nat ->
  exists u2, In u2 nbrs4 /\ f u2 = true /\ u2 <> u.
Proof.
  intros Hu H. unfold nbrs4 in *. cbn [filter] in H. cbn [In] in Hu.
  destruct (f (0,-1)) eqn:F1, (f (-1,-1)) eqn:F2, (f (-1,0)) eqn:F3, (f (-1,1)) eqn:F4; cbn [length] in H; try lia;
  destruct Hu as [<-|[<-|[<-|[<-|[]]]]];
  first [ exists (0,-1); split; [cbn; tauto|split; [assumption|discriminate]]
        | exists (-1,-1); split; [cbn; tauto|split; [assumption|discriminate]]
        | exists (-1,0); split; [cbn; tauto|split; [assumption|discriminate]]
        | exists (-1,1); split; [cbn; tauto|split; [assumption|discriminate]] ].
Qed.

Section Step.
Variables (X : img) (p : px).
Hypothesis Xp : X p = true.
Hypothesis Last : forall q, X q = true -> ~ ltr p q.
Hypothesis HF : hole_free' X.
Let Y := remove X p.
Let g := getX X p.
Hypothesis IH : forall x q, Y x = true -> (exists y, adj8 x y /\ Y y = true) ->
  exists e, Y e = true /\ endp Y e = true /\ e <> q /\ conn8 Y x e.

Definition Good (x q e : px) : Prop := X e = true /\ endp X e = true /\ e <> q /\ conn8 X x e.

Lemma Ysub e : Y e = true -> X e = true /\ e <> p.
Proof. intros V. apply (remove_fg X p e). exact V. Qed.
Lemma Yin e : X e = true -> e <> p -> Y e = true.
Proof. intros V N. apply (remove_fg X p e). split; assumption. Qed.
Lemma monoY a b : conn8 Y a b -> conn8 X a b.
Proof. apply path_mono. intros q Hq. apply Ysub in Hq. tauto. Qed.
Lemma IH' x q : Y x = true -> lonelyP Y x = false ->
  exists e, Y e = true /\ endp Y e = true /\ e <> q /\ conn8 Y x e.
Proof. intros V L. apply IH; [exact V|apply lonely_yes; exact L]. Qed.

Lemma gon_cell u : gon g u = X (cell p u). Proof. reflexivity. Qed.
Lemma endX_cell u : endp X (cell p u) = endg g u.
Proof. unfold endp, endg. rewrite pat_cell. reflexivity. Qed.
Lemma endY_cell u : endp Y (cell p u) = endg (gY g) u.
Proof. unfold endp, endg, Y. rewrite pat_cell_remove. reflexivity. Qed.
Lemma lonely_cell u : lonelyP Y (cell p u) = lonely g u.
Proof. unfold lonelyP, lonely, Y. rewrite pat_cell_remove. reflexivity. Qed.
Lemma endX_p : endp X p = endg g (0, 0).
Proof. unfold endp, endg. rewrite pat_center. reflexivity. Qed.

Lemma nbr_adj u : In u nbrs4 -> adj8 (cell p u) p /\ cell p u <> p.
Proof.
  intros Hu. assert (N : cell p u <> p).
  { intros E. apply cell_eq_p in E. subst. cbn in Hu. intuition discriminate. }
  split; [|exact N]. split; [exact N|]. destruct p as [r c]. unfold cell. cbn [fst snd].
  cbn in Hu. destruct Hu as [<-|[<-|[<-|[<-|[]]]]]; cbn [fst snd]; lia.
Qed.
Lemma stepP u : In u nbrs4 -> X (cell p u) = true -> conn8 X (cell p u) p /\ conn8 X p (cell p u).
Proof.
  intros Hu V. destruct (nbr_adj u Hu) as [A _]. split.
  - eapply path_step; [exact V|exact A|apply path_refl; exact Xp].
  - eapply path_step; [exact Xp|apply adj8_sym; exact A|apply path_refl; exact V].
Qed.

Lemma LOK : local_ok g = true.
Proof. apply local_ok_image; assumption. Qed.

Lemma K1 u : In u nbrs4 -> gon g u = true -> lonely g u = true -> endg g u = true.
Proof.
  intros Hu On Lo. pose proof LOK as K. unfold local_ok in K. apply andb_true_iff in K as [K _]. apply andb_true_iff in K as [K _].
  rewrite forallb_forall in K. specialize (K u). rewrite Lo in K. apply K. apply filter_In. split; assumption.
Qed.
Lemma K2 : sepg g = true -> forall u, In u (losers g) -> u = leftg g \/ u = (-1, 1).
Proof.
  intros S u Hu. pose proof LOK as K. unfold local_ok in K. apply andb_true_iff in K as [K _]. apply andb_true_iff in K as [_ K].
  rewrite S in K. rewrite forallb_forall in K. specialize (K u Hu). apply orb_true_iff in K as [K|K];
    unfold zz_eqb in K; apply andb_true_iff in K as [K1' K2']; apply Z.eqb_eq in K1', K2'; [left|right];
    destruct u, (leftg g); cbn [fst snd] in *; f_equal; assumption.
Qed.
Lemma K3 : sepg g = false -> (length (losers g) <= 1)%nat /\ (losers g <> [] -> endg g (0, 0) = true).
Proof.
  intros S. pose proof LOK as K. unfold local_ok in K. apply andb_true_iff in K as [K _]. apply andb_true_iff in K as [_ K].
  rewrite S in K. apply andb_true_iff in K as [Ka Kb]. apply Nat.leb_le in Ka. split; [exact Ka|].
  intros N. destruct (losers g); [contradiction|]. cbn in Kb. exact Kb.
Qed.
Lemma K4 : endg g (0, 0) = false -> forall u, In u nbrs4 -> gon g u = true ->
  exists u2, In u2 nbrs4 /\ gon g u2 = true /\ u2 <> u.
Proof.
  intros E u Hu On. pose proof LOK as K. unfold local_ok in K. apply andb_true_iff in K as [_ K].
  rewrite E in K. cbn [negb andb] in K.
  assert (NZ : Nat.eqb (length (filter (gon g) nbrs4)) 0 = false).
  { apply Nat.eqb_neq. intros Z0. assert (I : In u (filter (gon g) nbrs4)) by (apply filter_In; split; assumption).
    destruct (filter (gon g) nbrs4); [destruct I|discriminate]. }
  rewrite NZ in K. cbn [negb implb] in K. apply Nat.leb_le in K. apply two_on; assumption.
Qed.

Lemma KEEP e : Y e = true -> endp Y e = true -> (forall u, In u (losers g) -> e <> cell p u) -> endp X e = true.
Proof.
  intros V EY NL. destruct (Ysub e V) as [Xe Ne].
  destruct (existsb (fun u => px_eqb e (cell p u)) nbrs4) eqn:Ex.
  - apply existsb_exists in Ex as [u [Hu Eu]]. destruct (px_eqb_spec e (cell p u)) as [->|]; [|discriminate].
    destruct (loses g u) eqn:Lo.
    + exfalso. apply (NL u); [apply filter_In; split; assumption|reflexivity].
    + unfold loses in Lo. rewrite gon_cell, Xe, <- endY_cell, EY in Lo. cbn [andb] in Lo.
      apply negb_false_iff in Lo. rewrite endX_cell. exact Lo.
  - assert (NA : ~ adj8 e p).
    { intros A. destruct (adj_last X p e Last Xe Ne A) as [u [Hu ->]].
      assert (existsb (fun u0 => px_eqb (cell p u) (cell p u0)) nbrs4 = true); [|congruence].
      apply existsb_exists. exists u. split; [exact Hu|]. destruct (px_eqb_spec (cell p u) (cell p u)); congruence. }
    unfold endp in *. unfold Y in EY. rewrite pat_remove_far in EY by assumption. exact EY.
Qed.

Lemma cellN : cell p (-1, 0) = pN p. Proof. unfold cell, pN. cbn [fst snd]. f_equal; lia. Qed.
Lemma cellNE : cell p (-1, 1) = pNE p. Proof. unfold cell, pNE. cbn [fst snd]. f_equal; lia. Qed.
Lemma cellW : cell p (0, -1) = pW p. Proof. unfold cell, pW. cbn [fst snd]. f_equal; lia. Qed.
Lemma cellNW : cell p (-1, -1) = pNW p. Proof. unfold cell, pNW. cbn [fst snd]. f_equal; lia. Qed.

Lemma SEP : sepg g = true -> forall u, (u = (0, -1) \/ u = (-1, -1)) -> gon g u = true ->
  ~ conn8 Y (cell p u) (cell p (-1, 1)).
Proof.
  intros S u Hu On C. unfold sepg in S. apply andb_true_iff in S as [S _]. apply andb_true_iff in S as [S1 S2].
  apply negb_true_iff in S1. change (g (-1) 0) with (X (cell p (-1, 0))) in S1. change (g (-1) 1) with (X (cell p (-1, 1))) in S2.
  rewrite cellN in S1. rewrite cellNE in S2, C.
  apply (sep_not_connected X p (cell p u) Xp Last S1 S2).
  - destruct Hu as [-> | ->]; [left; apply cellW|right; apply cellNW].
  - exact On.
  - apply HF; [exact S1|]. unfold bg. destruct (X (pS p)) eqn:V; [|reflexivity]. exfalso. apply (Last _ V).
    unfold ltr, pS. cbn [fst snd]. lia.
  - eapply path_mono; [|exact C]. intros q Hq. apply Ysub in Hq. unfold fg. exact Hq.
Qed.

Lemma conn8_trans' a b c : conn8 X a b -> conn8 X b c -> conn8 X a c.
Proof. apply path_trans. Qed.

(* x' lies in the image without p and has a neighbour there *)
Lemma G1 x' q : Y x' = true -> lonelyP Y x' = false -> exists e, Good x' q e.
Proof.
  intros Vx Lx. destruct (sepg g) eqn:S.
  - (* separated *)
    set (la := cell p (leftg g)). set (b := cell p (-1, 1)).
    assert (Sb : gon g (-1, 1) = true /\ gon g (leftg g) = true /\ (leftg g = (0, -1) \/ leftg g = (-1, -1))).
    { unfold sepg in S. apply andb_true_iff in S as [S S3]. apply andb_true_iff in S as [_ S2].
      split; [exact S2|]. unfold leftg, gon. destruct (g 0 (-1)) eqn:W0; cbn [fst snd]; [rewrite W0; auto|].
      cbn [orb] in S3. rewrite S3. auto. }
    destruct Sb as [Ob [Ola Hla]].
    assert (Ila : In (leftg g) nbrs4) by (destruct Hla as [-> | ->]; cbn; tauto).
    assert (Ib : In (-1, 1) nbrs4) by (cbn; tauto).
    assert (Xb : X b = true) by exact Ob. assert (Xla : X la = true) by exact Ola.
    assert (Yb : Y b = true) by (apply Yin; [exact Xb|apply nbr_adj; exact Ib]).
    assert (Yla : Y la = true) by (apply Yin; [exact Xla|apply nbr_adj; exact Ila]).
    assert (NC : ~ conn8 Y la b) by (apply SEP; assumption).
    assert (KEEP' : forall e, Y e = true -> endp Y e = true -> e <> la -> e <> b -> endp X e = true).
    { intros e V EY N1 N2. apply KEEP; [exact V|exact EY|]. intros u Hu. destruct (K2 S u Hu) as [-> | ->]; assumption. }
    assert (Pla : conn8 X la p /\ conn8 X p la) by (apply stepP; assumption).
    assert (Pb : conn8 X b p /\ conn8 X p b) by (apply stepP; assumption).
    destruct (IH' x' q Vx Lx) as [e1 [V1 [E1 [N1 C1]]]].
    destruct (px_eqb_spec e1 la) as [Ela|Nla]; [|destruct (px_eqb_spec e1 b) as [Eb|Nb]].
    + (* e1 = la : x' is on the left side *)
      subst e1.
      assert (Other : forall e', conn8 Y x' e' -> e' <> b).
      { intros e' C' ->. apply NC. eapply path_trans; [apply conn8_sym; exact C1|exact C']. }
      destruct (lonelyP Y b) eqn:Lb.
      * assert (Eb : endp X b = true) by (unfold b; rewrite endX_cell; apply K1; [exact Ib|exact Ob|rewrite <- lonely_cell; exact Lb]).
        assert (Cb : conn8 X x' b).
        { eapply path_trans; [apply monoY; exact C1|]. eapply path_trans; [apply Pla|apply Pb]. }
        destruct (px_eqb_spec b q) as [Eq|Nq]; [|exists b; repeat split; assumption].
        destruct (IH' x' la Vx Lx) as [e' [V' [E' [N' C']]]]. exists e'. repeat split.
        -- apply Ysub in V'. tauto.
        -- apply KEEP'; [exact V'|exact E'|exact N'|apply Other; exact C'].
        -- rewrite <- Eq. apply Other. exact C'.
        -- apply monoY. exact C'.
      * destruct (IH' b b Yb Lb) as [e2 [V2 [E2 [N2 C2]]]].
        assert (N2la : e2 <> la) by (intros ->; apply NC; apply conn8_sym; exact C2).
        assert (Ce2 : conn8 X x' e2).
        { eapply path_trans; [apply monoY; exact C1|]. eapply path_trans; [apply Pla|]. eapply path_trans; [apply Pb|apply monoY; exact C2]. }
        destruct (px_eqb_spec e2 q) as [Eq|Nq].
        -- destruct (IH' x' la Vx Lx) as [e' [V' [E' [N' C']]]]. exists e'. repeat split.
           ++ apply Ysub in V'. tauto.
           ++ apply KEEP'; [exact V'|exact E'|exact N'|apply Other; exact C'].
           ++ intros ->. subst q. apply NC. eapply path_trans; [apply conn8_sym; exact C1|].
              eapply path_trans; [exact C'|apply conn8_sym; exact C2].
           ++ apply monoY. exact C'.
        -- exists e2. repeat split; [apply Ysub in V2; tauto|apply KEEP'; assumption|exact Nq|exact Ce2].
    + (* e1 = b : x' is on the right side *)
      subst e1.
      assert (Other : forall e', conn8 Y x' e' -> e' <> la).
      { intros e' C' ->. apply NC. eapply path_trans; [apply conn8_sym; exact C'|exact C1]. }
      destruct (lonelyP Y la) eqn:Lla.
      * assert (Ela : endp X la = true) by (unfold la; rewrite endX_cell; apply K1; [exact Ila|exact Ola|rewrite <- lonely_cell; exact Lla]).
        assert (Cla : conn8 X x' la).
        { eapply path_trans; [apply monoY; exact C1|]. eapply path_trans; [apply Pb|apply Pla]. }
        destruct (px_eqb_spec la q) as [Eq|Nq]; [|exists la; repeat split; assumption].
        destruct (IH' x' b Vx Lx) as [e' [V' [E' [N' C']]]]. exists e'. repeat split.
        -- apply Ysub in V'. tauto.
        -- apply KEEP'; [exact V'|exact E'|apply Other; exact C'|exact N'].
        -- rewrite <- Eq. apply Other. exact C'.
        -- apply monoY. exact C'.
      * destruct (IH' la la Yla Lla) as [e2 [V2 [E2 [N2 C2]]]].
        assert (N2b : e2 <> b) by (intros ->; apply NC; exact C2).
        assert (Ce2 : conn8 X x' e2).
        { eapply path_trans; [apply monoY; exact C1|]. eapply path_trans; [apply Pb|]. eapply path_trans; [apply Pla|apply monoY; exact C2]. }
        destruct (px_eqb_spec e2 q) as [Eq|Nq].
        -- destruct (IH' x' b Vx Lx) as [e' [V' [E' [N' C']]]]. exists e'. repeat split.
           ++ apply Ysub in V'. tauto.
           ++ apply KEEP'; [exact V'|exact E'|apply Other; exact C'|exact N'].
           ++ intros ->. subst q. apply NC. eapply path_trans; [exact C2|].
              eapply path_trans; [apply conn8_sym; exact C'|exact C1].
           ++ apply monoY. exact C'.
        -- exists e2. repeat split; [apply Ysub in V2; tauto|apply KEEP'; assumption|exact Nq|exact Ce2].
    + exists e1. repeat split; [apply Ysub in V1; tauto|apply KEEP'; assumption|exact N1|apply monoY; exact C1].
  - (* not separated *)
    destruct (K3 S) as [Len EndP].
    destruct (losers g) as [|l0 rest] eqn:Ls.
    + destruct (IH' x' q Vx Lx) as [e [V [E [N C]]]]. exists e. repeat split; [apply Ysub in V; tauto| |exact N|apply monoY; exact C].
      apply KEEP; [exact V|exact E|]. rewrite Ls. intros u [].
    + destruct rest; [|cbn in Len; lia].
      assert (Il : In l0 (losers g)) by (rewrite Ls; left; reflexivity).
      unfold losers in Il. apply filter_In in Il as [Il0 Lo0].
      assert (On0 : gon g l0 = true) by (unfold loses in Lo0; apply andb_true_iff in Lo0 as [Lo0 _]; apply andb_true_iff in Lo0 as [Lo0 _]; exact Lo0).
      set (l := cell p l0).
      assert (EP : endp X p = true) by (rewrite endX_p; apply EndP; discriminate).
      destruct (IH' x' l Vx Lx) as [e1 [V1 [E1 [N1 C1]]]].
      assert (EX1 : endp X e1 = true).
      { apply KEEP; [exact V1|exact E1|]. rewrite Ls. intros u [<-|[]]. exact N1. }
      destruct (px_eqb_spec e1 q) as [Eq|Nq]; [|exists e1; repeat split; [apply Ysub in V1; tauto|exact EX1|exact Nq|apply monoY; exact C1]].
      destruct (IH' x' q Vx Lx) as [e2 [V2 [E2 [N2 C2]]]].
      destruct (px_eqb_spec e2 l) as [El|Nl].
      * exists p. repeat split; [exact Xp|exact EP| |].
        -- intros <-. apply Ysub in V1. destruct V1 as [_ V1]. apply V1. exact Eq.
        -- eapply path_trans; [apply monoY; exact C2|]. rewrite El. apply stepP; [exact Il0|exact On0].
      * exists e2. repeat split; [apply Ysub in V2; tauto| |exact N2|apply monoY; exact C2].
        apply KEEP; [exact V2|exact E2|]. rewrite Ls. intros u [<-|[]]. exact Nl.
Qed.

(* through a neighbour u of p *)
Lemma viaN q u : In u nbrs4 -> gon g u = true -> (lonelyP Y (cell p u) = false \/ cell p u <> q) ->
  exists e, Good p q e.
Proof.
  intros Hu On H. destruct (stepP u Hu On) as [_ Pu]. destruct (nbr_adj u Hu) as [_ Np].
  destruct (lonelyP Y (cell p u)) eqn:L.
  - destruct H as [H|H]; [discriminate|]. exists (cell p u). repeat split; [exact On| |exact H|exact Pu].
    rewrite endX_cell. apply K1; [exact Hu|exact On|rewrite <- lonely_cell; exact L].
  - destruct (G1 (cell p u) q (Yin _ On Np) L) as [e [V [E [N C]]]]. exists e. repeat split; try assumption.
    eapply path_trans; [exact Pu|exact C].
Qed.

Lemma G2 q : (exists u, In u nbrs4 /\ gon g u = true) -> exists e, Good p q e.
Proof.
  intros [u [Hu On]].
  destruct (lonelyP Y (cell p u)) eqn:L; [|apply (viaN q u Hu On); left; exact L].
  destruct (px_eqb_spec (cell p u) q) as [Eq|Nq]; [|apply (viaN q u Hu On); right; exact Nq].
  destruct (nbr_adj u Hu) as [_ Np].
  destruct (endg g (0, 0)) eqn:EP.
  - exists p. repeat split; [exact Xp|rewrite endX_p; exact EP|rewrite <- Eq; intros E; apply Np; symmetry; exact E|apply path_refl; exact Xp].
  - destruct (K4 EP u Hu On) as [u2 [Hu2 [On2 N2]]]. apply (viaN q u2 Hu2 On2).
    right. rewrite <- Eq. intros E. apply N2. apply (cell_inj p). exact E.
Qed.

Theorem step : forall x q, X x = true -> (exists y, adj8 x y /\ X y = true) -> exists e, Good x q e.
Proof.
  intros x q Vx [y [A Vy]]. destruct (px_eqb_spec x p) as [->|Nx].
  - apply G2. assert (Ny : y <> p) by (destruct A as [A _]; congruence).
    destruct (adj_last X p y Last Vy Ny (adj8_sym _ _ A)) as [u [Hu ->]]. exists u. split; [exact Hu|exact Vy].
  - destruct (lonelyP Y x) eqn:L; [|apply G1; [apply Yin; assumption|exact L]].
    assert (Ey : y = p).
    { destruct (px_eqb_spec y p) as [E|N]; [exact E|]. exfalso.
      pose proof (lonely_no Y x L y A) as F. rewrite (Yin y Vy N) in F. discriminate. }
    subst y. destruct (adj_last X p x Last Vx Nx A) as [u [Hu ->]].
    assert (EX : endp X (cell p u) = true).
    { rewrite endX_cell. apply K1; [exact Hu|exact Vx|rewrite <- lonely_cell; exact L]. }
    destruct (px_eqb_spec (cell p u) q) as [Eq|Nq].
    + destruct (G2 q) as [e [V [E [N C]]]]; [exists u; split; assumption|]. exists e. repeat split; try assumption.
      eapply path_trans; [apply (stepP u Hu Vx)|exact C].
    + exists (cell p u). repeat split; [exact Vx|exact EX|exact Nq|apply path_refl; exact Vx].
Qed.
End Step.

(* ---- the last pixel in raster order of a finite non-empty image ---- *)
Lemma ltr_dec a b : {ltr a b} + {~ ltr a b}.
Proof.
  unfold ltr. destruct (Z_lt_dec (fst a) (fst b)); [left; lia|].
  destruct (Z.eq_dec (fst a) (fst b)); [|right; lia]. destruct (Z_lt_dec (snd a) (snd b)); [left; lia|right; lia].
Qed.

Lemma last_exists (X : img) : forall L, (exists x, In x L /\ X x = true) ->
  exists p, In p L /\ X p = true /\ forall q, In q L -> X q = true -> ~ ltr p q.
Proof.
  induction L as [|a L IH]; intros [x [Hx Vx]]; [destruct Hx|].
  destruct (existsb X L) eqn:Ex.
  - apply existsb_exists in Ex as [x' [Hx' Vx']]. destruct (IH (ex_intro _ x' (conj Hx' Vx'))) as [p' [Hp' [Vp' Mp']]].
    destruct (X a) eqn:Va.
    + destruct (ltr_dec p' a) as [Lt|NLt].
      * exists a. split; [left; reflexivity|]. split; [exact Va|]. intros q [<-|Hq] Vq; [apply ltr_irrefl|].
        intros Laq. apply (Mp' q Hq Vq). eapply ltr_trans; eassumption.
      * exists p'. split; [right; exact Hp'|]. split; [exact Vp'|]. intros q [<-|Hq] Vq; [exact NLt|apply Mp'; assumption].
    + exists p'. split; [right; exact Hp'|]. split; [exact Vp'|]. intros q [<-|Hq] Vq; [congruence|apply Mp'; assumption].
  - assert (Ea : x = a).
    { destruct Hx as [E|Hx]; [symmetry; exact E|]. exfalso.
      assert (existsb X L = true) by (apply existsb_exists; exists x; split; assumption). congruence. }
    subst x. exists a. split; [left; reflexivity|]. split; [exact Vx|]. intros q [<-|Hq] Vq; [apply ltr_irrefl|].
    exfalso. assert (existsb X L = true) by (apply existsb_exists; exists q; split; assumption). congruence.
Qed.

Lemma filter_shorter (f : px -> bool) L p : In p L -> f p = false -> (length (filter f L) < length L)%nat.
Proof.
  induction L as [|a L IH]; intros Hp Fp; [destruct Hp|]. cbn [filter length].
  destruct Hp as [->|Hp].
  - rewrite Fp. pose proof (filter_len_le' f L). lia.
  - specialize (IH Hp Fp). destruct (f a); cbn [length]; lia.
Qed.

Lemma hole_free_remove_last (X : img) p : X p = true -> (forall q, X q = true -> ~ ltr p q) ->
  hole_free' X -> hole_free' (remove X p).
Proof.
  intros Xp Last HF.
  assert (BS : bg X (pS p)).
  { unfold bg. destruct (X (pS p)) eqn:V; [|reflexivity]. exfalso. apply (Last _ V). unfold ltr, pS. cbn [fst snd]. lia. }
  assert (Lift : forall a b, conn4 X a b -> conn4 (remove X p) a b).
  { intros a b. apply path_mono. intros q Hq. apply remove_bg. left. exact Hq. }
  assert (To : forall a, bg (remove X p) a -> exists a', bg X a' /\ conn4 (remove X p) a a' /\ conn4 (remove X p) a' a).
  { intros a Ha. apply remove_bg in Ha as [Ha| ->].
    - exists a. split; [exact Ha|]. split; apply path_refl; apply remove_bg; left; exact Ha.
    - exists (pS p). split; [exact BS|].
      assert (A : adj4 p (pS p)) by (unfold adj4, pS; cbn [fst snd]; lia).
      split.
      + eapply path_step; [apply remove_bg; right; reflexivity|exact A|apply path_refl; apply remove_bg; left; exact BS].
      + eapply path_step; [apply remove_bg; left; exact BS|apply adj4_sym; exact A|apply path_refl; apply remove_bg; right; reflexivity]. }
  intros a b Ha Hb. destruct (To a Ha) as [a' [Ba [Pa _]]]. destruct (To b Hb) as [b' [Bb [_ Pb]]].
  eapply path_trans; [exact Pa|]. eapply path_trans; [exact (Lift a' b' (HF a' b' Ba Bb))|exact Pb].
Qed.

Theorem end_pixel_fin : forall n (X : img) L, (length L <= n)%nat -> (forall q, X q = true -> In q L) ->
  hole_free' X -> forall x q, X x = true -> (exists y, adj8 x y /\ X y = true) ->
  exists e, X e = true /\ endp X e = true /\ e <> q /\ conn8 X x e.
Proof.
  induction n as [|n IHn]; intros X L Len Fin HF x q Vx Nb.
  - destruct L; [destruct (Fin x Vx)|cbn in Len; lia].
  - destruct (last_exists X L) as [p [Hp [Vp Mp]]]; [exists x; split; [apply Fin; exact Vx|exact Vx]|].
    assert (Last : forall q0, X q0 = true -> ~ ltr p q0) by (intros q0 V0; apply Mp; [apply Fin; exact V0|exact V0]).
    apply (step X p Vp Last HF); [|exact Vx|exact Nb].
    apply (IHn (remove X p) (filter (fun q0 => negb (px_eqb q0 p)) L)).
    + assert (length (filter (fun q0 => negb (px_eqb q0 p)) L) < length L)%nat; [|lia].
      apply (filter_shorter _ L p Hp). destruct (px_eqb_spec p p); [reflexivity|congruence].
    + intros q0 V0. apply (remove_fg X p q0) in V0 as [V0 N0]. apply filter_In. split; [apply Fin; exact V0|].
      destruct (px_eqb_spec q0 p); [contradiction|reflexivity].
    + apply hole_free_remove_last; assumption.
Qed.
