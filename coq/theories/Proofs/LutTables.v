(* C06 — every regenerated built-in table equals the table of its documented predicate, on all
   512 patterns (finite, by computation in the kernel), and the constants of every wrapper's
   table_lookup call are the documented ones. *)
From Coq Require Import ZArith List Bool Lia.
From Centro Require Import Base.Sx Base.LutBits Spec.LutRule Spec.LutDocs Gen.TablesC06.
Import ListNotations.

Lemma bits_of_enc (bits : list bool) : length bits = 9%nat -> bits_of (Z.to_nat (enc bits)) = bits.
Proof.
  intros L9.
  do 10 (destruct bits as [|? bits]; try discriminate L9).
  repeat match goal with b : bool |- _ => destruct b end; vm_compute; reflexivity.
Qed.

Lemma enc_range (bits : list bool) : length bits = 9%nat -> (0 <= enc bits < 512)%Z.
Proof.
  intros L9.
  do 10 (destruct bits as [|? bits]; try discriminate L9).
  repeat match goal with b : bool |- _ => destruct b end; vm_compute; split; congruence.
Qed.

(* reading the table of a predicate at the index of nine bits gives the predicate on those bits *)
Lemma doc_table_spec (P : list bool -> bool) (bits : list bool) :
  length bits = 9%nat -> tbl (doc_table P) (enc bits) = P bits.
Proof.
  intros L9. unfold tbl, doc_table.
  pose proof (enc_range bits L9) as R.
  rewrite (nth_seq_map (fun k => P (bits_of k))) by lia.
  rewrite bits_of_enc by exact L9. reflexivity.
Qed.

Ltac table_eq := vm_compute; reflexivity.
Lemma table_branchpoints : t_branchpoints = doc_table doc_branchpoints. Proof. table_eq. Qed.
Lemma table_bridge : t_bridge = doc_table doc_bridge. Proof. table_eq. Qed.
Lemma table_clean : t_clean = doc_table doc_clean. Proof. table_eq. Qed.
Lemma table_diag : t_diag = doc_table doc_diag. Proof. table_eq. Qed.
Lemma table_endpoints : t_endpoints = doc_table doc_endpoints. Proof. table_eq. Qed.
Lemma table_fill : t_fill = doc_table doc_fill. Proof. table_eq. Qed.
Lemma table_fill4 : t_fill4 = doc_table doc_fill4. Proof. table_eq. Qed.
Lemma table_hbreak : t_hbreak = doc_table doc_hbreak. Proof. table_eq. Qed.
Lemma table_vbreak : t_vbreak = doc_table doc_vbreak. Proof. table_eq. Qed.
Lemma table_life : t_life = doc_table doc_life. Proof. table_eq. Qed.
Lemma table_majority : t_majority = doc_table doc_majority. Proof. table_eq. Qed.
Lemma table_remove : t_remove = doc_table doc_remove. Proof. table_eq. Qed.
Lemma table_thicken : t_thicken = doc_table doc_thicken. Proof. table_eq. Qed.
Lemma table_spur1 : t_spur1 = doc_table doc_spur1. Proof. table_eq. Qed.
Lemma table_spur2 : t_spur2 = doc_table doc_spur2. Proof. table_eq. Qed.

(* the statement in forall-form: for every neighbourhood the table entry is the documented value *)
Definition matches (T : list bool) (P : list bool -> bool) : Prop :=
  forall bits, length bits = 9%nat -> tbl T (enc bits) = P bits.

Lemma matches_of_eq T P : T = doc_table P -> matches T P.
Proof. intros -> bits L9. apply doc_table_spec, L9. Qed.

Theorem builtin_tables_match_docs :
  matches t_branchpoints doc_branchpoints /\ matches t_bridge doc_bridge /\ matches t_clean doc_clean /\
  matches t_diag doc_diag /\ matches t_endpoints doc_endpoints /\ matches t_fill doc_fill /\
  matches t_fill4 doc_fill4 /\ matches t_hbreak doc_hbreak /\ matches t_vbreak doc_vbreak /\
  matches t_life doc_life /\ matches t_majority doc_majority /\ matches t_remove doc_remove /\
  matches t_thicken doc_thicken /\ matches t_spur1 doc_spur1 /\ matches t_spur2 doc_spur2.
Proof.
  repeat split; apply matches_of_eq;
    first [ exact table_branchpoints | exact table_bridge | exact table_clean | exact table_diag
          | exact table_endpoints | exact table_fill | exact table_fill4 | exact table_hbreak
          | exact table_vbreak | exact table_life | exact table_majority | exact table_remove
          | exact table_thicken | exact table_spur1 | exact table_spur2 ].
Qed.

(* the wrappers call table_lookup with the documented table, border value, mask fill value and
   iteration argument *)
Theorem wrapper_constants_match_docs :
  gen_ops = map (fun d => (doc_table (fst d), meta_code (snd d))) doc_ops.
Proof. vm_compute. reflexivity. Qed.
