(* C07 — geometry of the octagon and of the five sliding pieces of _filter.pyx.
   geom_octagon; the column-step identity oct(c) = oct(c-1) + lead(c) - trail(c); the row-step
   identities of the five per-column pieces in terms of the ten stride coordinates of the model;
   the circular indices follow the pieces. *)
From Coq Require Import ZArith List Bool Lia ZifyBool.
From Centro Require Import Base.Sx Gen.MedianConstC07 Model.Median Spec.MedianSpec.
Import ListNotations.
Open Scope Z_scope.
Ltac Zify.zify_post_hook ::= Z.to_euclidean_division_equations.

(* ------------------------------------------------------------------ geom(radius) *)

(* The constants regenerated from _filter.cpp are those of the regular octagon, side = 2r/(1+sqrt 2)
   with 1+sqrt 2 ~ 2.414213.  Fails at once (and with it everything below) when the source changes. *)
Lemma gen_consts : gen_oct_num = 2000000 /\ gen_oct_den = 2414213.
Proof. split; reflexivity. Qed.

Theorem geom_octagon (radius : Z) : 1 <= radius ->
  let R := oct_R radius in let a2 := oct_a2 radius in
  1 <= a2 /\ a2 < R /\ radius <= R /\
  (2 <= radius -> R = radius) /\ (radius = 1 -> R = 2 /\ a2 = 1) /\
  (* a_2 is half the side a = floor(2 radius / 2.414213), at least 1 *)
  a2 = Z.max 1 ((radius * 2000000 / 2414213) / 2) /\
  (* the window is a proper octagon inside the (2R+1)-square, wider than the radius-a2 diamond *)
  (forall di dj, oct R a2 di dj <-> Z.abs dj <= R /\ Z.abs di <= Z.min R (R + a2 - Z.abs dj)).
Proof.
  intros Hr. cbv zeta. unfold oct_R, oct_a2, oct_a, oct_num, oct_den, gen_oct_num, gen_oct_den, oct.
  destruct (radius * 2000000 / 2414213 / 2 =? 0) eqn:E0;
    destruct (radius <=? 1) eqn:E1;
    try destruct (radius <=? radius * 2000000 / 2414213 / 2) eqn:E2;
    repeat split; intros; try lia.
Qed.

Example geom_octagon_ex : oct_R 1 = 2 /\ oct_a2 1 = 1 /\ oct_R 5 = 5 /\ oct_a2 5 = 2 /\ oct_R 30 = 30 /\ oct_a2 30 = 12.
Proof. vm_compute. repeat split; reflexivity. Qed.

(* ------------------------------------------------------------------ the pieces, as sets of
   offsets (dx, dy) = (column, row) offset from the current position (current_column, current_row) *)

Definition in_TR (R a2 dx dy : Z) : Prop := a2 <= dx < R /\ dy = dx - a2 - R.
Definition in_ED (R a2 dx dy : Z) : Prop := dx = R /\ - a2 <= dy <= a2.
Definition in_BR (R a2 dx dy : Z) : Prop := a2 <= dx < R /\ dy = R + a2 - dx.
Definition in_TL (R a2 dx dy : Z) : Prop := - R <= dx <= - a2 - 1 /\ dy = - R - a2 - 1 - dx.
Definition in_TE (R a2 dx dy : Z) : Prop := dx = - R - 1 /\ - a2 <= dy <= a2.      (* trailing edge *)
Definition in_BL (R a2 dx dy : Z) : Prop := - R <= dx <= - a2 - 1 /\ dy = dx + R + a2 + 1.

(* what accumulate adds / subtracts at a column step *)
Definition leading (R a2 dx dy : Z) : Prop := in_TR R a2 dx dy \/ in_ED R a2 dx dy \/ in_BR R a2 dx dy.
Definition trailing (R a2 dx dy : Z) : Prop := in_TL R a2 dx dy \/ in_TE R a2 dx dy \/ in_BL R a2 dx dy.

(* oct(c) = oct(c-1) ∪ lead(c) ∖ trail(c): a point at offset (dx, dy) from the new centre is at
   offset (dx+1, dy) from the previous one.  Together with [lead_fresh] and [trail_inside] this is
   the multiset identity  hist oct(c) = hist oct(c-1) + hist lead(c) - hist trail(c). *)
Theorem oct_slide (R a2 dx dy : Z) : 1 <= a2 -> a2 < R ->
  (oct R a2 dy dx <-> (oct R a2 dy (dx + 1) /\ ~ trailing R a2 dx dy) \/ leading R a2 dx dy).
Proof.
  intros H1 H2. unfold oct, leading, trailing, in_TR, in_ED, in_BR, in_TL, in_TE, in_BL. lia.
Qed.

Theorem lead_fresh (R a2 dx dy : Z) : 1 <= a2 -> a2 < R ->
  leading R a2 dx dy -> oct R a2 dy dx /\ ~ oct R a2 dy (dx + 1).
Proof.
  intros H1 H2. unfold oct, leading, in_TR, in_ED, in_BR. lia.
Qed.

Theorem trail_inside (R a2 dx dy : Z) : 1 <= a2 -> a2 < R ->
  trailing R a2 dx dy -> oct R a2 dy (dx + 1) /\ ~ oct R a2 dy dx.
Proof.
  intros H1 H2. unfold oct, trailing, in_TL, in_TE, in_BL. lia.
Qed.

(* The three leading pieces are pairwise disjoint, and so are the trailing ones: no pixel is
   counted twice in a step. *)
Theorem pieces_disjoint (R a2 dx dy : Z) : 1 <= a2 -> a2 < R ->
  ~ (in_TR R a2 dx dy /\ in_ED R a2 dx dy) /\ ~ (in_TR R a2 dx dy /\ in_BR R a2 dx dy) /\
  ~ (in_ED R a2 dx dy /\ in_BR R a2 dx dy) /\
  ~ (in_TL R a2 dx dy /\ in_TE R a2 dx dy) /\ ~ (in_TL R a2 dx dy /\ in_BL R a2 dx dy) /\
  ~ (in_TE R a2 dx dy /\ in_BL R a2 dx dy).
Proof.
  intros H1 H2. unfold in_TR, in_ED, in_BR, in_TL, in_TE, in_BL. lia.
Qed.

(* ------------------------------------------------------------------ row step of each piece:
   the piece at (row, c) is the piece found in the same circular-buffer slot one row earlier
   minus the (-) pixel plus the (+) pixel of update_current_location, with the model's SCoords.
   [x y] are absolute image coordinates. *)

Definition at_off (c row : Z) (sc : Z * Z) (x y : Z) : Prop := x = c + fst sc /\ y = row + snd sc.

Section RowStep.
  Variable e : env.
  Hypothesis Ha : 1 <= e_a2 e.
  Hypothesis HR : e_a2 e < e_R e.
  Let R := e_R e.
  Let a2 := e_a2 e.

  (* top-left and bottom-right travel with tl_br_colidx: slot of (row, c) = slot of (row-1, c+1) *)
  Theorem step_TL c row x y :
    in_TL R a2 (x - c) (y - row) <->
    (in_TL R a2 (x - (c + 1)) (y - (row - 1)) /\ ~ at_off c row (sc_last_tl e) x y) \/ at_off c row (sc_tl e) x y.
  Proof. unfold in_TL, at_off, sc_last_tl, sc_tl, R, a2. cbn [fst snd]. lia. Qed.
  Theorem step_BR c row x y :
    in_BR R a2 (x - c) (y - row) <->
    (in_BR R a2 (x - (c + 1)) (y - (row - 1)) /\ ~ at_off c row (sc_last_br e) x y) \/ at_off c row (sc_br e) x y.
  Proof. unfold in_BR, at_off, sc_last_br, sc_br, R, a2. cbn [fst snd]. lia. Qed.
  (* top-right and bottom-left travel with tr_bl_colidx: slot of (row, c) = slot of (row-1, c-1) *)
  Theorem step_TR c row x y :
    in_TR R a2 (x - c) (y - row) <->
    (in_TR R a2 (x - (c - 1)) (y - (row - 1)) /\ ~ at_off c row (sc_last_tr e) x y) \/ at_off c row (sc_tr e) x y.
  Proof. unfold in_TR, at_off, sc_last_tr, sc_tr, R, a2. cbn [fst snd]. lia. Qed.
  Theorem step_BL c row x y :
    in_BL R a2 (x - c) (y - row) <->
    (in_BL R a2 (x - (c - 1)) (y - (row - 1)) /\ ~ at_off c row (sc_last_bl e) x y) \/ at_off c row (sc_bl e) x y.
  Proof. unfold in_BL, at_off, sc_last_bl, sc_bl, R, a2. cbn [fst snd]. lia. Qed.
  (* the edge stays in its column *)
  Theorem step_ED c row x y :
    in_ED R a2 (x - c) (y - row) <->
    (in_ED R a2 (x - c) (y - (row - 1)) /\ ~ at_off c row (sc_last_le e) x y) \/ at_off c row (sc_le e) x y.
  Proof. unfold in_ED, at_off, sc_last_le, sc_le, R, a2. cbn [fst snd]. lia. Qed.

  (* the (-) pixel was in the piece, the (+) pixel was not: every count changes by exactly one *)
  Theorem step_exact c row x y :
    (at_off c row (sc_last_tl e) x y -> in_TL R a2 (x - (c + 1)) (y - (row - 1))) /\
    (at_off c row (sc_tl e) x y -> ~ in_TL R a2 (x - (c + 1)) (y - (row - 1))) /\
    (at_off c row (sc_last_br e) x y -> in_BR R a2 (x - (c + 1)) (y - (row - 1))) /\
    (at_off c row (sc_br e) x y -> ~ in_BR R a2 (x - (c + 1)) (y - (row - 1))) /\
    (at_off c row (sc_last_tr e) x y -> in_TR R a2 (x - (c - 1)) (y - (row - 1))) /\
    (at_off c row (sc_tr e) x y -> ~ in_TR R a2 (x - (c - 1)) (y - (row - 1))) /\
    (at_off c row (sc_last_bl e) x y -> in_BL R a2 (x - (c - 1)) (y - (row - 1))) /\
    (at_off c row (sc_bl e) x y -> ~ in_BL R a2 (x - (c - 1)) (y - (row - 1))) /\
    (at_off c row (sc_last_le e) x y -> in_ED R a2 (x - c) (y - (row - 1))) /\
    (at_off c row (sc_le e) x y -> ~ in_ED R a2 (x - c) (y - (row - 1))).
  Proof.
    unfold in_TL, in_BR, in_TR, in_BL, in_ED, at_off, sc_last_tl, sc_tl, sc_last_br, sc_br, sc_last_tr, sc_tr,
      sc_last_bl, sc_bl, sc_last_le, sc_le, R, a2. cbn [fst snd]. lia.
  Qed.

  (* the circular indices follow the pieces, and the trailing edge of column c is the edge
     that was the leading edge 2R+1 columns earlier *)
  Theorem index_follow c row :
    tl_br e row c = tl_br e (row - 1) (c + 1) /\ tr_bl e row c = tr_bl e (row - 1) (c - 1) /\
    trail_ix e c = lead_ix e (c - 2 * e_R e - 1).
  Proof. unfold tl_br, tr_bl, trail_ix, lead_ix. repeat split; f_equal; lia. Qed.

  (* the trailing edge piece: edge of column c - 2R - 1 seen from column c *)
  Theorem trailing_edge_is_old_edge c row x y :
    in_TE R a2 (x - c) (y - row) <-> in_ED R a2 (x - (c - 2 * R - 1)) (y - row).
  Proof. unfold in_TE, in_ED. lia. Qed.
End RowStep.

(* ------------------------------------------------------------------ the circular buffer is
   long enough in the Fixed variant: within a row no two sweep columns share a slot, and every
   index is inside the buffer; so a slot written at (row-1, c±1) still holds that piece at
   (row, c).  (In the AsIs variant the sweeps simply start one row / one column too late for
   radius 1.) *)

Lemma mod_inj (a b n : Z) : 0 < n -> a mod n = b mod n -> Z.abs (a - b) < n -> a = b.
Proof.
  intros Hn E Hab.
  pose proof (Z.div_mod a n ltac:(lia)) as Da. pose proof (Z.div_mod b n ltac:(lia)) as Db.
  set (qa := a / n) in *. set (qb := b / n) in *. set (ra := a mod n) in *. set (rb := b mod n) in *.
  clearbody qa qb ra rb. subst rb.
  destruct (Z.eq_dec qa qb) as [Q|Q]; [subst; reflexivity|]. exfalso.
  assert (H : a - b = n * (qa - qb)) by (subst a b; ring).
  destruct (Z.lt_trichotomy qa qb) as [L|[L|L]]; [|contradiction|]; nia.
Qed.

Theorem fixed_slots_distinct data mask radius percent row c c' : 1 <= radius ->
  let e := mk_env Fixed data mask radius percent in
  - e_sweep e <= c < e_cols e + e_sweep e -> - e_sweep e <= c' < e_cols e + e_sweep e ->
  (tl_br e row c = tl_br e row c' -> c = c') /\ (tr_bl e row c = tr_bl e row c' -> c = c') /\
  (lead_ix e c = lead_ix e c' -> c = c').
Proof.
  intros Hr e Hc Hc'. unfold tl_br, tr_bl, lead_ix.
  assert (HSL : e_SL e = e_cols e + 2 * e_sweep e + 1) by reflexivity.
  assert (Hcols : 0 <= e_cols e) by (unfold e, mk_env; cbn [e_cols]; lia).
  assert (Hsw : 1 <= e_sweep e).
  { unfold e, mk_env. cbn [e_sweep]. pose proof (geom_octagon radius Hr) as G. cbv zeta in G. lia. }
  repeat split; intros E; apply mod_inj in E; lia.
Qed.

Theorem index_in_buffer (v : variant) data mask radius percent row c : 1 <= radius ->
  let e := mk_env v data mask radius percent in
  0 <= tl_br e row c < e_SL e /\ 0 <= tr_bl e row c < e_SL e /\
  0 <= lead_ix e c < e_SL e /\ 0 <= trail_ix e c < e_SL e.
Proof.
  intros Hr e. unfold tl_br, tr_bl, lead_ix, trail_ix.
  assert (HSL : 0 < e_SL e).
  { unfold e, mk_env. cbn [e_SL]. pose proof (geom_octagon radius Hr) as G. cbv zeta in G. destruct v; lia. }
  repeat split; try apply Z.mod_pos_bound; try exact HSL; apply Z.mod_pos_bound; exact HSL.
Qed.

(* the five row-step identities in one statement *)
Theorem piece_row_steps (e : env) c row x y : 1 <= e_a2 e -> e_a2 e < e_R e ->
  let R := e_R e in let a2 := e_a2 e in
  (in_TL R a2 (x - c) (y - row) <->
   (in_TL R a2 (x - (c + 1)) (y - (row - 1)) /\ ~ at_off c row (sc_last_tl e) x y) \/ at_off c row (sc_tl e) x y) /\
  (in_BR R a2 (x - c) (y - row) <->
   (in_BR R a2 (x - (c + 1)) (y - (row - 1)) /\ ~ at_off c row (sc_last_br e) x y) \/ at_off c row (sc_br e) x y) /\
  (in_TR R a2 (x - c) (y - row) <->
   (in_TR R a2 (x - (c - 1)) (y - (row - 1)) /\ ~ at_off c row (sc_last_tr e) x y) \/ at_off c row (sc_tr e) x y) /\
  (in_BL R a2 (x - c) (y - row) <->
   (in_BL R a2 (x - (c - 1)) (y - (row - 1)) /\ ~ at_off c row (sc_last_bl e) x y) \/ at_off c row (sc_bl e) x y) /\
  (in_ED R a2 (x - c) (y - row) <->
   (in_ED R a2 (x - c) (y - (row - 1)) /\ ~ at_off c row (sc_last_le e) x y) \/ at_off c row (sc_le e) x y).
Proof.
  intros Ha HR. cbv zeta.
  split; [apply step_TL; assumption|]. split; [apply step_BR; assumption|].
  split; [apply step_TR; assumption|]. split; [apply step_BL; assumption|apply step_ED; assumption].
Qed.

Example piece_row_steps_ex : let e := mk_env Fixed [[1; 2]; [3; 4]] [[true; true]; [true; false]] 5 50 in
  1 <= e_a2 e /\ e_a2 e < e_R e /\ in_TR (e_R e) (e_a2 e) (3 - 0) (-4 - 0) /\ oct (e_R e) (e_a2 e) (-4) 3.
Proof. vm_compute. repeat split; congruence. Qed.
