(* C11 — range and band theorems about the REGENERATED get_threshold program.
   [run_global_eq] / [run_array_eq] identify, by computation, the interpreter's result on
   Gen.ThresholdC11.get_threshold_prog with the closed form of Spec.ThresholdSpec (they stop
   compiling when threshold.py's clamp logic, order or constants change); the order lemmas are
   pure reasoning in an ordered field, parametric in the product [mul] and in the band constants. *)
From Coq Require Import ZArith QArith List Bool Lqa Lia String.
From Centro Require Import Base.Sx Base.ThresholdNum Model.ThresholdLang Gen.ThresholdC11 Spec.ThresholdSpec.
Import ListNotations.
Open Scope Q_scope.

Lemma qmax_spec a b : a <= qmax a b /\ b <= qmax a b /\ (qmax a b = a \/ qmax a b = b).
Proof. unfold qmax. destruct (Qlt_le_dec a b) as [H|H]; repeat split; try lra; auto. Qed.
Lemma qmin_spec a b : qmin a b <= a /\ qmin a b <= b /\ (qmin a b = a \/ qmin a b = b).
Proof. unfold qmin. destruct (Qlt_le_dec b a) as [H|H]; repeat split; try lra; auto. Qed.
Lemma clamp_lo_spec r t : r <= clamp_lo r t /\ t <= clamp_lo r t /\ (clamp_lo r t = r \/ clamp_lo r t = t).
Proof. unfold clamp_lo. destruct (Qlt_le_dec t r) as [H|H]; repeat split; try lra; auto. Qed.
Lemma clamp_hi_spec r t : clamp_hi r t <= r /\ clamp_hi r t <= t /\ (clamp_hi r t = r \/ clamp_hi r t = t).
Proof. unfold clamp_hi. destruct (Qlt_le_dec r t) as [H|H]; repeat split; try lra; auto. Qed.

(* ------------------------------------------------------------------ generated program = closed form *)

Section Run.
  Variables mul amul : Q -> Q -> Q.
  Variable cast : Q -> Q.
  Notation run' := (run mul amul cast).

  Lemma run_global_eq cf raw_g raw_l lab0 lo hi :
    run' (mkIn MGlobal cf raw_g raw_l lab0) get_threshold_prog lo hi =
    Some (VNum (clamp_opt lo hi (ref_global mul raw_g cf lo hi)), VNum (ref_global mul raw_g cf lo hi)).
  Proof. destruct lo, hi; reflexivity. Qed.

  Lemma run_array_eq md cf raw_g raw_l lab0 lo hi :
    md <> MGlobal ->
    let inp := mkIn md cf raw_g raw_l lab0 in
    let g := ref_global mul raw_g cf (Some lo) (Some hi) in
    run' inp get_threshold_prog (Some lo) (Some hi) =
    Some (VArr (ref_local mul amul cast band_lo band_hi sentinel_value inp lo hi g), VNum g).
  Proof. intros Hmd. destruct md; [congruence| |]; destruct lab0; reflexivity. Qed.

  (* without both range limits the array modifiers raise (max(None, x) is a TypeError in Python 3) *)
  Lemma run_array_none md cf raw_g raw_l lab0 lo hi :
    md <> MGlobal -> lo = None \/ hi = None ->
    run' (mkIn md cf raw_g raw_l lab0) get_threshold_prog lo hi = None.
  Proof.
    intros Hmd H. destruct md; try congruence; destruct lab0, lo, hi; try reflexivity; destruct H; discriminate.
  Qed.

  Lemma run_global_component inp lo hi l v :
    run' inp get_threshold_prog lo hi = Some (l, v) ->
    v = VNum (ref_global mul (in_raw_g inp) (in_cf inp) lo hi).
  Proof.
    destruct inp as [md cf rg rl lb]. destruct md.
    - rewrite run_global_eq. intros H. inversion H. reflexivity.
    - destruct lo as [lo|], hi as [hi|];
        [rewrite run_array_eq by congruence; intros H; inversion H; reflexivity
        |rewrite run_array_none by (try congruence; auto); discriminate ..].
    - destruct lo as [lo|], hi as [hi|];
        [rewrite run_array_eq by congruence; intros H; inversion H; reflexivity
        |rewrite run_array_none by (try congruence; auto); discriminate ..].
  Qed.

  (* the regenerated program computes exactly the specified closed form *)
  Theorem run_eq_ref_lemma inp lo hi :
    run' inp get_threshold_prog lo hi = ref_run mul amul cast inp lo hi.
  Proof.
    destruct inp as [md cf rg rl lb]. unfold ref_run. destruct md; cbn [in_mod].
    - apply run_global_eq.
    - destruct lo as [lo|], hi as [hi|];
        [apply run_array_eq; congruence|apply run_array_none; (congruence || auto) ..].
    - destruct lo as [lo|], hi as [hi|];
        [apply run_array_eq; congruence|apply run_array_none; (congruence || auto) ..].
  Qed.
End Run.

(* ------------------------------------------------------------------ order reasoning *)

Lemma clamp_opt_in_range lo hi x : range_ok lo hi -> in_range lo hi (clamp_opt lo hi x).
Proof.
  intros Hr. unfold clamp_opt, in_range.
  destruct lo as [l|], hi as [h|]; split; intros y Hy; inversion Hy; subst; clear Hy.
  - pose proof (Hr _ _ eq_refl eq_refl). destruct (qmax_spec x y) as [A [B _]].
    destruct (qmin_spec (qmax x y) h) as [C [D [E|E]]]; rewrite E; lra.
  - destruct (qmin_spec (qmax x l) y) as [C [D _]]. lra.
  - destruct (qmax_spec x y) as [A [B _]]. lra.
  - destruct (qmin_spec x y) as [C [D _]]. lra.
Qed.

Theorem global_in_range_lemma mul amul cast inp lo hi l v :
  range_ok lo hi ->
  run mul amul cast inp get_threshold_prog lo hi = Some (l, v) ->
  exists g, v = VNum g /\ in_range lo hi g.
Proof.
  intros Hr H. apply run_global_component in H. eexists; split; [exact H|].
  apply clamp_opt_in_range; exact Hr.
Qed.

(* one element of the clamped array, parametric in the band constants and in the array's conversion *)
Section Band.
  Variable mul : Q -> Q -> Q.
  Variable cast : Q -> Q.
  Hypothesis cast_mono : forall a b, a <= b -> cast a <= cast b.
  Variables blo bhi : Q.
  Lemma clamp_elem lo hi g x :
    lo <= hi -> lo <= g -> g <= hi -> mul g blo <= g -> g <= mul g bhi ->
    let t := clamp_hi (cast (ref_rmax mul bhi hi g)) (clamp_lo (cast (ref_rmin mul blo lo g)) x) in
    (cast lo <= t /\ t <= cast hi) /\ (cast (mul g blo) <= t /\ t <= cast (mul g bhi)).
  Proof.
    intros H1 H2 H3 H4 H5. unfold ref_rmax, ref_rmin. cbn zeta.
    pose proof (qmax_spec lo (mul g blo)) as [A [B C]].
    pose proof (qmin_spec hi (mul g bhi)) as [D [E F]].
    remember (qmax lo (mul g blo)) as rmin eqn:Er. remember (qmin hi (mul g bhi)) as rmax eqn:Ex.
    clear Er Ex.
    assert (R : rmin <= rmax) by (destruct C as [C|C], F as [F|F]; subst; lra).
    apply cast_mono in A, B, D, E, R.
    destruct (clamp_lo_spec (cast rmin) x) as [G [_ I]].
    destruct (clamp_hi_spec (cast rmax) (clamp_lo (cast rmin) x)) as [J [K [M|M]]]; rewrite M in *.
    - repeat split; lra.
    - destruct I as [I|I]; rewrite I in *; repeat split; lra.
  Qed.
End Band.

Lemma Forall_map_iff {A B} (f : A -> B) (P : B -> Prop) l : Forall P (map f l) <-> Forall (fun x => P (f x)) l.
Proof. induction l; cbn; split; intros H; inversion H; subst; constructor; tauto. Qed.

Lemma ref_array_in_band mul amul cast lo hi g cf raws :
  (forall a b, a <= b -> cast a <= cast b) ->
  lo <= hi -> lo <= g -> g <= hi -> mul g band_lo <= g -> g <= mul g band_hi ->
  Forall (fun t => in_range_cast cast lo hi t /\ in_band_cast mul cast g t)
         (ref_array mul amul cast band_lo band_hi cf lo hi g raws).
Proof.
  intros. unfold ref_array. rewrite !Forall_map_iff. apply Forall_forall. intros x _.
  apply clamp_elem; assumption.
Qed.

Lemma nth_error_sentinel c a lb i t :
  nth_error (sentinel c a lb) i = Some t -> nth i lb false = false -> nth_error a i = Some t.
Proof.
  unfold sentinel. revert lb i. induction a as [|x a IH]; intros [|b lb] [|i]; cbn; try discriminate.
  - intros H Hb. subst b. exact H.
  - intros H Hb. eapply IH; eassumption.
Qed.

Lemma ref_local_nth mul amul cast inp lo hi g i t :
  nth_error (ref_local mul amul cast band_lo band_hi sentinel_value inp lo hi g) i = Some t ->
  unlabelled inp i = false ->
  nth_error (ref_array mul amul cast band_lo band_hi (in_cf inp) lo hi g (in_raw_l inp)) i = Some t.
Proof.
  unfold ref_local, unlabelled. destruct (in_mod inp); try (intros H _; exact H).
  destruct (in_lab0 inp); [|intros H _; exact H]. apply nth_error_sentinel.
Qed.

Theorem local_in_band_lemma mul amul cast inp lo hi l g :
  (forall a b, a <= b -> cast a <= cast b) ->
  lo <= hi ->
  run mul amul cast inp get_threshold_prog (Some lo) (Some hi) = Some (l, VNum g) ->
  mul g band_lo <= g -> g <= mul g band_hi ->
  match l with
  | VNum t => lo <= t /\ t <= hi
  | VArr ts => forall i t, nth_error ts i = Some t -> unlabelled inp i = false ->
                           in_range_cast cast lo hi t /\ in_band_cast mul cast g t
  | VNone => False
  end.
Proof.
  intros Hc Hr H Hlo Hhi.
  assert (Hg : in_range (Some lo) (Some hi) g).
  { destruct (global_in_range_lemma mul amul cast inp (Some lo) (Some hi) l (VNum g)) as [g' [E R]]; auto.
    - intros a b Ea Eb. inversion Ea; inversion Eb; subst; exact Hr.
    - inversion E. subst. exact R. }
  destruct Hg as [G1 G2]. specialize (G1 _ eq_refl). specialize (G2 _ eq_refl).
  destruct inp as [md cf rg rl lb]. destruct md.
  - rewrite run_global_eq in H. inversion H; subst.
    assert (R : in_range (Some lo) (Some hi)
                  (clamp_opt (Some lo) (Some hi) (ref_global mul rg cf (Some lo) (Some hi)))).
    { apply clamp_opt_in_range. intros a b Ea Eb. inversion Ea; inversion Eb; subst; exact Hr. }
    destruct R as [R1 R2]. split; [apply R1|apply R2]; reflexivity.
  - rewrite run_array_eq in H by congruence. cbn zeta in H. inversion H; subst. clear H.
    intros i t Hn Hu. apply ref_local_nth in Hn; [|exact Hu].
    pose proof (ref_array_in_band mul amul cast lo hi _ cf rl Hc Hr G1 G2 Hlo Hhi) as F.
    rewrite Forall_forall in F. apply F. eapply nth_error_In. exact Hn.
  - rewrite run_array_eq in H by congruence. cbn zeta in H. inversion H; subst. clear H.
    intros i t Hn Hu. apply ref_local_nth in Hn; [|exact Hu].
    pose proof (ref_array_in_band mul amul cast lo hi _ cf rl Hc Hr G1 G2 Hlo Hhi) as F.
    rewrite Forall_forall in F. apply F. eapply nth_error_In. exact Hn.
Qed.

(* exact product, float64 array: the bracket hypotheses follow from 0 < band_lo <= 1 <= band_hi and 0 <= lo *)
Theorem local_in_band_exact_lemma inp lo hi l g :
  0 <= lo -> lo <= hi ->
  run Qmult Qmult (fun q => q) inp get_threshold_prog (Some lo) (Some hi) = Some (l, VNum g) ->
  match l with
  | VNum t => lo <= t /\ t <= hi
  | VArr ts => forall i t, nth_error ts i = Some t -> unlabelled inp i = false ->
                           (lo <= t /\ t <= hi) /\ (g * band_lo <= t /\ t <= g * band_hi)
  | VNone => False
  end.
Proof.
  intros H0 Hr H.
  assert (Hg : lo <= g).
  { destruct (global_in_range_lemma Qmult Qmult (fun q => q) inp (Some lo) (Some hi) l (VNum g)) as [g' [E [R _]]]; auto.
    - intros a b Ea Eb. inversion Ea; inversion Eb; subst; exact Hr.
    - inversion E. subst. apply R. reflexivity. }
  apply (local_in_band_lemma Qmult Qmult (fun q => q) inp lo hi l g (fun a b Hab => Hab) Hr H);
    unfold band_lo, band_hi; lra.
Qed.

(* ------------------------------------------------------------------ constants and access shapes *)

Lemma band_consts_lemma :
  get_threshold_consts = [("1.5"%string, band_hi); ("0.7"%string, band_lo); ("1.0"%string, sentinel_value)] /\
  prog_consts get_threshold_prog = map snd get_threshold_consts.
Proof. split; reflexivity. Qed.

Definition expected_functions : list string :=
  ["get_threshold"; "get_global_threshold"; "get_adaptive_threshold"; "get_per_object_threshold";
   "get_otsu_threshold"; "get_mog_threshold"; "get_background_threshold";
   "get_robust_background_threshold"; "get_ridler_calvard_threshold"; "get_kapur_threshold";
   "get_maximum_correlation_threshold"; "weighted_variance"]%string.

(* the property's seven methods and the implementation each name must run *)
Definition expected_dispatch : list (string * string) :=
  [("Otsu", "get_otsu_threshold"); ("MoG", "get_mog_threshold"); ("Background", "get_background_threshold");
   ("RobustBackground", "get_robust_background_threshold"); ("RidlerCalvard", "get_ridler_calvard_threshold");
   ("Kapur", "get_kapur_threshold"); ("MCT", "get_maximum_correlation_threshold")]%string.

Definition mem_string (s : string) (l : list string) : bool :=
  existsb (String.eqb s) l.

(* every read of `image` in every function receiving (image, mask) is mask-respecting; the list
   covers exactly the expected functions; every method get_global_threshold dispatches to is in it *)
Lemma access_crop_first_lemma :
  forallb (fun fa => forallb access_ok (snd fa)) threshold_access = true /\
  map fst threshold_access = expected_functions /\
  forallb (fun d => mem_string (snd d) (map fst threshold_access)) threshold_dispatch = true /\
  threshold_dispatch = expected_dispatch /\
  threshold_dispatch_filters_kwargs = true /\ threshold_dispatch_unknown_raises = true.
Proof. repeat split; reflexivity. Qed.

(* premise of S4 (repeated calls agree): every random stream of threshold.py / smooth.py / otsu.py is
   re-seeded inside the call, from a literal or from the data *)
Lemma random_streams_seeded_lemma :
  forallb (fun u => rand_ok (snd u)) threshold_random_uses = true.
Proof. reflexivity. Qed.

(* premise of S6 (scale invariance of the cut): every function of otsu.py selects the split by EQUALITY with the
   minimum score, in normalised form (regenerated) *)
Lemma otsu_selects_exact_minimum_lemma :
  forallb (fun u => selection_ok (snd u)) otsu_selection = true /\
  map fst otsu_selection = ["otsu"; "entropy"; "otsu3"; "entropy3"]%string.
Proof. split; reflexivity. Qed.

(* ------------------------------------------------------------------ checker soundness *)

Lemma in_rangeb_sound lo hi x : in_rangeb lo hi x = true -> in_range lo hi x.
Proof.
  unfold in_rangeb, in_range. rewrite andb_true_iff. intros [A B]. split; intros y Hy; subst.
  - apply Qle_bool_iff. exact A.
  - apply Qle_bool_iff. exact B.
Qed.
Lemma in_bandb_sound mul cast g t : in_bandb mul cast g t = true -> in_band_cast mul cast g t.
Proof.
  unfold in_bandb, in_band_cast. rewrite andb_true_iff. intros [A B]. split; apply Qle_bool_iff; assumption.
Qed.
Theorem check_thresholds_sound_lemma mul cast lo hi g band ts :
  check_thresholds mul cast lo hi g band ts = true ->
  in_range lo hi g /\
  Forall (fun t => in_range (cast_opt cast lo) (cast_opt cast hi) t /\ (band = true -> in_band_cast mul cast g t)) ts.
Proof.
  unfold check_thresholds. rewrite andb_true_iff, forallb_forall. intros [A B]. split.
  - apply in_rangeb_sound; exact A.
  - apply Forall_forall. intros t Ht. specialize (B t Ht). rewrite andb_true_iff, orb_true_iff in B.
    destruct B as [B1 [B2|B2]]; split; try (apply in_rangeb_sound; exact B1).
    + intros E. subst. discriminate.
    + intros _. apply in_bandb_sound; exact B2.
Qed.

(* ------------------------------------------------------------------ the hypotheses are satisfiable *)

Example ex_inputs : inputs :=
  mkIn MPerObject (Qmake 2 1) (Qmake 3 10) [Qmake 1 100; Qmake 1 4; Qmake 9 10; Qmake 1 4] (Some [false; false; false; true]).
(* lo = 1/10, hi = 3/5: raw 0.3 * 2 = 0.6; band = [max 0.1 (0.6*0.7), min 0.6 (0.9)]; one value clamped up,
   one kept, one clamped down, one sentinel *)
Example ex_run :
  exists l g, run Qmult Qmult (fun q => q) ex_inputs get_threshold_prog (Some (Qmake 1 10)) (Some (Qmake 3 5)) = Some (VArr l, VNum g)
              /\ g == 3 # 5 /\ Forall2 Qeq l [band_lo * (3 # 5); 1 # 2; 3 # 5; 1].
Proof.
  eexists. eexists. split; [vm_compute; reflexivity|]. split; [reflexivity|].
  repeat (apply Forall2_cons; [vm_compute; reflexivity|]). apply Forall2_nil.
Qed.

(* the checker accepts the output of the example above and rejects a threshold below the band *)
Example ex_check :
  check_thresholds Qmult (fun q => q) (Some (Qmake 1 10)) (Some (Qmake 3 5)) (Qmake 3 5) true [band_lo * (3 # 5); 1 # 2; 3 # 5] = true /\
  check_thresholds Qmult (fun q => q) (Some (Qmake 1 10)) (Some (Qmake 3 5)) (Qmake 3 5) true [2 # 5] = false.
Proof. split; vm_compute; reflexivity. Qed.
