(* C03: for a finite image and a finite weight every step cost sqrt(pd*pd + (md*w)*w) of the model is a
   non-negative double or +inf, never NaN (overflow gives +inf).  The 9-term |v1 - v2| accumulation may
   add a term -0 (v1 = +0, v2 = -0), which leaves the accumulator unchanged.  From FloatAxioms
   (sub_spec, mul_spec, sqrt_spec, ltb_spec, add_spec, of_uint63_spec is NOT needed: md is a literal)
   through Flocq's Bminus/Bmult/Bsqrt/Bplus_correct. *)
From Coq Require Import ZArith Lia Lra Reals Bool List.
From Coq Require Import Floats SpecFloat.
From Flocq Require Import Core.Zaux Core.Raux Core.Defs Core.Digits Core.Float_prop Core.Generic_fmt Core.FLT.
From Flocq Require Import IEEE754.BinarySingleNaN.
From Flocq Require IEEE754.PrimFloat.
From Centro Require Import Base.PropFloat Model.Propagate Spec.PropCheck Proofs.PropFloatMono Proofs.PropFloatFacts.
Import ListNotations.
Open Scope Z_scope.
Local Existing Instance PropFloatMono.Hprec.
Local Existing Instance PropFloatMono.Hmax.
Local Existing Instance PropFloatMono.VE.
Notation bf := (binary_float prec emax).
Notation pinf := (B754_infinity false : bf).
Notation rnd64 := (round radix2 (SpecFloat.fexp prec emax) (round_mode mode_NE)).

(* not NaN, not -inf, finite values have a non-negative real value (-0 allowed) *)
Definition nnR (x : bf) : Prop :=
  (is_finite x = true /\ (0 <= B2R x)%R) \/ x = pinf.

Lemma rnd_nonneg : forall r, (0 <= r)%R -> (0 <= rnd64 r)%R.
Proof. intros r H. apply round_ge_generic; [exact VE | auto with typeclass_instances | apply generic_format_0 | exact H]. Qed.

Lemma sign_true_R : forall x : bf, Bsign x = true -> (B2R x <= 0)%R.
Proof.
  intros [[]|[]| |[] m e Hb]; cbn; intros H; try discriminate; try apply Rle_refl.
  apply F2R_le_0. cbn. lia.
Qed.
Lemma sign_false_R : forall x : bf, Bsign x = false -> (0 <= B2R x)%R.
Proof.
  intros [[]|[]| |[] m e Hb]; cbn; intros H; try discriminate; try apply Rle_refl.
  apply F2R_ge_0. cbn. lia.
Qed.
Lemma SF_inf : forall x : bf, B2SF x = S754_infinity false -> x = pinf.
Proof. intros [s|s| |s m e Hb]; cbn; intros H; try discriminate. inversion H. reflexivity. Qed.
Lemma fin_notnan : forall x : bf, is_finite x = true -> is_nan x = false.
Proof. intros [s|s| |s m e Hb]; cbn; intros H; try discriminate; reflexivity. Qed.
Lemma notnan_sign_nonneg : forall x : bf, is_nan x = false -> Bsign x = false -> nonnegB x.
Proof. intros [[]|[]| |[] m e Hb]; unfold nonnegB; cbn; intros H1 H2; try discriminate; exact I. Qed.

(* |x - y| as the code computes it *)
Lemma sub_abs_nn : forall x y : bf, is_finite x = true -> is_finite y = true ->
  nnR (if Bltb y x then Bminus mode_NE x y else Bminus mode_NE y x).
Proof.
  intros x y Fx Fy. rewrite (Bltb_correct prec emax y x Fy Fx).
  destruct (Rlt_bool_spec (B2R y) (B2R x)) as [Hlt|Hge].
  - pose proof (Bminus_correct prec emax _ _ mode_NE x y Fx Fy) as H.
    assert (Hr : (0 <= rnd64 (B2R x - B2R y))%R) by (apply rnd_nonneg; lra).
    rewrite (Rabs_pos_eq _ Hr) in H.
    destruct (Rlt_bool_spec (rnd64 (B2R x - B2R y)) (bpow radix2 emax)) as [_|Hov].
    + destruct H as [H1 [H2 _]]. left. split; [exact H2 | rewrite H1; exact Hr].
    + destruct H as [H1 H2]. right. apply SF_inf. rewrite H1.
      destruct (Bsign x) eqn:Sx; [|reflexivity]. exfalso.
      pose proof (sign_true_R x Sx). assert (Sy : Bsign y = false) by (destruct (Bsign y); [discriminate | reflexivity]).
      pose proof (sign_false_R y Sy). lra.
  - pose proof (Bminus_correct prec emax _ _ mode_NE y x Fy Fx) as H.
    assert (Hr : (0 <= rnd64 (B2R y - B2R x))%R) by (apply rnd_nonneg; lra).
    rewrite (Rabs_pos_eq _ Hr) in H.
    destruct (Rlt_bool_spec (rnd64 (B2R y - B2R x)) (bpow radix2 emax)) as [_|Hov].
    + destruct H as [H1 [H2 _]]. left. split; [exact H2 | rewrite H1; exact Hr].
    + destruct H as [H1 H2]. right. apply SF_inf. rewrite H1.
      destruct (Bsign y) eqn:Sy; [|reflexivity]. exfalso.
      pose proof (sign_true_R y Sy). assert (Sx : Bsign x = false) by (destruct (Bsign x); [discriminate | reflexivity]).
      pose proof (sign_false_R x Sx).
      assert (E : (B2R y - B2R x = 0)%R) by lra. rewrite E, round_0 in Hov by auto with typeclass_instances.
      pose proof (bpow_gt_0 radix2 emax). lra.
Qed.

(* a non-negative accumulator plus such a term stays non-negative *)
Lemma plus_nn : forall a t : bf, nonnegB a -> nnR t -> nonnegB (Bplus mode_NE a t).
Proof.
  intros a t Na [[Ft Rt]|Et].
  - destruct (is_finite a) eqn:Fa.
    + pose proof (nonneg_R a Na) as Ra.
      pose proof (Bplus_correct prec emax _ _ mode_NE a t Fa Ft) as H.
      assert (Hr : (0 <= rnd64 (B2R a + B2R t))%R) by (apply rnd_nonneg; lra).
      rewrite (Rabs_pos_eq _ Hr) in H.
      destruct (Rlt_bool_spec (rnd64 (B2R a + B2R t)) (bpow radix2 emax)) as [_|Hov].
      * destruct H as [H1 [H2 H3]]. apply fin_nonneg; [exact H2|]. rewrite H3, (nonneg_sign a Na).
        destruct (Rcompare_spec (B2R a + B2R t) 0); try reflexivity. exfalso. lra.
      * destruct H as [H1 _]. unfold nonnegB. rewrite H1, (nonneg_sign a Na). exact I.
    + rewrite (notfin_inf a Na Fa). destruct t as [s|s| |s m e Hb]; cbn in Ft; try discriminate Ft; unfold nonnegB; cbn; exact I.
  - rewrite Et, (plus_inf_r a Na). exact I.
Qed.

Lemma nonneg_nnR : forall x : bf, nonnegB x -> nnR x.
Proof.
  intros x N. destruct (is_finite x) eqn:F; [left; split; [exact F | apply nonneg_R; exact N] | right; apply notfin_inf; assumption].
Qed.

(* products: never NaN unless an operand is NaN or inf*0; the sign is the xor of the signs *)
Lemma mul_sign_all : forall x y : bf, is_nan (Bmult mode_NE x y) = false ->
  Bsign (Bmult mode_NE x y) = xorb (Bsign x) (Bsign y).
Proof.
  intros x y Hn. pose proof (Bmult_correct prec emax _ _ mode_NE x y) as H.
  destruct (Rlt_bool _ _).
  - destruct H as [_ [_ H]]. apply H. exact Hn.
  - destruct (Bmult mode_NE x y) as [s|s| |s m e Hb]; cbn in H; try discriminate; inversion H; reflexivity.
Qed.
Lemma mul_fin_notnan : forall x y : bf, is_finite x = true -> is_finite y = true -> is_nan (Bmult mode_NE x y) = false.
Proof.
  intros x y Fx Fy. pose proof (Bmult_correct prec emax _ _ mode_NE x y) as H.
  destruct (Rlt_bool _ _).
  - destruct H as [_ [H _]]. rewrite Fx, Fy in H. apply fin_notnan. exact H.
  - destruct (Bmult mode_NE x y) as [s|s| |s m e Hb]; cbn in H; try discriminate; reflexivity.
Qed.

Lemma mul_self_nonneg : forall x : bf, nonnegB x -> nonnegB (Bmult mode_NE x x).
Proof.
  intros x N. destruct (is_finite x) eqn:F.
  - apply notnan_sign_nonneg; [apply mul_fin_notnan; assumption|].
    rewrite mul_sign_all by (apply mul_fin_notnan; assumption). destruct (Bsign x); reflexivity.
  - rewrite (notfin_inf x N F). exact I.
Qed.

(* (md * w) * w for a positive finite md and a finite w *)
Lemma mul_mul_nonneg : forall (md w : bf) m e Hb, md = B754_finite false m e Hb -> is_finite w = true ->
  nonnegB (Bmult mode_NE (Bmult mode_NE md w) w).
Proof.
  intros md w m e Hb -> Fw.
  set (p := Bmult mode_NE (B754_finite false m e Hb) w).
  assert (Pn : is_nan p = false) by (apply mul_fin_notnan; [reflexivity | exact Fw]).
  assert (Ps : Bsign p = Bsign w) by (unfold p; rewrite mul_sign_all by exact Pn; cbn; destruct (Bsign w); reflexivity).
  assert (Qn : is_nan (Bmult mode_NE p w) = false).
  { destruct (is_finite p) eqn:Fp; [apply mul_fin_notnan; assumption|].
    (* p infinite: w is not a zero (a zero would make p a zero), hence inf * finite *)
    destruct w as [sw|sw| |sw mw ew Hw]; try discriminate.
    destruct p as [s|s| |s mp ep Hp]; try discriminate; reflexivity. }
  apply notnan_sign_nonneg; [exact Qn|]. rewrite mul_sign_all by exact Qn. rewrite Ps. destruct (Bsign w); reflexivity.
Qed.

Lemma sqrt_nonneg : forall z : bf, nonnegB z -> nonnegB (Bsqrt mode_NE z).
Proof.
  intros z N. destruct z as [[]|[]| |[] m e Hb]; unfold nonnegB in N; cbn in N; try contradiction; try exact I.
  pose proof (Bsqrt_correct prec emax _ _ mode_NE (B754_finite false m e Hb)) as [_ [H2 H3]].
  apply fin_nonneg; [exact H2|]. apply H3. apply fin_notnan. exact H2.
Qed.

(* ---------- primitive floats ---------- *)
Definition finF (x : float) : Prop := PrimFloat.is_finite x = true.

Lemma finF_B : forall x, finF x -> is_finite (FP.Prim2B x) = true.
Proof. intros x H. rewrite <- FP.is_finite_equiv. exact H. Qed.
Lemma sub_equiv_here : forall x y, FP.Prim2B (x - y)%float = Bminus mode_NE (FP.Prim2B x) (FP.Prim2B y).
Proof. intros x y. exact (FP.sub_equiv x y). Qed.
Lemma mul_equiv_here : forall x y, FP.Prim2B (x * y)%float = Bmult mode_NE (FP.Prim2B x) (FP.Prim2B y).
Proof. intros x y. exact (FP.mul_equiv x y). Qed.
Lemma sqrt_equiv_here : forall x, FP.Prim2B (PrimFloat.sqrt x) = Bsqrt mode_NE (FP.Prim2B x).
Proof. intros x. exact (FP.sqrt_equiv x). Qed.
Lemma ltb_equiv_here : forall x y, PrimFloat.ltb x y = Bltb (FP.Prim2B x) (FP.Prim2B y).
Proof. intros x y. exact (FP.ltb_equiv x y). Qed.

Lemma okF_B : forall x, nonnegB (FP.Prim2B x) -> okF' x.
Proof. intros x H. apply okF_of_nonneg. unfold nonnegB in H. rewrite FP.B2SF_Prim2B in H. exact H. Qed.

Lemma acc_step_ok : forall acc v1 v2, okF' acc -> finF v1 -> finF v2 ->
  okF' (if PrimFloat.ltb v2 v1 then PrimFloat.add acc (PrimFloat.sub v1 v2) else PrimFloat.add acc (PrimFloat.sub v2 v1)).
Proof.
  intros acc v1 v2 Ha F1 F2.
  pose proof (sub_abs_nn (FP.Prim2B v1) (FP.Prim2B v2) (finF_B _ F1) (finF_B _ F2)) as H.
  rewrite <- ltb_equiv_here in H.
  destruct (PrimFloat.ltb v2 v1); apply okF_B; rewrite add_equiv_here;
    (apply plus_nn; [apply nonnegB_of_okF; exact Ha | rewrite sub_equiv_here; exact H]).
Qed.

Lemma zero_finF : finF PrimFloat.zero.
Proof. reflexivity. Qed.
Lemma okF'_zero : okF' PrimFloat.zero.
Proof. unfold okF', ok64. vm_compute. split; discriminate. Qed.

Lemma get2_fin : forall image i j, Forall (Forall finF) image -> finF (get2 PrimFloat.zero image i j).
Proof.
  intros image i j H. unfold get2.
  assert (Hr : Forall finF (nth (Z.to_nat i) image [])).
  { destruct (nth_in_or_default (Z.to_nat i) image []) as [Hin|Hd]; [exact (proj1 (Forall_forall _ _) H _ Hin) | rewrite Hd; constructor]. }
  destruct (nth_in_or_default (Z.to_nat j) (nth (Z.to_nat i) image []) PrimFloat.zero) as [Hin|Hd];
    [exact (proj1 (Forall_forall _ _) Hr _ Hin) | rewrite Hd; exact zero_finF].
Qed.

Lemma pixel_diff_ok : forall image i1 j1 i2 j2 m n, Forall (Forall finF) image ->
  okF' (pixel_diff image i1 j1 i2 j2 m n).
Proof.
  intros image i1 j1 i2 j2 m n H. unfold pixel_diff.
  generalize okF'_zero. generalize PrimFloat.zero. generalize offsets9.
  induction l as [|o r IH]; intros acc Ha; cbn [fold_left]; [exact Ha|].
  apply IH. apply acc_step_ok; [exact Ha | unfold clamped_fetch; apply get2_fin; exact H | unfold clamped_fetch; apply get2_fin; exact H].
Qed.

Lemma md_pos : forall a b, (a = 1 /\ b = 0) \/ (a = 0 /\ b = 1) \/ (a = 1 /\ b = 1) ->
  exists m e Hb, FP.Prim2B (PrimFloat.add (float_of_Z a) (float_of_Z b)) = B754_finite false m e Hb.
Proof.
  intros a b H.
  assert (Hs : exists m e, Prim2SF (PrimFloat.add (float_of_Z a) (float_of_Z b)) = S754_finite false m e).
  { destruct H as [[-> ->]|[[-> ->]|[-> ->]]]; eexists; eexists; vm_compute; reflexivity. }
  destruct Hs as [m [e Hs]]. rewrite <- FP.B2SF_Prim2B in Hs.
  destruct (FP.Prim2B (PrimFloat.add (float_of_Z a) (float_of_Z b))) as [s|s| |s m' e' Hb]; cbn in Hs; try discriminate.
  inversion Hs. subst. exists m, e, Hb. reflexivity.
Qed.

Theorem step_cost_ok : forall image i1 j1 i2 j2 m n weight,
  Forall (Forall finF) image -> finF weight ->
  (Z.abs (i1 - i2) = 1 /\ Z.abs (j1 - j2) = 0) \/ (Z.abs (i1 - i2) = 0 /\ Z.abs (j1 - j2) = 1) \/
  (Z.abs (i1 - i2) = 1 /\ Z.abs (j1 - j2) = 1) ->
  okF' (step_cost image i1 j1 i2 j2 m n weight).
Proof.
  intros image i1 j1 i2 j2 m n weight Hi Hw Hadj. unfold step_cost.
  pose proof (pixel_diff_ok image i1 j1 i2 j2 m n Hi) as Hpd.
  set (pd := pixel_diff image i1 j1 i2 j2 m n) in *.
  destruct (md_pos _ _ Hadj) as [mm [me [Hb Hmd]]].
  set (md := PrimFloat.add (float_of_Z (Z.abs (i1 - i2))) (float_of_Z (Z.abs (j1 - j2)))) in *.
  apply okF_B. rewrite sqrt_equiv_here. apply sqrt_nonneg.
  rewrite add_equiv_here. apply plus_nn.
  - rewrite mul_equiv_here. apply mul_self_nonneg. apply nonnegB_of_okF. exact Hpd.
  - apply nonneg_nnR. rewrite !mul_equiv_here. apply (mul_mul_nonneg _ _ mm me Hb Hmd). apply finF_B. exact Hw.
Qed.
