(* C05 - lemmas: the executable grid models of thin / binary_shrink / index_lookup /
   skeletonize_loop / skeletonize(ordering) preserve [TopoEq]; soundness of [topo_check]. *)
From Coq Require Import ZArith NArith List Bool Lia Sorted Permutation.
From Centro Require Import Base.Sx Base.Topo Base.Skel Base.TopoPar Base.TopoSweep Base.TopoGrid Gen.TablesC05.
From Centro Require Import Model.ThinSkel Spec.TopoCheck.
From Centro Require Import Proofs.TopoSwThin0 Proofs.TopoSwThin1 Proofs.TopoSwUlr Proofs.TopoSwUrb
  Proofs.TopoSwLrl Proofs.TopoSwLlt Proofs.TopoSwSkel.
Import ListNotations.
Open Scope Z_scope.

(* ------------------------------------------------------------------ synchronous passes *)

Lemma run_passes_wf H W ks : forall g, wf H W g -> wf H W (run_passes H W ks g).
Proof.
  induction ks as [|k r IH]; intros g Hg; cbn [run_passes]; [exact Hg|].
  apply IH. apply pass_grid_wf.
Qed.

Lemma cycle_loop_topo H W ks (Hks : Forall admissible ks) : forall n g, wf H W g ->
  TopoEq (img_of g) (img_of (cycle_loop H W ks n g)) /\ wf H W (cycle_loop H W ks n g).
Proof.
  induction n as [|n IH]; intros g Hg; cbn [cycle_loop].
  - split; [apply TopoEq_refl | exact Hg].
  - pose proof (run_passes_topo H W ks Hks g Hg) as T1.
    pose proof (run_passes_wf H W ks g Hg) as W1.
    destruct (Nat.eqb (count (run_passes H W ks g)) (count g)) eqn:E.
    + split; assumption.
    + destruct (IH _ W1) as [T2 W2]. split; [eapply TopoEq_trans; eassumption | exact W2].
Qed.

Lemma thin_tables_admissible : Forall admissible thin_tables.
Proof.
  unfold thin_tables. repeat constructor; [exact admissible_thin_tab0 | exact admissible_thin_tab1].
Qed.
Lemma shrink_tables_admissible : Forall admissible shrink_tables.
Proof.
  unfold shrink_tables. repeat constructor;
    [exact admissible_shrink_ulr | exact admissible_shrink_urb | exact admissible_shrink_lrl | exact admissible_shrink_llt].
Qed.

Theorem thin_model_topo : forall H W iters g, wf H W g ->
  TopoEq (img_of g) (img_of (thin_model H W iters g)).
Proof. intros H W iters g Hg. unfold thin_model. apply cycle_loop_topo; [apply thin_tables_admissible | exact Hg]. Qed.

Theorem shrink_model_topo : forall H W k g, wf H W g ->
  TopoEq (img_of g) (img_of (shrink_model H W k g)).
Proof. intros H W k g Hg. unfold shrink_model. apply cycle_loop_topo; [apply shrink_tables_admissible | exact Hg]. Qed.

(* index_lookup with any of the six pass tables (t = 1..6), any iteration count *)
Theorem lookup_model_topo : forall H W t iters g, 1 <= t -> wf H W g ->
  TopoEq (img_of g) (img_of (lookup_model H W t iters g)).
Proof.
  intros H W t iters g Ht Hg. unfold lookup_model. apply cycle_loop_topo; [|exact Hg].
  constructor; [|constructor]. unfold table_of.
  destruct (t =? 0) eqn:E0; [apply Z.eqb_eq in E0; lia|].
  destruct (t =? 1); [exact admissible_thin_tab0|].
  destruct (t =? 2); [exact admissible_thin_tab1|].
  destruct (t =? 3); [exact admissible_shrink_ulr|].
  destruct (t =? 4); [exact admissible_shrink_urb|].
  destruct (t =? 5); [exact admissible_shrink_lrl|exact admissible_shrink_llt].
Qed.

Example thin_hyp_example : wf 3 3 [[true;true;true];[true;true;true];[true;true;false]].
Proof. split; [reflexivity|]. intros r [<-|[<-|[<-|[]]]]; reflexivity. Qed.

(* ------------------------------------------------------------------ sequential loop *)

Lemma pat_ext X Y p : (forall q, X q = Y q) -> pat X p = pat Y p.
Proof. intros E. unfold pat. apply map_ext. intros b. apply E. Qed.

Lemma pat_unfold X p : pat X p =
  [X (nb p 0); X (nb p 1); X (nb p 2); X (nb p 3); X (nb p 4); X (nb p 5); X (nb p 6); X (nb p 7); X (nb p 8)].
Proof. reflexivity. Qed.

Lemma force4_pat X p : X p = true -> force4 (pat X p) = pat X p.
Proof. intros E. rewrite pat_unfold. cbn [force4]. rewrite nb_center, E. reflexivity. Qed.

Lemma skel_step_ext keep guard X Y p : (forall q, X q = Y q) ->
  forall q, skel_step keep guard X p q = skel_step keep guard Y p q.
Proof.
  intros E q. unfold skel_step. rewrite (pat_ext X Y p E), (E p).
  destruct (guard p && Y p && negb (keep (pat Y p))); [|apply E].
  unfold remove. destruct (px_eqb q p); [reflexivity|apply E].
Qed.

Lemma skel_ext keep guard order : forall X Y, (forall q, X q = Y q) ->
  forall q, skel keep guard order X q = skel keep guard order Y q.
Proof.
  induction order as [|p r IH]; intros X Y E q; cbn [skel fold_left]; [apply E|].
  apply IH. apply skel_step_ext; exact E.
Qed.

(* on a pixel that is set, the unconditional write of the code is the guarded removal *)
Lemma loop_step_is_skel_step keep X p : X p = true ->
  forall q, loop_step keep X p q = skel_step keep row_guard X p q.
Proof.
  intros E q. unfold loop_step, skel_step. rewrite force4_pat by exact E. rewrite E, andb_true_r.
  destruct (row_guard p); cbn [andb]; [|reflexivity].
  unfold upd, remove. destruct (keep (pat X p)) eqn:K; cbn [negb].
  - destruct (px_eqb_spec q p) as [->|N]; [symmetry; exact E|reflexivity].
  - reflexivity.
Qed.

Lemma loop_step_other keep X p q : q <> p -> loop_step keep X p q = X q.
Proof.
  intros N. unfold loop_step. destruct (row_guard p); [|reflexivity].
  unfold upd. destruct (px_eqb_spec q p); [contradiction|reflexivity].
Qed.

Lemma loop_step_ext keep X Y p : (forall q, X q = Y q) -> forall q, loop_step keep X p q = loop_step keep Y p q.
Proof.
  intros E q. unfold loop_step. rewrite (pat_ext X Y p E). destruct (row_guard p); [|apply E].
  unfold upd. destruct (px_eqb q p); [reflexivity|apply E].
Qed.

Lemma skel_loop_is_skel keep : forall order X Y, NoDup order ->
  (forall p, In p order -> X p = true) -> (forall q, X q = Y q) ->
  forall q, skel_loop keep order X q = skel keep row_guard order Y q.
Proof.
  induction order as [|p r IH]; intros X Y ND Hfg E q; cbn [skel_loop skel fold_left]; [apply E|].
  inversion ND as [|? ? Hnin ND']; subst.
  apply IH; [exact ND'| |].
  - intros p' Hp'. rewrite loop_step_other; [apply Hfg; right; exact Hp'|].
    intros ->. contradiction.
  - intros q'. rewrite loop_step_is_skel_step by (apply Hfg; left; reflexivity).
    apply skel_step_ext. exact E.
Qed.

Lemma tabulate_img H W g (f : img) : wf H W g -> (forall q, f q = true -> img_of g q = true) ->
  forall q, img_of (tabulate H W f) q = f q.
Proof.
  intros [LH LW] Hsub q. rewrite img_of_tabulate.
  destruct ((0 <=? fst q) && (fst q <? Z.of_nat H) && (0 <=? snd q) && (snd q <? Z.of_nat W)) eqn:E; [reflexivity|].
  destruct (f q) eqn:V; [|reflexivity].
  apply Hsub in V. apply (img_of_frame g H W q LH LW) in V. destruct V as [[? ?] [? ?]].
  exfalso. rewrite !andb_false_iff in E. rewrite !Z.leb_gt, !Z.ltb_ge in E. lia.
Qed.

Lemma skel_tab_premise : table_deletes_only_simple (keepN skel_tab) = true.
Proof. exact skel_tab_simple. Qed.

(* skeletonize_loop on the current table: every image, every duplicate-free processing order over
   foreground pixels (what skeletonize always passes: a permutation of the foreground) *)
Theorem skel_loop_grid_topo : forall H W order g, wf H W g -> NoDup order ->
  (forall p, In p order -> img_of g p = true) ->
  TopoEq (img_of g) (img_of (skel_loop_grid H W order g)).
Proof.
  intros H W order g Hg ND Hfg.
  pose proof (skeletonize_topo (keepN skel_tab) row_guard skel_tab_premise order (img_of g)) as T.
  apply TopoEq_ext with (Y := skel (keepN skel_tab) row_guard order (img_of g)); [|exact T].
  intros q. unfold skel_loop_grid.
  rewrite (tabulate_img H W g _ Hg).
  - symmetry. apply skel_loop_is_skel; auto.
  - intros q' V. rewrite (skel_loop_is_skel (keepN skel_tab) order (img_of g) (img_of g) ND Hfg (fun _ => eq_refl)) in V.
    apply (te_sub _ _ T). exact V.
Qed.

(* the guarded variant needs no hypothesis on the order at all (all orders, with repetitions) *)
Theorem skel_any_order_topo : forall guard order X, TopoEq X (skel (keepN skel_tab) guard order X).
Proof. intros. apply skeletonize_topo. exact skel_tab_premise. Qed.

(* ---- the ordering wrapper: a stable sort of the foreground pixels ---- *)
Lemma insert_by_perm key p l : Permutation (p :: l) (insert_by key p l).
Proof.
  induction l as [|q r IH]; cbn [insert_by]; [apply Permutation_refl|].
  destruct (key p <=? key q); [apply Permutation_refl|].
  eapply Permutation_trans; [apply perm_swap|]. apply perm_skip. exact IH.
Qed.
Lemma sort_by_perm key l : Permutation l (sort_by key l).
Proof.
  induction l as [|p r IH]; cbn [sort_by fold_right]; [apply Permutation_refl|].
  eapply Permutation_trans; [apply perm_skip; exact IH|]. apply insert_by_perm.
Qed.

Lemma ltr_sorted_nodup l : StronglySorted ltr l -> NoDup l.
Proof.
  induction 1 as [|a l HS IH HF]; constructor; auto.
  intros Hin. rewrite Forall_forall in HF. apply (ltr_irrefl a). apply HF. exact Hin.
Qed.
Lemma raster_nodup H W : NoDup (raster H W).
Proof. apply ltr_sorted_nodup. apply raster_sorted. Qed.

Theorem skeletonize_ord_topo : forall H W ordering g, wf H W g ->
  TopoEq (img_of g) (img_of (skeletonize_ord H W ordering g)).
Proof.
  intros H W ordering g Hg. unfold skeletonize_ord. apply skel_loop_grid_topo; [exact Hg| |].
  - eapply Permutation_NoDup; [apply sort_by_perm|]. unfold fg_list. apply NoDup_filter. apply raster_nodup.
  - intros p Hp. apply (Permutation_in p (Permutation_sym (sort_by_perm (zget ordering) (fg_list H W g)))) in Hp.
    unfold fg_list in Hp. apply filter_In in Hp. tauto.
Qed.

(* the order the wrapper builds lists every foreground pixel exactly once *)
Lemma skeletonize_order_complete H W ordering g p : wf H W g ->
  img_of g p = true -> In p (sort_by (zget ordering) (fg_list H W g)).
Proof.
  intros [LH LW] V. eapply Permutation_in; [apply sort_by_perm|]. unfold fg_list. apply filter_In. split; [|exact V].
  apply raster_complete. apply (img_of_frame g H W p LH LW V).
Qed.

(* ------------------------------------------------------------------ checker soundness *)

Lemma row_eqb_eq a : forall b, row_eqb a b = true -> a = b.
Proof.
  induction a as [|x a IH]; intros [|y b] E; cbn [row_eqb] in E; try discriminate; [reflexivity|].
  apply andb_true_iff in E as [E1 E2]. apply eqb_prop in E1. f_equal; auto.
Qed.
Lemma grid_eqb_eq a : forall b, grid_eqb a b = true -> a = b.
Proof.
  induction a as [|x a IH]; intros [|y b] E; cbn [grid_eqb] in E; try discriminate; [reflexivity|].
  apply andb_true_iff in E as [E1 E2]. apply row_eqb_eq in E1. f_equal; auto.
Qed.

Lemma simple_keep_premise : table_deletes_only_simple simple_keep = true.
Proof. vm_compute. reflexivity. Qed.

Lemma wfb'_wf H W g : wfb' H W g = true -> wf H W g.
Proof.
  unfold wfb', wf. intros E. apply andb_true_iff in E as [E1 E2]. apply Nat.eqb_eq in E1. split; [exact E1|].
  intros r Hr. rewrite forallb_forall in E2. apply Nat.eqb_eq. apply E2. exact Hr.
Qed.

Lemma tabulate_wf H W f : wf H W (tabulate H W f).
Proof.
  unfold wf, tabulate. split; [rewrite map_length, seq_length; reflexivity|].
  intros r Hr. apply in_map_iff in Hr as [i [<- _]]. rewrite map_length, seq_length. reflexivity.
Qed.

Lemma check_sweep_topo H W target g : wf H W g ->
  TopoEq (img_of g) (img_of (check_sweep H W target g)).
Proof.
  intros Hg. unfold check_sweep.
  set (guard := fun p => negb (img_of target p)).
  pose proof (skeletonize_topo simple_keep guard simple_keep_premise (raster H W) (img_of g)) as T.
  apply TopoEq_ext with (Y := skel simple_keep guard (raster H W) (img_of g)); [|exact T].
  intros q. rewrite (tabulate_img H W g _ Hg); [reflexivity|]. intros q' V. apply (te_sub _ _ T). exact V.
Qed.

Lemma check_loop_topo H W target : forall fuel g, wf H W g ->
  TopoEq (img_of g) (img_of (check_loop H W fuel target g)).
Proof.
  induction fuel as [|f IH]; intros g Hg; cbn [check_loop]; [apply TopoEq_refl|].
  destruct (grid_eqb (check_sweep H W target g) g); [apply TopoEq_refl|].
  eapply TopoEq_trans; [apply check_sweep_topo; exact Hg|]. apply IH. apply tabulate_wf.
Qed.

Theorem topo_check_sound : forall H W g g', topo_check H W g g' = true ->
  wf H W g /\ wf H W g' /\ TopoEq (img_of g) (img_of g').
Proof.
  intros H W g g' E. unfold topo_check in E. apply andb_true_iff in E as [E E3]. apply andb_true_iff in E as [E1 E2].
  apply wfb'_wf in E1. apply wfb'_wf in E2. split; [exact E1|]. split; [exact E2|].
  apply grid_eqb_eq in E3. rewrite <- E3 at 1. apply check_loop_topo. exact E1.
Qed.

Example topo_check_accepts :
  topo_check 3 4 [[true;true;true;false];[true;true;true;false];[true;true;false;true]]
                 [[false;false;false;false];[false;true;true;false];[false;false;false;true]] = true.
Proof. vm_compute. reflexivity. Qed.
Example topo_check_rejects_new_hole :
  topo_check 3 3 [[true;true;true];[true;true;true];[true;true;true]]
                 [[true;true;true];[true;false;true];[true;true;true]] = false.
Proof. vm_compute. reflexivity. Qed.
Example topo_check_rejects_split :
  topo_check 1 3 [[true;true;true]] [[true;false;true]] = false.
Proof. vm_compute. reflexivity. Qed.

(* the hypotheses of [skel_loop_grid_topo] on a non-trivial input (a pixel is removed) *)
Example skel_hyp_example :
  let g := [[true;true;true];[true;true;true];[true;true;false]] in
  let order := [(1,1); (2,0); (1,2); (0,1)] in
  wf 3 3 g /\ NoDup order /\ (forall p, In p order -> img_of g p = true) /\
  skel_loop_grid 3 3 order g = [[true;true;true];[true;true;false];[false;true;false]].
Proof.
  cbv zeta. split; [exact thin_hyp_example|]. split.
  - repeat constructor; cbn; intuition discriminate.
  - split; [|vm_compute; reflexivity].
    intros p [<-|[<-|[<-|[<-|[]]]]]; reflexivity.
Qed.
