(* C02 — finite sweep instance, see HullSweep.v *)
From Coq Require Import ZArith List Bool.
From Centro Require Import Base.Sx Model.Hull Spec.HullSpec Proofs.HullSweep.
Import ListNotations.
Open Scope Z_scope.

Lemma sweep_5x3 : sweep 5 3 1 = true.
Proof. vm_cast_no_check (eq_refl true). Qed.

Theorem hull_label_grid_5x3 : forall pts slack, In pts (sublists (grid 5 3)) -> In slack (slacks 1) ->
    HullSpec pts (hull_label 4 pts slack) /\
    zlen (hull_label 4 pts slack) <= slack + zlen pts /\
    hull_label 4 pts slack = hull_label 4 pts (slack + 1000).
Proof. exact (sweep_sound 5 3 1 sweep_5x3). Qed.
