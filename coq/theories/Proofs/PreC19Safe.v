(* C19 round 2 — what the preconditions of Model.PreC19 give. *)
From Coq Require Import ZArith List Bool Lia ZifyBool.
From Centro Require Model.Hull Model.Median Proofs.MedianGeom Model.HeapC19 Proofs.HeapC19Safe.
From Centro Require Import Base.ArrC19 Model.PreC19.
Import ListNotations.
Open Scope Z_scope.

(* median: every pixel the coordinate guards let through is inside the three buffers *)
Theorem median_pixel_offset : forall rows cols rs cs mrows mcols mrs mcs orows ocols ors ocs radius percent y x,
  kernel_pre_median rows cols rs cs mrows mcols mrs mcs orows ocols ors ocs radius percent = true ->
  0 <= y < rows -> 0 <= x < cols ->
  0 <= y * rs + x * cs < rows * cols /\ 0 <= y * rs + x * cs < mrows * mcols /\ 0 <= y * rs + x * cs < orows * ocols.
Proof.
  intros rows cols rs cs mrows mcols mrs mcs orows ocols ors ocs radius percent y x Hp Hy Hx.
  unfold kernel_pre_median in Hp.
  assert (mrows = rows /\ mcols = cols /\ orows = rows /\ ocols = cols /\ cs = 1) as (-> & -> & -> & -> & ->) by lia.
  assert (Hc : rows <= 1 \/ rs = cols) by lia.
  destruct Hc as [Hc|Hc]; [assert (y = 0) by lia; subst y; nia|subst rs; nia].
Qed.

(* histogram indices: fine[value], coarse[value // 16], the 16-bin fine block of a coarse bin,
   last_update_column[fineidx] *)
Theorem median_hist_indices : forall v, 0 <= v < 256 ->
  0 <= v < 256 /\ 0 <= v / 16 < 16 /\ 0 <= (v / 16) * 16 /\ (v / 16) * 16 + 16 <= 256.
Proof.
  intros v Hv. pose proof (Z_div_mod_eq_full v 16). pose proof (Z.mod_pos_bound v 16 ltac:(lia)). lia.
Qed.

(* the circular column indices (C07's theorem, re-used): under the precondition all four are inside
   the stripe of columns + 2*radius + 1 histograms, for every data / mask of that shape *)
Theorem median_pre_indices : forall rows cols rs cs mrows mcols mrs mcs orows ocols ors ocs radius percent,
  kernel_pre_median rows cols rs cs mrows mcols mrs mcs orows ocols ors ocs radius percent = true ->
  forall (v : Median.variant) data mask row c,
  let e := Median.mk_env v data mask radius percent in
  0 <= Median.tl_br e row c < Median.e_SL e /\ 0 <= Median.tr_bl e row c < Median.e_SL e /\
  0 <= Median.lead_ix e c < Median.e_SL e /\ 0 <= Median.trail_ix e c < Median.e_SL e.
Proof.
  intros rows cols rs cs mrows mcols mrs mcs orows ocols ors ocs radius percent Hp v data mask row c.
  apply MedianGeom.index_in_buffer. unfold kernel_pre_median in Hp. lia.
Qed.

(* np1D_to_vector / one row of np2D_to_vector as fixed (3e1f4ee): n elements from the data pointer *)
Definition vec_copy (buf : list Z) (n : Z) : option (list Z) := HeapC19.mapM (rd buf) (zrange 0 n).

Theorem vec_copy_safe : forall buf n, n <= zlen buf -> vec_copy buf n <> None.
Proof.
  intros buf n Hn. unfold vec_copy.
  destruct (HeapC19Safe.mapM_ok _ _ (rd buf) (zrange 0 n)) as [r [E _]].
  - intros k Hk. apply In_zrange in Hk. apply rd_ok. lia.
  - rewrite E. discriminate.
Qed.

Theorem emd_pre_copies_safe : forall plen qlen pn pext qn qext crows ccols crowext pbuf qbuf crow,
  kernel_pre_emd plen qlen pn pext qn qext crows ccols crowext = true ->
  zlen pbuf = pext -> zlen qbuf = qext -> zlen crow = crowext ->
  vec_copy pbuf pn <> None /\ vec_copy qbuf qn <> None /\ vec_copy crow ccols <> None /\ 1 <= Z.max plen qlen.
Proof.
  intros plen qlen pn pext qn qext crows ccols crowext pbuf qbuf crow Hp Lp Lq Lc. unfold kernel_pre_emd in Hp.
  repeat split; try (apply vec_copy_safe; lia). lia.
Qed.

Example median_pre_example : kernel_pre_median 5 7 7 1 5 7 7 1 5 7 7 1 3 50 = true.
Proof. vm_compute. reflexivity. Qed.
