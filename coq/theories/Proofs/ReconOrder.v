(* C04 — the list stays value-sorted, a visited node is final, the loop terminates within its
   fuel: proofs over the pointwise order invariant [Ord] (ghost positions). *)
From Coq Require Import ZArith List Bool Lia ZifyBool.
From Centro Require Import Base.Sx Model.Recon Spec.ReconSpec Spec.ReconInv Proofs.ReconSound Proofs.ReconLoop.
Import ListNotations.
Open Scope Z_scope.

Section Order.
Variable g : geom.
Variable K : Z.
Variable v0 : arr.
Variable strides : list Z.
Hypothesis G : geom_ok g.
Notation S := (gS g).

(* the loop body in closed form *)
Lemma relax_eq s cur cv stride :
  Inv g K strides v0 s -> 0 <= cur < S -> interior_b g cur = true -> stride_ok g stride ->
  1 <= cv <= sel (vals s) cur ->
  relax S cur cv s stride = Ok (relinked S cur cv s stride).
Proof.
  intros I Hcur Hint Hst Hcv.
  destruct (last_not_interior g G) as [Hlast HS1].
  assert (Hnb := interior_step g cur stride G Hint Hst).
  unfold relax, relinked. set (nb := cur + stride) in *.
  destruct I as [Rv Rp Rn Pb Nb Nx Pm Pad Vk Lo Mk Le].
  rewrite (rd_ok _ _ nb Rv) by lia. cbn [bind].
  set (nv := sel (vals s) nb).
  destruct (nv <? cv) eqn:E1; [|reflexivity].
  rewrite (rd_ok _ _ (nb + S) Rv) by lia. cbn [bind].
  set (mv := sel (vals s) (nb + S)).
  destruct (nv <? mv) eqn:E2; [|reflexivity]. cbn [andb].
  assert (Vnb := Vk nb ltac:(lia)). fold nv in Vnb.
  assert (Inb : interior_b g nb = true).
  { destruct (interior_b g nb) eqn:Eb; [reflexivity|]. destruct (Pad nb ltac:(lia) Eb) as [_ Z0]. fold mv in Z0. lia. }
  assert (NbLast : nb <> S - 1) by (intros E; rewrite E in Inb; congruence).
  set (link := if mv <? cv then nb + S else cur).
  set (newv := if mv <? cv then mv else cv).
  assert (Hlink : 0 <= link < 2 * S - 1) by (unfold link; destruct (mv <? cv); lia).
  rewrite (wr_ok _ _ nb newv Rv) by lia. cbn [bind].
  rewrite (rd_ok _ _ nb Rp) by lia. cbn [bind].
  rewrite (rd_ok _ _ nb Rn) by lia. cbn [bind].
  set (nprev := sel (prv s) nb). set (nnext := sel (nxt s) nb).
  assert (Hnp : 0 <= nprev < 2 * S).
  { assert (B := Pb nb ltac:(lia)). fold nprev in B.
    destruct (Z.eq_dec nprev (-1)) as [Em|]; [|lia].
    assert (Q := Pm nb cur ltac:(lia) ltac:(lia) Em). fold nv in Q. lia. }
  assert (Hnn : 0 <= nnext < 2 * S).
  { assert (B := Nb nb ltac:(lia)). assert (Q := Nx nb ltac:(lia)). fold nnext in B, Q. lia. }
  rewrite (wr_ok _ _ nprev nnext Rn) by lia. cbn [bind].
  destruct (nnext =? -1) eqn:E4; [lia|].
  rewrite (wr_ok _ _ nnext nprev Rp) by lia. cbn [bind].
  set (nxt1 := put (nxt s) nprev nnext). set (prv1 := put (prv s) nnext nprev).
  assert (Rn1 : inrange nxt1 (2 * S)) by (apply inrange_put; [exact Rn|lia]).
  assert (Rp1 : inrange prv1 (2 * S)) by (apply inrange_put; [exact Rp|lia]).
  rewrite (rd_ok _ _ link Rn1) by lia. cbn [bind].
  set (nnext2 := sel nxt1 link).
  assert (Hn2 : 0 <= nnext2 < 2 * S).
  { unfold nnext2, nxt1. rewrite sel_put by lia. destruct (link =? nprev); [lia|].
    assert (B := Nb link ltac:(lia)). assert (Q := Nx link ltac:(lia)). lia. }
  rewrite (wr_ok _ _ nb nnext2 Rn1) by lia. cbn [bind].
  rewrite (wr_ok _ _ nb link Rp1) by lia. cbn [bind].
  destruct (0 <=? nnext2) eqn:E5; [|lia].
  set (nxt2 := put nxt1 nb nnext2). set (prv2 := put prv1 nb link).
  assert (Rn2 : inrange nxt2 (2 * S)) by (apply inrange_put; [exact Rn1|lia]).
  assert (Rp2 : inrange prv2 (2 * S)) by (apply inrange_put; [exact Rp1|lia]).
  rewrite (wr_ok _ _ nnext2 nb Rp2) by lia. cbn [bind].
  rewrite (wr_ok _ _ link nb Rn2) by lia. cbn [bind].
  reflexivity.
Qed.

Ltac ites := repeat match goal with
  | |- context [if ?b then _ else _] => destruct b eqn:?
  | H : context [if ?b then _ else _] |- _ => destruct b eqn:?
  end.

Lemma relinked_ord s cur cv stride pos :
  Inv g K strides v0 s -> Ord g strides s cur pos ->
  0 <= cur < S -> interior_b g cur = true -> stride_ok g stride ->
  Forall (stride_ok g) strides ->
  cv = sel (vals s) cur -> 1 <= cv ->
  let s' := relinked S cur cv s stride in
  exists pos', Ord g strides s' cur pos' /\
    (forall x, 0 <= x < 2 * S -> (pos' cur <= pos' x <-> pos cur <= pos x)) /\
    sel (vals s') cur = cv /\
    (forall i, sel (vals s) i <= sel (vals s') i) /\
    (forall i, S <= i < 2 * S -> sel (vals s') i = sel (vals s) i) /\
    Z.min (sel (vals s') (cur + stride + S)) cv <= sel (vals s') (cur + stride).
Proof.
  intros I O Hcur Hint Hst Hall Ecv Hcv1 s'. rewrite Forall_forall in Hall.
  destruct (last_not_interior g G) as [Hlast HS1].
  assert (Hnb := interior_step g cur stride G Hint Hst).
  unfold relinked in s'. set (nb := cur + stride) in *.
  set (nv := sel (vals s) nb) in *. set (mv := sel (vals s) (nb + S)) in *.
  destruct I as [Rv Rp Rn Pb Nb Nx Pm Pad Vk Lo Mk Le].
  destruct O as [Oinj Onx Ogap Olast Oval Opn Onp Odone].
  assert (Vnb := Vk nb ltac:(lia)). fold nv in Vnb.
  destruct ((nv <? cv) && (nv <? mv)) eqn:E12.
  2:{ exists pos. subst s'. split; [constructor; assumption|]. split; [intros; tauto|].
      split; [symmetry; exact Ecv|]. split; [intros; lia|]. split; [intros; reflexivity|].
      fold nb. fold mv. fold nv. lia. }
  assert (E1 : nv < cv) by lia. assert (E2 : nv < mv) by lia.
  assert (Inb : interior_b g nb = true).
  { destruct (interior_b g nb) eqn:Eb; [reflexivity|]. destruct (Pad nb ltac:(lia) Eb) as [_ Z0]. fold mv in Z0. lia. }
  assert (NbLast : nb <> S - 1) by (intros E; rewrite E in Inb; congruence).
  assert (Ncur : nb <> cur) by (intros E; unfold nv in E1; rewrite E in E1; lia).
  set (link := if mv <? cv then nb + S else cur) in *.
  set (newv := if mv <? cv then mv else cv) in *.
  assert (Hlink : 0 <= link < 2 * S - 1) by (unfold link; destruct (mv <? cv); lia).
  assert (Hnewv : nv < newv /\ newv <= mv /\ newv <= cv /\ 1 <= newv /\ Z.min mv cv <= newv) by (unfold newv; destruct (mv <? cv) eqn:E3; lia).
  assert (Vlink : sel (vals s) link = newv) by (unfold link, newv; destruct (mv <? cv); [reflexivity|lia]).
  assert (Nlink : link <> nb) by (unfold link; destruct (mv <? cv); lia).
  set (nprev := sel (prv s) nb) in *. set (nnext := sel (nxt s) nb) in *.
  assert (Enprev : nprev = sel (prv s) nb) by reflexivity. assert (Ennext : nnext = sel (nxt s) nb) by reflexivity.
  assert (Hnp : 0 <= nprev < 2 * S).
  { assert (B := Pb nb ltac:(lia)). fold nprev in B.
    destruct (Z.eq_dec nprev (-1)) as [Em|]; [|lia].
    assert (Q := Pm nb cur ltac:(lia) ltac:(lia) Em). fold nv in Q. lia. }
  assert (Hnn : 0 <= nnext < 2 * S).
  { assert (B := Nb nb ltac:(lia)). assert (Q := Nx nb ltac:(lia)). fold nnext in B, Q. lia. }
  (* positions *)
  assert (F1 : pos cur < pos nb).
  { destruct (Z_lt_ge_dec (pos cur) (pos nb)) as [L|Ge]; [exact L|].
    destruct (Z.eq_dec (pos nb) (pos cur)) as [Eq|Ne].
    - apply Oinj in Eq; lia.
    - assert (Q := Oval nb cur ltac:(lia) ltac:(lia) ltac:(lia)). fold nv in Q. lia. }
  assert (F2a : pos cur <= pos link).
  { unfold link. destruct (mv <? cv) eqn:E3; [|lia].
    destruct (Z_lt_ge_dec (pos (nb + S)) (pos cur)) as [L|Ge]; [|lia].
    assert (Q := Oval (nb + S) cur ltac:(lia) ltac:(lia) L). fold mv in Q. lia. }
  assert (F2b : pos link < pos nb).
  { destruct (Z_lt_ge_dec (pos link) (pos nb)) as [L|Ge]; [exact L|].
    destruct (Z.eq_dec (pos link) (pos nb)) as [Eq|Ne].
    - apply Oinj in Eq; lia.
    - assert (Q := Oval nb link ltac:(lia) ltac:(lia) ltac:(lia)). fold nv in Q. lia. }
  assert (F3a : sel (nxt s) nprev = nb) by (apply (Opn nb); [lia|fold nprev; lia]).
  assert (F3b : sel (prv s) nnext = nb) by (apply (Onp nb); [lia|fold nnext; lia]).
  assert (F3c : pos nprev < pos nb) by (assert (Q := Onx nprev Hnp ltac:(rewrite F3a; lia)); rewrite F3a in Q; exact Q).
  assert (F3d : pos nb < pos nnext) by (apply (Onx nb); [lia|fold nnext; lia]).
  assert (F4 : pos link <= pos nprev).
  { assert (Q := Ogap nprev link Hnp ltac:(lia) ltac:(rewrite F3a; lia)). rewrite F3a in Q. lia. }
  set (nl := sel (nxt s) link). assert (Enl : nl = sel (nxt s) link) by reflexivity.
  assert (F5 : nl <> -1 /\ 0 <= nl < 2 * S /\ pos link < pos nl).
  { assert (Q := Nx link Hlink). assert (B := Nb link ltac:(lia)). fold nl in Q, B.
    split; [exact Q|]. split; [lia|]. apply (Onx link); [lia|exact Q]. }
  destruct F5 as (F5a & F5b & F5c).
  assert (F7 : forall _ : unit, link <> nprev -> nl <> nb).
  { intros _ Hn E. assert (Q := Onp link ltac:(lia) F5a). fold nl in Q. rewrite E in Q. fold nprev in Q. lia. }
  assert (F8 : forall _ : unit, link <> nprev -> nl <> nnext).
  { intros _ Hn E. assert (Q := Onp link ltac:(lia) F5a). fold nl in Q. rewrite E, F3b in Q. lia. }
  assert (F9 : forall _ : unit, link = nprev -> nl = nb) by (intros _ E; unfold nl; rewrite E; exact F3a).
  set (nxt1 := put (nxt s) nprev nnext) in *. set (prv1 := put (prv s) nnext nprev) in *.
  set (nnext2 := sel nxt1 link) in *.
  assert (F6 : nnext2 = if link =? nprev then nnext else nl)
    by (unfold nnext2, nxt1; rewrite sel_put by lia; reflexivity).
  assert (F6a : forall _ : unit, link = nprev -> nnext2 = nnext) by (intros _ E; rewrite F6; destruct (link =? nprev) eqn:D; [reflexivity|lia]).
  assert (F6b : forall _ : unit, link <> nprev -> nnext2 = nl) by (intros _ E; rewrite F6; destruct (link =? nprev) eqn:D; [lia|reflexivity]).
  assert (Hn2 : 0 <= nnext2 < 2 * S) by (rewrite F6; destruct (link =? nprev); lia).
  assert (Nnn : nnext <> nb) by (intros E; rewrite E in F3d; lia).
  assert (Npn : nprev <> nb) by (intros E; rewrite E in F3c; lia).
  assert (N2nb : nnext2 <> nb) by (rewrite F6; destruct (link =? nprev) eqn:E; [exact Nnn|apply (F7 tt); lia]).
  assert (P2 : pos link < pos nnext2).
  { rewrite F6. destruct (link =? nprev) eqn:E; [|exact F5c]. assert (E' : link = nprev) by lia. rewrite E'. lia. }
  clear F6.
  (* tables of the new arrays *)
  assert (TN : forall x, sel (nxt s') x =
            if x =? link then nb else if x =? nb then nnext2 else if x =? nprev then nnext else sel (nxt s) x).
  { intros x. subst s'. cbn [nxt]. unfold nxt1. rewrite !sel_put by lia. reflexivity. }
  assert (TP : forall x, sel (prv s') x =
            if x =? nnext2 then nb else if x =? nb then link else if x =? nnext then nprev else sel (prv s) x).
  { intros x. subst s'. cbn [prv]. unfold prv1. rewrite !sel_put by lia. reflexivity. }
  assert (TV : forall x, sel (vals s') x = if x =? nb then newv else sel (vals s) x).
  { intros x. subst s'. cbn [vals]. rewrite sel_put by lia. reflexivity. }
  set (pos' := fun x => if x =? nb then 2 * pos link + 1 else 2 * pos x).
  exists pos'.
  assert (PP : forall x, pos' x = if x =? nb then 2 * pos link + 1 else 2 * pos x) by reflexivity.
  assert (Env : nv = sel (vals s) nb) by reflexivity.
  assert (Emv : mv = sel (vals s) (nb + S)) by reflexivity.
  assert (Enb : nb = cur + stride) by reflexivity.
  assert (Rnb : 0 <= nb < S) by lia.
  clearbody s' pos' nnext2 nxt1 prv1 link newv nl nprev nnext nv mv nb.
  clear Hlast Hint Hst Pad Lo Mk Le Pm Rv Rp Rn E12 Inb Hnb Nx Nb.
  split; [|split; [|split; [|split; [|split]]]].
  - constructor.
    + (* o_inj *) intros x y Hx Hy. rewrite !PP. intros E.
      destruct (x =? nb) eqn:X; destruct (y =? nb) eqn:Y; try lia. apply Oinj; lia.
    + (* o_nx *) intros x Hx. rewrite TN. rewrite !PP.
      destruct (x =? link) eqn:X1.
      { intros Hne. assert (x = link) by lia. subst x. destruct (link =? nb) eqn:A; [lia|]. destruct (nb =? nb) eqn:B; lia. }
      destruct (x =? nb) eqn:X2.
      { intros Hne. destruct (nnext2 =? nb) eqn:A; [lia|]. lia. }
      destruct (x =? nprev) eqn:X3.
      { intros Hne. assert (x = nprev) by lia. subst x. destruct (nnext =? nb) eqn:A; [lia|]. lia. }
      intros Hne. assert (Q := Onx x Hx Hne). destruct (sel (nxt s) x =? nb) eqn:A; [|lia].
      exfalso. assert (Q2 := Onp x Hx Hne). assert (sel (nxt s) x = nb) as E by lia. rewrite E in Q2. rewrite <- Enprev in Q2. lia.
    + (* o_gap *) intros x y Hx Hy. rewrite TN. rewrite !PP.
      destruct (x =? link) eqn:X1.
      { intros Hne. assert (x = link) by lia. subst x. destruct (link =? nb) eqn:A; [lia|]. destruct (nb =? nb) eqn:B; [|lia].
        destruct (y =? nb) eqn:C; lia. }
      destruct (x =? nb) eqn:X2.
      { intros Hne. destruct (nnext2 =? nb) eqn:A; [lia|]. destruct (y =? nb) eqn:C; [lia|].
        intros [L1 L2]. assert (L3 : pos link < pos y < pos nnext2) by lia.
        destruct (link =? nprev) eqn:D.
        - assert (link = nprev) by lia. rewrite (F6a tt H) in L3. rewrite H in L3.
          assert (Q1 := Ogap nprev y Hnp Hy ltac:(rewrite F3a; lia)). rewrite F3a in Q1.
          assert (Q2 := Ogap nb y ltac:(lia) Hy ltac:(rewrite <- Ennext; lia)). rewrite <- Ennext in Q2.
          assert (pos y = pos nb) by lia. apply Oinj in H0; lia.
        - rewrite (F6b tt ltac:(lia)) in L3.
          assert (Q := Ogap link y ltac:(lia) Hy ltac:(rewrite <- Enl; exact F5a)). rewrite <- Enl in Q. lia. }
      destruct (x =? nprev) eqn:X3.
      { intros Hne. assert (x = nprev) by lia. subst x. destruct (nnext =? nb) eqn:A; [lia|].
        destruct (y =? nb) eqn:C.
        - intros [L1 L2]. assert (pos nprev <= pos link) by lia. assert (pos link = pos nprev) by lia.
          apply Oinj in H0; lia.
        - intros [L1 L2].
          assert (Q1 := Ogap nprev y Hnp Hy ltac:(rewrite F3a; lia)). rewrite F3a in Q1.
          assert (Q2 := Ogap nb y ltac:(lia) Hy ltac:(rewrite <- Ennext; lia)). rewrite <- Ennext in Q2.
          assert (pos y = pos nb) by lia. apply Oinj in H; lia. }
      intros Hne. assert (Q := Ogap x y Hx Hy Hne). assert (Q0 := Onx x Hx Hne).
      destruct (sel (nxt s) x =? nb) eqn:A.
      { exfalso. assert (Q2 := Onp x Hx Hne). assert (sel (nxt s) x = nb) as E by lia. rewrite E in Q2. rewrite <- Enprev in Q2. lia. }
      destruct (y =? nb) eqn:C; [|intros [L1 L2]; apply Q; clear - L1 L2; lia].
      intros [L1 L2]. assert (Q3 := Ogap x link Hx ltac:(lia) Hne).
      assert (pos x <= pos link) by (clear - L1; lia). assert (pos x <> pos link) by (intros E; apply Oinj in E; lia).
      clear - H H0 L2 Q3. lia.
    + (* o_last *) intros x Hx. rewrite !PP. destruct (2 * S - 1 =? nb) eqn:A; [lia|].
      destruct (x =? nb) eqn:B; [|assert (Q := Olast x Hx); lia].
      assert (Q := Olast link Hlink). lia.
    + (* o_val *) intros x y Hx Hy. rewrite !PP, !TV.
      destruct (x =? nb) eqn:X; destruct (y =? nb) eqn:Y; intros L; try lia.
      * assert (Q := Oval link y ltac:(lia) Hy ltac:(lia)). lia.
      * destruct (Z.eq_dec x link) as [->|Nx']; [lia|].
        assert (pos x <> pos link) by (intros E; apply Oinj in E; lia).
        assert (Q := Oval x link Hx ltac:(lia) ltac:(lia)). lia.
      * apply Oval; lia.
    + (* o_pn *) intros x Hx. rewrite TP.
      destruct (x =? nnext2) eqn:X1.
      { intros Hne. rewrite TN. destruct (nb =? link) eqn:A; [lia|]. destruct (nb =? nb) eqn:B; lia. }
      destruct (x =? nb) eqn:X2.
      { intros Hne. rewrite TN. destruct (link =? link) eqn:A; lia. }
      destruct (x =? nnext) eqn:X3.
      { intros Hne. rewrite TN. assert (x = nnext) by lia. subst x.
        assert (link <> nprev) by (intros E; rewrite (F6a tt E) in X1; lia).
        destruct (nprev =? link) eqn:A; [lia|]. destruct (nprev =? nb) eqn:B; [lia|].
        destruct (nprev =? nprev) eqn:C; lia. }
      intros Hne. rewrite TN. assert (Q := Opn x Hx Hne). set (w := sel (prv s) x) in *.
      assert (Hw : 0 <= w < 2 * S) by (assert (B := Pb x Hx); fold w in B; lia).
      destruct (w =? link) eqn:A.
      { exfalso. assert (w = link) by lia. rewrite H in Q. rewrite <- Enl in Q.
        destruct (link =? nprev) eqn:D; [|rewrite (F6b tt ltac:(lia)) in X1; lia].
        assert (nl = nb) by (apply (F9 tt); lia). lia. }
      destruct (w =? nb) eqn:B.
      { exfalso. assert (w = nb) by lia. rewrite H in Q. rewrite <- Ennext in Q. lia. }
      destruct (w =? nprev) eqn:C; [|exact Q].
      exfalso. assert (w = nprev) by lia. rewrite H, F3a in Q. lia.
    + (* o_np *) intros x Hx. rewrite TN.
      destruct (x =? link) eqn:X1.
      { intros Hne. rewrite TP. destruct (nb =? nnext2) eqn:A; [lia|]. destruct (nb =? nb) eqn:B; lia. }
      destruct (x =? nb) eqn:X2.
      { intros Hne. rewrite TP. destruct (nnext2 =? nnext2) eqn:A; lia. }
      destruct (x =? nprev) eqn:X3.
      { intros Hne. rewrite TP. assert (x = nprev) by lia. subst x.
        assert (nnext <> nnext2).
        { destruct (link =? nprev) eqn:D; [lia|]. rewrite (F6b tt ltac:(lia)). intros E. apply (F8 tt); [lia|]. lia. }
        destruct (nnext =? nnext2) eqn:A; [lia|]. destruct (nnext =? nb) eqn:B; [lia|].
        destruct (nnext =? nnext) eqn:C; lia. }
      intros Hne. rewrite TP. assert (Q := Onp x Hx Hne). set (y := sel (nxt s) x) in *.
      destruct (y =? nnext2) eqn:A.
      { exfalso. assert (y = nnext2) by lia. destruct (link =? nprev) eqn:D.
        - rewrite (F6a tt ltac:(lia)) in H. rewrite H, F3b in Q. lia.
        - rewrite (F6b tt ltac:(lia)) in H.
          assert (Q2 := Onp link ltac:(lia) ltac:(rewrite <- Enl; exact F5a)). rewrite <- Enl in Q2. rewrite <- H in Q2. rewrite Q in Q2. lia. }
      destruct (y =? nb) eqn:B.
      { exfalso. assert (y = nb) by lia. rewrite H in Q. rewrite <- Enprev in Q. lia. }
      destruct (y =? nnext) eqn:C; [|exact Q].
      exfalso. assert (y = nnext) by lia. rewrite H, F3b in Q. lia.
    + (* o_done *) intros p Hp Hpi [Hm|Hlt]; [lia|]. revert Hlt. rewrite !PP.
      destruct (cur =? nb) eqn:A; [lia|]. destruct (p =? nb) eqn:B; [intros Hlt; lia|]. intros Hlt.
      assert (Hlt' : pos p < pos cur) by lia. assert (D := Odone p Hp Hpi (or_intror Hlt')). intros sd Hsd. specialize (D sd Hsd).
      assert (Hq := interior_step g p sd G Hpi (Hall sd Hsd)).
      rewrite !TV. destruct (p + sd + S =? nb) eqn:C1; [lia|]. rewrite B.
      destruct (p + sd =? nb) eqn:C2; [|exact D].
      assert (p + sd = nb) by lia. rewrite H in D. rewrite <- Env in D. lia.
  - intros x Hx. rewrite !PP. destruct (cur =? nb) eqn:A; [lia|]. destruct (x =? nb) eqn:B; [|lia].
    assert (x = nb) by lia. subst x. lia.
  - rewrite TV. destruct (cur =? nb) eqn:A; [lia|]. symmetry; exact Ecv.
  - intros i. rewrite TV. destruct (i =? nb) eqn:A; [|lia]. assert (i = nb) by lia. subst i. rewrite <- Env. lia.
  - intros i Hi. rewrite TV. destruct (i =? nb) eqn:A; [lia|reflexivity].
  - rewrite !TV. destruct (nb + S =? nb) eqn:A; [lia|]. destruct (nb =? nb) eqn:B; [|lia]. rewrite <- Emv. lia.
Qed.

(* moving [cur] along next: the nodes before the new current are the old ones plus [cur] *)
Lemma ord_advance s cur pos :
  Inv g K strides v0 s -> Ord g strides s cur pos -> 0 <= cur < 2 * S ->
  (cur < S -> interior_b g cur = true -> closed_at g strides s cur) ->
  Ord g strides s (sel (nxt s) cur) pos.
Proof.
  intros I O Hcur Hc. destruct O as [Oinj Onx Ogap Olast Oval Opn Onp Odone].
  constructor; try assumption.
  intros p Hp Hpi Hd.
  destruct (Z.eq_dec p cur) as [->|Np]; [apply Hc; [lia|exact Hpi]|].
  apply Odone; [exact Hp|exact Hpi|]. right.
  destruct (Z.eq_dec (sel (nxt s) cur) (-1)) as [Em|Nm].
  - assert (cur = 2 * S - 1).
    { destruct (Z.eq_dec cur (2 * S - 1)) as [E|N]; [exact E|]. exfalso. apply (i_nx _ _ _ _ _ I cur); lia. }
    subst cur. apply Olast. lia.
  - destruct Hd as [Hd|Hd]; [contradiction|].
    assert (Q := Ogap cur p Hcur ltac:(lia) Nm).
    assert (pos p <> pos cur) by (intros E; apply Oinj in E; lia). lia.
Qed.

(* the `for i in range(nstrides)` loop under both invariants *)
Lemma relax_all_ord (Hall : Forall (stride_ok g) strides) sts : (forall sd, In sd sts -> In sd strides) ->
  forall s cur cv pos done,
  Inv g K strides v0 s -> Ord g strides s cur pos -> 0 <= cur < S -> interior_b g cur = true ->
  cv = sel (vals s) cur -> 1 <= cv ->
  (forall sd, In sd done -> In sd strides /\ Z.min (sel (vals s) (cur + sd + S)) cv <= sel (vals s) (cur + sd)) ->
  exists s' pos', fold_res (relax S cur cv) sts s = Ok s' /\ Inv g K strides v0 s' /\ Ord g strides s' cur pos' /\
    sel (vals s') cur = cv /\ drops s' = drops s /\
    (forall x, 0 <= x < 2 * S -> (pos' cur <= pos' x <-> pos cur <= pos x)) /\
    (forall sd, In sd (done ++ sts) -> Z.min (sel (vals s') (cur + sd + S)) cv <= sel (vals s') (cur + sd)).
Proof.
  induction sts as [|sd0 sts IH]; intros Hsub s cur cv pos done I O Hcur Hint Ecv Hcv Hdone; cbn [fold_res].
  - exists s, pos. split; [reflexivity|]. split; [exact I|]. split; [exact O|]. split; [symmetry; exact Ecv|].
    split; [reflexivity|]. split; [intros; tauto|]. intros sd Hsd. rewrite app_nil_r in Hsd. apply Hdone; exact Hsd.
  - assert (Hin0 : In sd0 strides) by (apply Hsub; left; reflexivity).
    assert (Hst0 : stride_ok g sd0) by (rewrite Forall_forall in Hall; apply Hall; exact Hin0).
    assert (Hcv2 : 1 <= cv <= sel (vals s) cur) by lia.
    rewrite (relax_eq s cur cv sd0 I Hcur Hint Hst0 Hcv2). cbn [bind].
    destruct (relax_inv g K v0 strides G s cur cv sd0 I Hcur Hint Hst0 Hin0 Hcv2) as (s1 & E1 & I1 & D1 & _).
    rewrite (relax_eq s cur cv sd0 I Hcur Hint Hst0 Hcv2) in E1. inversion E1 as [E1']. clear E1.
    destruct (relinked_ord s cur cv sd0 pos I O Hcur Hint Hst0 Hall Ecv Hcv) as (pos1 & O1 & C1 & V1 & M1 & K1 & R1).
    rewrite E1' in *.
    assert (Hdone1 : forall sd, In sd (done ++ [sd0]) ->
              In sd strides /\ Z.min (sel (vals s1) (cur + sd + S)) cv <= sel (vals s1) (cur + sd)).
    { intros sd Hsd. apply in_app_or in Hsd. destruct Hsd as [Hsd|[<-|[]]].
      - destruct (Hdone sd Hsd) as [Hi Hm]. split; [exact Hi|].
        assert (Hq : 0 <= cur + sd < S) by (apply (interior_step g cur sd G Hint); rewrite Forall_forall in Hall; apply Hall; exact Hi).
        rewrite (K1 (cur + sd + S)) by lia. assert (Q := M1 (cur + sd)). lia.
      - split; [exact Hin0|exact R1]. }
    destruct (IH (fun sd Hsd => Hsub sd (or_intror Hsd)) s1 cur cv pos1 (done ++ [sd0]) I1 O1 Hcur Hint
                 (eq_sym V1) Hcv Hdone1) as (s2 & pos2 & E2 & I2 & O2 & V2 & D2 & C2 & R2).
    exists s2, pos2. split; [exact E2|]. split; [exact I2|]. split; [exact O2|]. split; [exact V2|].
    split; [congruence|]. split.
    + intros x Hx. rewrite (C2 x Hx). apply C1; exact Hx.
    + intros sd Hsd. apply R2. rewrite <- app_assoc. exact Hsd.
Qed.

(* recon_loop_closed: when the while loop returns, no dilate-and-clip step along any stride can
   raise any interior pixel: the list stayed value-sorted, every visited node was final *)
Theorem loop_closed (Hall : Forall (stride_ok g) strides) : forall fuel cur s pos,
  Inv g K strides v0 s -> Ord g strides s cur pos -> -1 <= cur < 2 * S ->
  match loop fuel S strides cur s with
  | Ok s' => forall p, 0 <= p < S -> interior_b g p = true -> closed_at g strides s' p
  | _ => True
  end.
Proof.
  induction fuel as [|f IH]; intros cur s pos I O Hcur; cbn [loop]; [exact Logic.I|].
  destruct (cur =? -1) eqn:E0.
  { intros p Hp Hpi. apply (o_done _ _ _ _ _ O p Hp Hpi). left. lia. }
  destruct (cur <? S) eqn:E1.
  - rewrite (rd_ok _ _ cur (i_rv _ _ _ _ _ I)) by lia. cbn [bind].
    destruct (sel (vals s) cur =? 0) eqn:E2.
    { intros p Hp Hpi.
      destruct (Z_lt_ge_dec (pos p) (pos cur)) as [L|Ge]; [apply (o_done _ _ _ _ _ O p Hp Hpi); right; exact L|].
      assert (Vp : sel (vals s) p = 0).
      { assert (R := i_vk _ _ _ _ _ I p ltac:(lia)).
        destruct (Z.eq_dec p cur) as [->|Np]; [lia|].
        assert (pos p <> pos cur) by (intros E; apply (o_inj _ _ _ _ _ O) in E; lia).
        assert (Q := o_val _ _ _ _ _ O cur p ltac:(lia) ltac:(lia) ltac:(lia)). lia. }
      intros sd Hsd. rewrite Vp.
      assert (Hq : 0 <= p + sd < S) by (apply (interior_step g p sd G Hpi); rewrite Forall_forall in Hall; apply Hall; exact Hsd).
      assert (R := i_vk _ _ _ _ _ I (p + sd) ltac:(lia)). lia. }
    assert (Hint : interior_b g cur = true).
    { destruct (interior_b g cur) eqn:Eb; [reflexivity|].
      destruct (i_pad _ _ _ _ _ I cur ltac:(lia) Eb) as [Z0 _]. lia. }
    assert (Vc := i_vk _ _ _ _ _ I cur ltac:(lia)).
    destruct (relax_all_ord Hall strides (fun sd H => H) s cur (sel (vals s) cur) pos [] I O ltac:(lia) Hint eq_refl ltac:(lia)
                ltac:(intros sd []))
      as (s1 & pos1 & R1 & I1 & O1 & V1 & D1 & C1 & Cl1).
    rewrite R1. cbn [bind].
    rewrite (rd_ok _ _ cur (i_rn _ _ _ _ _ I1)) by lia. cbn [bind].
    assert (B := i_nb _ _ _ _ _ I1 cur ltac:(lia)).
    apply (IH (sel (nxt s1) cur) s1 pos1 I1); [|lia].
    apply ord_advance; [exact I1|exact O1|lia|].
    intros _ _ sd Hsd. rewrite V1. apply Cl1. exact Hsd.
  - rewrite (rd_ok _ _ cur (i_rn _ _ _ _ _ I)) by lia. cbn [bind].
    assert (B := i_nb _ _ _ _ _ I cur ltac:(lia)).
    apply (IH (sel (nxt s) cur) s pos I); [|lia].
    apply ord_advance; [exact I|exact O|lia|]. intros Hlt. lia.
Qed.

(* ------------------------------------------------------------------ termination within the fuel *)
Definition cnt (pos : Z -> Z) (cur : Z) : nat :=
  length (filter (fun x => pos cur <=? pos x) (zrange (2 * S))).

Lemma filter_length_lt {A} (P P' : A -> bool) (l : list A) a :
  (forall x, P' x = true -> P x = true) -> In a l -> P a = true -> P' a = false ->
  (length (filter P' l) < length (filter P l))%nat.
Proof.
  intros Himp. induction l as [|b l IH]; intros Hin Pa P'a; [destruct Hin|].
  assert (Le : forall l0, (length (filter P' l0) <= length (filter P l0))%nat).
  { induction l0 as [|c l0 IH0]; cbn [filter length]; [lia|].
    destruct (P' c) eqn:E1; [rewrite (Himp c E1); cbn [length]; lia|]. destruct (P c); cbn [length]; lia. }
  cbn [filter]. destruct Hin as [->|Hin].
  - rewrite Pa, P'a. cbn [length]. specialize (Le l). lia.
  - specialize (IH Hin Pa P'a). destruct (P' b) eqn:E1; [rewrite (Himp b E1); cbn [length]; lia|].
    destruct (P b); cbn [length]; lia.
Qed.

Lemma cnt_ext pos pos' cur : (forall x, 0 <= x < 2 * S -> (pos' cur <= pos' x <-> pos cur <= pos x)) ->
  cnt pos' cur = cnt pos cur.
Proof.
  intros H. unfold cnt. f_equal. apply filter_ext_in. intros x Hx. apply in_zrange in Hx.
  specialize (H x Hx). destruct (pos' cur <=? pos' x) eqn:A; destruct (pos cur <=? pos x) eqn:B; try reflexivity; lia.
Qed.

Lemma cnt_step pos cur c' : 0 <= cur < 2 * S -> pos cur < pos c' -> (cnt pos c' < cnt pos cur)%nat.
Proof.
  intros Hcur Hlt. unfold cnt. apply filter_length_lt with (a := cur).
  - intros x Hx. lia.
  - apply in_zrange. exact Hcur.
  - lia.
  - lia.
Qed.

Lemma cnt_le pos cur : (cnt pos cur <= Z.to_nat (2 * S))%nat.
Proof.
  unfold cnt. assert (Q : forall (P : Z -> bool) l, (length (filter P l) <= length l)%nat).
  { intros P l. induction l as [|a l IH]; cbn [filter length]; [lia|]. destruct (P a); cbn [length]; lia. }
  etransitivity; [apply Q|]. unfold zrange. rewrite length_zseq. lia.
Qed.

(* fuel sufficiency: the number of nodes not before [cur] bounds the remaining iterations *)
Theorem loop_fuel (Hall : Forall (stride_ok g) strides) : forall fuel cur s pos,
  Inv g K strides v0 s -> Ord g strides s cur pos -> -1 <= cur < 2 * S ->
  (1 <= fuel)%nat -> (cur <> -1 -> (cnt pos cur < fuel)%nat) ->
  loop fuel S strides cur s <> OutOfFuel.
Proof.
  induction fuel as [|f IH]; intros cur s pos I O Hcur Hf Hc; [lia|]. cbn [loop].
  destruct (cur =? -1) eqn:E0; [discriminate|].
  specialize (Hc ltac:(lia)).
  assert (Step : forall s1 pos1, Inv g K strides v0 s1 -> Ord g strides s1 cur pos1 ->
            cnt pos1 cur = cnt pos cur ->
            (cur < S -> interior_b g cur = true -> closed_at g strides s1 cur) ->
            loop f S strides (sel (nxt s1) cur) s1 <> OutOfFuel).
  { intros s1 pos1 I1 O1 Ec Hcl.
    assert (B := i_nb _ _ _ _ _ I1 cur ltac:(lia)).
    assert (O1' := ord_advance s1 cur pos1 I1 O1 ltac:(lia) Hcl).
    destruct (Z.eq_dec (sel (nxt s1) cur) (-1)) as [Em|Nm].
    - assert (1 <= cnt pos1 cur)%nat.
      { unfold cnt. assert (Q := filter_length_lt (fun x => pos1 cur <=? pos1 x) (fun _ => false) (zrange (2 * S)) cur
          ltac:(intros; discriminate) ltac:(apply in_zrange; lia) ltac:(lia) eq_refl). lia. }
      apply (IH _ s1 pos1 I1 O1'); [lia|lia|]. intros N. contradiction.
    - assert (L := o_nx _ _ _ _ _ O1 cur ltac:(lia) Nm).
      assert (Q := cnt_step pos1 cur _ ltac:(lia) L).
      apply (IH _ s1 pos1 I1 O1'); [lia|lia|]. intros _. lia. }
  destruct (cur <? S) eqn:E1.
  - rewrite (rd_ok _ _ cur (i_rv _ _ _ _ _ I)) by lia. cbn [bind].
    destruct (sel (vals s) cur =? 0) eqn:E2; [discriminate|].
    assert (Hint : interior_b g cur = true).
    { destruct (interior_b g cur) eqn:Eb; [reflexivity|].
      destruct (i_pad _ _ _ _ _ I cur ltac:(lia) Eb) as [Z0 _]. lia. }
    assert (Vc := i_vk _ _ _ _ _ I cur ltac:(lia)).
    destruct (relax_all_ord Hall strides (fun sd H => H) s cur (sel (vals s) cur) pos [] I O ltac:(lia) Hint eq_refl ltac:(lia)
                ltac:(intros sd []))
      as (s1 & pos1 & R1 & I1 & O1 & V1 & D1 & C1 & Cl1).
    rewrite R1. cbn [bind].
    rewrite (rd_ok _ _ cur (i_rn _ _ _ _ _ I1)) by lia. cbn [bind].
    apply (Step s1 pos1 I1 O1 (cnt_ext pos pos1 cur C1)).
    intros _ _ sd Hsd. rewrite V1. apply Cl1. exact Hsd.
  - rewrite (rd_ok _ _ cur (i_rn _ _ _ _ _ I)) by lia. cbn [bind].
    apply (Step s pos I O eq_refl). intros Hlt. lia.
Qed.

(* total correctness of the loop in flat/rank space, given both invariants at the start: with the
   fuel the model uses (2S+1) the loop RETURNS, memory-safely, nothing dropped, and its result is
   between the initial image plane and the mask plane (Inv), below every post-fixed image (Inv) and
   closed under the dilate-and-clip step along every stride *)
Theorem loop_total (Hall : Forall (stride_ok g) strides) cur s pos :
  Inv g K strides v0 s -> Ord g strides s cur pos -> -1 <= cur < 2 * S ->
  exists s', loop (Datatypes.S (Z.to_nat (2 * S))) S strides cur s = Ok s' /\
    Inv g K strides v0 s' /\ drops s' = drops s /\
    forall p, 0 <= p < S -> interior_b g p = true -> closed_at g strides s' p.
Proof.
  intros I O Hcur.
  assert (A := loop_safe g K v0 strides G Hall (Datatypes.S (Z.to_nat (2 * S))) cur s I Hcur).
  assert (B := loop_fuel Hall (Datatypes.S (Z.to_nat (2 * S))) cur s pos I O Hcur ltac:(lia)
                 ltac:(intros _; assert (Q := cnt_le pos cur); lia)).
  assert (C := loop_closed Hall (Datatypes.S (Z.to_nat (2 * S))) cur s pos I O Hcur).
  destruct (loop (Datatypes.S (Z.to_nat (2 * S))) S strides cur s) as [s'| | |]; try contradiction.
  exists s'. destruct A as [A1 A2]. split; [reflexivity|]. split; [exact A1|]. split; [exact A2|exact C].
Qed.
End Order.

(* ------------------------------------------------------------------ the boolean Ord checker *)
Theorem ord_check_sound g strides s cur posa :
  ord_check g strides s cur posa = true -> Ord g strides s cur (sel posa).
Proof.
  unfold ord_check. cbv zeta. set (pos := sel posa). set (n := 2 * gS g). intros Hc.
  apply andb_prop in Hc; destruct Hc as [F1 F2]. rewrite forallb_forall in F1, F2.
  assert (P1 : forall x, 0 <= x < n ->
     (sel (nxt s) x <> -1 -> pos x < pos (sel (nxt s) x)) /\
     (x < n - 1 -> pos x < pos (n - 1)) /\
     (sel (prv s) x <> -1 -> sel (nxt s) (sel (prv s) x) = x) /\
     (sel (nxt s) x <> -1 -> sel (prv s) (sel (nxt s) x) = x) /\
     forall y, 0 <= y < n ->
       (pos x = pos y -> x = y) /\
       (sel (nxt s) x <> -1 -> ~ (pos x < pos y < pos (sel (nxt s) x))) /\
       (pos x < pos y -> sel (vals s) y <= sel (vals s) x)).
  { intros x Hx. specialize (F1 x (proj2 (in_zrange x n) Hx)).
    apply andb_prop in F1; destruct F1 as [F1 Fy].
    split; [lia|]. split; [lia|]. split; [lia|]. split; [lia|].
    intros y Hy. rewrite forallb_forall in Fy. specialize (Fy y (proj2 (in_zrange y n) Hy)). lia. }
  constructor.
  - intros x y Hx Hy. apply (P1 x Hx); exact Hy.
  - intros x Hx. apply (P1 x Hx).
  - intros x y Hx Hy. apply (P1 x Hx); exact Hy.
  - intros x Hx. apply (P1 x ltac:(unfold n; lia)). unfold n. lia.
  - intros x y Hx Hy. apply (P1 x Hx); exact Hy.
  - intros x Hx. apply (P1 x Hx).
  - intros x Hx. apply (P1 x Hx).
  - intros p Hp Hpi Hd sd Hsd. specialize (F2 p (proj2 (in_zrange p _) Hp)).
    rewrite Hpi in F2. cbn [negb orb] in F2.
    destruct ((cur =? -1) || (pos p <? pos cur)) eqn:E; [|lia]. cbn [negb orb] in F2.
    rewrite forallb_forall in F2. specialize (F2 sd Hsd). lia.
Qed.

Definition prep_values_of (image mask : list (list Z)) (fp : list (list bool)) : list Z :=
  let H := zlen image in let W := width image in
  let p0 := zlen fp / 2 in let p1 := width fp / 2 in
  padded_plane H W p0 p1 (img_min image) image ++ padded_plane H W p0 p1 (img_min image) mask.
Definition vorder_of (values : list Z) : list Z :=
  map snd (Base.ReconSort.DescSort.sort (combine values (zrange (zlen values)))).

(* the hypotheses of loop_closed / loop_fuel / loop_total are satisfiable: the set-up state of a
   concrete instance passes inv_check and ord_check with pos = index in the lexsort order *)
Example ord_check_example :
  let p := prepare ex_seed ex_mask ex_fp in
  inv_check (prep_geom p) (p_K p) (p_st p) = true /\
  ord_check (prep_geom p) (p_strides p) (p_st p) (p_cur p)
            (order_pos (vorder_of (prep_values_of ex_seed ex_mask ex_fp))) = true.
Proof. vm_compute. split; reflexivity. Qed.
