(* C03: the two-int32 heap key of _propagate.pyx as a function of the binary64 bit pattern.
   For non-negative doubles (bit patterns 0 <= b < 2^63, whose integer order is the numeric
   order) the key is monotone, strictly so only when the dropped bit does not matter; the
   64-bit variant is strictly monotone.  Integer lemmas, no floats. *)
From Coq Require Import ZArith List Bool Lia ZifyBool.
From Centro Require Import Base.PropFloat Model.PropHeap Model.Propagate.
Import ListNotations.
Open Scope Z_scope.
Ltac Zify.zify_post_hook ::= Z.to_euclidean_division_equations.

Definition key (k : keymode) (b : Z) : Z * Z := (most_sig b, least_sig k b).
Definition lexle2 (x y : Z * Z) : Prop := fst x < fst y \/ (fst x = fst y /\ snd x <= snd y).
Definition lexlt2 (x y : Z * Z) : Prop := fst x < fst y \/ (fst x = fst y /\ snd x < snd y).

Lemma key_nonneg : forall k b, 0 <= b < two63 ->
  key k b = (b / two32, match k with Dropped => (b mod two32) / 2 | Full64 => b mod two32 end).
Proof.
  intros k b H. unfold key, most_sig, least_sig, two63, two32, two31 in *.
  assert (E : (b / 4294967296 >=? 2147483648) = false) by lia.
  rewrite E. reflexivity.
Qed.

Lemma key_monotone : forall k a b, 0 <= a -> a <= b -> b < two63 -> lexle2 (key k a) (key k b).
Proof.
  intros k a b H0 Hab Hb. rewrite !key_nonneg by lia. unfold lexle2, two63, two32 in *. cbn [fst snd].
  destruct k; lia.
Qed.

Lemma key_full64_strict : forall a b, 0 <= a -> a < b -> b < two63 ->
  lexlt2 (key Full64 a) (key Full64 b).
Proof.
  intros a b H0 Hab Hb. rewrite !key_nonneg by lia. unfold lexlt2, two63, two32 in *. cbn [fst snd]. lia.
Qed.

Lemma key_reflects_when_even : forall a b, 0 <= a -> a < b -> b < two63 -> b mod 2 = 0 ->
  lexlt2 (key Dropped a) (key Dropped b).
Proof.
  intros a b H0 Hab Hb He. rewrite !key_nonneg by lia. unfold lexlt2, two63, two32 in *. cbn [fst snd]. lia.
Qed.

(* two doubles one ulp apart, the lower one with even mantissa, have the same key *)
Lemma key_dropped_collision : forall c, 0 <= c -> 2 * c + 1 < two63 ->
  key Dropped (2 * c) = key Dropped (2 * c + 1).
Proof.
  intros c H0 H1. rewrite !key_nonneg by lia. unfold two63, two32 in *. f_equal; lia.
Qed.

(* the heap's comparison of two rows agrees with the key order on their first two columns *)
Lemma smaller_key_le : forall h1 l1 r1 h2 l2 r2,
  smaller (h1 :: l1 :: r1) (h2 :: l2 :: r2) = true -> lexle2 (h1, l1) (h2, l2).
Proof.
  intros. unfold smaller in H. cbn [lexlt] in H. unfold lexle2. cbn [fst snd].
  destruct (h1 =? h2) eqn:E1; [|lia]. destruct (l1 =? l2) eqn:E2; lia.
Qed.

Example key_collision_example :
  key Dropped 4609434218613702656 = key Dropped 4609434218613702657 /\
  lexlt2 (key Full64 4609434218613702656) (key Full64 4609434218613702657).
Proof. split; [vm_compute; reflexivity | right; vm_compute; split; [reflexivity|reflexivity]]. Qed.
