(* C13 — ellipse_rows_nth: the as-written model of ellipse_from_second_moments_ijv
   (bincount over all labels, centring through ic[labels], zipped rows, gather) returns, for every
   requested label, the coordinate-level row ell_c (own_coords im l). *)
From Coq Require Import ZArith QArith List Bool Lia.
From Centro Require Import Base.VecC13 Proofs.VecC13Proofs Model.MeasureC13 Model.EllipseCoordsC13
  Proofs.MeasureC13Proofs Proofs.EllipseC13Proofs.
Import ListNotations.
Open Scope Z_scope.

Definition nzp (im : img) : list (Z * Z * Z) := filter (fun p => negb (p_v p =? 0)) (pixels im).
Section MinLength.
(* the table length requested from np.bincount: minlength = max(indexes) + 1 *)
Variable mlen : Z.
Definition bcq (im : img) (val : Z * Z * Z -> Q) : list Q :=
  bincount 0%Q qadd mlen (map (fun p => (p_v p, val p)) (nzp im)).
Definition e_m00s im := bcq im (fun _ => 1%Q).
Definition e_ics im := omap2 qdiv (bcq im (fun p => inject_Z (p_y p))) (e_m00s im).
Definition e_jcs im := omap2 qdiv (bcq im (fun p => inject_Z (p_x p))) (e_m00s im).
Definition e_ci im (p : Z * Z * Z) : Q := (inject_Z (p_y p) - qget (e_ics im) (p_v p))%Q.
Definition e_cj im (p : Z * Z * Z) : Q := (inject_Z (p_x p) - qget (e_jcs im) (p_v p))%Q.
Definition e_as im := omap2 qdiv (bcq im (fun p => (e_ci im p * e_ci im p)%Q)) (e_m00s im).
Definition e_bs im := omap2 (fun x y => qdiv (2 * x) y) (bcq im (fun p => (e_ci im p * e_cj im p)%Q)) (e_m00s im).
Definition e_cs im := omap2 qdiv (bcq im (fun p => (e_cj im p * e_cj im p)%Q)) (e_m00s im).
Definition e_rows im : list (option ell) :=
  map frow (combine (e_m00s im) (combine (e_ics im) (combine (e_jcs im)
             (combine (e_as im) (combine (e_bs im) (e_cs im)))))).

Definition NN (im : img) : nat := Z.to_nat (Z.max (maxl (map p_v (nzp im)) + 1) mlen).

Lemma bcq_length im val : length (bcq im val) = NN im.
Proof. unfold bcq, NN. rewrite bincount_length, map_map. reflexivity. Qed.

Definition gq (im : img) (val : Z * Z * Z -> Q) (l : Z) : Q :=
  fold_left qadd (map val (filter (fun p => p_v p =? l) (nzp im))) 0%Q.

Lemma nzp_nonneg im (val : Z * Z * Z -> Q) : nonneg_img im -> nonneg_labels (map (fun p => (p_v p, val p)) (nzp im)).
Proof.
  intros H q Hq. apply in_map_iff in Hq. destruct Hq as [p [<- Hp]]. cbn [fst].
  apply H. unfold nzp in Hp. apply filter_In in Hp. apply Hp.
Qed.

Lemma bcq_nth im (val : Z * Z * Z -> Q) l :
  nonneg_img im -> 0 <= l -> nth (Z.to_nat l) (bcq im val) 0%Q = gq im val l.
Proof.
  intros Him Hl. unfold bcq. rewrite bincount_group by (auto using nzp_nonneg).
  unfold group_fold, gq. rewrite filter_map_comm, map_map. reflexivity.
Qed.

Lemma nth_map_lt {A B} (f : A -> B) l k d d' : (k < length l)%nat -> nth k (map f l) d' = f (nth k l d).
Proof. intros H. rewrite (nth_indep _ d' (f d)) by (rewrite map_length; exact H). apply map_nth. Qed.

Lemma omap2_length f a b : length a = length b -> length (omap2 f a b) = length a.
Proof. intros H. unfold omap2. rewrite map_length, combine_length, H. apply Nat.min_id. Qed.

Lemma omap2_nth f a b k :
  (k < length a)%nat -> length a = length b ->
  nth k (omap2 f a b) None = f (nth k a 0%Q) (nth k b 0%Q).
Proof.
  intros Hk Hl. unfold omap2.
  rewrite (nth_map_lt _ _ k (0%Q, 0%Q)) by (rewrite combine_length, <- Hl, Nat.min_id; exact Hk).
  rewrite combine_nth by exact Hl. reflexivity.
Qed.

Definition one_q (_ : Z * Z * Z) : Q := 1%Q.

Definition row_of (im : img) (l : Z) : option ell :=
  let n := gq im one_q l in
  frow (n, (qdiv (gq im (fun p => inject_Z (p_y p)) l) n,
           (qdiv (gq im (fun p => inject_Z (p_x p)) l) n,
            (qdiv (gq im (fun p => (e_ci im p * e_ci im p)%Q) l) n,
             (qdiv (2 * gq im (fun p => (e_ci im p * e_cj im p)%Q) l) n,
              qdiv (gq im (fun p => (e_cj im p * e_cj im p)%Q) l) n))))).

Lemma e_lengths im :
  length (e_m00s im) = NN im /\ length (e_ics im) = NN im /\ length (e_jcs im) = NN im
  /\ length (e_as im) = NN im /\ length (e_bs im) = NN im /\ length (e_cs im) = NN im.
Proof.
  unfold e_ics, e_jcs, e_as, e_bs, e_cs, e_m00s.
  repeat split; rewrite ?omap2_length; rewrite ?bcq_length; reflexivity.
Qed.

Lemma e_ics_nth im l : nonneg_img im -> 0 <= l -> (Z.to_nat l < NN im)%nat ->
  nth (Z.to_nat l) (e_ics im) None = qdiv (gq im (fun p => inject_Z (p_y p)) l) (gq im one_q l).
Proof.
  intros Him Hl Hk. unfold e_ics, e_m00s. rewrite omap2_nth by (rewrite ?bcq_length; auto).
  rewrite !bcq_nth by assumption. reflexivity.
Qed.
Lemma e_jcs_nth im l : nonneg_img im -> 0 <= l -> (Z.to_nat l < NN im)%nat ->
  nth (Z.to_nat l) (e_jcs im) None = qdiv (gq im (fun p => inject_Z (p_x p)) l) (gq im one_q l).
Proof.
  intros Him Hl Hk. unfold e_jcs, e_m00s. rewrite omap2_nth by (rewrite ?bcq_length; auto).
  rewrite !bcq_nth by assumption. reflexivity.
Qed.

Lemma e_rows_nth im l : nonneg_img im -> 0 <= l -> (Z.to_nat l < NN im)%nat ->
  nth (Z.to_nat l) (e_rows im) None = row_of im l.
Proof.
  intros Him Hl Hk. destruct (e_lengths im) as [L0 [L1 [L2 [L3 [L4 L5]]]]].
  unfold e_rows.
  rewrite (nth_map_lt _ _ _ (0%Q, (None, (None, (None, (None, None))))))
    by (rewrite !combine_length, L0, L1, L2, L3, L4, L5, !Nat.min_id; exact Hk).
  rewrite combine_nth by (rewrite !combine_length, L0, L1, L2, L3, L4, L5, !Nat.min_id; reflexivity).
  rewrite combine_nth by (rewrite !combine_length, L1, L2, L3, L4, L5, !Nat.min_id; reflexivity).
  rewrite combine_nth by (rewrite !combine_length, L2, L3, L4, L5, !Nat.min_id; reflexivity).
  rewrite combine_nth by (rewrite !combine_length, L3, L4, L5, !Nat.min_id; reflexivity).
  rewrite combine_nth by (rewrite L4, L5; reflexivity).
  rewrite e_ics_nth, e_jcs_nth by assumption.
  unfold e_as, e_bs, e_cs, e_m00s.
  rewrite !omap2_nth by (rewrite ?bcq_length; auto).
  rewrite !bcq_nth by assumption. reflexivity.
Qed.

(* ---- from the label-indexed sums to the object's own coordinates ---- *)

Lemma nzp_own im l : l <> 0 -> filter (fun p => p_v p =? l) (nzp im) = own im l.
Proof.
  intros Hl. unfold nzp, own. induction (pixels im) as [|p r IH]; cbn [filter]; [reflexivity|].
  destruct (p_v p =? 0) eqn:E0; cbn [negb filter]; destruct (p_v p =? l) eqn:El; rewrite ?IH; try reflexivity.
  exfalso. lia.
Qed.

Lemma gq_own im val l : l <> 0 -> gq im val l = fold_left qadd (map val (own im l)) 0%Q.
Proof. intros Hl. unfold gq. rewrite nzp_own by exact Hl. reflexivity. Qed.

Lemma gq_coords im (valc : Z * Z -> Q) l :
  l <> 0 -> gq im (fun p => valc (fst p)) l = qsum (map valc (own_coords im l)).
Proof. intros Hl. rewrite gq_own by exact Hl. rewrite map_coord_val. reflexivity. Qed.

Lemma gq_one im l : l <> 0 -> gq im one_q l = qsum (map (fun _ : Z * Z => 1%Q) (own_coords im l)).
Proof. intros Hl. apply (gq_coords im (fun _ => 1%Q) l Hl). Qed.
Lemma gq_y im l : l <> 0 ->
  gq im (fun p => inject_Z (p_y p)) l = qsum (map (fun c : Z * Z => inject_Z (fst c)) (own_coords im l)).
Proof. intros Hl. apply (gq_coords im (fun c => inject_Z (fst c)) l Hl). Qed.
Lemma gq_x im l : l <> 0 ->
  gq im (fun p => inject_Z (p_x p)) l = qsum (map (fun c : Z * Z => inject_Z (snd c)) (own_coords im l)).
Proof. intros Hl. apply (gq_coords im (fun c => inject_Z (snd c)) l Hl). Qed.

(* a per-pixel value that reads a per-label table at the pixel's own label *)
Lemma gq_own_label im (f : Z -> Z * Z -> Q) l :
  l <> 0 -> gq im (fun p => f (p_v p) (fst p)) l = qsum (map (f l) (own_coords im l)).
Proof.
  intros Hl. rewrite gq_own by exact Hl. rewrite own_coords_own, map_map. unfold qsum. f_equal.
  apply map_ext_in. intros p Hp. apply own_label in Hp. destruct Hp as [-> _]. reflexivity.
Qed.

Lemma row_of_coords im l :
  nonneg_img im -> 0 < l -> (Z.to_nat l < NN im)%nat -> row_of im l = ell_c (own_coords im l).
Proof.
  intros Him Hl Hk. assert (Hl0 : l <> 0) by lia. assert (Hl1 : 0 <= l) by lia.
  unfold row_of, ell_c.
  rewrite (gq_one im l Hl0), (gq_y im l Hl0), (gq_x im l Hl0).
  set (n := qsum (map (fun _ : Z * Z => 1%Q) (own_coords im l))).
  set (icl := qdiv (qsum (map (fun c : Z * Z => inject_Z (fst c)) (own_coords im l))) n).
  set (jcl := qdiv (qsum (map (fun c : Z * Z => inject_Z (snd c)) (own_coords im l))) n).
  assert (Ei : qget (e_ics im) l = oq icl).
  { unfold qget. rewrite e_ics_nth by assumption. rewrite (gq_one im l Hl0), (gq_y im l Hl0). reflexivity. }
  assert (Ej : qget (e_jcs im) l = oq jcl).
  { unfold qget. rewrite e_jcs_nth by assumption. rewrite (gq_one im l Hl0), (gq_x im l Hl0). reflexivity. }
  unfold e_ci, e_cj, p_y, p_x.
  rewrite (gq_own_label im (fun v c => ((inject_Z (fst c) - qget (e_ics im) v) * (inject_Z (fst c) - qget (e_ics im) v))%Q) l Hl0).
  rewrite (gq_own_label im (fun v c => ((inject_Z (fst c) - qget (e_ics im) v) * (inject_Z (snd c) - qget (e_jcs im) v))%Q) l Hl0).
  rewrite (gq_own_label im (fun v c => ((inject_Z (snd c) - qget (e_jcs im) v) * (inject_Z (snd c) - qget (e_jcs im) v))%Q) l Hl0).
  rewrite Ei, Ej. reflexivity.
Qed.

End MinLength.

Lemma ellipse_unfold im idxs :
  idxs <> [] -> nzp im <> [] ->
  ellipse_moments im idxs =
  match gather (e_rows (maxl idxs + 1) im) idxs with Some r => EllRows r | None => EllIndexError end.
Proof.
  intros Hi Hn. unfold ellipse_moments. destruct idxs as [|i0 r0] eqn:Eidx; [contradiction|]. rewrite <- Eidx.
  fold (nzp im). destruct (nzp im) as [|p0 n0] eqn:E; [contradiction|].
  unfold e_rows, e_as, e_bs, e_cs, e_ci, e_cj, e_ics, e_jcs, e_m00s, bcq. rewrite E. reflexivity.
Qed.

Lemma gather_some {A} (a : list A) d : forall idxs r,
  gather a idxs = Some r ->
  r = map (fun i => nth (Z.to_nat i) a d) idxs
  /\ forall i, In i idxs -> 0 <= i /\ (Z.to_nat i < length a)%nat.
Proof.
  induction idxs as [|i t IH]; intros r H; cbn [gather] in H.
  - injection H as <-. split; [reflexivity|]. intros i [].
  - destruct (i <? 0) eqn:Ei; [discriminate|].
    destruct (nth_error a (Z.to_nat i)) as [v|] eqn:En; [|discriminate].
    destruct (gather a t) as [vs|] eqn:Eg; [|discriminate]. injection H as <-.
    destruct (IH vs eq_refl) as [-> Hr]. split.
    + cbn [map]. f_equal. symmetry. apply nth_error_nth. exact En.
    + intros j [<-|Hj]; [|apply Hr, Hj]. split; [lia|]. apply nth_error_Some. congruence.
Qed.

(* ellipse_rows_nth: whenever the as-written model returns rows (i.e. the code does not raise),
   they are the per-object coordinate-level rows, for every request list of positive labels *)
Theorem ellipse_rows_nth im idxs r :
  nonneg_img im -> (forall l, In l idxs -> 0 < l) ->
  ellipse_moments im idxs = EllRows r -> nzp im <> [] -> r = ells im idxs.
Proof.
  intros Him Hpos H Hn. destruct idxs as [|i0 t] eqn:Eidx.
  - cbn in H. injection H as <-. reflexivity.
  - rewrite <- Eidx in *. rewrite ellipse_unfold in H by (auto; rewrite Eidx; discriminate).
    set (m := maxl idxs + 1) in *.
    destruct (gather (e_rows m im) idxs) as [r'|] eqn:Eg; [|discriminate]. injection H as <-.
    destruct (gather_some _ None _ _ Eg) as [-> Hr]. unfold ells. apply map_ext_in. intros l Hl.
    destruct (Hr l Hl) as [Hl0 Hlt].
    assert (Hk : (Z.to_nat l < NN m im)%nat).
    { unfold e_rows in Hlt. rewrite map_length, !combine_length in Hlt.
      destruct (e_lengths m im) as [L0 _]. rewrite L0 in Hlt. lia. }
    rewrite e_rows_nth by assumption. apply (row_of_coords m); auto.
Qed.

(* and it returns rows for EVERY request list of positive labels - present or not, below or above the largest label
   of the image (the tables have max(indexes) + 1 entries): an absent label gets the row of no pixels (nan) *)
Theorem ellipse_rows_defined im idxs :
  nonneg_img im -> idxs <> [] -> nzp im <> [] ->
  (forall l, In l idxs -> 0 < l) ->
  ellipse_moments im idxs = EllRows (ells im idxs).
Proof.
  intros Him Hi Hn Hr. rewrite ellipse_unfold by assumption. set (m := maxl idxs + 1).
  assert (Hk : forall l, In l idxs -> (Z.to_nat l < NN m im)%nat).
  { intros l Hl. pose proof (Hr l Hl). pose proof (maxl_ge idxs l Hl). unfold NN, m. lia. }
  rewrite (gather_total _ None).
  - f_equal. unfold ells. apply map_ext_in. intros l Hl. pose proof (Hr l Hl) as H0.
    rewrite e_rows_nth by (auto; lia). apply (row_of_coords m); auto.
  - intros l Hl. pose proof (Hr l Hl) as H0. split; [lia|].
    unfold e_rows. rewrite map_length, !combine_length.
    destruct (e_lengths m im) as [L0 [L1 [L2 [L3 [L4 L5]]]]]. rewrite L0, L1, L2, L3, L4, L5, !Nat.min_id.
    apply Hk, Hl.
Qed.

Example ellipse_rows_example :
  let im := [[3; 3; 0]; [0; 3; 7]; [7; 7; 7]] in
  ellipse_moments im [7; 3] = EllRows (ells im [7; 3]) /\ nzp im <> [] /\
  ellipse_moments im [9; 3; 1] = EllRows (ells im [9; 3; 1]) /\ nth 0 (ells im [9; 3; 1]) None = None.
Proof. cbv zeta. split; [vm_compute; reflexivity|]. split; [vm_compute; discriminate|]. split; vm_compute; reflexivity. Qed.
