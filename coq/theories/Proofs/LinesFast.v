(* C16 — the linear executable forms of Model.Lines (draw_line_fast, get_line_pts_fast: the ones
   that are extracted and compared with the implementation) equal the line-level models
   (draw_line_pts: the while loop with fuel; get_line_pts: chronological scatter writes of the two
   lock-step passes, last write wins) for ALL inputs. *)
From Coq Require Import ZArith List Bool Lia.
From Centro Require Import Base.Sx Model.Lines Spec.Lines Proofs.Bres Proofs.LinesScalar Proofs.LinesVector.
Import ListNotations.
Open Scope Z_scope.

(* ---------------------------------------------------------------- scalar *)

Lemma dl_loop_fwd fuel : forall m m1 sm c sc rem dM dm acc,
  (sm = 1 \/ sm = -1) -> m1 = m + sm * Z.of_nat fuel ->
  dl_loop fuel m m1 sm c sc rem dM dm acc = Some (rev acc ++ dl_fwd fuel m sm c sc rem dM dm).
Proof.
  induction fuel as [|f IH]; intros m m1 sm c sc rem dM dm acc Hsm Hm1.
  - cbn [dl_loop dl_fwd]. replace (m =? m1) with true by (symmetry; apply Z.eqb_eq; lia).
    rewrite app_nil_r. reflexivity.
  - cbn [dl_loop dl_fwd]. replace (m =? m1) with false by (symmetry; apply Z.eqb_neq; lia).
    rewrite IH by lia. cbn [rev]. rewrite <- app_assoc. reflexivity.
Qed.

Lemma dstep_pm a b : dstep a b = 1 \/ dstep a b = -1.
Proof. unfold dstep. destruct (a <? b); auto. Qed.

Lemma dstep_reach m0 m1 : m1 = m0 + dstep m0 m1 * Z.of_nat (Z.to_nat (Z.abs (m1 - m0))).
Proof. rewrite Z2Nat.id by lia. unfold dstep. destruct (Z.ltb_spec m0 m1); lia. Qed.

(* the while loop of draw_line never runs out of fuel and emits exactly draw_line_fast *)
Theorem draw_line_fast_eq y0 x0 y1 x1 :
  draw_line_pts y0 x0 y1 x1 = Some (draw_line_fast y0 x0 y1 x1).
Proof.
  unfold draw_line_pts, draw_line_fast.
  destruct (Z.abs (x1 - x0) <? Z.abs (y1 - y0)).
  - rewrite dl_loop_fwd by (try apply dstep_pm; apply dstep_reach). reflexivity.
  - rewrite dl_loop_fwd by (try apply dstep_pm; apply dstep_reach). reflexivity.
Qed.

Lemma line_fast_vpoints l : line_fast l = map (vpoint l) (seq 0 (Z.to_nat (l_count l))).
Proof.
  destruct l as [[i0 j0] [i1 j1]]. unfold line_fast. cbn [fst snd].
  pose proof (draw_line_fast_eq i0 j0 i1 j1) as E. rewrite draw_line_vpoints in E.
  cbn zeta in E. injection E as E. symmetry. exact E.
Qed.

(* ---------------------------------------------------------------- vectorised *)

(* the output array, read cell by cell through the owner of each position, is the
   concatenation of the closed-form sequences of the lines in batch order *)
Lemma cells_flat ls : forall s,
  map (fun p => match locate s ls p with Some (l, n) => vpoint l (Z.to_nat n) | None => (0, 0) end)
      (zrange s (Z.to_nat (fold_right Z.add 0 (map l_count ls))))
  = flat_map (fun l => map (vpoint l) (seq 0 (Z.to_nat (l_count l)))) ls.
Proof.
  induction ls as [|a ls IH]; intros s; [reflexivity|].
  cbn [map fold_right flat_map].
  pose proof (l_count_pos a) as Hc. pose proof (sum_counts_nonneg ls) as Hs.
  rewrite Z2Nat.inj_add by lia. rewrite zrange_app, map_app. f_equal.
  - rewrite zrange_seq, map_map. apply map_ext_in. intros k Hk. apply in_seq in Hk.
    cbn [locate]. replace (s + Z.of_nat k <? s + l_count a) with true by (symmetry; apply Z.ltb_lt; lia).
    f_equal. lia.
  - rewrite Z2Nat.id by lia. rewrite <- (IH (s + l_count a)). apply map_ext_in. intros p Hp. apply zrange_in in Hp.
    cbn [locate]. replace (p <? s + l_count a) with false by (symmetry; apply Z.ltb_ge; lia).
    reflexivity.
Qed.

(* the lock-step vectorised rasteriser (two passes, per-iteration compaction, scatter writes)
   computes, for EVERY batch, the scalar sequences concatenated in batch order *)
Theorem get_line_pts_fast_eq ls : get_line_pts_fast ls = get_line_pts ls.
Proof.
  rewrite get_line_pts_cells. unfold get_line_pts_fast. f_equal.
  unfold cell. rewrite cells_flat. apply flat_map_ext. intros l. apply line_fast_vpoints.
Qed.

Corollary entry_lines_fast_eq x : entry_lines_fast x = entry_lines x.
Proof. unfold entry_lines_fast, entry_lines. rewrite get_line_pts_fast_eq. reflexivity. Qed.

Corollary entry_draw_fast_eq x : entry_draw_fast x = entry_draw x.
Proof. unfold entry_draw_fast, entry_draw. rewrite draw_line_fast_eq. reflexivity. Qed.

Example fast_example :
  get_line_pts_fast [((0, 0), (2, 5)); ((3, 1), (-2, 0)); ((4, 4), (4, 4))] =
  ([0; 6; 12], [6; 6; 1],
   [(0,0); (0,1); (1,2); (1,3); (2,4); (2,5); (3,1); (2,1); (1,1); (0,0); (-1,0); (-2,0); (4,4)]).
Proof. reflexivity. Qed.
