(* C04 — setup_ord: the wrapper's set-up state satisfies the order invariant Ord with
   pos = index in the lexsort order. *)
From Coq Require Import ZArith List Bool Lia ZifyBool Permutation Sorted.
From Centro Require Import Base.Sx Base.ReconSort Model.VecC18 Model.RankC18 Spec.SpecC18 Proofs.RankC18Proofs.
From Centro Require Import Model.Recon Spec.ReconSpec Spec.ReconInv Proofs.ReconSound Proofs.ReconLoop
  Proofs.ReconPrep Proofs.ReconOrder.
Import ListNotations.
Open Scope Z_scope.

(* ------------------------------------------------------------------ index in a list *)
Fixpoint index_of (x : Z) (l : list Z) : nat :=
  match l with [] => O | a :: t => if x =? a then O else S (index_of x t) end.

Lemma index_of_in x l : In x l -> (index_of x l < length l)%nat /\ nth (index_of x l) l (-1) = x.
Proof.
  induction l as [|a t IH]; intros Hin; [destruct Hin|]. cbn [index_of length].
  destruct (x =? a) eqn:E.
  - split; [lia|]. cbn [nth]. lia.
  - destruct Hin as [->|Hin]; [lia|]. destruct (IH Hin) as [A B]. split; [lia|exact B].
Qed.

Lemma index_of_nth l : NoDup l -> forall k, (k < length l)%nat -> index_of (nth k l (-1)) l = k.
Proof.
  induction 1 as [|a t Hn ND IH]; intros k Hk; cbn [length] in Hk; [lia|].
  destruct k as [|k]; cbn [nth index_of].
  - destruct (a =? a) eqn:E; [reflexivity|lia].
  - destruct (nth k t (-1) =? a) eqn:E.
    + exfalso. apply Hn. assert (nth k t (-1) = a) by lia. rewrite <- H. apply nth_In. lia.
    + f_equal. apply IH. lia.
Qed.

(* ------------------------------------------------------------------ exact table of link_pairs *)
Lemma link_pairs_nth l : forall pn, NoDup l -> (forall x, In x l -> 0 <= x) ->
  forall k, (S k < length l)%nat ->
  sel (snd (link_pairs l pn)) (nth k l (-1)) = nth (S k) l (-1) /\
  sel (fst (link_pairs l pn)) (nth (S k) l (-1)) = nth k l (-1).
Proof.
  induction l as [|a l IH]; intros pn ND Pos k Hk; cbn [length] in Hk; [lia|].
  destruct l as [|b t]; [cbn [length] in Hk; lia|]. cbn [link_pairs].
  assert (NDt : NoDup (b :: t)) by (inversion ND; assumption).
  assert (Hab : ~ In a (b :: t)) by (inversion ND; assumption).
  assert (Hbt : ~ In b t) by (inversion NDt; assumption).
  assert (Pa : 0 <= a) by (apply Pos; left; reflexivity).
  assert (Pb : 0 <= b) by (apply Pos; right; left; reflexivity).
  assert (Post : forall x, In x (b :: t) -> 0 <= x) by (intros x Hx; apply Pos; right; exact Hx).
  destruct k as [|k].
  - cbn [nth].
    destruct (link_pairs_spec (b :: t) (put (fst pn) b a, put (snd pn) a b) NDt Post) as (I1 & _ & I3 & _).
    cbv zeta in I1, I3. cbn [fst snd tl] in I1, I3. split.
    + rewrite I3 by (intros K; apply Hab; eapply in_removelast_cons; [exact a|exact K]).
      rewrite sel_put by lia. destruct (a =? a) eqn:E; [reflexivity|lia].
    + rewrite I1 by exact Hbt. rewrite sel_put by lia. destruct (b =? b) eqn:E; [reflexivity|lia].
  - change (nth (S k) (a :: b :: t) (-1)) with (nth k (b :: t) (-1)).
    change (nth (S (S k)) (a :: b :: t) (-1)) with (nth (S k) (b :: t) (-1)).
    apply IH; [exact NDt|exact Post|cbn [length] in *; lia].
Qed.

Lemma ss_nth {A} (R : A -> A -> Prop) (l : list A) d : StronglySorted R l ->
  forall k m, (k < m < length l)%nat -> R (nth k l d) (nth m l d).
Proof.
  induction 1 as [|a l SS IH Hall]; intros k m Hkm; cbn [length] in Hkm; [lia|].
  destruct m as [|m]; [lia|]. destruct k as [|k]; cbn [nth].
  - rewrite Forall_forall in Hall. apply Hall. apply nth_In. lia.
  - apply IH. lia.
Qed.

Lemma last_notin_removelast (l : list Z) : NoDup l -> forall k, S k = length l ->
  ~ In (nth k l (-1)) (removelast l).
Proof.
  induction 1 as [|a t Hn ND IH]; intros k Hk; cbn [length] in Hk; [lia|].
  destruct t as [|b t']; [cbn; tauto|].
  destruct k as [|k]; [cbn [length] in Hk; lia|].
  change (nth (S k) (a :: b :: t') (-1)) with (nth k (b :: t') (-1)).
  change (removelast (a :: b :: t')) with (a :: removelast (b :: t')).
  intros [E|Hin].
  - apply Hn. rewrite E. apply nth_In. cbn [length] in *. lia.
  - apply (IH k); [cbn [length] in *; lia|exact Hin].
Qed.

Lemma nth_last_eq (l : list Z) k : S k = length l -> nth k l (-1) = last l (-1).
Proof.
  revert k; induction l as [|a t IH]; intros k Hk; cbn [length] in Hk; [lia|].
  destruct t as [|b t']; [destruct k; [reflexivity|cbn [length] in Hk; lia]|].
  destruct k as [|k]; [cbn [length] in Hk; lia|].
  change (nth (S k) (a :: b :: t') (-1)) with (nth k (b :: t') (-1)).
  change (last (a :: b :: t') (-1)) with (last (b :: t') (-1)). apply IH. cbn [length] in *. lia.
Qed.

Lemma head_notin_tl (l : list Z) : NoDup l -> l <> [] -> ~ In (nth 0 l (-1)) (tl l).
Proof. intros ND NE. destruct l as [|a t]; [congruence|]. cbn. inversion ND; assumption. Qed.

(* values along the lexsort order are non-increasing *)
Lemma order_vals_sorted values k m : (k < m < length (vorder values))%nat ->
  nth (Z.to_nat (nth m (vorder values) (-1))) values 0 <= nth (Z.to_nat (nth k (vorder values) (-1))) values 0.
Proof.
  unfold vorder. set (sp := DescSort.sort (combine values (zrange (zlen values)))). intros Hkm.
  rewrite map_length in Hkm.
  assert (N : forall j, (j < length sp)%nat -> nth j (map snd sp) (-1) = snd (nth j sp (0, -1))).
  { intros j Hj. change (-1) with (snd (0, -1)) at 1. apply map_nth. }
  rewrite !N by lia.
  assert (R := ss_nth dleb sp (0, -1) (sp_sorted values) k m Hkm).
  assert (Hk : In (nth k sp (0, -1)) sp) by (apply nth_In; lia).
  assert (Hm : In (nth m sp (0, -1)) sp) by (apply nth_In; lia).
  destruct (nth k sp (0, -1)) as [v1 i1]. destruct (nth m sp (0, -1)) as [v2 i2].
  destruct (sp_in values v1 i1 Hk) as [_ E1]. destruct (sp_in values v2 i2 Hm) as [_ E2].
  cbn [snd]. rewrite <- E1, <- E2.
  unfold dleb, is_true, DescOrder.leb in R; cbn [fst snd] in R.
  destruct (v2 <? v1) eqn:A; [lia|]. destruct (v1 <? v2) eqn:B; [discriminate|lia].
Qed.

Theorem setup_ord g strides values mn :
  geom_ok g -> zlen values = 2 * gS g ->
  let val := fun i => nth (Z.to_nat i) values 0 in
  (forall i, 0 <= i < gS g -> interior_b g i = false -> val i = mn /\ val (i + gS g) = mn) ->
  (forall j, 0 <= j < 2 * gS g -> mn <= val j) ->
  let s := setup_state values in
  Ord g strides s (hd (-1) (vorder values)) (fun x => Z.of_nat (index_of x (vorder values))).
Proof.
  intros G Hlen val Hpad Hmn s.
  destruct (last_not_interior g G) as [Hlast HS1].
  assert (NE : values <> []) by (intros ->; assert (zlen (@nil Z) = 0) by reflexivity; lia).
  set (n := 2 * gS g) in *. assert (Hn : n = 2 * gS g) by reflexivity.
  set (order := vorder values).
  assert (Oin : forall x, In x order <-> 0 <= x < n) by (intros x; unfold order, vorder; rewrite order_in; lia).
  assert (OND : NoDup order) by apply order_nodup.
  assert (Opos : forall x, In x order -> 0 <= x) by (intros x Hx; apply Oin in Hx; lia).
  set (m1 := of_list (repeat (-1) (Z.to_nat (zlen values)))).
  assert (Sm1 : forall i, 0 <= i < n -> sel m1 i = -1) by (intros i Hi; unfold m1; apply sel_repeat_m1; lia).
  destruct (link_pairs_spec order (m1, m1) OND Opos) as (L1 & _ & L3 & _).
  cbv zeta in L1, L3. cbn [fst snd] in L1, L3.
  assert (LN := link_pairs_nth order (m1, m1) OND Opos).
  assert (Eprv : prv s = fst (link_pairs order (m1, m1))) by reflexivity.
  assert (Enxt : nxt s = snd (link_pairs order (m1, m1))) by reflexivity.
  assert (Evals : vals s = of_list (map Z.of_nat (fst (RankC18.rank_order values)))) by reflexivity.
  set (rk := fun i => Z.of_nat (getn (fst (RankC18.rank_order values)) (Z.to_nat i))).
  assert (Srk : forall i, 0 <= i < n -> sel (vals s) i = rk i)
    by (intros i Hi; rewrite Evals; apply sel_ranks; [exact NE|lia]).
  assert (Rmono : forall i j, 0 <= i < n -> 0 <= j < n -> val i <= val j -> rk i <= rk j)
    by (intros i j Hi Hj; apply rk_mono; [exact NE|lia|lia]).
  set (len := length order).
  assert (Hlen1 : (1 <= len)%nat).
  { assert (Q := proj2 (Oin 0) ltac:(lia)). unfold len. destruct order; [destruct Q|cbn [length]; lia]. }
  set (ix := fun x => index_of x order).
  assert (IX : forall x, 0 <= x < n -> (ix x < len)%nat /\ nth (ix x) order (-1) = x)
    by (intros x Hx; apply index_of_in; apply Oin; exact Hx).
  assert (IN : forall k, (k < len)%nat -> ix (nth k order (-1)) = k) by (intros k Hk; apply index_of_nth; assumption).
  assert (NR : forall k, (k < len)%nat -> 0 <= nth k order (-1) < n) by (intros k Hk; apply Oin; apply nth_In; exact Hk).
  (* next / prev tables *)
  assert (NX : forall x, 0 <= x < n -> (S (ix x) < len)%nat -> sel (nxt s) x = nth (S (ix x)) order (-1)).
  { intros x Hx Hk. destruct (IX x Hx) as [_ E]. rewrite Enxt. rewrite <- E at 1. apply (LN (ix x) Hk). }
  assert (NXl : forall x, 0 <= x < n -> S (ix x) = len -> sel (nxt s) x = -1).
  { intros x Hx Hk. destruct (IX x Hx) as [_ E]. rewrite Enxt. rewrite L3; [apply Sm1; lia|].
    rewrite <- E. apply last_notin_removelast; assumption. }
  assert (PV : forall x, 0 <= x < n -> forall k, ix x = S k -> sel (prv s) x = nth k order (-1)).
  { intros x Hx k Hk. destruct (IX x Hx) as [Hl E]. rewrite Eprv. rewrite <- E at 1. rewrite Hk.
    apply (LN k). rewrite <- Hk. exact Hl. }
  assert (PV0 : forall x, 0 <= x < n -> ix x = 0%nat -> sel (prv s) x = -1).
  { intros x Hx Hk. destruct (IX x Hx) as [_ E]. rewrite Eprv. rewrite L1; [apply Sm1; lia|].
    rewrite <- E, Hk. apply head_notin_tl; [exact OND|]. intros E0. unfold len in Hlen1. rewrite E0 in Hlen1. cbn in Hlen1. lia. }
  (* the last cell *)
  assert (Hlst : last order (-1) = n - 1).
  { unfold order, vorder. rewrite (order_last values ltac:(lia)); [lia|].
    intros j Hj. rewrite Hlen. fold n.
    destruct (Hpad (gS g - 1) ltac:(lia) Hlast) as [_ E]. unfold val in E.
    replace (n - 1) with (gS g - 1 + gS g) by lia. rewrite E. apply Hmn. lia. }
  assert (IXlast : S (ix (n - 1)) = len).
  { assert (E := nth_last_eq order (len - 1) ltac:(unfold len in *; lia)). rewrite Hlst in E.
    assert (Q := IN (len - 1)%nat ltac:(lia)). rewrite E in Q. lia. }
  constructor.
  - intros x y Hx Hy E. destruct (IX x Hx) as [_ Ex]. destruct (IX y Hy) as [_ Ey].
    assert (ix x = ix y) by (unfold ix in *; lia). rewrite <- Ex, <- Ey. f_equal. exact H.
  - intros x Hx Hne. destruct (IX x Hx) as [Hl _].
    destruct (Nat.eq_dec (S (ix x)) len) as [E|N]; [rewrite (NXl x Hx E) in Hne; lia|].
    rewrite (NX x Hx ltac:(lia)). fold (ix (nth (S (ix x)) order (-1))). rewrite IN by lia. fold (ix x). lia.
  - intros x y Hx Hy Hne. destruct (IX x Hx) as [Hl _].
    destruct (Nat.eq_dec (S (ix x)) len) as [E|N]; [rewrite (NXl x Hx E) in Hne; lia|].
    rewrite (NX x Hx ltac:(lia)). fold (ix (nth (S (ix x)) order (-1))). rewrite IN by lia. fold (ix x) (ix y). lia.
  - intros x Hx. fold (ix x) (ix (2 * gS g - 1)). fold n. destruct (IX x ltac:(lia)) as [Hl Ex].
    destruct (Nat.eq_dec (ix x) (ix (n - 1))) as [E|N]; [|lia].
    exfalso. destruct (IX (n - 1) ltac:(lia)) as [_ Ey]. rewrite <- E, Ex in Ey. lia.
  - intros x y Hx Hy Hlt. fold (ix x) (ix y) in Hlt. destruct (IX x Hx) as [Hlx Ex]. destruct (IX y Hy) as [Hly Ey].
    rewrite !Srk by lia. apply Rmono; [lia|lia|].
    assert (Q := order_vals_sorted values (ix x) (ix y) ltac:(fold order; fold len; lia)).
    fold order in Q. rewrite Ex, Ey in Q. exact Q.
  - intros x Hx Hne. destruct (IX x Hx) as [Hl Ex]. destruct (ix x) as [|k] eqn:Ek.
    + rewrite (PV0 x Hx Ek) in Hne. lia.
    + rewrite (PV x Hx k Ek). assert (Hk := NR k ltac:(lia)).
      rewrite (NX _ Hk) by (rewrite IN by lia; lia). rewrite IN by lia. exact Ex.
  - intros x Hx Hne. destruct (IX x Hx) as [Hl Ex].
    destruct (Nat.eq_dec (S (ix x)) len) as [E|N]; [rewrite (NXl x Hx E) in Hne; lia|].
    rewrite (NX x Hx ltac:(lia)). assert (Hk := NR (S (ix x)) ltac:(lia)).
    rewrite (PV _ Hk (ix x)) by (apply IN; lia). exact Ex.
  - intros p Hp Hpi [Hm|Hlt].
    + exfalso. assert (Q : In (hd (-1) order) order) by (destruct order; [cbn in Hlen1; lia|left; reflexivity]).
      apply Oin in Q. lia.
    + exfalso. fold (ix p) in Hlt. assert (E : hd (-1) order = nth 0 order (-1)) by (destruct order; reflexivity).
      rewrite E in Hlt. fold (ix (nth 0 order (-1))) in Hlt. rewrite IN in Hlt by lia. lia.
Qed.
