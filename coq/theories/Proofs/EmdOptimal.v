(* C10 — C10_mcf_model_optimal_if_A_idle: at Done of the flagged run of the line-level solver with
   the flag clear, the capacity flow (indexed by arcs) is a MINIMUM-COST flow of the graph it was
   given: non-negative, conserving the supplies, and no non-negative flow with the same balances is
   cheaper — by the generic certificate C10_mcf_cert_optimal with the ghost potentials. *)
From Coq Require Import ZArith List Bool Lia ZifyBool.
From Centro Require Import Base.Sx Base.EmdBase Model.Emd Model.EmdMcf
  Proofs.EmdDuality Proofs.EmdSsp Proofs.EmdDijkstra Proofs.EmdGhost Proofs.EmdAugment Proofs.EmdMetric
  Proofs.EmdConserve Proofs.EmdMcfCert Proofs.EmdRun Proofs.EmdConserveRun Proofs.EmdIndex.
Import ListNotations.
Open Scope Z_scope.

Theorem mcf_model_optimal_if_A_idle nv c e st fl : length c = nv ->
  (forall l tc, In l c -> In tc l -> (fst tc < nv)%nat /\ 0 <= snd tc) ->
  length e = nv -> zsum e = 0 ->
  mcf_iter_f ssp_levels (mcf_init e c) false = (MDone st, fl) -> fl = false ->
  let sk := sk_of c in
  let f := capflow c (m_rb st) in
  (forall k, In k (idx sk) -> 0 <= f k) /\
  (forall v, (v < nv)%nat -> gout sk f v = nz e v) /\
  forall g, (forall k, In k (idx sk) -> 0 <= g k) -> (forall v, (v < nv)%nat -> gout sk g v = nz e v) ->
            gcost sk f <= gcost sk g.
Proof.
  intros LC GC LE SE H F. cbv zeta.
  destruct (run_final_slackness nv c LC e st fl LE GC H F) as [pi [G [S1 S2]]].
  destruct (caps_flow_conserved nv c LC e st fl LE SE GC H F) as [_ CONS].
  pose proof (ghost_lined nv c LC GC pi _ _ G) as LIN.
  assert (LSK : length (sk_of c) = length (mk_arcs c)) by (unfold sk_of; apply map_length).
  assert (WT : forall a, In a (mk_arcs c) -> (a_to a < length (m_rb st))%nat).
  { intros a Ha. destruct G as [_ [LRB _]]. rewrite LRB. apply (arcs_wf nv c LC GC a Ha). }
  (* the entry behind arc k *)
  assert (ENT : forall k, In k (idx (sk_of c)) -> exists a cap, In a (mk_arcs c) /\ nth k (mk_arcs c) dummy_arc = a /\
            capflow c (m_rb st) k = cap /\
            In (a_from a, - a_cost a + pi (a_to a) - pi (a_from a), cap) (nth (a_to a) (m_rb st) [])).
  { intros k Hk. unfold idx in Hk. apply in_seq in Hk. rewrite LSK in Hk.
    destruct (nth_error (mk_arcs c) k) as [a|] eqn:EK; [|apply nth_error_None in EK; lia].
    destruct (assign_entry _ _ _ LIN WT k a EK) as [en [I1 [S [Fe He]]]].
    exists a, (snd en). split; [eapply nth_error_In; eauto|]. split; [apply nth_error_nth; auto|].
    split; [unfold capflow; auto|].
    destruct en as [[t r] cp]. cbn [fst snd] in *. subst t r. exact I1. }
  assert (PF : forall k, In k (idx (sk_of c)) -> 0 <= capflow c (m_rb st) k).
  { intros k Hk. destruct (ENT k Hk) as [a [cap [Ha [_ [E I]]]]]. rewrite E. apply (S2 a cap Ha I). }
  assert (GF : forall v, (v < nv)%nat -> gout (sk_of c) (capflow c (m_rb st)) v = nz e v).
  { intros v Hv. rewrite (gout_capflow nv c LC GC _ pi _ v G). apply CONS; auto. }
  split; auto. split; auto.
  intros g Pg Gg.
  apply (mcf_cert_optimal nv (sk_of c)) with (pi := pi); auto.
  - intros k Hk. pose proof Hk as Hk'. unfold idx in Hk'. apply in_seq in Hk'. rewrite LSK in Hk'.
    destruct (sk_nth c k ltac:(lia)) as [A [B _]]. rewrite A, B.
    assert (IN : In (nth k (mk_arcs c) dummy_arc) (mk_arcs c)) by (apply nth_In; lia).
    destruct (arcs_wf nv c LC GC _ IN) as [X [Y _]]. auto.
  - intros v Hv. rewrite Gg, GF; auto.
  - intros k Hk. pose proof Hk as Hk'. unfold idx in Hk'. apply in_seq in Hk'. rewrite LSK in Hk'.
    destruct (sk_nth c k ltac:(lia)) as [A [B C]]. unfold rcost. rewrite A, B, C.
    apply S1. apply nth_In. lia.
  - intros k Hk Pk. pose proof Hk as Hk'. unfold idx in Hk'. apply in_seq in Hk'. rewrite LSK in Hk'.
    destruct (sk_nth c k ltac:(lia)) as [A [B C]]. unfold rcost. rewrite A, B, C.
    destruct (ENT k Hk) as [a [cap [Ha [Ea [E I]]]]]. rewrite Ea. rewrite E in Pk.
    destruct (S2 a cap Ha I) as [_ X]. apply X. exact Pk.
Qed.
