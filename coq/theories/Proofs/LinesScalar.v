(* C16 — the scalar rasteriser of the executable model (Model.Lines.draw_line_pts) always
   terminates within its fuel and emits exactly the Bresenham sequence described by the boolean
   checker Spec.Lines.line_ok; closed form of the k-th point. *)
From Coq Require Import ZArith List Bool Lia.
From Centro Require Import Base.Sx Model.Lines Spec.Lines Proofs.Bres.
Import ListNotations.
Open Scope Z_scope.

(* minor offset and remainder after k steps of the normalised loop of Proofs.Bres *)
Definition yk (D d : Z) (k : nat) : Z := fst (run D d k (init D d)).
Definition rk (D d : Z) (k : nat) : Z := snd (run D d k (init D d)).

Lemma yk_0 D d : yk D d 0 = 0. Proof. reflexivity. Qed.
Lemma rk_0 D d : rk D d 0 = 2 * d - D. Proof. reflexivity. Qed.

Lemma yk_S D d k : yk D d (S k) = if 0 <=? rk D d k then yk D d k + 1 else yk D d k.
Proof.
  unfold yk, rk. cbn [run]. destruct (run D d k (init D d)) as [y r]. unfold step. cbn [fst snd].
  destruct (0 <=? r); reflexivity.
Qed.
Lemma rk_S D d k :
  rk D d (S k) = (if 0 <=? rk D d k then rk D d k - D * 2 else rk D d k) + d * 2.
Proof.
  unfold yk, rk. cbn [run]. destruct (run D d k (init D d)) as [y r]. unfold step. cbn [fst snd].
  destruct (0 <=? r); cbn [snd]; lia.
Qed.

Lemma yk_error D d k : 0 <= d <= D -> 0 < D -> - D < 2 * (D * yk D d k - d * Z.of_nat k) <= D.
Proof. intros. apply (line_error D d k); assumption. Qed.

Lemma yk_step D d k : yk D d (S k) = yk D d k \/ yk D d (S k) = yk D d k + 1.
Proof. rewrite yk_S. destruct (0 <=? rk D d k); auto. Qed.

Lemma yk_end D d : 0 <= d <= D -> 0 < D -> yk D d (Z.to_nat D) = d.
Proof. intros. apply line_end; assumption. Qed.

Lemma yk_flat D k : 0 < D -> yk D 0 k = 0.
Proof.
  intros HD. pose proof (yk_error D 0 k ltac:(lia) HD) as H. nia.
Qed.

Lemma yk_diag D k : 0 < D -> yk D D k = Z.of_nat k.
Proof.
  intros HD. pose proof (yk_error D D k ltac:(lia) HD) as H. nia.
Qed.

Lemma yk_nonneg D d k : 0 <= d <= D -> 0 < D -> 0 <= yk D d k <= Z.of_nat k.
Proof.
  intros Hd HD. pose proof (yk_error D d k Hd HD) as H. split; nia.
Qed.

(* k-th emitted point, (major, minor) *)
Definition pt (D d m0 sm c0 sc : Z) (k : nat) : Z * Z :=
  (m0 + sm * Z.of_nat k, c0 + sc * yk D d k).

Fixpoint pts_from (D d m0 sm c0 sc : Z) (k n : nat) : list (Z * Z) :=
  match n with
  | O => []
  | S n' => pt D d m0 sm c0 sc k :: pts_from D d m0 sm c0 sc (S k) n'
  end.

Lemma pts_from_length D d m0 sm c0 sc k n : length (pts_from D d m0 sm c0 sc k n) = n.
Proof. revert k; induction n as [|n IH]; intros k; cbn [pts_from length]; [reflexivity|rewrite IH; reflexivity]. Qed.

Lemma pts_from_nth D d m0 sm c0 sc k n i dflt : (i < n)%nat ->
  nth i (pts_from D d m0 sm c0 sc k n) dflt = pt D d m0 sm c0 sc (k + i).
Proof.
  revert k i; induction n as [|n IH]; intros k i Hi; [lia|].
  cbn [pts_from]. destruct i as [|i]; cbn [nth].
  - rewrite Nat.add_0_r. reflexivity.
  - rewrite IH by lia. f_equal. lia.
Qed.

Lemma dl_loop_spec D d m0 m1 sm c0 sc :
  0 <= d <= D -> m1 = m0 + sm * D -> (sm = 1 \/ sm = -1) ->
  forall fuel k acc, Z.of_nat k + Z.of_nat fuel = D ->
    dl_loop fuel (m0 + sm * Z.of_nat k) m1 sm (c0 + sc * yk D d k) sc (rk D d k) D d acc
    = Some (rev acc ++ pts_from D d m0 sm c0 sc (S k) fuel).
Proof.
  intros Hd Hm1 Hsm fuel. induction fuel as [|f IH]; intros k acc Hk.
  - cbn [dl_loop pts_from]. replace (m0 + sm * Z.of_nat k =? m1) with true.
    + rewrite app_nil_r. reflexivity.
    + symmetry. apply Z.eqb_eq. subst m1. f_equal. f_equal. lia.
  - cbn [dl_loop]. replace (m0 + sm * Z.of_nat k =? m1) with false.
    2:{ symmetry. apply Z.eqb_neq. subst m1. destruct Hsm; subst sm; lia. }
    specialize (IH (S k)).
    replace (m0 + sm * Z.of_nat k + sm) with (m0 + sm * Z.of_nat (S k)) by lia.
    replace (if 0 <=? rk D d k then c0 + sc * yk D d k + sc else c0 + sc * yk D d k)
      with (c0 + sc * yk D d (S k)).
    2:{ rewrite yk_S. destruct (0 <=? rk D d k); lia. }
    rewrite <- rk_S. rewrite IH by lia.
    cbn [rev pts_from]. rewrite <- app_assoc. reflexivity.
Qed.

Definition sgn1 (a0 a1 : Z) : Z := if a0 <? a1 then 1 else -1.

Lemma dl_loop_run m0 m1 c0 c1 :
  Z.abs (c1 - c0) <= Z.abs (m1 - m0) ->
  dl_loop (Z.to_nat (Z.abs (m1 - m0))) m0 m1 (dstep m0 m1) c0 (dstep c0 c1)
          (Z.abs (c1 - c0) * 2 - Z.abs (m1 - m0)) (Z.abs (m1 - m0)) (Z.abs (c1 - c0)) [(m0, c0)]
  = Some (pts_from (Z.abs (m1 - m0)) (Z.abs (c1 - c0)) m0 (dstep m0 m1) c0 (dstep c0 c1)
                   0 (S (Z.to_nat (Z.abs (m1 - m0))))).
Proof.
  intros Hle. set (D := Z.abs (m1 - m0)). set (d := Z.abs (c1 - c0)).
  pose proof (dl_loop_spec D d m0 m1 (dstep m0 m1) c0 (dstep c0 c1)) as H.
  assert (Hd : 0 <= d <= D) by (subst D d; lia).
  assert (Hm1 : m1 = m0 + dstep m0 m1 * D).
  { subst D. unfold dstep. destruct (Z.ltb_spec m0 m1); lia. }
  assert (Hsm : dstep m0 m1 = 1 \/ dstep m0 m1 = -1).
  { unfold dstep. destruct (m0 <? m1); auto. }
  specialize (H Hd Hm1 Hsm (Z.to_nat D) O [(m0, c0)]).
  cbn [Z.of_nat] in H. rewrite Z.mul_0_r, Z.add_0_r in H.
  rewrite yk_0, Z.mul_0_r, Z.add_0_r, rk_0 in H.
  replace (2 * d - D) with (d * 2 - D) in H by lia.
  rewrite H by (subst D; lia).
  cbn [rev app pts_from]. unfold pt. cbn [Z.of_nat]. rewrite yk_0, !Z.mul_0_r, !Z.add_0_r. reflexivity.
Qed.

(* ---------------------------------------------------------------- the checker accepts *)

Lemma seq_ok_pts D d sM sm sc k n :
  0 <= d <= D -> 0 < D -> (sM = 1 \/ sM = -1) ->
  ((sm = sc /\ (sc = 1 \/ sc = -1)) \/ (d = 0 /\ sm = 0)) ->
  seq_ok D d sM sm (Z.of_nat k) (pts_from D d 0 sM 0 sc k n) = true.
Proof.
  intros Hd HD HsM Hsm. revert k. induction n as [|n IH]; intros k; [reflexivity|].
  cbn [pts_from seq_ok]. unfold pt at 1. cbn [fst snd].
  replace (Z.of_nat k + 1) with (Z.of_nat (S k)) by lia. rewrite IH.
  rewrite andb_true_r.
  assert (E1 : (0 + sM * Z.of_nat k =? sM * Z.of_nat k) = true) by (apply Z.eqb_eq; lia).
  rewrite E1. cbn [andb].
  assert (E2 : (Z.abs (2 * (D * (0 + sc * yk D d k) - sm * (d * Z.of_nat k))) <=? D) = true).
  { apply Z.leb_le. pose proof (yk_error D d k Hd HD) as He.
    destruct Hsm as [[-> [-> | ->]] | [-> ->]]; try lia.
    rewrite yk_flat by lia. lia. }
  rewrite E2. cbn [andb].
  destruct n as [|n']; [reflexivity|].
  cbn [pts_from]. unfold pt.
  assert (E3 : (0 + sM * Z.of_nat (S k) =? 0 + sM * Z.of_nat k + sM) = true) by (apply Z.eqb_eq; lia).
  rewrite E3. cbn [andb].
  apply orb_true_iff.
  destruct Hsm as [[-> Hsc] | [-> ->]].
  - destruct (yk_step D d k) as [E | E]; rewrite E; [left | right]; apply Z.eqb_eq; lia.
  - left. rewrite !yk_flat by lia. apply Z.eqb_eq. lia.
Qed.

Lemma map_pts_from f D d m0 sm c0 sc k n :
  (forall j, f (pt D d m0 sm c0 sc j) = pt D d 0 sm 0 sc j) ->
  map f (pts_from D d m0 sm c0 sc k n) = pts_from D d 0 sm 0 sc k n.
Proof.
  intros Hf. revert k; induction n as [|n IH]; intros k; cbn [pts_from map]; [reflexivity|].
  rewrite Hf, IH. reflexivity.
Qed.

Lemma pts_from_last D d m0 sm c0 sc n dflt :
  last (pts_from D d m0 sm c0 sc 0 (S n)) dflt = pt D d m0 sm c0 sc n.
Proof.
  assert (G : forall k, last (pts_from D d m0 sm c0 sc k (S n)) dflt = pt D d m0 sm c0 sc (k + n)).
  { induction n as [|n IH]; intros k.
    - cbn [pts_from last]. rewrite Nat.add_0_r. reflexivity.
    - change (pts_from D d m0 sm c0 sc k (S (S n)))
        with (pt D d m0 sm c0 sc k :: pts_from D d m0 sm c0 sc (S k) (S n)).
      cbn [last]. remember (pts_from D d m0 sm c0 sc (S k) (S n)) as l eqn:El.
      destruct l as [|x l']; [cbn [pts_from] in El; discriminate|].
      rewrite El, IH. f_equal. lia. }
  apply (G O).
Qed.

(* The sequence emitted for major delta D>0 (or D = 0) in normalised coordinates passes
   seq_ok and has the right end points. *)
Lemma sgn_to_dstep a0 a1 : a0 <> a1 -> sgn_to a0 a1 = dstep a0 a1.
Proof. intros H. unfold sgn_to, dstep. destruct (Z.ltb_spec a0 a1), (Z.ltb_spec a1 a0); lia. Qed.

Lemma pair_eqb_refl p : pair_eqb p p = true.
Proof. unfold pair_eqb. rewrite !Z.eqb_refl. reflexivity. Qed.


Lemma pts_from_diag_swap D m0 sm c0 sc k n : 0 < D ->
  map swap (pts_from D D m0 sm c0 sc k n) = pts_from D D c0 sc m0 sm k n.
Proof.
  intros HD. revert k; induction n as [|n IH]; intros k; cbn [pts_from map]; [reflexivity|].
  rewrite IH. f_equal. unfold pt, swap. cbn [fst snd]. rewrite !yk_diag by assumption. reflexivity.
Qed.

(* everything line_ok asks of the sequence generated along the major axis *)
Lemma major_ok m0 m1 c0 c1 :
  let D := Z.abs (m1 - m0) in let d := Z.abs (c1 - c0) in
  d <= D -> 0 < D ->
  let pts := pts_from D d m0 (dstep m0 m1) c0 (dstep c0 c1) 0 (S (Z.to_nat D)) in
  Z.of_nat (length pts) = D + 1 /\
  (forall dflt, hd dflt pts = (m0, c0)) /\
  (forall dflt, last pts dflt = (m1, c1)) /\
  seq_ok D d (sgn_to m0 m1) (sgn_to c0 c1) 0 (map (fun p => (fst p - m0, snd p - c0)) pts) = true.
Proof.
  intros D d Hle HD pts.
  assert (Hd : 0 <= d <= D) by (subst d; lia).
  split; [subst pts; rewrite pts_from_length; lia|].
  split.
  { intros dflt. subst pts. cbn [pts_from hd]. unfold pt. cbn [Z.of_nat].
    rewrite yk_0, !Z.mul_0_r, !Z.add_0_r. reflexivity. }
  split.
  { intros dflt. subst pts. rewrite pts_from_last. unfold pt. rewrite Z2Nat.id by lia.
    rewrite yk_end by assumption. subst D d. unfold dstep.
    destruct (Z.ltb_spec m0 m1), (Z.ltb_spec c0 c1); f_equal; lia. }
  subst pts. rewrite (map_pts_from (fun p => (fst p - m0, snd p - c0))).
  2:{ intros j. unfold pt. cbn [fst snd]. f_equal; lia. }
  rewrite sgn_to_dstep by (subst D; lia).
  apply (seq_ok_pts D d (dstep m0 m1) (sgn_to c0 c1) (dstep c0 c1) 0); try assumption.
  - unfold dstep. destruct (m0 <? m1); auto.
  - destruct (Z.eq_dec c0 c1) as [-> | Hne].
    + right. subst d. unfold sgn_to. rewrite Z.ltb_irrefl. split; [lia|reflexivity].
    + left. split; [apply sgn_to_dstep; assumption|]. unfold dstep. destruct (c0 <? c1); auto.
Qed.

Lemma map_map_swap_norm (l : list (Z * Z)) a b :
  map (fun p => (snd p - a, fst p - b)) (map swap l) = map (fun p => (fst p - a, snd p - b)) l.
Proof. rewrite map_map. apply map_ext. intros [u v]. reflexivity. Qed.

Lemma hd_map_swap (l : list (Z * Z)) dflt : hd (swap dflt) (map swap l) = swap (hd dflt l).
Proof. destruct l; reflexivity. Qed.
Lemma last_map_swap (l : list (Z * Z)) dflt : last (map swap l) (swap dflt) = swap (last l dflt).
Proof. induction l as [|a [|b l] IH]; try reflexivity. exact IH. Qed.

(* draw_line_pts terminates within its fuel and its output passes the checker *)
Theorem draw_line_spec y0 x0 y1 x1 :
  exists pts, draw_line_pts y0 x0 y1 x1 = Some pts /\
              line_ok ((y0, x0), (y1, x1)) pts = true.
Proof.
  unfold draw_line_pts. destruct (Z.ltb_spec (Z.abs (x1 - x0)) (Z.abs (y1 - y0))) as [Hlt | Hge].
  - (* Y varies fastest *)
    rewrite dl_loop_run by lia. eexists. split; [reflexivity|].
    destruct (major_ok y0 y1 x0 x1 ltac:(lia) ltac:(lia)) as (Hlen & Hhd & Hlast & Hseq).
    unfold line_ok. rewrite Hlen, Hhd, Hlast, !pair_eqb_refl.
    replace (Z.max (Z.abs (y1 - y0)) (Z.abs (x1 - x0))) with (Z.abs (y1 - y0)) by lia.
    rewrite Z.eqb_refl. cbn [andb].
    replace (Z.abs (x1 - x0) <=? Z.abs (y1 - y0)) with true by (symmetry; apply Z.leb_le; lia).
    exact Hseq.
  - (* X varies fastest (including exact diagonals and the single point) *)
    rewrite dl_loop_run by lia. cbn [option_map]. eexists. split; [reflexivity|].
    destruct (Z.eq_dec (Z.abs (x1 - x0)) 0) as [HD0 | HDpos].
    + (* single point *)
      assert (x1 = x0) by lia. assert (y1 = y0) by lia. subst x1 y1.
      rewrite !Z.sub_diag. cbn [Z.abs Z.to_nat pts_from map]. unfold pt, swap. cbn [Z.of_nat fst snd].
      rewrite yk_0, !Z.mul_0_r, !Z.add_0_r. unfold line_ok. cbn [length hd last Z.of_nat map fst snd].
      rewrite !Z.sub_diag. cbn [Z.abs]. rewrite !pair_eqb_refl. unfold sgn_to. rewrite !Z.ltb_irrefl.
      reflexivity.
    + destruct (major_ok x0 x1 y0 y1 ltac:(lia) ltac:(lia)) as (Hlen & Hhd & Hlast & Hseq).
      unfold line_ok. rewrite map_length, Hlen.
      replace (Z.max (Z.abs (y1 - y0)) (Z.abs (x1 - x0))) with (Z.abs (x1 - x0)) by lia.
      rewrite Z.eqb_refl.
      change (y0 - 1, x0) with (swap (x0, y0 - 1)). rewrite hd_map_swap, Hhd.
      change (y1 - 1, x1) with (swap (x1, y1 - 1)). rewrite last_map_swap, Hlast.
      unfold swap at 1 2. cbn [fst snd]. rewrite !pair_eqb_refl. cbn [andb].
      destruct (Z.leb_spec (Z.abs (x1 - x0)) (Z.abs (y1 - y0))) as [Hle | Hgt].
      * (* exact diagonal: the checker reads it with Y as major axis *)
        assert (E : Z.abs (y1 - y0) = Z.abs (x1 - x0)) by lia. rewrite E in *.
        rewrite pts_from_diag_swap by lia.
        destruct (major_ok y0 y1 x0 x1 ltac:(lia) ltac:(lia)) as (_ & _ & _ & Hseq').
        rewrite E in Hseq'. exact Hseq'.
      * rewrite map_map_swap_norm. exact Hseq.
Qed.

(* ---------------------------------------------------------------- what the checker means *)

Lemma seq_ok_nth D d sM sm pts : forall k0,
  seq_ok D d sM sm k0 pts = true ->
  forall n, (n < length pts)%nat ->
    let p := nth n pts (0, 0) in
    fst p = sM * (k0 + Z.of_nat n) /\
    Z.abs (2 * (D * snd p - sm * (d * (k0 + Z.of_nat n)))) <= D /\
    ((S n < length pts)%nat ->
       let q := nth (S n) pts (0, 0) in snd q = snd p \/ snd q = snd p + sm).
Proof.
  induction pts as [|[a b] rest IH]; intros k0 H n Hn; [cbn in Hn; lia|].
  cbn [seq_ok] in H. apply andb_true_iff in H. destruct H as [H Hrest].
  apply andb_true_iff in H. destruct H as [H Hnext].
  apply andb_true_iff in H. destruct H as [Ha Hb].
  apply Z.eqb_eq in Ha. apply Z.leb_le in Hb.
  destruct n as [|n].
  - cbn [nth fst snd Z.of_nat]. rewrite Z.add_0_r. repeat split; try assumption.
    intros Hlen. destruct rest as [|[a' b'] rest']; [cbn in Hlen; lia|].
    cbn [nth snd]. apply andb_true_iff in Hnext. destruct Hnext as [_ Hor].
    apply orb_true_iff in Hor. destruct Hor as [E | E]; apply Z.eqb_eq in E; auto.
  - cbn [length] in Hn. specialize (IH (k0 + 1) Hrest n ltac:(lia)).
    cbn [nth]. replace (k0 + Z.of_nat (S n)) with (k0 + 1 + Z.of_nat n) by lia.
    destruct IH as (I1 & I2 & I3). repeat split; try assumption.
    intros Hlen. apply I3. cbn [length] in Hlen. lia.
Qed.

Lemma nth_map_pair (f : Z * Z -> Z * Z) (l : list (Z * Z)) n : (n < length l)%nat ->
  nth n (map f l) (0, 0) = f (nth n l (0, 0)).
Proof. intros H. rewrite (nth_indep _ (0, 0) (f (0, 0))) by (rewrite map_length; exact H). apply map_nth. Qed.

Theorem line_ok_sound l pts : line_ok l pts = true -> LineSpec l pts.
Proof.
  destruct l as [[i0 j0] [i1 j1]]. unfold line_ok, LineSpec.
  intros H. apply andb_true_iff in H. destruct H as [H Hseq].
  apply andb_true_iff in H. destruct H as [H Hlast].
  apply andb_true_iff in H. destruct H as [Hlen Hhd].
  apply Z.eqb_eq in Hlen.
  assert (Hpe : forall p q, pair_eqb p q = true -> p = q).
  { intros [a b] [c e] E. unfold pair_eqb in E. cbn [fst snd] in E. apply andb_true_iff in E.
    destruct E as [E1 E2]. apply Z.eqb_eq in E1, E2. subst. reflexivity. }
  apply Hpe in Hhd, Hlast.
  split; [exact Hlen|]. split; [destruct pts; exact Hhd|]. split; [exact Hlast|].
  intros n Hn.
  destruct (Z.leb_spec (Z.abs (j1 - j0)) (Z.abs (i1 - i0))) as [Hle | Hgt].
  - pose proof (seq_ok_nth _ _ _ _ _ _ Hseq n ltac:(rewrite map_length; exact Hn)) as (S1 & S2 & S3).
    rewrite nth_map_pair in S1, S2 by exact Hn. cbn [fst snd] in S1, S2.
    split; [intros _; split; [lia|]|].
    { replace (Z.abs (i1 - i0) * (snd (nth n pts (0, 0)) - j0) - sgn_to j0 j1 * (Z.abs (j1 - j0) * Z.of_nat n))
        with (Z.abs (i1 - i0) * (snd (nth n pts (0, 0)) - j0) - sgn_to j0 j1 * (Z.abs (j1 - j0) * (0 + Z.of_nat n))) by (f_equal; f_equal; f_equal; lia).
      exact S2. }
    split; [intros Hc; lia|].
    intros HS. split; [intros _|intros Hc; lia].
    rewrite map_length in S3. specialize (S3 HS).
    rewrite !nth_map_pair in S3 by lia. cbn [fst snd] in S3. lia.
  - pose proof (seq_ok_nth _ _ _ _ _ _ Hseq n ltac:(rewrite map_length; exact Hn)) as (S1 & S2 & S3).
    rewrite nth_map_pair in S1, S2 by exact Hn. cbn [fst snd] in S1, S2.
    split; [intros Hc; lia|].
    split; [intros _; split; [lia|]|].
    { replace (Z.abs (j1 - j0) * (fst (nth n pts (0, 0)) - i0) - sgn_to i0 i1 * (Z.abs (i1 - i0) * Z.of_nat n))
        with (Z.abs (j1 - j0) * (fst (nth n pts (0, 0)) - i0) - sgn_to i0 i1 * (Z.abs (i1 - i0) * (0 + Z.of_nat n))) by (f_equal; f_equal; f_equal; lia).
      exact S2. }
    intros HS. split; [intros Hc; lia|intros _].
    rewrite map_length in S3. specialize (S3 HS).
    rewrite !nth_map_pair in S3 by lia. cbn [fst snd] in S3. lia.
Qed.

(* the scalar rasteriser, for all end points: terminates and meets the declarative spec *)
Corollary draw_line_correct y0 x0 y1 x1 :
  exists pts, draw_line_pts y0 x0 y1 x1 = Some pts /\ LineSpec ((y0, x0), (y1, x1)) pts.
Proof.
  destruct (draw_line_spec y0 x0 y1 x1) as (pts & E & H). exists pts. split; [exact E|].
  apply line_ok_sound. exact H.
Qed.

(* the premises are met by non-degenerate lines: a shallow and a steep one *)
Example draw_line_example :
  draw_line_pts 0 0 2 5 = Some [(0,0); (0,1); (1,2); (1,3); (2,4); (2,5)] /\
  draw_line_pts 3 1 (-2) 0 = Some [(3,1); (2,1); (1,1); (0,0); (-1,0); (-2,0)].
Proof. split; reflexivity. Qed.
