(* C01 — phase 4, aug_dist_inv: the Dijkstra facts DistInv of Proofs.LapjvAugPrice hold on every returning run of the
   `while True` loop of augment for one free row r (finite prices, clean stamps).  Loop-head invariant K:
     umin = mu <= inf; all d finite; ready columns d <= mu; scan columns d = mu; once ready ++ scan is non-empty every other
     column has d >= mu; columns neither on to_do nor in ready ++ scan still have d = inf; on_to_do[j] = r -> j on to_do;
     done[j] = r -> j in ready ++ scan; every column on to_do / scan / ready has a tight pred link; ready ++ scan assigned.
   Edge inequalities (H3, H4) are kept outside K through monotonicity of d.  No bound d <= sum(c) is needed. *)
From Coq Require Import ZArith List Bool Lia ZifyBool Arith.
From Centro Require Import Base.Sx Model.Lapjv Spec.Lapjv Proofs.LapjvPhases Proofs.LapjvArr Proofs.LapjvAugMarks
  Proofs.LapjvAugFlip Proofs.LapjvAugPrice Proofs.LapjvFixedPerm.
Import ListNotations.
Open Scope Z_scope.

Lemma dz_upd d j h k : (j < length d)%nat -> dz (upd d j (Fin h)) k = if (k =? j)%nat then h else dz d k.
Proof.
  intros Hj. unfold dz. rewrite gete_upd. replace (j <? length d)%nat with true by (symmetry; apply Nat.ltb_lt; auto).
  rewrite andb_true_r. destruct (k =? j)%nat; reflexivity.
Qed.

Section Dist.
Variables (r n : nat) (rows : list (list (nat * ext))) (x y : list nat) (v : list ext) (I : Z).
Hypothesis Rfin : forall i j c, In (j, c) (row rows i) -> (j < n)%nat /\ exists z, c = Fin z.
Hypothesis Rnodup : forall i, NoDup (map fst (row rows i)).
Hypothesis HInv : Inv n rows x y v.

Definition tight (d : list ext) (pred ready : list nat) (j : nat) : Prop :=
  (getn pred j n = r /\ exists c, In (j, Fin c) (row rows r) /\ dz d j = c - vz v j) \/
  (exists jh c ch, In jh ready /\ getn pred j n = getn y jh n /\
     In (j, Fin c) (row rows (getn y jh n)) /\ In (jh, Fin ch) (row rows (getn y jh n)) /\
     dz d j = dz d jh + (c - vz v j) - (ch - vz v jh)).

Lemma tight_upd d pred ready j h a k : length d = n -> length pred = n -> (j < n)%nat ->
  k <> j -> ~ In j ready -> tight d pred ready k -> tight (upd d j (Fin h)) (upd pred j a) ready k.
Proof.
  intros Ld Lp Hj NE Nin [[E [c [Hc Ed]]]|[jh [c [ch [Hjh [E [Hc [Hch Ed]]]]]]]].
  - left. rewrite getn_upd. destruct (Nat.eqb_spec k j); [contradiction|]. cbn [andb]. split; auto.
    exists c. split; auto. rewrite dz_upd by lia. destruct (Nat.eqb_spec k j); [contradiction|exact Ed].
  - right. exists jh, c, ch. split; auto. rewrite getn_upd. destruct (Nat.eqb_spec k j); [contradiction|]. cbn [andb].
    split; auto. split; auto. split; auto. rewrite !dz_upd by lia.
    destruct (Nat.eqb_spec k j); [contradiction|]. destruct (Nat.eqb_spec jh j) as [->|_]; [contradiction|exact Ed].
Qed.

Lemma tight_ready_mono d pred ready ready' k : (forall a, In a ready -> In a ready') -> tight d pred ready k -> tight d pred ready' k.
Proof.
  intros Inc [H|[jh [c [ch [Hjh H]]]]]; [left; auto|right; exists jh, c, ch; split; auto].
Qed.

(* ---------------------------------------------------------------- the minimum scan *)

Lemma aug_min_dist d done : (forall j, (j < n)%nat -> exists z, gete d j = Fin z) ->
  forall todo m acc, (forall j, In j todo -> (j < n)%nat) -> (forall a, In a acc -> dz d a = m) ->
  exists m', fst (aug_min r n d done todo (Fin m) acc) = Fin m' /\ m' <= m /\
    (forall a, In a (snd (aug_min r n d done todo (Fin m) acc)) -> dz d a = m') /\
    (forall j, In j todo -> getn done j n <> r -> m' <= dz d j).
Proof.
  intros Fd. induction todo as [|j tr IH]; intros m acc Ht Ha; cbn [aug_min].
  - exists m. cbn [fst snd]. split; auto. split; [lia|]. split; auto. intros ? [].
  - assert (Ht' : forall k, In k tr -> (k < n)%nat) by (intros; apply Ht; right; auto).
    destruct (Fd j (Ht j (or_introl eq_refl))) as [z Hz]. assert (Dz : dz d j = z) by (unfold dz; rewrite Hz; auto).
    destruct (Nat.eqb_spec (getn done j n) r) as [E|NE].
    + destruct (IH m acc Ht' Ha) as [m' [A [B [C D]]]]. exists m'. split; auto. split; auto. split; auto.
      intros k [<-|Hk] Nk; [contradiction|auto].
    + rewrite Hz. cbn [eleb eltb].
      destruct (Z.leb_spec z m) as [L|L].
      * destruct (Z.ltb_spec z m) as [L2|L2].
        -- assert (Hs : forall a, In a [j] -> dz d a = z) by (intros a [<-|[]]; auto).
           destruct (IH z [j] Ht' Hs) as [m' [A [B [C D]]]]. exists m'. split; auto. split; [lia|].
           split; auto. intros k [<-|Hk] Nk; [lia|auto].
        -- assert (z = m) by lia. subst z.
           assert (Hs : forall a, In a (acc ++ [j]) -> dz d a = m) by (intros a Hin; apply in_app_iff in Hin as [Hin|[<-|[]]]; auto).
           destruct (IH m (acc ++ [j]) Ht' Hs) as [m' [A [B [C D]]]].
           exists m'. split; auto. split; auto. split; auto. intros k [<-|Hk] Nk; [lia|auto].
      * destruct (IH m acc Ht' Ha) as [m' [A [B [C D]]]]. exists m'. split; auto. split; auto. split; auto.
        intros k [<-|Hk] Nk; [lia|auto].
Qed.

Lemma aug_first_free_done : forall scan done k,
  getn (snd (aug_first_free r n y scan done)) k n = r -> getn done k n = r \/ In k scan.
Proof.
  induction scan as [|j sr IH]; intros done k; cbn [aug_first_free]; [auto|].
  destruct (getn y j n =? n)%nat; [cbn [snd]; auto|].
  intros H. apply IH in H. destruct H as [H|H]; [|right; right; auto].
  rewrite getn_upd in H. destruct ((k =? j)%nat && (j <? length done)%nat) eqn:E; [|left; auto].
  apply andb_true_iff in E as [E _]. apply Nat.eqb_eq in E. right. left. auto.
Qed.

(* ---------------------------------------------------------------- initialisation *)

Lemma aug_init_row_dist : FinV n v -> forall row d ontodo pred,
  NoDup (map fst row) -> (forall j c, In (j, c) row -> (j < n)%nat /\ exists z, c = Fin z) ->
  length d = n -> length ontodo = n -> length pred = n ->
  let '(d', ontodo', pred') := aug_init_row r v row d ontodo pred in
  length d' = n /\ length pred' = n /\
  (forall j c, In (j, Fin c) row -> gete d' j = Fin (c - vz v j) /\ getn pred' j n = r /\ getn ontodo' j n = r) /\
  (forall k, ~ In k (map fst row) ->
     gete d' k = gete d k /\ getn ontodo' k n = getn ontodo k n /\ getn pred' k n = getn pred k n).
Proof.
  intros FV. induction row as [|[j c] rr IH]; intros d ontodo pred ND HR Ld Lo Lp; cbn [aug_init_row].
  - split; auto. split; auto. split; [intros ? ? []|auto].
  - cbn [map fst] in ND. apply NoDup_cons_iff in ND as [Nin ND'].
    destruct (HR j c (or_introl eq_refl)) as [Hj [cz ->]]. destruct (proj2 FV j Hj) as [zv Hv].
    specialize (IH (upd d j (esub (Fin cz) (gete v j))) (upd ontodo j r) (upd pred j r) ND'
                  (fun j' c' H => HR j' c' (or_intror H)) ltac:(rewrite upd_length; auto) ltac:(rewrite upd_length; auto)
                  ltac:(rewrite upd_length; auto)).
    destruct (aug_init_row r v rr (upd d j (esub (Fin cz) (gete v j))) (upd ontodo j r) (upd pred j r)) as [[d' o'] p'].
    destruct IH as [Ld' [Lp' [In' Out']]]. split; auto. split; auto. split.
    + intros j' c' [E|Hin]; [|apply In'; auto]. inversion E; subst j' c'.
      destruct (Out' j Nin) as [Ed [Eo Ep]]. rewrite Ed, Eo, Ep, gete_upd, !getn_upd, Nat.eqb_refl, Ld, Lo, Lp.
      replace (j <? n)%nat with true by (symmetry; apply Nat.ltb_lt; auto). cbn [andb]. rewrite Hv. cbn [esub eneg eadd].
      rewrite (vz_fin _ _ _ Hv). split; [f_equal; lia|auto].
    + intros k Hk. destruct (Out' k ltac:(intros H; apply Hk; right; auto)) as [A [B C]].
      rewrite A, B, C, gete_upd, !getn_upd.
      destruct (Nat.eqb_spec k j) as [->|NE]; [exfalso; apply Hk; left; auto|auto].
Qed.

(* ---------------------------------------------------------------- the loop-head invariant *)

Record K (s : aug_state) (mu : Z) : Prop := mkK
  { k_marks : Marks r n s;
    k_umin : g_umin s = Fin mu;
    k_le : mu <= I;
    k_ready : forall j, In j (g_ready s) -> dz (g_d s) j <= mu;
    k_scan : forall j, In j (g_scan s) -> dz (g_d s) j = mu;
    k_rest : g_ready s ++ g_scan s <> [] -> forall j, (j < n)%nat -> ~ In j (g_ready s ++ g_scan s) -> mu <= dz (g_d s) j;
    k_dlen : length (g_d s) = n;
    k_dfin : forall j, (j < n)%nat -> exists z, gete (g_d s) j = Fin z;
    k_plen : length (g_pred s) = n;
    k_untouched : forall j, (j < n)%nat -> ~ In j (g_todo s) -> ~ In j (g_ready s ++ g_scan s) -> dz (g_d s) j = I;
    k_todo : forall j, (j < n)%nat -> getn (g_ontodo s) j n = r -> In j (g_todo s);
    k_done : forall j, (j < n)%nat -> getn (g_done s) j n = r -> In j (g_ready s ++ g_scan s);
    k_tight : forall j, In j (g_todo s ++ g_scan s ++ g_ready s) -> tight (g_d s) (g_pred s) (g_ready s) j;
    k_asg : forall j, In j (g_ready s ++ g_scan s) -> getn y j n <> n }.

Lemma app_ne {A} (a b : list A) : a <> [] -> a ++ b <> [].
Proof. destruct a; [contradiction|discriminate]. Qed.

Lemma K_rs_done s mu j : K s mu -> In j (g_ready s ++ g_scan s) -> getn (g_done s) j n = r.
Proof. intros HK Hin. destruct (k_marks s mu HK) as [_ [_ [_ [_ [_ H]]]]]. apply H; auto. Qed.

(* one relaxation that improves d[j] (j not done): new d, pred at j; j possibly appended to scan or to to_do *)
Lemma K_step s mu j hz a todo' scan' done' ontodo' :
  K s mu -> (j < n)%nat -> getn (g_done s) j n <> r -> mu <= hz -> g_ready s <> [] ->
  let d' := upd (g_d s) j (Fin hz) in
  let pred' := upd (g_pred s) j a in
  let s' := mkAug d' pred' done' ontodo' todo' scan' (g_ready s) (Fin mu) in
  tight d' pred' (g_ready s) j -> Marks r n s' ->
  (forall k, In k (g_todo s) -> In k todo') -> (forall k, In k todo' -> In k (g_todo s) \/ k = j) ->
  (forall k, In k (g_scan s) -> In k scan') ->
  (forall k, In k scan' -> In k (g_scan s) \/ (k = j /\ hz = mu /\ getn y j n <> n)) ->
  In j todo' \/ In j scan' ->
  (forall k, (k < n)%nat -> getn ontodo' k n = r -> getn (g_ontodo s) k n = r \/ (k = j /\ In j todo')) ->
  (forall k, (k < n)%nat -> getn done' k n = r -> getn (g_done s) k n = r \/ (k = j /\ In j scan')) ->
  K s' mu.
Proof.
  intros HK Hj Nd Hmu Rne d' pred' s' Tj M' T1 T2 S1 S2 J O Dn.
  assert (Ld := k_dlen s mu HK). assert (Lp := k_plen s mu HK).
  assert (NRS : ~ In j (g_ready s ++ g_scan s)) by (intros H; apply Nd; eapply K_rs_done; eauto).
  assert (NR : ~ In j (g_ready s)) by (intros H; apply NRS; apply in_app_iff; left; auto).
  assert (Dz : forall k, dz d' k = if (k =? j)%nat then hz else dz (g_d s) k) by (intros k; unfold d'; apply dz_upd; lia).
  assert (Dzo : forall k, k <> j -> dz d' k = dz (g_d s) k) by (intros k Hk; rewrite Dz; destruct (Nat.eqb_spec k j); [contradiction|auto]).
  assert (Dzj : dz d' j = hz) by (rewrite Dz, Nat.eqb_refl; auto).
  constructor; unfold s'; cbn [g_d g_pred g_done g_ontodo g_todo g_scan g_ready g_umin]; auto.
  - apply (k_le s mu HK).
  - intros k Hk. rewrite Dzo by (intros ->; contradiction). apply (k_ready s mu HK); auto.
  - intros k Hk. destruct (S2 k Hk) as [H|[Ek [E _]]]; [|rewrite Ek, Dzj; auto].
    rewrite Dzo by (intros ->; apply NRS; apply in_app_iff; right; auto). apply (k_scan s mu HK); auto.
  - intros _ k Hk Nk. destruct (Nat.eq_dec k j) as [->|NE]; [rewrite Dzj; auto|]. rewrite Dzo by auto.
    apply (k_rest s mu HK (app_ne _ _ Rne) k Hk). intros H. apply Nk. apply in_app_iff in H as [H|H]; apply in_app_iff; [left|right]; auto.
  - unfold d'. rewrite upd_length. auto.
  - intros k Hk. unfold d'. rewrite gete_upd. destruct ((k =? j)%nat && (j <? length (g_d s))%nat); [eauto|apply (k_dfin s mu HK); auto].
  - unfold pred'. rewrite upd_length. auto.
  - intros k Hk Nt Nrs. assert (k <> j).
    { intros ->. destruct J as [H|H]; [contradiction|]. apply Nrs. apply in_app_iff. right. auto. }
    rewrite Dzo by auto. apply (k_untouched s mu HK k Hk); [intros H'; apply Nt; auto|].
    intros H'. apply Nrs. apply in_app_iff in H' as [H'|H']; apply in_app_iff; [left|right]; auto.
  - intros k Hk E. destruct (O k Hk E) as [H|[Ek H]]; [|rewrite Ek; auto]. apply T1. apply (k_todo s mu HK k Hk H).
  - intros k Hk E. destruct (Dn k Hk E) as [H|[Ek H]]; [|rewrite Ek; apply in_app_iff; right; auto].
    pose proof (k_done s mu HK k Hk H) as H'. apply in_app_iff in H' as [H'|H']; apply in_app_iff; [left|right]; auto.
  - intros k Hk. destruct (Nat.eq_dec k j) as [->|NE]; [exact Tj|].
    apply tight_upd; auto. apply (k_tight s mu HK).
    apply in_app_iff in Hk as [Hk|Hk]; [destruct (T2 k Hk) as [H|H]; [apply in_app_iff; left; auto|contradiction]|].
    apply in_app_iff in Hk as [Hk|Hk]; [destruct (S2 k Hk) as [H|[H _]]; [apply in_app_iff; right; apply in_app_iff; left; auto|contradiction]|].
    apply in_app_iff; right; apply in_app_iff; right; auto.
  - intros k Hk. apply in_app_iff in Hk as [Hk|Hk]; [apply (k_asg s mu HK); apply in_app_iff; left; auto|].
    destruct (S2 k Hk) as [H|[Ek [_ H]]]; [|rewrite Ek; auto]. apply (k_asg s mu HK); apply in_app_iff; right; auto.
Qed.

(* what the exit state still satisfies (the exit column need not be on any list) *)
Record Kx (s : aug_state) (mu : Z) : Prop := mkKx
  { kx_ready : forall j, In j (g_ready s) -> dz (g_d s) j <= mu;
    kx_scan : forall j, In j (g_scan s) -> dz (g_d s) j = mu;
    kx_rest : g_ready s <> [] -> forall j, (j < n)%nat -> ~ In j (g_ready s ++ g_scan s) -> mu <= dz (g_d s) j;
    kx_dfin : forall j, (j < n)%nat -> exists z, gete (g_d s) j = Fin z;
    kx_tight : forall j, In j (g_ready s) -> tight (g_d s) (g_pred s) (g_ready s) j;
    kx_asg : forall j, In j (g_ready s) -> getn y j n <> n }.

Lemma K_Kx s mu : K s mu -> Kx s mu.
Proof.
  intros HK. constructor; try apply HK.
  - intros Rne. apply (k_rest s mu HK (app_ne _ _ Rne)).
  - intros j Hj. apply (k_tight s mu HK). apply in_app_iff; right; apply in_app_iff; right; auto.
  - intros j Hj. apply (k_asg s mu HK). apply in_app_iff; left; auto.
Qed.

Lemma Kx_exit s mu j hz a : K s mu -> (j < n)%nat -> getn (g_done s) j n <> r -> mu <= hz ->
  Kx (mkAug (upd (g_d s) j (Fin hz)) (upd (g_pred s) j a) (g_done s) (g_ontodo s) (g_todo s) (g_scan s) (g_ready s) (Fin mu)) mu.
Proof.
  intros HK Hj Nd Hmu. assert (Ld := k_dlen s mu HK). assert (Lp := k_plen s mu HK).
  assert (NRS : ~ In j (g_ready s ++ g_scan s)) by (intros H; apply Nd; eapply K_rs_done; eauto).
  assert (NR : ~ In j (g_ready s)) by (intros H; apply NRS; apply in_app_iff; left; auto).
  assert (Dz : forall k, dz (upd (g_d s) j (Fin hz)) k = if (k =? j)%nat then hz else dz (g_d s) k) by (intros k; apply dz_upd; lia).
  assert (Dzo : forall k, k <> j -> dz (upd (g_d s) j (Fin hz)) k = dz (g_d s) k)
    by (intros k Hk; rewrite Dz; destruct (Nat.eqb_spec k j); [contradiction|auto]).
  constructor; cbn [g_d g_pred g_done g_ontodo g_todo g_scan g_ready g_umin].
  - intros k Hk. rewrite Dzo by (intros ->; contradiction). apply (k_ready s mu HK); auto.
  - intros k Hk. rewrite Dzo by (intros ->; apply NRS; apply in_app_iff; right; auto). apply (k_scan s mu HK); auto.
  - intros Rne k Hk Nk. destruct (Nat.eq_dec k j) as [->|NE]; [rewrite Dz, Nat.eqb_refl; auto|]. rewrite Dzo by auto.
    apply (k_rest s mu HK (app_ne _ _ Rne) k Hk Nk).
  - intros k Hk. rewrite gete_upd. destruct ((k =? j)%nat && (j <? length (g_d s))%nat); [eauto|apply (k_dfin s mu HK); auto].
  - intros k Hk. apply tight_upd; auto; [intros ->; contradiction|]. apply (k_tight s mu HK).
    apply in_app_iff; right; apply in_app_iff; right; auto.
  - intros k Hk. apply (k_asg s mu HK). apply in_app_iff; left; auto.
Qed.

(* ---------------------------------------------------------------- the scan of the row of a popped column jh *)

Lemma aug_relax_dist jh c1 mu : (jh < n)%nat -> FinV n v ->
  (forall j c, In (j, Fin c) (row rows (getn y jh n)) -> c1 - vz v jh <= c - vz v j) ->
  In (jh, Fin c1) (row rows (getn y jh n)) ->
  forall rw s, (forall j c, In (j, c) rw -> In (j, c) (row rows (getn y jh n))) ->
  K s mu -> In jh (g_ready s) -> dz (g_d s) jh = mu ->
  let res := aug_relax r n (getn y jh n) y v (esub (esub (Fin c1) (gete v jh)) (Fin mu)) rw s in
  (snd res = None -> K (fst res) mu) /\ Kx (fst res) mu /\ g_ready (fst res) = g_ready s /\
  (forall j, (j < n)%nat -> dz (g_d (fst res)) j <= dz (g_d s) j) /\
  (forall j, getn (g_done s) j n = r -> dz (g_d (fst res)) j = dz (g_d s) j) /\
  (snd res = None -> forall j c, In (j, Fin c) rw -> dz (g_d (fst res)) j <= mu + (c - vz v j) - (c1 - vz v jh)) /\
  (forall j, snd res = Some j -> (j < n)%nat /\ getn y j n = n /\ dz (g_d (fst res)) j = mu /\ ~ In j (g_ready s) /\
     tight (g_d (fst res)) (g_pred (fst res)) (g_ready s) j).
Proof.
  intros Hjh FV SLK Hc1. destruct (proj2 FV jh Hjh) as [zjh Hvjh]. pose proof (vz_fin _ _ _ Hvjh) as Vjh.
  induction rw as [|[j c] rr IH]; intros s HRW HK Hin Dj; cbn zeta; cbn [aug_relax].
  - cbn [fst snd]. split; auto. split; [apply K_Kx; auto|]. split; auto. split; [intros; lia|]. split; auto. split; [intros _ ? ? []|discriminate].
  - assert (HRW' : forall j' c', In (j', c') rr -> In (j', c') (row rows (getn y jh n))) by (intros; apply HRW; right; auto).
    pose proof (HRW j c (or_introl eq_refl)) as HinI. destruct (Rfin _ _ _ HinI) as [Hj [cz Ec]]. subst c.
    destruct (proj2 FV j Hj) as [zj Hvj]. pose proof (vz_fin _ _ _ Hvj) as Vj.
    assert (Rne : g_ready s <> []) by (intros E; rewrite E in Hin; destruct Hin).
    set (hz := mu + (cz - zj) - (c1 - zjh)).
    assert (Hhz : mu <= hz) by (pose proof (SLK j cz HinI); unfold hz; lia).
    (* skipping the entry: its edge inequality already holds *)
    assert (Skip : dz (g_d s) j <= hz ->
              let res := aug_relax r n (getn y jh n) y v (esub (esub (Fin c1) (gete v jh)) (Fin mu)) rr s in
              (snd res = None -> K (fst res) mu) /\ Kx (fst res) mu /\ g_ready (fst res) = g_ready s /\
              (forall j0, (j0 < n)%nat -> dz (g_d (fst res)) j0 <= dz (g_d s) j0) /\
              (forall j0, getn (g_done s) j0 n = r -> dz (g_d (fst res)) j0 = dz (g_d s) j0) /\
              (snd res = None -> forall j0 c0, In (j0, Fin c0) ((j, Fin cz) :: rr) ->
                 dz (g_d (fst res)) j0 <= mu + (c0 - vz v j0) - (c1 - vz v jh)) /\
              (forall j0, snd res = Some j0 -> (j0 < n)%nat /\ getn y j0 n = n /\ dz (g_d (fst res)) j0 = mu /\ ~ In j0 (g_ready s) /\
                 tight (g_d (fst res)) (g_pred (fst res)) (g_ready s) j0)).
    { intros Le. cbn zeta. destruct (IH s HRW' HK Hin Dj) as [A [A' [B [C [D [E F]]]]]]. cbn zeta in *.
      split; auto. split; auto. split; auto. split; auto. split; auto. split; auto.
      intros N j0 c0 [E0|H0]; [|apply E; auto]. inversion E0; subst j0 c0. specialize (C j Hj). rewrite Vj, Vjh. unfold hz in Le. lia. }
    destruct (Nat.eqb_spec (getn (g_done s) j n) r) as [Ed|Nd].
    + apply Skip. pose proof (k_done s mu HK j Hj Ed) as H. apply in_app_iff in H as [H|H];
        [pose proof (k_ready s mu HK j H)|pose proof (k_scan s mu HK j H)]; lia.
    + destruct (k_dfin s mu HK j Hj) as [dj Hdj]. assert (Dzj : dz (g_d s) j = dj) by (unfold dz; rewrite Hdj; auto).
      assert (Eh : esub (esub (Fin cz) (gete v j)) (esub (esub (Fin c1) (gete v jh)) (Fin mu)) = Fin hz).
      { rewrite Hvj, Hvjh. cbn [esub eneg eadd]. f_equal. unfold hz. lia. }
      rewrite Eh, Hdj. cbn [eltb].
      destruct (Z.ltb_spec hz dj) as [Lt|Ge]; [|apply Skip; lia].
      rewrite (k_umin s mu HK). cbn [eleb].
      (* after the update: everything about the continuation *)
      assert (NRS : ~ In j (g_ready s ++ g_scan s)) by (intros H; apply Nd; eapply K_rs_done; eauto).
      assert (NR : ~ In j (g_ready s)) by (intros H; apply NRS; apply in_app_iff; left; auto).
      assert (Tj : tight (upd (g_d s) j (Fin hz)) (upd (g_pred s) j (getn y jh n)) (g_ready s) j).
      { right. exists jh, cz, c1. split; auto. split.
        - rewrite getn_upd, Nat.eqb_refl, (k_plen s mu HK). replace (j <? n)%nat with true by (symmetry; apply Nat.ltb_lt; auto). reflexivity.
        - split; auto. split; auto. rewrite !dz_upd by (rewrite (k_dlen s mu HK); auto). rewrite Nat.eqb_refl.
          destruct (Nat.eqb_spec jh j) as [E|_]; [subst; contradiction|]. rewrite Dj, Vj, Vjh. unfold hz. lia. }
      assert (Cont : forall s', K s' mu -> g_ready s' = g_ready s ->
                (forall j0, dz (g_d s') j0 = if (j0 =? j)%nat then hz else dz (g_d s) j0) ->
                (forall j0, getn (g_done s) j0 n = r -> getn (g_done s') j0 n = r) ->
                let res := aug_relax r n (getn y jh n) y v (esub (esub (Fin c1) (gete v jh)) (Fin mu)) rr s' in
                (snd res = None -> K (fst res) mu) /\ Kx (fst res) mu /\ g_ready (fst res) = g_ready s /\
                (forall j0, (j0 < n)%nat -> dz (g_d (fst res)) j0 <= dz (g_d s) j0) /\
                (forall j0, getn (g_done s) j0 n = r -> dz (g_d (fst res)) j0 = dz (g_d s) j0) /\
                (snd res = None -> forall j0 c0, In (j0, Fin c0) ((j, Fin cz) :: rr) ->
                   dz (g_d (fst res)) j0 <= mu + (c0 - vz v j0) - (c1 - vz v jh)) /\
                (forall j0, snd res = Some j0 -> (j0 < n)%nat /\ getn y j0 n = n /\ dz (g_d (fst res)) j0 = mu /\ ~ In j0 (g_ready s) /\
                   tight (g_d (fst res)) (g_pred (fst res)) (g_ready s) j0)).
      { intros s' HK' Er Dz' Dn'. cbn zeta.
        assert (Hin' : In jh (g_ready s')) by (rewrite Er; auto).
        assert (Dj' : dz (g_d s') jh = mu) by (rewrite Dz'; destruct (Nat.eqb_spec jh j) as [E|_]; [subst; contradiction|auto]).
        destruct (IH s' HRW' HK' Hin' Dj') as [A [A' [B [C [D [E F]]]]]]. cbn zeta in *.
        split; auto. split; auto. split; [rewrite B; auto|]. split.
        - intros j0 Hj0. specialize (C j0 Hj0). rewrite Dz' in C. destruct (Nat.eqb_spec j0 j) as [E0|_]; [rewrite E0 in *|]; lia.
        - split.
          + intros j0 Hd. rewrite (D j0 (Dn' j0 Hd)), Dz'. destruct (Nat.eqb_spec j0 j) as [E0|_]; [rewrite E0 in Hd; contradiction|auto].
          + split.
            * intros N j0 c0 [E0|H0]; [|apply E; auto]. inversion E0; subst j0 c0. specialize (C j Hj).
              rewrite Dz', Nat.eqb_refl in C. rewrite Vj, Vjh. unfold hz in C. lia.
            * intros j0 Ej0. rewrite <- Er. apply F; auto. }
      assert (Dzn : forall j0, dz (upd (g_d s) j (Fin hz)) j0 = if (j0 =? j)%nat then hz else dz (g_d s) j0)
        by (intros; apply dz_upd; rewrite (k_dlen s mu HK); auto).
      destruct (Z.leb_spec hz mu) as [Le|Gt].
      * assert (Ehz : hz = mu) by lia.
        destruct (Nat.eqb_spec (getn y j n) n) as [Ey|Ny].
        -- (* exit *)
           cbn [fst snd g_d g_pred g_ready].
           split; [discriminate|]. split; [apply Kx_exit; auto|]. split; auto. split; [intros j0 Hj0; rewrite Dzn; destruct (Nat.eqb_spec j0 j) as [E0|_]; [rewrite E0|]; lia|].
           split; [intros j0 Hd; rewrite Dzn; destruct (Nat.eqb_spec j0 j) as [E0|_]; [rewrite E0 in Hd; contradiction|auto]|].
           split; [discriminate|]. intros j0 E0; inversion E0; subst j0. rewrite Dzn, Nat.eqb_refl. auto.
        -- apply Cont; cbn [g_d g_done g_ready]; auto.
           ++ apply (K_step s mu j hz (getn y jh n) (g_todo s) (g_scan s ++ [j]) (upd (g_done s) j r) (g_ontodo s)); auto.
              ** exact (Marks_scan_snoc r n s (g_d s) (g_pred s) j (k_marks s mu HK) Hj Nd).
              ** intros k Hk. apply in_app_iff. left. auto.
              ** intros k Hk. apply in_app_iff in Hk as [Hk|[<-|[]]]; auto.
              ** right. apply in_app_iff. right. left. auto.
              ** intros k Hk E. rewrite getn_upd in E. destruct ((k =? j)%nat && (j <? length (g_done s))%nat) eqn:Eb; [|auto].
                 apply andb_true_iff in Eb as [Eb _]. apply Nat.eqb_eq in Eb. right. split; auto. apply in_app_iff. right. left. auto.
           ++ intros j0 Hd. rewrite getn_upd. destruct ((j0 =? j)%nat && (j <? length (g_done s))%nat); auto.
      * destruct (Nat.eqb_spec (getn (g_ontodo s) j n) r) as [Eo|No].
        -- apply Cont; cbn [g_d g_done g_ready]; auto.
           apply (K_step s mu j hz (getn y jh n) (g_todo s) (g_scan s) (g_done s) (g_ontodo s)); auto.
           all: try lia. all: try (exact (k_marks s mu HK)). all: try (left; apply (k_todo s mu HK j Hj Eo)).
        -- apply Cont; cbn [g_d g_done g_ready]; auto.
           apply (K_step s mu j hz (getn y jh n) (g_todo s ++ [j]) (g_scan s) (g_done s) (upd (g_ontodo s) j r)); auto.
           all: try lia. all: try (exact (Marks_todo_snoc r n s (g_d s) (g_pred s) j (k_marks s mu HK) Hj No)).
           ++ intros k Hk. apply in_app_iff. left. auto.
           ++ intros k Hk. apply in_app_iff in Hk as [Hk|[<-|[]]]; auto.
           ++ left. apply in_app_iff. right. left. auto.
           ++ intros k Hk E. rewrite getn_upd in E. destruct ((k =? j)%nat && (j <? length (g_ontodo s))%nat) eqn:Eb; [|auto].
              apply andb_true_iff in Eb as [Eb _]. apply Nat.eqb_eq in Eb. right. split; auto. apply in_app_iff. right. left. auto.
Qed.

Lemma aug_relax_umin i1 u1 : forall rw s, g_umin (fst (aug_relax r n i1 y v u1 rw s)) = g_umin s.
Proof.
  induction rw as [|[j c] rr IH]; intros s; cbn [aug_relax]; [reflexivity|].
  destruct (getn (g_done s) j n =? r)%nat; [apply IH|].
  destruct (eltb (esub (esub c (gete v j)) u1) (gete (g_d s) j)); [|apply IH].
  destruct (eleb (esub (esub c (gete v j)) u1) (g_umin s)).
  - destruct (getn y j n =? n)%nat; [reflexivity|]. rewrite IH. reflexivity.
  - destruct (getn (g_ontodo s) j n =? r)%nat; rewrite IH; reflexivity.
Qed.

(* ---------------------------------------------------------------- the loop *)

Definition Fd (d : list ext) : Prop := forall j c, In (j, Fin c) (row rows r) -> dz d j <= c - vz v j.
Definition Gd (d : list ext) (ready : list nat) : Prop :=
  forall jh j c ch, In jh ready -> In (j, Fin c) (row rows (getn y jh n)) -> In (jh, Fin ch) (row rows (getn y jh n)) ->
    dz d j <= dz d jh + (c - vz v j) - (ch - vz v jh).

Definition Res (s' : aug_state) (j1 : nat) : Prop :=
  exists mu', g_umin s' = Fin mu' /\
    DistInv n rows r y v (g_d s') (g_pred s') (g_ready s') mu' j1 /\
    (forall j, In j (g_ready s') -> (exists z, gete (g_d s') j = Fin z) /\ getn y j n <> n).

Lemma mk_res s' j1 mu' : g_umin s' = Fin mu' -> Kx s' mu' ->
  (forall j, (j < n)%nat -> ~ In j (g_ready s') -> mu' <= dz (g_d s') j) ->
  Fd (g_d s') ->
  (forall jh j c ch, In jh (g_ready s') -> In (j, Fin c) (row rows (getn y jh n)) -> In (jh, Fin ch) (row rows (getn y jh n)) ->
     dz (g_d s') jh = mu' \/ dz (g_d s') j <= dz (g_d s') jh + (c - vz v j) - (ch - vz v jh)) ->
  tight (g_d s') (g_pred s') (g_ready s') j1 -> dz (g_d s') j1 = mu' -> ~ In j1 (g_ready s') -> (forall j, In j (g_ready s') -> (j < n)%nat) ->
  Res s' j1.
Proof.
  intros Eu HX H2 HF HG T1 D1 N1 Rn. exists mu'. split; auto. split.
  - constructor; auto.
    + apply (kx_ready s' mu' HX).
    + intros j c Hc. split; [apply (kx_dfin s' mu' HX); apply (Rfin _ _ _ Hc)|apply HF; auto].
    + intros jh j c ch Hjh H1' H2'. destruct (HG jh j c ch Hjh H1' H2') as [E|E]; [left; auto|right; split; auto].
      apply (kx_dfin s' mu' HX). apply (Rfin _ _ _ H1').
    + intros j [Hj | ->]; [|exact T1]. apply (kx_tight s' mu' HX j Hj).
  - intros j Hj. split; [apply (kx_dfin s' mu' HX); auto|apply (kx_asg s' mu' HX); auto].
Qed.

Theorem aug_loop_dist : FinV n v -> forall fuel s mu s' j1,
  K s mu -> Fd (g_d s) -> Gd (g_d s) (g_ready s) ->
  aug_loop fuel r n (Fin I) rows y v s = Some (s', j1) -> Res s' j1.
Proof.
  intros FV. pose proof HInv as [Lx [Ly [_ SL]]].
  induction fuel as [|f IH]; intros s mu s' j1 HK HF HG; cbn [aug_loop]; [discriminate|].
  assert (Rn : forall t m, K t m -> forall j, In j (g_ready t) -> (j < n)%nat).
  { intros t m HT j Hj. destruct (k_marks t m HT) as [_ [_ [_ [_ [_ H]]]]]. apply H. apply in_app_iff. left. auto. }
  (* the refill *)
  assert (RF : exists s1 found m',
            (match g_scan s with
             | [] => let '(umin, scan) := aug_min r n (g_d s) (g_done s) (g_todo s) (Fin I) [] in
                     let '(found, done') := aug_first_free r n y scan (g_done s) in
                     (mkAug (g_d s) (g_pred s) done' (g_ontodo s) (g_todo s) scan (g_ready s) umin, found)
             | _ => (s, None)
             end) = (s1, found) /\
            (found = None -> g_scan s1 <> [] -> K s1 m' /\ Fd (g_d s1) /\ Gd (g_d s1) (g_ready s1)) /\
            (forall j, found = Some j -> Res s1 j)).
  { destruct (g_scan s) as [|j0 sr] eqn:ES.
    - pose proof (k_marks s mu HK) as [Ld [Lo [Nt [Ht [Nrs Hrs]]]]]. rewrite ES, app_nil_r in Nrs, Hrs.
      pose proof (aug_min_marks r n (g_d s) (g_done s) (g_todo s) (Fin I) [] Nt (NoDup_nil _) (fun a H => False_ind _ H)) as AM.
      pose proof (refill_spec r n rows y (Fin I) (fun i j c H => proj1 (Rfin i j c H)) s (k_marks s mu HK)) as RS.
      unfold refill in RS. rewrite ES in RS.
      destruct (aug_min_dist (g_d s) (g_done s) (k_dfin s mu HK) (g_todo s) I [] (fun j H => proj1 (Ht j H)) (fun a H => False_ind _ H))
        as [m' [Eum [Lm [Hsc Hel]]]].
      destruct (aug_min r n (g_d s) (g_done s) (g_todo s) (Fin I) []) as [um sc]. cbn [fst snd] in Eum, Hsc. subst um.
      destruct AM as [Nsc Hsc2].
      assert (Hsc' : forall a, In a sc -> (a < n)%nat /\ getn (g_done s) a n <> r /\ In a (g_todo s)).
      { intros a Ha. destruct (Hsc2 a Ha) as [[]|[H1 H2]]. split; [apply Ht; auto|auto]. }
      pose proof (aug_first_free_marks r n rows y (fun i j c H => proj1 (Rfin i j c H)) sc (g_done s) (fun a H => proj1 (Hsc' a H)) Ld) as FF.
      pose proof (aug_first_free_assigned r n y sc (g_done s)) as FA.
      pose proof (aug_first_free_done sc (g_done s)) as FD.
      destruct (aug_first_free r n y sc (g_done s)) as [fo done']. cbn [fst snd] in FA, FD.
      destruct FF as [Ld' [Keep [AllN Found]]].
      assert (NotR : forall a, In a sc -> ~ In a (g_ready s)).
      { intros a Ha Hr'. destruct (Hsc' a Ha) as [_ [N _]]. apply N. apply Hrs. auto. }
      (* every column outside ready ++ sc has d >= m' *)
      assert (Rest : forall j, (j < n)%nat -> ~ In j (g_ready s) -> ~ In j sc -> m' <= dz (g_d s) j).
      { intros j Hj Nr Ns. destruct (in_dec Nat.eq_dec j (g_todo s)) as [Hin|Nin].
        - apply Hel; auto. intros Ed. pose proof (k_done s mu HK j Hj Ed) as H. rewrite ES, app_nil_r in H. contradiction.
        - rewrite (k_untouched s mu HK j Hj Nin); [lia|]. rewrite ES, app_nil_r. exact Nr. }
      assert (MuLe : sc <> [] -> g_ready s <> [] -> mu <= m').
      { intros Hne Rne. destruct sc as [|a l]; [contradiction|]. rewrite <- (Hsc a (or_introl eq_refl)).
        apply (k_rest s mu HK (app_ne _ _ Rne) a); [apply Hsc'; left; auto|]. rewrite ES, app_nil_r. apply NotR. left. auto. }
      exists (mkAug (g_d s) (g_pred s) done' (g_ontodo s) (g_todo s) sc (g_ready s) (Fin m')), fo, m'.
      split; [reflexivity|]. split.
      + intros Efo Hne. cbn [g_scan] in Hne. subst fo. destruct RS as [_ [_ [_ [_ [_ [RN _]]]]]]. destruct (RN eq_refl) as [M1 _].
        split; [|split; [exact HF|exact HG]].
        constructor; cbn [g_d g_pred g_done g_ontodo g_todo g_scan g_ready g_umin]; auto.
        * intros j Hj. destruct (g_ready s) as [|a0 l0] eqn:ER; [destruct Hj|]. rewrite <- ER in *.
          pose proof (k_ready s mu HK j Hj). assert (mu <= m') by (apply MuLe; auto; rewrite ER; discriminate). lia.
        * intros _ j Hj Nj. apply Rest; auto; intros H; apply Nj; apply in_app_iff; [left|right]; auto.
        * apply (k_dlen s mu HK).
        * apply (k_dfin s mu HK).
        * apply (k_plen s mu HK).
        * intros j Hj Nt' Nrs'. apply (k_untouched s mu HK j Hj Nt'). rewrite ES, app_nil_r. intros H. apply Nrs'. apply in_app_iff. left. auto.
        * apply (k_todo s mu HK).
        * intros j Hj Ed. destruct (FD j Ed) as [H|H]; [|apply in_app_iff; right; auto].
          pose proof (k_done s mu HK j Hj H) as H'. rewrite ES, app_nil_r in H'. apply in_app_iff. left. auto.
        * intros j Hj. apply (k_tight s mu HK). rewrite ES. cbn [app].
          apply in_app_iff in Hj as [Hj|Hj]; [apply in_app_iff; left; auto|].
          apply in_app_iff in Hj as [Hj|Hj]; [apply in_app_iff; left; apply Hsc'; auto|apply in_app_iff; right; auto].
        * intros j Hj. apply in_app_iff in Hj as [Hj|Hj]; [apply (k_asg s mu HK); apply in_app_iff; left; auto|apply FA; auto].
      + intros j Efo. subst fo. destruct (Found j eq_refl) as [Hjs Hyj]. destruct (Hsc' j Hjs) as [Hjn [Ndj Htj]].
        apply (mk_res _ j m'); cbn [g_d g_pred g_ready g_umin].
        * reflexivity.
        * constructor; cbn [g_d g_pred g_done g_ontodo g_todo g_scan g_ready g_umin].
          -- intros k Hk. pose proof (k_ready s mu HK k Hk). assert (mu <= m'); [|lia].
             apply MuLe; [intros E; rewrite E in Hjs; destruct Hjs|intros E; rewrite E in Hk; destruct Hk].
          -- exact Hsc.
          -- intros _ k Hk Nk. apply Rest; auto; intros H; apply Nk; apply in_app_iff; [left|right]; auto.
          -- apply (k_dfin s mu HK).
          -- intros k Hk. apply (k_tight s mu HK). apply in_app_iff; right; apply in_app_iff; right; auto.
          -- intros k Hk. apply (k_asg s mu HK). apply in_app_iff; left; auto.
        * intros k Hk Nk. destruct (in_dec Nat.eq_dec k sc) as [Hin|Nin]; [rewrite (Hsc k Hin); lia|apply Rest; auto].
        * exact HF.
        * intros jh j' c ch Hjh H1 H2. right. apply HG; auto.
        * apply (k_tight s mu HK). apply in_app_iff. left. auto.
        * apply Hsc; auto.
        * apply NotR; auto.
        * intros k Hk. apply (Rn s mu HK k Hk).
    - exists s, None, mu. split; [reflexivity|]. split; [intros _ _; auto|discriminate]. }
  destruct RF as [s1 [found [m' [ERF [RN RS]]]]]. rewrite ERF.
  destruct found as [j|]; [intros E; inversion E; subst; apply RS; auto|].
  destruct (g_scan s1) as [|jh srest] eqn:ES1; [discriminate|].
  destruct (RN eq_refl ltac:(discriminate)) as [HK1 [HF1 HG1]].
  destruct (cost_at (rowget rows (getn y jh n)) jh) as [c1e|] eqn:EC; [|discriminate].
  apply cost_at_some_in in EC. fold (row rows (getn y jh n)) in EC.
  destruct (Rfin _ _ _ EC) as [Hjh [c1 Ec1]]. subst c1e.
  assert (Asg : getn y jh n <> n) by (apply (k_asg s1 m' HK1); rewrite ES1; apply in_app_iff; right; left; auto).
  assert (SLK : forall j c, In (j, Fin c) (row rows (getn y jh n)) -> c1 - vz v jh <= c - vz v j).
  { intros j c Hc. destruct (SL jh _ Hjh eq_refl Asg) as [_ [_ [c0 [Hc0 Hmin]]]].
    assert (Fin c0 = Fin c1) by (eapply (row_cost_unique rows Rnodup); eauto). inversion H; subst. apply Hmin; auto. }
  match goal with |- context [aug_relax _ _ _ _ _ _ _ ?S] => set (s2 := S) end.
  assert (Djh : dz (g_d s1) jh = m') by (apply (k_scan s1 m' HK1); rewrite ES1; left; auto).
  assert (HK2 : K s2 m').
  { unfold s2. constructor; cbn [g_d g_pred g_done g_ontodo g_todo g_scan g_ready g_umin]; try apply HK1.
    - apply Marks_pop; [apply HK1|exact ES1].
    - intros j Hj. apply in_app_iff in Hj as [Hj|[<-|[]]]; [apply (k_ready s1 m' HK1); auto|lia].
    - intros j Hj. apply (k_scan s1 m' HK1). rewrite ES1. right. auto.
    - intros _ j Hj Nj. apply (k_rest s1 m' HK1); [rewrite ES1; destruct (g_ready s1); discriminate|auto|].
      rewrite ES1. intros H. apply Nj. rewrite <- app_assoc. exact H.
    - intros j Hj Nt Nrs. apply (k_untouched s1 m' HK1 j Hj Nt). rewrite ES1. intros H. apply Nrs. rewrite <- app_assoc. exact H.
    - intros j Hj Ed. pose proof (k_done s1 m' HK1 j Hj Ed) as H. rewrite ES1 in H. rewrite <- app_assoc. exact H.
    - intros j Hj. apply (tight_ready_mono _ _ (g_ready s1)); [intros a Ha; apply in_app_iff; left; auto|].
      apply (k_tight s1 m' HK1). rewrite ES1.
      apply in_app_iff in Hj as [Hj|Hj]; [apply in_app_iff; left; auto|].
      apply in_app_iff in Hj as [Hj|Hj]; [apply in_app_iff; right; apply in_app_iff; left; right; auto|].
      apply in_app_iff in Hj as [Hj|[<-|[]]]; apply in_app_iff; right; apply in_app_iff; [right|left; left]; auto.
    - intros j Hj. apply (k_asg s1 m' HK1). rewrite ES1. rewrite <- app_assoc in Hj. exact Hj. }
  assert (Hjh2 : In jh (g_ready s2)) by (unfold s2; cbn [g_ready]; apply in_app_iff; right; left; auto).
  pose proof (aug_relax_dist jh c1 m' Hjh FV SLK EC (rowget rows (getn y jh n)) s2 (fun j c H => H) HK2 Hjh2 Djh) as RD.
  cbn zeta in RD. rewrite (k_umin s1 m' HK1).
  pose proof (aug_relax_umin (getn y jh n) (esub (esub (Fin c1) (gete v jh)) (Fin m')) (rowget rows (getn y jh n)) s2) as EU.
  destruct (aug_relax r n (getn y jh n) y v (esub (esub (Fin c1) (gete v jh)) (Fin m')) (rowget rows (getn y jh n)) s2) as [s3 f3].
  cbn [fst snd] in RD, EU. destruct RD as [KN [KX [ER [Mono [Froz [Edge Exit]]]]]].
  assert (EU3 : g_umin s3 = Fin m') by (rewrite EU; unfold s2; cbn [g_umin]; apply (k_umin s1 m' HK1)).
  assert (R2 : g_ready s2 = g_ready s1 ++ [jh]) by reflexivity.
  assert (D2 : g_d s2 = g_d s1) by reflexivity.
  assert (FrJh : dz (g_d s3) jh = m').
  { rewrite Froz; [rewrite D2; exact Djh|]. apply (K_rs_done s2 m' jh HK2). apply in_app_iff. left. exact Hjh2. }
  assert (HF3 : Fd (g_d s3)).
  { intros j c Hc. destruct (Rfin _ _ _ Hc) as [Hj _]. specialize (Mono j Hj). rewrite D2 in Mono. specialize (HF1 j c Hc). lia. }
  assert (Old : forall jh' j c ch, In jh' (g_ready s1) -> In (j, Fin c) (row rows (getn y jh' n)) -> In (jh', Fin ch) (row rows (getn y jh' n)) ->
            dz (g_d s3) j <= dz (g_d s3) jh' + (c - vz v j) - (ch - vz v jh')).
  { intros jh' j c ch Hr' H1 H2. destruct (Rfin _ _ _ H1) as [Hj _].
    specialize (Mono j Hj). rewrite D2 in Mono. specialize (HG1 jh' j c ch Hr' H1 H2).
    rewrite (Froz jh'); [rewrite D2; lia|]. apply (K_rs_done s2 m' jh' HK2). apply in_app_iff. left. rewrite R2. apply in_app_iff. left. auto. }
  destruct f3 as [j|].
  - intros E; inversion E; subst s' j1. destruct (Exit j eq_refl) as [Hj [Hy [Dj [Nr Tj]]]].
    apply (mk_res s3 j m'); auto.
    + intros k Hk Nk. destruct (in_dec Nat.eq_dec k (g_scan s3)) as [Hin|Nin]; [rewrite (kx_scan s3 m' KX k Hin); lia|].
      apply (kx_rest s3 m' KX); auto; [rewrite ER, R2; destruct (g_ready s1); discriminate|].
      intros H. apply in_app_iff in H as [H|H]; contradiction.
    + intros jh' j' c ch Hr' H1 H2. rewrite ER, R2 in Hr'. apply in_app_iff in Hr' as [Hr'|[<-|[]]]; [right; apply Old; auto|left; exact FrJh].
    + rewrite ER. exact Tj.
    + rewrite ER. exact Nr.
    + intros k Hk. rewrite ER in Hk. apply (Rn s2 m' HK2 k Hk).
  - intros E. apply (IH s3 m' s' j1 (KN eq_refl) HF3); auto.
    intros jh' j c ch Hr' H1 H2. rewrite ER, R2 in Hr'. apply in_app_iff in Hr' as [Hr'|[<-|[]]]; [apply Old; auto|].
    assert (Fin ch = Fin c1) by (eapply (row_cost_unique rows Rnodup); eauto). inversion H; subst ch.
    rewrite FrJh. apply (Edge eq_refl j c H1).
Qed.
End Dist.
