(* C15 — soundness of the certificate search Spec.EulerReduceC15.reduce *)
From Coq Require Import ZArith List Bool Lia ZifyBool.
From Centro Require Import Base.GraphC15 Model.LabelGraph Spec.EulerMovesC15 Proofs.NeighborsC15 Proofs.EulerStepC15 Proofs.EulerTopoC15
  Spec.EulerReduceC15.
Import ListNotations.
Open Scope Z_scope.

Lemma inside_spec im p : inside im p = true ->
  0 <= fst p < Z.of_nat (img_h im) /\ 0 <= snd p < Z.of_nat (img_w im).
Proof. unfold inside. lia. Qed.

Theorem reduce_sound (l : Z) : l <> 0 -> forall fuel filling im k, rect im ->
  reduce fuel filling im l = Some k -> Reduces2 l im k.
Proof.
  intros Hl. induction fuel as [|f IH]; intros filling im k R H; cbn [reduce] in H; [discriminate|].
  destruct (forallb (fun p => negb (is_l im l p)) (positions (img_h im) (img_w im))) eqn:EA.
  - injection H as <-. apply r2_empty. intros y x E.
    destruct (get2_inside im y x R ltac:(lia)) as [Hy Hx].
    rewrite forallb_forall in EA. specialize (EA (y, x) ltac:(apply positions_in; lia)).
    unfold is_l in EA. cbn [fst snd] in EA. lia.
  - destruct filling.
    + match type of H with context [find ?g ?ps] => destruct (find g ps) as [p|] eqn:F1 end.
      * apply find_some in F1. destruct F1 as [_ F1].
        apply andb_true_iff in F1. destruct F1 as [F1 HO]. apply andb_true_iff in F1. destruct F1 as [IN NL].
        apply inside_spec in IN. destruct IN as [Hy Hx]. unfold is_l in NL.
        destruct (reduce f true (set_px im (fst p) (snd p) l) l) as [k'|] eqn:E; [|discriminate].
        cbn [option_map] in H. injection H as <-.
        apply (r2_hole l im (fst p) (snd p) k' Hy Hx); [lia|exact HO|].
        apply (IH true); [apply set_px_rect; exact R|exact E].
      * match type of H with context [find ?g ?ps] => destruct (find g ps) as [p|] eqn:F2 end.
        -- apply find_some in F2. destruct F2 as [_ F2].
           apply andb_true_iff in F2. destruct F2 as [F2 SI]. apply andb_true_iff in F2. destruct F2 as [IN NL].
           apply inside_spec in IN. destruct IN as [Hy Hx]. unfold is_l in NL.
           apply (r2_fill l im (fst p) (snd p) k Hy Hx); [lia|exact SI|].
           apply (IH true); [apply set_px_rect; exact R|exact H].
        -- apply (IH false); assumption.
    + match type of H with context [find ?g ?ps] => destruct (find g ps) as [p|] eqn:F1 end.
      * apply find_some in F1. destruct F1 as [_ F1]. apply andb_true_iff in F1. destruct F1 as [IL SI].
        unfold is_l in IL. apply Z.eqb_eq in IL.
        destruct (simple_at im l (fst p) (snd p)) eqn:ES.
        -- apply (r2_simple l im (fst p) (snd p) k IL ES). apply (IH false); [apply set_px_rect; exact R|exact H].
        -- cbn [orb] in SI.
           destruct (reduce f false (remove_px im (fst p) (snd p)) l) as [k'|] eqn:E; [|discriminate].
           cbn [option_map] in H. injection H as <-.
           apply (r2_point l im (fst p) (snd p) k' IL SI). apply (IH false); [apply set_px_rect; exact R|exact E].
      * apply (IH true); assumption.
Qed.

(* the certificate: when the search succeeds, 4 W of the model is 4 k and k is components - holes
   for every pair of representative lists *)
Theorem reduce_label_certifies (im : image) (l k : Z) : rect im -> l <> 0 -> reduce_label im l = Some k ->
  euler4 im l = 4 * k /\
  forall fgl bgl, TopoCheck.comp_reps Topo.adj8 (Topo.fg (X_of im l)) fgl ->
                  TopoCheck.comp_reps Topo.adj4 (Topo.bg (X_of im l)) bgl -> topo_count fgl bgl = k.
Proof.
  intros R Hl H. pose proof (reduce_sound l Hl _ _ im k R H) as RD. split.
  - (* 4 W = 4 k does not need the existence of representative lists: same induction, quad side only *)
    clear H. induction RD as [im E|im y x k P S _ IH|im y x k P S _ IH|im y x k Hy Hx NP S _ IH|im y x k Hy Hx NP S _ IH].
    + rewrite euler4_empty by auto. lia.
    + rewrite <- (euler_simple_deletion im l y x R Hl P S). apply IH. apply set_px_rect; exact R.
    + rewrite (euler_removal_step im l y x R Hl P). unfold isolated_at, nb_bit in S.
      rewrite (isolated_delta_four _ _ _ _ _ _ _ _ S). rewrite IH by (apply set_px_rect; exact R). lia.
    + rewrite <- (fill_keeps_euler4 im l y x R Hl Hy Hx NP S). apply IH. apply set_px_rect; exact R.
    + pose proof (IH (set_px_rect im y x l R)) as E2. pose proof (hole_raises_euler4 im l y x R Hl Hy Hx NP S). lia.
  - intros fgl bgl CF CB. apply (euler_reducible_topological l Hl im k RD R fgl bgl CF CB).
Qed.

Example reduce_ring : reduce_label [[0; 1; 0]; [1; 0; 1]; [0; 1; 0]] 1 = Some 0 /\
                      reduce_label [[2; 2; 2; 0]; [2; 0; 2; 0]; [2; 2; 2; 2]] 2 = Some 0 /\
                      reduce_label [[1; 0; 1]; [0; 0; 0]; [1; 0; 1]] 1 = Some 4.
Proof. vm_compute. repeat split; reflexivity. Qed.

(* Finite: which images are covered.  Every label image with at most 3 rows and 3 columns over the
   labels {0,1,2}, and every binary image of the shapes of Proofs.EulerC15.shapes4, is reduced to the
   empty image by the four moves (the search succeeds), for every label *)
From Centro Require Import Proofs.EulerC15.
Definition covered (labels : list Z) (im : image) : bool :=
  forallb (fun l => match reduce_label im l with Some _ => true | None => false end) labels.
Definition cover_sweep (vals labels : list Z) (shapes : list (nat * nat)) : bool :=
  forallb (fun s => forallb (covered labels) (all_images vals (fst s) (snd s))) shapes.
Lemma cover3 : cover_sweep [0; 1; 2] [1; 2] shapes3 = true.
Proof. vm_compute. reflexivity. Qed.
Lemma cover4 : cover_sweep [0; 1] [1] shapes4 = true.
Proof. vm_compute. reflexivity. Qed.

Lemma cover_lift vals labels shapes : cover_sweep vals labels shapes = true ->
  forall h w im l, In (h, w) shapes -> length im = h ->
    Forall (fun r => length r = w /\ Forall (fun v => In v vals) r) im -> In l labels ->
    exists k, reduce_label im l = Some k.
Proof.
  unfold cover_sweep. intros S h w im l Hs L F Hl.
  rewrite forallb_forall in S. specialize (S (h, w) Hs). cbn [fst snd] in S.
  rewrite forallb_forall in S. specialize (S im (all_images_complete vals h w im L F)).
  unfold covered in S. rewrite forallb_forall in S. specialize (S l Hl).
  destruct (reduce_label im l) as [k|]; [exists k; reflexivity|discriminate].
Qed.
Lemma rows_rect vals w (im : image) : im <> [] ->
  Forall (fun r => length r = w /\ Forall (fun v => In v vals) r) im -> rect im.
Proof.
  intros NE F. unfold rect. destruct im as [|r0 im']; [congruence|].
  unfold img_w. cbn [hd]. inversion F as [|? ? [L0 _] _]; subst. apply Forall_forall. intros r Hr.
  rewrite Forall_forall in F. destruct (F r Hr) as [Lr _]. congruence.
Qed.

Theorem small_images_reducible : forall h w im l, im <> [] ->
  (In (h, w) shapes3 /\ Forall (fun r => length r = w /\ Forall (fun v => In v [0; 1; 2]) r) im /\ In l [1; 2]) \/
  (In (h, w) shapes4 /\ Forall (fun r => length r = w /\ Forall (fun v => In v [0; 1]) r) im /\ In l [1]) ->
  length im = h -> exists k, Reduces2 l im k.
Proof.
  intros h w im l NE C L.
  destruct C as [[Hs [F Hl]]|[Hs [F Hl]]].
  - destruct (cover_lift _ _ _ cover3 h w im l Hs L F Hl) as [k E]. exists k.
    unfold reduce_label in E. eapply (reduce_sound l); [|eapply rows_rect; eassumption|exact E].
    cbn [In] in Hl. lia.
  - destruct (cover_lift _ _ _ cover4 h w im l Hs L F Hl) as [k E]. exists k.
    unfold reduce_label in E. eapply (reduce_sound l); [|eapply rows_rect; eassumption|exact E].
    cbn [In] in Hl. lia.
Qed.
