(* C07 — the sliding invariant, layer B: the model's own operations on its list state.
   upd_hist / update_current_location re-establish "slot = histogram of its piece" (row step);
   accumulate / deaccumulate turn "accumulator = histogram of window (row, c-1)" into
   "accumulator = histogram of window (row, c)" (column step).  uint16/uint32 wrap-around is part
   of the statements (values are known modulo 2^16 / 2^32; with fewer than 65536 pixels in a
   window they are exact). *)
From Coq Require Import ZArith List Bool Lia ZifyBool.
From Centro Require Import Base.Sx Model.Median Spec.MedianSpec Proofs.MedianCheck Proofs.MedianHist
  Proofs.MedianGeom Proofs.MedianSlide.
Import ListNotations.
Open Scope Z_scope.
Ltac Zify.zify_post_hook ::= Z.to_euclidean_division_equations.

(* ------------------------------------------------------------------ list plumbing *)

Lemma upd_nth_length {A} (f : A -> A) l : forall n, length (upd_nth n f l) = length l.
Proof. induction l as [|x l IH]; intros n; [destruct n; reflexivity|]. destruct n; cbn [upd_nth length]; auto. Qed.

Lemma nth_upd_nth {A} (f : A -> A) d l : forall n k, (n < length l)%nat ->
  nth k (upd_nth n f l) d = if Nat.eqb k n then f (nth n l d) else nth k l d.
Proof.
  induction l as [|x l IH]; intros n k H; cbn [length] in H; [lia|].
  destruct n as [|n]; destruct k as [|k]; cbn [upd_nth nth Nat.eqb]; try reflexivity.
  apply IH. lia.
Qed.

Lemma getz_updz {A} (f : A -> A) d l i k : 0 <= i -> 0 <= k -> (Z.to_nat i < length l)%nat ->
  getz d (updz l i f) k = if k =? i then f (getz d l i) else getz d l k.
Proof.
  intros Hi Hk Hl. unfold getz, updz. rewrite nth_upd_nth by exact Hl.
  destruct (k =? i) eqn:E.
  - assert (k = i) by lia. subst. rewrite Nat.eqb_refl. reflexivity.
  - destruct (Nat.eqb_spec (Z.to_nat k) (Z.to_nat i)); [lia|reflexivity].
Qed.

Lemma updz_length {A} (f : A -> A) l i : length (updz l i f) = length l.
Proof. apply upd_nth_length. Qed.

Lemma map2_at0_length f : forall len dst src, length (map2_at f 0 len dst src) = length dst.
Proof.
  intros len dst; revert len; induction dst as [|d dr IH]; intros len src; [reflexivity|].
  destruct src as [|s sr]; [reflexivity|]. destruct len; cbn [map2_at length]; auto.
Qed.

Lemma map2_at0_nth f : forall len dst src k, (k < len)%nat -> (len <= length dst)%nat -> (len <= length src)%nat ->
  nth k (map2_at f 0 len dst src) 0 = f (nth k dst 0) (nth k src 0).
Proof.
  induction len as [|len IH]; intros dst src k Hk Hd Hs; [lia|].
  destruct dst as [|d dr]; [cbn [length] in Hd; lia|]. destruct src as [|s sr]; [cbn [length] in Hs; lia|].
  cbn [map2_at]. destruct k as [|k]; [reflexivity|]. cbn [nth]. apply IH; cbn [length] in *; lia.
Qed.

(* ------------------------------------------------------------------ what a list of bins stands for *)

Definition BinsAre (n : nat) (l : list Z) (h : Z -> Z) : Prop :=
  length l = n /\ forall i, 0 <= i < Z.of_nat n -> getz 0 l i = h i mod M16.

Lemma add16_bins l1 l2 h1 h2 : BinsAre 16 l1 h1 -> BinsAre 16 l2 h2 ->
  BinsAre 16 (add16 l1 l2 0) (fun i => h1 i + h2 i).
Proof.
  intros [L1 H1] [L2 H2]. unfold add16. split; [rewrite map2_at0_length; exact L1|].
  intros i Hi. unfold getz. change (Z.to_nat 0) with 0%nat. rewrite map2_at0_nth by lia.
  specialize (H1 i Hi). specialize (H2 i Hi). unfold getz in H1, H2. rewrite H1, H2. unfold M16. lia.
Qed.

Lemma sub16_bins l1 l2 h1 h2 : BinsAre 16 l1 h1 -> BinsAre 16 l2 h2 ->
  BinsAre 16 (sub16 l1 l2 0) (fun i => h1 i - h2 i).
Proof.
  intros [L1 H1] [L2 H2]. unfold sub16. split; [rewrite map2_at0_length; exact L1|].
  intros i Hi. unfold getz. change (Z.to_nat 0) with 0%nat. rewrite map2_at0_nth by lia.
  specialize (H1 i Hi). specialize (H2 i Hi). unfold getz in H1, H2. rewrite H1, H2. unfold M16. lia.
Qed.

Lemma BinsAre_ext n l h h' : (forall i, 0 <= i < Z.of_nat n -> h i = h' i) -> BinsAre n l h -> BinsAre n l h'.
Proof. intros E [L H]. split; [exact L|]. intros i Hi. rewrite <- E by exact Hi. apply H. exact Hi. Qed.

Section Step.
  Variable e : env.

  Definition hC (S : Z -> Z -> bool) (i : Z) : Z := cnt e S (fun d => d / 16 =? i).
  Definition hF (S : Z -> Z -> bool) (v : Z) : Z := cnt e S (Z.eqb v).
  Definition hN (S : Z -> Z -> bool) : Z := cnt e S (fun _ => true).

  (* field [k] of buffer slot [cl] holds the histogram of the valid pixels of S *)
  Definition SlotIs (cl : column) (k : pname) (S : Z -> Z -> bool) : Prop :=
    BinsAre 16 (coarse (get_p k cl)) (hC S) /\ BinsAre 256 (fine (get_p k cl)) (hF S) /\
    get_n k cl = hN S mod M16.

  Definition slot (s : st) (o : Z) : column := getz column0 (s_cols s) o.

  (* every valid pixel is a uint8 *)
  Definition Data8 : Prop := forall x y, in_img e x y = true -> 0 <= dat e y x < 256.

  (* ---------------------------------------------------------------- accumulate *)

  Lemma acc_add_spec (s : st) (o : Z) (k : pname) (S : Z -> Z -> bool) (h : Z -> Z) (n : Z) :
    SlotIs (slot s o) k S -> hN S < M16 ->
    BinsAre 16 (coarse (s_acc s)) h -> s_accn s = n mod M32 ->
    let s' := acc_add s o k in
    BinsAre 16 (coarse (s_acc s')) (fun i => h i + hC S i) /\ s_accn s' = (n + hN S) mod M32 /\
    s_cols s' = s_cols s /\ fine (s_acc s') = fine (s_acc s) /\ s_last s' = s_last s /\
    s_row s' = s_row s /\ s_col s' = s_col s.
  Proof.
    intros (HC & _ & HNk) Hlt HA Hn. cbv zeta. unfold acc_add. fold (slot s o).
    pose proof (cnt_nonneg e S (fun _ => true)) as N0. fold (hN S) in N0.
    destruct (0 <? get_n k (slot s o)) eqn:G.
    - cbn [set_acc s_acc s_accn s_cols s_last s_row s_col coarse fine].
      split; [apply add16_bins; assumption|]. split; [rewrite Hn, HNk; unfold M16, M32 in *; lia|].
      repeat split; reflexivity.
    - assert (Z0 : hN S = 0) by (rewrite HNk in G; unfold M16 in *; lia).
      split; [|split; [rewrite Z0, Z.add_0_r; exact Hn|repeat split; reflexivity]].
      eapply BinsAre_ext; [|exact HA]. intros i Hi. cbv beta.
      pose proof (cnt_le_size e S (fun d => d / 16 =? i)) as Hle. pose proof (cnt_nonneg e S (fun d => d / 16 =? i)).
      fold (hN S) in Hle. unfold hC. lia.
  Qed.

  Lemma acc_sub_spec (s : st) (o : Z) (k : pname) (S : Z -> Z -> bool) (h : Z -> Z) (n : Z) :
    SlotIs (slot s o) k S -> hN S < M16 ->
    BinsAre 16 (coarse (s_acc s)) h -> s_accn s = n mod M32 ->
    let s' := acc_sub s o k in
    BinsAre 16 (coarse (s_acc s')) (fun i => h i - hC S i) /\ s_accn s' = (n - hN S) mod M32 /\
    s_cols s' = s_cols s /\ fine (s_acc s') = fine (s_acc s) /\ s_last s' = s_last s /\
    s_row s' = s_row s /\ s_col s' = s_col s.
  Proof.
    intros (HC & _ & HNk) Hlt HA Hn. cbv zeta. unfold acc_sub. fold (slot s o).
    pose proof (cnt_nonneg e S (fun _ => true)) as N0. fold (hN S) in N0.
    destruct (0 <? get_n k (slot s o)) eqn:G.
    - cbn [set_acc s_acc s_accn s_cols s_last s_row s_col coarse fine].
      split; [apply sub16_bins; assumption|]. split; [rewrite Hn, HNk; unfold M16, M32 in *; lia|].
      repeat split; reflexivity.
    - assert (Z0 : hN S = 0) by (rewrite HNk in G; unfold M16 in *; lia).
      split; [|split; [rewrite Z0, Z.sub_0_r; exact Hn|repeat split; reflexivity]].
      eapply BinsAre_ext; [|exact HA]. intros i Hi. cbv beta.
      pose proof (cnt_le_size e S (fun d => d / 16 =? i)) as Hle. pose proof (cnt_nonneg e S (fun d => d / 16 =? i)).
      fold (hN S) in Hle. unfold hC. lia.
  Qed.

  (* a piece inside a window of fewer than 65536 pixels has fewer than 65536 pixels *)
  Lemma cnt_subset S S' q : (forall x y, S x y = true -> S' x y = true) -> cnt e S q <= cnt e S' q.
  Proof.
    intros H. apply countb_le. intros [y x] _. unfold pixq. cbn [fst snd]. rewrite !andb_true_iff.
    intros [[A B] C]. auto.
  Qed.

  Hypothesis Ha : 1 <= e_a2 e.
  Hypothesis HR : e_a2 e < e_R e.

  (* ---------------------------------------------------------------- the column step (coarse level):
     accumulate + deaccumulate at column c of row [row], slots of column c up to date *)
  Theorem col_step_spec (s : st) (c : Z) :
    let row := s_row s in
    SlotIs (slot s (tr_bl e row c)) TR (at_ (bTR e) c row) ->
    SlotIs (slot s (lead_ix e c)) ED (at_ (bED e) c row) ->
    SlotIs (slot s (tl_br e row c)) BR (at_ (bBR e) c row) ->
    SlotIs (slot s (tl_br e row c)) TL (at_ (bTL e) c row) ->
    SlotIs (slot s (tr_bl e row c)) BL (at_ (bBL e) c row) ->
    (e_R e < c -> SlotIs (slot s (trail_ix e c)) ED (at_ (bED e) (c - 2 * e_R e - 1) row)) ->
    hN (Soct e c row) < M16 -> hN (Soct e (c - 1) row) < M16 ->
    BinsAre 16 (coarse (s_acc s)) (hC (Soct e (c - 1) row)) -> s_accn s = hN (Soct e (c - 1) row) mod M32 ->
    let s' := deacc_coarse e (acc_coarse e s c) c in
    BinsAre 16 (coarse (s_acc s')) (hC (Soct e c row)) /\ s_accn s' = hN (Soct e c row) mod M32 /\
    s_cols s' = s_cols s /\ fine (s_acc s') = fine (s_acc s) /\ s_last s' = s_last s /\
    s_row s' = s_row s /\ s_col s' = s_col s.
  Proof.
    intros row HTR HED HBR HTL HBL HTE Hw Hw1 HA Hn. cbv zeta.
    (* sizes of the pieces *)
    assert (Blead : forall b, (forall dx dy, b dx dy = true -> bTR e dx dy || bED e dx dy || bBR e dx dy = true) ->
                              hN (at_ b c row) < M16).
    { intros b Hb. eapply Z.le_lt_trans; [|exact Hw]. apply cnt_subset. intros x y Hxy. unfold at_ in Hxy.
      specialize (Hb _ _ Hxy). unfold Soct, octb, bTR, bED, bBR, MedianSlide.R, MedianSlide.a2 in *. lia. }
    assert (Btrail : forall b, (forall dx dy, b dx dy = true -> bTL e dx dy || bTE e dx dy || bBL e dx dy = true) ->
                               hN (at_ b c row) < M16).
    { intros b Hb. eapply Z.le_lt_trans; [|exact Hw1]. apply cnt_subset. intros x y Hxy. unfold at_ in Hxy.
      specialize (Hb _ _ Hxy). unfold Soct, octb, bTL, bTE, bBL, MedianSlide.R, MedianSlide.a2 in *. lia. }
    assert (B_TR : hN (at_ (bTR e) c row) < M16) by (apply Blead; intros dx dy H; rewrite H; reflexivity).
    assert (B_ED : hN (at_ (bED e) c row) < M16) by (apply Blead; intros dx dy H; rewrite H, ?orb_true_r; reflexivity).
    assert (B_BR : hN (at_ (bBR e) c row) < M16) by (apply Blead; intros dx dy H; rewrite H, ?orb_true_r; reflexivity).
    assert (B_TL : hN (at_ (bTL e) c row) < M16) by (apply Btrail; intros dx dy H; rewrite H; reflexivity).
    assert (B_TE : hN (at_ (bTE e) c row) < M16) by (apply Btrail; intros dx dy H; rewrite H, ?orb_true_r; reflexivity).
    assert (B_BL : hN (at_ (bBL e) c row) < M16) by (apply Btrail; intros dx dy H; rewrite H, ?orb_true_r; reflexivity).
    (* accumulate_coarse_histogram *)
    unfold acc_coarse.
    destruct (acc_add_spec s (tr_bl e (s_row s) c) TR _ _ _ HTR B_TR HA Hn)
      as (A1 & N1 & C1 & F1 & L1 & R1 & K1).
    set (s1 := acc_add s (tr_bl e (s_row s) c) TR) in *.
    assert (HED1 : SlotIs (slot s1 (lead_ix e c)) ED (at_ (bED e) c row)) by (unfold slot; rewrite C1; exact HED).
    destruct (acc_add_spec s1 (lead_ix e c) ED _ _ _ HED1 B_ED A1 N1)
      as (A2 & N2 & C2 & F2 & L2 & R2 & K2).
    set (s2 := acc_add s1 (lead_ix e c) ED) in *.
    assert (HBR2 : SlotIs (slot s2 (tl_br e (s_row s2) c)) BR (at_ (bBR e) c row))
      by (unfold slot; rewrite C2, C1, R2, R1; exact HBR).
    destruct (acc_add_spec s2 (tl_br e (s_row s2) c) BR _ _ _ HBR2 B_BR A2 N2)
      as (A3 & N3 & C3 & F3 & L3 & R3 & K3).
    set (s3 := acc_add s2 (tl_br e (s_row s2) c) BR) in *.
    assert (Rs3 : s_row s3 = row) by (unfold row; congruence).
    assert (Cs3 : s_cols s3 = s_cols s) by congruence.
    (* the exact identity of layer A, for each bin and for the count *)
    pose proof (fun q => hist_col_step e Ha HR c row q) as ID.
    (* deaccumulate_coarse_histogram *)
    unfold deacc_coarse. destruct (c <=? e_a2 e) eqn:G1.
    - (* nothing to subtract: the trailing pieces are empty *)
      assert (c <= MedianSlide.a2 e) by (unfold MedianSlide.a2; lia).
      assert (c <= MedianSlide.R e) by (unfold MedianSlide.R, MedianSlide.a2 in *; lia).
      split; [|split; [|repeat split; congruence]].
      + eapply BinsAre_ext; [|exact A3]. intros i Hi. cbv beta. unfold hC. rewrite (ID (fun d => d / 16 =? i)).
        rewrite TL_empty, BL_empty, TE_empty by assumption. lia.
      + rewrite N3. f_equal. unfold hN. rewrite (ID (fun _ => true)).
        rewrite TL_empty, BL_empty, TE_empty by assumption. lia.
    - assert (HTL3 : SlotIs (slot s3 (tl_br e (s_row s3) c)) TL (at_ (bTL e) c row))
        by (unfold slot; rewrite Cs3, Rs3; exact HTL).
      destruct (acc_sub_spec s3 (tl_br e (s_row s3) c) TL _ _ _ HTL3 B_TL A3 N3)
        as (A4 & N4 & C4 & F4 & L4 & R4 & K4).
      set (s4 := acc_sub s3 (tl_br e (s_row s3) c) TL) in *.
      assert (Rs4 : s_row s4 = row) by congruence. assert (Cs4 : s_cols s4 = s_cols s) by congruence.
      destruct (e_R e <? c) eqn:G2.
      + assert (HTE4 : SlotIs (slot s4 (trail_ix e c)) ED (at_ (bED e) (c - 2 * e_R e - 1) row))
          by (unfold slot; rewrite Cs4; apply HTE; lia).
        assert (BTE : hN (at_ (bED e) (c - 2 * e_R e - 1) row) < M16).
        { unfold hN. rewrite <- (TE_is_ED e). exact B_TE. }
        destruct (acc_sub_spec s4 (trail_ix e c) ED _ _ _ HTE4 BTE A4 N4) as (A5 & N5 & C5 & F5 & L5 & R5 & K5).
        set (s5 := acc_sub s4 (trail_ix e c) ED) in *.
        assert (Rs5 : s_row s5 = row) by congruence. assert (Cs5 : s_cols s5 = s_cols s) by congruence.
        assert (HBL5 : SlotIs (slot s5 (tr_bl e (s_row s5) c)) BL (at_ (bBL e) c row))
          by (unfold slot; rewrite Cs5, Rs5; exact HBL).
        destruct (acc_sub_spec s5 (tr_bl e (s_row s5) c) BL _ _ _ HBL5 B_BL A5 N5)
          as (A6 & N6 & C6 & F6 & L6 & R6 & K6).
        split; [|split; [|repeat split; congruence]].
        * eapply BinsAre_ext; [|exact A6]. intros i Hi. cbv beta. unfold hC. rewrite (ID (fun d => d / 16 =? i)).
          rewrite (TE_is_ED e). fold (MedianSlide.R e). lia.
        * rewrite N6. f_equal. unfold hN. rewrite (ID (fun _ => true)). rewrite (TE_is_ED e). fold (MedianSlide.R e). lia.
      + assert (c <= MedianSlide.R e) by (unfold MedianSlide.R; lia).
        assert (HBL4 : SlotIs (slot s4 (tr_bl e (s_row s4) c)) BL (at_ (bBL e) c row))
          by (unfold slot; rewrite Cs4, Rs4; exact HBL).
        destruct (acc_sub_spec s4 (tr_bl e (s_row s4) c) BL _ _ _ HBL4 B_BL A4 N4)
          as (A6 & N6 & C6 & F6 & L6 & R6 & K6).
        split; [|split; [|repeat split; congruence]].
        * eapply BinsAre_ext; [|exact A6]. intros i Hi. cbv beta. unfold hC. rewrite (ID (fun d => d / 16 =? i)).
          rewrite TE_empty by assumption. lia.
        * rewrite N6. f_equal. unfold hN. rewrite (ID (fun _ => true)). rewrite TE_empty by assumption. lia.
  Qed.
  (* ---------------------------------------------------------------- the row step of one piece:
     update_histogram removes the (-) pixel and adds the (+) pixel in field k of slot o *)

  Lemma bump_bins (delta v : Z) (p : piece) (hc hf : Z -> Z) : 0 <= v < 256 ->
    BinsAre 16 (coarse p) hc -> BinsAre 256 (fine p) hf ->
    BinsAre 16 (coarse (bump delta v p)) (fun i => hc i + (if v / 16 =? i then delta else 0)) /\
    BinsAre 256 (fine (bump delta v p)) (fun w => hf w + (if v =? w then delta else 0)).
  Proof.
    intros Hv [Lc Hc] [Lf Hf]. unfold bump. cbn [coarse fine]. split; (split; [rewrite updz_length; assumption|]).
    - intros i Hi. rewrite getz_updz by lia. destruct (i =? v / 16) eqn:E.
      + assert (i = v / 16) by lia. subst i. rewrite Hc by lia. rewrite Z.eqb_refl. unfold M16. lia.
      + rewrite Hc by lia. destruct (v / 16 =? i) eqn:E'; [lia|]. f_equal; lia.
    - intros w Hw. rewrite getz_updz by lia. destruct (w =? v) eqn:E.
      + assert (w = v) by lia. subst w. rewrite Hf by lia. rewrite Z.eqb_refl. unfold M16. lia.
      + rewrite Hf by lia. destruct (v =? w) eqn:E'; [lia|]. f_equal; lia.
  Qed.

  Lemma get_set_same k p n cl : get_p k (set_pn k p n cl) = p /\ get_n k (set_pn k p n cl) = n.
  Proof. destruct k; split; reflexivity. Qed.
  Lemma get_set_other k k' p n cl : k' <> k -> get_p k' (set_pn k p n cl) = get_p k' cl /\ get_n k' (set_pn k p n cl) = get_n k' cl.
  Proof. intros H. destruct k, k'; try congruence; split; reflexivity. Qed.

  (* one signed update of a slot field by a pixel of value v *)
  Lemma upd_piece_spec (delta v : Z) (k : pname) (cl : column) (hc hf : Z -> Z) (n : Z) : 0 <= v < 256 ->
    BinsAre 16 (coarse (get_p k cl)) hc -> BinsAre 256 (fine (get_p k cl)) hf -> get_n k cl = n mod M16 ->
    let cl' := upd_piece delta v k cl in
    BinsAre 16 (coarse (get_p k cl')) (fun i => hc i + (if v / 16 =? i then delta else 0)) /\
    BinsAre 256 (fine (get_p k cl')) (fun w => hf w + (if v =? w then delta else 0)) /\
    get_n k cl' = (n + delta) mod M16 /\
    (forall k', k' <> k -> get_p k' cl' = get_p k' cl /\ get_n k' cl' = get_n k' cl).
  Proof.
    intros Hv Hc Hf Hn. cbv zeta. unfold upd_piece. destruct (get_set_same k (bump delta v (get_p k cl)) ((get_n k cl + delta) mod M16) cl) as [E1 E2].
    rewrite E1, E2. destruct (bump_bins delta v (get_p k cl) hc hf Hv Hc Hf) as [B1 B2].
    split; [exact B1|]. split; [exact B2|]. split; [rewrite Hn; unfold M16; lia|].
    intros k' Hk. apply get_set_other. exact Hk.
  Qed.

  Hypothesis HD : Data8.

  Theorem upd_hist_spec (s : st) (o : Z) (k : pname) (S S' : Z -> Z -> bool) (lc nc : Z * Z) :
    0 <= o -> (Z.to_nat o < length (s_cols s))%nat ->
    SlotIs (slot s o) k S ->
    (forall q, cnt e S' q = cnt e S q - pixv e lc (s_col s) (s_row s) q + pixv e nc (s_col s) (s_row s) q) ->
    let s' := upd_hist e s o k lc nc in
    SlotIs (slot s' o) k S' /\
    (forall o' k', 0 <= o' -> (o' <> o \/ k' <> k) ->
       get_p k' (slot s' o') = get_p k' (slot s o') /\ get_n k' (slot s' o') = get_n k' (slot s o')) /\
    length (s_cols s') = length (s_cols s) /\ s_acc s' = s_acc s /\ s_accn s' = s_accn s /\
    s_last s' = s_last s /\ s_row s' = s_row s /\ s_col s' = s_col s.
  Proof.
    intros Ho Hlen (HC & HF & HN) HS'. cbv zeta. unfold upd_hist.
    set (x1 := fst lc + s_col s). set (y1 := snd lc + s_row s).
    (* the (-) pixel *)
    set (s1 := if in_img e x1 y1 then set_cols s (updz (s_cols s) o (upd_piece (-1) (dat e y1 x1) k)) else s).
    assert (P1 : BinsAre 16 (coarse (get_p k (slot s1 o))) (fun i => hC S i - pixv e lc (s_col s) (s_row s) (fun d => d / 16 =? i)) /\
                 BinsAre 256 (fine (get_p k (slot s1 o))) (fun w => hF S w - pixv e lc (s_col s) (s_row s) (Z.eqb w)) /\
                 get_n k (slot s1 o) = (hN S - pixv e lc (s_col s) (s_row s) (fun _ => true)) mod M16 /\
                 (forall o' k', 0 <= o' -> (o' <> o \/ k' <> k) ->
                    get_p k' (slot s1 o') = get_p k' (slot s o') /\ get_n k' (slot s1 o') = get_n k' (slot s o')) /\
                 length (s_cols s1) = length (s_cols s) /\ s_acc s1 = s_acc s /\ s_accn s1 = s_accn s /\
                 s_last s1 = s_last s /\ s_row s1 = s_row s /\ s_col s1 = s_col s).
    { unfold pixv. replace (s_col s + fst lc) with x1 by (unfold x1; lia). replace (s_row s + snd lc) with y1 by (unfold y1; lia).
      unfold s1. destruct (in_img e x1 y1) eqn:V; cbn [andb].
      - pose proof (HD x1 y1 V) as Hv.
        destruct (upd_piece_spec (-1) (dat e y1 x1) k (slot s o) _ _ _ Hv HC HF HN) as (B1 & B2 & B3 & B4).
        unfold slot at 1 2 3. cbn [set_cols s_cols s_acc s_accn s_last s_row s_col]. rewrite !getz_updz by lia. rewrite Z.eqb_refl.
        fold (slot s o). split; [eapply BinsAre_ext; [|exact B1]; intros i Hi; cbv beta; destruct (dat e y1 x1 / 16 =? i); lia|].
        split; [eapply BinsAre_ext; [|exact B2]; intros w Hw; cbv beta; rewrite (Z.eqb_sym w); destruct (dat e y1 x1 =? w); lia|].
        split; [rewrite B3; f_equal; lia|]. split.
        + intros o' k' Ho' Hne. unfold slot. cbn [set_cols s_cols]. rewrite getz_updz by lia.
          destruct (o' =? o) eqn:Eo; [|split; reflexivity]. assert (o' = o) by lia. subst o'.
          destruct Hne as [Hne|Hne]; [congruence|]. fold (slot s o). apply B4. exact Hne.
        + rewrite updz_length. repeat split; reflexivity.
      - split; [eapply BinsAre_ext; [|exact HC]; intros; cbv beta; lia|].
        split; [eapply BinsAre_ext; [|exact HF]; intros; cbv beta; lia|].
        split; [rewrite HN; f_equal; lia|]. split; [intros; split; reflexivity|]. repeat split; reflexivity. }
    destruct P1 as (C1 & F1 & N1 & Fr1 & L1 & A1 & AN1 & La1 & R1 & K1).
    fold s1. rewrite R1, K1.
    set (x2 := fst nc + s_col s). set (y2 := snd nc + s_row s).
    assert (Hlen1 : (Z.to_nat o < length (s_cols s1))%nat) by lia.
    unfold SlotIs.
    assert (QC : forall i, hC S' i = hC S i - pixv e lc (s_col s) (s_row s) (fun d => d / 16 =? i)
                                     + pixv e nc (s_col s) (s_row s) (fun d => d / 16 =? i)) by (intros; apply HS').
    assert (QF : forall w, hF S' w = hF S w - pixv e lc (s_col s) (s_row s) (Z.eqb w) + pixv e nc (s_col s) (s_row s) (Z.eqb w))
      by (intros; apply HS').
    assert (QN : hN S' = hN S - pixv e lc (s_col s) (s_row s) (fun _ => true) + pixv e nc (s_col s) (s_row s) (fun _ => true))
      by (apply HS').
    unfold pixv at 2 in QC. unfold pixv at 2 in QF. unfold pixv at 2 in QN.
    replace (s_col s + fst nc) with x2 in * by (unfold x2; lia). replace (s_row s + snd nc) with y2 in * by (unfold y2; lia).
    destruct (in_img e x2 y2) eqn:V; cbn [andb] in *.
    - pose proof (HD x2 y2 V) as Hv.
      destruct (upd_piece_spec 1 (dat e y2 x2) k (slot s1 o) _ _ _ Hv C1 F1 N1) as (B1 & B2 & B3 & B4).
      unfold slot at 1 2 3. cbn [set_cols s_cols s_acc s_accn s_last s_row s_col]. rewrite !getz_updz by lia. rewrite Z.eqb_refl.
      fold (slot s1 o).
      split; [split; [eapply BinsAre_ext; [|exact B1]; intros i Hi; cbv beta; rewrite QC; destruct (dat e y2 x2 / 16 =? i); lia|]|].
      + split; [eapply BinsAre_ext; [|exact B2]; intros w Hw; cbv beta; rewrite QF; rewrite (Z.eqb_sym w); destruct (dat e y2 x2 =? w); lia|].
        rewrite B3, QN. f_equal; lia.
      + split.
        * intros o' k' Ho' Hne. unfold slot. cbn [set_cols s_cols]. rewrite getz_updz by lia.
          destruct (o' =? o) eqn:Eo.
          -- assert (o' = o) by lia. subst o'. destruct Hne as [Hne|Hne]; [congruence|]. fold (slot s1 o).
             destruct (B4 k' Hne) as [E1 E2]. rewrite E1, E2. apply Fr1; [lia|right; exact Hne].
          -- apply Fr1; assumption.
        * rewrite updz_length. repeat split; congruence.
    - split; [split; [eapply BinsAre_ext; [|exact C1]; intros i Hi; cbv beta; rewrite QC; lia|]|].
      + split; [eapply BinsAre_ext; [|exact F1]; intros w Hw; cbv beta; rewrite QF; lia|]. rewrite N1, QN. f_equal; lia.
      + split; [exact Fr1|]. repeat split; congruence.
  Qed.
  Lemma SlotIs_frame cl cl' k S : get_p k cl' = get_p k cl -> get_n k cl' = get_n k cl -> SlotIs cl k S -> SlotIs cl' k S.
  Proof. intros E1 E2 H. unfold SlotIs in *. rewrite E1, E2. exact H. Qed.

  (* ---------------------------------------------------------------- the row step:
     update_current_location at (row, c) turns the five fields that still hold the pieces of the
     previous row (found in the same slots, C07_index_follow) into the pieces of (row, c) and
     touches nothing else *)
  Theorem update_loc_spec (s : st) :
    let c := s_col s in let row := s_row s in
    let tlo := tl_br e row c in let tro := tr_bl e row c in let leo := lead_ix e c in
    0 < e_SL e -> length (s_cols s) = Z.to_nat (e_SL e) ->
    SlotIs (slot s tlo) TL (at_ (bTL e) (c + 1) (row - 1)) ->
    SlotIs (slot s tro) TR (at_ (bTR e) (c - 1) (row - 1)) ->
    SlotIs (slot s tro) BL (at_ (bBL e) (c - 1) (row - 1)) ->
    SlotIs (slot s tlo) BR (at_ (bBR e) (c + 1) (row - 1)) ->
    SlotIs (slot s leo) ED (at_ (bED e) c (row - 1)) ->
    let s' := update_loc e s in
    SlotIs (slot s' tlo) TL (at_ (bTL e) c row) /\ SlotIs (slot s' tro) TR (at_ (bTR e) c row) /\
    SlotIs (slot s' tro) BL (at_ (bBL e) c row) /\ SlotIs (slot s' tlo) BR (at_ (bBR e) c row) /\
    SlotIs (slot s' leo) ED (at_ (bED e) c row) /\
    (forall o' k', 0 <= o' ->
       ~ (o' = tlo /\ (k' = TL \/ k' = BR)) -> ~ (o' = tro /\ (k' = TR \/ k' = BL)) -> ~ (o' = leo /\ k' = ED) ->
       get_p k' (slot s' o') = get_p k' (slot s o') /\ get_n k' (slot s' o') = get_n k' (slot s o')) /\
    length (s_cols s') = length (s_cols s) /\ s_acc s' = s_acc s /\ s_accn s' = s_accn s /\
    s_last s' = s_last s /\ s_row s' = s_row s /\ s_col s' = s_col s.
  Proof.
    intros c row tlo tro leo HSL Hlen H1 H2 H3 H4 H5. cbv zeta. unfold update_loc.
    fold c row. fold tlo tro leo.
    assert (Btl : 0 <= tlo < e_SL e) by (apply Z.mod_pos_bound; exact HSL).
    assert (Btr : 0 <= tro < e_SL e) by (apply Z.mod_pos_bound; exact HSL).
    assert (Ble : 0 <= leo < e_SL e) by (apply Z.mod_pos_bound; exact HSL).
    pose proof (fun q => hist_row_step_TL e HR c row q) as QTL. pose proof (fun q => hist_row_step_TR e HR c row q) as QTR.
    pose proof (fun q => hist_row_step_BL e HR c row q) as QBL. pose proof (fun q => hist_row_step_BR e HR c row q) as QBR.
    assert (QED : forall q, cnt e (at_ (bED e) c row) q = cnt e (at_ (bED e) c (row - 1)) q
                    - pixv e (sc_last_le e) c row q + pixv e (sc_le e) c row q)
      by (intros q; first [apply (hist_row_step_ED e Ha)|apply (hist_row_step_ED e Ha HR)|apply (hist_row_step_ED e HR)]).
    (* 1: top_left *)
    destruct (upd_hist_spec s tlo TL _ _ (sc_last_tl e) (sc_tl e) ltac:(lia) ltac:(lia) H1 QTL)
      as (G1 & F1 & L1 & A1 & N1 & T1 & R1 & K1).
    set (s1 := upd_hist e s tlo TL (sc_last_tl e) (sc_tl e)) in *.
    assert (H2' : SlotIs (slot s1 tro) TR (at_ (bTR e) (c - 1) (row - 1)))
      by (destruct (F1 tro TR ltac:(lia) ltac:(right; discriminate)) as [E1 E2]; eapply SlotIs_frame; eassumption).
    (* 2: top_right *)
    assert (QTR' : forall q, cnt e (at_ (bTR e) c row) q = cnt e (at_ (bTR e) (c - 1) (row - 1)) q
                     - pixv e (sc_last_tr e) (s_col s1) (s_row s1) q + pixv e (sc_tr e) (s_col s1) (s_row s1) q)
      by (rewrite K1, R1; exact QTR).
    destruct (upd_hist_spec s1 tro TR _ _ (sc_last_tr e) (sc_tr e) ltac:(lia) ltac:(lia) H2' QTR')
      as (G2 & F2 & L2 & A2 & N2 & T2 & R2 & K2).
    set (s2 := upd_hist e s1 tro TR (sc_last_tr e) (sc_tr e)) in *.
    assert (H3' : SlotIs (slot s2 tro) BL (at_ (bBL e) (c - 1) (row - 1))).
    { destruct (F2 tro BL ltac:(lia) ltac:(right; discriminate)) as [E1 E2].
      destruct (F1 tro BL ltac:(lia) ltac:(right; discriminate)) as [E3 E4].
      eapply SlotIs_frame; [rewrite E1; exact E3|rewrite E2; exact E4|exact H3]. }
    (* 3: bottom_left *)
    assert (QBL' : forall q, cnt e (at_ (bBL e) c row) q = cnt e (at_ (bBL e) (c - 1) (row - 1)) q
                     - pixv e (sc_last_bl e) (s_col s2) (s_row s2) q + pixv e (sc_bl e) (s_col s2) (s_row s2) q)
      by (rewrite K2, R2, K1, R1; exact QBL).
    destruct (upd_hist_spec s2 tro BL _ _ (sc_last_bl e) (sc_bl e) ltac:(lia) ltac:(lia) H3' QBL')
      as (G3 & F3 & L3 & A3 & N3 & T3 & R3 & K3).
    set (s3 := upd_hist e s2 tro BL (sc_last_bl e) (sc_bl e)) in *.
    assert (H4' : SlotIs (slot s3 tlo) BR (at_ (bBR e) (c + 1) (row - 1))).
    { destruct (F3 tlo BR ltac:(lia) ltac:(right; discriminate)) as [E1 E2].
      destruct (F2 tlo BR ltac:(lia) ltac:(right; discriminate)) as [E3 E4].
      destruct (F1 tlo BR ltac:(lia) ltac:(right; discriminate)) as [E5 E6].
      eapply SlotIs_frame; [rewrite E1, E3; exact E5|rewrite E2, E4; exact E6|exact H4]. }
    (* 4: bottom_right *)
    assert (QBR' : forall q, cnt e (at_ (bBR e) c row) q = cnt e (at_ (bBR e) (c + 1) (row - 1)) q
                     - pixv e (sc_last_br e) (s_col s3) (s_row s3) q + pixv e (sc_br e) (s_col s3) (s_row s3) q)
      by (rewrite K3, R3, K2, R2, K1, R1; exact QBR).
    destruct (upd_hist_spec s3 tlo BR _ _ (sc_last_br e) (sc_br e) ltac:(lia) ltac:(lia) H4' QBR')
      as (G4 & F4 & L4 & A4 & N4 & T4 & R4 & K4).
    set (s4 := upd_hist e s3 tlo BR (sc_last_br e) (sc_br e)) in *.
    assert (H5' : SlotIs (slot s4 leo) ED (at_ (bED e) c (row - 1))).
    { destruct (F4 leo ED ltac:(lia) ltac:(right; discriminate)) as [E1 E2].
      destruct (F3 leo ED ltac:(lia) ltac:(right; discriminate)) as [E3 E4].
      destruct (F2 leo ED ltac:(lia) ltac:(right; discriminate)) as [E5 E6].
      destruct (F1 leo ED ltac:(lia) ltac:(right; discriminate)) as [E7 E8].
      eapply SlotIs_frame; [rewrite E1, E3, E5; exact E7|rewrite E2, E4, E6; exact E8|exact H5]. }
    (* 5: edge *)
    assert (QED' : forall q, cnt e (at_ (bED e) c row) q = cnt e (at_ (bED e) c (row - 1)) q
                     - pixv e (sc_last_le e) (s_col s4) (s_row s4) q + pixv e (sc_le e) (s_col s4) (s_row s4) q)
      by (rewrite K4, R4, K3, R3, K2, R2, K1, R1; exact QED).
    destruct (upd_hist_spec s4 leo ED _ _ (sc_last_le e) (sc_le e) ltac:(lia) ltac:(lia) H5' QED')
      as (G5 & F5 & L5 & A5 & N5 & T5 & R5 & K5).
    set (s5 := upd_hist e s4 leo ED (sc_last_le e) (sc_le e)) in *.
    (* the fields established earlier survive the later updates *)
    assert (keep : forall o' k' (sa sb : st),
              (get_p k' (slot sb o') = get_p k' (slot sa o') /\ get_n k' (slot sb o') = get_n k' (slot sa o')) ->
              forall S, SlotIs (slot sa o') k' S -> SlotIs (slot sb o') k' S)
      by (intros o' k' sa sb [E1 E2] S HS; eapply SlotIs_frame; eassumption).
    split. { apply (keep tlo TL s4 s5); [apply F5; [lia|right; discriminate]|].
             apply (keep tlo TL s3 s4); [apply F4; [lia|right; discriminate]|].
             apply (keep tlo TL s2 s3); [apply F3; [lia|right; discriminate]|].
             apply (keep tlo TL s1 s2); [apply F2; [lia|right; discriminate]|]. exact G1. }
    split. { apply (keep tro TR s4 s5); [apply F5; [lia|right; discriminate]|].
             apply (keep tro TR s3 s4); [apply F4; [lia|right; discriminate]|].
             apply (keep tro TR s2 s3); [apply F3; [lia|right; discriminate]|]. exact G2. }
    split. { apply (keep tro BL s4 s5); [apply F5; [lia|right; discriminate]|].
             apply (keep tro BL s3 s4); [apply F4; [lia|right; discriminate]|]. exact G3. }
    split. { apply (keep tlo BR s4 s5); [apply F5; [lia|right; discriminate]|]. exact G4. }
    split; [exact G5|]. split.
    - intros o' k' Ho' X1 X2 X3.
      assert (D5 : o' <> leo \/ k' <> ED) by (destruct (Z.eq_dec o' leo); [right; intro; subst; tauto|left; assumption]).
      assert (D4 : o' <> tlo \/ k' <> BR) by (destruct (Z.eq_dec o' tlo); [right; intro; subst; tauto|left; assumption]).
      assert (D3 : o' <> tro \/ k' <> BL) by (destruct (Z.eq_dec o' tro); [right; intro; subst; tauto|left; assumption]).
      assert (D2 : o' <> tro \/ k' <> TR) by (destruct (Z.eq_dec o' tro); [right; intro; subst; tauto|left; assumption]).
      assert (D1 : o' <> tlo \/ k' <> TL) by (destruct (Z.eq_dec o' tlo); [right; intro; subst; tauto|left; assumption]).
      destruct (F5 o' k' Ho' D5) as [E1 E2]. destruct (F4 o' k' Ho' D4) as [E3 E4]. destruct (F3 o' k' Ho' D3) as [E5 E6].
      destruct (F2 o' k' Ho' D2) as [E7 E8]. destruct (F1 o' k' Ho' D1) as [E9 E10].
      split; congruence.
    - split; [rewrite L5, L4, L3, L2, L1; reflexivity|]. split; [rewrite A5, A4, A3, A2, A1; reflexivity|].
      split; [rewrite N5, N4, N3, N2, N1; reflexivity|]. split; [rewrite T5, T4, T3, T2, T1; reflexivity|].
      split; [rewrite R5, R4, R3, R2, R1; reflexivity|rewrite K5, K4, K3, K2, K1; reflexivity].
  Qed.
End Step.

(* the five row steps of layer A in one statement *)
Theorem hist_row_steps (e : env) : 1 <= e_a2 e -> e_a2 e < e_R e -> forall (c row : Z) (q : Z -> bool),
  cnt e (at_ (bTL e) c row) q = cnt e (at_ (bTL e) (c + 1) (row - 1)) q - pixv e (sc_last_tl e) c row q + pixv e (sc_tl e) c row q /\
  cnt e (at_ (bBR e) c row) q = cnt e (at_ (bBR e) (c + 1) (row - 1)) q - pixv e (sc_last_br e) c row q + pixv e (sc_br e) c row q /\
  cnt e (at_ (bTR e) c row) q = cnt e (at_ (bTR e) (c - 1) (row - 1)) q - pixv e (sc_last_tr e) c row q + pixv e (sc_tr e) c row q /\
  cnt e (at_ (bBL e) c row) q = cnt e (at_ (bBL e) (c - 1) (row - 1)) q - pixv e (sc_last_bl e) c row q + pixv e (sc_bl e) c row q /\
  cnt e (at_ (bED e) c row) q = cnt e (at_ (bED e) c (row - 1)) q - pixv e (sc_last_le e) c row q + pixv e (sc_le e) c row q.
Proof.
  intros Ha HR c row q.
  split; [apply hist_row_step_TL; exact HR|]. split; [apply hist_row_step_BR; exact HR|].
  split; [apply hist_row_step_TR; exact HR|]. split; [apply hist_row_step_BL; exact HR|].
  apply hist_row_step_ED; exact Ha.
Qed.

Example step_hyps_ex :
  let e := mk_env Fixed [[3; 200]; [17; 3]] [[true; true]; [true; false]] 2 50 in
  1 <= e_a2 e /\ e_a2 e < e_R e /\ 0 < e_SL e /\ Data8 e /\ hN e (Soct e 0 0) = 3 /\ hN e (Soct e 0 0) < M16.
Proof.
  cbv zeta. split; [vm_compute; congruence|]. split; [vm_compute; reflexivity|]. split; [vm_compute; reflexivity|].
  split; [|split; vm_compute; reflexivity].
  intros x y H. unfold in_img in H. cbn [e_cols e_rows mk_env] in H.
  assert (0 <= x < 2 /\ 0 <= y < 2) as [Hx Hy] by (cbn in H; lia).
  assert (Cx : x = 0 \/ x = 1) by lia. assert (Cy : y = 0 \/ y = 1) by lia.
  destruct Cx, Cy; subst; vm_compute; split; congruence.
Qed.
