(* C05 - a Jordan-curve lemma for the one configuration the end-pixel lemma needs, by crossing
   parity.  X an image, p its LAST foreground pixel in raster order, z = N(p) background,
   b = NE(p) foreground, u a foreground neighbour of p on the left (W or NW).  If u and b are
   8-connected in X without p, then z is not 4-connected in the background to the pixel below p:
   the closed curve p, u ... b, p crosses the half-line to the right of z an odd number of times,
   the one to the right of S(p) an even number of times, and that parity is invariant along
   background 4-steps. *)
From Coq Require Import ZArith List Bool Lia ZifyBool.
From Centro Require Import Base.Topo Base.TopoPar.
Import ListNotations.
Open Scope Z_scope.

(* xor-parity of a step predicate along the path x :: l *)
Fixpoint par (F : px -> px -> bool) (x : px) (l : list px) : bool :=
  match l with [] => false | y :: r => xorb (F x y) (par F y r) end.

Fixpoint chain (ok : px -> Prop) (x : px) (l : list px) : Prop :=
  ok x /\ match l with [] => True | y :: r => adj8 x y /\ chain ok y r end.

Lemma last_cons : forall (r : list px) (x y : px), last (y :: r) x = last r y.
Proof.
  induction r as [|a r IH]; intros x y; [reflexivity|].
  change (last (y :: a :: r) x) with (last (a :: r) x). rewrite (IH x a), (IH y a). reflexivity.
Qed.

Lemma par_xor F G : forall l x,
  par (fun a b => xorb (F a b) (G a b)) x l = xorb (par F x l) (par G x l).
Proof.
  induction l as [|y r IH]; intros x; cbn [par]; [reflexivity|]. rewrite IH.
  destruct (F x y), (G x y), (par F y r), (par G y r); reflexivity.
Qed.

Lemma par_ext (ok : px -> Prop) F G :
  (forall a b, ok a -> ok b -> adj8 a b -> F a b = G a b) ->
  forall l x, chain ok x l -> par F x l = par G x l.
Proof.
  intros H. induction l as [|y r IH]; intros x C; cbn [par]; [reflexivity|].
  cbn [chain] in C. destruct C as [Ox [A C]]. rewrite (IH y C). f_equal. apply H; auto.
  destruct r; cbn [chain] in C; tauto.
Qed.

Lemma par_false ok : forall l x, chain ok x l -> forall F,
  (forall a b, ok a -> ok b -> adj8 a b -> F a b = false) -> par F x l = false.
Proof.
  intros l x C F H. rewrite (par_ext ok F (fun _ _ => false) H l x C).
  clear. revert x. induction l as [|y r IH]; intros x; cbn [par]; [reflexivity|]. rewrite IH. reflexivity.
Qed.

Lemma par_side (s : px -> bool) : forall l x,
  par (fun a b => xorb (s a) (s b)) x l = xorb (s x) (s (last l x)).
Proof.
  induction l as [|y r IH]; intros x; cbn [par]; [cbn; destruct (s x); reflexivity|].
  rewrite IH, last_cons. destruct (s x), (s y), (s (last r y)); reflexivity.
Qed.

Lemma par_app F : forall l x y, par F x (l ++ [y]) = xorb (par F x l) (F (last l x) y).
Proof.
  induction l as [|a r IH]; intros x y; cbn [par app]; [cbn; destruct (F x y); reflexivity|].
  rewrite IH, last_cons. destruct (F x a), (par F a r), (F (last r a) y); reflexivity.
Qed.

Lemma chain_app ok : forall l x y, chain ok x l -> adj8 (last l x) y -> ok y -> chain ok x (l ++ [y]).
Proof.
  induction l as [|a r IH]; intros x y C A Oy; cbn [app chain] in *.
  - tauto.
  - destruct C as [Ox [Axa C]]. split; [exact Ox|]. split; [exact Axa|]. apply IH; auto.
    rewrite last_cons in A. exact A.
Qed.

(* crossing of the half-line to the right of u: a step between {row u, columns > col u} and row u + 1 *)
Definition inR (u x : px) : bool := (fst x =? fst u) && (snd u <? snd x).
Definition crossU (u : px) (x y : px) : bool :=
  (inR u x && (fst y =? fst u + 1)) || (inR u y && (fst x =? fst u + 1)).

Ltac boolcases :=
  repeat match goal with
         | |- context [Z.eqb ?a ?b] => destruct (Z.eqb_spec a b)
         | |- context [Z.ltb ?a ?b] => destruct (Z.ltb_spec a b)
         | |- context [Z.leb ?a ?b] => destruct (Z.leb_spec a b)
         end; cbn [andb orb xorb negb]; try reflexivity; exfalso; lia.

Lemma inR_right i j a : a <> (i, j + 1) -> inR (i, j) a = inR (i, j + 1) a.
Proof.
  intros N. destruct a as [ai aj]. unfold inR. cbn [fst snd].
  assert (N' : ai <> i \/ aj <> j + 1) by (destruct (Z.eq_dec ai i), (Z.eq_dec aj (j+1)); subst; auto; congruence).
  boolcases.
Qed.

Lemma adj8_coords a b : adj8 a b -> -1 <= fst a - fst b <= 1 /\ -1 <= snd a - snd b <= 1.
Proof. unfold adj8. lia. Qed.

Section Curve.
Variable X : img.
Variables (x0 : px) (l : list px).
Hypothesis C : chain (fun q => X q = true) x0 l.
Hypothesis closed : last l x0 = x0.

Lemma closed_side s : par (fun a b => xorb (s a) (s b)) x0 l = false.
Proof. rewrite par_side, closed. destruct (s x0); reflexivity. Qed.

Definition cpar (u : px) : bool := par (crossU u) x0 l.

Lemma cpar_right u : X u = false -> X (fst u, snd u + 1) = false -> cpar u = cpar (fst u, snd u + 1).
Proof.
  intros Hu Hu'. unfold cpar. destruct u as [i j]. cbn [fst snd] in *.
  apply (par_ext (fun q => X q = true)); [|exact C].
  intros a b Ha Hb A. unfold crossU. cbn [fst snd].
  rewrite (inR_right i j a), (inR_right i j b); [reflexivity| |]; intros E; subst; congruence.
Qed.

Lemma cpar_down u : X u = false -> X (fst u + 1, snd u) = false -> cpar u = cpar (fst u + 1, snd u).
Proof.
  intros Hu Hu'. unfold cpar. destruct u as [i j]. cbn [fst snd] in *.
  pose proof (closed_side (inR (i + 1, j))) as E1.
  assert (E : par (crossU (i, j)) x0 l =
              par (fun a b => xorb (crossU (i + 1, j) a b) (xorb (inR (i + 1, j) a) (inR (i + 1, j) b))) x0 l).
  { apply (par_ext (fun q => X q = true)); [|exact C].
    intros a b Ha Hb A. apply adj8_coords in A. destruct a as [ai aj], b as [bi bj]. unfold crossU, inR. cbn [fst snd] in *.
    assert (Na : ai <> i \/ aj <> j) by (destruct (Z.eq_dec ai i), (Z.eq_dec aj j); subst; auto; congruence).
    assert (Nb : bi <> i \/ bj <> j) by (destruct (Z.eq_dec bi i), (Z.eq_dec bj j); subst; auto; congruence).
    assert (Na' : ai <> i + 1 \/ aj <> j) by (destruct (Z.eq_dec ai (i+1)), (Z.eq_dec aj j); subst; auto; congruence).
    assert (Nb' : bi <> i + 1 \/ bj <> j) by (destruct (Z.eq_dec bi (i+1)), (Z.eq_dec bj j); subst; auto; congruence).
    boolcases. }
  rewrite E, par_xor, E1. destruct (par (crossU (i + 1, j)) x0 l); reflexivity.
Qed.
Lemma cpar_adj4 u u' : X u = false -> X u' = false -> adj4 u u' -> cpar u = cpar u'.
Proof.
  intros Hu Hu' A. destruct u as [i j], u' as [i' j']. unfold adj4 in A. cbn [fst snd] in A.
  assert (D : (i' = i /\ j' = j + 1) \/ (i' = i /\ j = j' + 1) \/ (i' = i + 1 /\ j' = j) \/ (i = i' + 1 /\ j' = j)) by lia.
  destruct D as [[-> ->]|[[-> ->]|[[-> ->]|[-> ->]]]].
  - apply (cpar_right (i, j)); assumption.
  - symmetry. apply (cpar_right (i, j')); assumption.
  - apply (cpar_down (i, j)); assumption.
  - symmetry. apply (cpar_down (i', j)); assumption.
Qed.

Lemma cpar_path u v : path adj4 (bg X) u v -> cpar u = cpar v.
Proof.
  induction 1 as [a Ha | a b c Ha Hab Hbc IH]; [reflexivity|].
  rewrite <- IH. apply cpar_adj4; [exact Ha|exact (path_start _ _ _ _ Hbc)|exact Hab].
Qed.
End Curve.

Lemma chain_mono (ok ok' : px -> Prop) : (forall q, ok q -> ok' q) -> forall l x, chain ok x l -> chain ok' x l.
Proof.
  intros H. induction l as [|y r IH]; intros x C; cbn [chain] in *; [split; [apply H; tauto|exact I]|].
  destruct C as [Ox [A C]]. split; [apply H; exact Ox|]. split; [exact A|]. apply IH. exact C.
Qed.

Lemma path_chain (ok : px -> Prop) a b : path adj8 ok a b -> exists l, chain ok a l /\ last l a = b.
Proof.
  induction 1 as [a Ha | a b c Ha Hab Hbc [l [C L]]].
  - exists []. split; [cbn; tauto|reflexivity].
  - exists (b :: l). split; [cbn [chain]; tauto|]. rewrite last_cons. exact L.
Qed.

Lemma last_snoc (l : list px) (y : px) : forall x, last (l ++ [y]) x = y.
Proof. induction l as [|a r IH]; intros x; [reflexivity|]. cbn [app]. rewrite last_cons. apply IH. Qed.

