(* C02 — the outline pre-filter of cpmorphology.convex_hull (as modelled by outline_ijv) drops no
   vertex: a polygon meeting the specification for ALL pixels of a label meets it for the
   outline pixels handed to the kernel, so the two point sets have the same hull polygons. *)
From Coq Require Import ZArith List Bool Lia ZifyBool.
From Centro Require Import Base.Sx Model.Hull Spec.HullSpec Proofs.HullGeom.
Import ListNotations.
Open Scope Z_scope.

Lemma HullSpec_subset S S' V : HullSpec S V -> incl S' S -> incl V S' -> HullSpec S' V.
Proof.
  intros HS I1 I2. constructor.
  - exact I2.
  - exact (hs_nodup S V HS).
  - intros E. pose proof (hs_empty S V HS E) as E0. subst S. destruct S' as [|x t]; auto.
    exfalso. apply (I1 x). left. reflexivity.
  - intros a E s Hs. apply (hs_one S V HS a E). apply I1. exact Hs.
  - intros a b E s Hs. apply (hs_two S V HS a b E). apply I1. exact Hs.
  - intros Hl. destruct (hs_poly S V HS Hl) as [sg [Hsg H]]. exists sg. split; auto.
    intros a b c Hc. destruct (H a b c Hc) as [H1 H2]. split; auto.
Qed.

Lemma in_pts_of ijv l p : In p (pts_of ijv l) <-> In (p, l) ijv.
Proof.
  unfold pts_of. rewrite in_map_iff. split.
  - intros [r [E Hr]]. apply filter_In in Hr. destruct Hr as [Hr Hv].
    destruct r as [[i j] v]. unfold r_pt, r_i, r_j, r_v in *. cbn [fst snd] in *. subst p.
    assert (v = l) by lia. subst. exact Hr.
  - intros H. exists (p, l). split.
    + destruct p. reflexivity.
    + apply filter_In. split; auto. unfold r_v. cbn [snd]. lia.
Qed.

(* ---------------------------------------------------------------- enumeration plumbing *)

Lemma nth_error_in_combine_seq {A} (l : list A) : forall n s x, nth_error l n = Some x ->
  In ((s + n)%nat, x) (combine (seq s (length l)) l).
Proof.
  induction l as [|y l IH]; intros n s x H; [destruct n; discriminate|].
  destruct n as [|n]; cbn in H |- *.
  - inversion H. subst. left. f_equal. lia.
  - right. replace (s + S n)%nat with (S s + n)%nat by lia. apply IH. exact H.
Qed.

Lemma pix_in_all im i j v : pix im i j = Some v -> 0 < v -> In ((i, j), v) (all_ijv im).
Proof.
  unfold pix. intros H Hv. destruct ((i <? 0) || (j <? 0)) eqn:E; [discriminate|].
  destruct (nth_error im (Z.to_nat i)) as [row|] eqn:ER; [|discriminate].
  unfold all_ijv. apply in_flat_map.
  exists (i, combine (map Z.of_nat (seq 0 (length row))) row). split.
  - unfold enum_rows. apply in_map_iff. exists (Z.to_nat i, row). split.
    + cbn [fst snd]. f_equal. lia.
    + apply (nth_error_in_combine_seq im (Z.to_nat i) 0 row ER).
  - cbn [fst snd]. apply in_flat_map. exists (j, v). split.
    + pose proof (nth_error_in_combine_seq row (Z.to_nat j) 0 v H) as Hin. cbn [Nat.add] in Hin.
      assert (Hc : forall (a : list nat) (b : list Z) n x, In (n, x) (combine a b) ->
                   In (Z.of_nat n, x) (combine (map Z.of_nat a) b)).
      { induction a as [|a0 a IHa]; intros [|b0 b] n x Hx; cbn in Hx |- *; try contradiction.
        destruct Hx as [Hx|Hx]; [left; inversion Hx; reflexivity | right; apply IHa; exact Hx]. }
      apply Hc in Hin. replace (Z.of_nat (Z.to_nat j)) with j in Hin by lia. exact Hin.
    + cbn [fst snd]. destruct (0 <? v) eqn:E2; [left; reflexivity | lia].
Qed.

Lemma all_to_outline im r : In r (all_ijv im) -> is_outline im (r_i r) (r_j r) (r_v r) = true ->
  In r (outline_ijv im).
Proof.
  unfold all_ijv, outline_ijv. intros H Ho. apply in_flat_map in H. destruct H as [ir [Hir H]].
  apply in_flat_map. exists ir. split; auto.
  apply in_flat_map in H. destruct H as [jv [Hjv H]]. apply in_flat_map. exists jv. split; auto.
  destruct (0 <? snd jv) eqn:E; [|destruct H]. destruct H as [H|[]]. subst r.
  unfold r_i, r_j, r_v in Ho. cbn [fst snd] in Ho. rewrite Ho. cbn. left. reflexivity.
Qed.

Lemma outline_incl_all im : incl (outline_ijv im) (all_ijv im).
Proof.
  unfold all_ijv, outline_ijv. intros r H. apply in_flat_map in H. destruct H as [ir [Hir H]].
  apply in_flat_map. exists ir. split; auto.
  apply in_flat_map in H. destruct H as [jv [Hjv H]]. apply in_flat_map. exists jv. split; auto.
  destruct (0 <? snd jv); [|destruct H].
  destruct (is_outline im (fst ir) (fst jv) (snd jv)); [exact H | destruct H].
Qed.

Lemma not_outline_vertical im i j v : is_outline im i j v = false ->
  pix im (i - 1) j = Some v /\ pix im (i + 1) j = Some v.
Proof.
  unfold is_outline, nbr8. intros H.
  assert (F : forall d, In d [(-1, -1); (-1, 0); (-1, 1); (0, -1); (0, 1); (1, -1); (1, 0); (1, 1)] ->
              pix im (i + fst d) (j + snd d) = Some v).
  { intros d Hd. destruct (pix im (i + fst d) (j + snd d)) as [w|] eqn:E.
    - destruct (negb (w =? v)) eqn:E2.
      + exfalso. assert (X : existsb (fun d => match pix im (i + fst d) (j + snd d) with
                                                | Some w => negb (w =? v) | None => true end)
                  [(-1, -1); (-1, 0); (-1, 1); (0, -1); (0, 1); (1, -1); (1, 0); (1, 1)] = true).
        { apply existsb_exists. exists d. split; auto. rewrite E. exact E2. }
        rewrite X in H. discriminate.
      + f_equal. lia.
    - exfalso. assert (X : existsb (fun d => match pix im (i + fst d) (j + snd d) with
                                              | Some w => negb (w =? v) | None => true end)
                  [(-1, -1); (-1, 0); (-1, 1); (0, -1); (0, 1); (1, -1); (1, 0); (1, 1)] = true).
      { apply existsb_exists. exists d. split; auto. rewrite E. reflexivity. }
      rewrite X in H. discriminate. }
  split.
  - specialize (F (-1, 0)). cbn [fst snd] in F. replace (i + -1) with (i - 1) in F by lia.
    replace (j + 0) with j in F by lia. apply F. cbn. tauto.
  - specialize (F (1, 0)). cbn [fst snd] in F. replace (j + 0) with j in F by lia. apply F. cbn. tauto.
Qed.

(* the hull polygon of all pixels of label l is a hull polygon of the outline pixels the kernel
   receives (same vertices, none lost) *)
Theorem outline_prefilter_sound : forall im l V, 0 < l ->
  HullSpec (pts_of (all_ijv im) l) V -> HullSpec (pts_of (outline_ijv im) l) V.
Proof.
  intros im l V Hl HS. apply (HullSpec_subset _ _ _ HS).
  - intros p Hp. apply in_pts_of. apply in_pts_of in Hp. apply outline_incl_all. exact Hp.
  - intros p Hp. pose proof (hs_subset _ _ HS p Hp) as Hin. apply in_pts_of in Hin.
    apply in_pts_of. destruct p as [i j].
    destruct (is_outline im i j l) eqn:E.
    + apply all_to_outline; auto.
    + exfalso. destruct (not_outline_vertical im i j l E) as [P1 P2].
      apply (interior_not_vertex _ _ (i, j) HS Hp). unfold interior. cbn [fst snd]. split.
      * apply in_pts_of. apply pix_in_all; auto.
      * apply in_pts_of. apply pix_in_all; auto.
Qed.

Example outline_ex :
  let im := [[1;1;1;1];[1;1;1;1];[1;1;1;1];[0;1;1;1]] in
  pts_of (outline_ijv im) 1 = [(0,0);(0,1);(0,2);(0,3);(1,0);(1,3);(2,0);(2,1);(2,3);(3,1);(3,2);(3,3)]
  /\ hull_ok (pts_of (all_ijv im) 1) [(0,0);(0,3);(3,3);(3,1);(2,0)] = true.
Proof. vm_compute. split; reflexivity. Qed.
