(* C09 — connection of the abstract determinant to det_n / cofactor_n / inv_n of the model, and
   A * inv_n(A) = I for every size. *)
From Coq Require Import ZArith List Bool Lia Arith QArith Qcanon Permutation Field.
From Centro Require Import Model.Kalman Spec.Kalman Proofs.KalmanArith Proofs.KalmanLists Proofs.KalmanParity
  Proofs.KalmanAlg Proofs.KalmanAssoc Proofs.KalmanDetBase Proofs.KalmanDetRow Proofs.KalmanDetAlt.
Import ListNotations.
Open Scope Qc_scope.

Lemma ldet_1 (M : fmat) : ldet 1 M = M O O.
Proof. unfold ldet, lterm. cbv [permutations perms_fuel removes seq length flat_map map app fst snd bigsum bigprod fold_right nth
  parity inversions filter Nat.even Nat.add sign_of]. ring. Qed.

(* det_n of the model is the abstract determinant of its entries *)
Theorem det1_ldet (m : mat) : det1 m = ldet (length m) (entry m).
Proof.
  unfold det1. destruct (length m) as [|[|n]] eqn:L.
  - unfold ldet. rewrite qsum_bigsum. apply bigsum_ext_in. intros p _. unfold lterm. rewrite qmul_eq, qprod_bigprod. reflexivity.
  - rewrite ldet_1. reflexivity.
  - unfold ldet. rewrite qsum_bigsum. apply bigsum_ext_in. intros p _. unfold lterm. rewrite qmul_eq, qprod_bigprod. reflexivity.
Qed.

Lemma nth_remove_nth {A} (d : A) : forall k (l : list A) a, nth a (remove_nth k l) d = nth (skip k a) l d.
Proof.
  induction k as [|k IH]; intros [|x l] a; cbn [remove_nth]; try (destruct a; reflexivity).
  - unfold skip. destruct (Nat.ltb_spec a (S k)); destruct a; reflexivity.
  - destruct a as [|a]; [reflexivity|]. cbn [nth]. rewrite IH. unfold skip.
    destruct (Nat.ltb_spec a k), (Nat.ltb_spec (S a) (S k)); try lia; reflexivity.
Qed.

Lemma remove_nth_length {A} : forall k (l : list A), (k < length l)%nat -> length (remove_nth k l) = pred (length l).
Proof.
  induction k as [|k IH]; intros [|x l] H; cbn [length] in *; try lia; cbn [remove_nth length]; [reflexivity|].
  rewrite IH by lia. destruct l; cbn [length] in *; lia.
Qed.

(* cofactor_n of the model is the abstract minor determinant *)
Theorem cofactor1_ldet (m : mat) i j : (i < length m)%nat ->
  cofactor1 m i j = ldet (pred (length m)) (minor (entry m) i j).
Proof.
  intros H. unfold cofactor1. rewrite det1_ldet, map_length, remove_nth_length by exact H.
  apply ldet_ext. intros a b Ha _. unfold entry, minor.
  rewrite (nth_map_lt (remove_nth j) _ _ []) by (rewrite remove_nth_length by exact H; exact Ha).
  rewrite !nth_remove_nth. reflexivity.
Qed.

Lemma map_nth_seq_gen {A} (d : A) (l : list A) : map (fun j => nth j l d) (seq 0 (length l)) = l.
Proof.
  apply (nth_ext_lt _ _ d); [rewrite map_length, seq_length; reflexivity|].
  intros k Hk. rewrite map_length, seq_length in Hk.
  rewrite (nth_map_lt _ _ _ O) by (rewrite seq_length; exact Hk). rewrite seq_nth by exact Hk. reflexivity.
Qed.

Lemma vdot_map_seq (f g : nat -> Qc) l : vdot (map f l) (map g l) = bigsum (fun j => f j * g j) l.
Proof.
  induction l as [|a l IH]; [reflexivity|]. cbn [map]. rewrite vdot_cons, IH. reflexivity.
Qed.

Lemma sgn_comm a b : sgn (a + b) = sgn (b + a).
Proof. rewrite Nat.add_comm. reflexivity. Qed.

(* A * adj(A) = det(A) * I, entrywise: row i of A against the signed cofactors of row k *)
Theorem adjugate_row (A : mat) n i k : length A = S n -> (i <= n)%nat -> (k <= n)%nat ->
  bigsum (fun j => entry A i j * (cofactor1 A k j * sgn (j + k))) (seq 0 (S n)) =
  if Nat.eqb i k then det1 A else 0.
Proof.
  intros L Hi Hk.
  assert (E : forall j, entry A i j * (cofactor1 A k j * sgn (j + k)) =
                        entry A i j * sgn (k + j) * ldet n (minor (entry A) k j)).
  { intros j. rewrite cofactor1_ldet by lia. rewrite L. cbn [pred]. rewrite (sgn_comm j k). ring. }
  rewrite (bigsum_ext_in _ _ _ (fun j _ => E j)).
  destruct (Nat.eqb_spec i k) as [->|N].
  - rewrite det1_ldet, L. symmetry. apply ldet_row. exact Hk.
  - apply ldet_alien; assumption.
Qed.

(* inv_n is a right inverse, every size *)
Theorem inv_n_right_inverse (A : mat) n : (1 <= n)%nat -> length A = n ->
  Forall (fun row => length row = n) A -> det1 A <> 0 -> mmul A (inv1 A) = ident n.
Proof.
  intros Hn L HF Hd. destruct n as [|n]; [lia|].
  rewrite mmul_rows. unfold ident. rewrite <- (map_nth_seq_gen [] A) at 1. rewrite L, map_map.
  apply map_ext_in. intros i Hi. apply in_seq in Hi.
  assert (Lr : length (nth i A []) = S n).
  { rewrite Forall_forall in HF. apply HF. apply nth_In. lia. }
  unfold vmat.
  assert (Nc : ncols (inv1 A) = S n).
  { unfold ncols, inv1. rewrite L. cbn [seq map hd length]. rewrite map_length, seq_length. reflexivity. }
  rewrite Nc. apply map_ext_in. intros k Hk. apply in_seq in Hk.
  assert (Ec : col k (inv1 A) = map (fun j => qmul (cofactor1 A k j) (sgn (j + k)) / det1 A) (seq 0 (S n))).
  { unfold col, inv1. rewrite L, map_map. apply map_ext. intros j.
    rewrite (nth_map_lt _ _ _ O) by (rewrite seq_length; lia). rewrite seq_nth by lia. reflexivity. }
  rewrite Ec. rewrite <- (map_nth_seq_gen 0 (nth i A [])) at 1. rewrite Lr, vdot_map_seq.
  assert (Es : bigsum (fun j => nth j (nth i A []) 0 * (qmul (cofactor1 A k j) (sgn (j + k)) / det1 A)) (seq 0 (S n)) =
               / det1 A * bigsum (fun j => entry A i j * (cofactor1 A k j * sgn (j + k))) (seq 0 (S n))).
  { rewrite bigsum_scale. apply bigsum_ext_in. intros j _. rewrite qmul_eq. unfold entry, Qcdiv. ring. }
  rewrite Es, (adjugate_row A n i k L) by lia.
  destruct (Nat.eqb i k); [field; exact Hd|ring].
Qed.
