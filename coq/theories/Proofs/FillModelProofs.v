(* C14 — the scan-line model is correct for every list of convex polygons with distinct labels:
   its rows are pairwise distinct and are exactly the lattice points inside or on the polygons,
   with the polygon's label. *)
From Coq Require Import ZArith List Bool Lia ZifyBool Sorted.
From Centro Require Import Base.Sx Model.HullFill Spec.FillSpec
  Proofs.FillProofs Proofs.FillEdgeProofs Proofs.FillSortProofs Proofs.FillGeomProofs.
Import ListNotations.
Open Scope Z_scope.

(* ---------------------------------------------------------------- hypotheses, boolean and Prop *)
Lemma convex_ok_spec h : convex_ok h = true -> exists s, (s = 1 \/ s = -1) /\ convex_s h s.
Proof.
  unfold convex_ok. intro H. apply orb_true_iff in H. destruct H as [H|H]; rewrite forallb_forall in H.
  - exists 1. split; [left; reflexivity|]. intros a b I v Iv. specialize (H (a, b) I). cbn [fst snd] in H.
    rewrite forallb_forall in H. specialize (H v Iv). lia.
  - exists (-1). split; [right; reflexivity|]. intros a b I v Iv. specialize (H (a, b) I). cbn [fst snd] in H.
    rewrite forallb_forall in H. specialize (H v Iv). lia.
Qed.

Lemma distinct_labels_NoDup ls : distinct_labels ls = true -> NoDup ls.
Proof.
  induction ls as [|a t IH]; intro H; [constructor|]. cbn [distinct_labels] in H.
  apply andb_true_iff in H. destruct H as [N D]. constructor; [|apply IH; exact D].
  intro I. apply negb_true_iff in N. assert (existsb (Z.eqb a) t = true); [|congruence].
  apply existsb_exists. exists a. split; [exact I|apply Z.eqb_refl].
Qed.

Lemma label_unique (objs : list (Z * list hpt)) o0 o1 :
  NoDup (map fst objs) -> In o0 objs -> In o1 objs -> fst o0 = fst o1 -> o0 = o1.
Proof.
  induction objs as [|o t IH]; intros ND I0 I1 E; [destruct I0|].
  cbn [map] in ND. inversion ND as [|? ? Nin ND']; subst.
  destruct I0 as [<-|I0], I1 as [<-|I1].
  - reflexivity.
  - exfalso. apply Nin. rewrite E. apply in_map. exact I1.
  - exfalso. apply Nin. rewrite <- E. apply in_map. exact I0.
  - apply IH; assumption.
Qed.

(* ---------------------------------------------------------------- rows are emitted once *)
Lemma zrange_nat_NoDup n : forall s, NoDup (zrange_nat s n).
Proof.
  induction n as [|n IH]; intro s; cbn [zrange_nat]; constructor; [|apply IH].
  intro I. apply zrange_nat_In in I. lia.
Qed.

Lemma run_NoDup (i l : Z) n0 d0 n1 d1 : NoDup (map (fun j : Z => (i, j, l)) (run_js n0 d0 n1 d1)).
Proof.
  unfold run_js, zrange.
  generalize (zrange_nat_NoDup (Z.to_nat (floor_div n1 d1 - ceil_div n0 d0 + 1)) (ceil_div n0 d0)).
  generalize (zrange_nat (ceil_div n0 d0) (Z.to_nat (floor_div n1 d1 - ceil_div n0 d0 + 1))).
  induction l0 as [|a t IH]; intro N; cbn [map]; [constructor|].
  inversion N as [|? ? Na Nt]; subst. constructor; [|apply IH; exact Nt].
  intro I. apply in_map_iff in I. destruct I as [y [E Iy]]. inversion E; subst. exact (Na Iy).
Qed.

Lemma NoDup_app_disjoint {A} (l1 l2 : list A) :
  NoDup l1 -> NoDup l2 -> (forall x, In x l1 -> In x l2 -> False) -> NoDup (l1 ++ l2).
Proof.
  induction l1 as [|a t IH]; intros N1 N2 D; [exact N2|].
  inversion N1 as [|? ? Na Nt]; subst. cbn [app]. constructor.
  - intro I. apply in_app_or in I. destruct I as [I|I]; [exact (Na I)|exact (D a (or_introl eq_refl) I)].
  - apply IH; [exact Nt|exact N2|]. intros x I1 I2. exact (D x (or_intror I1) I2).
Qed.

Lemma emit_NoDup : forall rest first last,
  valid first -> valid last -> Forall valid rest -> key_eq first last ->
  StronglySorted le (last :: rest) -> NoDup (emit_runs first last rest).
Proof.
  induction rest as [|x t IH]; intros first last Vf Vl Vr K S; cbn [emit_runs].
  - apply run_NoDup.
  - apply Forall_cons_iff in Vr. destruct Vr as [Vx Vt].
    assert (S' : StronglySorted le (x :: t)) by (inversion S; assumption).
    destruct ((e_l x =? e_l first) && (e_i x =? e_i first)) eqn:Same.
    + apply IH; try assumption. unfold key_eq. lia.
    + assert (Lx : key_lt last x \/ (key_eq last x /\ qle last x)).
      { apply (sorted_key_ge last (x :: t) x S). left. reflexivity. }
      assert (Ltx : key_lt last x).
      { destruct Lx as [Lt|[Kx _]]; [exact Lt|unfold key_eq in *; lia]. }
      assert (Later : forall e, In e (x :: t) -> key_lt last e).
      { intros e [<-|Ie]; [exact Ltx|].
        destruct (sorted_key_ge x t e S' Ie) as [Lt|[Ke _]]; unfold key_lt, key_eq in *; lia. }
      apply NoDup_app_disjoint.
      * apply run_NoDup.
      * apply IH; try assumption. unfold key_eq. lia.
      * intros [[i j] l] I1 I2.
        apply run_In in I1; [|exact Vf|exact Vl]. destruct I1 as (El & Ei & _).
        destruct (emit_sound t x x i j l Vx Vx Vt ltac:(unfold key_eq; lia) I2) as [[e0 [I0 (L1 & L2 & _)]] _].
        assert (Ie : In e0 (x :: t)) by (destruct I0 as [->|I0]; [left; reflexivity|right; exact I0]).
        specialize (Later e0 Ie). unfold key_lt, key_eq in *. lia.
Qed.

Lemma fill_model_NoDup objs : NoDup (fill_model objs).
Proof.
  rewrite fill_model_unfold.
  pose proof (all_entries_valid objs) as V.
  assert (Vs : Forall valid (sort_ents (all_entries objs))).
  { rewrite Forall_forall in V. rewrite Forall_forall. intros e I. apply V. apply (proj1 (sort_In _ e)). exact I. }
  pose proof (sort_sorted _ V) as S.
  destruct (sort_ents (all_entries objs)) as [|x t]; [constructor|].
  apply Forall_cons_iff in Vs. destruct Vs as [Vx Vt].
  apply emit_NoDup; try assumption. unfold key_eq. lia.
Qed.

(* ---------------------------------------------------------------- the theorem *)
Theorem fill_model_spec objs :
  fill_hyp_ok objs = true ->
  NoDup (fill_model objs) /\
  forall i j l, In (i, j, l) (fill_model objs) <-> exists H, In (l, H) objs /\ inside H (i, j) = true.
Proof.
  unfold fill_hyp_ok. intro Hyp. apply andb_true_iff in Hyp. destruct Hyp as [DL CV].
  apply distinct_labels_NoDup in DL. rewrite forallb_forall in CV.
  split; [apply fill_model_NoDup|].
  intros i j l. rewrite fill_model_rows. split.
  - intros [[e0 [I0 L0]] [e1 [I1 U1]]].
    apply all_entries_In in I0. destruct I0 as [o0 [pq0 (Io0 & Ipq0 & Ie0)]].
    apply all_entries_In in I1. destruct I1 as [o1 [pq1 (Io1 & Ipq1 & Ie1)]].
    destruct (entry_param _ _ _ _ Ie0) as [El0 _]. destruct (entry_param _ _ _ _ Ie1) as [El1 _].
    assert (F0 : fst o0 = l) by (destruct L0; lia). assert (F1 : fst o1 = l) by (destruct U1; lia).
    assert (Eo : o0 = o1) by (apply (label_unique objs); try assumption; lia). subst o1.
    destruct o0 as [l0 H]. cbn [fst snd] in *. clear El0 El1 F1. rewrite F0 in *. clear F0 l0.
    exists H. split; [exact Io0|].
    destruct (convex_ok_spec H (CV (l, H) Io0)) as [s [Ss Cs]].
    apply (witnesses_inside l H s i j e0 e1 Ss Cs); try assumption.
    + exists (fst pq0), (snd pq0). split; [destruct pq0; exact Ipq0|exact Ie0].
    + exists (fst pq1), (snd pq1). split; [destruct pq1; exact Ipq1|exact Ie1].
  - intros [H [Io Ins]].
    destruct (inside_witnesses l H i j Ins) as [[e0 [[p0 [q0 [Ip0 Ie0]]] L0]] [e1 [[p1 [q1 [Ip1 Ie1]]] U1]]].
    split; [exists e0|exists e1]; (split; [|assumption]); apply all_entries_In.
    + exists (l, H), (p0, q0). cbn [fst snd]. tauto.
    + exists (l, H), (p1, q1). cbn [fst snd]. tauto.
Qed.

(* the hypotheses hold on a non-trivial input: a pentagon given clockwise, a triangle given
   counter-clockwise, a segment and a single point *)
Example fill_hyp_example :
  fill_hyp_ok [(3, [(0,2); (2,5); (5,4); (5,1); (2,0)]); (1, [(0,0); (3,0); (0,3)]); (7, [(4,4); (6,7)]); (2, [(9,9)])] = true.
Proof. vm_compute. reflexivity. Qed.
