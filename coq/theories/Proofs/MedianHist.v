(* C07 — rank selection on a two-level histogram (find_median of _filter.pyx) versus the sorted
   window.  Port of design/prototypes/Hist.v to the Z-valued scans of Model/Median.v, carried
   through to Spec.MedianSpec.RankOf. *)
From Coq Require Import ZArith List Bool Lia ZifyBool.
From Centro Require Import Base.Sx Model.Median Spec.MedianSpec Proofs.MedianCheck.
Import ListNotations.
Open Scope Z_scope.

Fixpoint lsum (l : list Z) : Z := match l with [] => 0 | x :: r => x + lsum r end.

Definition count_eq (b : Z) (l : list Z) : Z := Z.of_nat (length (filter (Z.eqb b) l)).
(* the 256-bin histogram of a window and its 16 coarse bins *)
Definition hist_of (vals : list Z) : list Z := map (fun b => count_eq b vals) (zrange 0 256).
Definition coarse_of (h : list Z) : list Z := map (fun i => lsum (block16 h i)) (zrange 0 16).
(* cumulative count below bin z *)
Definition cum (h : list Z) (z : Z) : Z := lsum (firstn (Z.to_nat z) h).

Lemma lsum_app a b : lsum (a ++ b) = lsum a + lsum b.
Proof. induction a as [|x a IH]; cbn [app lsum]; lia. Qed.

Lemma firstn_add {A} (a b : nat) (l : list A) : firstn (a + b) l = firstn a l ++ firstn b (skipn a l).
Proof.
  revert l; induction a as [|a IH]; intros l; cbn [Nat.add firstn skipn app]; [reflexivity|].
  destruct l as [|x l]; cbn [firstn skipn app].
  - destruct b; reflexivity.
  - rewrite IH. reflexivity.
Qed.

Lemma nth_firstn_lt (l : list Z) : forall m k, (m < k)%nat -> nth m (firstn k l) 0 = nth m l 0.
Proof.
  induction l as [|x l IH]; intros m k H.
  - rewrite firstn_nil. reflexivity.
  - destruct k as [|k]; [lia|]. rewrite firstn_cons. destruct m as [|m]; [reflexivity|].
    change (nth (S m) (x :: firstn k l) 0) with (nth m (firstn k l) 0).
    change (nth (S m) (x :: l) 0) with (nth m l 0). apply IH. lia.
Qed.

Lemma nth_skipn_add (l : list Z) : forall k m, nth m (skipn k l) 0 = nth (k + m) l 0.
Proof.
  induction l as [|x l IH]; intros k m.
  - rewrite skipn_nil. destruct m, k; reflexivity.
  - destruct k as [|k]; [reflexivity|]. cbn [skipn Nat.add]. rewrite IH. reflexivity.
Qed.

(* ------------------------------------------------------------------ the scans *)

(* select_is_rank, coarse level: the loop stops in the first bin whose cumulative count exceeds
   [below]; no non-negativity needed *)
Lemma cscan_spec l : forall i a below, l <> [] -> a <= below -> below < a + lsum l ->
  exists n, (n < length l)%nat /\ cscan l i a below = (i + Z.of_nat n, a + lsum (firstn n l)) /\
            a + lsum (firstn n l) <= below < a + lsum (firstn n l) + nth n l 0.
Proof.
  induction l as [|c r IH]; intros i a below Hne Ha Hb; [congruence|].
  cbn [cscan lsum] in *. destruct (below <? a + c) eqn:E.
  - exists O. cbn [length firstn lsum nth]. repeat split; try lia. f_equal; lia.
  - destruct r as [|c' r'].
    + cbn [lsum] in Hb. lia.
    + destruct (IH (i + 1) (a + c) below) as [n [Hn [Hs Hr]]]; [discriminate|lia|lia|].
      exists (S n). rewrite firstn_cons. change (nth (S n) (c :: c' :: r') 0) with (nth n (c' :: r') 0).
      cbn [lsum]. split; [cbn [length] in *; lia|].
      split; [rewrite Hs; f_equal; lia|lia].
Qed.

Lemma fscan_spec blk : forall j a below, a <= below -> below < a + lsum blk ->
  exists n, (n < length blk)%nat /\ fscan blk j a below = j + Z.of_nat n /\
            a + lsum (firstn n blk) <= below < a + lsum (firstn n blk) + nth n blk 0.
Proof.
  induction blk as [|c r IH]; intros j a below Ha Hb; cbn [lsum] in Hb; [lia|].
  cbn [fscan]. destruct (below <? a + c) eqn:E.
  - exists O. cbn [length firstn lsum nth]. repeat split; lia.
  - destruct (IH (j + 1) (a + c) below) as [n [Hn [Hs Hr]]]; [lia|lia|].
    exists (S n). rewrite firstn_cons. change (nth (S n) (c :: r) 0) with (nth n r 0).
    cbn [lsum length]. repeat split; lia.
Qed.

(* ------------------------------------------------------------------ blocks and cumulative counts *)

Lemma cum_block h i m : 0 <= i -> (m <= 16)%nat ->
  cum h (16 * i) + lsum (firstn m (block16 h i)) = cum h (16 * i + Z.of_nat m).
Proof.
  intros Hi Hm. unfold cum, block16.
  replace (Z.to_nat (16 * i + Z.of_nat m)) with (Z.to_nat (16 * i) + m)%nat by lia.
  rewrite firstn_add, lsum_app. f_equal. f_equal.
  rewrite firstn_firstn. f_equal. lia.
Qed.

Lemma lsum_block h i : 0 <= i -> lsum (block16 h i) = cum h (16 * (i + 1)) - cum h (16 * i).
Proof.
  intros Hi. pose proof (cum_block h i 16 Hi (le_n _)) as H.
  replace (firstn 16 (block16 h i)) with (block16 h i) in H
    by (unfold block16; rewrite firstn_firstn; reflexivity).
  replace (16 * (i + 1)) with (16 * i + Z.of_nat 16) by lia. lia.
Qed.

Lemma coarse_tele h : forall n lo, 0 <= lo ->
  lsum (map (fun i => lsum (block16 h i)) (zrange_n lo n)) = cum h (16 * (lo + Z.of_nat n)) - cum h (16 * lo).
Proof.
  induction n as [|n IH]; intros lo Hlo; cbn [zrange_n map lsum].
  - replace (lo + Z.of_nat 0) with lo by lia. lia.
  - rewrite IH by lia. rewrite lsum_block by lia.
    replace (lo + 1 + Z.of_nat n) with (lo + Z.of_nat (S n)) by lia. lia.
Qed.

Lemma zrange_n_firstn n : forall m lo, (n <= m)%nat -> firstn n (zrange_n lo m) = zrange_n lo n.
Proof.
  induction n as [|n IH]; intros m lo H; [reflexivity|].
  destruct m as [|m]; [lia|]. cbn [zrange_n firstn]. rewrite IH by lia. reflexivity.
Qed.

Lemma zrange_n_nth n : forall m lo, (n < m)%nat -> nth n (zrange_n lo m) 0 = lo + Z.of_nat n.
Proof.
  induction n as [|n IH]; intros m lo H; (destruct m as [|m]; [lia|]); cbn [zrange_n nth]; [lia|].
  rewrite IH by lia. lia.
Qed.

Lemma nth_map_zrange (f : Z -> Z) n : forall m lo, (n < m)%nat ->
  nth n (map f (zrange_n lo m)) 0 = f (lo + Z.of_nat n).
Proof.
  induction n as [|n IH]; intros m lo H; (destruct m as [|m]; [lia|]).
  - change (nth 0 (map f (zrange_n lo (S m))) 0) with (f lo). f_equal. lia.
  - change (nth (S n) (map f (zrange_n lo (S m))) 0) with (nth n (map f (zrange_n (lo + 1) m)) 0).
    rewrite IH by lia. f_equal. lia.
Qed.

Lemma coarse_cum h n : (n <= 16)%nat -> lsum (firstn n (coarse_of h)) = cum h (16 * Z.of_nat n).
Proof.
  intros Hn. unfold coarse_of, zrange. rewrite firstn_map.
  change (Z.to_nat (16 - 0)) with 16%nat. rewrite zrange_n_firstn by lia.
  rewrite coarse_tele by lia. replace (cum h (16 * 0)) with 0 by reflexivity.
  replace (0 + Z.of_nat n) with (Z.of_nat n) by lia. lia.
Qed.

Lemma coarse_nth h n : (n < 16)%nat -> nth n (coarse_of h) 0 = lsum (block16 h (Z.of_nat n)).
Proof.
  intros Hn. unfold coarse_of, zrange. change (Z.to_nat (16 - 0)) with 16%nat.
  rewrite nth_map_zrange by lia. f_equal.
Qed.

Lemma coarse_length h : length (coarse_of h) = 16%nat.
Proof. unfold coarse_of, zrange. rewrite map_length, zrange_n_length. reflexivity. Qed.

(* ------------------------------------------------------------------ histogram of a window *)

Lemma lsum_ind x : forall n lo,
  lsum (map (fun b => if b =? x then 1 else 0) (zrange_n lo n)) =
  if (lo <=? x) && (x <? lo + Z.of_nat n) then 1 else 0.
Proof.
  induction n as [|n IH]; intros lo; cbn [zrange_n map lsum].
  - destruct (lo <=? x) eqn:E1; destruct (x <? lo + Z.of_nat 0) eqn:E2; cbn [andb]; lia.
  - rewrite IH. destruct (lo =? x) eqn:E0; destruct (lo <=? x) eqn:E1; destruct (lo + 1 <=? x) eqn:E1';
      destruct (x <? lo + 1 + Z.of_nat n) eqn:E2; destruct (x <? lo + Z.of_nat (S n)) eqn:E3; cbn [andb]; lia.
Qed.

(* cumulative histogram counts = number of window values in the range *)
Lemma hist_range vals : forall n lo,
  lsum (map (fun b => count_eq b vals) (zrange_n lo n)) =
  Z.of_nat (length (filter (fun x => (lo <=? x) && (x <? lo + Z.of_nat n)) vals)).
Proof.
  induction vals as [|x vals IH]; intros n lo.
  - cbn [filter length]. induction (zrange_n lo n) as [|b l IHl]; cbn [map lsum]; [reflexivity|].
    rewrite IHl. reflexivity.
  - cbn [filter]. specialize (IH n lo).
    assert (E : lsum (map (fun b => count_eq b (x :: vals)) (zrange_n lo n)) =
                lsum (map (fun b => count_eq b vals) (zrange_n lo n)) +
                lsum (map (fun b => if b =? x then 1 else 0) (zrange_n lo n))).
    { generalize (zrange_n lo n) as l. induction l as [|b l IHl]; cbn [map lsum]; [reflexivity|].
      rewrite IHl. unfold count_eq. cbn [filter]. destruct (b =? x); cbn [length]; lia. }
    rewrite E, IH, lsum_ind.
    destruct ((lo <=? x) && (x <? lo + Z.of_nat n)); cbn [length]; lia.
Qed.

Lemma hist_length vals : length (hist_of vals) = 256%nat.
Proof. unfold hist_of, zrange. rewrite map_length, zrange_n_length. reflexivity. Qed.

Lemma hist_cum vals n : Forall (fun v => 0 <= v) vals -> (n <= 256)%nat ->
  cum (hist_of vals) (Z.of_nat n) = count_lt (Z.of_nat n) vals.
Proof.
  intros Hv Hn. unfold cum, hist_of, zrange. rewrite Nat2Z.id, firstn_map.
  change (Z.to_nat (256 - 0)) with 256%nat. rewrite zrange_n_firstn by lia.
  rewrite hist_range. unfold count_lt. do 2 f_equal.
  apply filter_ext_in. intros x Hx. rewrite Forall_forall in Hv. specialize (Hv x Hx). lia.
Qed.

Lemma hist_nth vals n : (n < 256)%nat -> nth n (hist_of vals) 0 = count_eq (Z.of_nat n) vals.
Proof.
  intros Hn. unfold hist_of, zrange. change (Z.to_nat (256 - 0)) with 256%nat.
  rewrite nth_map_zrange by lia. f_equal.
Qed.

Lemma count_le_split v l : count_le v l = count_lt v l + count_eq v l.
Proof.
  unfold count_le, count_lt, count_eq. induction l as [|x l IH]; cbn [filter length]; [reflexivity|].
  destruct (x <=? v) eqn:E1; destruct (x <? v) eqn:E2; destruct (v =? x) eqn:E3; cbn [length]; lia.
Qed.

Lemma count_eq_In v l : 0 < count_eq v l -> In v l.
Proof.
  unfold count_eq. induction l as [|x l IH]; cbn [filter length]; [lia|].
  destruct (v =? x) eqn:E; [left; lia|]. intros H. right. apply IH. exact H.
Qed.

Lemma hist_total vals : Forall (fun v => 0 <= v < 256) vals -> cum (hist_of vals) 256 = Z.of_nat (length vals).
Proof.
  intros Hv. change 256 with (Z.of_nat 256). rewrite hist_cum; [|eapply Forall_impl; [|exact Hv]; cbv beta; lia|lia].
  unfold count_lt. do 2 f_equal. rewrite Forall_forall in Hv.
  transitivity (filter (fun _ => true) vals).
  - apply filter_ext_in. intros x Hx. specialize (Hv x Hx). lia.
  - induction vals as [|x l IH]; cbn [filter]; [reflexivity|]. f_equal. apply IH. intros y Hy. apply Hv. right; exact Hy.
Qed.

(* ------------------------------------------------------------------ pixels_below *)

Lemma fm_below_rank k percent : 0 < k < 65536 -> 0 <= percent <= 100 ->
  fm_below k percent = rank_pos k percent - 1 /\ 1 <= rank_pos k percent <= k.
Proof.
  intros Hk Hp. unfold fm_below, rank_pos, M32.
  assert (Hq : 0 <= k * percent + 50 < 4294967296) by nia.
  rewrite (Z.mod_small _ _ Hq).
  assert (Hle : (k * percent + 50) / 100 < k + 1).
  { apply Z.div_lt_upper_bound; nia. }
  assert (H0 : 0 <= (k * percent + 50) / 100) by (apply Z.div_pos; nia).
  destruct (0 <? (k * percent + 50) / 100) eqn:E; lia.
Qed.

(* ------------------------------------------------------------------ find_median_rank *)

Theorem find_median_rank (vals : list Z) (percent : Z) (finef : Z -> list Z) :
  Forall (fun v => 0 <= v < 256) vals -> vals <> [] -> Z.of_nat (length vals) < 65536 ->
  0 <= percent <= 100 ->
  (* the fine bins need to be up to date only in the block the coarse scan selects *)
  (forall i, i = fst (cscan (coarse_of (hist_of vals)) 0 0 (fm_below (Z.of_nat (length vals)) percent)) ->
             block16 (finef i) i = block16 (hist_of vals) i) ->
  RankOf vals (rank_pos (Z.of_nat (length vals)) percent)
         (fm_select (coarse_of (hist_of vals)) finef (Z.of_nat (length vals)) percent).
Proof.
  intros Hv Hne Hk Hp Hf. set (k := Z.of_nat (length vals)) in *. set (h := hist_of vals).
  assert (Hk0 : 0 < k) by (destruct vals; [congruence|cbn [length] in k; lia]).
  assert (Hv0 : Forall (fun v => 0 <= v) vals) by (eapply Forall_impl; [|exact Hv]; cbv beta; lia).
  destruct (fm_below_rank k percent) as [Hb Hr]; [lia|lia|].
  unfold fm_select. destruct (k =? 0) eqn:Ek; [lia|]. rewrite Hb.
  set (below := rank_pos k percent - 1) in *.
  (* coarse scan *)
  destruct (cscan_spec (coarse_of h) 0 0 below) as [n [Hn [Hs Hr1]]].
  { intro E. pose proof (coarse_length h) as L. rewrite E in L. discriminate. }
  { lia. }
  { pose proof (coarse_cum h 16 (le_n _)) as T. rewrite firstn_all2 in T by (rewrite coarse_length; lia).
    rewrite T. change (16 * Z.of_nat 16) with 256. unfold h. rewrite hist_total by exact Hv. fold k. lia. }
  rewrite coarse_length in Hn. rewrite Hs. rewrite coarse_cum in * by lia. rewrite coarse_nth in Hr1 by lia.
  cbn [Z.add] in *. rewrite Hf by (rewrite Hb; fold h; rewrite Hs; reflexivity). fold h.
  (* fine scan inside block n *)
  destruct (fscan_spec (block16 h (Z.of_nat n)) (Z.of_nat n * 16) (cum h (16 * Z.of_nat n)) below)
    as [m [Hm [Hs2 Hr2]]]; [lia|lia|].
  rewrite Hs2.
  assert (Hm16 : (m < 16)%nat).
  { unfold block16 in Hm. rewrite firstn_length in Hm. lia. }
  (* translate to cumulative counts of the window *)
  pose proof (cum_block h (Z.of_nat n) m ltac:(lia) ltac:(lia)) as C1.
  assert (Hnth : nth m (block16 h (Z.of_nat n)) 0 = nth (16 * n + m) h 0).
  { unfold block16. rewrite nth_firstn_lt by exact Hm16.
    rewrite nth_skipn_add. f_equal. lia. }
  set (j := (16 * n + m)%nat) in *.
  assert (Hj : (j < 256)%nat) by lia.
  replace (16 * Z.of_nat n + Z.of_nat m) with (Z.of_nat j) in C1 by lia.
  replace (Z.of_nat n * 16 + Z.of_nat m) with (Z.of_nat j) by lia.
  unfold h in C1, Hnth. rewrite hist_cum in C1 by (try exact Hv0; lia).
  rewrite hist_nth in Hnth by exact Hj. subst h. unfold below in *.
  split.
  - apply count_eq_In. lia.
  - rewrite count_le_split. lia.
Qed.

Example find_median_rank_ex :
  RankOf [3; 200; 17; 3; 90] (rank_pos 5 50)
         (fm_select (coarse_of (hist_of [3; 200; 17; 3; 90])) (fun _ => hist_of [3; 200; 17; 3; 90]) 5 50).
Proof.
  apply (find_median_rank [3; 200; 17; 3; 90] 50).
  - repeat (constructor; [lia|]). constructor.
  - discriminate.
  - cbn; lia.
  - lia.
  - reflexivity.
Qed.

(* the same statement about the model's find_median: the accumulator's coarse bins and count are
   those of the window, and after the lazy update_fine the selected block of the fine bins is *)
Theorem find_median_model_rank (e : env) (s : st) (vals : list Z) :
  Forall (fun v => 0 <= v < 256) vals -> vals <> [] -> Z.of_nat (length vals) < 65536 ->
  0 <= e_percent e <= 100 ->
  coarse (s_acc s) = coarse_of (hist_of vals) -> s_accn s = Z.of_nat (length vals) ->
  block16 (fine (s_acc (update_fine e s (fm_block e s)))) (fm_block e s) = block16 (hist_of vals) (fm_block e s) ->
  RankOf vals (rank_pos (Z.of_nat (length vals)) (e_percent e)) (snd (find_median e s)).
Proof.
  intros Hv Hne Hk Hp Hc Hn Hf. unfold find_median.
  destruct (s_accn s =? 0) eqn:E; [destruct vals; [congruence|cbn [length] in Hn; lia]|].
  cbn [snd]. rewrite Hc, Hn.
  apply find_median_rank; try assumption.
  intros i Hi. assert (Ei : fm_block e s = i) by (unfold fm_block; rewrite Hc, Hn; symmetry; exact Hi).
  rewrite Ei in *. exact Hf.
Qed.

(* select2_flat of the prototype: the coarse-then-fine search equals one flat scan of 256 bins *)
Theorem fm_select_flat (vals : list Z) (percent : Z) :
  Forall (fun v => 0 <= v < 256) vals -> vals <> [] -> Z.of_nat (length vals) < 65536 ->
  0 <= percent <= 100 ->
  fm_select (coarse_of (hist_of vals)) (fun _ => hist_of vals) (Z.of_nat (length vals)) percent =
  fscan (hist_of vals) 0 0 (fm_below (Z.of_nat (length vals)) percent).
Proof.
  intros Hv Hne Hk Hp.
  pose proof (find_median_rank vals percent (fun _ => hist_of vals) Hv Hne Hk Hp (fun _ _ => eq_refl)) as R1.
  eapply RankOf_unique; [exact R1|].
  set (k := Z.of_nat (length vals)) in *.
  assert (Hk0 : 0 < k) by (destruct vals; [congruence|cbn [length] in k; lia]).
  assert (Hv0 : Forall (fun v => 0 <= v) vals) by (eapply Forall_impl; [|exact Hv]; cbv beta; lia).
  destruct (fm_below_rank k percent) as [Hb Hr]; [lia|lia|]. rewrite Hb.
  destruct (fscan_spec (hist_of vals) 0 0 (rank_pos k percent - 1)) as [m [Hm [Hs Hr2]]]; [lia| |].
  { pose proof (hist_total vals Hv) as T. unfold cum in T. rewrite firstn_all2 in T by (rewrite hist_length; cbn; lia).
    fold k in T. lia. }
  rewrite Hs. rewrite hist_length in Hm.
  pose proof (hist_cum vals m Hv0 ltac:(lia)) as C. unfold cum in C. rewrite Nat2Z.id in C.
  rewrite hist_nth in Hr2 by exact Hm. cbn [Z.add] in *.
  split.
  - apply count_eq_In. lia.
  - rewrite count_le_split. lia.
Qed.
