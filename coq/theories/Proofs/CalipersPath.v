(* C14 — the antipodal sweep as written records every farthest pair of a strictly convex vertex
   cycle (either orientation): sign calculus of D v k = sg (e_v x e_k) on top of CalipersGeom.v,
   then a staircase argument on the sweep's path. *)
From Coq Require Import ZArith List Bool Lia ZifyBool.
From Centro Require Import Base.Sx Model.Feret Spec.FeretSpec Spec.CalipersHyp
  Proofs.FeretProofs Proofs.SweepProofs Proofs.CalipersGeom.
Import ListNotations.
Open Scope Z_scope.

Section Path.
  Variable h : list fpt.
  Variable sg : Z.
  Let n := length h.
  Hypothesis Sg : sg = 1 \/ sg = -1.
  Hypothesis N3 : (3 <= n)%nat.
  Hypothesis SC : strict_side h sg = true.

  Definition P (k : nat) : fpt := pnth k h.
  Definition nx (k : nat) : nat := nxt n k.
  Definition ev (k : nat) : fpt := vsub (P (nx k)) (P k).
  Definition Dm (v k : nat) : Z := sg * cr (ev v) (ev k).
  Definition fd (v k : nat) : Z := sg * fcross (P k) (P v) (P (nx v)).

  Lemma nx_lt k : (k < n)%nat -> (nx k < n)%nat.
  Proof. unfold nx, nxt. intro L. destruct (S k =? n)%nat eqn:E; lia. Qed.
  Lemma nx_S k : (S k < n)%nat -> nx k = S k.
  Proof. unfold nx, nxt. intro L. destruct (S k =? n)%nat eqn:E; lia. Qed.
  Lemma nx_neq k : (k < n)%nat -> nx k <> k.
  Proof. unfold nx, nxt. intro L. destruct (S k =? n)%nat eqn:E; lia. Qed.
  Lemma nx_nx_neq k : (k < n)%nat -> nx (nx k) <> k /\ nx (nx k) <> nx k.
  Proof.
    unfold nx, nxt. intro L.
    destruct (Nat.eqb_spec (S k) n) as [E|E].
    - destruct (Nat.eqb_spec 1 n); lia.
    - destruct (Nat.eqb_spec (S (S k)) n); lia.
  Qed.

  Lemma sc_strict i k : (i < n)%nat -> (k < n)%nat -> k <> i -> k <> nx i -> 0 < fd i k.
  Proof.
    intros Li Lk N1 N2. unfold strict_side in SC. fold n in SC. rewrite forallb_forall in SC.
    specialize (SC i ltac:(apply in_seq; lia)). rewrite forallb_forall in SC.
    specialize (SC k ltac:(apply in_seq; lia)). unfold fd, P, nx. 
    destruct (k =? i)%nat eqn:E1; [lia|]. destruct (k =? nxt n i)%nat eqn:E2; [unfold nx in N2; lia|].
    cbn [orb] in SC. lia.
  Qed.

  Lemma fd_self v : fd v v = 0.
  Proof. unfold fd. rewrite fcross_cr. unfold cr, vsub. cbn [fst snd]. ring. Qed.
  Lemma fd_next v : fd v (nx v) = 0.
  Proof. unfold fd. rewrite fcross_cr. unfold cr, vsub. cbn [fst snd]. ring. Qed.
  Lemma fd_nonneg i k : (i < n)%nat -> (k < n)%nat -> 0 <= fd i k.
  Proof.
    intros Li Lk. destruct (Nat.eq_dec k i) as [->|N1]; [rewrite fd_self; lia|].
    destruct (Nat.eq_dec k (nx i)) as [->|N2]; [rewrite fd_next; lia|].
    pose proof (sc_strict i k Li Lk N1 N2). lia.
  Qed.

  (* the distance to edge v changes by D v k along edge k *)
  Lemma fd_step v k : fd v (nx k) - fd v k = Dm v k.
  Proof. unfold fd, Dm, ev. rewrite !fcross_cr. unfold cr, vsub. cbn [fst snd]. ring. Qed.

  Lemma Dm_antisym v k : Dm v k = - Dm k v.
  Proof. unfold Dm, cr. ring. Qed.
  Lemma Dm_self v : Dm v v = 0.
  Proof. unfold Dm, cr. ring. Qed.

  Lemma Dm_local v : (v < n)%nat -> 0 < Dm v (nx v).
  Proof.
    intro L. rewrite <- fd_step, fd_next.
    destruct (nx_nx_neq v L) as [A B].
    pose proof (sc_strict v (nx (nx v)) L (nx_lt _ (nx_lt _ L)) A B). lia.
  Qed.

  (* points are pairwise distinct *)
  Lemma P_inj i j : (i < n)%nat -> (j < n)%nat -> i <> j -> P i <> P j.
  Proof.
    intros Li Lj N E.
    destruct (Nat.eq_dec j (nx i)) as [Ej|Nj].
    - (* edge i is degenerate: its third vertex would have distance 0 *)
      destruct (nx_nx_neq i Li) as [A B].
      pose proof (sc_strict i (nx (nx i)) Li (nx_lt _ (nx_lt _ Li)) A B) as S.
      unfold fd in S. rewrite <- Ej, <- E in S. rewrite fcross_cr in S. unfold cr, vsub in S. cbn [fst snd] in S. lia.
    - pose proof (sc_strict i j Li Lj ltac:(lia) Nj) as S. unfold fd in S. rewrite <- E in S.
      rewrite fcross_cr in S. unfold cr, vsub in S. cbn [fst snd] in S. lia.
  Qed.

  (* no valley, in index form *)
  Lemma NV v k : (v < n)%nat -> (k < n)%nat -> nx k <> v -> nx k <> nx v -> Dm v k <= 0 -> Dm v (nx k) < 0.
  Proof.
    intros Lv Lk N1 N2 D.
    pose proof (nx_lt k Lk) as Lm. pose proof (nx_lt _ Lm) as Lm1.
    unfold Dm, ev in *.
    apply (no_valley sg (P v) (P (nx v)) (P k) (P (nx k)) (P (nx (nx k))) Sg).
    - pose proof (fd_nonneg k v Lk Lv) as F. unfold fd in F. exact F.
    - pose proof (fd_nonneg (nx k) v Lm Lv) as F. unfold fd in F. exact F.
    - destruct (nx_nx_neq k Lk) as [A B]. pose proof (sc_strict k (nx (nx k)) Lk Lm1 A B) as F. unfold fd in F. exact F.
    - pose proof (sc_strict v (nx k) Lv Lm N1 N2) as F. unfold fd in F. exact F.
    - exact D.
  Qed.

  (* a run of plain successors: once not increasing, strictly decreasing *)
  Lemma NV_chain v k : forall j, (v < n)%nat -> (k + j < n)%nat ->
    (forall t, (k < t <= k + j)%nat -> t <> v /\ t <> nx v) -> Dm v k <= 0 -> Dm v (k + j) <= 0 /\ (j <> O -> Dm v (k + j) < 0).
  Proof.
    induction j as [|j IH]; intros Lv Lk Off D.
    - rewrite Nat.add_0_r. split; [exact D|congruence].
    - destruct (IH Lv ltac:(lia) ltac:(intros t Ht; apply Off; lia) D) as [D' _].
      assert (E : nx (k + j) = (k + S j)%nat) by (rewrite nx_S by lia; lia).
      destruct (Off (k + S j)%nat ltac:(lia)) as [A B].
      pose proof (NV v (k + j)%nat Lv ltac:(lia) ltac:(rewrite E; exact A) ltac:(rewrite E; exact B) D') as F.
      rewrite E in F. split; [lia|intros _; exact F].
  Qed.

  (* ---------------------------------------------------------------- a farthest pair *)
  Variables p q : nat.
  Hypothesis Lpq : (p < q < n)%nat.
  Hypothesis Far : forall i j, (i < n)%nat -> (j < n)%nat -> fdist2 (P i) (P j) <= fdist2 (P p) (P q).

  Lemma fdist2_sym a b : fdist2 a b = fdist2 b a.
  Proof. unfold fdist2. ring. Qed.

  (* f_p still not decreasing when q is reached *)
  Lemma A2 : 0 <= Dm p (q - 1).
  Proof.
    destruct (Nat.eq_dec q (S p)) as [E|N].
    - replace (q - 1)%nat with p by lia. rewrite Dm_self. lia.
    - assert (E1 : nx p = S p) by (apply nx_S; lia).
      assert (E2 : nx (q - 1) = q) by (rewrite nx_S by lia; lia).
      unfold Dm, ev. rewrite E1, E2.
      pose proof (diameter_antipodal_2 sg (P p) (P q) (P (S p)) (P (q - 1)) Sg) as L.
      assert (0 < sg * cr (vsub (P (S p)) (P p)) (vsub (P q) (P (q - 1)))); [|lia].
      apply L.
      + apply P_inj; lia.
      + apply P_inj; lia.
      + apply P_inj; lia.
      + apply Far; lia.
      + apply Far; lia.
      + pose proof (sc_strict p q ltac:(lia) ltac:(lia) ltac:(lia) ltac:(rewrite E1; lia)) as F.
        unfold fd in F. rewrite E1 in F. exact F.
      + pose proof (sc_strict (q - 1) p ltac:(lia) ltac:(lia) ltac:(lia) ltac:(rewrite E2; lia)) as F.
        unfold fd in F. rewrite E2 in F. exact F.
  Qed.

  (* the edge arriving at p (from pp, with nx pp = p) turns away from q's leaving edge *)
  Lemma A1 pp : (pp < n)%nat -> nx pp = p -> pp <> q -> nx q <> p -> Dm pp q < 0.
  Proof.
    intros Lpp Epp Npq Nqp. unfold Dm, ev. rewrite Epp.
    apply (diameter_antipodal_1 sg (P p) (P q) (P pp) (P (nx q)) Sg).
    - apply P_inj; lia.
    - apply P_inj; try lia. intro E. subst pp. apply (nx_neq p); [lia|exact Epp].
    - apply P_inj; [apply nx_lt; lia|lia|apply nx_neq; lia].
    - apply Far; lia.
    - apply Far; [lia|apply nx_lt; lia].
    - pose proof (sc_strict pp q Lpp ltac:(lia) ltac:(lia) ltac:(rewrite Epp; lia)) as F.
      unfold fd in F. rewrite Epp in F. exact F.
    - pose proof (sc_strict q p ltac:(lia) ltac:(lia) ltac:(lia) ltac:(intro E; apply Nqp; symmetry; exact E)) as F.
      unfold fd in F. exact F.
  Qed.

  (* row p: the antipode keeps advancing until q *)
  Lemma row a : (p < a < q)%nat -> 0 <= Dm p a.
  Proof.
    intros Ha. destruct (Z_lt_le_dec (Dm p a) 0) as [Neg|OK]; [exfalso|exact OK].
    assert (E1 : nx p = S p) by (apply nx_S; lia).
    destruct (NV_chain p a (q - 1 - a) ltac:(lia) ltac:(lia)) as [Le St]; [|lia|].
    - intros t Ht. rewrite E1. lia.
    - replace (a + (q - 1 - a))%nat with (q - 1)%nat in * by lia. pose proof A2.
      destruct (Nat.eq_dec (q - 1 - a) 0) as [Z0|NZ]; [replace (q - 1)%nat with a in * by lia; lia|].
      specialize (St NZ). lia.
  Qed.

  (* column q: above row p the vertex keeps advancing *)
  Lemma column v : (v < p)%nat -> Dm v q < 0.
  Proof.
    intro Hv. rewrite Dm_antisym.
    assert (0 < Dm q v); [|lia].
    destruct (Z_lt_le_dec 0 (Dm q v)) as [OK|Bad]; [exact OK|exfalso].
    assert (Epp : nx (p - 1) = p) by (rewrite nx_S by lia; lia).
    assert (Nq : nx q <> p) by (unfold nx, nxt; destruct (S q =? n)%nat; lia).
    pose proof (A1 (p - 1)%nat ltac:(lia) Epp ltac:(lia) Nq) as Ap. rewrite Dm_antisym in Ap.
    destruct (NV_chain q v (p - 1 - v) ltac:(lia) ltac:(lia)) as [Le St]; [|exact Bad|].
    - intros t Ht. split; [lia|]. unfold nx, nxt. destruct (S q =? n)%nat; lia.
    - replace (v + (p - 1 - v))%nat with (p - 1)%nat in * by lia. lia.
  Qed.
End Path.
