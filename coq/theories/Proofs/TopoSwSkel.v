(* C05: the 512-pattern sweep on the REGENERATED skeletonize removal table: every pattern the
   table deletes (centre set, table value 0) is (8,4)-simple. *)
From Coq Require Import ZArith NArith List Bool.
From Centro Require Import Base.Topo Base.Skel Base.TopoPar Base.TopoSweep Gen.TablesC05.

Lemma skel_tab_simple : table_deletes_only_simple (keepN skel_tab) = true.
Proof. vm_compute. reflexivity. Qed.
