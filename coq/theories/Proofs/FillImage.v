(* C08 — from images to region graphs: for every rectangular non-negative label image and every
   numbering of the 4-connected background components, the arrays the wrapper builds (region
   numbers, border list, edge list after lexsort/dedupe/symmetrise, bincount + fwd_idx) satisfy
   the hypotheses of the graph theorems; hence fill_labeled_holes_correct. *)
From Coq Require Import ZArith List Bool Lia ZifyBool Sorting.Sorted.
From Centro Require Import Base.FillZMap Base.FillSort Model.FillHoles Spec.FillHoles
  Proofs.FillWalk1 Proofs.FillWalk2 Proofs.FillGraph Proofs.FillFuel Proofs.FillLists Proofs.FillRagged.
Import ListNotations.
Open Scope Z_scope.

Lemma max_fold_ge l : forall a, a <= fold_left Z.max l a /\ forall v, In v l -> v <= fold_left Z.max l a.
Proof.
  induction l as [|x l IH]; intros a; cbn [fold_left]; [split; [lia|intros v []]|].
  destruct (IH (Z.max a x)) as [A B]. split; [lia|]. intros v [<-|Hv]; [lia|auto].
Qed.

Lemma concat_length_rect {A} (rows : list (list A)) W : Forall (fun r => length r = W) rows ->
  length (concat rows) = (length rows * W)%nat.
Proof. induction 1 as [|r rows E F IH]; [reflexivity|]. cbn [concat length]. rewrite app_length, IH, E. lia. Qed.

Lemma sumw_as_fold adj l : sumw adj l = fold_right (fun v a => (S (S (length (adj v))) + a)%nat) O l.
Proof. induction l as [|a l IH]; [apply sumw_nil|]. rewrite sumw_cons, IH. reflexivity. Qed.

Lemma zseq_nodup n : forall lo, NoDup (zseq lo n).
Proof. induction n as [|k IH]; intros lo; cbn [zseq]; constructor; [intros Hin; apply zseq_In in Hin; lia|apply IH]. Qed.

(* membership in the least rule-closed set is decidable on every finite graph: run the first walk *)
Lemma Unch_dec edges todo0 lcount : NoDup todo0 -> ~ In 0 todo0 -> (forall i j, In (i, j) edges -> j <> 0) ->
  forall v, Unch edges todo0 lcount v \/ ~ Unch edges todo0 lcount v.
Proof.
  intros Nd Nz Hnz v.
  set (adj := adj_of_edges edges). set (nodes := nodup Z.eq_dec (todo0 ++ map snd edges)).
  assert (Hadj : forall i j, In j (adj i) <-> In (i, j) edges) by apply adj_of_edges_spec.
  assert (Hnz' : forall i j, In j (adj i) -> j <> 0) by (intros i j Hj; apply (Hnz i j), Hadj, Hj).
  assert (F : finished1 (run1 adj lcount (sumw adj nodes) (init1 todo0)) = true).
  { apply (walk1_terminates adj lcount nodes); auto.
    - apply NoDup_nodup.
    - intros i j _ Hj. apply nodup_In. apply in_or_app. right. apply in_map_iff. exists (i, j). split; [reflexivity|apply Hadj; auto].
    - intros x Hx. apply nodup_In. apply in_or_app. left; auto. }
  pose proof (walk1_lfp adj edges lcount todo0 Hadj Nz Hnz' (sumw adj nodes) Nd F v) as L.
  destruct (getb (w_nh (run1 adj lcount (sumw adj nodes) (init1 todo0))) v) eqn:E.
  - left. apply L. reflexivity.
  - right. intros Uv. apply L in Uv. congruence.
Qed.

Section Image.
Variable rows : list (list Z).
Variable bl : zmap Z.
Variable count : Z.

Let H := length rows.
Let W := length (hd [] rows).
Let vals := concat rows.
Let pix := zload vals 0 zempty.
Let npix := length vals.
Let lcount := fold_left Z.max vals 0.
Let lab := fold_left (fun m p => if getz bl p =? 0 then m else zset m p (getz bl p + lcount + 1)) (zseq 0 npix) pix.
Let n := Z.to_nat (lmax_of lcount count + 1).
Let todo0 := todo_of (border_vals H W lab).
Let raw := filter (fun p : Z * Z => negb (fst p =? snd p)) (raw_pairs H W lab).
Let e := sym_edges raw.
Let Wz := Z.of_nat W.
Let Hz := Z.of_nat H.

Hypothesis Hrect : Forall (fun r => length r = W) rows.
Hypothesis Hnonneg : Forall (fun v => 0 <= v) vals.
Hypothesis HWpos : (0 < W)%nat.
Hypothesis HHpos : (0 < H)%nat.
(* scipy.ndimage.label(labels == 0, four_connect): a numbering of the 4-connected components *)
Hypothesis L_bg : forall p, 0 <= p < Z.of_nat npix -> (getz bl p <> 0 <-> getz pix p = 0).
Hypothesis L_range : forall p, 0 <= p < Z.of_nat npix -> 0 <= getz bl p <= count.
Hypothesis L_vert : forall r c, 0 <= r < Hz - 1 -> 0 <= c < Wz ->
  getz pix (r * Wz + c) = 0 -> getz pix ((r + 1) * Wz + c) = 0 -> getz bl (r * Wz + c) = getz bl ((r + 1) * Wz + c).
Hypothesis L_horiz : forall r c, 0 <= r < Hz -> 0 <= c < Wz - 1 ->
  getz pix (r * Wz + c) = 0 -> getz pix (r * Wz + c + 1) = 0 -> getz bl (r * Wz + c) = getz bl (r * Wz + c + 1).

Lemma npix_eq : Z.of_nat npix = Hz * Wz.
Proof. unfold npix, vals. rewrite (concat_length_rect rows W Hrect). unfold Hz, Wz, H. lia. Qed.

Lemma pix_in_range r c : 0 <= r < Hz -> 0 <= c < Wz -> 0 <= r * Wz + c < Z.of_nat npix.
Proof. intros Hr Hc. rewrite npix_eq. nia. Qed.

Lemma pix_bounds p : 0 <= p < Z.of_nat npix -> 0 <= getz pix p <= lcount.
Proof.
  intros Hp. unfold pix. rewrite zload_spec, getz_empty.
  destruct ((0 <=? p) && (p <? 0 + Z.of_nat (length vals))) eqn:B; [|unfold npix in Hp; lia].
  assert (Hin : In (nth (Z.to_nat (p - 0)) vals 0) vals) by (apply nth_In; unfold npix in Hp; lia).
  split; [rewrite Forall_forall in Hnonneg; apply Hnonneg; exact Hin|].
  unfold lcount. apply (proj2 (max_fold_ge vals 0)). exact Hin.
Qed.

Lemma lcount_nonneg : 0 <= lcount.
Proof. unfold lcount. apply (proj1 (max_fold_ge vals 0)). Qed.

Lemma lab_fold l : forall m p,
  getz (fold_left (fun m p => if getz bl p =? 0 then m else zset m p (getz bl p + lcount + 1)) l m) p =
  if existsb (Z.eqb p) l && negb (getz bl p =? 0) then getz bl p + lcount + 1 else getz m p.
Proof.
  induction l as [|a l IH]; intros m p; cbn [fold_left existsb]; [reflexivity|]. rewrite IH.
  destruct (Z.eq_dec p a) as [->|N].
  - rewrite Z.eqb_refl. cbn [orb]. destruct (getz bl a =? 0) eqn:B; cbn [negb andb].
    + rewrite andb_false_r. reflexivity.
    + rewrite getz_set_same. destruct (existsb (Z.eqb a) l); reflexivity.
  - assert (E : (p =? a) = false) by lia. rewrite E. cbn [orb].
    destruct (getz bl a =? 0); [reflexivity|]. rewrite getz_set_other by auto. reflexivity.
Qed.

Lemma lab_spec p : 0 <= p < Z.of_nat npix ->
  getz lab p = if getz bl p =? 0 then getz pix p else getz bl p + lcount + 1.
Proof.
  intros Hp. unfold lab. rewrite lab_fold.
  assert (Ex : existsb (Z.eqb p) (zseq 0 npix) = true).
  { apply existsb_exists. exists p. split; [apply zseq_In; lia|apply Z.eqb_refl]. }
  rewrite Ex. cbn [andb]. destruct (getz bl p =? 0); reflexivity.
Qed.

(* region numbers: objects 1 .. lcount, background lcount + 2 .. lmax *)
Lemma reg_facts p : 0 <= p < Z.of_nat npix ->
  0 < getz lab p < Z.of_nat n /\
  (isobj lcount (getz lab p) = true <-> getz pix p <> 0) /\
  (getz pix p <> 0 -> getz lab p = getz pix p) /\
  (getz pix p = 0 -> getz lab p = getz bl p + lcount + 1).
Proof.
  intros Hp. rewrite (lab_spec p Hp). pose proof (pix_bounds p Hp) as PB. pose proof (L_range p Hp) as LR.
  pose proof (L_bg p Hp) as LB. pose proof lcount_nonneg as LN. unfold n, lmax_of, isobj.
  destruct (getz bl p =? 0) eqn:B.
  - assert (getz pix p <> 0) by (intros E0; apply LB in E0; lia). repeat split; try lia.
  - assert (getz pix p = 0) by (apply LB; lia). repeat split; try lia.
Qed.

Lemma raw_pairs_In a b : In (a, b) (raw_pairs H W lab) <->
  (exists r c, 0 <= r < Hz - 1 /\ 0 <= c < Wz /\ a = getz lab (r * Wz + c) /\ b = getz lab ((r + 1) * Wz + c)) \/
  (exists r c, 0 <= r < Hz /\ 0 <= c < Wz - 1 /\ a = getz lab (r * Wz + c) /\ b = getz lab (r * Wz + c + 1)).
Proof.
  unfold raw_pairs. fold Wz. rewrite in_app_iff, !in_flat_map. split.
  - intros [[r [Hr Hin]]|[r [Hr Hin]]]; apply in_map_iff in Hin as [c [E Hc]]; apply zseq_In in Hr; apply zseq_In in Hc;
      inversion E; subst a b; [left|right]; exists r, c; unfold Hz, Wz.
    + split; [lia|]. split; [lia|]. split; reflexivity.
    + split; [lia|]. split; [lia|]. split; reflexivity.
  - intros [[r [c [Hr [Hc [-> ->]]]]]|[r [c [Hr [Hc [-> ->]]]]]]; [left|right]; exists r.
    + split; [apply zseq_In; unfold Hz in Hr; lia|]. apply in_map_iff. exists c.
      split; [reflexivity|apply zseq_In; unfold Wz in Hc; lia].
    + split; [apply zseq_In; unfold Hz in Hr; lia|]. apply in_map_iff. exists c.
      split; [reflexivity|apply zseq_In; unfold Wz in Hc; lia].
Qed.

(* an edge joins the regions of two 4-adjacent pixels *)
Lemma edge_pixels a b : In (a, b) e ->
  a <> b /\ exists p q, 0 <= p < Z.of_nat npix /\ 0 <= q < Z.of_nat npix /\ a = getz lab p /\ b = getz lab q /\
    (getz pix p = 0 -> getz pix q = 0 -> getz bl p = getz bl q).
Proof.
  intros Hin. unfold e in Hin. apply sym_edges_In in Hin.
  assert (G : forall a b, In (a, b) raw -> a <> b /\ exists p q, 0 <= p < Z.of_nat npix /\ 0 <= q < Z.of_nat npix /\
              a = getz lab p /\ b = getz lab q /\ (getz pix p = 0 -> getz pix q = 0 -> getz bl p = getz bl q)).
  { intros x y Hxy. unfold raw in Hxy. apply filter_In in Hxy as [Hxy Ne]. cbn [fst snd] in Ne. split; [lia|].
    apply raw_pairs_In in Hxy as [[r [c [Hr [Hc [-> ->]]]]]|[r [c [Hr [Hc [-> ->]]]]]].
    - exists (r * Wz + c), ((r + 1) * Wz + c). split; [apply pix_in_range; lia|]. split; [apply pix_in_range; lia|].
      split; [reflexivity|]. split; [reflexivity|]. apply L_vert; lia.
    - exists (r * Wz + c), (r * Wz + c + 1). split; [apply pix_in_range; lia|].
      split; [replace (r * Wz + c + 1) with (r * Wz + (c + 1)) by lia; apply pix_in_range; lia|].
      split; [reflexivity|]. split; [reflexivity|]. apply L_horiz; lia. }
  destruct Hin as [Hin|Hin].
  - apply G; auto.
  - destruct (G b a Hin) as [Ne [p [q [Hp [Hq [Ea [Eb Hbl]]]]]]]. split; [auto|]. exists q, p.
    repeat split; auto; try lia; intros A B; symmetry; apply Hbl; auto.
Qed.

Lemma edges_range a b : In (a, b) e -> 0 < a < Z.of_nat n /\ 0 < b < Z.of_nat n.
Proof.
  intros Hin. destruct (edge_pixels a b Hin) as [_ [p [q [Hp [Hq [-> [-> _]]]]]]].
  split; [apply (reg_facts p Hp)|apply (reg_facts q Hq)].
Qed.

Lemma edges_sym : symmetric e.
Proof. intros i j Hin. unfold e in *. apply sym_edges_In in Hin. apply sym_edges_In. tauto. Qed.

Lemma edges_no_bg_bg : no_bg_bg e lcount.
Proof.
  intros a b Hin Oa. destruct (edge_pixels a b Hin) as [Ne [p [q [Hp [Hq [Ea [Eb Hbl]]]]]]].
  destruct (reg_facts p Hp) as [_ [Op [_ Bp]]]. destruct (reg_facts q Hq) as [_ [Oq [_ Bq]]].
  destruct (isobj lcount b) eqn:Ob; [reflexivity|]. exfalso.
  assert (Pp : getz pix p = 0). { destruct (Z.eq_dec (getz pix p) 0); [auto|]. rewrite <- Ea in Op. apply Op in n0. congruence. }
  assert (Pq : getz pix q = 0). { destruct (Z.eq_dec (getz pix q) 0); [auto|]. rewrite <- Eb in Oq. apply Oq in n0. congruence. }
  apply Ne. rewrite Ea, Eb, (Bp Pp), (Bq Pq), (Hbl Pp Pq). reflexivity.
Qed.

Lemma todo0_In v : In v todo0 <-> v <> 0 /\ In v (border_vals H W lab).
Proof. apply todo_of_In. Qed.

(* every pixel's region is connected to the border through the row it lies in *)
Lemma pixel_conn r : 0 <= r < Hz -> forall k : nat, Z.of_nat k < Wz -> Conn e todo0 (getz lab (r * Wz + Z.of_nat k)).
Proof.
  intros Hr. induction k as [|k IH]; intros Hk.
  - apply Conn_border. apply todo0_In. split.
    + assert (Hp := pix_in_range r 0 Hr ltac:(lia)). destruct (reg_facts _ Hp) as [A _]. cbn [Z.of_nat]. lia.
    + unfold border_vals. fold Wz. apply in_or_app; right. apply in_or_app; left. apply in_map_iff. exists r.
      split; [f_equal; cbn [Z.of_nat]; lia|apply zseq_In; unfold Hz in Hr; lia].
  - assert (IH' := IH ltac:(lia)).
    destruct (Z.eq_dec (getz lab (r * Wz + Z.of_nat k)) (getz lab (r * Wz + Z.of_nat (S k)))) as [E|N]; [rewrite <- E; exact IH'|].
    apply (Conn_step e todo0 _ _ IH'). unfold e. apply sym_edges_In. left. unfold raw. apply filter_In. split.
    + apply raw_pairs_In. right. exists r, (Z.of_nat k). split; [lia|]. split; [lia|]. split; [reflexivity|f_equal; lia].
    + cbn [fst snd]. lia.
Qed.

Lemma pixel_conn_all p : 0 <= p < Z.of_nat npix -> Conn e todo0 (getz lab p).
Proof.
  intros Hp. rewrite npix_eq in Hp. assert (Wp : 0 < Wz) by (unfold Wz; lia).
  replace p with ((p / Wz) * Wz + Z.of_nat (Z.to_nat (p mod Wz))).
  - apply pixel_conn.
    + split; [apply Z.div_pos; lia|apply Z.div_lt_upper_bound; lia].
    + pose proof (Z.mod_pos_bound p Wz Wp). lia.
  - pose proof (Z.mod_pos_bound p Wz Wp). pose proof (Z.div_mod p Wz ltac:(lia)). lia.
Qed.

Lemma e_sorted : StronglySorted plt e.
Proof. apply sym_edges_sorted. Qed.

Lemma e_fst_range x : In x e -> 0 <= fst x < Z.of_nat n.
Proof. destruct x as [a b]. intros Hin. destruct (edges_range a b Hin). cbn [fst]. lia. Qed.

Lemma todo0_range v : In v todo0 -> 0 < v < Z.of_nat n.
Proof.
  intros Hv. apply todo0_In in Hv as [Nz Hv]. unfold border_vals in Hv. fold Wz Hz in Hv.
  assert (G : forall p, 0 <= p < Z.of_nat npix -> v = getz lab p -> 0 < v < Z.of_nat n).
  { intros p Hp ->. apply (reg_facts p Hp). }
  repeat (apply in_app_or in Hv as [Hv|Hv]); apply in_map_iff in Hv as [x [E Hx]]; apply zseq_In in Hx; symmetry in E.
  - apply (G x); [|exact E]. replace x with (0 * Wz + x) by lia. apply pix_in_range; unfold Hz, Wz; lia.
  - apply (G (x * Wz)); [|exact E]. replace (x * Wz) with (x * Wz + 0) by lia. apply pix_in_range; unfold Hz, Wz; lia.
  - apply (G ((Hz - 1) * Wz + x)); [|exact E]. apply pix_in_range; unfold Hz, Wz; lia.
  - apply (G (x * Wz + Wz - 1)); [|exact E]. replace (x * Wz + Wz - 1) with (x * Wz + (Wz - 1)) by lia.
    apply pix_in_range; unfold Hz, Wz; lia.
Qed.

(* ---------------------------------------------------------------- the theorem *)
Definition image_graph_edges := e.
Definition image_graph_border := todo0.
Definition image_regions := lab.
Definition image_lcount := lcount.

Theorem fill_labeled_holes_correct :
  let res := fill_core rows bl count in
  f_ok res = true /\
  exists g, f_out res = grid_of H W g /\
    forall p, 0 <= p < Z.of_nat npix -> paint_ok e todo0 lcount (getz lab p) (g p).
Proof.
  assert (Core : fill_core rows bl count =
    match raw with
    | [] => mkF (grid_of H W (fun p => new_index lcount (w_nh (init1 todo0)) zempty (getz lab p)))
                (grid_of H W (getz bl)) count false [] [] [] [] [] [] lcount true
    | _ :: _ =>
        let jarr := zload (map snd e) 0 zempty in
        let cnt := bincount (map fst e) in
        let idx := fwd_idx cnt n in
        let adj := adj_of jarr idx cnt in
        let fuel := (length e + 2 * n + 2)%nat in
        let s1 := run1 adj lcount fuel (init1 todo0) in
        let s2 := run2 adj fuel (w_nh s1) (init2 n (w_nh s1) (w_anh s1)) in
        mkF (grid_of H W (fun p => new_index lcount (w_nh s1) (v_anh s2) (getz lab p))) (grid_of H W (getz bl)) count true
            (map fst e) (map snd e) (map (getz idx) (zseq 0 n)) (map (getz cnt) (zseq 0 n))
            (map (getb (w_nh s1)) (zseq 0 n)) (map (getz (v_anh s2)) (zseq 0 n)) lcount
            (finished1 s1 && finished2 s2)
    end) by reflexivity.
  cbv zeta. rewrite Core. clear Core.
  assert (Case : raw = [] \/ exists x0 raw', raw = x0 :: raw') by (destruct raw; eauto).
  destruct Case as [Raw|[x0 [raw' Raw]]]; rewrite Raw.
  - (* a single region *)
    cbn [f_ok f_out]. split; [reflexivity|]. eexists. split; [reflexivity|]. intros p Hp. cbv beta.
    assert (E0 : e = []) by (unfold e; rewrite Raw; reflexivity).
    assert (Cv := pixel_conn_all p Hp). rewrite E0 in *.
    assert (Tv : In (getz lab p) todo0) by (inversion Cv as [v Hv|u v _ Hin]; [exact Hv|destruct Hin]).
    split.
    + intros _. unfold new_index, init1. cbn [w_nh].
      assert (G : getb (fold_left (fun m v => zset m v true) todo0 zempty) (getz lab p) = true) by (apply fold_set_true_in; left; exact Tv).
      rewrite G. reflexivity.
    + intros N. exfalso. apply N. apply Unch_border. exact Tv.
  - cbv zeta.
    set (jarr := zload (map snd e) 0 zempty). set (cnt := bincount (map fst e)). set (idx := fwd_idx cnt n).
    set (adj := adj_of jarr idx cnt). set (fuel := (length e + 2 * n + 2)%nat).
    assert (Hadj : forall i j, In j (adj i) <-> In (i, j) e) by (apply (adj_of_spec e n e_sorted e_fst_range)).
    assert (Hnodes_nd : NoDup (zseq 0 n)) by apply zseq_nodup.
    assert (Hclosed : forall i j, In i (zseq 0 n) -> In j (adj i) -> In j (zseq 0 n)).
    { intros i j _ Hj. apply Hadj in Hj. destruct (edges_range i j Hj). apply zseq_In. lia. }
    assert (Hfuel : (sumw adj (zseq 0 n) <= fuel)%nat).
    { rewrite sumw_as_fold.
      assert (G : forall l, fold_right (fun v a => (S (S (length (adj v))) + a)%nat) O l =
                            (fold_right (fun v a => (neq v e + a)%nat) O l + 2 * length l)%nat).
      { induction l as [|a l IH]; [reflexivity|]. cbn [fold_right length]. rewrite IH. unfold adj, jarr, idx, cnt.
        rewrite (adj_of_length e n a). lia. }
      rewrite G, (degree_sum_all e n e_fst_range), zseq_length. unfold fuel. lia. }
    assert (Htodo_nodes : forall v, In v todo0 -> In v (zseq 0 n)).
    { intros v Hv. apply todo0_range in Hv. apply zseq_In. lia. }
    assert (F1 : finished1 (run1 adj lcount fuel (init1 todo0)) = true).
    { apply (walk1_terminates adj lcount (zseq 0 n) Hnodes_nd Hclosed todo0 fuel); auto. apply todo_of_nodup. }
    set (s1 := run1 adj lcount fuel (init1 todo0)) in *.
    assert (F2 : finished2 (run2 adj fuel (w_nh s1) (init2 n (w_nh s1) (w_anh s1))) = true).
    { apply (walk2_terminates adj (zseq 0 n) Hnodes_nd Hclosed (w_nh s1) (w_anh s1) n fuel); auto. }
    cbn [f_ok f_out]. split; [rewrite F1, F2; reflexivity|]. eexists. split; [reflexivity|]. intros p Hp. cbv beta.
    apply (fill_graph_correct adj e lcount todo0 n Hadj).
    + intros H0. apply todo0_In in H0. lia.
    + intros i j Hij. destruct (edges_range i j Hij). lia.
    + apply todo_of_nodup.
    + exact edges_sym.
    + exact edges_no_bg_bg.
    + intros i j Hij. destruct (edges_range i j Hij). lia.
    + exact F1.
    + exact F2.
    + apply pixel_conn_all. exact Hp.
Qed.


Lemma pixel_edge p q : adj4 Hz Wz p q -> getz lab p <> getz lab q -> In (getz lab p, getz lab q) e.
Proof.
  intros A N. unfold e. apply sym_edges_In.
  assert (G : forall a b, In (a, b) (raw_pairs H W lab) -> a <> b -> In (a, b) raw).
  { intros a b Hin Ne. unfold raw. apply filter_In. split; [exact Hin|]. cbn [fst snd]. lia. }
  destruct A as [r [c [[Hr [Hc [[-> ->]|[-> ->]]]]|[Hr [Hc [[-> ->]|[-> ->]]]]]]].
  - left. apply G; [|exact N]. apply raw_pairs_In. left. exists r, c. auto.
  - right. apply G; [|auto]. apply raw_pairs_In. left. exists r, c. auto.
  - left. apply G; [|exact N]. apply raw_pairs_In. right. exists r, c. auto.
  - right. apply G; [|auto]. apply raw_pairs_In. right. exists r, c. auto.
Qed.

Lemma edge_ne a b : In (a, b) e -> a <> b.
Proof.
  intros Hin. unfold e in Hin. apply sym_edges_In in Hin. unfold raw in Hin.
  destruct Hin as [Hin|Hin]; apply filter_In in Hin as [_ Ne]; cbn [fst snd] in Ne; lia.
Qed.

Lemma edge_adj4 a b : In (a, b) e -> exists p q, adj4 Hz Wz p q /\ getz lab p = a /\ getz lab q = b.
Proof.
  intros Hin. unfold e in Hin. apply sym_edges_In in Hin.
  assert (G : forall a b, In (a, b) raw -> exists p q, adj4 Hz Wz p q /\ getz lab p = a /\ getz lab q = b).
  { intros x y Hxy. unfold raw in Hxy. apply filter_In in Hxy as [Hxy _].
    apply raw_pairs_In in Hxy as [[r [c [Hr [Hc [-> ->]]]]]|[r [c [Hr [Hc [-> ->]]]]]].
    - exists (r * Wz + c), ((r + 1) * Wz + c). split; [exists r, c; left; auto|auto].
    - exists (r * Wz + c), (r * Wz + c + 1). split; [exists r, c; right; auto|auto]. }
  destruct Hin as [Hin|Hin]; [apply G; exact Hin|].
  destruct (G b a Hin) as [p [q [A [E1 E2]]]]. exists q, p. split; [|auto].
  destruct A as [r [c [[Hr [Hc [X|X]]]|[Hr [Hc [X|X]]]]]]; exists r, c; [left|left|right|right]; repeat split; auto; try lia.
Qed.

(* ---------------------------------------------------------------- binary images *)
Lemma unch_pos v : Unch e todo0 lcount v -> 0 < v.
Proof.
  intros Uv. destruct Uv as [v Hb|i j _ _ Hj _|i1 i2 j _ _ _ _ _ Hj _].
  - apply todo0_range in Hb. lia.
  - destruct (edges_range i j Hj). lia.
  - destruct (edges_range i1 j Hj). lia.
Qed.

Lemma decide_unch v : Unch e todo0 lcount v \/ ~ Unch e todo0 lcount v.
Proof.
  apply Unch_dec.
  - apply todo_of_nodup.
  - intros H0. apply todo0_In in H0. lia.
  - intros i j Hij. destruct (edges_range i j Hij). lia.
Qed.

Hypothesis Hbinary : lcount <= 1.

(* with a single object label rule R3 never fires: an unchanged background region touches the border *)
Lemma binary_unch_bg v : Unch e todo0 lcount v -> isobj lcount v = false -> In v todo0.
Proof.
  intros Uv Ov. destruct Uv as [v Hb|i j _ _ _ Oj|i1 i2 j U1 U2 O1 O2 Ne _ _]; [exact Hb|congruence|].
  exfalso. apply unch_pos in U1. apply unch_pos in U2. unfold isobj in O1, O2. lia.
Qed.

Lemma adj4_same_region p q : adj4 Hz Wz p q -> getz pix p = 0 -> getz pix q = 0 -> getz bl p = getz bl q.
Proof.
  intros [r [c [[Hr [Hc [[-> ->]|[-> ->]]]]|[Hr [Hc [[-> ->]|[-> ->]]]]]]] Pp Pq.
  - apply L_vert; auto.
  - symmetry. apply L_vert; auto.
  - apply L_horiz; auto.
  - symmetry. apply L_horiz; auto.
Qed.

Lemma adj4_in_range p q : adj4 Hz Wz p q -> 0 <= p < Z.of_nat npix /\ 0 <= q < Z.of_nat npix.
Proof.
  intros [r [c [[Hr [Hc [[-> ->]|[-> ->]]]]|[Hr [Hc [[-> ->]|[-> ->]]]]]]]; split;
    try (apply pix_in_range; lia); replace (r * Wz + c + 1) with (r * Wz + (c + 1)) by lia; apply pix_in_range; lia.
Qed.

Lemma border_pixel_region p : on_border Hz Wz p -> In (getz lab p) todo0.
Proof.
  intros [r [c [-> [Hr [Hc Hb]]]]]. apply todo0_In. split.
  - destruct (reg_facts _ (pix_in_range r c Hr Hc)) as [A _]. lia.
  - unfold border_vals. fold Wz Hz. destruct Hb as [-> | [-> | [-> | ->]]].
    + apply in_or_app; left. apply in_map_iff. exists c. split; [f_equal; lia|apply zseq_In; unfold Wz in Hc; lia].
    + apply in_or_app; right. apply in_or_app; right. apply in_or_app; left. apply in_map_iff. exists c.
      split; [reflexivity|apply zseq_In; unfold Wz in Hc; lia].
    + apply in_or_app; right. apply in_or_app; left. apply in_map_iff. exists r.
      split; [f_equal; lia|apply zseq_In; unfold Hz in Hr; lia].
    + apply in_or_app; right. apply in_or_app; right. apply in_or_app; right. apply in_map_iff. exists r.
      split; [f_equal; lia|apply zseq_In; unfold Hz in Hr; lia].
Qed.

Lemma border_region_pixel v : In v todo0 -> exists q, on_border Hz Wz q /\ v = getz lab q.
Proof.
  intros Hv. apply todo0_In in Hv as [_ Hv]. unfold border_vals in Hv. fold Wz Hz in Hv.
  assert (Wp : 0 < Wz) by (unfold Wz; lia). assert (Hp : 0 < Hz) by (unfold Hz; lia).
  repeat (apply in_app_or in Hv as [Hv|Hv]); apply in_map_iff in Hv as [x [E Hx]]; apply zseq_In in Hx; symmetry in E.
  - exists (0 * Wz + x). split; [exists 0, x; unfold Wz; repeat split; lia|rewrite E; f_equal; lia].
  - exists (x * Wz + 0). split; [exists x, 0; unfold Hz; repeat split; lia|rewrite E; f_equal; lia].
  - exists ((Hz - 1) * Wz + x). split; [exists (Hz - 1), x; unfold Wz; repeat split; lia|exact E].
  - exists (x * Wz + (Wz - 1)). split; [exists x, (Wz - 1); unfold Hz; repeat split; lia|rewrite E; f_equal; lia].
Qed.

Lemma on_border_in_range q : on_border Hz Wz q -> 0 <= q < Z.of_nat npix.
Proof. intros [r [c [-> [Hr [Hc _]]]]]. apply pix_in_range; auto. Qed.

Lemma unch_has_pixel v : Unch e todo0 lcount v -> exists p, 0 <= p < Z.of_nat npix /\ getz lab p = v.
Proof.
  intros Uv. destruct Uv as [v Hb|i j _ _ Hj _|i1 i2 j _ _ _ _ _ Hj _].
  - destruct (border_region_pixel v Hb) as [q [Bq Eq]]. exists q. split; [apply on_border_in_range; exact Bq|auto].
  - destruct (edge_adj4 i j Hj) as [p [q [A [_ E]]]]. exists q. split; [apply (adj4_in_range p q A)|exact E].
  - destruct (edge_adj4 i1 j Hj) as [p [q [A [_ E]]]]. exists q. split; [apply (adj4_in_range p q A)|exact E].
Qed.

Lemma bgpath_same_region p q : getz pix p = 0 -> 0 <= p < Z.of_nat npix -> BgPath rows p q ->
  getz pix q = 0 /\ 0 <= q < Z.of_nat npix /\ getz lab q = getz lab p.
Proof.
  intros Pp Rp Path. induction Path as [|q s Path IH A Ps]; [auto|].
  destruct IH as [Pq [Rq Eq]]. fold Hz Wz in A. destruct (adj4_in_range q s A) as [_ Rs].
  split; [exact Ps|]. split; [exact Rs|]. rewrite <- Eq.
  destruct (reg_facts q Rq) as [_ [_ [_ Bq]]]. destruct (reg_facts s Rs) as [_ [_ [_ Bs]]].
  rewrite (Bq Pq), (Bs Ps), (adj4_same_region q s A Pq Ps). reflexivity.
Qed.

Hypothesis L_sep : components_separate rows bl.

Lemma outside_iff_border p : 0 <= p < Z.of_nat npix -> getz pix p = 0 -> (In (getz lab p) todo0 <-> Outside rows p).
Proof.
  intros Rp Pp. split.
  - intros Hb. destruct (border_region_pixel _ Hb) as [q [Bq Eq]]. pose proof (on_border_in_range q Bq) as Rq.
    destruct (reg_facts p Rp) as [_ [Op [_ Bp]]]. destruct (reg_facts q Rq) as [_ [Oq [Fq Bq']]].
    assert (Pq : getz pix q = 0).
    { destruct (Z.eq_dec (getz pix q) 0) as [|N]; [auto|]. exfalso. pose proof (proj2 Oq N) as O1. rewrite <- Eq in O1.
      apply Op in O1. contradiction. }
    exists q. split; [exact Bq|]. split; [exact Pq|]. apply L_sep; auto.
    + rewrite (Bp Pp), (Bq' Pq) in Eq. lia.
    + apply L_bg; auto.
  - intros [q [Bq [Pq Path]]]. pose proof (on_border_in_range q Bq) as Rq.
    destruct (bgpath_same_region q p Pq Rq Path) as [_ [_ E]]. rewrite E. apply border_pixel_region. exact Bq.
Qed.

(* binary input: the model's output is ordinary 4-connected hole filling *)
Theorem binary_agrees_with_fill_sec (g : Z -> Z) :
  (forall p, 0 <= p < Z.of_nat npix -> paint_ok e todo0 lcount (getz lab p) (g p)) ->
  forall p, 0 <= p < Z.of_nat npix -> (g p <> 0 <-> (getz pix p <> 0 \/ ~ Outside rows p)).
Proof.
  intros Hg p Rp. destruct (Hg p Rp) as [A B]. destruct (reg_facts p Rp) as [Pos [Op [Fp Bp]]].
  assert (ParentPos : forall k, Parent e todo0 lcount (getz lab p) k -> k <> 0).
  { intros k [Uk _]. apply unch_pos in Uk. lia. }
  destruct (Z.eq_dec (getz pix p) 0) as [P0|P1].
  - assert (Ov : isobj lcount (getz lab p) = false).
    { destruct (isobj lcount (getz lab p)) eqn:O; [|reflexivity]. exfalso. exact (proj1 Op eq_refl P0). }
    destruct (decide_unch (getz lab p)) as [Uv|Nv].
    + rewrite (A Uv), Ov. split; [intros N; contradiction|].
      intros [N|N]; [contradiction|]. exfalso. apply N. apply outside_iff_border; auto. apply binary_unch_bg; auto.
    + split; [|intros _; apply ParentPos, B, Nv]. intros _. right. intros Out. apply Nv. apply Unch_border.
      apply outside_iff_border; auto.
  - split; [intros _; left; exact P1|]. intros _.
    destruct (decide_unch (getz lab p)) as [Uv|Nv].
    + rewrite (A Uv). rewrite (proj2 Op P1). lia.
    + apply ParentPos, B, Nv.
Qed.

End Image.

(* ---------------------------------------------------------------- closed statements *)

Theorem fill_labeled_holes_correct_img rows bl count :
  rect_nonneg rows -> valid_labelling rows bl count ->
  let res := fill_core rows bl count in
  f_ok res = true /\
  exists g, f_out res = grid_of (length rows) (length (hd [] rows)) g /\
    forall p, 0 <= p < Z.of_nat (length (concat rows)) ->
      paint_ok (img_edges rows bl) (img_border rows bl) (img_lcount rows) (getz (img_regions rows bl) p) (g p).
Proof.
  intros [Hr [Hn [Hw Hh]]] [A B C D].
  exact (fill_labeled_holes_correct rows bl count Hr Hn Hw Hh A B C D).
Qed.

Theorem binary_agrees_with_fill rows bl count :
  rect_nonneg rows -> valid_labelling rows bl count -> components_separate rows bl ->
  Forall (fun v => v = 0 \/ v = 1) (concat rows) ->
  exists g, f_out (fill_core rows bl count) = grid_of (length rows) (length (hd [] rows)) g /\
    forall p, 0 <= p < Z.of_nat (length (concat rows)) -> (g p <> 0 <-> (pixv rows p <> 0 \/ ~ Outside rows p)).
Proof.
  intros Hrn Hvl Hsep Hbin.
  destruct (fill_labeled_holes_correct_img rows bl count Hrn Hvl) as [_ [g [Eg Hg]]].
  exists g. split; [exact Eg|]. destruct Hrn as [Hr [Hn [Hw Hh]]]. destruct Hvl as [A B C D].
  assert (Hb : fold_left Z.max (concat rows) 0 <= 1).
  { assert (G : forall l a, a <= 1 -> Forall (fun v => v = 0 \/ v = 1) l -> fold_left Z.max l a <= 1).
    { induction l as [|x l IH]; intros a Ha F; cbn [fold_left]; [exact Ha|]. inversion F as [|y z Hx F']; subst.
      apply IH; [lia|exact F']. }
    apply G; [lia|exact Hbin]. }
  exact (binary_agrees_with_fill_sec rows bl count Hr Hn Hw Hh A B C D Hb Hsep g Hg).
Qed.

Lemma labelling_ok_sound rows bl count : labelling_ok_b rows bl count = true -> valid_labelling rows bl count.
Proof.
  unfold labelling_ok_b. cbv zeta. intros Hb. apply andb_prop in Hb as [Hb Hh]. apply andb_prop in Hb as [Hp Hv].
  rewrite forallb_forall in Hp, Hv, Hh. constructor.
  - intros p Hr. specialize (Hp p ltac:(apply zseq_In; lia)).
    destruct (getz bl p =? 0) eqn:E1; destruct (getz (zload (concat rows) 0 zempty) p =? 0) eqn:E2; cbn in Hp; try discriminate; lia.
  - intros p Hr. specialize (Hp p ltac:(apply zseq_In; lia)). lia.
  - intros r c Hr Hc Wz P1 P2. specialize (Hv r ltac:(apply zseq_In; lia)). rewrite forallb_forall in Hv.
    specialize (Hv c ltac:(apply zseq_In; lia)). fold Wz in Hv. rewrite P1, P2 in Hv. cbn in Hv. lia.
  - intros r c Hr Hc Wz P1 P2. specialize (Hh r ltac:(apply zseq_In; lia)). rewrite forallb_forall in Hh.
    specialize (Hh c ltac:(apply zseq_In; lia)). fold Wz in Hh. rewrite P1, P2 in Hh. cbn in Hh. lia.
Qed.

(* fill_labeled_holes with the model's own flood fill as the labelling.  _partial: the missing lemma
   is [label4_valid : rect_nonneg rows -> valid_labelling rows (fst (label4 ..)) (snd (label4 ..))]
   (correctness of the flood fill); its conclusion is tested per input by labelling_ok_b instead. *)
Theorem fill_self_correct_partial rows :
  rect_nonneg rows ->
  let own := label4 (Z.of_nat (length rows)) (Z.of_nat (length (hd [] rows))) (zload (concat rows) 0 zempty) (length (concat rows)) in
  labelling_ok_b rows (fst own) (snd own) = true ->
  let res := fill_self rows in
  f_ok res = true /\
  exists g, f_out res = grid_of (length rows) (length (hd [] rows)) g /\
    forall p, 0 <= p < Z.of_nat (length (concat rows)) ->
      paint_ok (img_edges rows (fst own)) (img_border rows (fst own)) (img_lcount rows) (getz (img_regions rows (fst own)) p) (g p).
Proof.
  intros Hr own Hok. apply (fill_labeled_holes_correct_img rows (fst own) (snd own) Hr). apply labelling_ok_sound. exact Hok.
Qed.

(* Example: the hypotheses hold for the two-parent witness image and for a bullseye *)
Example fill_self_correct_example :
  let rows := [[1;1;2;2];[1;3;0;2];[1;1;2;2]] in
  rect_nonneg rows /\
  labelling_ok_b rows (fst (label4 3 4 (zload (concat rows) 0 zempty) 12)) (snd (label4 3 4 (zload (concat rows) 0 zempty) 12)) = true /\
  f_out (fill_self rows) = [[1;1;2;2];[1;1;2;2];[1;1;2;2]].
Proof.
  cbv zeta. split; [|split; vm_compute; reflexivity].
  unfold rect_nonneg. cbn [hd length concat app]. repeat split; try lia; repeat constructor; lia.
Qed.

(* Example: the hypotheses of binary_agrees_with_fill hold for a ring with a one-pixel hole
   (labelled by the model's own flood fill), and the hole is filled *)
Example binary_agrees_example :
  let rows := [[1;1;1];[1;0;1];[1;1;1]] in
  let own := label4 3 3 (zload (concat rows) 0 zempty) 9 in
  rect_nonneg rows /\ valid_labelling rows (fst own) (snd own) /\ components_separate rows (fst own) /\
  Forall (fun v => v = 0 \/ v = 1) (concat rows) /\ f_out (fill_core rows (fst own) (snd own)) = [[1;1;1];[1;1;1];[1;1;1]].
Proof.
  cbv zeta. split; [|split; [|split; [|split]]].
  - unfold rect_nonneg. cbn [hd length concat app]. repeat split; try lia; repeat constructor; lia.
  - apply labelling_ok_sound. vm_compute. reflexivity.
  - intros p q Hp Hq E N. cbn [concat app length] in Hp, Hq.
    assert (G : forall x, 0 <= x < 9 -> getz (fst (label4 3 3 (zload (concat [[1;1;1];[1;0;1];[1;1;1]]) 0 zempty) 9)) x <> 0 -> x = 4).
    { intros x Hx Nx.
      assert (F : forallb (fun x => (getz (fst (label4 3 3 (zload (concat [[1;1;1];[1;0;1];[1;1;1]]) 0 zempty) 9)) x =? 0) || (x =? 4)) (zseq 0 9) = true)
        by (vm_compute; reflexivity).
      rewrite forallb_forall in F. specialize (F x ltac:(apply zseq_In; lia)). lia. }
    assert (p = 4) by (apply G; [lia|exact N]). assert (q = 4) by (apply G; [lia|rewrite <- E; exact N]).
    subst. constructor.
  - cbn [concat app]. repeat (constructor; [lia|]). constructor.
  - vm_compute. reflexivity.
Qed.
