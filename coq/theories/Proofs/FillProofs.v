(* C14 — soundness of the fill checker: an output accepted by [fill_ok] is, row for row, the set of
   lattice points inside or on some object's polygon, carrying that object's label, each once. *)
From Coq Require Import ZArith List Bool Lia ZifyBool.
From Centro Require Import Base.Sx Model.HullFill Spec.FillSpec.
Import ListNotations.
Open Scope Z_scope.

Lemma zrange_nat_In x n : forall s, In x (zrange_nat s n) <-> s <= x < s + Z.of_nat n.
Proof.
  induction n as [|n IH]; intro s; cbn [zrange_nat In].
  - lia.
  - rewrite IH. lia.
Qed.

Lemma zrange_In x lo hi : In x (zrange lo hi) <-> lo <= x <= hi.
Proof. unfold zrange. rewrite zrange_nat_In. lia. Qed.

Lemma box_points_In h p : in_bbox h p = true -> In p (box_points h).
Proof.
  destruct h as [|a t]; cbn [in_bbox box_points]; [discriminate|].
  intro H. destruct p as [i j]. cbn [fst snd] in H.
  apply in_flat_map. exists i. split.
  - apply zrange_In. lia.
  - apply in_map_iff. exists j. split; [reflexivity|]. apply zrange_In. lia.
Qed.

Lemma fill_enum_In o i j l :
  In (i, j, l) (fill_enum o) <-> l = fst o /\ inside (snd o) (i, j) = true.
Proof.
  unfold fill_enum. rewrite in_map_iff. split.
  - intros [[pi pj] [E F]]. cbn [fst snd] in E. inversion E; subst.
    apply filter_In in F. tauto.
  - intros [E I]. exists (i, j). cbn [fst snd]. split; [subst; reflexivity|].
    apply filter_In. split; [|exact I].
    apply box_points_In. unfold inside in I. apply andb_true_iff in I. tauto.
Qed.

(* the specified list is exactly the specified set *)
Lemma fill_spec_list_In objs i j l :
  In (i, j, l) (fill_spec_list objs) <-> exists H, In (l, H) objs /\ inside H (i, j) = true.
Proof.
  unfold fill_spec_list. rewrite in_flat_map. split.
  - intros [[lo H] [I F]]. apply fill_enum_In in F. cbn [fst snd] in F. destruct F as [E K]. subst.
    exists H. tauto.
  - intros [H [I K]]. exists (l, H). split; [exact I|]. apply fill_enum_In. cbn [fst snd]. tauto.
Qed.

Lemma row_ok_In objs t : row_ok objs t = true -> In t (fill_spec_list objs).
Proof.
  destruct t as [[i j] l]. unfold row_ok. cbn [fst snd]. intro H.
  apply existsb_exists in H. destruct H as [[lo Hh] [I K]]. cbn [fst snd] in K.
  apply andb_true_iff in K. destruct K as [E K]. apply Z.eqb_eq in E. subst.
  apply fill_spec_list_In. exists Hh. tauto.
Qed.

Lemma row_lt_irrefl a : row_lt a a = false.
Proof. destruct a as [[i j] l]. unfold row_lt. repeat rewrite Z.ltb_irrefl. reflexivity. Qed.

Lemma row_lt_trans a b c : row_lt a b = true -> row_lt b c = true -> row_lt a c = true.
Proof.
  destruct a as [[ia ja] la], b as [[ib jb] lb], c as [[ic jc] lc]. unfold row_lt.
  destruct (la <? lb) eqn:E1, (lb <? la) eqn:E2, (lb <? lc) eqn:E3, (lc <? lb) eqn:E4,
           (la <? lc) eqn:E5, (lc <? la) eqn:E6; try lia; try reflexivity;
  destruct (ia <? ib) eqn:F1, (ib <? ia) eqn:F2, (ib <? ic) eqn:F3, (ic <? ib) eqn:F4,
           (ia <? ic) eqn:F5, (ic <? ia) eqn:F6; try lia; try reflexivity.
Qed.

Lemma sorted_head a t : strictly_sorted (a :: t) = true -> Forall (fun b => row_lt a b = true) t.
Proof.
  revert a. induction t as [|b t IH]; intros a H; [constructor|].
  cbn [strictly_sorted] in H. apply andb_true_iff in H. destruct H as [L S].
  constructor; [exact L|].
  specialize (IH b S). eapply Forall_impl; [|exact IH].
  intros c Hc. cbv beta in Hc. eapply row_lt_trans; eassumption.
Qed.

Lemma sorted_tail a t : strictly_sorted (a :: t) = true -> strictly_sorted t = true.
Proof.
  destruct t as [|b t]; [reflexivity|]. cbn [strictly_sorted]. intro H.
  apply andb_true_iff in H. tauto.
Qed.

Lemma sorted_NoDup l : strictly_sorted l = true -> NoDup l.
Proof.
  induction l as [|a t IH]; intro H; [constructor|].
  constructor.
  - intro I. pose proof (sorted_head a t H) as F. rewrite Forall_forall in F.
    specialize (F a I). rewrite row_lt_irrefl in F. discriminate.
  - apply IH. eapply sorted_tail; eassumption.
Qed.

Theorem fill_checker_sound objs out :
  fill_ok objs out = true ->
  NoDup out /\
  forall i j l, In (i, j, l) out <-> exists H, In (l, H) objs /\ inside H (i, j) = true.
Proof.
  unfold fill_ok. intro H.
  apply andb_true_iff in H. destruct H as [H Len].
  apply andb_true_iff in H. destruct H as [Srt All].
  pose proof (sorted_NoDup out Srt) as ND.
  assert (Inc : incl out (fill_spec_list objs)).
  { intros t I. rewrite forallb_forall in All. apply row_ok_In. exact (All t I). }
  apply Nat.leb_le in Len.
  pose proof (NoDup_length_incl ND Len Inc) as Inc2.
  split; [exact ND|].
  intros i j l. rewrite <- fill_spec_list_In. split; intro I.
  - exact (Inc _ I).
  - exact (Inc2 _ I).
Qed.

(* the lattice columns of a run are exactly the integers between the two exact rationals *)
Lemma run_js_spec n0 d0 n1 d1 j : 0 < d0 -> 0 < d1 ->
  (In j (run_js n0 d0 n1 d1) <-> n0 <= j * d0 /\ j * d1 <= n1).
Proof.
  intros D0 D1. unfold run_js, ceil_div, floor_div. rewrite zrange_In.
  pose proof (Z.div_mod (- n0) d0 ltac:(lia)) as E0. pose proof (Z.mod_pos_bound (- n0) d0 D0) as B0.
  pose proof (Z.div_mod n1 d1 ltac:(lia)) as E1. pose proof (Z.mod_pos_bound n1 d1 D1) as B1.
  split; intros [A B]; split; nia.
Qed.

(* satisfiable on a non-trivial input: a triangle and a 2-vertex object, rows in (label, i, j) order *)
Example fill_ok_example :
  fill_ok [(2, [(0,0); (0,3); (3,0)]); (5, [(4,4); (6,6)])]
          [(0,0,2); (0,1,2); (0,2,2); (0,3,2); (1,0,2); (1,1,2); (1,2,2); (2,0,2); (2,1,2); (3,0,2);
           (4,4,5); (5,5,5); (6,6,5)] = true.
Proof. vm_compute. reflexivity. Qed.
