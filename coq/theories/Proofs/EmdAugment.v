(* C10 — augment_list_surgery under the companion flag: one iteration of the line-level solver keeps
   "every residual arc has a non-negative reduced cost" provided the step's flag is clear (every hop
   of the augmenting path joins two nodes connected by exactly one arc, ends at a reachable node, and
   no capacity went negative).  Ingredients: Dijkstra post-condition and tightness (csp_post), the
   ghost potentials (EmdGhost), pair addressing (EmdPairAddr). *)
From Coq Require Import ZArith List Bool Lia ZifyBool.
From Centro Require Import Base.Sx Base.EmdBase Model.Emd Model.EmdMcf
  Proofs.EmdSsp Proofs.EmdHeap Proofs.EmdHeapPos Proofs.EmdHeapOrd Proofs.EmdHeapMem Proofs.EmdDijkstra Proofs.EmdDijkstraInit
  Proofs.EmdTight Proofs.EmdPotential Proofs.EmdGhost Proofs.EmdCspPost Proofs.EmdFuel.
Import ListNotations.
Open Scope Z_scope.

(* ---------------------------------------------------------------- the hops of the walk *)
Fixpoint hops (fuel : nat) (prev : list nat) (k to : nat) : list (nat * nat) :=
  match fuel with
  | O => []
  | S f => let from := nth to prev O in
           (from, to) :: (if (from =? k)%nat then [] else hops f prev k from)
  end.

Lemma walk_flag_hops rf dd prev k : forall fuel to, walk_flag fuel rf dd prev k to = false ->
  forall from' to', In (from', to') (hops fuel prev k to) -> hop_flag rf dd from' to' = false.
Proof.
  induction fuel as [|f IH]; intros to H; cbn [walk_flag] in H; [discriminate|].
  apply orb_false_iff in H. destruct H as [H1 H2]. cbn [hops]. intros from' to' [E|Hin].
  - injection E as <- <-. exact H1.
  - destruct (nth to prev 0 =? k)%nat; [destruct Hin|]. eapply IH; eauto.
Qed.

(* ---------------------------------------------------------------- list surgery *)
Lemma upd_first_bwd_in l t g : forall v rc cap', In (v, rc, cap') (upd_first_bwd l t g) ->
  exists cap, In (v, rc, cap) l /\ (cap' = cap \/ (v = t /\ cap' = g cap)).
Proof.
  induction l as [|en l IH]; intros v rc cap'; cbn [upd_first_bwd]; [intros []|].
  destruct (fst (fst en) =? t)%nat eqn:E.
  - intros [H|H].
    + destruct en as [[v0 rc0] cap0]. cbn [fst snd] in *. injection H as <- <- <-. apply Nat.eqb_eq in E.
      exists cap0. split; [left; auto|right; auto].
    + exists cap'. split; [right; auto|left; auto].
  - intros [H|H].
    + exists cap'. split; [left; auto|left; auto].
    + destruct (IH v rc cap' H) as [cap [A B]]. exists cap. split; [right; auto|auto].
Qed.

(* an entry that is positive after the augmentation was positive before, or it sits in [to] and
   points at from for a hop from -> to of the walk *)
Lemma augment_positive_caps : forall fuel prev k to delta e x rb e' x' rb', 0 <= delta ->
  augment fuel prev k to delta e x rb = Some (e', x', rb') ->
  forall u v rc cap', In (v, rc, cap') (nth u rb' []) -> 0 < cap' ->
  (exists cap, In (v, rc, cap) (nth u rb []) /\ 0 < cap) \/ In (v, u) (hops fuel prev k to).
Proof.
  induction fuel as [|f IH]; intros prev k to delta e x rb e' x' rb' Hd; cbn [augment]; [discriminate|].
  destruct (upd_first_x (nth (nth to prev O) x []) to (fun fl => fl + delta)) as [xf|]; [|discriminate]. cbn [bind].
  set (from := nth to prev O).
  set (rb1 := upd rb to (fun l => upd_first_bwd l from (fun c0 => c0 + delta))).
  set (rb2 := upd rb1 from (fun l => upd_first_bwd l to (fun c0 => c0 - delta))).
  assert (STEP : forall u v rc cap', In (v, rc, cap') (nth u rb2 []) -> 0 < cap' ->
            (exists cap, In (v, rc, cap) (nth u rb []) /\ 0 < cap) \/ (v = from /\ u = to)).
  { intros u v rc cap' Hin Hp. unfold rb2 in Hin. rewrite (nth_upd_local _ []) in Hin.
    assert (S1 : exists c1, In (v, rc, c1) (nth u rb1 []) /\ cap' <= c1).
    { destruct ((from =? u)%nat && (from <? length rb1)%nat).
      - destruct (upd_first_bwd_in _ _ _ _ _ _ Hin) as [c1 [A [B|[_ B]]]]; exists c1; split; auto; lia.
      - exists cap'. split; auto. lia. }
    destruct S1 as [c1 [Hin1 L1]]. unfold rb1 in Hin1. rewrite (nth_upd_local _ []) in Hin1.
    destruct ((to =? u)%nat && (to <? length rb)%nat) eqn:E.
    - apply andb_prop in E. destruct E as [E _]. apply Nat.eqb_eq in E. subst u.
      destruct (upd_first_bwd_in _ _ _ _ _ _ Hin1) as [c0 [A [B|[Ev B]]]].
      + left. exists c0. split; auto. lia.
      + right. auto.
    - left. exists c1. split; auto. lia. }
  cbn [hops]. fold from. destruct (from =? k)%nat.
  - intros X. injection X as _ _ <-. intros u v rc cap' Hin Hp.
    destruct (STEP u v rc cap' Hin Hp) as [L|[-> ->]]; [left; auto|right; left; auto].
  - intros X u v rc cap' Hin Hp.
    destruct (IH _ _ _ _ _ _ _ _ _ _ Hd X u v rc cap' Hin Hp) as [[c2 [Hin2 Hp2]]|Hh]; [|right; right; auto].
    destruct (STEP u v rc c2 Hin2 Hp2) as [L|[-> ->]]; [left; auto|right; left; auto].
Qed.

Lemma scan_delta_nonneg : forall fuel prev rb k to delta d', caps_ok rb = true -> 0 <= delta ->
  scan_delta fuel prev rb k to delta = Some d' -> 0 <= d'.
Proof.
  induction fuel as [|f IH]; intros prev rb k to delta d' CO Hd; cbn [scan_delta]; [discriminate|].
  set (from := nth to prev O).
  assert (D : 0 <= match find_bwd (nth from rb []) to with
                   | Some en => if snd en <? delta then snd en else delta
                   | None => delta end).
  { destruct (find_bwd (nth from rb []) to) as [en|] eqn:E; [|auto].
    destruct (snd en <? delta); [|auto].
    assert (IN : In en (nth from rb [])).
    { clear - E. induction (nth from rb []) as [|a l IHl]; cbn [find_bwd] in E; [discriminate|].
      destruct (fst (fst a) =? to)%nat; [injection E as <-; left; auto|right; auto]. }
    unfold caps_ok in CO. rewrite forallb_forall in CO.
    destruct (Nat.lt_ge_cases from (length rb)) as [L|L]; [|rewrite nth_overflow in IN by auto; destruct IN].
    specialize (CO _ (nth_In _ [] L)). rewrite forallb_forall in CO. specialize (CO _ IN). lia. }
  destruct (from =? k)%nat; [intros X; injection X as <-; auto|]. intros X. eapply IH; eauto.
Qed.

(* ---------------------------------------------------------------- a hop's twin entries are tight *)
Section Hop.
Variable nv : nat.
Variable c : list (list (nat * Z)).
Hypothesis LC : length c = nv.

Lemma bwd_entry_arc pi v en : In en (bwd_of c pi v) ->
  exists a, In a (mk_arcs c) /\ a_to a = v /\ fst en = a_from a /\ snd en = - a_cost a + pi v - pi (a_from a).
Proof.
  unfold bwd_of. intros H. apply in_flat_map in H. destruct H as [a [Ha Hin]].
  destruct (a_to a =? v)%nat eqn:E; [|destruct Hin]. destruct Hin as [<-|[]]. apply Nat.eqb_eq in E.
  exists a. cbn [fst snd]. auto.
Qed.

Lemma arc_fwd_entry pi a : In a (mk_arcs c) ->
  In (a_to a, a_cost a + pi (a_from a) - pi (a_to a)) (fwd_of c pi (a_from a)).
Proof.
  intros H. apply mk_arcs_in in H. destruct H as [_ [_ I]]. unfold fwd_of.
  apply in_map_iff. exists (a_to a, a_cost a). split; auto.
Qed.

Lemma filter_single {A} (p : A -> bool) (l : list A) a b :
  (length (filter p l) <= 1)%nat -> In a l -> In b l -> p a = true -> p b = true -> a = b.
Proof.
  intros L Ia Ib Pa Pb.
  assert (Fa : In a (filter p l)) by (apply filter_In; auto).
  assert (Fb : In b (filter p l)) by (apply filter_In; auto).
  destruct (filter p l) as [|x [|y r]]; [destruct Fa| |cbn [length] in L; lia].
  destruct Fa as [<-|[]]. destruct Fb as [<-|[]]. reflexivity.
Qed.

(* every entry of [to] pointing at from has reduced cost 0 when the pair (from,to) is joined by
   exactly one arc and some residual arc from -> to is tight *)
Theorem hop_entry_zero pi rf rb from to : ghost nv c pi rf rb -> (from < nv)%nat -> (to < nv)%nat ->
  pair_count rf from to = 1%nat ->
  (In (to, 0) (nth from rf []) \/ exists cap, In (to, 0, cap) (nth from rb [])) ->
  forall rc cap, In (from, rc, cap) (nth to rb []) -> rc = 0.
Proof.
  intros [_ [_ [G1 G2]]] Hf Ht PC TIGHT rc cap Hin.
  assert (S : In (from, rc) (strip (nth to rb []))).
  { unfold strip. apply in_map_iff. exists (from, rc, cap). auto. }
  rewrite G2 in S by auto. destruct (bwd_entry_arc _ _ _ S) as [a [Ha [At [Af Ac]]]]. cbn [fst snd] in Af, Ac.
  pose proof (arc_fwd_entry pi a Ha) as FE. rewrite <- Af, At in FE. rewrite <- G1 in FE by auto.
  unfold pair_count in PC.
  set (p1 := fun en : nat * Z => (fst en =? to)%nat) in *. set (p2 := fun en : nat * Z => (fst en =? from)%nat) in *.
  assert (N1 : (1 <= length (filter p1 (nth from rf [])))%nat).
  { assert (X : In (to, a_cost a + pi from - pi to) (filter p1 (nth from rf []))) by (apply filter_In; split; auto; unfold p1; cbn; apply Nat.eqb_refl).
    destruct (filter p1 (nth from rf [])); [destruct X|cbn [length]; lia]. }
  destruct TIGHT as [T|[cap0 T]].
  - assert (E : (to, 0) = (to, a_cost a + pi from - pi to)).
    { apply (filter_single p1 (nth from rf [])); auto; try lia; unfold p1; cbn; apply Nat.eqb_refl. }
    injection E as E. rewrite <- Af in Ac. lia.
  - exfalso.
    assert (S' : In (to, 0) (strip (nth from rb []))) by (unfold strip; apply in_map_iff; exists (to, 0, cap0); auto).
    rewrite G2 in S' by auto. destruct (bwd_entry_arc _ _ _ S') as [b [Hb [Bt [Bf _]]]]. cbn [fst] in Bf.
    pose proof (arc_fwd_entry pi b Hb) as FB. rewrite <- Bf, Bt in FB. rewrite <- G1 in FB by auto.
    assert (X : In (from, a_cost b + pi to - pi from) (filter p2 (nth to rf []))) by (apply filter_In; split; auto; unfold p2; cbn; apply Nat.eqb_refl).
    destruct (filter p2 (nth to rf [])); [destruct X|cbn [length] in PC; lia].
Qed.
End Hop.

(* ---------------------------------------------------------------- one whole iteration *)
Definition RAok (nv : nat) (rf : list (list (nat * Z))) (rb : list (list (nat * Z * Z))) : Prop :=
  forall u v rc, res_arc rf rb u v rc -> (v < nv)%nat /\ 0 <= rc.

Lemma nth_map_combine' {A B} (G : nat -> A -> B) (dA : A) (dB : B) : forall (l : list A) n u,
  (u < length l)%nat -> n = length l ->
  nth u (map (fun fx => G (fst fx) (snd fx)) (combine (seq 0 n) l)) dB = G u (nth u l dA).
Proof.
  intros l n u Hu ->.
  rewrite (nth_indep _ dB (G (fst (O, dA)) (snd (O, dA)))) by (rewrite map_length, combine_length, seq_length; lia).
  rewrite (map_nth (fun fx => G (fst fx) (snd fx))). rewrite combine_nth by (rewrite seq_length; auto).
  rewrite seq_nth by auto. reflexivity.
Qed.

Lemma caps_ok_in rb u en : caps_ok rb = true -> In en (nth u rb []) -> 0 <= snd en.
Proof.
  intros CO IN. unfold caps_ok in CO. rewrite forallb_forall in CO.
  destruct (Nat.lt_ge_cases u (length rb)) as [L|L]; [|rewrite nth_overflow in IN by auto; destruct IN].
  specialize (CO _ (nth_In _ [] L)). rewrite forallb_forall in CO. specialize (CO _ IN). lia.
Qed.

Lemma walk_chain nv rf0 rb0 k st rf prev : RAok nv rf0 rb0 -> length rf0 = nv -> length rb0 = nv ->
  TPost rf0 rb0 k st -> sp_prev st = prev ->
  forall fuel to, fn st to = true -> to <> k -> walk_flag fuel rf (sp_d st) prev k to = false ->
  forall from' to', In (from', to') (hops fuel prev k to) ->
    fn st to' = true /\ to' <> k /\ from' = pvn st to' /\ (from' < nv)%nat /\ (to' < nv)%nat /\
    tight rf0 rb0 st to' (dd st to').
Proof.
  intros RA L1 L2 TP EP. induction fuel as [|f IH]; intros to Ft Nk WF; [intros ? ? []|].
  cbn [walk_flag] in WF. apply orb_false_iff in WF. destruct WF as [HF WF].
  unfold hop_flag in HF. apply orb_false_iff in HF. destruct HF as [_ HM].
  assert (T : tight rf0 rb0 st to (dd st to)).
  { destruct (TP to Ft) as [[[E _]|E]|T]; auto; [contradiction|unfold dd in E; lia]. }
  pose proof T as [rc [R [Fp E]]].
  assert (PF : pvn st to = nth to prev O) by (unfold pvn; rewrite EP; auto).
  assert (Lf : (pvn st to < nv)%nat).
  { destruct R as [Hin|[cap [Hin _]]].
    - destruct (Nat.lt_ge_cases (pvn st to) (length rf0)); [lia|]. rewrite nth_overflow in Hin by auto. destruct Hin.
    - destruct (Nat.lt_ge_cases (pvn st to) (length rb0)); [lia|]. rewrite nth_overflow in Hin by auto. destruct Hin. }
  destruct (RA _ _ _ R) as [Lt _].
  cbn [hops]. intros from' to' [Eq|Hin].
  - injection Eq as <- <-. rewrite <- PF. repeat split; auto.
  - destruct (nth to prev 0 =? k)%nat eqn:EK; [destruct Hin|]. apply Nat.eqb_neq in EK.
    rewrite <- PF in *. eapply (IH (pvn st to)); eauto.
Qed.

Theorem step_keeps_RA nv c st st' : length c = nv ->
  length (m_e st) = nv -> length (m_d st) = nv -> length (m_prev st) = nv ->
  (exists pi, ghost nv c pi (m_rf st) (m_rb st)) ->
  RAok nv (m_rf st) (m_rb st) -> caps_ok (m_rb st) = true ->
  mcf_step st = MMore st' -> step_flag st = false ->
  RAok nv (m_rf st') (m_rb st') /\ caps_ok (m_rb st') = true.
Proof.
  intros LC LE LD LP [pi G] RA CO. unfold mcf_step, step_flag. rewrite LE.
  destruct (pick_supply (m_e st) 0 0 0) as [ms k] eqn:PS.
  destruct (ms =? 0) eqn:E0; [discriminate|].
  destruct (compute_shortest_path nv (m_d st) (m_prev st) k (m_rf st) (m_rb st) (m_e st))
    as [[[[[d prev] rf] rb] l]|] eqn:EC; [|discriminate].
  destruct (l =? k)%nat eqn:ELK; [discriminate|]. apply Nat.eqb_neq in ELK.
  destruct (scan_delta nv prev rb k l ms) as [delta|] eqn:ES; [|discriminate].
  destruct (augment nv prev k l delta (m_e st) (m_x st) rb) as [[[e' x'] rb']|] eqn:EA; [|discriminate].
  intros X FL. injection X as <-. cbn [m_rf m_rb].
  apply orb_false_iff in FL. destruct FL as [WF CO']. apply negb_false_iff in CO'.
  split; [|exact CO'].
  (* the start node is inside the graph and has positive supply *)
  assert (Hk : (k < nv)%nat /\ 0 < ms).
  { destruct (pick_supply_spec _ _ _ _ _ _ PS) as [[A _]|[A [_ B]]]; [lia|]. split; [|lia].
    rewrite Nat.sub_0_r in B. destruct (Nat.lt_ge_cases k (length (m_e st))); [lia|]. rewrite nth_overflow in B by auto. lia. }
  destruct Hk as [Hk Hms].
  pose proof G as [LRF [LRB _]].
  destruct (csp_post nv (m_e st) (m_rf st) (m_rb st) RA _ _ _ _ _ _ _ _ Hk LD LP EC) as [sp [ED [EP [PO [TP [ERF ERB]]]]]].
  pose proof (csp_residual_nonneg nv (m_e st) (m_rf st) (m_rb st) RA _ _ _ _ _ _ _ _ Hk LD LRF LRB EC) as RA1.
  destruct (ghost_csp nv c LC _ _ _ _ _ _ _ _ _ _ _ _ G EC) as [pi' G1].
  pose proof (ghost_augment nv c LC pi' rf _ _ _ _ _ _ _ _ _ _ _ G1 EA) as G2.
  (* capacities are untouched by the shortest-path phase *)
  assert (NRB : forall u, (u < nv)%nat -> nth u rb [] =
            map (fun en => (fst (fst en), rc_update (sp_final sp) d (nz d l) u (fst (fst en)) (snd (fst en)), snd en)) (nth u (m_rb st) [])).
  { intros u Hu. rewrite ERB.
    apply (nth_map_combine' (fun fr row => map (fun en : nat * Z * Z => (fst (fst en), rc_update (sp_final sp) d (nz d l) fr (fst (fst en)) (snd (fst en)), snd en)) row) [] [] (m_rb st) nv u); lia. }
  assert (NRF : forall u, (u < nv)%nat -> nth u rf [] =
            map (fun en => (fst en, rc_update (sp_final sp) d (nz d l) u (fst en) (snd en))) (nth u (m_rf st) [])).
  { intros u Hu. rewrite ERF.
    apply (nth_map_combine' (fun fr row => map (fun en : nat * Z => (fst en, rc_update (sp_final sp) d (nz d l) fr (fst en) (snd en))) row) [] [] (m_rf st) nv u); lia. }
  assert (CO1 : caps_ok rb = true).
  { unfold caps_ok. apply forallb_forall. intros row Hrow. apply forallb_forall. intros en Hen.
    destruct (In_nth _ _ [] Hrow) as [u [Hu Eu]]. destruct G1 as [_ [LRB1 _]]. rewrite LRB1 in Hu.
    rewrite <- Eu in Hen. rewrite (NRB u Hu) in Hen. apply in_map_iff in Hen. destruct Hen as [en0 [<- Hin0]]. cbn [snd].
    pose proof (caps_ok_in _ _ _ CO Hin0). lia. }
  assert (Hd : 0 <= delta) by (eapply scan_delta_nonneg; eauto; lia).
  destruct PO as [FL [LL _]].
  assert (CH : forall from' to', In (from', to') (hops nv prev k l) ->
            fn sp to' = true /\ to' <> k /\ from' = pvn sp to' /\ (from' < nv)%nat /\ (to' < nv)%nat /\
            tight (m_rf st) (m_rb st) sp to' (dd sp to')).
  { apply (walk_chain nv (m_rf st) (m_rb st) k sp rf prev RA LRF LRB TP EP nv l FL ELK). rewrite ED. exact WF. }
  pose proof (walk_flag_hops rf d prev k nv l WF) as HFL.
  intros u v rc [Hin|[cap' [Hin Hp]]].
  - apply (RA1 u v rc). left. auto.
  - destruct (augment_positive_caps _ _ _ _ _ _ _ _ _ _ _ Hd EA u v rc cap' Hin Hp) as [[cap [Hin0 Hp0]]|Hh].
    + apply (RA1 u v rc). right. exists cap. auto.
    + (* the entry sits in [u] and points at v for the hop v -> u *)
      destruct (CH v u Hh) as [Fu [Nu [Ev [Lv [Lu [rc0 [R [Fp E]]]]]]]].
      specialize (HFL v u Hh). unfold hop_flag in HFL. apply orb_false_iff in HFL. destruct HFL as [PC _].
      apply negb_false_iff in PC. apply Nat.eqb_eq in PC.
      split; auto.
      rewrite <- Ev in Fp, E, R.
      assert (T3 : nz (sp_d sp) u = nz (sp_d sp) v + rc0) by (unfold dd in E; lia).
      destruct (rc_update_tight (sp_final sp) (sp_d sp) (nz (sp_d sp) l) v u rc0 Fp Fu T3) as [Z0 _].
      rewrite ED in Z0.
      assert (TIGHT : In (u, 0) (nth v rf []) \/ exists cap0, In (u, 0, cap0) (nth v rb' [])).
      { destruct R as [Hr|[cap0 [Hr _]]].
        - left. rewrite NRF by auto. apply in_map_iff. exists (u, rc0). cbn [fst snd]. rewrite Z0. auto.
        - right.
          assert (S1 : In (u, 0) (strip (nth v rb []))).
          { rewrite NRB by auto. unfold strip. rewrite map_map. apply in_map_iff. exists (u, rc0, cap0). cbn [fst snd]. rewrite Z0. auto. }
          destruct G1 as [_ [_ [_ GB1]]]. destruct G2 as [_ [_ [_ GB2]]].
          rewrite GB1 in S1 by auto. rewrite <- GB2 in S1 by auto.
          unfold strip in S1. apply in_map_iff in S1. destruct S1 as [[[t r] cp] [Eq Hin2]]. cbn [fst snd] in Eq. injection Eq as -> ->.
          exists cp. auto. }
      rewrite (hop_entry_zero nv c LC pi' rf rb' v u G2 Lv Lu PC TIGHT rc cap' Hin). lia.
Qed.
