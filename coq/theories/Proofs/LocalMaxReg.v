(* C17 — regional_maximum with ties allowed: the shifted-slice loops with big_mask / min_mask
   compute exactly the pixels that lie inside the mask and whose structure neighbours all lie
   inside image and mask and are not larger. *)
From Coq Require Import ZArith List Bool Lia ZifyBool.
From Centro Require Import Base.LocalMaxGrid Model.LocalMax Spec.LocalMaxSpec Proofs.LocalMaxIlm.
Import ListNotations.
Open Scope Z_scope.

Lemma forallb_map {A B} (g : B -> bool) (f : A -> B) l : forallb g (map f l) = forallb (fun a => g (f a)) l.
Proof. induction l as [|a l IH]; [reflexivity|]. cbn [map forallb]. now rewrite IH. Qed.

Lemma forallb_flat_map {A B} (g : B -> bool) (f : A -> list B) l :
  forallb g (flat_map f l) = forallb (fun a => forallb g (f a)) l.
Proof. induction l as [|a l IH]; [reflexivity|]. cbn [flat_map forallb]. now rewrite forallb_app, IH. Qed.

Lemma forallb_ext' {A} (f g : A -> bool) l : (forall a, f a = g a) -> forallb f l = forallb g l.
Proof. intros E. induction l as [|a l IH]; [reflexivity|]. cbn [forallb]. now rewrite E, IH. Qed.

Section Reg.
  Variables (image : list (list Z)) (mask : option (list (list bool))) (st : list (list bool)).
  Local Notation h := (length image).
  Local Notation w := (length (hd [] image)).
  Local Notation sh := (length st).
  Local Notation sw := (length (hd [] st)).
  Local Notation H := (Z.of_nat h).
  Local Notation W := (Z.of_nat w).
  Variables h0 h1 : Z.
  Hypothesis Hh0 : 0 <= h0 <= H.
  Hypothesis Hh1 : 0 <= h1 <= W.
  Hypothesis Sh0 : h0 <= Z.of_nat sh.
  Hypothesis Sh1 : h1 <= Z.of_nat sw.

  Definition bmf (y x : Z) : bool :=
    if (h0 <=? y) && (y <? h0 + H) && (h1 <=? x) && (x <? h1 + W)
    then mask_at mask (y - h0) (x - h1) else false.
  Local Notation big_mask := (tab (h + sh) (w + sw) bmf).

  Definition cond (i j y x : Z) : bool :=
    implb (negb ((i =? h0) && (j =? h1)) && get2 false st i j) (nb_ok image mask y x (i - h0) (j - h1)).

  Lemma rm_step_spec (f0 : Z -> Z -> bool) i j :
    0 <= i < Z.of_nat sh -> 0 <= j < Z.of_nat sw ->
    rm_step image big_mask st h w h0 h1 (tab h w f0) (i, j)
    = tab h w (fun y x => f0 y x && cond i j y x).
  Proof.
    intros Hi Hj. unfold rm_step, cond.
    destruct ((i =? h0) && (j =? h1)) eqn:C.
    { apply tab_ext. intros y x _ _. cbn [negb andb implb]. now rewrite andb_true_r. }
    destruct (get2 false st i j) eqn:S.
    2:{ apply tab_ext. intros y x _ _. cbn [negb andb implb]. now rewrite andb_true_r. }
    cbn [negb andb implb]. apply tab_ext. intros y x Hy Hx.
    rewrite (get2_tab false h w) by assumption. rewrite (get2_tab false h w f0) by assumption.
    rewrite (get2_tab false (h + sh) (w + sw)) by lia.
    unfold bmf, nb_ok, zlen.
    set (y' := y + (i - h0)). set (x' := x + (j - h1)).
    replace (i + y - h0) with y' by (unfold y'; lia). replace (j + x - h1) with x' by (unfold x'; lia).
    destruct ((0 <=? y') && (y' <? H) && (0 <=? x') && (x' <? W)) eqn:IN.
    - replace ((h0 <=? i + y) && (i + y <? h0 + H) && (h1 <=? j + x) && (j + x <? h1 + W)) with true by lia.
      replace ((Z.max 0 (- (i - h0)) <=? y) && (y <? Z.min H (H - (i - h0)))
               && (Z.max 0 (- (j - h1)) <=? x) && (x <? Z.min W (W - (j - h1)))) with true by lia.
      rewrite get2_tab by lia.
      replace (Z.max 0 (- (i - h0)) + (y - Z.max 0 (- (i - h0)))) with y by lia.
      replace (Z.max 0 (- (j - h1)) + (x - Z.max 0 (- (j - h1)))) with x by lia.
      replace (Z.max 0 (i - h0) + (y - Z.max 0 (- (i - h0)))) with y' by lia.
      replace (Z.max 0 (j - h1) + (x - Z.max 0 (- (j - h1)))) with x' by lia.
      cbn [andb].
      destruct (get2 0 image y x <? get2 0 image y' x') eqn:LT.
      + replace (get2 0 image y' x' <=? get2 0 image y x) with false by lia.
        now rewrite !andb_false_r.
      + replace (get2 0 image y' x' <=? get2 0 image y x) with true by lia.
        now rewrite andb_true_r.
    - replace ((h0 <=? i + y) && (i + y <? h0 + H) && (h1 <=? j + x) && (j + x <? h1 + W)) with false by lia.
      replace ((Z.max 0 (- (i - h0)) <=? y) && (y <? Z.min H (H - (i - h0)))
               && (Z.max 0 (- (j - h1)) <=? x) && (x <? Z.min W (W - (j - h1)))) with false by lia.
      cbn [andb]. reflexivity.
  Qed.

  Lemma rm_fold_spec : forall (l : list (Z * Z)) (f0 : Z -> Z -> bool),
    (forall ij, In ij l -> 0 <= fst ij < Z.of_nat sh /\ 0 <= snd ij < Z.of_nat sw) ->
    fold_left (rm_step image big_mask st h w h0 h1) l (tab h w f0)
    = tab h w (fun y x => f0 y x && forallb (fun ij => cond (fst ij) (snd ij) y x) l).
  Proof.
    induction l as [|[i j] l IH]; intros f0 Hin; cbn [fold_left forallb].
    - apply tab_ext. intros. now rewrite andb_true_r.
    - destruct (Hin (i, j) (or_introl eq_refl)) as [Hi Hj]. cbn [fst snd] in Hi, Hj.
      rewrite rm_step_spec by assumption. rewrite IH by (intros; apply Hin; now right).
      apply tab_ext. intros. cbn [fst snd]. now rewrite andb_assoc.
  Qed.
End Reg.

Theorem regional_maximum_ties_eq image mask (st : list (list bool)) :
  let h := length image in
  let w := length (hd [] image) in
  zlen st / 2 <= Z.of_nat h -> zlen (hd [] st) / 2 <= Z.of_nat w ->
  regional_maximum_ties image mask st = Some (tab h w (reg_max_b image mask st)).
Proof.
  intros h w A B. unfold regional_maximum_ties, shape2, zlen in *. cbv beta iota zeta.
  set (h0 := Z.of_nat (length st) / 2) in *. set (h1 := Z.of_nat (length (hd [] st)) / 2) in *.
  assert (P0 : 0 <= h0 <= Z.of_nat (length st)).
  { unfold h0. split; [apply Z.div_pos; lia|]. apply Z.div_le_upper_bound; lia. }
  assert (P1 : 0 <= h1 <= Z.of_nat (length (hd [] st))).
  { unfold h1. split; [apply Z.div_pos; lia|]. apply Z.div_le_upper_bound; lia. }
  replace ((Z.of_nat (length image) <? h0) || (Z.of_nat (length (hd [] image)) <? h1)) with false by (subst h w; lia).
  f_equal.
  assert (R1 : match mask with
               | None => tab h w (fun _ _ => true)
               | Some m => tab h w (fun y x => if negb (get2 false m y x) then false
                                               else get2 false (tab h w (fun _ _ => true)) y x)
               end = tab h w (mask_at mask)).
  { destruct mask as [m|]; [|reflexivity]. apply tab_ext. intros y x Hy Hx. cbn [mask_at].
    rewrite get2_tab by assumption. now destruct (get2 false m y x). }
  fold h w. rewrite R1.
  rewrite (rm_fold_spec image mask st h0 h1) by
    (try (subst h w; lia); intros ij Hij; apply in_flat_map in Hij; destruct Hij as (i & Hi & Hij);
     apply in_map_iff in Hij; destruct Hij as (j & <- & Hj); apply In_zrange in Hi, Hj; cbn [fst snd]; lia).
  apply tab_ext. intros y x _ _. unfold reg_max_b. f_equal.
  rewrite forallb_flat_map. apply forallb_ext'. intros i. rewrite forallb_map. apply forallb_ext'. intros j.
  reflexivity.
Qed.

Lemma reg_max_b_spec image mask st y x :
  reg_max_b image mask st y x = true <-> reg_max_at image mask st y x.
Proof.
  unfold reg_max_b, reg_max_at, zlen. cbv zeta. rewrite andb_true_iff, forallb_forall.
  split; intros [M0 A]; (split; [exact M0|]).
  - intros i j Hi Hj C S. specialize (A i (proj2 (In_zrange _ _) Hi)). rewrite forallb_forall in A.
    specialize (A j (proj2 (In_zrange _ _) Hj)). rewrite S in A.
    replace ((i =? Z.of_nat (length st) / 2) && (j =? Z.of_nat (length (hd [] st)) / 2)) with false in A by lia.
    cbn [negb andb implb] in A. unfold nb_ok, zlen in A.
    rewrite !andb_true_iff in A. lia.
  - intros i Hi. apply forallb_forall. intros j Hj. apply In_zrange in Hi, Hj.
    match goal with |- implb ?c ?d = true => destruct c eqn:C; [cbn [implb]|reflexivity] end.
    rewrite andb_true_iff, negb_true_iff in C. destruct C as [C S].
    destruct (A i j Hi Hj) as (I1 & M & L); [lia | exact S |].
    unfold nb_ok, zlen. rewrite M. cbn [andb]. rewrite !andb_true_iff. lia.
Qed.

(* the statement of the property for the ties-allowed form *)
Theorem regional_maximum_ties_spec image mask (st : list (list bool)) :
  let h := length image in
  let w := length (hd [] image) in
  zlen st / 2 <= Z.of_nat h -> zlen (hd [] st) / 2 <= Z.of_nat w ->
  exists out, regional_maximum_ties image mask st = Some out /\ wf h w out /\
    forall y x, 0 <= y < Z.of_nat h -> 0 <= x < Z.of_nat w ->
      (get2 false out y x = true <-> reg_max_at image mask st y x).
Proof.
  intros h w A B. eexists. split; [now apply regional_maximum_ties_eq|].
  split; [apply tab_wf|]. intros y x Hy Hx. rewrite get2_tab by assumption. apply reg_max_b_spec.
Qed.

Example regional_maximum_ties_example :
  (* a 2x2 plateau, a masked pixel, the 4-connected structure *)
  regional_maximum_ties
    [[0; 0; 0; 0; 0]; [0; 3; 3; 1; 0]; [0; 3; 3; 0; 0]; [0; 0; 0; 2; 0]; [0; 0; 0; 0; 0]]
    (Some [[true; true; true; true; true]; [true; true; true; true; true]; [true; true; true; true; true];
           [true; true; true; true; false]; [true; true; true; true; true]])
    [[false; true; false]; [true; true; true]; [false; true; false]]
  = Some [[false; false; false; false; false]; [false; true; true; false; false];
          [false; true; true; false; false]; [false; false; false; false; false];
          [false; false; false; false; false]].
Proof. vm_compute. reflexivity. Qed.

Theorem rm_check_sound image mask st out : rm_check image mask st out = true ->
  wf (length image) (length (hd [] image)) out /\
  forall y x, 0 <= y < zlen image -> 0 <= x < zlen (hd [] image) ->
    (get2 false out y x = true <-> reg_max_at image mask st y x).
Proof.
  intros C. apply grid_eqb_sound in C. destruct C as [Hw A]. split; [exact Hw|].
  intros y x Hy Hx. rewrite (A y x Hy Hx). apply reg_max_b_spec.
Qed.
