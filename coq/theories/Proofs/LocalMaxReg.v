(* C17 — regional_maximum with ties allowed: the shifted-slice loops with big_mask / min_mask
   compute exactly the pixels that lie inside the mask and whose structure neighbours all lie
   inside image and mask and are not larger. *)
From Coq Require Import ZArith List Bool Lia ZifyBool.
From Centro Require Import Base.LocalMaxGrid Model.LocalMax Spec.LocalMaxSpec Proofs.LocalMaxIlm.
Import ListNotations.
Open Scope Z_scope.

Lemma forallb_map {A B} (g : B -> bool) (f : A -> B) l : forallb g (map f l) = forallb (fun a => g (f a)) l.
Proof. induction l as [|a l IH]; [reflexivity|]. cbn [map forallb]. now rewrite IH. Qed.

Lemma forallb_flat_map {A B} (g : B -> bool) (f : A -> list B) l :
  forallb g (flat_map f l) = forallb (fun a => forallb g (f a)) l.
Proof. induction l as [|a l IH]; [reflexivity|]. cbn [flat_map forallb]. now rewrite forallb_app, IH. Qed.

Lemma forallb_ext' {A} (f g : A -> bool) l : (forall a, f a = g a) -> forallb f l = forallb g l.
Proof. intros E. induction l as [|a l IH]; [reflexivity|]. cbn [forallb]. now rewrite E, IH. Qed.

(* ---- one axis of the shifted slices: Python slice normalisation, broadcasting, mask shape ---- *)

Definition dim_okb (off n : Z) : bool := (Z.abs off <=? n) || (2 * n - 1 <=? Z.abs off).

Ltac slice_cases E1 E2 :=
  unfold pyslice, pynorm in E1, E2;
  repeat match type of E1 with context [if ?c then _ else _] => destruct c eqn:? end;
  repeat match type of E2 with context [if ?c then _ else _] => destruct c eqn:? end;
  injection E1 as <- <-; injection E2 as <- <-.

(* the offset fits into the image: both slices have n - |off| cells and correspond cell by cell *)
Lemma dim_normal off n s a o b : 0 <= n -> Z.abs off <= n ->
  pyslice (Z.max 0 (- off)) (Z.min n (n - off)) n = (s, a) ->
  pyslice (Z.max 0 off) (Z.min n (n + off)) n = (o, b) ->
  s = Z.max 0 (- off) /\ a = n - Z.abs off /\ o = Z.max 0 off /\ b = a.
Proof. intros Hn Ha E1 E2. slice_cases E1 E2; lia. Qed.

(* far outside: a bound is negative and wraps, but one slice is empty and the other has at most
   one cell, so broadcasting gives an empty min_mask and nothing is assigned *)
Lemma dim_far off n s a o b : 0 <= n -> n < Z.abs off -> 2 * n - 1 <= Z.abs off ->
  pyslice (Z.max 0 (- off)) (Z.min n (n - off)) n = (s, a) ->
  pyslice (Z.max 0 off) (Z.min n (n + off)) n = (o, b) ->
  (a = 0 \/ a = 1) /\ (b = 0 \/ b = 1) /\ (a = 0 \/ b = 0).
Proof. intros Hn Ha Hb E1 E2. slice_cases E1 E2; lia. Qed.

(* in between: one slice is empty, the wrapped one has two or more cells: ValueError *)
Lemma dim_bad off n s a o b : 0 <= n -> n < Z.abs off -> Z.abs off < 2 * n - 1 ->
  pyslice (Z.max 0 (- off)) (Z.min n (n - off)) n = (s, a) ->
  pyslice (Z.max 0 off) (Z.min n (n + off)) n = (o, b) ->
  bcompat a b = false.
Proof. intros Hn Ha Hb E1 E2. unfold bcompat. slice_cases E1 E2; lia. Qed.

Lemma dim_ok_compat off n s a o b : 0 <= n -> dim_okb off n = true ->
  pyslice (Z.max 0 (- off)) (Z.min n (n - off)) n = (s, a) ->
  pyslice (Z.max 0 off) (Z.min n (n + off)) n = (o, b) ->
  bcompat a b = true /\ maskdim_ok a (bdim a b) = true /\ 0 <= a /\ 0 <= bdim a b /\
  (n < Z.abs off -> bdim a b = 0).
Proof.
  intros Hn Hk E1 E2. unfold dim_okb in Hk.
  destruct (Z_le_gt_dec (Z.abs off) n) as [N|N].
  - destruct (dim_normal off n s a o b Hn N E1 E2) as (_ & Ea & _ & ->).
    unfold bcompat, maskdim_ok, bdim. destruct (a =? 1) eqn:A; repeat split; lia.
  - destruct (dim_far off n s a o b Hn ltac:(lia) ltac:(lia) E1 E2) as (A & B & C).
    unfold bcompat, maskdim_ok, bdim. destruct (a =? 1) eqn:A1; repeat split; lia.
Qed.

Section Reg.
  Variables (image : list (list Z)) (mask : option (list (list bool))) (st : list (list bool)).
  Local Notation h := (length image).
  Local Notation w := (length (hd [] image)).
  Local Notation sh := (length st).
  Local Notation sw := (length (hd [] st)).
  Local Notation H := (Z.of_nat h).
  Local Notation W := (Z.of_nat w).
  Variables h0 h1 : Z.

  Definition bmf (y x : Z) : bool :=
    if (h0 <=? y) && (y <? h0 + H) && (h1 <=? x) && (x <? h1 + W)
    then mask_at mask (y - h0) (x - h1) else false.
  Local Notation big_mask := (tab (h + sh) (w + sw) bmf).

  Definition cond (i j y x : Z) : bool :=
    implb (negb ((i =? h0) && (j =? h1)) && get2 false st i j) (nb_ok image mask y x (i - h0) (j - h1)).

  (* the cell (i, j) of the structure does not make NumPy raise *)
  Definition cell_ok (ij : Z * Z) : bool :=
    implb (negb ((fst ij =? h0) && (snd ij =? h1)) && get2 false st (fst ij) (snd ij))
          (dim_okb (fst ij - h0) H && dim_okb (snd ij - h1) W).

  Lemma rm_step_spec (f0 : Z -> Z -> bool) i j :
    0 <= i < Z.of_nat sh -> 0 <= j < Z.of_nat sw ->
    rm_step image big_mask st h w h0 h1 (tab h w f0) (i, j)
    = if cell_ok (i, j) then Some (tab h w (fun y x => f0 y x && cond i j y x)) else None.
  Proof.
    intros Hi Hj. unfold rm_step, cond, cell_ok. cbn [fst snd].
    destruct ((i =? h0) && (j =? h1)) eqn:C.
    { cbn [negb andb implb]. f_equal. apply tab_ext. intros y x _ _. now rewrite andb_true_r. }
    destruct (get2 false st i j) eqn:S.
    2:{ cbn [negb andb implb]. f_equal. apply tab_ext. intros y x _ _. now rewrite andb_true_r. }
    cbn [negb andb implb].
    destruct (pyslice (Z.max 0 (- (i - h0))) (Z.min H (H - (i - h0))) H) as [si sa] eqn:E1.
    destruct (pyslice (Z.max 0 (- (j - h1))) (Z.min W (W - (j - h1))) W) as [sj sb] eqn:E2.
    destruct (pyslice (Z.max 0 (i - h0)) (Z.min H (H + (i - h0))) H) as [oi oa] eqn:E3.
    destruct (pyslice (Z.max 0 (j - h1)) (Z.min W (W + (j - h1))) W) as [oj ob] eqn:E4.
    destruct (dim_okb (i - h0) H) eqn:KI.
    2:{ unfold dim_okb in KI. rewrite (dim_bad (i - h0) H si sa oi oa) by (auto; lia). reflexivity. }
    destruct (dim_ok_compat (i - h0) H si sa oi oa ltac:(lia) KI E1 E3) as (CI & MI & PI & PMI & FI).
    destruct (dim_okb (j - h1) W) eqn:KJ.
    2:{ unfold dim_okb in KJ. rewrite (dim_bad (j - h1) W sj sb oj ob) by (auto; lia).
        now rewrite andb_false_r. }
    destruct (dim_ok_compat (j - h1) W sj sb oj ob ltac:(lia) KJ E2 E4) as (CJ & MJ & PJ & PMJ & FJ).
    rewrite CI, CJ, MI, MJ. cbn [andb negb]. f_equal.
    apply tab_ext. intros y x Hy Hx.
    rewrite (get2_tab false h w) by assumption. rewrite (get2_tab false h w f0) by assumption.
    rewrite (get2_tab false (h + sh) (w + sw)) by lia.
    unfold bmf, nb_ok, zlen.
    set (y' := y + (i - h0)). set (x' := x + (j - h1)).
    replace (i + y - h0) with y' by (unfold y'; lia). replace (j + x - h1) with x' by (unfold x'; lia).
    destruct ((0 <=? y') && (y' <? H) && (0 <=? x') && (x' <? W)) eqn:IN.
    - (* the neighbour is inside the image: both axes are in the normal regime *)
      destruct (dim_normal (i - h0) H si sa oi oa ltac:(lia) ltac:(lia) E1 E3) as (-> & Ea & -> & ->).
      destruct (dim_normal (j - h1) W sj sb oj ob ltac:(lia) ltac:(lia) E2 E4) as (-> & Eb & -> & ->).
      replace ((h0 <=? i + y) && (i + y <? h0 + H) && (h1 <=? j + x) && (j + x <? h1 + W)) with true by lia.
      replace ((Z.max 0 (- (i - h0)) <=? y) && (y <? Z.max 0 (- (i - h0)) + sa)
               && (Z.max 0 (- (j - h1)) <=? x) && (x <? Z.max 0 (- (j - h1)) + sb)) with true by lia.
      assert (BA : bdim sa sa = sa) by (unfold bdim; destruct (sa =? 1); reflexivity).
      assert (BB : bdim sb sb = sb) by (unfold bdim; destruct (sb =? 1); reflexivity).
      rewrite BA, BB. rewrite get2_tab by lia.
      replace (Z.max 0 (- (i - h0)) + bidx sa (y - Z.max 0 (- (i - h0)))) with y
        by (unfold bidx; destruct (sa =? 1) eqn:?; lia).
      replace (Z.max 0 (- (j - h1)) + bidx sb (x - Z.max 0 (- (j - h1)))) with x
        by (unfold bidx; destruct (sb =? 1) eqn:?; lia).
      replace (Z.max 0 (i - h0) + bidx sa (y - Z.max 0 (- (i - h0)))) with y'
        by (unfold bidx, y'; destruct (sa =? 1) eqn:?; lia).
      replace (Z.max 0 (j - h1) + bidx sb (x - Z.max 0 (- (j - h1)))) with x'
        by (unfold bidx, x'; destruct (sb =? 1) eqn:?; lia).
      cbn [andb].
      destruct (get2 0 image y x <? get2 0 image y' x') eqn:LT.
      + replace (get2 0 image y' x' <=? get2 0 image y x) with false by lia.
        now rewrite !andb_false_r.
      + replace (get2 0 image y' x' <=? get2 0 image y x) with true by lia.
        now rewrite andb_true_r.
    - (* the neighbour is outside: big_mask already cleared the pixel; min_mask assigns nothing *)
      replace ((h0 <=? i + y) && (i + y <? h0 + H) && (h1 <=? j + x) && (j + x <? h1 + W)) with false by lia.
      cbn [andb]. rewrite !andb_false_r.
      match goal with |- (if ?c then false else false) = false => destruct c; reflexivity end.
  Qed.

  Lemma rm_fold_spec : forall (l : list (Z * Z)) (f0 : Z -> Z -> bool),
    (forall ij, In ij l -> 0 <= fst ij < Z.of_nat sh /\ 0 <= snd ij < Z.of_nat sw) ->
    rm_fold (rm_step image big_mask st h w h0 h1) l (tab h w f0)
    = if forallb cell_ok l
      then Some (tab h w (fun y x => f0 y x && forallb (fun ij => cond (fst ij) (snd ij) y x) l))
      else None.
  Proof.
    induction l as [|[i j] l IH]; intros f0 Hin; cbn [rm_fold forallb].
    - f_equal. apply tab_ext. intros. now rewrite andb_true_r.
    - destruct (Hin (i, j) (or_introl eq_refl)) as [Hi Hj]. cbn [fst snd] in Hi, Hj.
      rewrite rm_step_spec by assumption. destruct (cell_ok (i, j)); [|reflexivity]. cbn [andb].
      rewrite IH by (intros; apply Hin; now right). destruct (forallb cell_ok l); [|reflexivity].
      f_equal. apply tab_ext. intros. cbn [fst snd]. now rewrite andb_assoc.
  Qed.
End Reg.

(* no set, non-centre cell of the structure lies at an offset off with n < |off| < 2n - 1 *)
Definition slices_okb (image : list (list Z)) (st : list (list bool)) : bool :=
  let h0 := zlen st / 2 in
  let h1 := zlen (hd [] st) / 2 in
  forallb (fun i => forallb (fun j =>
      implb (negb ((i =? h0) && (j =? h1)) && get2 false st i j)
            (dim_okb (i - h0) (zlen image) && dim_okb (j - h1) (zlen (hd [] image))))
    (zrange (length (hd [] st)))) (zrange (length st)).

(* complete characterisation: the model fails exactly when the slices are incompatible, and
   otherwise returns the executable spec *)
Theorem regional_maximum_ties_char image mask (st : list (list bool)) :
  regional_maximum_ties image mask st
  = if slices_okb image st
    then Some (tab (length image) (length (hd [] image)) (reg_max_b image mask st)) else None.
Proof.
  unfold regional_maximum_ties, shape2, slices_okb, zlen. cbv beta iota zeta.
  set (h := length image). set (w := length (hd [] image)).
  set (h0 := Z.of_nat (length st) / 2). set (h1 := Z.of_nat (length (hd [] st)) / 2).
  assert (R1 : match mask with
               | None => tab h w (fun _ _ => true)
               | Some m => tab h w (fun y x => if negb (get2 false m y x) then false
                                               else get2 false (tab h w (fun _ _ => true)) y x)
               end = tab h w (mask_at mask)).
  { destruct mask as [m|]; [|reflexivity]. apply tab_ext. intros y x Hy Hx. cbn [mask_at].
    rewrite get2_tab by assumption. now destruct (get2 false m y x). }
  rewrite R1.
  rewrite (rm_fold_spec image mask st h0 h1) by
    (intros ij Hij; apply in_flat_map in Hij; destruct Hij as (i & Hi & Hij);
     apply in_map_iff in Hij; destruct Hij as (j & <- & Hj); apply In_zrange in Hi, Hj; cbn [fst snd]; lia).
  rewrite forallb_flat_map.
  replace (forallb (fun a => forallb (cell_ok image st h0 h1) (map (fun j => (a, j)) (zrange (length (hd [] st)))))
                   (zrange (length st)))
    with (forallb (fun i => forallb (fun j =>
            implb (negb ((i =? h0) && (j =? h1)) && get2 false st i j)
                  (dim_okb (i - h0) (Z.of_nat h) && dim_okb (j - h1) (Z.of_nat w)))
            (zrange (length (hd [] st)))) (zrange (length st))).
  2:{ apply forallb_ext'. intros i. rewrite forallb_map. reflexivity. }
  match goal with |- (if ?c then _ else _) = _ => destruct c; [|reflexivity] end.
  f_equal. apply tab_ext. intros y x _ _. unfold reg_max_b. f_equal.
  rewrite forallb_flat_map. apply forallb_ext'. intros i. rewrite forallb_map. apply forallb_ext'. intros j.
  reflexivity.
Qed.

Lemma dim_okb_fits off n : Z.abs off <= n -> dim_okb off n = true.
Proof. unfold dim_okb. lia. Qed.

(* in particular: every structure whose half shape fits into the image (3x3 on any non-empty image) *)
Lemma slices_okb_fits image (st : list (list bool)) :
  zlen st / 2 <= zlen image -> zlen (hd [] st) / 2 <= zlen (hd [] image) -> slices_okb image st = true.
Proof.
  unfold slices_okb, zlen. cbv zeta. intros A B. apply forallb_forall. intros i Hi.
  apply forallb_forall. intros j Hj. apply In_zrange in Hi, Hj.
  match goal with |- implb ?c _ = true => destruct c; [cbn [implb]|reflexivity] end.
  rewrite !dim_okb_fits; [reflexivity| |].
  - assert (0 <= Z.of_nat (length (hd [] st)) / 2 <= Z.of_nat (length (hd [] st))).
    { split; [apply Z.div_pos; lia|]. apply Z.div_le_upper_bound; lia. }
    assert (Z.of_nat (length (hd [] st)) <= 2 * (Z.of_nat (length (hd [] st)) / 2) + 1).
    { pose proof (Z.div_mod (Z.of_nat (length (hd [] st))) 2 ltac:(lia)).
      pose proof (Z.mod_pos_bound (Z.of_nat (length (hd [] st))) 2 ltac:(lia)). lia. }
    lia.
  - assert (0 <= Z.of_nat (length st) / 2 <= Z.of_nat (length st)).
    { split; [apply Z.div_pos; lia|]. apply Z.div_le_upper_bound; lia. }
    assert (Z.of_nat (length st) <= 2 * (Z.of_nat (length st) / 2) + 1).
    { pose proof (Z.div_mod (Z.of_nat (length st)) 2 ltac:(lia)).
      pose proof (Z.mod_pos_bound (Z.of_nat (length st)) 2 ltac:(lia)). lia. }
    lia.
Qed.

Theorem regional_maximum_ties_eq image mask (st : list (list bool)) :
  slices_okb image st = true ->
  regional_maximum_ties image mask st
  = Some (tab (length image) (length (hd [] image)) (reg_max_b image mask st)).
Proof. intros K. now rewrite regional_maximum_ties_char, K. Qed.

(* whenever the model returns, it returns the spec *)
Lemma regional_maximum_ties_Some image mask st result :
  regional_maximum_ties image mask st = Some result ->
  result = tab (length image) (length (hd [] image)) (reg_max_b image mask st).
Proof. rewrite regional_maximum_ties_char. destruct (slices_okb image st); congruence. Qed.

(* the slice arithmetic is NOT safe for every structure: a set cell 4 rows above the centre on
   a 3-row image makes image[0:-1] (2 rows) meet image[4:3] (0 rows): NumPy raises ValueError *)
Theorem regional_maximum_slices_refuted :
  exists image st, regional_maximum_ties image None st = None.
Proof.
  exists [[0; 0; 0]; [0; 0; 0]; [0; 0; 0]].
  exists [[false; true; false]; [false; false; false]; [false; false; false]; [false; false; false];
          [false; true; false]; [false; false; false]; [false; false; false]; [false; false; false];
          [false; false; false]].
  vm_compute. reflexivity.
Qed.

Lemma reg_max_b_spec image mask st y x :
  reg_max_b image mask st y x = true <-> reg_max_at image mask st y x.
Proof.
  unfold reg_max_b, reg_max_at, zlen. cbv zeta. rewrite andb_true_iff, forallb_forall.
  split; intros [M0 A]; (split; [exact M0|]).
  - intros i j Hi Hj C S. specialize (A i (proj2 (In_zrange _ _) Hi)). rewrite forallb_forall in A.
    specialize (A j (proj2 (In_zrange _ _) Hj)). rewrite S in A.
    replace ((i =? Z.of_nat (length st) / 2) && (j =? Z.of_nat (length (hd [] st)) / 2)) with false in A by lia.
    cbn [negb andb implb] in A. unfold nb_ok, zlen in A.
    rewrite !andb_true_iff in A. lia.
  - intros i Hi. apply forallb_forall. intros j Hj. apply In_zrange in Hi, Hj.
    match goal with |- implb ?c ?d = true => destruct c eqn:C; [cbn [implb]|reflexivity] end.
    rewrite andb_true_iff, negb_true_iff in C. destruct C as [C S].
    destruct (A i j Hi Hj) as (I1 & M & L); [lia | exact S |].
    unfold nb_ok, zlen. rewrite M. cbn [andb]. rewrite !andb_true_iff. lia.
Qed.

(* the statement of the property for the ties-allowed form: every image shape, every mask,
   every structure shape and content for which NumPy's shifted slices are compatible *)
Theorem regional_maximum_ties_spec image mask (st : list (list bool)) :
  let h := length image in
  let w := length (hd [] image) in
  slices_okb image st = true ->
  exists out, regional_maximum_ties image mask st = Some out /\ wf h w out /\
    forall y x, 0 <= y < Z.of_nat h -> 0 <= x < Z.of_nat w ->
      (get2 false out y x = true <-> reg_max_at image mask st y x).
Proof.
  intros h w K. eexists. split; [now apply regional_maximum_ties_eq|].
  split; [apply tab_wf|]. intros y x Hy Hx. rewrite get2_tab by assumption. apply reg_max_b_spec.
Qed.

Example regional_maximum_ties_example :
  (* a 2x2 plateau, a masked pixel, the 4-connected structure *)
  regional_maximum_ties
    [[0; 0; 0; 0; 0]; [0; 3; 3; 1; 0]; [0; 3; 3; 0; 0]; [0; 0; 0; 2; 0]; [0; 0; 0; 0; 0]]
    (Some [[true; true; true; true; true]; [true; true; true; true; true]; [true; true; true; true; true];
           [true; true; true; true; false]; [true; true; true; true; true]])
    [[false; true; false]; [true; true; true]; [false; true; false]]
  = Some [[false; false; false; false; false]; [false; true; true; false; false];
          [false; true; true; false; false]; [false; false; false; false; false];
          [false; false; false; false; false]].
Proof. vm_compute. reflexivity. Qed.

Theorem rm_check_sound image mask st out : rm_check image mask st out = true ->
  wf (length image) (length (hd [] image)) out /\
  forall y x, 0 <= y < zlen image -> 0 <= x < zlen (hd [] image) ->
    (get2 false out y x = true <-> reg_max_at image mask st y x).
Proof.
  intros C. apply grid_eqb_sound in C. destruct C as [Hw A]. split; [exact Hw|].
  intros y x Hy Hx. rewrite (A y x Hy Hx). apply reg_max_b_spec.
Qed.
