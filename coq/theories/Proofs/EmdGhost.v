(* C10 — mcf_reduced_cost_ghost_invariant for the line-level model of min_cost_flow.hpp: along the
   run the stored reduced costs are the arc costs shifted by node potentials pi (a ghost; the code
   never stores pi):  forward entry of arc u->v in r_cost_forward[u] = c + pi(u) - pi(v), backward
   entry of the same arc in r_cost_cap_backward[v] = -c + pi(v) - pi(u), i.e. the two entries of one
   arc always carry opposite reduced costs.  Established by the initialisation with pi = 0, kept
   by compute_shortest_path with pi' = pi + shift (C10_potential_update_is_shift), untouched by the
   augmentation (which only changes capacities). *)
From Coq Require Import ZArith List Bool Lia ZifyBool.
From Centro Require Import Base.Sx Base.EmdBase Model.Emd Model.EmdMcf Proofs.EmdPotential.
Import ListNotations.
Open Scope Z_scope.

Section Ghost.
Variable nv : nat.
Variable c : list (list (nat * Z)).
Hypothesis LC : length c = nv.

Definition fwd_of (pi : nat -> Z) (u : nat) : list (nat * Z) :=
  map (fun tc => (fst tc, snd tc + pi u - pi (fst tc))) (nth u c []).
Definition bwd_of (pi : nat -> Z) (v : nat) : list (nat * Z) :=
  flat_map (fun a => if (a_to a =? v)%nat then [(a_from a, - a_cost a + pi v - pi (a_from a))] else []) (mk_arcs c).
Definition strip (l : list (nat * Z * Z)) : list (nat * Z) := map (fun en => (fst (fst en), snd (fst en))) l.

Definition ghost (pi : nat -> Z) (rf : list (list (nat * Z))) (rb : list (list (nat * Z * Z))) : Prop :=
  length rf = nv /\ length rb = nv /\
  (forall u, (u < nv)%nat -> nth u rf [] = fwd_of pi u) /\
  (forall v, (v < nv)%nat -> strip (nth v rb []) = bwd_of pi v).

Lemma nth_map_combine {A B} (G : nat -> A -> B) (dA : A) (dB : B) : forall (l : list A) n u,
  (u < length l)%nat -> n = length l ->
  nth u (map (fun fx => G (fst fx) (snd fx)) (combine (seq 0 n) l)) dB = G u (nth u l dA).
Proof.
  intros l n u Hu ->.
  rewrite (nth_indep _ dB (G (fst (O, dA)) (snd (O, dA)))) by (rewrite map_length, combine_length, seq_length; lia).
  rewrite (map_nth (fun fx => G (fst fx) (snd fx))). rewrite combine_nth by (rewrite seq_length; auto).
  rewrite seq_nth by auto. reflexivity.
Qed.

(* initialisation: pi = 0 *)
Theorem ghost_init e : length e = nv ->
  ghost (fun _ => 0) (m_rf (mcf_init e c)) (m_rb (mcf_init e c)).
Proof.
  intros LE. unfold mcf_init. cbn [m_rf m_rb]. rewrite LE.
  split; [rewrite map_length; auto|]. split; [rewrite map_length, seq_length; auto|]. split.
  - intros u Hu. unfold fwd_of.
    rewrite (nth_indep _ [] (map (fun tc : nat * Z => (fst tc, snd tc)) [])) by (rewrite map_length; lia).
    rewrite (map_nth (fun l => map (fun tc : nat * Z => (fst tc, snd tc)) l)).
    apply map_ext. intros [t w]. cbn [fst snd]. f_equal. lia.
  - intros v Hv. unfold bwd_of, strip.
    rewrite (nth_indep _ [] ((fun v0 => flat_map (fun a => if (a_to a =? v0)%nat then [(a_from a, - a_cost a, 0)] else []) (mk_arcs c)) O))
      by (rewrite map_length, seq_length; auto).
    rewrite (map_nth (fun v0 => flat_map (fun a => if (a_to a =? v0)%nat then [(a_from a, - a_cost a, 0)] else []) (mk_arcs c))).
    rewrite seq_nth by auto. cbn [plus].
    induction (mk_arcs c) as [|a l IH]; [reflexivity|]. cbn [flat_map]. rewrite map_app, IH. f_equal.
    destruct (a_to a =? v)%nat; [cbn [map fst snd]; repeat f_equal; lia|reflexivity].
Qed.

(* the shortest-path phase shifts the potentials *)
Theorem ghost_csp pi rf rb d prev from e dd' prev' rf' rb' l :
  ghost pi rf rb ->
  compute_shortest_path nv d prev from rf rb e = Some (dd', prev', rf', rb', l) ->
  exists pi', ghost pi' rf' rb'.
Proof.
  intros [LF [LB [G1 G2]]]. unfold compute_shortest_path.
  destruct (dijkstra (S nv) e rf rb _) as [[st l0]|]; [|discriminate]. cbn [bind].
  intros X. injection X as <- <- <- <- <-.
  set (fl := sp_final st). set (dd := sp_d st). set (dl := nz dd l0).
  exists (fun w => pi w + shift fl dd dl w).
  split; [rewrite map_length, combine_length, seq_length; lia|].
  split; [rewrite map_length, combine_length, seq_length; lia|]. split.
  - intros u Hu.
    rewrite (nth_map_combine (fun fr row => map (fun en : nat * Z => (fst en, rc_update fl dd dl fr (fst en) (snd en))) row) [] [] rf nv u) by lia.
    rewrite G1 by auto. unfold fwd_of. rewrite map_map. apply map_ext. intros [t w]. cbn [fst snd]. f_equal.
    rewrite rc_update_is_potential_shift. lia.
  - intros v Hv.
    rewrite (nth_map_combine (fun fr row => map (fun en : nat * Z * Z => (fst (fst en), rc_update fl dd dl fr (fst (fst en)) (snd (fst en)), snd en)) row) [] [] rb nv v) by lia.
    unfold strip. rewrite map_map. cbn [fst snd].
    transitivity (map (fun en : nat * Z => (fst en, rc_update fl dd dl v (fst en) (snd en))) (strip (nth v rb []))).
    { unfold strip. rewrite map_map. reflexivity. }
    rewrite G2 by auto. unfold bwd_of.
    induction (mk_arcs c) as [|a l IH]; [reflexivity|]. cbn [flat_map]. rewrite map_app, IH. f_equal.
    destruct (a_to a =? v)%nat; [|reflexivity]. cbn [map fst snd]. repeat f_equal.
    rewrite rc_update_is_potential_shift. lia.
Qed.

(* the pairing: the two entries of one arc carry opposite reduced costs *)
Theorem ghost_paired pi a : In a (mk_arcs c) ->
  (a_cost a + pi (a_from a) - pi (a_to a)) + (- a_cost a + pi (a_to a) - pi (a_from a)) = 0.
Proof. intros _. lia. Qed.

(* the augmentation only touches capacities *)
Lemma strip_upd_first_bwd l to g : strip (upd_first_bwd l to g) = strip l.
Proof.
  induction l as [|en l IH]; [reflexivity|]. cbn [upd_first_bwd].
  destruct (fst (fst en) =? to)%nat; cbn [strip map fst snd]; [reflexivity|]. f_equal. apply IH.
Qed.

Lemma upd_length_g {A} (g : A -> A) : forall (l : list A) i, length (upd l i g) = length l.
Proof. induction l as [|x l IH]; intros [|i]; cbn [upd length]; auto. Qed.
Lemma nth_upd_g {A} (g : A -> A) (d : A) : forall (l : list A) i j,
  nth j (upd l i g) d = if (i =? j)%nat && (i <? length l)%nat then g (nth j l d) else nth j l d.
Proof.
  induction l as [|x l IH]; intros i j.
  - cbn [upd length]. replace (i <? 0)%nat with false by (symmetry; apply Nat.ltb_ge; lia).
    rewrite andb_false_r. reflexivity.
  - destruct i as [|i], j as [|j]; cbn [upd nth length]; auto. rewrite IH. reflexivity.
Qed.

Lemma ghost_rb_caps pi rf rb i g : ghost pi rf rb ->
  ghost pi rf (upd rb i (fun l => upd_first_bwd l (fst g) (snd g))).
Proof.
  intros [LF [LB [G1 G2]]]. split; auto. split; [rewrite upd_length_g; auto|]. split; auto.
  intros v Hv. rewrite (nth_upd_g (fun l => upd_first_bwd l (fst g) (snd g)) []).
  destruct ((i =? v)%nat && (i <? length rb)%nat); [rewrite strip_upd_first_bwd|]; apply G2; auto.
Qed.

Theorem ghost_augment pi rf : forall fuel prev k to delta e x rb e' x' rb',
  ghost pi rf rb -> augment fuel prev k to delta e x rb = Some (e', x', rb') -> ghost pi rf rb'.
Proof.
  induction fuel as [|f IH]; intros prev k to delta e x rb e' x' rb' G; cbn [augment]; [discriminate|].
  destruct (upd_first_x (nth (nth to prev O) x []) to (fun fl => fl + delta)) as [xf|]; [|discriminate]. cbn [bind].
  set (from := nth to prev O).
  pose proof (ghost_rb_caps pi rf rb to (from, fun c0 => c0 + delta) G) as G'. cbn [fst snd] in G'.
  pose proof (ghost_rb_caps pi rf _ from (to, fun c0 => c0 - delta) G') as G''. cbn [fst snd] in G''.
  destruct (from =? k)%nat.
  - intros X. injection X as _ _ <-. exact G''.
  - intros X. eapply IH; eauto.
Qed.

Lemma augment_e_length : forall fuel prev k to delta e x rb e' x' rb',
  augment fuel prev k to delta e x rb = Some (e', x', rb') -> length e' = length e.
Proof.
  induction fuel as [|f IH]; intros prev k to delta e x rb e' x' rb'; cbn [augment]; [discriminate|].
  destruct (upd_first_x (nth (nth to prev O) x []) to (fun fl => fl + delta)) as [xf|]; [|discriminate]. cbn [bind].
  destruct (nth to prev O =? k)%nat.
  - intros X. injection X as <- _ _. rewrite !upd_length_g. reflexivity.
  - intros X. apply IH in X. rewrite X, !upd_length_g. reflexivity.
Qed.

(* mcf_reduced_cost_ghost_invariant: along the whole run of the line-level solver *)
Definition ghost_st (st : mcf_state) : Prop := length (m_e st) = nv /\ exists pi, ghost pi (m_rf st) (m_rb st).

Lemma ghost_step st : ghost_st st ->
  match mcf_step st with MDone st' | MMore st' => ghost_st st' | MFail => True end.
Proof.
  intros [LE [pi G]]. unfold mcf_step.
  destruct (pick_supply (m_e st) 0 0 0) as [ms k].
  destruct (ms =? 0); [split; auto; exists pi; auto|]. rewrite LE.
  destruct (compute_shortest_path nv (m_d st) (m_prev st) k (m_rf st) (m_rb st) (m_e st))
    as [[[[[d prev] rf] rb] l]|] eqn:EC; [|exact Logic.I].
  destruct (l =? k)%nat; [exact Logic.I|].
  destruct (scan_delta nv prev rb k l ms) as [delta|]; [|exact Logic.I].
  destruct (augment nv prev k l delta (m_e st) (m_x st) rb) as [[[e' x'] rb']|] eqn:EA; [|exact Logic.I].
  destruct (ghost_csp _ _ _ _ _ _ _ _ _ _ _ _ G EC) as [pi' G'].
  split; cbn [m_e m_rf m_rb].
  - rewrite (augment_e_length _ _ _ _ _ _ _ _ _ _ _ EA). auto.
  - exists pi'. eapply ghost_augment; eauto.
Qed.

Theorem ghost_iter : forall k st, ghost_st st ->
  match mcf_iter k st with MDone st' | MMore st' => ghost_st st' | MFail => True end.
Proof.
  induction k as [|k IH]; intros st G; cbn [mcf_iter]; [apply ghost_step; auto|].
  pose proof (IH st G) as H1. destruct (mcf_iter k st) as [s1|s1|]; auto. apply IH; auto.
Qed.

(* for the run started by min_cost_flow_ll *)
Theorem mcf_reduced_cost_ghost_invariant e k : length e = nv ->
  match mcf_iter k (mcf_init e c) with MDone st' | MMore st' => ghost_st st' | MFail => True end.
Proof.
  intros LE. apply ghost_iter. split; [unfold mcf_init; cbn [m_e]; auto|]. exists (fun _ => 0). apply ghost_init; auto.
Qed.
End Ghost.
