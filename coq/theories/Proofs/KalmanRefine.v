(* C09 — the batched kalman_filter of Model/Kalman.v refines the per-feature textbook step of
   Spec/Kalman.v, for every history of frames. *)
From Coq Require Import ZArith List Bool Lia Arith QArith Qcanon.
From Centro Require Import Gen.ConstsC09 Model.Kalman Spec.Kalman Proofs.KalmanLists Proofs.KalmanHist.
Import ListNotations.
Open Scope nat_scope.

(* ------------------------------------------------------------------ nth through maps, default [] *)
Lemma nth_map_nil {A B} (f : list A -> list B) l k : k < length l -> nth k (map f l) [] = f (nth k l []).
Proof. apply nth_map_lt. Qed.
Lemma nth_map2_nil {A B C} (f : list A -> list B -> list C) l1 l2 k :
  k < length l1 -> k < length l2 -> nth k (map2 f l1 l2) [] = f (nth k l1 []) (nth k l2 []).
Proof. apply nth_map2_lt. Qed.

Ltac len := unfold dot_n_23, dot_n_32, dot_n_33, inv_n; repeat rewrite ?map_length, ?map2_length, ?gather_length; lia.

(* ------------------------------------------------------------------ reverse_indices *)
Definition revf (nold : nat) (oi : list nat) (i : nat) : option nat :=
  nth i (scatter (repeat None nold) oi (map Some (seq 0 (length oi)))) None.

Lemma revf_hit nold oi j : NoDup oi -> (forall i, In i oi -> i < nold) -> j < length oi ->
  revf nold oi (nth j oi 0) = Some j.
Proof.
  intros Hn Hr Hj. unfold revf. rewrite nth_scatter_in; try assumption.
  - rewrite (nth_map_lt Some _ _ 0) by (rewrite seq_length; exact Hj). rewrite seq_nth by exact Hj. reflexivity.
  - rewrite map_length, seq_length. exact Hj.
  - rewrite repeat_length. apply Hr. apply nth_In. exact Hj.
Qed.

Lemma revf_spec nold oi j : NoDup oi -> (forall i, In i oi -> i < nold) -> j < length oi ->
  forall i, revf nold oi i = Some j <-> i = nth j oi 0.
Proof.
  intros Hn Hr Hj i. split.
  - intros H. destruct (in_dec Nat.eq_dec i oi) as [Hi|Hi].
    + destruct (In_nth _ _ 0 Hi) as [j' [Hj' E]]. subst i.
      rewrite revf_hit in H by assumption. congruence.
    + unfold revf in H. rewrite nth_scatter_notin in H by exact Hi. rewrite nth_repeat_None in H. discriminate.
  - intros ->. apply revf_hit; assumption.
Qed.

Lemma revf_range nold oi i j : revf nold oi i = Some j -> j < length oi.
Proof.
  unfold revf. intros H.
  destruct (nth_in_or_default i (scatter (repeat None nold) oi (map Some (seq 0 (length oi)))) None) as [Hi|Hd];
    [|congruence].
  rewrite H in Hi. apply In_scatter in Hi. destruct Hi as [Hi|Hi].
  - apply repeat_spec in Hi. discriminate.
  - apply in_map_iff in Hi. destruct Hi as [x [E Hx]]. apply in_seq in Hx. injection E as ->. lia.
Qed.

Lemma renumber_combine {V} f si (sn : list V) : length sn = length si ->
  combine (somes (map f si)) (mask (map is_some (map f si)) sn) = renumber f (combine si sn).
Proof.
  revert sn. induction si as [|i si IH]; intros [|v sn] H; cbn [length] in H; try discriminate; [reflexivity|].
  injection H as H. cbn [map combine renumber]. destruct (f i); cbn [is_some somes mask combine]; rewrite IH by exact H; reflexivity.
Qed.

Lemma mask_somes_length {A V} (l : list (option A)) (sn : list V) : length sn = length l ->
  length (mask (map is_some l) sn) = length (somes l).
Proof.
  revert sn. induction l as [|[a|] l IH]; intros [|v sn] H; cbn [length] in H; try discriminate; [reflexivity| |];
    injection H as H; cbn [map is_some mask somes length]; rewrite IH by exact H; reflexivity.
Qed.

Lemma renumber_total {V} g si (sn : list V) :
  combine (map g si) sn = renumber (fun i => Some (g i)) (combine si sn).
Proof.
  revert sn. induction si as [|i si IH]; intros [|v sn]; cbn [map combine renumber]; try reflexivity.
  rewrite IH. reflexivity.
Qed.

Lemma renumber_fst_range {V} f (r : list (nat * V)) n :
  (forall i j, f i = Some j -> j < n) -> forall j, In j (map fst (renumber f r)) -> j < n.
Proof.
  intros Hf. induction r as [|[i v] r IH]; cbn [renumber]; intros j Hj; [destruct Hj|].
  destruct (f i) as [i'|] eqn:E; [|apply IH; exact Hj].
  cbn [map fst In] in Hj. destruct Hj as [<-|Hj]; [eapply Hf; exact E|apply IH; exact Hj].
Qed.

(* ------------------------------------------------------------------ map_frames *)
Lemma map_frames_spec s oi : wf s -> 0 < length oi ->
  let ks := map_frames (deep_copy s) oi in
  om ks = om s /\ tm ks = tm s /\ svec ks = gather (svec s) oi [] /\ scov ks = gather (scov s) oi [] /\
  rows ks = renumber (revf (length (svec s)) oi) (rows s) /\ wf ks.
Proof.
  intros Hw Hl. unfold map_frames, deep_copy, rows, wf in *. cbn [om tm svec scov nvar snoise sidx].
  destruct (Nat.ltb_spec 0 (length oi)) as [_|C]; [|lia].
  destruct (Nat.ltb_spec 0 (length (sidx s))) as [Hs|Hs]; cbn [om tm svec scov nvar snoise sidx].
  - repeat split; try reflexivity.
    + unfold gather at 1 2. apply (renumber_combine (revf (length (svec s)) oi)). exact Hw.
    + apply mask_somes_length. rewrite gather_length. exact Hw.
  - assert (E : sidx s = []) by (destruct (sidx s); [reflexivity|cbn [length] in Hs; lia]).
    rewrite E in *. destruct (snoise s); [|discriminate]. repeat split; reflexivity.
Qed.

(* ------------------------------------------------------------------ the stacked update, per feature *)
Lemma update_stack_spec ks coords qm rm m :
  length (svec ks) = m -> length (scov ks) = m -> length coords = m -> length qm = m -> length rm = m ->
  let U := update_stack ks coords qm rm in
  length (fst (fst U)) = m /\ length (snd (fst U)) = m /\ length (snd U) = m /\
  forall j, j < m ->
    let A := tm ks in let H := om ks in
    let xp := predict_x A (nth j (svec ks) []) in
    let Pp := predict_P A (nth j (scov ks) []) (nth j qm []) in
    let K := gain H Pp (nth j rm []) in
    let c := correction H K xp (nth j coords []) in
    nth j (fst (fst U)) [] = vadd xp c /\ nth j (snd (fst U)) [] = update_P H K Pp /\ nth j (snd U) [] = c.
Proof.
  intros L1 L2 L3 L4 L5. unfold update_stack. cbn [fst snd].
  split; [len|]. split; [len|]. split; [len|].
  intros j Hj. cbn zeta.
  unfold predict_x, predict_P, gain, innovation_cov, correction, update_P, mvec.
  unfold dot_n_23, dot_n_32, dot_n_33, inv_n. unfold vec, mat in *.
  repeat split;
    repeat (first [rewrite nth_map2_nil by len | rewrite nth_map_nil by len]); reflexivity.
Qed.

(* ------------------------------------------------------------------ grouped variance = own history *)
Lemma select_history idx (noise : list vec) i k : length noise = length idx ->
  select (map (fun row => nth i row 0%Qc) noise) idx k =
  map (fun row => nth i row 0%Qc) (history_of k (combine idx noise)).
Proof.
  unfold select, history_of. revert noise. induction idx as [|a idx IH]; intros [|v noise] H; cbn [length] in H;
    try discriminate; [reflexivity|].
  injection H as H. cbn [map combine filter fst]. destruct (Nat.eqb a k); cbn [map snd]; rewrite IH by exact H; reflexivity.
Qed.

Theorem variance_own_history idx (noise : list vec) sl k : length noise = length idx ->
  map (fun i => variance (map (fun row => nth i row 0%Qc) noise) idx k) (seq 0 sl) =
  var_cols sl (history_of k (combine idx noise)).
Proof.
  intros H. unfold var_cols, variance. apply map_ext. intros i. rewrite select_history by exact H. reflexivity.
Qed.

(* ------------------------------------------------------------------ the retained part of a frame *)
Definition retained (old : list (option nat)) : list nat := mask (map is_some old) (seq 0 (length old)).
Definition newidx (old : list (option nat)) : list nat := mask (map negb (map is_some old)) (seq 0 (length old)).

(* the state after the measurement update, before add_features (the first [if] of kalman_filter) *)
Definition s2_of (s : kstate) (old_indices : list (option nat)) (coordinates : list vec) (q r : list mat) : kstate :=
  let n := length old_indices in
  let matching := map is_some old_indices in
  let retained_indices := mask matching (seq 0 n) in
    if Nat.ltb 0 (length retained_indices) then
      let ks := deep_copy s in
      let coords := gather coordinates retained_indices [] in
      let ks := map_frames ks (somes (gather old_indices retained_indices None)) in
      let '(state_vec, state_cov, state_noise) := update_stack ks coords (mask matching q) (mask matching r) in
      let idx := seq 0 (length state_noise) in
      let all_state_noise := snoise ks ++ state_noise in
      let all_state_noise_idx := sidx ks ++ idx in
      let noise_var :=
        map (fun k => map (fun i => variance (map (fun row => nth i row 0%Qc) all_state_noise) all_state_noise_idx k)
                          (seq 0 (state_len ks))) idx in
      mkK (om ks) (tm ks) state_vec state_cov noise_var all_state_noise all_state_noise_idx
    else fresh (om s) (tm s).

Lemma kalman_filter_unfold s old coords q r :
  kalman_filter s old coords q r =
  if Nat.eqb (length old) 0 then fresh (om s) (tm s) else
  let s2 := s2_of s old coords q r in
  if Nat.ltb 0 (length (gather coords (newidx old) [])) then
    add_features s2 (retained old) (newidx old)
      (map uncol (dot_n_23 (mtrans (om s)) (map colm (gather coords (newidx old) []))))
      (repeat (diag (init_cov_vec (om s))) (length (newidx old)))
      (repeat (repeat 1%Qc (state_len s2)) (length (newidx old)))
  else s2.
Proof. reflexivity. Qed.

Lemma map_fst_combine {A B} (a : list A) (b : list B) : length a = length b -> map fst (combine a b) = a.
Proof.
  revert b. induction a as [|x a IH]; intros [|y b] H; cbn [length] in H; try discriminate; [reflexivity|].
  cbn [combine map fst]. f_equal. apply IH. lia.
Qed.

Lemma combine_app_eq {A B} (a1 a2 : list A) (b1 b2 : list B) : length a1 = length b1 ->
  combine (a1 ++ a2) (b1 ++ b2) = combine a1 b1 ++ combine a2 b2.
Proof.
  revert b1. induction a1 as [|x a1 IH]; intros [|y b1] H; cbn [length] in H; try discriminate; [reflexivity|].
  cbn [app combine]. f_equal. apply IH. lia.
Qed.

Lemma somes_gather_retained (old : list (option nat)) : somes (gather old (retained old) None) = somes old.
Proof.
  unfold retained. replace (seq 0 (length old)) with (seq 0 (length (map is_some old))) by (rewrite map_length; reflexivity).
  rewrite <- (mask_gather (map is_some old) old None) by (rewrite map_length; reflexivity).
  apply somes_mask.
Qed.

Lemma mask_matching_gather {A} (old : list (option nat)) (l : list A) d : length l = length old ->
  mask (map is_some old) l = gather l (retained old) d.
Proof.
  intros H. unfold retained. replace (seq 0 (length old)) with (seq 0 (length (map is_some old))) by (rewrite map_length; reflexivity).
  apply mask_gather. rewrite map_length. exact H.
Qed.

Lemma nth_abs s o : o < length (svec s) -> nth o (abs s) feat0 = feat_at s o.
Proof.
  intros H. unfold abs. rewrite (nth_map_lt (feat_at s) _ _ 0) by (rewrite seq_length; exact H).
  rewrite seq_nth by exact H. reflexivity.
Qed.

Lemma s2_spec s old coords q r : wf s -> valid_frame (length (svec s)) (old, coords, q, r) ->
  let s2 := s2_of s old coords q r in
  let R := retained old in
  let oi := somes old in
  om s2 = om s /\ tm s2 = tm s /\ wf s2 /\
  length (svec s2) = length R /\ length (scov s2) = length R /\ length (nvar s2) = length R /\
  (forall i, In i (sidx s2) -> i < length R) /\
  forall j, j < length R ->
    feat_at s2 j = feat_step (tm s) (om s) (nth (nth j oi 0) (abs s) feat0)
                     (nth (nth j R 0) coords []) (nth (nth j R 0) q []) (nth (nth j R 0) r []).
Proof.
  intros Hw [Lc [Lq [Lr [Hrange Hnd]]]]. cbn zeta.
  destruct (retained_spec old) as [LR HR]. fold (retained old) in LR, HR.
  unfold s2_of. fold (retained old).
  destruct (Nat.ltb_spec 0 (length (retained old))) as [Hpos|Hz].
  2:{ cbn [fresh om tm svec scov nvar snoise sidx wf length]. repeat split; try lia.
      intros i []. }
  rewrite somes_gather_retained.
  assert (Hoi : 0 < length (somes old)) by lia.
  destruct (map_frames_spec s (somes old) Hw Hoi) as [Eom [Etm [Esv [Esc [Erows Hwk]]]]].
  set (ks := map_frames (deep_copy s) (somes old)) in *.
  rewrite (mask_matching_gather old q []) by exact Lq.
  rewrite (mask_matching_gather old r []) by exact Lr.
  set (m := length (retained old)) in *.
  assert (U := update_stack_spec ks (gather coords (retained old) []) (gather q (retained old) [])
                 (gather r (retained old) []) m).
  destruct U as [Lsv [Lsc [Lsn Hnth]]];
    try (rewrite ?Esv, ?Esc, ?gather_length; unfold m; lia).
  destruct (update_stack ks (gather coords (retained old) []) (gather q (retained old) []) (gather r (retained old) []))
    as [[sv sc] sn] eqn:EU.
  cbn [fst snd] in Lsv, Lsc, Lsn, Hnth.
  cbn [om tm svec scov nvar snoise sidx wf].
  assert (Hsidx : forall i, In i (sidx ks) -> i < m).
  { intros i Hi. rewrite <- (map_fst_combine (sidx ks) (snoise ks)) in Hi by (symmetry; exact Hwk).
    fold (rows ks) in Hi. rewrite Erows in Hi.
    eapply renumber_fst_range; [|exact Hi]. intros a b Hab. apply revf_range in Hab. unfold m. lia. }
  split; [exact Eom|]. split; [exact Etm|].
  split; [unfold wf in *; cbn [snoise sidx]; rewrite !app_length, seq_length; lia|].
  split; [exact Lsv|]. split; [exact Lsc|]. split; [rewrite map_length, seq_length; exact Lsn|].
  split.
  { intros i Hi. apply in_app_or in Hi. destruct Hi as [Hi|Hi]; [apply Hsidx; exact Hi|].
    apply in_seq in Hi. lia. }
  intros j Hj.
  assert (Ho : nth j (somes old) 0 < length (svec s)) by (apply Hrange; apply nth_In; lia).
  rewrite nth_abs by exact Ho.
  specialize (Hnth j Hj). cbn zeta in Hnth. destruct Hnth as [Hx [HP Hc]].
  rewrite ?Esv, ?Esc, ?Eom, ?Etm in Hx. rewrite ?Esv, ?Esc, ?Eom, ?Etm in HP. rewrite ?Esv, ?Esc, ?Eom, ?Etm in Hc.
  rewrite ?nth_gather in Hx by (unfold m in Hj; lia).
  rewrite ?nth_gather in HP by (unfold m in Hj; lia).
  rewrite ?nth_gather in Hc by (unfold m in Hj; lia).
  unfold wf in Hwk.
  (* the history of slot j *)
  assert (Hhist : history_of j (combine (sidx ks ++ seq 0 (length sn)) (snoise ks ++ sn)) =
                  history_of (nth j (somes old) 0) (rows s) ++ [nth j sn []]).
  { rewrite combine_app_eq by (symmetry; exact Hwk). fold (rows ks). rewrite !history_of_hist.
    rewrite (history_append j (rows ks) sn []) by lia. f_equal.
    rewrite Erows. apply history_renumber. intros i _.
    apply revf_spec; [exact Hnd|exact Hrange|lia]. }
  unfold feat_at, feat_step, rows. cbn [om tm svec scov nvar snoise sidx f_x f_P f_hist fst snd].
  fold (rows s). rewrite Hhist, Hx, HP.
  rewrite (nth_map_lt _ _ _ 0) by (rewrite seq_length; lia).
  rewrite seq_nth by lia. cbn [Nat.add].
  rewrite variance_own_history by (rewrite !app_length, seq_length; lia).
  rewrite Hhist. unfold state_len. rewrite Eom. rewrite Hc. reflexivity.
Qed.

(* ------------------------------------------------------------------ kept / new positions *)
Lemma retained_newidx_count old : length (retained old) + length (newidx old) = length old.
Proof.
  unfold retained, newidx. rewrite <- (map_length is_some old) at 3.
  apply mask_count. rewrite seq_length, map_length. reflexivity.
Qed.

Lemma In_retained old k : In k (retained old) <-> k < length old /\ is_some (nth k old None) = true.
Proof.
  unfold retained. replace (seq 0 (length old)) with (seq 0 (length (map is_some old))) by (rewrite map_length; reflexivity).
  rewrite In_mask_seq, map_length, Nat.sub_0_r.
  change false with (@is_some nat None). rewrite map_nth. split; intros [H1 H2]; (split; [lia|exact H2]).
Qed.

Lemma In_newidx old k : In k (newidx old) <-> k < length old /\ is_some (nth k old None) = false.
Proof.
  unfold newidx. replace (seq 0 (length old)) with (seq 0 (length (map negb (map is_some old)))) by (rewrite !map_length; reflexivity).
  rewrite In_mask_seq, !map_length, Nat.sub_0_r. split.
  - intros [H1 H2]. split; [lia|].
    rewrite (nth_indep _ false (negb true)) in H2 by (rewrite !map_length; lia).
    rewrite map_nth in H2. rewrite (nth_indep _ true (@is_some nat None)) in H2 by (rewrite map_length; lia).
    rewrite map_nth in H2. apply negb_true_iff in H2. exact H2.
  - intros [H1 H2]. split; [lia|].
    rewrite (nth_indep _ false (negb true)) by (rewrite !map_length; lia).
    rewrite map_nth. rewrite (nth_indep _ true (@is_some nat None)) by (rewrite map_length; lia).
    rewrite map_nth. rewrite H2. reflexivity.
Qed.

Lemma retained_NoDup old : NoDup (retained old).
Proof. apply mask_NoDup. apply seq_NoDup. Qed.
Lemma newidx_NoDup old : NoDup (newidx old).
Proof. apply mask_NoDup. apply seq_NoDup. Qed.
Lemma retained_newidx_disjoint old k : In k (retained old) -> ~ In k (newidx old).
Proof. rewrite In_retained, In_newidx. intros [_ H1] [_ H2]. congruence. Qed.

(* the two-stage scatter of add_features *)
Section TwoScatter.
Context {A : Type}.
Variables (v0 : list A) (R N : list nat) (xs ys : list A) (hk : bool) (d : A).
Let v1 := if hk then scatter v0 R xs else v0.
Let v2 := scatter v1 N ys.
Lemma two_scatter_length : length v2 = length v0.
Proof. unfold v2, v1. destruct hk; rewrite ?scatter_length; reflexivity. Qed.
Lemma two_scatter_kept j : NoDup R -> (forall x, In x R -> ~ In x N) -> hk = true ->
  j < length R -> j < length xs -> nth j R 0 < length v0 -> nth (nth j R 0) v2 d = nth j xs d.
Proof.
  intros Hn Hd -> H1 H2 H3. unfold v2, v1.
  assert (E : nth (nth j R 0) (scatter v0 R xs) d = nth j xs d) by (apply nth_scatter_in; assumption).
  rewrite nth_scatter_notin; [exact E|]. apply Hd. apply nth_In. exact H1.
Qed.
Lemma two_scatter_new j : NoDup N ->
  j < length N -> j < length ys -> nth j N 0 < length v0 -> nth (nth j N 0) v2 d = nth j ys d.
Proof.
  intros Hn H1 H2 H3. unfold v2. apply nth_scatter_in; try assumption.
  unfold v1. destruct hk; rewrite ?scatter_length; exact H3.
Qed.
End TwoScatter.

Lemma ltb_pos_true n : 0 < n -> Nat.ltb 0 n = true.
Proof. intros H. apply Nat.ltb_lt. exact H. Qed.

(* ------------------------------------------------------------------ one frame *)
Lemma nth_map_step A H st old coords q r k : k < length old ->
  nth k (map_step A H st (old, coords, q, r)) feat0 =
  match nth k old None with
  | Some o => feat_step A H (nth o st feat0) (nth k coords []) (nth k q []) (nth k r [])
  | None => feat_new H (nth k coords [])
  end.
Proof.
  intros Hk. unfold map_step. rewrite (nth_map_lt _ _ _ 0) by (rewrite seq_length; exact Hk).
  rewrite seq_nth by exact Hk. reflexivity.
Qed.

Lemma kf_step s old coords q r : wf s -> valid_frame (length (svec s)) (old, coords, q, r) ->
  let s' := kalman_filter s old coords q r in
  om s' = om s /\ tm s' = tm s /\ wf s' /\ length (svec s') = length old /\
  forall k, k < length old ->
    feat_at s' k = nth k (map_step (tm s) (om s) (abs s) (old, coords, q, r)) feat0.
Proof.
  intros Hw Hv. cbn zeta. rewrite kalman_filter_unfold.
  destruct (Nat.eqb_spec (length old) 0) as [Hz|Hnz].
  { cbn [fresh om tm svec scov nvar snoise sidx wf length]. repeat split; try lia. }
  destruct (s2_spec s old coords q r Hw Hv) as [Eom [Etm [Hw2 [Lsv [Lsc [Lnv [Hidx Hfeat]]]]]]].
  destruct Hv as [Lc [Lq [Lr [Hrange Hnd]]]].
  destruct (retained_spec old) as [LR HR]. fold (retained old) in LR, HR.
  assert (Hcount := retained_newidx_count old).
  cbn zeta. set (s2 := s2_of s old coords q r) in *.
  rewrite gather_length.
  (* every kept position k is some retained slot j *)
  assert (Hkept : forall k o, k < length old -> nth k old None = Some o ->
            exists j, j < length (retained old) /\ nth j (retained old) 0 = k /\ nth j (somes old) 0 = o).
  { intros k o Hk Ho. assert (Hin : In k (retained old)) by (apply In_retained; split; [exact Hk|rewrite Ho; reflexivity]).
    destruct (In_nth _ _ 0 Hin) as [j [Hj Ej]]. exists j. split; [exact Hj|]. split; [exact Ej|].
    specialize (HR j Hj). rewrite Ej, Ho in HR. congruence. }
  destruct (Nat.ltb_spec 0 (length (newidx old))) as [Hnew|Hnone].
  2:{ (* no new feature: the result is s2 and retained = arange(n) *)
    assert (HN : newidx old = []) by (destruct (newidx old); [reflexivity|cbn [length] in Hnone; lia]).
    assert (Hall : forall b, In b (map is_some old) -> b = true).
    { apply (mask_neg_nil_all_true (map is_some old) (seq 0 (length old))); [rewrite seq_length, map_length; reflexivity|exact HN]. }
    assert (ER : retained old = seq 0 (length old)).
    { unfold retained. apply mask_all_true; [rewrite seq_length, map_length; reflexivity|exact Hall]. }
    split; [exact Eom|]. split; [exact Etm|]. split; [exact Hw2|].
    split; [rewrite Lsv, ER, seq_length; reflexivity|].
    intros k Hk. rewrite nth_map_step by exact Hk.
    assert (Hj : k < length (retained old)) by (rewrite ER, seq_length; exact Hk).
    assert (Ek : nth k (retained old) 0 = k) by (rewrite ER; apply seq_nth; exact Hk).
    specialize (HR k Hj). rewrite Ek in HR. rewrite HR.
    rewrite (Hfeat k Hj), Ek. reflexivity. }
  (* add_features *)
  unfold add_features. cbn [om tm svec scov nvar snoise sidx].
  rewrite (ltb_pos_true _ Hnew).
  set (hk := Nat.ltb 0 (length (retained old))).
  assert (Eidx : (if hk && Nat.ltb 0 (length (sidx s2)) then gather (retained old) (sidx s2) 0 else sidx s2) =
                 map (fun i => nth i (retained old) 0) (sidx s2)).
  { destruct (sidx s2) as [|i0 rest] eqn:Es; [destruct (hk && _); reflexivity|].
    assert (Hpos : 0 < length (retained old)) by (specialize (Hidx i0 (or_introl eq_refl)); lia).
    unfold hk. rewrite (ltb_pos_true _ Hpos). cbn [length Nat.ltb Nat.leb andb]. reflexivity. }
  rewrite Eidx.
  split; [exact Eom|]. split; [exact Etm|].
  split; [unfold wf in *; cbn [snoise sidx]; rewrite map_length; exact Hw2|].
  split; [rewrite two_scatter_length, repeat_length; lia|].
  intros k Hk. rewrite nth_map_step by exact Hk.
  unfold feat_at, rows. cbn [om tm svec scov nvar snoise sidx].
  rewrite renumber_total. fold (rows s2). rewrite history_of_hist.
  destruct (nth k old None) as [o|] eqn:Ho.
  - (* kept feature *)
    destruct (Hkept k o Hk Ho) as [j [Hj [Ej Eo]]].
    assert (Hhk : hk = true) by (unfold hk; apply ltb_pos_true; lia).
    rewrite <- Ej at 1 2 3.
    rewrite !two_scatter_kept; try assumption; try apply retained_NoDup; try apply retained_newidx_disjoint;
      try (rewrite repeat_length); try lia.
    rewrite (history_renumber _ k j).
    + change (hist j (rows s2)) with (history_of j (rows s2)).
      specialize (Hfeat j Hj). unfold feat_at in Hfeat. rewrite Hfeat, Ej, Eo. reflexivity.
    + intros i Hi. apply in_combine_fst in Hi. specialize (Hidx i Hi). split.
      * intros E. injection E as E. rewrite <- Ej in E.
        apply (NoDup_nth (retained old) 0); [apply retained_NoDup|exact Hidx|exact Hj|exact E].
      * intros ->. rewrite Ej. reflexivity.
  - (* new feature *)
    assert (Hin : In k (newidx old)) by (apply In_newidx; split; [exact Hk|rewrite Ho; reflexivity]).
    destruct (In_nth _ _ 0 Hin) as [j [Hj Ej]].
    rewrite <- Ej at 1 2 3.
    rewrite !two_scatter_new; try apply newidx_NoDup; try reflexivity; try exact Hj;
      try (rewrite ?repeat_length, ?map_length; unfold dot_n_23; rewrite ?map_length, ?gather_length; lia).
    rewrite history_renumber_none.
    + unfold feat_new, mvec, dot_n_23. unfold vec, mat in *.
      rewrite !nth_map_nil by (rewrite ?map_length, ?gather_length; exact Hj).
      rewrite nth_gather by exact Hj. rewrite Ej.
      rewrite !nth_repeat_lt by exact Hj. unfold state_len. rewrite Eom. reflexivity.
    + intros i Hi E. apply in_combine_fst in Hi. specialize (Hidx i Hi). injection E as E.
      apply (retained_newidx_disjoint old k); [rewrite <- E; apply nth_In; exact Hidx|exact Hin].
Qed.

(* ------------------------------------------------------------------ the refinement theorems *)
Lemma abs_length s : length (abs s) = length (svec s).
Proof. unfold abs. rewrite map_length, seq_length. reflexivity. Qed.

Lemma map_step_length A H st old coords q r : length (map_step A H st (old, coords, q, r)) = length old.
Proof. unfold map_step. rewrite map_length, seq_length. reflexivity. Qed.

Theorem kalman_step_refines s old coords q r :
  wf s -> valid_frame (length (svec s)) (old, coords, q, r) ->
  abs (kalman_filter s old coords q r) = map_step (tm s) (om s) (abs s) (old, coords, q, r).
Proof.
  intros Hw Hv. destruct (kf_step s old coords q r Hw Hv) as [_ [_ [_ [L Hk]]]].
  apply (nth_ext_lt _ _ feat0).
  - rewrite abs_length, map_step_length. exact L.
  - intros k Hlt. rewrite abs_length in Hlt. rewrite nth_abs by exact Hlt. apply Hk. lia.
Qed.

Lemma kf_invariants s f : wf s -> valid_frame (length (svec s)) f ->
  om (kf s f) = om s /\ tm (kf s f) = tm s /\ wf (kf s f) /\
  length (svec (kf s f)) = length (fst (fst (fst f))) /\
  abs (kf s f) = map_step (tm s) (om s) (abs s) f.
Proof.
  destruct f as [[[o c] q] r]. intros Hw Hv. cbn [kf fst].
  destruct (kf_step s o c q r Hw Hv) as [E1 [E2 [W [L _]]]].
  repeat split; try assumption. apply kalman_step_refines; assumption.
Qed.

(* the states after every frame *)
Theorem kalman_refines_trace : forall fs s, wf s -> valid_frames (length (svec s)) fs ->
  map abs (run_trace s fs) = spec_trace (tm s) (om s) (abs s) fs.
Proof.
  induction fs as [|f fs IH]; intros s Hw Hv; [reflexivity|].
  destruct Hv as [Hv Hvs]. destruct (kf_invariants s f Hw Hv) as [E1 [E2 [W [L E]]]].
  cbn [run_trace spec_trace map]. rewrite <- E. f_equal.
  rewrite <- E1, <- E2. apply IH; [exact W|rewrite L; exact Hvs].
Qed.

(* the final state *)
Theorem kalman_refines : forall fs s, wf s -> valid_frames (length (svec s)) fs ->
  abs (run s fs) = spec_run (tm s) (om s) (abs s) fs.
Proof.
  induction fs as [|f fs IH]; intros s Hw Hv; [reflexivity|].
  destruct Hv as [Hv Hvs]. destruct (kf_invariants s f Hw Hv) as [E1 [E2 [W [L E]]]].
  unfold run, spec_run. cbn [fold_left]. rewrite <- E. rewrite <- E1, <- E2.
  apply IH; [exact W|rewrite L; exact Hvs].
Qed.

(* a kept feature's result depends on its own previous tuple and its own z, q, r only: not on
   its index, on the other features, on their number or order *)
Theorem feature_independent s1 s2 o1 c1 q1 r1 o2 c2 q2 r2 k1 k2 i1 i2 :
  wf s1 -> wf s2 -> valid_frame (length (svec s1)) (o1, c1, q1, r1) -> valid_frame (length (svec s2)) (o2, c2, q2, r2) ->
  om s1 = om s2 -> tm s1 = tm s2 ->
  k1 < length o1 -> k2 < length o2 -> nth k1 o1 None = Some i1 -> nth k2 o2 None = Some i2 ->
  nth i1 (abs s1) feat0 = nth i2 (abs s2) feat0 ->
  nth k1 c1 [] = nth k2 c2 [] -> nth k1 q1 [] = nth k2 q2 [] -> nth k1 r1 [] = nth k2 r2 [] ->
  nth k1 (abs (kalman_filter s1 o1 c1 q1 r1)) feat0 = nth k2 (abs (kalman_filter s2 o2 c2 q2 r2)) feat0.
Proof.
  intros W1 W2 V1 V2 Eo Et L1 L2 H1 H2 Ef Ec Eq Er.
  rewrite !kalman_step_refines by assumption. rewrite !nth_map_step by assumption.
  rewrite H1, H2, Ef, Ec, Eq, Er, Eo, Et. reflexivity.
Qed.

(* new features start as documented; kept features carry the variance of their own corrections *)
Theorem new_feature_init s old coords q r k :
  wf s -> valid_frame (length (svec s)) (old, coords, q, r) -> k < length old -> nth k old None = None ->
  nth k (abs (kalman_filter s old coords q r)) feat0 = feat_new (om s) (nth k coords []).
Proof.
  intros W V L H. rewrite kalman_step_refines by assumption. rewrite nth_map_step by assumption.
  rewrite H. reflexivity.
Qed.

Theorem noise_var_own_history s old coords q r k o :
  wf s -> valid_frame (length (svec s)) (old, coords, q, r) -> k < length old -> nth k old None = Some o ->
  let f := nth k (abs (kalman_filter s old coords q r)) feat0 in
  f_nv f = var_cols (ncols (om s)) (f_hist f) /\
  exists c, f_hist f = f_hist (nth o (abs s) feat0) ++ [c].
Proof.
  intros W V L H. cbn zeta. rewrite kalman_step_refines by assumption. rewrite nth_map_step by assumption.
  rewrite H. unfold feat_step. cbn [f_nv f_hist fst snd]. split; [reflexivity|]. eexists. reflexivity.
Qed.

(* ------------------------------------------------------------------ the executable guard is sound *)
Lemma nodupb_sound l : nodupb l = true -> NoDup l.
Proof.
  induction l as [|a l IH]; cbn [nodupb]; intros H; [constructor|].
  apply andb_true_iff in H. destruct H as [H1 H2]. constructor; [|apply IH; exact H2].
  intros Hin. apply negb_true_iff in H1. assert (E : existsb (Nat.eqb a) l = true).
  { apply existsb_exists. exists a. split; [exact Hin|apply Nat.eqb_refl]. }
  congruence.
Qed.

Lemma valid_frameb_sound n f : valid_frameb n f = true -> valid_frame n f.
Proof.
  destruct f as [[[o c] q] r]. unfold valid_frameb, valid_frame. intros H.
  repeat (apply andb_true_iff in H; destruct H as [H ?]).
  repeat split; try (apply Nat.eqb_eq; assumption).
  - intros i Hi. match goal with F : forallb _ _ = true |- _ => rewrite forallb_forall in F; specialize (F i Hi) end.
    apply Nat.ltb_lt. assumption.
  - apply nodupb_sound. assumption.
Qed.

Lemma valid_framesb_sound : forall fs n, valid_framesb n fs = true -> valid_frames n fs.
Proof.
  induction fs as [|f fs IH]; intros n H; cbn [valid_framesb valid_frames] in *; [exact I|].
  apply andb_true_iff in H. destruct H as [H1 H2]. split; [apply valid_frameb_sound; exact H1|apply IH; exact H2].
Qed.

(* entry_abs_run and entry_spec_run compute the two sides of kalman_refines_trace *)
Theorem fresh_refines_trace H A fs : valid_framesb 0 fs = true ->
  map abs (run_trace (fresh H A) fs) = spec_trace A H [] fs.
Proof.
  intros Hv. apply (kalman_refines_trace fs (fresh H A)); [reflexivity|].
  apply valid_framesb_sound. exact Hv.
Qed.

(* the hypotheses are satisfiable on a history with a permutation, a drop and insertions *)
Definition ex_z (a b : Z) : vec := [Q2Qc (inject_Z a); Q2Qc (inject_Z b)].
Definition ex_I (n : nat) : mat := diag (repeat 1%Qc n).
Definition ex_frames : list frame :=
  [ ([None; None; None], [ex_z 1 2; ex_z 3 4; ex_z 5 6], repeat (ex_I 4) 3, repeat (ex_I 2) 3);
    ([Some 2; None; Some 0], [ex_z 5 7; ex_z 0 0; ex_z 1 1], repeat (ex_I 4) 3, repeat (ex_I 2) 3);
    ([Some 2; Some 0], [ex_z 2 1; ex_z 6 8], repeat (ex_I 4) 2, repeat (ex_I 2) 2) ].
Example kalman_refines_ex :
  wf (fresh (int_mat velocity_om) (int_mat velocity_tm)) /\ valid_frames 0 ex_frames /\
  length (abs (run (fresh (int_mat velocity_om) (int_mat velocity_tm)) ex_frames)) = 2.
Proof.
  split; [reflexivity|]. split; [apply valid_framesb_sound; vm_compute; reflexivity|].
  vm_compute. reflexivity.
Qed.
