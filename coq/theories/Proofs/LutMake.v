(* C06 — make_table / pattern_of / index_of meet their specification. *)
From Coq Require Import ZArith List Bool Lia.
From Centro Require Import Base.Sx Base.LutBits Spec.LutRule Model.Lut Model.LutMake Proofs.LutSparse Proofs.LutDispatch.
Import ListNotations.
Open Scope Z_scope.

Lemma tbl_idx512 (f : Z -> bool) k : 0 <= k < 512 -> tbl (map f idx512) k = f k.
Proof.
  intros Hk. unfold tbl, idx512, zrange. rewrite map_map.
  rewrite (nth_seq_map (fun x => f (0 + Z.of_nat x))) by lia.
  replace (0 + Z.of_nat (Z.to_nat k)) with k by lia. reflexivity.
Qed.

Lemma land_enc_bit (bits : list bool) : length bits = 9%nat ->
  forall p, In p (seq 0 9) -> (0 <? Z.land (enc bits) (2 ^ Z.of_nat p)) = nth p bits false.
Proof.
  intros L9 p Hp. do 10 (destruct bits as [|? bits]; try discriminate L9).
  cbn [seq In] in Hp.
  repeat (destruct Hp as [<-|Hp]; [repeat match goal with x : bool |- _ => destruct x end; reflexivity|]).
  destruct Hp.
Qed.

Lemma forallb_ext_in {A} (f g : A -> bool) l : (forall x, In x l -> f x = g x) -> forallb f l = forallb g l.
Proof.
  induction l as [|a l IH]; intros E; [reflexivity|]. cbn [forallb].
  rewrite (E a (or_introl eq_refl)), IH; [reflexivity|]. intros x Hx. apply E. right. exact Hx.
Qed.

(* Full: every entry of make_table(value, pattern, care) is [value] exactly where the neighbourhood
   agrees with [pattern] on all positions that [care] marks, and [not value] elsewhere *)
Theorem make_table_spec value pattern care bits :
  length bits = 9%nat -> tbl (make_table value pattern care) (enc bits) = mk_rule value pattern care bits.
Proof.
  intros L9. unfold make_table. rewrite tbl_idx512 by (apply enc_bounds; exact L9).
  unfold mk_rule.
  rewrite (forallb_ext_in (mt_fn (enc bits) pattern care)
             (fun p => Bool.eqb (nth p bits false) (nth p pattern false) || negb (nth p care false))); [reflexivity|].
  intros p Hp. unfold mt_fn. rewrite (land_enc_bit bits L9 p Hp). reflexivity.
Qed.

(* index_of is the encoding used by the rule, pattern_of its inverse *)
Theorem index_of_enc (bits : list bool) : length bits = 9%nat -> index_of bits = enc bits.
Proof.
  intros L9. do 10 (destruct bits as [|? bits]; try discriminate L9).
  repeat match goal with x : bool |- _ => destruct x end; reflexivity.
Qed.

Theorem pattern_of_index_of (bits : list bool) : length bits = 9%nat -> pattern_of (index_of bits) = bits.
Proof.
  intros L9. do 10 (destruct bits as [|? bits]; try discriminate L9).
  repeat match goal with x : bool |- _ => destruct x end; reflexivity.
Qed.

Lemma index_of_pattern_of_all : forallb (fun k => index_of (pattern_of k) =? k) idx512 = true.
Proof. vm_compute. reflexivity. Qed.

Theorem index_of_pattern_of k : 0 <= k < 512 -> index_of (pattern_of k) = k.
Proof.
  intros Hk. pose proof index_of_pattern_of_all as A. rewrite forallb_forall in A.
  apply Z.eqb_eq. apply A. unfold idx512. apply in_zrange. lia.
Qed.

(* the first make_table of clean / fill / ...: "keep the centre" *)
Example make_table_ex :
  let centre := [false;false;false;false;true;false;false;false;false] in
  make_table true centre centre = map (fun k => negb (center_is_zero k)) idx512.
Proof. vm_compute. reflexivity. Qed.
