(* C12 — the hypotheses of the soundness theorems are satisfiable (a concrete admissible interpretation
   over Z with a real windowed erosion), and what the checker rejects can really leak: the pre-repair
   shape of median_filter (np.min/np.max over the whole array) is NOT non-interfering. *)
From Coq Require Import ZArith List Bool Lia.
From Centro Require Import Model.MaskFlow Proofs.MaskFlowSound Gen.MaskProgC12.
Import ListNotations.
Open Scope Z_scope.

Lemma in_zrange r d : In d (zrange r) <-> - Z.of_nat r <= d <= Z.of_nat r.
Proof.
  unfold zrange. rewrite in_map_iff. split.
  - intros [k [<- Hk]]. apply in_seq in Hk. lia.
  - intros H. exists (Z.to_nat (d + Z.of_nat r)). split; [lia|]. apply in_seq. lia.
Qed.
Lemma in_window r d : In d (window r) <-> dist (0, 0) d <= Z.of_nat r.
Proof.
  unfold window. destruct d as [x y]. split.
  - intros H. apply in_prod_iff in H as [H1 H2]. apply in_zrange in H1, H2. unfold dist; cbn [fst snd]. lia.
  - intros H. unfold dist in H; cbn [fst snd] in H. apply in_prod_iff. split; apply in_zrange; lia.
Qed.
Lemma window_hit r p q : dist p q <= Z.of_nat r -> exists d, In d (window r) /\ q = padd p d.
Proof.
  intros H. exists (fst q - fst p, snd q - snd p). split.
  - apply in_window. unfold dist in *; cbn [fst snd]. lia.
  - unfold padd; destruct p, q; cbn [fst snd]. f_equal; lia.
Qed.
Lemma window_near r p d : In d (window r) -> dist p (padd p d) <= Z.of_nat r.
Proof. intros H. apply in_window in H. unfold dist, padd in *; cbn [fst snd] in *. lia. Qed.

Definition tr (z : Z) : bool := negb (z =? 0).
Definition peq (p q : px) : bool := (fst p =? fst q) && (snd p =? snd q).
Definition d_erode (r : nat) (a : px -> Z) (p : px) : Z :=
  if forallb (fun d => tr (a (padd p d))) (window r) then 1 else 0.
Definition d_erodep (r : nat) (a : px -> Z) (p : px) : Z :=
  if forallb (fun d => peq d (0, 0) || tr (a (padd p d))) (window r) then 1 else 0.
Definition zsum (l : list Z) : Z := fold_right Z.add 0 l.
(* every abstract structure is interpreted as the 4-connected cross *)
Definition crossl : list px := [(0, 1); (1, 0); (0, -1); (-1, 0)].
Definition d_sset (s : nat) (d : px) : bool := existsb (peq d) crossl.
Definition d_locs (s f : nat) (a : px -> Z) (p : px) : Z := a p + zsum (map (fun d => a (padd p d)) crossl).
Definition d_erodes (s : nat) (a : px -> Z) (p : px) : Z :=
  if forallb (fun d => tr (a (padd p d))) crossl then 1 else 0.
Lemma peq_eq p q : peq p q = true -> p = q.
Proof. unfold peq. intros H. apply andb_true_iff in H as [H1 H2]. apply Z.eqb_eq in H1, H2. destruct p, q; cbn in *; subst; auto. Qed.
Lemma peq_refl p : peq p p = true.
Proof. unfold peq. rewrite !Z.eqb_refl. reflexivity. Qed.
Lemma in_cross d : In d crossl -> d_sset 0 d = true.
Proof. intros H. unfold d_sset. apply existsb_exists. exists d. split; auto. apply peq_refl. Qed.
Lemma cross_in s d : d_sset s d = true -> In d crossl.
Proof. unfold d_sset. intros H. apply existsb_exists in H as [x [Hx E]]. apply peq_eq in E. subst; auto. Qed.
(* local op: sum over the window; global op: symbol needs_ranking (the rank/no-rank test of median_filter) reads pixel
   (0,0), symbol all (np.all(~mask)) is false, every other symbol is its number + the sum of its arguments at pixel (1,1) *)
Definition d_loc (r f : nat) (a : px -> Z) (p : px) : Z := zsum (map (fun d => a (padd p d)) (window r)).
Definition d_glob (f : nat) (xs : list (px -> Z)) (p : px) : Z :=
  if Nat.eqb f sym_needs_ranking then zsum (map (fun x => x (0, 0)) xs) else if Nat.eqb f sym_all then 0 else Z.of_nat f + zsum (map (fun x => x (1, 1)) xs).

Lemma d_glob_ext f xs ys : Forall2 (fun a b : px -> Z => forall q, a q = b q) xs ys -> forall p, d_glob f xs p = d_glob f ys p.
Proof.
  intros H p. unfold d_glob.
  assert (E : forall c, zsum (map (fun x : px -> Z => x c) xs) = zsum (map (fun x : px -> Z => x c) ys)).
  { intros c. induction H as [|x y l l' Hxy Hl IH]; cbn [map zsum fold_right]; auto. unfold zsum in IH. rewrite Hxy, IH. reflexivity. }
  rewrite !E. reflexivity.
Qed.

Lemma forallb_ext_in {A} (f g : A -> bool) l : (forall x, In x l -> f x = g x) -> forallb f l = forallb g l.
Proof. induction l; cbn; intros H; auto. rewrite H, IHl; auto. Qed.

Definition demo : interp.
Proof.
  refine {| V := Z; truthy := tr; falsev := 0; maskv := fun b => if b then 1 else 0;
            constimg := fun c _ => Z.of_nat c; pw := fun f vs => Z.of_nat f + zsum vs;
            loc := d_loc; glob := d_glob; erode := d_erode; erodep := d_erodep;
            sset := d_sset; locs := d_locs; erodes := d_erodes;
            mcrad := fun k => 1%nat; mcfold := fun k l => zsum (map snd l) |}.
  - reflexivity.
  - intros [|]; reflexivity.
  - intros r f a b p H. unfold d_loc. f_equal. apply map_ext_in. intros d Hd. apply H. apply window_near; auto.
  - exact d_glob_ext.
  - intros r a b p H. unfold d_erode. rewrite (forallb_ext_in _ (fun d => tr (b (padd p d)))); auto.
    intros d Hd. rewrite H; auto. apply window_near; auto.
  - intros r a p H q Hq. unfold d_erode in H. destruct (forallb _ _) eqn:F; [|discriminate].
    rewrite forallb_forall in F. destruct (window_hit r p q Hq) as [d [Hd ->]]. apply F; auto.
  - intros r a b p H. unfold d_erodep. rewrite (forallb_ext_in _ (fun d => peq d (0, 0) || tr (b (padd p d)))); auto.
    intros d Hd. rewrite H; auto. apply window_near; auto.
  - intros r a p H q Hq Hne. unfold d_erodep in H. destruct (forallb _ _) eqn:F; [|discriminate].
    rewrite forallb_forall in F. destruct (window_hit r p q Hq) as [d [Hd ->]]. specialize (F d Hd).
    apply orb_true_iff in F as [F|F]; auto. exfalso. apply Hne. unfold peq in F. apply andb_true_iff in F as [F1 F2].
    apply Z.eqb_eq in F1, F2. destruct p, d; unfold padd; cbn [fst snd] in *. subst. f_equal; lia.
  - intros s f a b p H0 H. unfold d_locs. rewrite H0. f_equal. f_equal. apply map_ext_in. intros d Hd. apply H.
    apply existsb_exists. exists d. split; auto. apply peq_refl.
  - intros s a b p H0 H. unfold d_erodes. rewrite (forallb_ext_in _ (fun d => tr (b (padd p d)))); auto.
    intros d Hd. rewrite H; auto. apply existsb_exists. exists d. split; auto. apply peq_refl.
  - intros s a p H d Hd Hne. unfold d_erodes in H. destruct (forallb _ _) eqn:F; [|discriminate].
    rewrite forallb_forall in F. apply F. apply (cross_in s d Hd).
Defined.

(* a 3x3 mask with the centre pixel masked out; two images that differ only there *)
Definition demo_mask (p : px) : bool := negb (peq p (0, 0)).
Definition img_a (p : px) : Z := fst p + 2 * snd p.
Definition img_b (p : px) : Z := if peq p (0, 0) then 1000 else img_a p.

(* the pre-repair median_filter (rank/no-rank decided from the unmasked min/max) really leaks *)
Theorem median_filter_unmasked_minmax_leaks : ~ noninterfering prog_median_filter_unmasked_minmax.
Proof.
  intros H. specialize (H demo demo_mask img_a img_b).
  assert (A : forall q, demo_mask q = true -> img_a q = img_b q).
  { intros q Hq. unfold img_b. unfold demo_mask in Hq. destruct (peq q (0, 0)); [discriminate|reflexivity]. }
  specialize (H A (1, 1) eq_refl). vm_compute in H. discriminate H.
Qed.

(* ... while the accepted programs evaluate, under the same interpretation, to equal values inside the mask *)
Example sobel_demo : run demo demo_mask prog_hsobel img_a (2, 2) = run demo demo_mask prog_hsobel img_b (2, 2)
                  /\ run demo demo_mask prog_median_filter img_a (1, 1) = run demo demo_mask prog_median_filter img_b (1, 1)
                  /\ run demo demo_mask (prog_regional_maximum_struct 0) img_a (2, 1) = run demo demo_mask (prog_regional_maximum_struct 0) img_b (2, 1).
Proof. vm_compute. auto. Qed.

(* the footprint lattice really discriminates: a read over structure 0 under a selector eroded by the SAME structure
   is accepted (what remains is the centre pixel, which is in the mask); under a selector eroded by a DIFFERENT
   structure, under no erosion at all, or mixed with a radius-1 read it is rejected *)
Example footprint_same_structure_accepted :
  accepts ([], Select (Select (Pw 0 [LocS 0 1 Img]) (ErodeS 0 MaskE) FalseC) MaskE FalseC) = true.
Proof. reflexivity. Qed.
Example footprint_other_structure_rejected :
  accepts ([], Select (Select (Pw 0 [LocS 0 1 Img]) (ErodeS 1 MaskE) FalseC) MaskE FalseC) = false.
Proof. reflexivity. Qed.
Example footprint_without_erosion_rejected : accepts ([], Select (Pw 0 [LocS 0 1 Img]) MaskE FalseC) = false.
Proof. reflexivity. Qed.
Example footprint_mixed_with_radius_rejected :
  accepts ([], Select (Pw 0 [LocS 0 1 Img; Loc 1 2 Img]) (ErodeS 0 MaskE) FalseC) = false.
Proof. reflexivity. Qed.
(* sharing: a definition is checked once and its guarantee travels with the reference *)
Example shared_selector_accepted :
  accepts ([Erode 1 MaskE; Loc 1 0 Img], Select (Pw 1 [Ref 1]) (Ref 0) FalseC) = true.
Proof. reflexivity. Qed.
Example dangling_reference_rejected : accepts ([], Ref 0) = false.
Proof. reflexivity. Qed.
