(* C06 — the iteration bounds restated with the number of set / clear pixels of the image. *)
From Coq Require Import ZArith List Bool Lia.
From Centro Require Import Base.Sx Base.LutBits Spec.LutRule Spec.LutDocs Model.Lut Model.LutOps
     Proofs.LutLoop Proofs.LutSparse Proofs.LutDispatch Proofs.LutWrappers Proofs.LutCount.
Import ListNotations.
Open Scope Z_scope.

Definition set_pixels (X : grid bool) : nat := cnt (concat X).
Definition clear_pixels (X : grid bool) : nat := cnt (concat (gnot X)).

Theorem sparse_none_pixels T b X :
  erosive T -> (0 < length X)%nat -> rect X ->
  let n := set_pixels X in
  sparse T b None X = lut_iter n T b X /\ lut_step T b (lut_iter n T b X) = lut_iter n T b X.
Proof. intros E LX RX. unfold set_pixels. rewrite <- (argwhere_count X RX). apply sparse_none_correct; assumption. Qed.

Theorem monotone_terminates_pixels T b X fuel :
  (0 < length X)%nat -> rect X ->
  (erosive T /\ (set_pixels X < fuel)%nat) \/ (extensive T /\ (clear_pixels X < fuel)%nat) ->
  exists Y, lut_fix fuel T b X = Some Y.
Proof.
  intros LX RX Hm. apply monotone_terminates; try assumption.
  unfold set_pixels, clear_pixels in Hm.
  rewrite (argwhere_count X RX), (argwhere_count (gnot X) (rect_gnot X RX)). exact Hm.
Qed.

Theorem table_lookup_monotone_total_pixels dt X T b :
  (0 < length X)%nat -> rect X ->
  (erosive T /\ (set_pixels X < FUEL)%nat) \/ (extensive T /\ (clear_pixels X < FUEL)%nat) ->
  exists Y, table_lookup dt X T b None = Some Y /\ lut_step T b Y = Y /\ exists n, Y = lut_iter n T b X.
Proof.
  intros LX RX Hm. apply table_lookup_monotone_total; try assumption.
  unfold set_pixels, clear_pixels in Hm.
  rewrite (argwhere_count X RX), (argwhere_count (gnot X) (rect_gnot X RX)). exact Hm.
Qed.

(* Full: spur, as dispatched by run_op, is the specification of the operation (op_spec): the two
   documented half-rules alternated [iterations] times - or as many times as the masked image has
   set pixels when iterations=None - on the masked image, input restored outside the mask *)
Theorem spur_meets_spec dt X M iters :
  (0 < length X)%nat -> rect X -> run_op 13 dt X M iters = op_spec 13 X M iters.
Proof.
  intros LX RX. unfold run_op, op_spec, SPUR. cbn [Z.eqb Pos.eqb].
  rewrite (spur_correct X M iters LX RX). cbv zeta.
  assert (RM : rect (masked_of X M false)) by (destruct M; cbn [masked_of]; [apply rect_tab|exact RX]).
  destruct iters as [k|]; [reflexivity|].
  rewrite (argwhere_count _ RM). reflexivity.
Qed.
