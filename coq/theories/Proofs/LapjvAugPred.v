(* C01 / C19-facing — phase 4: the predecessor links kept by the Dijkstra loop of augment form a chain.
   Invariant at every loop head of one free row r (PMk): on top of Marks,
     - every column on to_do or scan has pred[j] = r or pred[j] = y[j'] for a column j' already in `ready`;
     - the same holds along `ready` itself with j' EARLIER in `ready`;
     - every column in ready ++ scan is assigned.
   Consequence (aug_pred_chain): from the exit column the links form a chain of distinct rows < n that ends in r
   ([chain_ok]), of length <= |ready| + 1 <= n + 1, so the flip loop terminates within its fuel, uses only indices < n and
   leaves x / y partial inverses with one more assigned column (aug_flip_full). *)
From Coq Require Import ZArith List Bool Lia ZifyBool Arith.
From Centro Require Import Base.Sx Model.Lapjv Spec.Lapjv Proofs.LapjvPhases Proofs.LapjvArr Proofs.LapjvAugMarks Proofs.LapjvAugFlip.
Import ListNotations.
Open Scope Z_scope.

Section Pred.
Variables (r n : nat) (rows : list (list (nat * ext))) (x y : list nat) (v : list ext) (inf : ext).
Hypothesis Rfin : forall i j c, In (j, c) (row rows i) -> (j < n)%nat.
Hypothesis Rnodup : forall i, NoDup (map fst (row rows i)).

Definition PredOK (pred : list nat) (L : list nat) (j : nat) : Prop :=
  getn pred j n = r \/ exists j', In j' L /\ getn pred j n = getn y j' n.
(* L lists `ready` newest first *)
Fixpoint chainR (pred : list nat) (L : list nat) : Prop :=
  match L with [] => True | j :: older => PredOK pred older j /\ chainR pred older end.

Lemma PredOK_incl pred L L' j : (forall a, In a L -> In a L') -> PredOK pred L j -> PredOK pred L' j.
Proof. intros I [H|[j' [Hin E]]]; [left; auto|right; exists j'; auto]. Qed.

Lemma PredOK_upd pred L j a k : length pred = n -> k <> j -> PredOK pred L k -> PredOK (upd pred j a) L k.
Proof.
  intros Lp NE H. unfold PredOK in *. rewrite getn_upd. destruct (Nat.eqb_spec k j); [contradiction|]. exact H.
Qed.

Lemma chainR_upd pred j a : length pred = n -> forall L, ~ In j L -> chainR pred L -> chainR (upd pred j a) L.
Proof.
  intros Lp. induction L as [|k older IH]; intros Nin C; cbn [chainR] in *; auto.
  destruct C as [P C]. split; [apply PredOK_upd; auto; intros E; apply Nin; left; auto|].
  apply IH; auto. intros H; apply Nin; right; auto.
Qed.

(* ---------------------------------------------------------------- from the links to a chain *)

Lemma build_chain pred : forall L, chainR pred L -> NoDup L -> (r < n)%nat ->
  (forall j, In j L -> (j < n)%nat /\ (getn y j n < n)%nat /\ getn y j n <> r /\ getn x (getn y j n) n = j) ->
  forall j, (j < n)%nat -> PredOK pred L j ->
  exists chain, chain_ok r n pred x j chain /\ NoDup chain /\ (length chain <= S (length L))%nat /\
    forall i, In i chain -> i = r \/ exists j', In j' L /\ i = getn y j' n.
Proof.
  induction L as [|j0 older IH]; intros C ND Hr HL j Hj P.
  - destruct P as [P|[j' [[] _]]]. exists [r]. split; [cbn [chain_ok]; auto|]. split; [repeat constructor; intros []|].
    split; [cbn [length]; lia|]. intros i [<-|[]]; auto.
  - cbn [chainR] in C. destruct C as [P0 C]. inversion ND as [|? ? Nin ND']; subst.
    assert (HL' : forall k, In k older -> (k < n)%nat /\ (getn y k n < n)%nat /\ getn y k n <> r /\ getn x (getn y k n) n = k)
      by (intros; apply HL; right; auto).
    assert (Old : PredOK pred older j -> exists chain, chain_ok r n pred x j chain /\ NoDup chain /\
              (length chain <= S (length (j0 :: older)))%nat /\
              forall i, In i chain -> i = r \/ exists j', In j' (j0 :: older) /\ i = getn y j' n).
    { intros P'. destruct (IH C ND' Hr HL' j Hj P') as [ch [A [B [Cl D]]]]. exists ch. split; auto. split; auto. split; [cbn [length] in *; lia|].
      intros i Hi. destruct (D i Hi) as [H|[j' [H1 H2]]]; [left; auto|right; exists j'; split; [right|]; auto]. }
    destruct P as [P|[j' [[<-|Hin] E]]].
    + apply Old. left. auto.
    + (* the link goes to the row of the newest ready column j0 *)
      destruct (HL j0 (or_introl eq_refl)) as [Hj0 [Hy0 [Ny0 Hx0]]].
      destruct (IH C ND' Hr HL' j0 Hj0 P0) as [ch [A [B [Cl D]]]].
      exists (getn y j0 n :: ch). split; [|split; [|split]].
      * cbn [chain_ok]. split; auto. split; auto. split; auto.
        destruct ch as [|c0 cs]; [destruct A|]. split; auto. rewrite Hx0. exact A.
      * constructor; auto. intros Hin. destruct (D _ Hin) as [H|[j' [H1 H2]]]; [contradiction|].
        destruct (HL' j' H1) as [_ [_ [_ Hx']]]. rewrite <- H2 in Hx'. rewrite Hx0 in Hx'. subst. contradiction.
      * cbn [length] in *. lia.
      * intros i [<-|Hi]; [right; exists j0; split; [left|]; auto|].
        destruct (D i Hi) as [H|[j' [H1 H2]]]; [left; auto|right; exists j'; split; [right|]; auto].
    + apply Old. right. exists j'. auto.
Qed.

(* ---------------------------------------------------------------- the invariant through the loop *)

Definition PMk (s : aug_state) : Prop :=
  Marks r n s /\ length (g_pred s) = n /\
  (forall j, In j (g_todo s ++ g_scan s) -> PredOK (g_pred s) (g_ready s) j) /\
  chainR (g_pred s) (rev (g_ready s)) /\
  (forall j, In j (g_ready s ++ g_scan s) -> getn y j n <> n).

Lemma ready_done s j : Marks r n s -> In j (g_ready s) -> getn (g_done s) j n = r.
Proof. intros [_ [_ [_ [_ [_ H]]]]] Hin. apply H. apply in_app_iff. left. exact Hin. Qed.

Lemma aug_relax_pm jh u1 : forall row s,
  (forall j c, In (j, c) row -> (j < n)%nat) -> PMk s -> In jh (g_ready s) ->
  PMk (fst (aug_relax r n (getn y jh n) y v u1 row s)) /\
  g_ready (fst (aug_relax r n (getn y jh n) y v u1 row s)) = g_ready s /\
  (forall j, snd (aug_relax r n (getn y jh n) y v u1 row s) = Some j ->
     (j < n)%nat /\ getn y j n = n /\ PredOK (g_pred (fst (aug_relax r n (getn y jh n) y v u1 row s))) (g_ready s) j).
Proof.
  induction row as [|[j c] rr IH]; intros s HR P Hjh; cbn [aug_relax].
  - cbn [fst snd]. split; [exact P|]. split; [reflexivity|discriminate].
  - assert (Hj : (j < n)%nat) by (eapply HR; left; eauto).
    assert (HR' : forall j' c', In (j', c') rr -> (j' < n)%nat) by (intros; eapply HR; right; eauto).
    pose proof P as [M [Lp [PO [CR Asg]]]].
    destruct (Nat.eqb_spec (getn (g_done s) j n) r) as [E|NE]; [apply IH; auto|].
    destruct (eltb (esub (esub c (gete v j)) u1) (gete (g_d s) j)); [|apply IH; auto].
    (* pred[j] := y[jh] *)
    set (pred' := upd (g_pred s) j (getn y jh n)).
    assert (Lp' : length pred' = n) by (unfold pred'; rewrite upd_length; auto).
    assert (Pj : PredOK pred' (g_ready s) j).
    { right. exists jh. split; auto. unfold pred'. rewrite getn_upd, Nat.eqb_refl, Lp.
      replace (j <? n)%nat with true by (symmetry; apply Nat.ltb_lt; auto). reflexivity. }
    assert (Pk : forall k, PredOK (g_pred s) (g_ready s) k \/ k = j -> PredOK pred' (g_ready s) k).
    { intros k [H | ->]; auto. destruct (Nat.eq_dec k j) as [->|NEk]; auto. apply PredOK_upd; auto. }
    assert (CR' : chainR pred' (rev (g_ready s))).
    { apply chainR_upd; auto. intros Hin. apply in_rev in Hin. apply NE. apply (ready_done s j M Hin). }
    destruct (eleb (esub (esub c (gete v j)) u1) (g_umin s)).
    + destruct (Nat.eqb_spec (getn y j n) n) as [Ey|Ny].
      * cbn [fst snd g_ready g_pred]. split; [|split; [reflexivity|]].
        -- split; [apply Marks_dp; exact M|]. cbn [g_pred g_todo g_scan g_ready].
           split; [exact Lp'|]. split; [intros k Hk; apply Pk; left; apply PO; exact Hk|]. split; [exact CR'|exact Asg].
        -- intros j0 H; inversion H; subst. auto.
      * match goal with |- context [aug_relax _ _ _ _ _ _ rr ?S] => set (s' := S) end.
        assert (P' : PMk s').
        { unfold s'. split; [apply Marks_scan_snoc; auto|]. cbn [g_pred g_todo g_scan g_ready].
          split; [exact Lp'|]. split; [|split; [exact CR'|]].
          - intros k Hk. apply Pk. rewrite app_assoc in Hk. apply in_app_iff in Hk as [Hk|[<-|[]]]; [left; apply PO; exact Hk|right; reflexivity].
          - intros k Hk. rewrite app_assoc in Hk. apply in_app_iff in Hk as [Hk|[<-|[]]]; [apply Asg; exact Hk|exact Ny]. }
        destruct (IH s' HR' P' Hjh) as [A [B C]]. split; [exact A|]. split; [rewrite B; reflexivity|exact C].
    + destruct (Nat.eqb_spec (getn (g_ontodo s) j n) r) as [Eo|No].
      * match goal with |- context [aug_relax _ _ _ _ _ _ rr ?S] => set (s' := S) end.
        assert (P' : PMk s').
        { unfold s'. split; [apply Marks_dp; exact M|]. cbn [g_pred g_todo g_scan g_ready].
          split; [exact Lp'|]. split; [intros k Hk; apply Pk; left; apply PO; exact Hk|]. split; [exact CR'|exact Asg]. }
        destruct (IH s' HR' P' Hjh) as [A [B C]]. split; [exact A|]. split; [rewrite B; reflexivity|exact C].
      * match goal with |- context [aug_relax _ _ _ _ _ _ rr ?S] => set (s' := S) end.
        assert (P' : PMk s').
        { unfold s'. split; [apply Marks_todo_snoc; auto|]. cbn [g_pred g_todo g_scan g_ready].
          split; [exact Lp'|]. split; [|split; [exact CR'|exact Asg]].
          intros k Hk. apply Pk. rewrite <- app_assoc in Hk. apply in_app_iff in Hk as [Hk|Hk]; [left; apply PO; apply in_app_iff; left; auto|].
          cbn [app] in Hk. destruct Hk as [<-|Hk]; [right; auto|left; apply PO; apply in_app_iff; right; auto]. }
        destruct (IH s' HR' P' Hjh) as [A [B C]]. split; [exact A|]. split; [rewrite B; reflexivity|exact C].
Qed.

Theorem aug_loop_pm : forall fuel s s' j1,
  PMk s -> aug_loop fuel r n inf rows y v s = Some (s', j1) ->
  Bounds n s' /\ (j1 < n)%nat /\ getn y j1 n = n /\ length (g_pred s') = n /\
  PredOK (g_pred s') (g_ready s') j1 /\ chainR (g_pred s') (rev (g_ready s')) /\
  (forall j, In j (g_ready s') -> getn y j n <> n).
Proof.
  induction fuel as [|f IH]; intros s s' j1 P; cbn [aug_loop]; [discriminate|].
  pose proof P as [M [Lp [PO [CR Asg]]]].
  pose proof (refill_spec r n rows y inf Rfin s M) as RS. unfold refill in RS.
  destruct (match g_scan s with
            | [] => let '(umin, scan) := aug_min r n (g_d s) (g_done s) (g_todo s) inf [] in
                    let '(found, done') := aug_first_free r n y scan (g_done s) in
                    (mkAug (g_d s) (g_pred s) done' (g_ontodo s) (g_todo s) scan (g_ready s) umin, found)
            | _ => (s, None)
            end) as [s1 found] eqn:ERF.
  destruct RS as [Ep [Et [Er [_ [Sub [RN RF]]]]]].
  destruct found as [j|].
  - intros E; inversion E; subst. destruct (RF j1 eq_refl) as [B [A1 [A2 A3]]].
    split; auto. split; auto. split; auto. rewrite Ep, Er. split; auto. split; [apply PO; apply in_app_iff; left; auto|].
    split; auto. intros k Hk. apply Asg. apply in_app_iff. left. auto.
  - destruct (RN eq_refl) as [M1 As1].
    assert (P1 : PMk s1).
    { split; auto. rewrite Ep, Et, Er. split; auto. split; [|split; auto].
      - intros k Hk. apply in_app_iff in Hk as [Hk|Hk]; [apply PO; apply in_app_iff; left; auto|].
        destruct (Sub k Hk) as [H|H]; apply PO; apply in_app_iff; [right|left]; auto.
      - intros k Hk. apply in_app_iff in Hk as [Hk|Hk]; [apply Asg; apply in_app_iff; left; auto|].
        destruct (As1 k Hk) as [H|H]; auto. apply Asg; apply in_app_iff; right; auto. }
    destruct (g_scan s1) as [|jh srest] eqn:ES1; [discriminate|].
    destruct (cost_at (rowget rows (getn y jh n)) jh) as [c1|]; [|discriminate].
    match goal with |- context [aug_relax _ _ _ _ _ _ _ ?S] => set (s2 := S) end.
    destruct P1 as [_ [Lp1 [PO1 [CR1 Asg1]]]].
    assert (P2 : PMk s2).
    { unfold s2. split; [apply Marks_pop; auto|]. cbn [g_pred g_todo g_scan g_ready].
      split; auto. split; [|split].
      - intros k Hk. apply (PredOK_incl _ (g_ready s1)); [intros a Ha; apply in_app_iff; left; auto|].
        apply PO1. rewrite ES1. apply in_app_iff in Hk as [Hk|Hk]; apply in_app_iff; [left|right; right]; auto.
      - rewrite rev_app_distr. cbn [rev app chainR]. split; auto.
        apply (PredOK_incl _ (g_ready s1)); [intros a Ha; apply in_rev in Ha; exact Ha|].
        apply PO1. rewrite ES1. apply in_app_iff. right. left. auto.
      - intros k Hk. apply Asg1. rewrite ES1. rewrite <- app_assoc in Hk. exact Hk. }
    assert (Hjh : In jh (g_ready s2)) by (unfold s2; cbn [g_ready]; apply in_app_iff; right; left; auto).
    pose proof (aug_relax_pm jh (esub (esub c1 (gete v jh)) (g_umin s1)) (rowget rows (getn y jh n)) s2
                  (fun j c H => Rfin _ j c H) P2 Hjh) as [P3 [R3 F3]].
    destruct (aug_relax r n (getn y jh n) y v (esub (esub c1 (gete v jh)) (g_umin s1)) (rowget rows (getn y jh n)) s2) as [s3 f3].
    cbn [fst snd] in P3, R3, F3. destruct f3 as [j|].
    + intros E; inversion E; subst. destruct (F3 j1 eq_refl) as [A1 [A2 A3]].
      destruct P3 as [M3 [Lp3 [PO3 [CR3 Asg3]]]].
      split; [apply (Marks_Bounds r n); exact M3|]. split; auto. split; auto. split; auto. rewrite R3. split; auto.
      split; [rewrite <- R3; exact CR3|]. intros k Hk. apply Asg3. apply in_app_iff. left. rewrite R3. exact Hk.
    + apply IH. exact P3.
Qed.

(* ---------------------------------------------------------------- one free row: loop + flip *)

Lemma aug_init_row_pred : forall row d ontodo pred,
  (forall j c, In (j, c) row -> (j < n)%nat) -> length pred = n ->
  let '(d', ontodo', pred') := aug_init_row r v row d ontodo pred in
  length pred' = n /\ (forall j c, In (j, c) row -> getn pred' j n = r) /\
  (forall k, getn pred k n = r -> getn pred' k n = r).
Proof.
  induction row as [|[j c] rr IH]; intros d ontodo pred HR L; cbn [aug_init_row].
  - split; auto. split; auto. intros ? ? [].
  - assert (Hj : (j < n)%nat) by (eapply HR; left; eauto).
    specialize (IH (upd d j (esub c (gete v j))) (upd ontodo j r) (upd pred j r)
                  (fun j' c' H => HR j' c' (or_intror H)) ltac:(rewrite upd_length; auto)).
    destruct (aug_init_row r v rr (upd d j (esub c (gete v j))) (upd ontodo j r) (upd pred j r)) as [[d' o'] p'].
    destruct IH as [L' [In' Keep]]. split; auto.
    assert (Kj : forall k, getn pred k n = r \/ k = j -> getn (upd pred j r) k n = r).
    { intros k H. rewrite getn_upd, L. destruct (Nat.eqb_spec k j) as [->|NE]; cbn [andb].
      - replace (j <? n)%nat with true by (symmetry; apply Nat.ltb_lt; auto). reflexivity.
      - destruct H; [auto|contradiction]. }
    split.
    + intros j' c' [E|Hin]; [inversion E; subst; apply Keep, Kj; auto|eapply In'; eauto].
    + intros k Hk. apply Keep, Kj. auto.
Qed.

(* aug_pred_chain: whenever the Dijkstra loop of a free row returns, the predecessor links from the exit column form a
   chain_ok chain of distinct rows, no longer than the fuel S n that aug_row gives the flip loop *)
Theorem aug_pred_chain (ms : main_state) (s' : aug_state) (j1 : nat) :
  length x = n -> length y = n -> (r < n)%nat -> free n y r -> PIh n x y None ->
  length (m_done ms) = n -> length (m_ontodo ms) = n -> length (m_pred ms) = n ->
  let row_r := rowget rows r in
  let '(d, ontodo, pred) := aug_init_row r v row_r (repeat inf n) (m_ontodo ms) (m_pred ms) in
  aug_loop (S (S n)) r n inf rows y v (mkAug d pred (m_done ms) ontodo (map fst row_r) [] [] inf) = Some (s', j1) ->
  (j1 < n)%nat /\ getn y j1 n = n /\ length (g_pred s') = n /\ length (g_done s') = n /\ length (g_ontodo s') = n /\
  exists chain, chain_ok r n (g_pred s') x j1 chain /\ NoDup chain /\ (length chain <= S n)%nat /\
    forall i, In i chain -> i = r \/ exists j', In j' (g_ready s') /\ (j' < n)%nat /\ i = getn y j' n /\ i <> n /\ getn x i n = j'.
Proof.
  intros Lx Ly Hr Fr PI Ld Lo Lp. cbn zeta.
  pose proof (aug_init_row_marks r n rows v Rfin (rowget rows r) (repeat inf n) (m_ontodo ms) (m_pred ms) (fun j c H => Rfin r j c H) Lo) as AI.
  pose proof (aug_init_row_pred (rowget rows r) (repeat inf n) (m_ontodo ms) (m_pred ms) (fun j c H => Rfin r j c H) Lp) as AP.
  destruct (aug_init_row r v (rowget rows r) (repeat inf n) (m_ontodo ms) (m_pred ms)) as [[d o] p].
  destruct AI as [Lo' [In' _]]. destruct AP as [Lp' [Pr _]]. intros E.
  assert (P0 : PMk (mkAug d p (m_done ms) o (map fst (rowget rows r)) [] [] inf)).
  { split; [|cbn [g_pred g_todo g_scan g_ready app rev chainR]; split; [exact Lp'|split; [|split; [exact Logic.I|intros j []]]]].
    - unfold Marks. cbn [g_done g_ontodo g_todo g_scan g_ready app].
      refine (conj Ld (conj Lo' (conj (Rnodup r) (conj _ (conj (NoDup_nil _) _))))).
      + intros j Hj. apply in_map_iff in Hj as [[j' c'] [<- Hin]]. cbn [fst]. split; [eapply Rfin; eauto|eapply In'; eauto].
      + intros j [].
    - intros j Hj. rewrite app_nil_r in Hj. apply in_map_iff in Hj as [[j' c'] [<- Hin]]. left. cbn [fst]. eapply Pr; eauto. }
  destruct (aug_loop_pm _ _ _ _ P0 E) as [B [Hj1 [Hy1 [Lp1 [P1 [C1 A1]]]]]].
  split; auto. split; auto. split; auto.
  destruct B as [Ld1 [Lo1 [_ [_ [Nrs Hrs]]]]]. split; auto. split; auto.
  assert (NR : NoDup (rev (g_ready s'))).
  { apply NoDup_rev. clear - Nrs. induction (g_ready s') as [|a l IHl]; [constructor|].
    cbn [app] in Nrs. inversion Nrs; subst. constructor; [intros H; apply H1; apply in_app_iff; left; auto|auto]. }
  assert (HL : forall j, In j (rev (g_ready s')) ->
            (j < n)%nat /\ (getn y j n < n)%nat /\ getn y j n <> r /\ getn x (getn y j n) n = j).
  { intros j Hj. apply in_rev in Hj. assert (Hjn : (j < n)%nat) by (apply Hrs; apply in_app_iff; left; auto).
    destruct (PI j _ Hjn ltac:(discriminate) eq_refl (A1 j Hj)) as [A B]. split; auto. }
  destruct (build_chain (g_pred s') (rev (g_ready s')) C1 NR Hr HL j1 Hj1
              (PredOK_incl _ _ _ _ (fun a Ha => proj1 (in_rev _ a) Ha) P1)) as [chain [A [B [Cl Desc]]]].
  exists chain. split; auto. split; auto. split.
  - rewrite rev_length in Cl. assert (length (g_ready s') <= n)%nat; [|lia].
    apply nodup_bound; [apply NoDup_rev in NR; rewrite rev_involutive in NR; exact NR|].
    intros j Hj. apply Hrs. apply in_app_iff. left. exact Hj.
  - intros i Hi. destruct (Desc i Hi) as [H|[j' [Hj' E']]]; [left; auto|right].
    destruct (HL j' Hj') as [A1' [A2' [_ A4']]]. exists j'. split; [apply in_rev; exact Hj'|]. split; auto. split; auto. split; [lia|].
    rewrite E'. exact A4'.
Qed.

(* aug_flip_full: so the flip loop of aug_row never takes its out-of-fuel exit, and afterwards x / y are again partial
   inverses, the free row r is assigned, the exit column is assigned, no column lost its row *)
Theorem aug_flip_full (ms : main_state) (s' : aug_state) (j1 : nat) :
  length x = n -> length y = n -> (r < n)%nat -> free n y r -> PIh n x y None ->
  length (m_done ms) = n -> length (m_ontodo ms) = n -> length (m_pred ms) = n ->
  let row_r := rowget rows r in
  let '(d, ontodo, pred) := aug_init_row r v row_r (repeat inf n) (m_ontodo ms) (m_pred ms) in
  aug_loop (S (S n)) r n inf rows y v (mkAug d pred (m_done ms) ontodo (map fst row_r) [] [] inf) = Some (s', j1) ->
  exists x' y', aug_flip (S n) r (g_pred s') j1 x y n = Some (x', y') /\ length x' = n /\ length y' = n /\
    PIh n x' y' None /\ (exists j, (j < n)%nat /\ getn y' j n = r) /\
    getn y' j1 n <> n /\ (forall j, getn y j n <> n -> getn y' j n <> n) /\
    (forall i', i' <> r -> free n y i' -> free n y' i') /\
    (forall j, getn y' j n = getn y j n \/ (getn y' j n = getn (g_pred s') j n /\ (In j (g_ready s') \/ j = j1))).
Proof.
  intros Lx Ly Hr Fr PI Ld Lo Lp.
  pose proof (aug_pred_chain ms s' j1 Lx Ly Hr Fr PI Ld Lo Lp) as APC. cbn zeta in *.
  destruct (aug_init_row r v (rowget rows r) (repeat inf n) (m_ontodo ms) (m_pred ms)) as [[d o] p].
  intros E. destruct (APC E) as [Hj1 [Hy1 [_ [_ [_ [chain [OK [ND [Len Desc]]]]]]]]].
  destruct (aug_flip_inverse r n (g_pred s') chain j1 x y (S n) ND Lx Ly OK Len) as [x' [y' [EF [Lx' [Ly' [PI' [Hr' [Hj1' [Keep [Src Src2]]]]]]]]]]; auto.
  { intros j i Hj _ Ey Ne. apply (PI j i Hj ltac:(discriminate) Ey Ne). }
  exists x', y'. split; auto. split; auto. split; auto. split; auto. split; auto. split; auto. split; auto. split.
  - intros i' Ni Fi j Hj E'. destruct (Src j) as [H|H].
    + apply (Fi j Hj). rewrite <- H. exact E'.
    + rewrite E' in H. destruct (Desc i' H) as [H'|[j' [_ [Hj' [Ey _]]]]]; [contradiction|]. apply (Fi j' Hj'). auto.
  - intros j. destruct (Src2 j) as [H|[H1 [H2|[i [Hi [Ni Ej]]]]]]; [left; exact H|right; split; auto|right; split; auto].
    destruct (Desc i Hi) as [H'|[j' [Hr1 [_ [_ [_ Hx]]]]]]; [contradiction|]. left. rewrite Ej, Hx. exact Hr1.
Qed.
End Pred.
