(* C10 — mcf_run_invariant: the one-iteration theorem (step_keeps_RA) lifted to the whole loop of the
   line-level solver, under the run's companion flag being clear.  At every state the flagged run
   reaches there are ghost potentials pi with: forward entry = c + pi(u) - pi(v), backward entry =
   -c + pi(v) - pi(u), every residual arc has reduced cost >= 0, no capacity is negative.  At the
   end this is complementary slackness for the flow given by the backward capacities. *)
From Coq Require Import ZArith List Bool Lia ZifyBool.
From Centro Require Import Base.Sx Base.EmdBase Model.Emd Model.EmdMcf
  Proofs.EmdSsp Proofs.EmdHeap Proofs.EmdHeapPos Proofs.EmdHeapOrd Proofs.EmdHeapMem Proofs.EmdDijkstra Proofs.EmdDijkstraInit
  Proofs.EmdTight Proofs.EmdPotential Proofs.EmdGhost Proofs.EmdCspPost Proofs.EmdFuel Proofs.EmdAugment.
Import ListNotations.
Open Scope Z_scope.

(* ---------------------------------------------------------------- lengths kept by the Dijkstra loop *)
Lemma relax_lengths u du st v rc st' : relax u du st v rc = Some st' ->
  length (sp_d st') = length (sp_d st) /\ length (sp_prev st') = length (sp_prev st).
Proof.
  unfold relax. destruct (oget (snd (sp_h st)) v) as [pos|]; [|discriminate]. cbn [bind].
  destruct (pos <? length (fst (sp_h st)))%nat; [|intros H; injection H as <-; auto].
  destruct (oget (fst (sp_h st)) pos) as [qv|]; [|discriminate]. cbn [bind].
  destruct (du + rc <? snd qv); [|intros H; injection H as <-; auto].
  destruct (heap_decrease_key (sp_h st) v (du + rc)) as [h1|]; [|discriminate]. cbn [bind].
  intros H. injection H as <-. cbn [sp_d sp_prev]. rewrite upd_length_local. auto.
Qed.
Lemma relax_fwd_lengths u du : forall l st st', relax_fwd u du st l = Some st' ->
  length (sp_d st') = length (sp_d st) /\ length (sp_prev st') = length (sp_prev st).
Proof.
  induction l as [|[v rc] l IH]; intros st st'; cbn [relax_fwd]; [intros H; injection H as <-; auto|].
  destruct (relax u du st v rc) as [st1|] eqn:E; [|discriminate]. cbn [bind]. intros H.
  apply relax_lengths in E. apply IH in H. lia.
Qed.
Lemma relax_bwd_lengths u du : forall l st st', relax_bwd u du st l = Some st' ->
  length (sp_d st') = length (sp_d st) /\ length (sp_prev st') = length (sp_prev st).
Proof.
  induction l as [|[[v rc] cap] l IH]; intros st st'; cbn [relax_bwd]; [intros H; injection H as <-; auto|].
  destruct (0 <? cap); [|apply IH].
  destruct (relax u du st v rc) as [st1|] eqn:E; [|discriminate]. cbn [bind]. intros H.
  apply relax_lengths in E. apply IH in H. lia.
Qed.
Lemma dijkstra_lengths e rf rb : forall fuel st st' l, dijkstra fuel e rf rb st = Some (st', l) ->
  length (sp_d st') = length (sp_d st) /\ length (sp_prev st') = length (sp_prev st).
Proof.
  induction fuel as [|f IH]; intros st st' l; cbn [dijkstra]; [discriminate|].
  destruct (oget (fst (sp_h st)) 0) as [q0|]; [|discriminate]. cbn [bind].
  destruct (nz e (fst q0) <? 0).
  - intros H. injection H as <- _. cbn [sp_d sp_prev]. rewrite upd_length_local. auto.
  - destruct (heap_remove_first _) as [h'|]; [|discriminate]. cbn [bind].
    destruct (relax_fwd _ _ _ _) as [st3|] eqn:E3; [|discriminate]. cbn [bind].
    destruct (relax_bwd _ _ _ _) as [st4|] eqn:E4; [|discriminate]. cbn [bind].
    destruct (fst (sp_h st4)); [discriminate|]. intros H.
    apply relax_fwd_lengths in E3. apply relax_bwd_lengths in E4. apply IH in H.
    cbn [sp_d sp_prev] in E3. rewrite upd_length_local in E3. lia.
Qed.
Lemma csp_lengths nv d prev from rf rb e dd' prev' rf' rb' l :
  compute_shortest_path nv d prev from rf rb e = Some (dd', prev', rf', rb', l) ->
  length dd' = length d /\ length prev' = length prev.
Proof.
  unfold compute_shortest_path. destruct (dijkstra _ _ _ _ _) as [[st l0]|] eqn:E; [|discriminate]. cbn [bind].
  intros H. injection H as <- <- _ _ _. apply dijkstra_lengths in E. cbn [sp_d sp_prev] in E. exact E.
Qed.

(* ---------------------------------------------------------------- the run invariant *)
Section Run.
Variable nv : nat.
Variable c : list (list (nat * Z)).
Hypothesis LC : length c = nv.

Definition RunInv (st : mcf_state) : Prop :=
  length (m_e st) = nv /\ length (m_d st) = nv /\ length (m_prev st) = nv /\
  (exists pi, ghost nv c pi (m_rf st) (m_rb st)) /\
  RAok nv (m_rf st) (m_rb st) /\ caps_ok (m_rb st) = true.

Lemma run_step st : RunInv st -> step_flag st = false ->
  match mcf_step st with MDone st' | MMore st' => RunInv st' | MFail => True end.
Proof.
  intros I FL. pose proof I as [LE [LD [LP [G [RA CO]]]]].
  destruct (mcf_step st) as [s1|s1|] eqn:ES; [| |exact Logic.I].
  - (* Done: the state is returned unchanged *)
    unfold mcf_step in ES. destruct (pick_supply (m_e st) 0 0 0) as [ms k].
    destruct (ms =? 0); [injection ES as <-; exact I|].
    destruct (compute_shortest_path _ _ _ _ _ _ _) as [[[[[d prev] rf] rb] l]|]; [|discriminate].
    destruct (l =? k)%nat; [discriminate|]. destruct (scan_delta _ _ _ _ _ _); [|discriminate].
    destruct (augment _ _ _ _ _ _ _ _) as [[[e' x'] rb']|]; discriminate.
  - destruct (step_keeps_RA nv c st s1 LC LE LD LP G RA CO ES FL) as [RA' CO'].
    assert (GS : ghost_st nv c s1).
    { pose proof (ghost_step nv c LC st (conj LE G)) as X. rewrite ES in X. exact X. }
    destruct GS as [LE' G'].
    (* lengths of d and prev *)
    unfold mcf_step in ES. rewrite LE in ES. destruct (pick_supply (m_e st) 0 0 0) as [ms k].
    destruct (ms =? 0); [discriminate|].
    destruct (compute_shortest_path nv (m_d st) (m_prev st) k (m_rf st) (m_rb st) (m_e st)) as [[[[[d prev] rf] rb] l]|] eqn:EC; [|discriminate].
    destruct (l =? k)%nat; [discriminate|]. destruct (scan_delta _ _ _ _ _ _); [|discriminate].
    destruct (augment _ _ _ _ _ _ _ _) as [[[e' x'] rb']|]; [|discriminate].
    injection ES as <-. cbn [m_e m_d m_prev m_rf m_rb] in *.
    destruct (csp_lengths _ _ _ _ _ _ _ _ _ _ _ _ EC) as [A B].
    unfold RunInv. cbn [m_e m_d m_prev m_rf m_rb].
    split; [exact LE'|]. split; [lia|]. split; [lia|]. split; [exact G'|]. split; [exact RA'|exact CO'].
Qed.

(* the flag only accumulates *)
Lemma flag_mono : forall k st fl r fl', mcf_iter_f k st fl = (r, fl') -> fl' = false -> fl = false.
Proof.
  induction k as [|k IH]; intros st fl r fl'; cbn [mcf_iter_f].
  - intros H F. injection H as _ <-. apply orb_false_iff in F. tauto.
  - destruct (mcf_iter_f k st fl) as [r1 f1] eqn:E1. destruct r1 as [s1|s1|].
    + intros H F. injection H as _ <-. eapply IH; eauto.
    + intros H F. apply (IH _ _ _ _ H) in F. eapply IH; eauto.
    + intros H F. injection H as _ <-. eapply IH; eauto.
Qed.

(* mcf_run_invariant: along the flagged run *)
Theorem run_iter : forall k st fl r fl', RunInv st ->
  mcf_iter_f k st fl = (r, fl') -> fl' = false ->
  match r with MDone st' | MMore st' => RunInv st' | MFail => True end.
Proof.
  induction k as [|k IH]; intros st fl r fl' I; cbn [mcf_iter_f].
  - intros H F. injection H as <- <-. apply orb_false_iff in F. destruct F as [F1 F2]. apply run_step; auto.
  - destruct (mcf_iter_f k st fl) as [r1 f1] eqn:E1.
    destruct r1 as [s1|s1|].
    + intros H F. injection H as <- <-. apply (IH st fl _ _ I E1 F).
    + intros H F. pose proof (flag_mono _ _ _ _ _ H F) as F1.
      pose proof (IH st fl (MMore s1) f1 I E1 F1) as I1. apply (IH s1 f1 r fl' I1 H F).
    + intros H F. injection H as <- <-. exact Logic.I.
Qed.

(* the invariant holds initially on balanced-or-not graphs with non-negative costs and in-range targets *)
Lemma run_init e : length e = nv ->
  (forall l tc, In l c -> In tc l -> (fst tc < nv)%nat /\ 0 <= snd tc) ->
  RunInv (mcf_init e c).
Proof.
  intros LE GC. unfold RunInv, mcf_init. cbn [m_e m_d m_prev m_rf m_rb]. rewrite LE.
  split; auto. split; [apply repeat_length|]. split; [apply repeat_length|].
  split; [exists (fun _ => 0); pose proof (ghost_init nv c LC e LE) as X; unfold mcf_init in X; cbn [m_rf m_rb] in X; rewrite LE in X; exact X|].
  split.
  - intros u v rc [Hin|[cap [Hin Hc]]].
    + destruct (Nat.lt_ge_cases u (length c)) as [L|L];
        [|rewrite nth_overflow in Hin by (rewrite map_length; auto); destruct Hin].
      rewrite (nth_indep _ [] (map (fun tc : nat * Z => (fst tc, snd tc)) [])) in Hin by (rewrite map_length; auto).
      rewrite (map_nth (fun l => map (fun tc : nat * Z => (fst tc, snd tc)) l)) in Hin.
      apply in_map_iff in Hin. destruct Hin as [[t w] [Eq Hin]]. cbn [fst snd] in Eq. injection Eq as <- <-.
      apply (GC (nth u c []) (t, w)); auto. apply nth_In; auto.
    + exfalso.
      destruct (Nat.lt_ge_cases u nv) as [L|L];
        [|rewrite nth_overflow in Hin by (rewrite map_length, seq_length; auto); destruct Hin].
      rewrite (nth_indep _ [] ((fun v0 => flat_map (fun a => if (a_to a =? v0)%nat then [(a_from a, - a_cost a, 0)] else []) (mk_arcs c)) O)) in Hin
        by (rewrite map_length, seq_length; auto).
      rewrite (map_nth (fun v0 => flat_map (fun a => if (a_to a =? v0)%nat then [(a_from a, - a_cost a, 0)] else []) (mk_arcs c))) in Hin.
      apply in_flat_map in Hin. destruct Hin as [a [_ Hin]]. destruct (a_to a =? _)%nat; [|destruct Hin].
      destruct Hin as [Eq|[]]. injection Eq as _ _ Eq. lia.
  - unfold caps_ok. apply forallb_forall. intros row Hrow. apply in_map_iff in Hrow. destruct Hrow as [v [<- _]].
    apply forallb_forall. intros en Hen. apply in_flat_map in Hen. destruct Hen as [a [_ Hin]].
    destruct (a_to a =? v)%nat; [|destruct Hin]. destruct Hin as [<-|[]]. reflexivity.
Qed.

(* At the end of a flagged run with the flag clear: complementary slackness.  With
   f(a) := capacity of the backward entry of arc a, every arc has reduced cost >= 0 w.r.t. the ghost
   potentials and every arc with f(a) > 0 has reduced cost <= 0 — premises 4 and 5 of
   C10_mcf_cert_optimal — and f >= 0. *)
Theorem run_final_slackness e st fl :
  length e = nv -> (forall l tc, In l c -> In tc l -> (fst tc < nv)%nat /\ 0 <= snd tc) ->
  mcf_iter_f ssp_levels (mcf_init e c) false = (MDone st, fl) -> fl = false ->
  exists pi, ghost nv c pi (m_rf st) (m_rb st) /\
    (forall a, In a (mk_arcs c) -> 0 <= a_cost a + pi (a_from a) - pi (a_to a)) /\
    (forall a cap, In a (mk_arcs c) -> In (a_from a, - a_cost a + pi (a_to a) - pi (a_from a), cap) (nth (a_to a) (m_rb st) []) ->
                   0 <= cap /\ (0 < cap -> a_cost a + pi (a_from a) - pi (a_to a) <= 0)).
Proof.
  intros LE GC H F.
  pose proof (run_iter ssp_levels (mcf_init e c) false (MDone st) fl (run_init e LE GC) H F) as I.
  destruct I as [_ [_ [_ [[pi G] [RA CO]]]]]. exists pi. split; auto. split.
  - intros a Ha. pose proof (arc_fwd_entry c pi a Ha) as FE.
    assert (Lf : (a_from a < nv)%nat) by (apply mk_arcs_in in Ha; lia).
    destruct G as [_ [_ [G1 _]]]. rewrite <- G1 in FE by auto.
    destruct (RA (a_from a) (a_to a) _ (or_introl FE)). auto.
  - intros a cap Ha Hin. split; [apply (caps_ok_in _ _ _ CO Hin)|].
    intros Hc. destruct (RA (a_to a) (a_from a) _ (or_intror (ex_intro _ cap (conj Hin Hc)))). lia.
Qed.
End Run.
