(* C18 — cpmorphology.pairwise_permutations: the line-level model equals the declarative
   reference (all pairs of positions a < b with equal group label in the rows sorted by group
   then member), and that reference lists every such position pair exactly once. *)
From Coq Require Import ZArith List Bool Arith Lia Sorted Permutation.
From Centro Require Import Base.SortC18 Model.VecC18 Model.IndexesC18 Spec.SpecC18
  Proofs.VecC18Lemmas Proofs.DiffMarksC18 Proofs.BlocksC18 Proofs.MedianC18Proofs Proofs.ModeC18Proofs.
Import ListNotations.
Local Open Scope nat_scope.

(* ================================================================ part 2: exactly once *)
Definition pos_pairs (n : nat) : list (nat * nat) :=
  flat_map (fun a => map (pair a) (seq (S a) (n - S a))) (seq 0 n).

Lemma nodup_app_c18 {A} (l1 l2 : list A) :
  NoDup l1 -> NoDup l2 -> (forall x, In x l1 -> In x l2 -> False) -> NoDup (l1 ++ l2).
Proof.
  intros N1 N2 HD. induction N1 as [|a l1 Ha N1 IH]; [exact N2|].
  cbn [app]. constructor.
  - intros Hin. apply in_app_or in Hin. destruct Hin as [Hin|Hin]; [exact (Ha Hin)|].
    apply (HD a); [left; reflexivity|exact Hin].
  - apply IH. intros x H1 H2. apply (HD x); [right; exact H1|exact H2].
Qed.

Lemma nodup_flat_pairs (g : nat -> list nat) (l : list nat) :
  NoDup l -> (forall a, In a l -> NoDup (g a)) ->
  NoDup (flat_map (fun a => map (pair a) (g a)) l).
Proof.
  intros ND. induction ND as [|a l Ha ND IH]; intros Hg; [constructor|].
  cbn [flat_map]. apply nodup_app_c18.
  - apply FinFun.Injective_map_NoDup; [|apply Hg; left; reflexivity].
    intros x y E. injection E as E. exact E.
  - apply IH. intros a' Ha'. apply Hg. right; exact Ha'.
  - intros [x y] H1 H2. apply in_map_iff in H1. destruct H1 as (b & E & _). injection E as E1 E2.
    apply in_flat_map in H2. destruct H2 as (a' & Ha' & H2).
    apply in_map_iff in H2. destruct H2 as (b' & E' & _). injection E' as E1' E2'.
    subst. apply Ha. exact Ha'.
Qed.

Lemma pos_pairs_once : forall n,
  NoDup (pos_pairs n) /\ forall a b, In (a, b) (pos_pairs n) <-> a < b < n.
Proof.
  intros n. split.
  - unfold pos_pairs. apply nodup_flat_pairs; [apply seq_NoDup|]. intros a _. apply seq_NoDup.
  - intros a b. unfold pos_pairs. rewrite in_flat_map. split.
    + intros (a' & Ha' & Hin). apply in_map_iff in Hin. destruct Hin as (b' & E & Hb').
      injection E as E1 E2. subst. apply in_seq in Ha'. apply in_seq in Hb'. lia.
    + intros Hab. exists a. split; [apply in_seq; lia|].
      apply in_map_iff. exists b. split; [reflexivity|apply in_seq; lia].
Qed.

Lemma flat_map_map_c18 {A B C} (f : B -> list C) (g : A -> B) l :
  flat_map f (map g l) = flat_map (fun a => f (g a)) l.
Proof. induction l as [|a l IH]; [reflexivity|]. cbn [map flat_map]. rewrite IH. reflexivity. Qed.

Lemma map_flat_map_c18 {A B C} (g : B -> C) (f : A -> list B) l :
  map g (flat_map f l) = flat_map (fun a => map g (f a)) l.
Proof. induction l as [|a l IH]; [reflexivity|]. cbn [flat_map]. rewrite map_app, IH. reflexivity. Qed.

Lemma pos_pairs_S n :
  pos_pairs (S n) = map (pair 0) (seq 1 n) ++ map (fun ab => (S (fst ab), S (snd ab))) (pos_pairs n).
Proof.
  unfold pos_pairs. cbn [seq flat_map]. replace (S n - 1) with n by lia. f_equal.
  rewrite <- seq_shift, flat_map_map_c18, map_flat_map_c18.
  apply flat_map_ext. intros a. cbn [Nat.sub].
  rewrite <- seq_shift. rewrite !map_map. reflexivity.
Qed.

Lemma filter_map_c18 {A B} (P : B -> bool) (g : A -> B) l :
  filter P (map g l) = map g (filter (fun a => P (g a)) l).
Proof.
  induction l as [|a l IH]; [reflexivity|]. cbn [map filter]. destruct (P (g a)); cbn [map]; rewrite IH; reflexivity.
Qed.

Lemma map_filter_nth {A B} (G : A -> B) (Q : A -> bool) r d :
  map G (filter Q r) =
  map (fun k => G (nth k r d)) (filter (fun k => Q (nth k r d)) (seq 0 (length r))).
Proof.
  rewrite <- (map_seq_nth r d) at 1. rewrite filter_map_c18, map_map. reflexivity.
Qed.

Lemma all_pairs_positions : forall (l : list (Z * Z)) (d : Z * Z),
  all_pairs_from l =
  map (fun ab => (fst (nth (fst ab) l d), snd (nth (fst ab) l d), snd (nth (snd ab) l d)))
      (filter (fun ab => (fst (nth (snd ab) l d) =? fst (nth (fst ab) l d))%Z) (pos_pairs (length l))).
Proof.
  intros l d. induction l as [|p r IH]; [reflexivity|].
  cbn [all_pairs_from length]. rewrite pos_pairs_S, filter_app, map_app. f_equal.
  - rewrite (map_filter_nth _ _ r d).
    rewrite <- seq_shift. rewrite !filter_map_c18, !map_map. cbn [fst snd nth]. reflexivity.
  - rewrite IH. rewrite filter_map_c18, map_map. cbn [fst snd nth]. reflexivity.
Qed.

Lemma map_fst_combine_c18 {A B} (l1 : list A) (l2 : list B) :
  length l1 = length l2 -> map fst (combine l1 l2) = l1.
Proof.
  revert l2; induction l1 as [|a l1 IH]; intros [|b l2] H; cbn [length] in H; try lia; [reflexivity|].
  cbn [combine map fst]. rewrite IH by lia. reflexivity.
Qed.

Lemma sorted_rows_perm : forall i j, length i = length j -> Permutation (sorted_rows i j) (combine i j).
Proof.
  intros i j H. unfold sorted_rows.
  rewrite <- (map_fst_combine_c18 (combine i j) (seq 0 (length i))) at 2
    by (rewrite combine_length, seq_length; lia).
  apply Permutation_map. symmetry. apply tsort_perm.
Qed.

(* ================================================================ part 1: model = reference *)
(* ---------------------------------------------------------------- runs of the sorted label column *)
Definition expand (rl : list (Z * nat)) : list Z := concat (map (fun p => repeat (fst p) (snd p)) rl).

Lemma expand_cons p t : expand (p :: t) = repeat (fst p) (snd p) ++ expand t.
Proof. reflexivity. Qed.

Lemma expand_rle l : expand (rle l) = l.
Proof.
  induction l as [|x r IH]; [reflexivity|]. rewrite rle_cons.
  remember (rle r) as E eqn:HE. rewrite <- IH. clear IH HE.
  destruct E as [|p t]; [reflexivity|].
  destruct (Z.eqb_spec x (fst p)) as [Hx|Hx]; rewrite !expand_cons; cbn [fst snd repeat app].
  - rewrite Hx. reflexivity.
  - reflexivity.
Qed.

Definition pos_runs (rl : list (Z * nat)) : Prop := Forall (fun p => 0 < snd p) rl.

Lemma rle_pos l : pos_runs (rle l).
Proof.
  unfold pos_runs. induction l as [|x r IH]; [constructor|]. rewrite rle_cons.
  destruct (rle r) as [|p t]; [constructor; [cbn [snd]; lia|constructor]|].
  inversion IH as [|p' t' Hp Ht]; subst.
  destruct (x =? fst p)%Z; constructor; cbn [snd]; try lia; auto.
Qed.

Lemma zunique_rle l : zunique_sorted l = map fst (rle l).
Proof.
  induction l as [|x r IH]; [reflexivity|].
  destruct r as [|y r']; [reflexivity|].
  destruct (rle_shape y r') as (n & t & E).
  rewrite rle_cons, E. rewrite E in IH. cbn [fst].
  change (zunique_sorted (x :: y :: r')) with
    (if (x =? y)%Z then zunique_sorted (y :: r') else x :: zunique_sorted (y :: r')).
  destruct (Z.eqb_spec x y) as [Hxy|Hxy]; rewrite IH; cbn [map fst]; [rewrite Hxy|]; reflexivity.
Qed.

(* ---------------------------------------------------------------- r = cumsum(hstack([False], i[:-1] != i[1:])) *)
Lemma adj_diff_run x m rest : adj_diff (x :: repeat x m ++ rest) = repeat false m ++ adj_diff (x :: rest).
Proof.
  induction m as [|m IH]; [reflexivity|].
  cbn [repeat app]. rewrite adj_diff_cons2, Z.eqb_refl, IH. reflexivity.
Qed.

Lemma cumsum_false m acc rest :
  ncumsum_from acc (map b2n (repeat false m ++ rest)) = repeat acc m ++ ncumsum_from acc (map b2n rest).
Proof. rewrite map_app, map_repeat. cbn [b2n]. apply dm_cumsum_zeros. Qed.

Lemma dm_labels_cons o c r : dm_labels o (c :: r) = repeat o c ++ dm_labels (S o) r.
Proof. reflexivity. Qed.

Lemma labels_runs rl : rl <> [] -> pos_runs rl -> StronglySorted Z.lt (map fst rl) ->
  forall acc, acc :: ncumsum_from acc (map b2n (adj_diff (expand rl))) = dm_labels acc (map snd rl).
Proof.
  unfold pos_runs. induction rl as [|[x n] t IH]; intros HN HP HS acc; [congruence|].
  inversion HP as [|p' t' Hn HPt]; subst. cbn [snd] in Hn.
  destruct n as [|m]; [lia|].
  rewrite expand_cons. cbn [fst snd map]. rewrite dm_labels_cons. cbn [repeat app].
  destruct t as [|[y k] t'].
  - cbn [expand map concat]. rewrite adj_diff_run. cbn [adj_diff].
    rewrite cumsum_false. cbn [map ncumsum_from dm_labels]. reflexivity.
  - inversion HPt as [|p'' t'' Hk HPt']; subst. cbn [snd] in Hk.
    destruct k as [|k']; [lia|].
    specialize (IH ltac:(discriminate) HPt).
    cbn [map fst] in HS. inversion HS as [|x' l' HS' HF]; subst.
    inversion HF as [|y' l'' Hxy HF']; subst.
    specialize (IH HS' (S acc)).
    rewrite expand_cons in *. cbn [fst snd repeat app] in *.
    rewrite adj_diff_run, adj_diff_cons2.
    destruct (Z.eqb_spec x y) as [E|E]; [lia|]. cbn [negb].
    rewrite cumsum_false. cbn [map b2n ncumsum_from].
    replace (acc + 1) with (S acc) by lia. f_equal. f_equal. exact IH.
Qed.

(* ---------------------------------------------------------------- src_count = bincount(r) *)
Lemma ncount_app k l1 l2 : ncount k (l1 ++ l2) = ncount k l1 + ncount k l2.
Proof. unfold ncount. rewrite filter_app, app_length. reflexivity. Qed.

Lemma ncount_repeat k o c : ncount k (repeat o c) = if k =? o then c else 0.
Proof.
  unfold ncount. induction c as [|c IH]; [destruct (k =? o); reflexivity|].
  cbn [repeat filter]. destruct (k =? o); cbn [length]; rewrite IH; reflexivity.
Qed.

Lemma ncount_labels cnt : forall o k,
  ncount k (dm_labels o cnt) = if k <? o then 0 else getn cnt (k - o).
Proof.
  induction cnt as [|c r IH]; intros o k.
  - cbn [dm_labels]. unfold ncount, getn. cbn [filter length]. destruct (k <? o); [reflexivity|].
    destruct (k - o); reflexivity.
  - rewrite dm_labels_cons, ncount_app, ncount_repeat, IH. unfold getn.
    destruct (Nat.eqb_spec k o) as [E|E], (Nat.ltb_spec k (S o)), (Nat.ltb_spec k o); try lia.
    + subst. rewrite Nat.sub_diag. cbn [nth]. lia.
    + replace (k - o) with (S (k - S o)) by lia. cbn [nth]. lia.
Qed.

Lemma list_max_repeat o c : 0 < c -> list_max (repeat o c) = o.
Proof.
  induction c as [|c IH]; intros H; [lia|]. cbn [repeat list_max fold_right].
  destruct c as [|c']; [cbn [repeat fold_right]; lia|].
  change (fold_right Nat.max 0 (repeat o (S c'))) with (list_max (repeat o (S c'))).
  rewrite IH by lia. lia.
Qed.

Lemma list_max_labels cnt : cnt <> [] -> Forall (fun c => 0 < c) cnt ->
  forall o, S (list_max (dm_labels o cnt)) = o + length cnt.
Proof.
  induction cnt as [|c r IH]; intros HN HP o; [congruence|].
  inversion HP as [|c' r' Hc HPr]; subst.
  rewrite dm_labels_cons, list_max_app, list_max_repeat by exact Hc. cbn [length].
  destruct r as [|c2 r2].
  - cbn [dm_labels list_max fold_right length]. lia.
  - specialize (IH ltac:(discriminate) HPr (S o)). cbn [length] in *. lia.
Qed.

Lemma bincount_labels cnt : cnt <> [] -> Forall (fun c => 0 < c) cnt ->
  bincount (dm_labels 0 cnt) 0 = cnt.
Proof.
  intros HN HP. unfold bincount.
  pose proof (list_max_labels cnt HN HP 0) as HM.
  destruct (dm_labels 0 cnt) as [|a l] eqn:E.
  - destruct cnt as [|c r]; [congruence|]. inversion HP as [|c' r' Hc HPr]; subst.
    rewrite dm_labels_cons in E. destruct c; [lia|]. cbn [repeat app] in E. discriminate.
  - rewrite Nat.max_0_r, HM. cbn [Nat.add]. rewrite <- E.
    rewrite <- (map_getn_seq cnt) at 2. apply map_ext. intros k.
    rewrite ncount_labels. cbn [Nat.ltb Nat.leb]. rewrite Nat.sub_0_r. reflexivity.
Qed.

(* ---------------------------------------------------------------- offsets: src_idx, dest_idx, d_r *)
Lemma nadj_cumsum D : forall acc, nadj_diff (acc :: ncumsum_from acc D) = map (fun p => 0 <? p) D.
Proof.
  induction D as [|x r IH]; intros acc; [reflexivity|]. cbn [ncumsum_from].
  change (nadj_diff (acc :: acc + x :: ncumsum_from (acc + x) r))
    with (negb (acc =? acc + x) :: nadj_diff (acc + x :: ncumsum_from (acc + x) r)).
  rewrite IH. cbn [map]. f_equal.
  destruct (Nat.eqb_spec acc (acc + x)), (Nat.ltb_spec 0 x); try lia; reflexivity.
Qed.

Lemma cumsum0_nth D k : k <= length D -> getn (0 :: ncumsum D) k = nsum (firstn k D).
Proof.
  intros Hk. destruct k as [|k]; [reflexivity|]. unfold getn. cbn [nth]. unfold ncumsum.
  rewrite ncumsum_from_nth by lia. reflexivity.
Qed.

Lemma last_cumsum_from D : forall acc, last (acc :: ncumsum_from acc D) 0 = acc + nsum D.
Proof.
  induction D as [|x r IH]; intros acc; [cbn; lia|]. cbn [ncumsum_from].
  change (last (acc :: acc + x :: ncumsum_from (acc + x) r) 0)
    with (last (acc + x :: ncumsum_from (acc + x) r) 0).
  rewrite IH. unfold nsum. cbn [fold_right]. lia.
Qed.

Lemma src_idx_nth N g : g < length N -> getn (0 :: ncumsum (removelast N)) g = nsum (firstn g N).
Proof.
  intros Hg. destruct g as [|g]; [reflexivity|]. unfold getn. cbn [nth]. unfold ncumsum.
  rewrite removelast_firstn_len.
  rewrite ncumsum_from_nth by (rewrite firstn_length; lia).
  rewrite firstn_firstn. replace (Nat.min (S g) (pred (length N))) with (S g) by lia. reflexivity.
Qed.

Definition blocks {A} (G : nat) (F : nat -> list A) : list A := concat (map F (seq 0 G)).

Lemma blocks_ext {A} G (F F' : nat -> list A) : (forall o, o < G -> F o = F' o) -> blocks G F = blocks G F'.
Proof. intros H. unfold blocks. f_equal. apply map_ext_in. intros o Ho. apply in_seq in Ho. apply H. lia. Qed.

Lemma d_r_eq D :
  ncumsum (diff_marks (0 :: ncumsum D)
             (compress (nadj_diff (0 :: ncumsum D)) (seq 0 (length (0 :: ncumsum D) - 1)))
             (last (0 :: ncumsum D) 0))
  = blocks (length D) (fun o => repeat o (getn D o)).
Proof.
  unfold ncumsum at 2 3 4. rewrite last_cumsum_from, nadj_cumsum. cbn [length Nat.add].
  rewrite ncumsum_from_length. replace (S (length D) - 1) with (length D) by lia.
  apply diff_marks_spec. intros k Hk. apply cumsum0_nth. lia.
Qed.

Lemma map_blocks {B} (h : nat -> B) (c : nat -> nat) G :
  map h (blocks G (fun o => repeat o (c o))) = blocks G (fun o => repeat (h o) (c o)).
Proof. unfold blocks. rewrite map_concat_map. f_equal. apply map_ext. intros o. apply map_repeat. Qed.

Lemma map_blocks_gen {A B} (h : A -> B) (F : nat -> list A) G :
  map h (blocks G F) = blocks G (fun o => map h (F o)).
Proof. unfold blocks. apply map_concat_map. Qed.

Lemma map2_repeat_l {A B C} (f : A -> B -> C) l c : map2 f (repeat c (length l)) l = map (f c) l.
Proof. induction l as [|a l IH]; [reflexivity|]. cbn [length repeat map2 map]. rewrite IH. reflexivity. Qed.

Lemma map2_blocks_l {A B C} (f : A -> B -> C) (a : nat -> A) (c : nat -> nat) (Y : nat -> list B) G :
  (forall o, o < G -> length (Y o) = c o) ->
  map2 f (blocks G (fun o => repeat (a o) (c o))) (blocks G Y) = blocks G (fun o => map (f (a o)) (Y o)).
Proof.
  intros H. unfold blocks. rewrite map2_concat.
  - f_equal. apply map_ext_in. intros o Ho. apply in_seq in Ho. rewrite <- H by lia. apply map2_repeat_l.
  - intros o Ho. apply in_seq in Ho. rewrite repeat_length. symmetry. apply H. lia.
Qed.

Lemma length_blocks_repeat {A} (a : nat -> A) D :
  length (blocks (length D) (fun o => repeat (a o) (getn D o))) = nsum D.
Proof.
  unfold blocks. rewrite length_concat_map.
  rewrite (map_ext _ (getn D)) by (intros o; apply repeat_length). rewrite map_getn_seq. reflexivity.
Qed.

Lemma d_r_idx_eq D dest_idx : (forall k, k < length D -> getn dest_idx k = nsum (firstn k D)) ->
  map2 Nat.sub (seq 0 (length (blocks (length D) (fun o => repeat o (getn D o)))))
       (map (getn dest_idx) (blocks (length D) (fun o => repeat o (getn D o))))
  = blocks (length D) (fun o => seq 0 (getn D o)).
Proof.
  intros H. rewrite length_blocks_repeat, map_blocks, (seq_blocks D 0).
  unfold blocks. rewrite map2_concat by (intros o _; rewrite seq_length, repeat_length; reflexivity).
  f_equal. apply map_ext_in. intros o Ho. apply in_seq in Ho. rewrite H by lia. cbn [Nat.add].
  apply map2_sub_seq_repeat.
Qed.

Lemma combine_map2 {A B} (l1 : list A) (l2 : list B) : combine l1 l2 = map2 pair l1 l2.
Proof. revert l2; induction l1 as [|a l1 IH]; intros [|b l2]; cbn [combine map2]; try reflexivity. rewrite IH. reflexivity. Qed.

Lemma combine_blocks {A B} (X : nat -> list A) (Y : nat -> list B) G :
  (forall o, o < G -> length (X o) = length (Y o)) ->
  combine (blocks G X) (blocks G Y) = blocks G (fun o => combine (X o) (Y o)).
Proof.
  intros H. rewrite combine_map2. unfold blocks. rewrite map2_concat.
  - f_equal. apply map_ext. intros o. symmetry. apply combine_map2.
  - intros o Ho. apply in_seq in Ho. apply H. lia.
Qed.

(* ---------------------------------------------------------------- the triangular tables *)
Lemma tri_S n : tri (S n) = n + tri n.
Proof.
  unfold tri. replace (S n * (S n - 1)) with (n * (n - 1) + n * 2) by (destruct n; cbn [Nat.sub]; lia).
  rewrite Nat.div_add by lia. lia.
Qed.

Lemma pos_pairs_length n : length (pos_pairs n) = tri n.
Proof.
  induction n as [|n IH]; [reflexivity|].
  rewrite pos_pairs_S, app_length, !map_length, seq_length, IH, tri_S. reflexivity.
Qed.

Lemma v_j1_pairs n : concat (map (fun x => repeat x (n - x - 1)) (seq 0 n)) = map fst (pos_pairs n).
Proof.
  unfold pos_pairs. rewrite map_flat_map_c18, flat_map_concat_map. f_equal. apply map_ext. intros a.
  rewrite map_map. cbn [fst]. rewrite map_const_list, seq_length. f_equal. lia.
Qed.

Lemma v_j2_pairs n : concat (map (fun x => seq (x + 1) (n - (x + 1))) (seq 0 n)) = map snd (pos_pairs n).
Proof.
  unfold pos_pairs. rewrite map_flat_map_c18, flat_map_concat_map. f_equal. apply map_ext. intros a.
  rewrite map_map. cbn [snd]. rewrite map_id, Nat.add_1_r. reflexivity.
Qed.

(* ---------------------------------------------------------------- sparse lookup *)
Lemma sparse_get_app i1 j1 v1 i2 j2 v2 a b : length i1 = length j1 -> length j1 = length v1 ->
  sparse_get (i1 ++ i2) (j1 ++ j2) (v1 ++ v2) a b = sparse_get i1 j1 v1 a b + sparse_get i2 j2 v2 a b.
Proof.
  revert j1 v1. induction i1 as [|x i1 IH]; intros [|y j1] [|w v1] H1 H2; cbn [length] in *; try lia.
  - reflexivity.
  - cbn [app sparse_get]. rewrite IH by lia. lia.
Qed.

Lemma sparse_get_block V : forall c s a b,
  sparse_get (repeat c (length V)) (seq s (length V)) V a b =
  if (c =? a) && (s <=? b) && (b <? s + length V) then nth (b - s) V 0 else 0.
Proof.
  induction V as [|w V IH]; intros c s a b.
  - cbn [length repeat seq sparse_get].
    destruct (c =? a), (Nat.leb_spec s b), (Nat.ltb_spec b (s + 0)); cbn [andb]; try reflexivity; lia.
  - cbn [length repeat seq sparse_get]. rewrite IH.
    destruct (Nat.eqb_spec c a) as [E|E]; cbn [andb]; [|reflexivity].
    destruct (Nat.eqb_spec s b) as [E2|E2], (Nat.leb_spec s b), (Nat.leb_spec (S s) b),
      (Nat.ltb_spec b (s + S (length V))), (Nat.ltb_spec b (S s + length V)); cbn [andb]; try lia.
    + subst. rewrite Nat.sub_diag. cbn [nth]. lia.
    + replace (b - s) with (S (b - S s)) by lia. cbn [nth]. lia.
Qed.

Lemma sparse_one (V : nat -> list nat) c a b : (forall c, length (V c) = tri c) ->
  sparse_get (repeat c (tri c)) (seq 0 (tri c)) (V c) a b =
  if (c =? a) && (b <? tri c) then nth b (V c) 0 else 0.
Proof.
  intros HV. rewrite <- (HV c). rewrite sparse_get_block. cbn [Nat.leb Nat.add]. rewrite Nat.sub_0_r, andb_true_r.
  reflexivity.
Qed.

Lemma sparse_notin (V : nat -> list nat) U a b : (forall c, length (V c) = tri c) -> ~ In a U ->
  sparse_get (concat (map (fun c => repeat c (tri c)) U)) (concat (map (fun c => seq 0 (tri c)) U))
             (concat (map V U)) a b = 0.
Proof.
  intros HV. induction U as [|c U IH]; intros Hn; [reflexivity|]. cbn [map concat].
  rewrite sparse_get_app by (rewrite ?repeat_length, ?seq_length, ?HV; reflexivity).
  rewrite sparse_one, IH by (try exact HV; intros C; apply Hn; right; exact C).
  destruct (Nat.eqb_spec c a) as [E|E]; [exfalso; apply Hn; left; exact E|reflexivity].
Qed.

Lemma sparse_lookup (V : nat -> list nat) U a b : (forall c, length (V c) = tri c) ->
  NoDup U -> In a U -> b < tri a ->
  sparse_get (concat (map (fun c => repeat c (tri c)) U)) (concat (map (fun c => seq 0 (tri c)) U))
             (concat (map V U)) a b = nth b (V a) 0.
Proof.
  intros HV ND. induction ND as [|c U Hc ND IH]; intros Hin Hb; [contradiction|]. cbn [map concat].
  rewrite sparse_get_app by (rewrite ?repeat_length, ?seq_length, ?HV; reflexivity).
  rewrite sparse_one by exact HV. destruct (Nat.eqb_spec c a) as [E|E].
  - subst c. rewrite sparse_notin by assumption.
    destruct (Nat.ltb_spec b (tri a)); [cbn [andb]; lia|lia].
  - cbn [andb]. destruct Hin as [Hin|Hin]; [congruence|]. rewrite IH by assumption. reflexivity.
Qed.

Lemma map2_map_r {A B C} (f : A -> B -> C) (g : A -> B) l : map2 f l (map g l) = map (fun c => f c (g c)) l.
Proof. induction l as [|a l IH]; [reflexivity|]. cbn [map map2]. rewrite IH. reflexivity. Qed.

(* ---------------------------------------------------------------- np.unique of the sorted counts *)
Lemma nunique_In l x : In x (nunique_sorted l) <-> In x l.
Proof.
  induction l as [|a r IH]; [reflexivity|]. destruct r as [|b r']; [reflexivity|].
  change (nunique_sorted (a :: b :: r')) with
    (if a =? b then nunique_sorted (b :: r') else a :: nunique_sorted (b :: r')).
  destruct (Nat.eqb_spec a b) as [E|E].
  - rewrite IH. subst. cbn [In]. tauto.
  - cbn [In] in *. rewrite IH. tauto.
Qed.

Lemma nunique_NoDup l : StronglySorted le l -> NoDup (nunique_sorted l).
Proof.
  intros HS. induction HS as [|a r HS IH F]; [constructor|]. destruct r as [|b r']; [constructor; [intros []|constructor]|].
  change (nunique_sorted (a :: b :: r')) with
    (if a =? b then nunique_sorted (b :: r') else a :: nunique_sorted (b :: r')).
  destruct (Nat.eqb_spec a b) as [E|E]; [exact IH|]. constructor; [|exact IH].
  intros Hin. apply (proj1 (nunique_In _ _)) in Hin.
  inversion F as [|b' r'' Hab F']; subst. inversion HS as [|b' r'' HS' Fb]; subst.
  rewrite Forall_forall in Fb. destruct Hin as [Hin|Hin]; [lia|]. specialize (Fb a Hin). lia.
Qed.

Definition usizes (N : list nat) : list nat := nunique_sorted (map Z.to_nat (zsort (map Z.of_nat N))).

Lemma usizes_NoDup N : NoDup (usizes N).
Proof.
  unfold usizes. apply nunique_NoDup.
  eapply StronglySorted_map; [|apply zsort_sorted]. intros x y Hxy. lia.
Qed.

Lemma usizes_In N x : In x (usizes N) <-> In x N.
Proof.
  unfold usizes. rewrite nunique_In, in_map_iff. split.
  - intros (z & E & Hz). eapply Permutation_in in Hz; [|symmetry; apply zsort_perm].
    apply in_map_iff in Hz. destruct Hz as (n & En & Hn). subst. rewrite Nat2Z.id. exact Hn.
  - intros Hx. exists (Z.of_nat x). split; [apply Nat2Z.id|].
    eapply Permutation_in; [apply zsort_perm|]. apply in_map. exact Hx.
Qed.

(* ---------------------------------------------------------------- the reference, group by group *)
Fixpoint blk {T} (B : Z -> nat -> nat -> list T) (rl : list (Z * nat)) (s : nat) : list T :=
  match rl with
  | [] => []
  | p :: t => B (fst p) (snd p) s ++ blk B t (s + snd p)
  end.

Lemma blocks_blk {T} (B : Z -> nat -> nat -> list T) rl : forall s,
  blocks (length rl) (fun o => B (getz (map fst rl) o) (getn (map snd rl) o)
                                 (s + nsum (firstn o (map snd rl)))) = blk B rl s.
Proof.
  induction rl as [|p t IH]; intros s; [reflexivity|].
  unfold blocks in *. cbn [length seq map concat blk]. rewrite map_seq_shift.
  unfold getz at 1, getn at 1. cbn [nth firstn nsum fold_right]. rewrite Nat.add_0_r. f_equal.
  rewrite <- IH. f_equal. apply map_ext. intros o. unfold getz, getn. cbn [nth firstn].
  change (nsum (snd p :: firstn o (map snd t))) with (snd p + nsum (firstn o (map snd t))).
  f_equal. unfold nsum. lia.
Qed.

Lemma all_pairs_app l1 l2 : (forall p q, In p l1 -> In q l2 -> fst q <> fst p) ->
  all_pairs_from (l1 ++ l2) = all_pairs_from l1 ++ all_pairs_from l2.
Proof.
  induction l1 as [|p l1 IH]; intros HD; [reflexivity|].
  cbn [app all_pairs_from]. rewrite filter_app.
  rewrite (filter_none _ l2).
  - rewrite app_nil_r, IH, app_assoc; [reflexivity|].
    intros p' q Hp' Hq. apply HD; [right; exact Hp'|exact Hq].
  - apply Forall_forall. intros q Hq. apply Z.eqb_neq. apply HD; [left; reflexivity|exact Hq].
Qed.

Lemma all_pairs_group x ms :
  all_pairs_from (combine (repeat x (length ms)) ms) =
  map (fun ab => (x, nth (fst ab) ms 0%Z, nth (snd ab) ms 0%Z)) (pos_pairs (length ms)).
Proof.
  rewrite (all_pairs_positions _ (x, 0%Z)).
  assert (forall k, nth k (combine (repeat x (length ms)) ms) (x, 0%Z) = (x, nth k ms 0%Z)) as HN.
  { intros k. rewrite combine_nth by apply repeat_length. rewrite nth_repeat. reflexivity. }
  rewrite combine_length, repeat_length, Nat.min_id.
  rewrite filter_all.
  - apply map_ext. intros ab. rewrite !HN. reflexivity.
  - apply Forall_forall. intros ab _. rewrite !HN. cbn [fst]. apply Z.eqb_refl.
Qed.

Lemma expand_In rl z : In z (expand rl) -> In z (map fst rl).
Proof.
  induction rl as [|p t IH]; intros H; [contradiction|]. rewrite expand_cons in H.
  apply in_app_or in H. destruct H as [H|H].
  - apply repeat_spec in H. left. symmetry. exact H.
  - right. apply IH. exact H.
Qed.

Lemma expand_length rl : length (expand rl) = nsum (map snd rl).
Proof.
  induction rl as [|p t IH]; [reflexivity|]. rewrite expand_cons, app_length, repeat_length, IH. reflexivity.
Qed.

Lemma nth_skipn_c18 {A} n : forall (l : list A) k d, nth k (skipn n l) d = nth (n + k) l d.
Proof.
  induction n as [|n IH]; intros l k d; [reflexivity|]. destruct l as [|a l]; [destruct k; reflexivity|].
  cbn [skipn Nat.add nth]. apply IH.
Qed.

Lemma nth_firstn_c18 {A} n : forall (l : list A) k d, k < n -> nth k (firstn n l) d = nth k l d.
Proof.
  induction n as [|n IH]; intros l k d Hk; [lia|]. destruct l as [|a l]; [reflexivity|].
  destruct k as [|k]; [reflexivity|]. cbn [firstn nth]. apply IH. lia.
Qed.

Lemma combine_app_c18 {A B} (a1 a2 : list A) (b1 b2 : list B) : length a1 = length b1 ->
  combine (a1 ++ a2) (b1 ++ b2) = combine a1 b1 ++ combine a2 b2.
Proof. intros H. rewrite !combine_map2. apply map2_app. exact H. Qed.

Definition out_block (j1 : list Z) (x : Z) (n s : nat) : list (Z * Z * Z) :=
  map (fun ab => (x, getz j1 (s + fst ab), getz j1 (s + snd ab))) (pos_pairs n).

Lemma ref_blk j1 rl : StronglySorted Z.lt (map fst rl) ->
  forall (js : list Z) s, length js = nsum (map snd rl) ->
  (forall k, k < length js -> nth k js 0%Z = getz j1 (s + k)) ->
  all_pairs_from (combine (expand rl) js) = blk (out_block j1) rl s.
Proof.
  induction rl as [|[x n] t IH]; intros HS js s HL Hjs; [reflexivity|].
  cbn [map fst snd] in HS, HL. change (nsum (n :: map snd t)) with (n + nsum (map snd t)) in HL.
  inversion HS as [|x' l' HS' HF]; subst.
  rewrite expand_cons. cbn [fst snd blk].
  rewrite <- (firstn_skipn n js) at 1.
  assert (length (firstn n js) = n) as HLf by (apply firstn_length_le; lia).
  rewrite combine_app_c18 by (rewrite repeat_length, HLf; reflexivity).
  rewrite all_pairs_app.
  - f_equal.
    + rewrite <- HLf at 1. rewrite all_pairs_group, HLf. unfold out_block.
      apply map_ext_in. intros [a b] Hab. apply (proj2 (pos_pairs_once n)) in Hab. cbn [fst snd].
      rewrite !nth_firstn_c18 by lia. rewrite !Hjs by lia. reflexivity.
    + apply IH; [exact HS'|rewrite skipn_length; lia|].
      intros k Hk. rewrite skipn_length in Hk. rewrite nth_skipn_c18, Hjs by lia. f_equal. lia.
  - intros [p1 p2] [q1 q2] Hp Hq. apply in_combine_l in Hp, Hq. apply repeat_spec in Hp.
    apply expand_In in Hq. rewrite Forall_forall in HF. specialize (HF q1 Hq). cbn [fst]. lia.
Qed.

(* ---------------------------------------------------------------- the model, stage by stage *)
Definition pw_col (N src_idx : list nat) (j1 : list Z) (d_r d_r_idx U v : list nat) : list Z :=
  let unique_dest_len := map tri U in
  let i_sparse := concat (map2 (fun c dlen => repeat c dlen) U unique_dest_len) in
  let j_sparse := concat (map (fun dlen => seq 0 dlen) unique_dest_len) in
  map (getz j1) (map2 Nat.add (map (getn src_idx) d_r)
                      (map2 (sparse_get i_sparse j_sparse v) (map (getn N) d_r) d_r_idx)).

Definition pw_tail (X : list Z) (N : list nat) (j1 : list Z) : list Z * list Z * list Z :=
  let src_idx := 0 :: ncumsum (removelast N) in
  let dest_count := map tri N in
  let dest_idx := 0 :: ncumsum dest_count in
  let dest_size := last dest_idx 0 in
  let not_empty := compress (nadj_diff dest_idx) (seq 0 (length dest_idx - 1)) in
  let d_r := ncumsum (diff_marks dest_idx not_empty dest_size) in
  let d_r_idx := map2 Nat.sub (seq 0 (length d_r)) (map (getn dest_idx) d_r) in
  let U := usizes N in
  (map (getz X) d_r,
   pw_col N src_idx j1 d_r d_r_idx U
     (concat (map (fun n => concat (map (fun x => repeat x (n - x - 1)) (seq 0 n))) U)),
   pw_col N src_idx j1 d_r d_r_idx U
     (concat (map (fun n => concat (map (fun x => seq (x + 1) (n - (x + 1))) (seq 0 n))) U))).

Definition pairwise_body (i1 j1 : list Z) : list Z * list Z * list Z :=
  pw_tail (zunique_sorted (zsort i1)) (bincount (ncumsum (0 :: map b2n (adj_diff i1))) 0) j1.

Lemma pairwise_unfold i j :
  pairwise_permutations i j =
  match i with
  | [] => ([], [], [])
  | _ => pairwise_body (map (getz i) (lexsort j i)) (map (getz j) (lexsort j i))
  end.
Proof. reflexivity. Qed.

Lemma getn_map_tri N o : o < length N -> getn (map tri N) o = tri (getn N o).
Proof. intros H. unfold getn. apply nth_map_lt. exact H. Qed.

Lemma getn_In N o : o < length N -> In (getn N o) N.
Proof. intros H. unfold getn. apply nth_In. exact H. Qed.

Lemma sparse_col_eq (V : nat -> list nat) N :
  (forall c, length (V c) = tri c) ->
  map2 (sparse_get (concat (map (fun c => repeat c (tri c)) (usizes N)))
                   (concat (map (fun c => seq 0 (tri c)) (usizes N)))
                   (concat (map V (usizes N))))
       (blocks (length N) (fun o => repeat (getn N o) (getn (map tri N) o)))
       (blocks (length N) (fun o => seq 0 (getn (map tri N) o)))
  = blocks (length N) (fun o => V (getn N o)).
Proof.
  intros HV. rewrite map2_blocks_l by (intros o _; apply seq_length).
  apply blocks_ext. intros o Ho. rewrite getn_map_tri by exact Ho. rewrite <- (HV (getn N o)).
  rewrite <- (map_seq_nth (V (getn N o)) 0) at 2. apply map_ext_in. intros t Ht. apply in_seq in Ht.
  apply sparse_lookup; [exact HV|apply usizes_NoDup|apply usizes_In, getn_In; exact Ho|].
  rewrite <- (HV (getn N o)). lia.
Qed.

Lemma pw_col_eq (V : nat -> list nat) N src_idx j1 :
  (forall c, length (V c) = tri c) ->
  (forall g, g < length N -> getn src_idx g = nsum (firstn g N)) ->
  pw_col N src_idx j1
    (blocks (length N) (fun o => repeat o (getn (map tri N) o)))
    (blocks (length N) (fun o => seq 0 (getn (map tri N) o)))
    (usizes N) (concat (map V (usizes N)))
  = blocks (length N) (fun o => map (fun t => getz j1 (nsum (firstn o N) + t)) (V (getn N o))).
Proof.
  intros HV Hsrc. unfold pw_col. cbv zeta.
  rewrite map2_map_r, map_map, !map_blocks.
  rewrite sparse_col_eq by exact HV.
  rewrite map2_blocks_l by (intros o Ho; rewrite HV, getn_map_tri by exact Ho; reflexivity).
  rewrite map_blocks_gen. apply blocks_ext. intros o Ho. rewrite map_map, Hsrc by exact Ho. reflexivity.
Qed.

Lemma length_blocks_D {A} (F : nat -> list A) D :
  (forall o, o < length D -> length (F o) = getn D o) -> length (blocks (length D) F) = nsum D.
Proof.
  intros H. unfold blocks. rewrite length_concat_map.
  rewrite (map_ext_in _ (getn D)) by (intros o Ho; apply in_seq in Ho; apply H; lia).
  rewrite map_getn_seq. reflexivity.
Qed.

Lemma combine3_block {A} (x : Z) m (f g : A -> Z) P : m = length P ->
  combine (combine (repeat x m) (map f P)) (map g P) = map (fun ab => (x, f ab, g ab)) P.
Proof.
  intros ->. induction P as [|a P IH]; [reflexivity|]. cbn [length repeat map combine]. rewrite IH. reflexivity.
Qed.

Lemma pw_tail_eq X N j1 :
  let '(di, d1, d2) := pw_tail X N j1 in
  length di = length d1 /\ length d1 = length d2 /\
  combine (combine di d1) d2 =
  blocks (length N) (fun o => out_block j1 (getz X o) (getn N o) (0 + nsum (firstn o N))).
Proof.
  unfold pw_tail. cbv zeta.
  rewrite d_r_eq. rewrite d_r_idx_eq by (intros k Hk; apply cumsum0_nth; lia).
  rewrite (map_length tri N).
  rewrite (map_ext _ _ v_j1_pairs), (map_ext _ _ v_j2_pairs).
  rewrite !pw_col_eq;
    try (intros c; rewrite map_length; apply pos_pairs_length);
    try (intros g Hg; apply src_idx_nth; exact Hg).
  rewrite map_blocks.
  assert (length (map tri N) = length N) as HLN by apply map_length.
  split; [|split].
  - rewrite <- HLN. rewrite length_blocks_repeat.
    rewrite length_blocks_D; [reflexivity|].
    intros o Ho. rewrite HLN in Ho. rewrite !map_length, pos_pairs_length, getn_map_tri by exact Ho. reflexivity.
  - rewrite <- HLN. rewrite !length_blocks_D; [reflexivity| |];
    intros o Ho; rewrite HLN in Ho; rewrite !map_length, pos_pairs_length, getn_map_tri by exact Ho; reflexivity.
  - rewrite combine_blocks.
    2:{ intros o Ho. rewrite repeat_length, !map_length, pos_pairs_length, getn_map_tri by exact Ho. reflexivity. }
    rewrite combine_blocks.
    2:{ intros o Ho. rewrite combine_length, repeat_length, !map_length, pos_pairs_length, getn_map_tri by exact Ho.
        apply Nat.min_id. }
    apply blocks_ext. intros o Ho. rewrite !map_map.
    rewrite combine3_block by (rewrite pos_pairs_length, getn_map_tri by exact Ho; reflexivity).
    reflexivity.
Qed.

Lemma pairwise_body_ref i1 j1 : i1 <> [] -> length i1 = length j1 -> StronglySorted Z.le i1 ->
  let '(di, d1, d2) := pairwise_body i1 j1 in
  length di = length d1 /\ length d1 = length d2 /\
  combine (combine di d1) d2 = all_pairs_from (combine i1 j1).
Proof.
  intros HN HL HS. unfold pairwise_body.
  assert (zsort i1 = i1) as Hz.
  { symmetry. apply sorted_perm_eq; [exact HS|apply zsort_sorted|apply zsort_perm]. }
  rewrite Hz, zunique_rle.
  pose proof (expand_rle i1) as HE. pose proof (rle_pos i1) as HP. pose proof (rle_sorted i1 HS) as HSS.
  remember (rle i1) as rl eqn:Hrl. clear Hrl.
  assert (rl <> []) as HNr. { intros ->. apply HN. symmetry. exact HE. }
  assert (Forall (fun c => 0 < c) (map snd rl)) as HPs.
  { unfold pos_runs in HP. rewrite Forall_forall in *. intros c Hc. apply in_map_iff in Hc.
    destruct Hc as (p & <- & Hp). apply HP. exact Hp. }
  assert (ncumsum (0 :: map b2n (adj_diff i1)) = dm_labels 0 (map snd rl)) as Hr.
  { rewrite <- HE. unfold ncumsum. cbn [ncumsum_from Nat.add]. apply labels_runs; assumption. }
  rewrite Hr. rewrite bincount_labels; [|intros C; apply HNr; destruct rl; [reflexivity|discriminate]|exact HPs].
  pose proof (pw_tail_eq (map fst rl) (map snd rl) j1) as HT.
  destruct (pw_tail (map fst rl) (map snd rl) j1) as [[di d1] d2].
  destruct HT as (H1 & H2 & H3). split; [exact H1|split; [exact H2|]].
  rewrite H3, map_length, (blocks_blk (out_block j1) rl 0).
  symmetry. rewrite <- HE. apply ref_blk; [exact HSS| |intros k _; reflexivity].
  rewrite <- HL, <- HE. apply expand_length.
Qed.

(* ---------------------------------------------------------------- the sorted rows *)
Lemma combine_map_map {A B C} (f : A -> B) (g : A -> C) l :
  combine (map f l) (map g l) = map (fun x => (f x, g x)) l.
Proof. induction l as [|a l IH]; [reflexivity|]. cbn [map combine]. rewrite IH. reflexivity. Qed.

Lemma sorted_columns i j : length i = length j ->
  map (getz i) (lexsort j i) = map t_k1 (tsort (combine (combine i j) (seq 0 (length i)))) /\
  map (getz j) (lexsort j i) = map t_k2 (tsort (combine (combine i j) (seq 0 (length i)))).
Proof.
  intros HL. pose proof (lexsort_triples j i HL) as F. rewrite Forall_forall in F.
  unfold lexsort. rewrite !map_map. split; apply map_ext_in; intros t Ht; destruct (F t Ht) as (E1 & E2 & _);
    symmetry; assumption.
Qed.

Theorem pairwise_model_ref : forall i j : list Z, length i = length j ->
  let '(di, d1, d2) := pairwise_permutations i j in
  length di = length d1 /\ length d1 = length d2 /\
  combine (combine di d1) d2 = pairwise_ref i j.
Proof.
  intros i j HL. rewrite pairwise_unfold.
  destruct i as [|i0 i'] eqn:Hi; [destruct j; [|discriminate]; repeat split|]. rewrite <- Hi in *.
  destruct (sorted_columns i j HL) as (E1 & E2). rewrite E1, E2.
  set (T := tsort (combine (combine i j) (seq 0 (length i)))).
  assert (length T = length i) as HLT.
  { unfold T. transitivity (length (combine (combine i j) (seq 0 (length i)))).
    - symmetry. exact (Permutation_length (tsort_perm (combine (combine i j) (seq 0 (length i))))).
    - rewrite !combine_length, seq_length. lia. }
  pose proof (pairwise_body_ref (map t_k1 T) (map t_k2 T)) as HB.
  destruct (pairwise_body (map t_k1 T) (map t_k2 T)) as [[di d1] d2].
  replace (pairwise_ref i j) with (all_pairs_from (combine (map t_k1 T) (map t_k2 T))).
  - apply HB.
    + intros C. apply (f_equal (@length Z)) in C. rewrite map_length, HLT, Hi in C. discriminate.
    + rewrite !map_length. reflexivity.
    + eapply StronglySorted_map; [|apply tsort_sorted]. intros x y. apply tleb_k1.
  - unfold pairwise_ref, sorted_rows. fold T. rewrite combine_map_map. f_equal.
    apply map_ext. intros [[a b] k]. reflexivity.
Qed.

Theorem pairwise_once : forall i j : list Z, length i = length j ->
  let '(di, d1, d2) := pairwise_permutations i j in
  let rows := sorted_rows i j in
  Permutation rows (combine i j) /\
  combine (combine di d1) d2 =
    map (fun ab => (fst (nth (fst ab) rows (0,0)%Z), snd (nth (fst ab) rows (0,0)%Z), snd (nth (snd ab) rows (0,0)%Z)))
        (filter (fun ab => (fst (nth (snd ab) rows (0,0)%Z) =? fst (nth (fst ab) rows (0,0)%Z))%Z) (pos_pairs (length rows))).
Proof.
  intros i j HL. pose proof (pairwise_model_ref i j HL) as HM.
  destruct (pairwise_permutations i j) as [[di d1] d2]. destruct HM as (_ & _ & HM). cbv zeta.
  split; [apply sorted_rows_perm; exact HL|].
  rewrite HM. unfold pairwise_ref. apply all_pairs_positions.
Qed.

(* ---------------------------------------------------------------- examples *)
Example pairwise_ex1 :
  pairwise_permutations [1;1;1;2;2;2;2]%Z [1;2;3;1;4;5;6]%Z =
  ([1;1;1;2;2;2;2;2;2]%Z, [1;1;2;1;1;1;4;4;5]%Z, [2;3;3;4;5;6;5;6;6]%Z).
Proof. vm_compute. reflexivity. Qed.

Example pairwise_ex1_ref :
  let '(di, d1, d2) := pairwise_permutations [1;1;1;2;2;2;2]%Z [1;2;3;1;4;5;6]%Z in
  combine (combine di d1) d2 = pairwise_ref [1;1;1;2;2;2;2]%Z [1;2;3;1;4;5;6]%Z.
Proof. vm_compute. reflexivity. Qed.

(* unsorted input, a singleton group (label 7), a negative label, a duplicate member *)
Example pairwise_ex2 :
  pairwise_permutations [3;-1;7;3;-1;3]%Z [5;2;9;4;2;6]%Z =
  ([-1;3;3;3]%Z, [2;4;4;5]%Z, [2;5;6;6]%Z).
Proof. vm_compute. reflexivity. Qed.

Example pairwise_ex2_ref :
  let '(di, d1, d2) := pairwise_permutations [3;-1;7;3;-1;3]%Z [5;2;9;4;2;6]%Z in
  combine (combine di d1) d2 = pairwise_ref [3;-1;7;3;-1;3]%Z [5;2;9;4;2;6]%Z.
Proof. vm_compute. reflexivity. Qed.

Print Assumptions pairwise_model_ref.
Print Assumptions pairwise_once.
Print Assumptions pos_pairs_once.
Print Assumptions all_pairs_positions.
